(* trace-validation session: static tables are loaded line by line, then the observed events are replayed on the
   extracted model (Sched.Timing.apply / Sched.Plane.dapply). Replies are structured; Python decides verdicts. *)
open Model
open Util

let err_str = function
  | EBackwards i -> Printf.sprintf "backwards %d" (int_of_nat i) | EPast i -> Printf.sprintf "past %d" (int_of_nat i)
  | EReply i -> Printf.sprintf "reply %d" (int_of_nat i) | EOutTime i -> Printf.sprintf "outtime %d" (int_of_nat i)
  | ENotEnabled i -> Printf.sprintf "notenabled %d" (int_of_nat i) | EMaxAdv i -> Printf.sprintf "maxadv %d" (int_of_nat i)
  | ELoopExpected i -> Printf.sprintf "loopexpected %d" (int_of_nat i) | EBadEvent -> "badevent"

let tbl () = Hashtbl.create 16
let n = ref 0 and until_ = ref 0 and maxl = ref 100 and lazy_ = ref true and cache_ = ref true
let depth_t = tbl () and init = tbl () and indel = tbl () and succl = tbl () and succw = tbl () and trig = tbl ()
and anc = tbl () and outreq = tbl () and tb = tbl () and pulled = tbl () and pushes = tbl () and iouts = tbl () and ipers = tbl ()
let st = ref None and dt = ref None and s = ref None and ds = ref None and dead = ref false
let add h k v = Hashtbl.replace h k ((try Hashtbl.find h k with Not_found -> []) @ [v])
let get h k = try Hashtbl.find h k with Not_found -> []
let reset () =
  Hashtbl.reset depth_t; Hashtbl.reset init; Hashtbl.reset indel; Hashtbl.reset succl; Hashtbl.reset succw; Hashtbl.reset trig;
  Hashtbl.reset anc; Hashtbl.reset outreq; Hashtbl.reset tb; Hashtbl.reset pulled; Hashtbl.reset pushes; Hashtbl.reset iouts; Hashtbl.reset ipers;
  st := None; dt := None; s := None; ds := None; dead := false

let next_time tk = next_zlist tk
let next_interval tk = let p = next_nat tk in let c = next_nat tk in let ts = next_zlist tk in { ipre = p; icut = c; itiers = ts }
let str_time t = String.concat ":" (List.map (fun z -> string_of_int (int_of_z z)) t)
let canon (inp : idata) =
  List.sort compare (List.concat_map (fun (a, m) -> List.map (fun (src, v) ->
    (int_of_nat a, int_of_nat src, (match v with Some z -> Some (int_of_z z) | None -> None))) m) inp)
let show_inp l = String.concat ";" (List.map (fun (a, src, v) -> Printf.sprintf "%d<-%d=%s" a src (match v with Some 0 -> "N" | Some x -> string_of_int x | None -> "N")) l)   (* token 0 is the value None produced by a simulator *)
let str_guard = function GNotWaiting -> "notwaiting" | GInput k -> Printf.sprintf "input:%d" (int_of_nat k)
  | GAsync j -> Printf.sprintf "async:%d" (int_of_nat j) | GLazy j -> Printf.sprintf "lazy:%d" (int_of_nat j)
let rec pairs_attr tk = match tk.rest with [] -> [] | _ -> let a = next_nat tk in let v = next_z tk in (a, v) :: pairs_attr tk

let the r what = match !r with Some x -> x | None -> failwith ("no " ^ what)

let sched_cmd cmd tk = match cmd with
  | "S_NEW" -> reset (); n := next_int tk; until_ := next_int tk; maxl := next_int tk; lazy_ := next_bool tk; cache_ := next_bool tk; Some "ok"
  | "S_SIM" -> let i = next_int tk in Hashtbl.replace depth_t i (next_int tk); Hashtbl.replace outreq i (next_bool tk); Hashtbl.replace tb i (next_bool tk); Some "ok"
  | "S_INIT" -> let i = next_int tk in add init i (next_time tk); Some "ok"
  | "S_INDEL" -> let j = next_int tk in let k = next_nat tk in add indel j (k, next_interval tk); Some "ok"
  | "S_SUCC" -> let i = next_int tk in let j = next_nat tk in add succl i (j, next_interval tk); Some "ok"
  | "S_SUCCW" -> let i = next_int tk in let j = next_nat tk in add succw i (j, next_interval tk); Some "ok"
  | "S_TRIG" -> let i = next_int tk in let p = next_int tk in let d = next_nat tk in add trig (i, p) (d, next_interval tk); Some "ok"
  | "S_ANC" -> let i = next_int tk in let a = next_nat tk in add anc i (a, next_interval tk); Some "ok"
  | "S_PULL" -> let dst = next_int tk in let src = next_int tk in let sh = next_int tk in let sa = next_int tk in let da = next_int tk in
      let key = (src, sh) in let cur = get pulled dst in
      (if List.mem_assoc key cur then Hashtbl.replace pulled dst (List.map (fun (k, v) -> if k = key then (k, v @ [(sa, da)]) else (k, v)) cur)
       else Hashtbl.replace pulled dst (cur @ [(key, [(sa, da)])])); Some "ok"
  | "S_PUSH" -> let src = next_int tk in let sa = next_int tk in let dst = next_int tk in let sh = next_int tk in let da = next_int tk in
      let cur = get pushes src in
      (if List.mem_assoc sa cur then Hashtbl.replace pushes src (List.map (fun (k, v) -> if k = sa then (k, v @ [(dst, sh, da)]) else (k, v)) cur)
       else Hashtbl.replace pushes src (cur @ [(sa, [(dst, sh, da)])])); Some "ok"
  | "S_IOUT" -> let i = next_int tk in let t = next_z tk in add iouts i (t, pairs_attr tk); Some "ok"
  | "S_IPERS" -> let i = next_int tk in let a = next_int tk in let src = next_nat tk in
      let v = (match tk.rest with [] -> None | _ -> Some (next_z tk)) in
      let cur = get ipers i in let m = (try List.assoc a cur with Not_found -> []) in
      Hashtbl.replace ipers i ((List.remove_assoc a cur) @ [(a, m @ [(src, v)])]); Some "ok"
  | "S_GO" ->
      let stat = { nsims = nat_of_int !n;
        depth = (fun i -> nat_of_int (try Hashtbl.find depth_t (int_of_nat i) with Not_found -> 1));
        init_nexts = (fun i -> get init (int_of_nat i));
        indel = (fun i -> get indel (int_of_nat i));
        succ_lazy = (fun i -> get succl (int_of_nat i));
        succ_wait = (fun i -> get succw (int_of_nat i));
        trig = (fun i p -> get trig (int_of_nat i, int_of_nat p));
        anc = (fun i -> get anc (int_of_nat i));
        outreq = (fun i -> try Hashtbl.find outreq (int_of_nat i) with Not_found -> false);
        timebased = (fun i -> try Hashtbl.find tb (int_of_nat i) with Not_found -> false);
        until = z_of_int !until_; maxloop = z_of_int !maxl; lazy0 = !lazy_ } in
      let dstat = { d_cache = !cache_;
        pulled = (fun i -> List.map (fun ((src, sh), fl) -> ((nat_of_int src, z_of_int sh), List.map (fun (a, b) -> (nat_of_int a, nat_of_int b)) fl)) (get pulled (int_of_nat i)));
        pushes = (fun i -> List.map (fun (sa, dl) -> (nat_of_int sa, List.map (fun (dst, sh, da) -> ((nat_of_int dst, z_of_int sh), nat_of_int da)) dl)) (get pushes (int_of_nat i)));
        init_outputs = (fun i -> get iouts (int_of_nat i));
        init_persist = (fun i -> List.map (fun (a, m) -> (nat_of_int a, m)) (get ipers (int_of_nat i))) } in
      st := Some stat; dt := Some dstat; s := Some (init_state stat); ds := Some (init_dstate dstat); Some "ok"
  | "S_EV" ->
      if !dead then Some "dead" else begin
      let stat = the st "static" and dstat = the dt "dstatic" and cur = the s "state" and dcur = the ds "dstate" in
      let run e = (match dapply stat dstat (cur, dcur) e with
        | DOk (s', ds', inp) -> s := Some s'; ds := Some ds'; (match inp with Some m -> "ok inputs=" ^ show_inp (canon m) | None -> "ok")
        | DErr er -> dead := true; "err " ^ err_str er
        | DAsyncRefused (i, j) -> Printf.sprintf "asyncrefused %d %d" (int_of_nat i) (int_of_nat j)) in
      let ev = next tk in
      Some (match ev with
      | "START" -> run (DEv (EvStart (next_nat tk)))
      | "BEGIN" -> let i = next_nat tk in let t = next_time tk in
          let g = failing_guards stat cur i in
          if g <> [] then begin dead := true; "guards " ^ String.concat "," (List.map str_guard g) end else
          (match begin_preview stat cur i with
           | None -> dead := true; "err nonext"
           | Some (t', m') ->
               if t' <> t then begin dead := true; "timemismatch model=" ^ str_time t' end else
               let r = run (DBegin (i, t, m')) in
               if String.length r >= 2 && String.sub r 0 2 = "ok" then Printf.sprintf "ok maxadv=%d %s" (int_of_z m') (String.sub r 3 (String.length r - 3)) else r)
      | "STEP" -> let i = next_nat tk in let v = next tk in
          run (DEv (EvStep (i, (if v = "N" then None else Some (z_of_int (int_of_string v))))))
      | "STEPBAD" -> run (DEv (EvStepBad (next_nat tk)))
      | "DATA" -> let i = next_nat tk in let ot = next_z tk in let ps = next_list next_nat tk in
          run (DData (i, ot, ps, pairs_attr tk))
      | "SETDATA" -> let i = next_nat tk in let w = next_nat tk in let j = next_nat tk in let a = next_nat tk in let v = next_z tk in run (DSetData (i, w, j, a, v))
      | "GETDATA" -> let i = next_nat tk in let j = next_nat tk in
          (* an asynchronous get_data request of i towards j: the permission test of MosaikRemote._assert_async_requests,
             which set_data shares; the state is not changed *)
          (match dapply stat dstat (cur, dcur) (DSetData (i, nat_of_int 0, j, nat_of_int 0, z_of_int 0)) with
           | DAsyncRefused (a, b) -> Printf.sprintf "asyncrefused %d %d" (int_of_nat a) (int_of_nat b)
           | _ -> "ok")
      | "LOOPFAIL" -> run (DEv (EvLoopFail (next_nat tk)))
      | "QUIESCE" -> (match enabled_sims stat cur with [] -> "ok" | l -> "enabled " ^ String.concat "," (List.map (fun i -> string_of_int (int_of_nat i)) l))
      | "END" -> Printf.sprintf "alldone=%b" (all_done stat cur)
      | "PROG" -> let i = next_nat tk in str_time (cur i).prog
      | "STATE" -> let i = next_nat tk in
          (* progress and the sorted queue of one simulator, as the harness prints them *)
          let lt a b = Model.tlt a b in
          let sorted = List.sort (fun a b -> if lt a b then -1 else if lt b a then 1 else 0) (cur i).nexts in
          str_time (cur i).prog ^ ";" ^ String.concat "," (List.map str_time sorted)
      | _ -> failwith ("bad event " ^ ev)) end
  | _ -> None
