(* line-protocol driver around the extracted model: one request per line, one reply per line *)
open Model
open Util

let next_ginterval tk = let p = next_z tk in let c = next_z tk in let ts = next_zlist tk in
  { tieredInterval_pre_length = p; tieredInterval_cutoff = c; tieredInterval_tiers = ts }
let next_interval tk = let p = next_nat tk in let c = next_nat tk in let ts = next_zlist tk in
  { ipre = p; icut = c; itiers = ts }
let str_ginterval g = Printf.sprintf "%d %d %s" (int_of_z g.tieredInterval_pre_length) (int_of_z g.tieredInterval_cutoff) (str_zlist g.tieredInterval_tiers)
let str_interval a = Printf.sprintf "%d %d %s" (int_of_nat a.ipre) (int_of_nat a.icut) (str_zlist a.itiers)
let str_res f = function Ok x -> "ok " ^ f x | AssertFail -> "assert"
let str_opt f = function Some x -> "ok " ^ f x | None -> "assert"

let time_cmd cmd tk = match cmd with
  | "g_new" -> let ts = next_zlist tk in let c = next_opt next_z tk in let p = next_opt next_z tk in
      str_res str_ginterval (tieredInterval_new ts c p)
  | "g_iadd" -> let a = next_ginterval tk in let b = next_ginterval tk in str_res str_ginterval (tieredInterval___add__ a b)
  | "g_ilt" -> let a = next_ginterval tk in let b = next_ginterval tk in str_res str_bool (tieredInterval___lt__ a b)
  | "g_ile" -> let a = next_ginterval tk in let b = next_ginterval tk in str_res str_bool (tieredInterval___le__ a b)
  | "g_igt" -> let a = next_ginterval tk in let b = next_ginterval tk in str_res str_bool (tieredInterval___gt__ a b)
  | "g_ige" -> let a = next_ginterval tk in let b = next_ginterval tk in str_res str_bool (tieredInterval___ge__ a b)
  | "g_ieq" -> let a = next_ginterval tk in let b = next_ginterval tk in "ok " ^ str_bool (tieredInterval___eq__ a b)
  | "g_tadd" -> let t = next_zlist tk in let a = next_ginterval tk in str_res (fun r -> str_zlist r) (tieredTime___add__ t a)
  | "g_tlt" -> let a = next_zlist tk in let b = next_zlist tk in str_res str_bool (tieredTime___lt__ a b)
  | "g_tle" -> let a = next_zlist tk in let b = next_zlist tk in str_res str_bool (tieredTime___le__ a b)
  | "g_tgt" -> let a = next_zlist tk in let b = next_zlist tk in str_res str_bool (tieredTime___gt__ a b)
  | "g_tge" -> let a = next_zlist tk in let b = next_zlist tk in str_res str_bool (tieredTime___ge__ a b)
  | "g_updmin" -> let a = next_opt next_ginterval tk in let b = next_ginterval tk in
      str_res (function None -> "none" | Some g -> "some " ^ str_ginterval g) (update_min a b)
  | "s_act" -> let t = next_zlist tk in let a = next_interval tk in "ok " ^ str_zlist (act t a)
  | "s_comp" -> let a = next_interval tk in let b = next_interval tk in "ok " ^ str_interval (comp a b)
  | "s_ilt" -> let a = next_interval tk in let b = next_interval tk in str_opt str_bool (ilt a b)
  | _ -> failwith ("unknown command " ^ cmd)

let handle line =
  let tk = toks_of_line line in
  let cmd = next tk in
  match Static_cmds.static_cmd cmd tk with
  | Some r -> r
  | None -> (match Sched_cmds.sched_cmd cmd tk with Some r -> r | None ->
             (match Build_cmds.build_cmd cmd tk with Some r -> r | None ->
              (match Attrs_cmds.attrs_cmd cmd tk with Some r -> r | None -> time_cmd cmd tk)))

let () =
  try
    while true do
      let line = input_line stdin in
      if String.trim line <> "" then begin
        (try print_string (handle line) with
         | Failure m -> print_string ("protocol-error " ^ m)
         | Not_found -> print_string "protocol-error not_found");
        print_newline ()
      end
    done
  with End_of_file -> ()
