(* building the static tables from a scenario description (Sched.Link.prepare) and dumping them canonically *)
open Model
open Util
let n = ref 0 and until_ = ref 0 and maxl = ref 100 and lazy_ = ref true and cache_ = ref true
let gt = ref [] and groups = Hashtbl.create 16 and types = Hashtbl.create 16 and conns = ref [] and initev = ref []
let last_tables = ref None
(* the ties of the two regenerated closures are stated for tables in normal form (one row per simulator, in start order); here
   the regenerated closure on the normal form is compared with the model's closure on the table as the model builds it *)
let rec aget_l_ k l = match l with [] -> [] | (k', v) :: r -> if k = k' then v else aget_l_ k r
let sort_rows t = List.sort compare (List.map (fun (k, row) -> (k, List.sort compare row)) (List.filter (fun (_, row) -> row <> []) t))
let roworder_anc fuel sims t anc =
  match ancestors_gen fuel sims (fun s -> aget_l_ s t.t_trig) with
  | Some (Some a) -> if sort_rows a = sort_rows anc then "" else " roworder_mismatch_anc"
  | _ -> ""
let roworder_cycle fuel sims ind verdict =
  let kind = function CycAccepted -> 1 | CycRejected _ -> 2 | _ -> 0 in
  let g = cycle_check_gen fuel sims (fun s -> aget_l_ s ind) in
  if kind g <> 0 && kind verdict <> 0 && kind g <> kind verdict then " roworder_mismatch_cycle" else ""
let str_interval a = Printf.sprintf "%d %d %s" (int_of_nat a.ipre) (int_of_nat a.icut) (str_zlist a.itiers)
let i_ = int_of_nat
let dump (t : tables) (anc : anc_tab) =
  let out = ref [] in
  let add s = out := s :: !out in
  List.iter (fun (d, l) -> List.iter (fun (s, iv) -> add (Printf.sprintf "indel %d %d %s" (i_ d) (i_ s) (str_interval iv))) l) t.t_indel;
  List.iter (fun (s, l) -> List.iter (fun (d, iv) -> add (Printf.sprintf "succ %d %d %s" (i_ s) (i_ d) (str_interval iv))) l) t.t_succ;
  List.iter (fun (s, l) -> List.iter (fun (d, iv) -> add (Printf.sprintf "succw %d %d %s" (i_ s) (i_ d) (str_interval iv))) l) t.t_succw;
  List.iter (fun (s, l) -> List.iter (fun (a, dl) -> List.iter (fun (d, iv) -> add (Printf.sprintf "trig %d %d %d %s" (i_ s) (i_ a) (i_ d) (str_interval iv))) dl) l) t.t_trig;
  List.iter (fun (s, l) -> List.iter (fun (a, dl) -> List.iter (fun ((d, iv), da) -> add (Printf.sprintf "push %d %d %d %s %d" (i_ s) (i_ a) (i_ d) (str_interval iv) (i_ da))) dl) l) t.t_push;
  List.iter (fun (d, l) -> List.iter (fun ((s, iv), fl) -> List.iter (fun (sa, da) -> add (Printf.sprintf "pull %d %d %s %d %d" (i_ d) (i_ s) (str_interval iv) (i_ sa) (i_ da))) fl) l) t.t_pull;
  List.iter (fun s -> add (Printf.sprintf "outreq %d" (i_ s))) t.t_outreq;
  List.iter (fun (d, l) -> List.iter (fun (da, m) -> List.iter (fun (s, v) -> add (Printf.sprintf "pers %d %d %d %s" (i_ d) (i_ da) (i_ s) (match v with None -> "N" | Some z -> string_of_int (int_of_z z)))) m) l) t.t_pers;
  List.iter (fun (s, l) -> List.iteri (fun pos (tm, row) -> List.iter (fun (a, v) -> add (Printf.sprintf "cinit %d %d %d %d %d" (i_ s) pos (int_of_z tm) (i_ a) (int_of_z v))) row) l) t.t_cinit;
  List.iter (fun (d, l) -> List.iter (fun (a, iv) -> add (Printf.sprintf "anc %d %d %s" (i_ d) (i_ a) (str_interval iv))) l) anc;
  String.concat ";" (List.sort compare !out)

let build_cmd cmd tk = match cmd with
  | "B_NEW" -> n := next_int tk; until_ := next_int tk; maxl := next_int tk; lazy_ := next_bool tk; cache_ := next_bool tk;
      gt := []; Hashtbl.reset groups; Hashtbl.reset types; conns := []; initev := []; last_tables := None; Some "ok"
  | "B_GT" -> gt := Static_cmds.next_gtab tk; Some "ok"
  | "B_SIM" -> let i = next_int tk in Hashtbl.replace groups i (next_int tk); Hashtbl.replace types i (next_int tk); Some "ok"
  | "B_CONN" -> let s = next_nat tk in let d = next_nat tk in let sa = next_nat tk in let da = next_nat tk in
      let f = Static_cmds.next_flags tk in let asy = next_bool tk in let tokv = next_z tk in
      conns := !conns @ [{ c_src = s; c_dst = d; c_sa = sa; c_da = da; c_flags = f; c_async = asy; c_init = tokv }]; Some "ok"
  | "B_INITEV" -> let i = next_nat tk in let t = next_z tk in initev := !initev @ [(i, t)]; Some "ok"
  | "B_GO" ->
      let sc = { sc_gt = !gt; sc_group = (fun i -> nat_of_int (try Hashtbl.find groups (int_of_nat i) with Not_found -> 0));
                 sc_type = (fun i -> match (try Hashtbl.find types (int_of_nat i) with Not_found -> 0) with 0 -> TimeBased | 1 -> EventBased | _ -> Hybrid);
                 sc_n = nat_of_int !n; sc_conns = !conns; sc_init = !initev; sc_until = z_of_int !until_; sc_maxloop = z_of_int !maxl;
                 sc_lazy = !lazy_; sc_cache = !cache_ } in
      Some (match prepare (nat_of_int 2000) sc with
        | Prepared (st, dt, t, anc) ->
            Sched_cmds.reset ();
            Sched_cmds.st := Some st; Sched_cmds.dt := Some dt; Sched_cmds.s := Some (init_state st); Sched_cmds.ds := Some (init_dstate dt);
            last_tables := Some (t, anc); let ro = roworder_anc (nat_of_int 2000) (List.init !n nat_of_int) t anc in (if check_static sc t anc && check_static2 sc t then "ok certified" else "ok uncertified") ^ (if flat_certified st then " flat" else "") ^ (if uniform_certified st then " uniform" else "") ^ (if init_before_untilb st then " ibu" else "") ^ (if check_bound t then " bound" else "") ^ (if pull_strictb st dt then " pull" else "") ^ (if push_strictb st dt then " push" else "") ^ ro
        | PrepScenarioError k -> Printf.sprintf "scenario_error %d" (int_of_nat k)
        | PrepCrash k -> Printf.sprintf "crash %d" (int_of_nat k)
        | PrepIncomparable -> "incomparable"
        | PrepFuel -> "fuel")
  | "B_CYCLE" ->
      (* ensure_no_dataflow_cycles on the input delays of the scenario built so far (independent of the ancestors closure) *)
      let sc_gt = !gt in
      let group_of = (fun i -> nat_of_int (try Hashtbl.find groups (int_of_nat i) with Not_found -> 0)) in
      Some (match build sc_gt group_of !conns with
        | BScenarioError k -> Printf.sprintf "scenario_error %d" (int_of_nat k)
        | BCrash k -> Printf.sprintf "crash %d" (int_of_nat k)
        | BOk t ->
            let verdict = cycle_check (nat_of_int 5000) t.t_indel (List.init !n nat_of_int) in
            let ro = roworder_cycle (nat_of_int 5000) (List.init !n nat_of_int) t.t_indel verdict in
            (fun r -> r ^ ro) (match verdict with
             | CycAccepted -> "accepted" ^ (let d0 = gdepth sc_gt (group_of (nat_of_int 0)) in
                                            if wk_indel t.t_indel && uni_indel d0 t.t_indel && cov_indel t.t_indel (List.init !n nat_of_int) then " complete" else "")
             | CycRejected p -> "rejected " ^ String.concat " " (List.map (fun x -> string_of_int (int_of_nat x)) p)
             | CycIncomparable -> "incomparable"
             | CycFuel -> "fuel"))
  | "B_WALK" ->
      let p = next_list next_nat tk in
      let group_of = (fun i -> nat_of_int (try Hashtbl.find groups (int_of_nat i) with Not_found -> 0)) in
      Some (match build !gt group_of !conns with
        | BOk t -> (match walk_delay t.t_indel p with None -> "nowalk" | Some d -> if izero d then "zero" else "nonzero")
        | _ -> "nobuild")
  | "B_DUMP" -> Some (match !last_tables with Some (t, anc) -> dump t anc | None -> "none")
  | _ -> None
