(* C12: set algebra and parse_attrs *)
open Model
open Util
let next_set tk = let k = next_int tk in let l = next_list next_nat tk in if k = 0 then Fin l else Cof l
let norm l = List.sort_uniq compare (List.map int_of_nat l)
let str_set = function
  | Fin l -> "F" ^ String.concat "," (List.map string_of_int (norm l))
  | Cof l -> "C" ^ String.concat "," (List.map string_of_int (norm l))
let next_optlist tk = if next_int tk = 0 then None else Some (next_list next_nat tk)
let str_pres f = function POk x -> "ok " ^ f x | PMissing -> "missing" | PNotDisjoint -> "notdisjoint" | PNotUnion -> "notunion" | PTypeForbidden -> "forbidden"
let attrs_cmd cmd tk = match cmd with
  | "A_OP" -> let op = next tk in let a = next_set tk in let b = next_set tk in
      Some (match op with
        | "sub" -> str_set (isub a b) | "and" -> str_set (iand a b) | "or" -> str_set (ior a b)
        | "eq" -> str_bool (seqb a b) | _ -> failwith "op")
  | "A_PARSE" ->
      let ty = (match next_int tk with 0 -> ATimeBased | 1 -> AEventBased | _ -> AHybrid) in
      let any = next_bool tk in
      let at = next_optlist tk in let tr = next_optlist tk in let nt = next_optlist tk in let pe = next_optlist tk in let np = next_optlist tk in
      let d = { d_attrs = at; d_trigger = tr; d_nontrigger = nt; d_persistent = pe; d_nonpersistent = np; d_any_inputs = any } in
      Some (str_pres (fun (((mi, ei), mo), eo) -> String.concat " " (List.map str_set [mi; ei; mo; eo])) (parse_attrs d ty))
  | _ -> None
