(* C12: set algebra and parse_attrs *)
open Model
open Util
let next_set tk = let k = next_int tk in let l = next_list next_nat tk in if k = 0 then Fin l else Cof l
let norm l = List.sort_uniq compare (List.map int_of_nat l)
let str_set = function
  | Fin l -> "F" ^ String.concat "," (List.map string_of_int (norm l))
  | Cof l -> "C" ^ String.concat "," (List.map string_of_int (norm l))
let next_optlist tk = if next_int tk = 0 then None else Some (next_list next_nat tk)
let str_pres f = function POk x -> "ok " ^ f x | PMissing -> "missing" | PNotDisjoint -> "notdisjoint" | PNotUnion -> "notunion" | PTypeForbidden -> "forbidden"
let attrs_cmd cmd tk = match cmd with
  | "A_OP" -> let op = next tk in let a = next_set tk in let b = next_set tk in
      Some (match op with
        | "sub" -> str_set (isub a b) | "and" -> str_set (iand a b) | "or" -> str_set (ior a b)
        | "eq" -> str_bool (seqb a b) | _ -> failwith "op")
  | "A_PARSE" ->
      let ty = (match next_int tk with 0 -> ATimeBased | 1 -> AEventBased | _ -> AHybrid) in
      let any = next_bool tk in
      let at = next_optlist tk in let tr = next_optlist tk in let nt = next_optlist tk in let pe = next_optlist tk in let np = next_optlist tk in
      let d = { d_attrs = at; d_trigger = tr; d_nontrigger = nt; d_persistent = pe; d_nonpersistent = np; d_any_inputs = any } in
      Some (str_pres (fun (((mi, ei), mo), eo) -> String.concat " " (List.map str_set [mi; ei; mo; eo])) (parse_attrs d ty))
  | "X_START" -> let v = next_list next_nat tk in let ex = next_opt (next_list next_nat) tk in let ip = next_bool tk in let co = next_bool tk in
      Some (match start { version = v; explicit = ex; inproc = ip; compliant = co } with
        | Started (a, b, c) -> Printf.sprintf "started %s %s %s" (str_bool a) (str_bool b) (str_bool c)
        | RejectedNotCompliant -> "rejected notcompliant" | RejectedTooNew -> "rejected toonew" | RejectedMismatch -> "rejected mismatch")
  | "X_DELIVER" -> let b = next_bool tk in let c = next_bool tk in let k = next tk in
      let r = (match k with "setup_done" -> RSetupDone | "step" -> RStep (next_nat tk) | _ -> ROther (next_nat tk)) in
      Some (match deliver b c r with None -> "dropped" | Some RSetupDone -> "setup_done" | Some (RStep n) -> Printf.sprintf "step %d" (int_of_nat n) | Some (ROther k) -> Printf.sprintf "other %d" (int_of_nat k))
  | "X_TYPE" -> let c = next_bool tk in let g = next_opt next_nat tk in
      Some (match meta_type c g with None -> "absent" | Some t -> string_of_int (int_of_nat t))
  | "U_EVENLY" -> let src = next_list next_nat tk in let dsize = next_nat tk in let perms = next_list (next_list next_nat) tk in
      Some (match connect_evenly (nat_of_int 1000) perms src dsize with
        | None -> "oracle"
        | Some r -> "ok " ^ String.concat " " (List.map (fun (a, b) -> Printf.sprintf "%d:%d" (int_of_nat a) (int_of_nat b)) r))
  | "U_RANDOM" -> let src = next_list next_nat tk in let dest = next_list next_nat tk in let maxc = next_opt next_nat tk in let ch = next_list next_nat tk in
      Some (match connect_randomly_uneven ch src dest maxc with
        | ROk r -> "ok " ^ String.concat " " (List.map (fun (a, b) -> Printf.sprintf "%d:%d" (int_of_nat a) (int_of_nat b)) r)
        | RPrecondition -> "precondition" | RAssert -> "assert" | ROracle -> "oracle")
  | "R_BEGIN" -> let t = next_z tk in let p = next_z tk in let r = next_z tk in Some (str_bool (may_begin t p r))
  | "R_PROG" -> let p = next_z tk in let r = next_z tk in Some (string_of_int (int_of_z (rt_progress p r)))
  | "R_CHECK" -> let rt = next_opt next_z tk in let st = next_bool tk in let p = next_z tk in let l = next_z tk in
      Some (match rt_check rt st p l with InTime -> "intime" | TooSlowWarning -> "warning" | TooSlowError -> "error")
  | "R_EVENT" -> let rt = next_opt next_z tk in let t = next_z tk in let u = next_z tk in
      Some (match set_event rt t u with EventRefused -> "refused" | EventScheduled -> "scheduled" | EventIgnoredWithWarning -> "ignored")
  | _ -> None
