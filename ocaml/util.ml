(* glue between OCaml ints / the line protocol and the extracted Coq datatypes; no logic here *)
open Model
let rec pos_of_int n = if n = 1 then XH else if n land 1 = 0 then XO (pos_of_int (n lsr 1)) else XI (pos_of_int (n lsr 1))
let z_of_int n = if n = 0 then Z0 else if n > 0 then Zpos (pos_of_int n) else Zneg (pos_of_int (-n))
let rec int_of_pos = function XH -> 1 | XO p -> 2 * int_of_pos p | XI p -> 2 * int_of_pos p + 1
let int_of_z = function Z0 -> 0 | Zpos p -> int_of_pos p | Zneg p -> - (int_of_pos p)
let rec nat_of_int n = if n <= 0 then O else S (nat_of_int (n - 1))
let rec int_of_nat = function O -> 0 | S n -> 1 + int_of_nat n

(* token stream over one input line *)
type toks = { mutable rest : string list }
let toks_of_line l = { rest = List.filter (fun s -> s <> "") (String.split_on_char ' ' l) }
let next tk = match tk.rest with [] -> failwith "protocol: unexpected end of line" | x :: r -> tk.rest <- r; x
let next_int tk = int_of_string (next tk)
let next_z tk = z_of_int (next_int tk)
let next_nat tk = nat_of_int (next_int tk)
let next_bool tk = next_int tk <> 0
let next_list f tk = let n = next_int tk in List.init n (fun _ -> f tk)
let next_zlist tk = next_list next_z tk
let next_opt f tk = if next_int tk = 0 then None else Some (f tk)
let str_zlist l = String.concat " " (string_of_int (List.length l) :: List.map (fun z -> string_of_int (int_of_z z)) l)
let str_bool b = if b then "1" else "0"
