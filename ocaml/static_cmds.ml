(* protocol commands of the static layer (groups, connect_one) *)
open Model
open Util
let next_gtab tk = next_list (fun tk -> let p = next_int tk in if p < 0 then None else Some (nat_of_int p)) tk
let str_interval a = Printf.sprintf "%d %d %s" (int_of_nat a.ipre) (int_of_nat a.icut) (str_zlist a.itiers)
let str_effect = function
  | EInputDelay d -> "indel(" ^ str_interval d ^ ")"
  | EPersistSetdefault -> "persist_default"
  | EOutputRequest -> "outreq"
  | EPulled d -> "pulled(" ^ str_interval d ^ ")"
  | EPushed d -> "pushed(" ^ str_interval d ^ ")"
  | ESuccessor d -> "succ(" ^ str_interval d ^ ")"
  | ETrigger d -> "trigger(" ^ str_interval d ^ ")"
  | EInitCache t -> "init_cache(" ^ string_of_int (int_of_z t) ^ ")"
  | EInitPersist -> "init_persist"
let str_problem = function PSrcAttr -> "src_attr" | PDstAttr -> "dst_attr" | PInitialData -> "initial_data"
let next_flags tk =
  let a = next_bool tk in let b = next_bool tk in let c = next_bool tk in let d = next_bool tk in let e = next_bool tk in
  let sh = next_z tk in let w = next_bool tk in let hi = next_bool tk in let uc = next_bool tk in
  { src_is_out = a; dst_is_in = b; dst_nontrigger = c; dst_trigger = d; src_persistent = e; shifted = sh; weak = w; has_init = hi; use_cache = uc }
let static_cmd cmd tk = match cmd with
  | "wfg" -> Some (str_bool (wfGb (next_gtab tk)))
  | "group_path" -> let gt = next_gtab tk in let s = next_nat tk in let d = next_nat tk in
      Some (match group_path gt s d with None -> "none" | Some ((a, dd), c) -> Printf.sprintf "%d %d %d" (int_of_nat a) (int_of_nat dd) (int_of_nat c))
  | "depth" -> let gt = next_gtab tk in let g = next_nat tk in Some (string_of_int (int_of_nat (gdepth gt g)))
  | "connect_interval" -> let gt = next_gtab tk in let s = next_nat tk in let d = next_nat tk in let sh = next_z tk in let w = next_z tk in
      Some (match connect_interval gt s d sh w with COk i -> "ok " ^ str_interval i | CErr CScenarioError -> "scenario_error" | CErr CValueError -> "value_error" | CErr CAssert -> "assert")
  | "connect_one" -> let gt = next_gtab tk in let s = next_nat tk in let d = next_nat tk in let f = next_flags tk in
      let r = connect_one gt s d f in
      let sr = str_bool (should_reject gt s d f) in
      Some (sr ^ " " ^ (match r with
        | Rejected ps -> "rejected " ^ String.concat "," (List.map str_problem ps)
        | RejectedWeakRoot -> "rejected weak_root"
        | Crashed _ -> "crashed"
        | Accepted es -> "accepted " ^ String.concat ";" (List.map str_effect es)))
  | _ -> None
