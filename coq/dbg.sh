#!/bin/bash
# usage: dbg.sh File.v LINE  -- replay the file up to LINE in coqtop and show the goal
f=$1; n=$2
( head -n $n $f; echo "Show."; ) | timeout 120 coqtop -Q /verif/coq MV -w -notation-overridden 2>&1 | tail -${3:-40}
