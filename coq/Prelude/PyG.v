(* Hand-written prelude for the generated Gen/ConnectInterval.v: the error monad of the static layer and the operations
   on SimGroup objects (group ids in a group table).  group_path / depth / parent are the hand-written functions of
   Static/Groups.v: the pointer-chasing loops of scenario.group_path and SimGroup.depth are modelled, not translated. *)
From Coq Require Import ZArith List Bool.
Import ListNotations.
From MV Require Import Prelude.Py Time.Spec Static.Groups.
Open Scope Z_scope.

Definition cbind {A B} (m : cres A) (f : A -> cres B) : cres B := match m with COk a => f a | CErr e => CErr e end.
Definition lift {A} (r : res A) : cres A := match r with Ok a => COk a | AssertFail => CErr CAssert end.
Definition py_depth (gt : gtab) (g : nat) : Z := Z.of_nat (gdepth gt g).
Definition py_group_path (gt : gtab) (a b : nat) : cres (Z * Z * nat) :=
  match group_path gt a b with Some (x, y, c) => COk (Z.of_nat x, Z.of_nat y, c) | None => CErr CValueError end.
(* list.__setitem__ with an int index: negative indices count from the end; out of range is an IndexError (a crash) *)
Definition py_setitem (l : list Z) (i v : Z) : cres (list Z) :=
  let n := py_len l in
  let j := if i <? 0 then i + n else i in
  if (0 <=? j) && (j <? n) then COk (set_nth (Z.to_nat j) v l) else CErr CAssert.
