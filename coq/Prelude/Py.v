From Coq Require Export ZArith List Bool.
Export ListNotations.
Open Scope Z_scope.
Inductive res (A:Type) := Ok (a:A) | AssertFail.
Arguments Ok {A}. Arguments AssertFail {A}.
Definition bind {A B} (m:res A) (f:A -> res B) : res B := match m with Ok a => f a | AssertFail => AssertFail end.
Inductive ctl (A:Type) := Continue | Return (r:res A).
Arguments Continue {A}. Arguments Return {A}.
Definition bindl {A B} (m:res A) (f:A -> ctl B) : ctl B := match m with Ok a => f a | AssertFail => Return AssertFail end.
Fixpoint for_enum_zip {A} (i:Z) (xs ys:list Z) (body: Z -> Z -> Z -> ctl A) (after: res A) : res A :=
  match xs, ys with
  | x::xs', y::ys' => match body i x y with Continue => for_enum_zip (i+1) xs' ys' body after | Return r => r end
  | _, _ => after end.
Fixpoint py_zipwith (f:Z->Z->Z) (xs ys:list Z) : list Z :=
  match xs, ys with x::xs', y::ys' => f x y :: py_zipwith f xs' ys' | _, _ => [] end.
Definition py_len (l:list Z) : Z := Z.of_nat (length l).
(* slices with non-negative bounds only (negative bounds mean "from the end" in Python: not modelled, callers guarded by asserts) *)
Definition py_slice (l:list Z) (lo hi:option Z) : list Z :=
  let lo' := match lo with Some a => Z.to_nat a | None => 0%nat end in
  let l1 := match hi with Some b => firstn (Z.to_nat b) l | None => l end in
  skipn lo' l1.
Definition py_tuple_mul (l:list Z) (n:Z) : list Z := concat (repeat l (Z.to_nat n)).
Fixpoint py_tuple_lt (xs ys:list Z) : bool :=
  match xs, ys with
  | [], [] => false | [], _::_ => true | _::_, [] => false
  | x::xs', y::ys' => if x <? y then true else if y <? x then false else py_tuple_lt xs' ys' end.
Definition py_index (l:list Z) (i:Z) : res Z := match nth_error l (Z.to_nat i) with Some v => Ok v | None => AssertFail end.
Fixpoint py_tuple_eq (xs ys:list Z) : bool :=
  match xs, ys with [], [] => true | x::xs', y::ys' => (x =? y) && py_tuple_eq xs' ys' | _, _ => false end.
(* functools.total_ordering: the operators it derives from __lt__ (and __eq__) *)
Definition py_le_from_lt {A} (lt : A -> A -> res bool) (eq : A -> A -> bool) (a b : A) : res bool :=
  bind (lt a b) (fun r => Ok (r || eq a b)).
Definition py_gt_from_lt {A} (lt : A -> A -> res bool) (eq : A -> A -> bool) (a b : A) : res bool :=
  bind (lt a b) (fun r => Ok (negb r && negb (eq a b))).
Definition py_ge_from_lt {A} (lt : A -> A -> res bool) (a b : A) : res bool :=
  bind (lt a b) (fun r => Ok (negb r)).
