(* mosaik/util.py: connect_many_to_one, connect_randomly (_connect_evenly, _connect_randomly).  The random choices
   (random.shuffle, random.randint) are an explicit argument.  Entities are numbers; the result is the list of
   connections made, in order, and the returned set. *)
From Coq Require Import List Bool Arith.
Import ListNotations.

(* zip(src_set[pos:], dest_set) *)
Fixpoint zip (a b : list nat) : list (nat * nat) :=
  match a, b with x :: a', y :: b' => (x, y) :: zip a' b' | _, _ => [] end.

(* _connect_evenly: one shuffled copy of dest_set per round (the oracle) *)
Fixpoint connect_evenly (fuel : nat) (perms : list (list nat)) (src : list nat) (dsize : nat) : option (list (nat * nat)) :=
  match src with
  | [] => Some []
  | _ =>
    match fuel, perms with
    | S f, p :: perms' =>
        match connect_evenly f perms' (skipn dsize src) dsize with
        | Some r => Some (zip src p ++ r)
        | None => None
        end
    | _, _ => None          (* oracle exhausted *)
    end
  end.

Inductive rres := ROk (conns : list (nat * nat)) | RPrecondition | RAssert | ROracle.
Fixpoint count (d : nat) (l : list (nat * nat)) : nat :=
  match l with [] => 0 | (_, y) :: r => (if Nat.eqb y d then 1 else 0) + count d r end.
Fixpoint remove1 (d : nat) (l : list nat) : list nat :=
  match l with [] => [] | y :: r => if Nat.eqb y d then r else y :: remove1 d r end.
(* _connect_randomly; maxc = None is float("inf") *)
Fixpoint rand_loop (choices : list nat) (src pool : list nat) (maxc : option nat) (acc : list (nat * nat)) : rres :=
  match src with
  | [] => ROk (rev acc)
  | s :: src' =>
      match pool with
      | [] => RAssert                                    (* assert max_i >= 0 *)
      | _ =>
        match choices with
        | [] => ROracle
        | i :: ch' =>
            match nth_error pool i with
            | None => ROracle                            (* randint(0, max_i) never does that *)
            | Some d =>
                let acc' := (s, d) :: acc in
                let full := match maxc with Some m => Nat.leb m (count d acc') | None => false end in
                rand_loop ch' src' (if full then remove1 d pool else pool) maxc acc'
            end
        end
      end
  end.
Definition connect_randomly_uneven (choices : list nat) (src dest : list nat) (maxc : option nat) : rres :=
  if (match maxc with Some m => negb (Nat.leb (length src) (length dest * m)) | None => false end) then RPrecondition
  else rand_loop choices src dest maxc [].
Definition connected_set (conns : list (nat * nat)) : list nat := nodup Nat.eq_dec (map snd conns).
Definition connect_many_to_one (src : list nat) (dest : nat) : list (nat * nat) := map (fun s => (s, dest)) src.
