(* C15: what the list comparisons mean in terms of major.minor, and the consequences for what a simulator receives *)
From Coq Require Import List Bool Arith Lia.
Import ListNotations.
From MV Require Import Ext.Adapters.

Lemma vlt_major v n : v <> [] -> vlt v [n] = Nat.ltb (major v) n.
Proof.
  destruct v as [|x r]; [congruence|]. intros _. simpl. unfold major; simpl.
  destruct (Nat.ltb_spec x n); [reflexivity|]. destruct (Nat.ltb_spec n x); [reflexivity|]. destruct r; reflexivity.
Qed.
Lemma vlt_2_2 v : v <> [] -> vlt v [2; 2] = Nat.ltb (major v) 2 || (Nat.eqb (major v) 2 && Nat.ltb (minor v) 2).
Proof.
  destruct v as [|x r]; [congruence|]. intros _. unfold major, minor; simpl.
  destruct (Nat.ltb_spec x 2); simpl; [reflexivity|]. destruct (Nat.ltb_spec 2 x); simpl.
  - destruct (Nat.eqb_spec x 2); [lia|reflexivity].
  - assert (x = 2) by lia. subst. simpl. destruct r as [|y r']; simpl; [reflexivity|].
    destruct (Nat.ltb_spec y 2); [reflexivity|]. destruct (Nat.ltb_spec 2 y); [reflexivity|]. destruct r'; reflexivity.
Qed.
Lemma veq_eq a b : veq a b = true <-> a = b.
Proof.
  revert b; induction a as [|x a IH]; intros [|y b]; simpl; split; intros H; try discriminate; auto.
  - apply andb_true_iff in H as [H1 H2]. apply Nat.eqb_eq in H1. apply IH in H2. subst. reflexivity.
  - injection H as -> ->. rewrite Nat.eqb_refl. apply IH. reflexivity.
Qed.

(* acceptance, exactly *)
Lemma explicit_case v (ex : option (list nat)) a b c : (forall e, ex = Some e -> e <> []) ->
  (exists a' b' c', match ex with
       | Some ((_ :: _) as e) => if negb (veq v e) then RejectedMismatch else Started a b c
       | _ => Started a b c end = Started a' b' c') <-> (forall e, ex = Some e -> e = v).
Proof.
  intros He. destruct ex as [[|e0 e]|].
  - exfalso. apply (He [] eq_refl). reflexivity.
  - destruct (veq v (e0 :: e)) eqn:V; simpl.
    + apply veq_eq in V. split; [intros _ e' H'; injection H' as <-; auto|intros _; eauto].
    + split; [intros (a' & b' & c' & H); discriminate|].
      intros H. specialize (H _ eq_refl). rewrite H in V.
      assert (veq v v = true) by (apply veq_eq; reflexivity). congruence.
  - split; [intros _ e' H'; discriminate|intros _; eauto].
Qed.
Theorem start_accepts_iff s : version s <> [] -> (forall e, explicit s = Some e -> e <> []) ->
  (exists a b c, start s = Started a b c) <->
  (major (version s) < 4 /\ (forall e, explicit s = Some e -> e = version s) /\
   ~ (inproc s = true /\ compliant s = false /\ 3 <= major (version s))).
Proof.
  intros Hv He. unfold start, vge. rewrite !vlt_major by exact Hv.
  destruct (Nat.ltb_spec (major (version s)) 3) as [L3|G3]; destruct (Nat.ltb_spec (major (version s)) 4) as [L4|G4]; try lia; cbn [negb andb].
  - (* major < 3 *)
    rewrite andb_false_r. rewrite (explicit_case _ _ _ _ _ He). split.
    + intros H. split; [lia|]. split; [exact H|]. intros (_ & _ & K). lia.
    + intros (_ & H & _). exact H.
  - (* major = 3 *)
    rewrite andb_true_r. destruct (inproc s) eqn:I, (compliant s) eqn:C; cbn [negb andb];
      try (rewrite (explicit_case _ _ _ _ _ He); split; [intros H; split; [lia|]; split; [exact H|]; intros (A & B & _); discriminate|intros (_ & H & _); exact H]).
    split; [intros (a & b & c & H); discriminate|]. intros (_ & _ & K). exfalso. apply K. repeat split; lia.
  - (* major >= 4 *)
    rewrite andb_true_r. destruct (inproc s && negb (compliant s)); split; try (intros (a & b & c & H); discriminate); intros (K & _); lia.
Qed.

(* what an accepted simulator receives *)
Theorem started_adapters s a b c : version s <> [] -> start s = Started a b c ->
  a = (negb (inproc s) || compliant s) /\
  b = (Nat.ltb (major (version s)) 2 || (Nat.eqb (major (version s)) 2 && Nat.ltb (minor (version s)) 2)) /\
  c = Nat.ltb (major (version s)) 3.
Proof.
  intros Hv. unfold start. rewrite vlt_2_2, vlt_major by exact Hv.
  destruct (inproc s && negb (compliant s) && vge (version s) [3]); [discriminate|].
  destruct (vge (version s) [4]); [discriminate|].
  destruct (explicit s) as [[|e0 e]|]; try (destruct (negb (veq (version s) (e0 :: e))); [discriminate|]);
    intros H; injection H as <- <- <-; auto.
Qed.
(* step never carries max_advance before v3; from v3 on it is passed unchanged *)
Theorem deliver_step b c n : deliver b c (RStep n) = Some (RStep (if c then Nat.min n 2 else n)).
Proof. unfold deliver. destruct c; reflexivity. Qed.
(* setup_done is delivered iff the simulator is at least v2.2 *)
Theorem deliver_setup_done b c : deliver b c RSetupDone = if b then None else Some RSetupDone.
Proof. unfold deliver. destruct b; reflexivity. Qed.
(* every other request is passed through unchanged *)
Theorem deliver_other b c k : deliver b c (ROther k) = Some (ROther k).
Proof. reflexivity. Qed.
