(* mosaik/adapters.py (init_and_get_adapter, V3ToV2Adapter, V2ToV1Adapter), proxies.extract_version and the
   compliance gate of LocalProxy.init.  Versions are lists of numbers compared like Python lists. *)
From Coq Require Import List Bool Arith.
Import ListNotations.

Fixpoint vlt (a b : list nat) : bool :=           (* Python: a < b for lists *)
  match a, b with
  | [], [] => false | [], _ :: _ => true | _ :: _, [] => false
  | x :: a', y :: b' => if Nat.ltb x y then true else if Nat.ltb y x then false else vlt a' b' end.
Fixpoint veq (a b : list nat) : bool :=
  match a, b with [], [] => true | x :: a', y :: b' => Nat.eqb x y && veq a' b' | _, _ => false end.
Definition vge (a b : list nat) : bool := negb (vlt a b).

Record sim_start := mkStart {
  version : list nat;               (* extract_version(meta): [1] if api_version is absent *)
  explicit : option (list nat);     (* api_version given in the sim config *)
  inproc : bool;                    (* started with 'python' (LocalProxy) *)
  compliant : bool }.               (* check_api_compliance: init takes time_resolution and step takes max_advance *)

Inductive start_result :=
| Started (pass_time_resolution : bool) (v2_to_v1 : bool) (v3_to_v2 : bool)
| RejectedNotCompliant | RejectedTooNew | RejectedMismatch.

Definition start (s : sim_start) : start_result :=
  if inproc s && negb (compliant s) && vge (version s) [3] then RejectedNotCompliant
  else if vge (version s) [4] then RejectedTooNew
  else match explicit s with
       | Some ((_ :: _) as e) => if negb (veq (version s) e) then RejectedMismatch
                               else Started (negb (inproc s) || compliant s) (vlt (version s) [2; 2]) (vlt (version s) [3])
       | _ => Started (negb (inproc s) || compliant s) (vlt (version s) [2; 2]) (vlt (version s) [3])
       end.

(* requests as the simulator sees them *)
Inductive request := RSetupDone | RStep (nargs : nat) | ROther (name : nat).
(* proxy.send: the V3ToV2 adapter is outermost, then V2ToV1, then the base proxy; None = not delivered *)
Definition deliver (v2_to_v1 v3_to_v2 : bool) (r : request) : option request :=
  let r1 := match r with RStep n => if v3_to_v2 then RStep (Nat.min n 2) else RStep n | x => x end in
  match r1 with RSetupDone => if v2_to_v1 then None else Some RSetupDone | x => Some x end.
(* meta['type'] as the scheduler reads it *)
Definition meta_type (v3_to_v2 : bool) (given : option nat) : option nat :=
  match given with Some t => Some t | None => if v3_to_v2 then Some 0 (* time-based *) else None end.

Definition major (v : list nat) : nat := hd 0 v.
Definition minor (v : list nat) : nat := hd 0 (tl v).
