(* Vocabulary of the generated bulk-connection helpers (Gen/BulkFns.v, written by harness/py2coq_bulk.py from
   mosaik/util.py): results, a dict as an association list, Python's comparisons with float("inf"). *)
From Coq Require Import ZArith List Bool Arith.
Import ListNotations.

(* what a helper ends in: the world.connect calls made (in order) and the set `connected` as the list of elements added *)
Inductive gres :=
| GOk (conns : list (nat * nat)) (connected : list nat)
| GPrecondition       (* assert len(src_set) <= len(dest_set) * max_connects *)
| GAssert             (* assert dest_set / assert max_i >= 0 *)
| GIndexError         (* dest_set[i] out of range *)
| GOracle.            (* the oracle for random.shuffle / random.randint is exhausted or outside randint's range *)

Fixpoint dget (d : list (nat * nat)) (k : nat) (default : nat) : nat :=
  match d with [] => default | (k', v) :: r => if Nat.eqb k' k then v else dget r k default end.
Definition dset (d : list (nat * nat)) (k v : nat) : list (nat * nat) := (k, v) :: d.

(* c >= max_connects, None = float("inf") *)
Definition ge_inf (c : nat) (m : option nat) : bool := match m with Some m => Nat.leb m c | None => false end.
(* a <= n * max_connects; n * inf is inf for n > 0 and nan for n = 0 (every comparison with nan is False) *)
Definition le_times_inf (a n : nat) (m : option nat) : bool :=
  match m with Some m => Nat.leb a (n * m) | None => negb (Nat.eqb n 0) end.
