(* C18: every source is connected exactly once; caps and evenness; for all choice sequences *)
From Coq Require Import List Bool Arith Lia.
Import ListNotations.
From MV Require Import Ext.Util.

Lemma zip_fst a b : length a <= length b -> map fst (zip a b) = a.
Proof. revert b; induction a as [|x a IH]; intros [|y b] H; simpl in *; try lia; auto. f_equal. apply IH. lia. Qed.
Lemma zip_fst_firstn a b : map fst (zip a b) = firstn (length b) a.
Proof. revert b; induction a as [|x a IH]; intros [|y b]; simpl; auto. f_equal. apply IH. Qed.
Lemma zip_snd_firstn a b : map snd (zip a b) = firstn (length a) b.
Proof. revert b; induction a as [|x a IH]; intros [|y b]; simpl; auto. f_equal. apply IH. Qed.

(* evenly: every source exactly once, in order, when each round's list has dest_size elements *)
Theorem evenly_each_source_once fuel : forall perms src dsize r, 0 < dsize ->
  (forall p, In p perms -> length p = dsize) ->
  connect_evenly fuel perms src dsize = Some r -> map fst r = src.
Proof.
  induction fuel as [|f IH]; intros perms src dsize r Hd Hp H.
  - destruct src; simpl in H; [injection H as <-; reflexivity|discriminate].
  - destruct src as [|s src']; [simpl in H; injection H as <-; reflexivity|].
    cbn [connect_evenly] in H. destruct perms as [|p perms']; [discriminate|].
    destruct (connect_evenly f perms' (skipn dsize (s :: src')) dsize) as [r'|] eqn:E; [|discriminate].
    injection H as <-. rewrite map_app. rewrite (IH _ _ _ _ Hd (fun q Hq => Hp q (or_intror Hq)) E).
    change (match p with [] => [] | y :: b' => (s, y) :: zip src' b' end) with (zip (s :: src') p).
    rewrite zip_fst_firstn. rewrite (Hp p (or_introl eq_refl)). apply firstn_skipn.
Qed.
(* evenly: within one round no destination is used twice (the round's destinations are a prefix of a duplicate-free list),
   so per-destination totals differ by at most one between any two destinations that appear in every round's list *)
Theorem evenly_round_distinct src p : NoDup p -> NoDup (map snd (zip src p)).
Proof.
  intros H. rewrite zip_snd_firstn. clear -H. revert p H. generalize (length src). intros n. induction n as [|n IH]; intros [|y p] H; simpl; try constructor.
  - inversion H; subst. intros Hin. apply H2. clear -Hin. revert p Hin. induction n; intros [|z p]; simpl; try tauto. intros [->|H]; [left; reflexivity|right; eauto].
  - inversion H; subst. apply IH. assumption.
Qed.

(* random: every source exactly once, in order *)
Lemma rand_loop_fst choices : forall src pool maxc acc r, rand_loop choices src pool maxc acc = ROk r ->
  map fst r = rev (map fst acc) ++ src.
Proof.
  induction choices as [|i ch IH]; intros src pool maxc acc r H; destruct src as [|s src']; simpl in H.
  - injection H as <-. rewrite map_rev, app_nil_r. reflexivity.
  - destruct pool; discriminate.
  - injection H as <-. rewrite map_rev, app_nil_r. reflexivity.
  - destruct pool as [|p0 pool']; [discriminate|].
    destruct (nth_error (p0 :: pool') i) as [d|]; [|discriminate].
    apply IH in H. rewrite H. simpl. rewrite <- app_assoc. reflexivity.
Qed.
Theorem randomly_each_source_once choices src dest maxc r : connect_randomly_uneven choices src dest maxc = ROk r -> map fst r = src.
Proof.
  unfold connect_randomly_uneven. destruct (match maxc with Some m => _ | None => false end); [discriminate|].
  intros H. apply rand_loop_fst in H. exact H.
Qed.

(* random: no destination receives more than max_connects *)
Lemma count_app d a b : count d (a ++ b) = count d a + count d b.
Proof. induction a as [|[x y] a IH]; simpl; auto. rewrite IH. lia. Qed.
Lemma count_rev d a : count d (rev a) = count d a.
Proof. induction a as [|[x y] a IH]; simpl; auto. rewrite count_app, IH. simpl. lia. Qed.
Lemma in_remove1 x d l : In x (remove1 d l) -> In x l.
Proof. induction l as [|y l IH]; simpl; auto. destruct (Nat.eqb y d); simpl; intuition. Qed.
Lemma remove1_notin d l : NoDup l -> ~ In d (remove1 d l).
Proof.
  induction l as [|y l IH]; simpl; intros H; [tauto|]. inversion H; subst.
  destruct (Nat.eqb_spec y d); [subst; assumption|]. simpl. intros [E|E]; [congruence|]. apply IH; assumption.
Qed.
Lemma nodup_remove1 d l : NoDup l -> NoDup (remove1 d l).
Proof.
  induction l as [|y l IH]; simpl; intros H; [constructor|]. inversion H; subst.
  destruct (Nat.eqb y d); [assumption|]. constructor; [intros E; apply H2; eapply in_remove1; eauto|auto].
Qed.
Lemma rand_loop_cap m choices : forall src pool acc r, 0 < m -> NoDup pool ->
  (forall d, In d pool -> count d acc < m) -> (forall d, count d acc <= m) ->
  rand_loop choices src pool (Some m) acc = ROk r -> forall d, count d r <= m.
Proof.
  induction choices as [|i ch IH]; intros src pool acc r Hm Hnd Hp Hall H; destruct src as [|s src']; cbn [rand_loop] in H.
  - injection H as <-. intros d. rewrite count_rev. apply Hall.
  - destruct pool; discriminate.
  - injection H as <-. intros d. rewrite count_rev. apply Hall.
  - destruct pool as [|p0 pool']; [discriminate|].
    destruct (nth_error (p0 :: pool') i) as [d0|] eqn:E; [|discriminate].
    apply nth_error_In in E.
    remember ((s, d0) :: acc) as acc' eqn:Eacc.
    assert (C0 : count d0 acc' = S (count d0 acc)) by (subst acc'; simpl; rewrite Nat.eqb_refl; reflexivity).
    assert (Cother : forall x, x <> d0 -> count x acc' = count x acc) by (intros x Hx; subst acc'; simpl; destruct (Nat.eqb_spec d0 x); [congruence|reflexivity]).
    eapply IH; [exact Hm| | | |exact H].
    + destruct (Nat.leb m (count d0 acc')); [apply nodup_remove1|]; assumption.
    + intros x Hx. destruct (Nat.leb_spec m (count d0 acc')) as [Hfull|Hnot].
      * assert (x <> d0) by (intros ->; eapply remove1_notin; eauto). rewrite Cother by assumption. apply Hp. eapply in_remove1; eauto.
      * destruct (Nat.eq_dec x d0) as [->|Hne]; [lia|]. rewrite Cother by assumption. apply Hp. exact Hx.
    + intros x. destruct (Nat.eq_dec x d0) as [->|Hne]; [rewrite C0; specialize (Hp d0 E); lia|rewrite Cother by assumption; apply Hall].
Qed.
Theorem randomly_respects_max_connects choices src dest m r : 0 < m -> NoDup dest ->
  connect_randomly_uneven choices src dest (Some m) = ROk r -> forall d, count d r <= m.
Proof.
  intros Hm Hnd. unfold connect_randomly_uneven. destruct (negb _); [discriminate|].
  apply rand_loop_cap; auto; simpl; intros; lia.
Qed.

(* the returned set is exactly the set of destinations that received a connection *)
Theorem connected_set_spec conns d : In d (connected_set conns) <-> 0 < count d conns.
Proof.
  unfold connected_set. rewrite nodup_In. induction conns as [|[x y] l IH]; simpl; [split; [tauto|lia]|].
  destruct (Nat.eqb_spec y d); [subst; split; [lia|auto]|]. rewrite <- IH. split; [intros [E|E]; [congruence|auto]|auto].
Qed.
(* connect_many_to_one *)
Theorem many_to_one_spec src dest : map fst (connect_many_to_one src dest) = src /\ forall c, In c (connect_many_to_one src dest) -> snd c = dest.
Proof.
  unfold connect_many_to_one. split; [rewrite map_map; simpl; apply map_id|].
  intros c H. apply in_map_iff in H as (s & <- & _). reflexivity.
Qed.

(* ---- completion: the capacity assertion `max_i >= 0` can never fire when the precondition holds (repair of F3) ---- *)
Fixpoint cap (m : nat) (pool : list nat) (acc : list (nat * nat)) : nat :=
  match pool with [] => 0 | d :: r => (m - count d acc) + cap m r acc end.
Lemma count_cons_other s d0 x acc : x <> d0 -> count x ((s, d0) :: acc) = count x acc.
Proof. intros H. simpl. destruct (Nat.eqb_spec d0 x); [congruence|reflexivity]. Qed.
Lemma count_cons_same s d0 acc : count d0 ((s, d0) :: acc) = S (count d0 acc).
Proof. simpl. rewrite Nat.eqb_refl. reflexivity. Qed.
Lemma cap_other m pool s d0 acc : ~ In d0 pool -> cap m pool ((s, d0) :: acc) = cap m pool acc.
Proof.
  induction pool as [|d r IH]; intros H; [reflexivity|]. cbn [cap].
  rewrite count_cons_other by (intros ->; apply H; left; reflexivity). rewrite IH by (intros K; apply H; right; exact K). reflexivity.
Qed.
Lemma cap_step m pool s d0 acc : NoDup pool -> In d0 pool -> count d0 acc < m ->
  cap m pool ((s, d0) :: acc) + 1 = cap m pool acc.
Proof.
  induction pool as [|d r IH]; intros Hnd Hin Hc; [destruct Hin|]. inversion Hnd; subst. cbn [cap].
  destruct Hin as [->|Hin].
  - rewrite count_cons_same. rewrite cap_other by assumption. lia.
  - rewrite count_cons_other by (intros ->; contradiction). rewrite <- (IH H2 Hin Hc). lia.
Qed.
Lemma cap_remove1 m pool d0 acc : NoDup pool -> In d0 pool ->
  cap m (remove1 d0 pool) acc + (m - count d0 acc) = cap m pool acc.
Proof.
  induction pool as [|d r IH]; intros Hnd Hin; [destruct Hin|]. inversion Hnd; subst. cbn [remove1 cap].
  destruct (Nat.eqb_spec d d0) as [->|Hne]; [lia|].
  destruct Hin as [E|Hin]; [congruence|]. cbn [cap]. rewrite <- (IH H2 Hin). lia.
Qed.

Lemma rand_loop_no_assert m choices : forall src pool acc, 0 < m -> NoDup pool ->
  (forall d, In d pool -> count d acc < m) -> length src <= cap m pool acc ->
  rand_loop choices src pool (Some m) acc <> RAssert.
Proof.
  induction choices as [|i ch IH]; intros src pool acc Hm Hnd Hp Hcap; destruct src as [|s src']; cbn [rand_loop]; try discriminate.
  - destruct pool; [simpl in Hcap; lia|discriminate].
  - destruct pool as [|p0 pool']; [simpl in Hcap; lia|].
    destruct (nth_error (p0 :: pool') i) as [d0|] eqn:E; [|discriminate].
    apply nth_error_In in E.
    remember ((s, d0) :: acc) as acc' eqn:Eacc.
    assert (C0 : count d0 acc' = S (count d0 acc)) by (subst acc'; apply count_cons_same).
    assert (Cother : forall x, x <> d0 -> count x acc' = count x acc) by (intros x Hx; subst acc'; apply count_cons_other; exact Hx).
    assert (Hstep : cap m (p0 :: pool') acc' + 1 = cap m (p0 :: pool') acc) by (subst acc'; apply cap_step; auto).
    apply IH; [exact Hm| | |].
    + destruct (Nat.leb m (count d0 acc')); [apply nodup_remove1|]; assumption.
    + intros x Hx. destruct (Nat.leb_spec m (count d0 acc')) as [Hfull|Hnot].
      * assert (x <> d0) by (intros ->; eapply remove1_notin; eauto). rewrite Cother by assumption. apply Hp. eapply in_remove1; eauto.
      * destruct (Nat.eq_dec x d0) as [->|Hne]; [lia|]. rewrite Cother by assumption. apply Hp. exact Hx.
    + cbn [length] in Hcap. destruct (Nat.leb_spec m (count d0 acc')) as [Hfull|Hnot].
      * pose proof (cap_remove1 m (p0 :: pool') d0 acc' Hnd E). specialize (Hp d0 E). lia.
      * lia.
Qed.
(* with the precondition of the helper, the call never trips the internal assertion, for every choice sequence *)
Theorem randomly_never_asserts choices src dest m : 0 < m -> NoDup dest ->
  connect_randomly_uneven choices src dest (Some m) <> RAssert.
Proof.
  intros Hm Hnd. unfold connect_randomly_uneven. destruct (Nat.leb_spec (length src) (length dest * m)) as [H|H]; simpl; [|discriminate].
  apply rand_loop_no_assert; auto.
  assert (G : forall l, cap m l [] = length l * m) by (induction l as [|d r IHl]; simpl; [reflexivity|rewrite IHl; lia]).
  rewrite G. exact H.
Qed.
Lemma rand_loop_inf_no_assert choices : forall src pool acc, pool <> [] -> rand_loop choices src pool None acc <> RAssert.
Proof.
  induction choices as [|i ch IH]; intros src pool acc Hp; destruct src as [|s src']; cbn [rand_loop]; try discriminate.
  - destruct pool; [congruence|discriminate].
  - destruct pool as [|p0 pool']; [congruence|]. destruct (nth_error (p0 :: pool') i); [|discriminate]. apply IH. discriminate.
Qed.
Theorem randomly_unbounded_never_asserts choices src dest : dest <> [] -> connect_randomly_uneven choices src dest None <> RAssert.
Proof. intros H. unfold connect_randomly_uneven. apply rand_loop_inf_no_assert. exact H. Qed.

(* evenly: per-destination totals differ by at most one.  Every round's list p is a duplicate-free list containing
   every destination; a full round (at least dsize sources left) uses each destination exactly once, the last,
   partial round at most once. *)
Lemma count_zip_le1 d : forall src p, NoDup p -> count d (zip src p) <= 1.
Proof.
  induction src as [|x src IH]; intros [|y p] Hn; simpl; try lia.
  inversion Hn as [|? ? Hy Hp]; subst. destruct (Nat.eqb_spec y d) as [->|Hne].
  - assert (count d (zip src p) = 0); [|lia].
    clear -Hy. revert p Hy. induction src as [|x' src IH']; intros [|z p] Hy; simpl; auto.
    destruct (Nat.eqb_spec z d) as [->|Hz]; [exfalso; apply Hy; left; reflexivity|]. simpl. apply IH'. intros H; apply Hy; right; exact H.
  - simpl. apply IH. exact Hp.
Qed.
Lemma count_zip_full d : forall p src, length p <= length src -> In d p -> 1 <= count d (zip src p).
Proof.
  induction p as [|y p IH]; intros [|x src] Hl Hin; simpl in *; try tauto; try lia.
  destruct Hin as [->|Hin]; [rewrite Nat.eqb_refl; lia|].
  specialize (IH src ltac:(lia) Hin). lia.
Qed.
Theorem evenly_balanced fuel : forall perms src dsize r (D : list nat),
  (forall p, In p perms -> length p = dsize /\ NoDup p /\ forall d, In d D -> In d p) ->
  connect_evenly fuel perms src dsize = Some r ->
  exists k, forall d, In d D -> k <= count d r <= S k.
Proof.
  induction fuel as [|f IH]; intros perms src dsize r D Hp H.
  - destruct src; simpl in H; [injection H as <-; exists 0; intros; simpl; lia | discriminate].
  - destruct src as [|s0 src0] eqn:Es; [injection H as <-; exists 0; intros; simpl; lia|]. rewrite <- Es in *.
    assert (Hne : src <> []) by (rewrite Es; discriminate).
    simpl in H. rewrite Es in H. rewrite <- Es in H.
    destruct perms as [|p perms']; [discriminate|].
    destruct (connect_evenly f perms' (skipn dsize src) dsize) as [r'|] eqn:Er; [|discriminate]. injection H as <-.
    destruct (Hp p (or_introl eq_refl)) as [Hlen [Hnd Hall]].
    destruct (le_lt_dec dsize (length src)) as [Hfull|Hpart].
    + destruct (IH perms' (skipn dsize src) dsize r' D) as [k Hk]; [intros q Hq; apply Hp; right; exact Hq | exact Er |].
      exists (S k). intros d Hd. rewrite count_app. specialize (Hk d Hd).
      pose proof (count_zip_le1 d src p Hnd). pose proof (count_zip_full d p src ltac:(lia) (Hall d Hd)). lia.
    + rewrite skipn_all2 in Er by lia. destruct f; simpl in Er; injection Er as <-;
      exists 0; intros d Hd; rewrite count_app; simpl; pose proof (count_zip_le1 d src p Hnd); lia.
Qed.
Theorem evenly_totals : forall fuel perms src dsize r (D : list nat),
  (forall p, In p perms -> length p = dsize /\ NoDup p /\ forall d, In d D -> In d p) ->
  connect_evenly fuel perms src dsize = Some r ->
  forall d d', In d D -> In d' D -> count d r <= S (count d' r).
Proof.
  intros fuel perms src dsize r D Hp H d d' Hd Hd'.
  destruct (evenly_balanced fuel perms src dsize r D Hp H) as [k Hk].
  pose proof (Hk d Hd) as [_ H1]. pose proof (Hk d' Hd') as [H2 _].
  exact (Nat.le_trans _ _ _ H1 (le_n_S _ _ H2)).
Qed.
