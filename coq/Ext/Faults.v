(* Exception flow of World.run / scheduler.run / World.shutdown (scenario.py:584-708, 793-803; scheduler.py:28-80).
   The simulators and their proxies are an oracle: each sim_process ends normally, with an exception, or is still
   waiting when another one fails; each stop() returns, swallows its own exception, or raises. *)
(* The exception flow of World.shutdown, World.run and scheduler.run is compared with the source by harness/py2coq_sched.py (run_skeletons). *)
From Coq Require Import List Bool Arith.
Import ListNotations.

Inductive exn := EKeyboardInterrupt | ERemoteException | ESimulationError | EOtherError.
Inductive proc_out := PDone | PFails (e : exn) | PWaiting.         (* PWaiting: suspended when the failure happens *)
Inductive stop_out := SReturns | SRaises (e : exn).                 (* RemoteProxy.stop swallows TimeoutError / IncompleteReadError itself *)

(* scheduler.run: gather(processes); on an exception the remaining tasks are cancelled and awaited, then it is re-raised.
   [first_failure] = the failure that gather reports (the first in time; the oracle orders the list accordingly) *)
Definition first_failure (procs : list proc_out) : option exn :=
  match find (fun p => match p with PFails _ => true | _ => false end) procs with
  | Some (PFails e) => Some e | _ => None end.
Definition cancelled (procs : list proc_out) : list bool :=       (* which tasks receive cancel() while still pending *)
  match first_failure procs with
  | None => map (fun _ => false) procs
  | Some _ => map (fun p => match p with PWaiting => true | _ => false end) procs
  end.

Record run_result := mkRR {
  raised : option exn;            (* what World.run raises *)
  logged_remote_error : bool;     (* the except RemoteException branch *)
  success_logged : bool;
  stops : list nat;               (* simulators whose stop() was called, in order *)
  loop_closed : bool }.

(* World.shutdown (as repaired by /repo 72a0013, finding F25): every simulator is stopped, in order, whatever the stop() of
   another one does; the errors are collected, the loop is stopped and closed, then the first error is raised *)
Fixpoint shutdown (k : nat) (stops_ : list stop_out) : list nat * option exn :=
  match stops_ with
  | [] => ([], None)
  | s :: r => let (l, e) := shutdown (S k) r in
              (k :: l, match s with SRaises e0 => Some e0 | SReturns => e end)
  end.

Definition world_run (procs : list proc_out) (stops_ : list stop_out) : run_result :=
  let sched := first_failure procs in
  let (success, pending) := match sched with
     | None => (true, None)
     | Some EKeyboardInterrupt => (false, None)           (* logged "Simulation canceled" *)
     | Some ERemoteException => (false, None)             (* logged as error *)
     | Some e => (false, Some e) end in
  let (stopped, stop_exn) := shutdown 0 stops_ in
  match stop_exn with
  | Some e => mkRR (Some e) (match sched with Some ERemoteException => true | _ => false end) false stopped true    (* raised after the loop is closed *)
  | None => mkRR pending (match sched with Some ERemoteException => true | _ => false end) success stopped true
  end.
