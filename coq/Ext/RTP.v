From Coq Require Import ZArith Bool Lia.
From MV Require Import Ext.RT.
Open Scope Z_scope.

Lemma ceil_div_spec p r : 0 < r -> r * (ceil_div p r - 1) < p <= r * ceil_div p r.
Proof.
  intros Hr. unfold ceil_div. pose proof (Z.div_mod (- p) r ltac:(lia)) as E. pose proof (Z.mod_pos_bound (- p) r Hr) as B.
  nia.
Qed.
(* pacing: a step for time t never begins before r * (t - 1) *)
Theorem begin_not_early t passed r : 0 < r -> may_begin t passed r = true -> r * (t - 1) < passed.
Proof.
  intros Hr H. unfold may_begin, rt_progress in H. apply Z.leb_le in H. pose proof (ceil_div_spec passed r Hr). nia.
Qed.
(* ... and real-time never holds a step back longer than that *)
Theorem begin_allowed t passed r : 0 < r -> r * (t - 1) < passed -> may_begin t passed r = true.
Proof.
  intros Hr H. unfold may_begin, rt_progress. apply Z.leb_le. pose proof (ceil_div_spec passed r Hr). nia.
Qed.
(* too-slow reporting *)
Theorem rt_check_in_time_iff r strict passed last : rt_check (Some r) strict passed last = InTime <-> passed <= r * last.
Proof. unfold rt_check. destruct (Z.ltb_spec 0 (passed - r * last)); destruct strict; split; intros; try discriminate; try reflexivity; lia. Qed.
Theorem rt_strict_only_changes_the_report r passed last :
  (rt_check (Some r) true passed last = InTime <-> rt_check (Some r) false passed last = InTime) /\
  (rt_check (Some r) true passed last = TooSlowError <-> rt_check (Some r) false passed last = TooSlowWarning).
Proof. unfold rt_check. destruct (0 <? passed - r * last); split; split; intros; try discriminate; reflexivity. Qed.
Theorem no_rt_never_too_slow strict passed last : rt_check None strict passed last = InTime.
Proof. reflexivity. Qed.
(* a simulator that answers instantly is in time for every step t >= 1 that began as early as real-time allows ... *)
Theorem instant_answer_in_time r strict t passed : 0 < r -> passed <= r * t -> rt_check (Some r) strict passed t = InTime.
Proof. intros Hr H. apply rt_check_in_time_iff. exact H. Qed.
(* ... but the step at time 0 is reported too slow as soon as any time at all has passed (known finding F18) *)
Theorem time_zero_always_too_slow_refuted : exists r passed, 0 < r /\ 0 < passed /\ rt_check (Some r) true passed 0 = TooSlowError.
Proof. exists 1000, 1. repeat split; reflexivity. Qed.
(* set_event *)
Theorem set_event_table rt t until :
  (rt = None -> set_event rt t until = EventRefused) /\
  (rt <> None -> t < until -> set_event rt t until = EventScheduled) /\
  (rt <> None -> until <= t -> set_event rt t until = EventIgnoredWithWarning).
Proof.
  unfold set_event. destruct rt as [r|]; repeat split; intros; try congruence; destruct (Z.ltb_spec t until); auto; lia.
Qed.
