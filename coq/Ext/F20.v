(* Known finding F20 as a theorem about the real-time model (Ext/RT.v): a consumer's step for time t can begin only when its
   producer's progress has PASSED t (C01's guard); in real-time mode the producer's progress is capped by the clock,
   rt_progress = ceil(passed / r).  So whenever the consumer's step for t may begin, more than r * t has elapsed - and the
   too-slow check, made when the step ends (not earlier than it began), reports it: every step of a paced consumer is "too
   slow", however fast the simulators answer. *)
From Coq Require Import ZArith Lia.
From MV Require Import Ext.RT Ext.RTP.
Open Scope Z_scope.

Lemma passed_ceil (t passed r : Z) : 0 < r -> t < rt_progress passed r -> r * t < passed.
Proof.
  intros Hr H. unfold rt_progress, ceil_div in H.
  pose proof (Z.div_mod (- passed) r ltac:(lia)) as Hd. pose proof (Z.mod_pos_bound (- passed) r Hr) as Hm. nia.
Qed.

Theorem paced_consumer_is_always_too_slow r strict t passed_at_begin passed_at_end :
  0 < r -> t < rt_progress passed_at_begin r -> passed_at_begin <= passed_at_end ->
  rt_check (Some r) strict passed_at_end t <> InTime.
Proof.
  intros Hr Hb Hle H. apply rt_check_in_time_iff in H. pose proof (passed_ceil t passed_at_begin r Hr Hb). lia.
Qed.
