(* Tie between the generated API-version functions (Gen/AdaptFns.v, regenerated from mosaik/adapters.py and
   mosaik/proxies.py on every run) and the model Ext/Adapters.v that the C15 theorems are about. *)
From Coq Require Import List Bool Arith.
Import ListNotations.
From MV Require Import Ext.Adapters Ext.AdaptersP Ext.GenAdapt Gen.AdaptFns.

(* starting a simulator: LocalProxy.init (or the remote init, which always passes time_resolution and never refuses)
   followed by init_and_get_adapter *)
Definition gen_start_of (s : sim_start) : start_result :=
  let '(tr, v) := if inproc s then local_init (compliant s) (version s) else (true, Some (version s)) in
  match v with
  | None => RejectedNotCompliant
  | Some _ =>
    match init_and_get_adapter v (explicit s) with
    | GInitFailed => RejectedNotCompliant
    | GTooNew => RejectedTooNew
    | GMismatch => RejectedMismatch
    | GProxy st => Started tr (existsb is_v2 st) (existsb is_v3 st)
    end
  end.

Theorem tie_start : forall s, gen_start_of s = start s.
Proof.
  intros [v e ip c]. unfold gen_start_of, start, local_init, init_and_get_adapter; cbn [inproc compliant version explicit].
  destruct ip, c; cbn [andb negb orb];
    destruct (vge v [3]) eqn:E3; cbn [andb negb orb]; try reflexivity;
    destruct (vge v [4]) eqn:E4; try reflexivity;
    (destruct e as [[|x e']|]; cbn [andb negb];
     [ | destruct (veq v (x :: e')); cbn [negb] | ];
     try reflexivity;
     destruct (vlt v [2; 2]), (vlt v [3]); reflexivity).
Qed.

(* the adapter stack init_and_get_adapter builds delivers requests exactly as the model's deliver *)
Theorem tie_deliver : forall v e st r, init_and_get_adapter (Some v) e = GProxy st ->
  send_through v3_send v2_send st r = deliver (vlt v [2; 2]) (vlt v [3]) r.
Proof.
  intros v e st r H. unfold init_and_get_adapter in H.
  destruct (vge v [4]); [discriminate|].
  match type of H with (if ?c then _ else _) = _ => destruct c; [discriminate|] end.
  injection H as <-.
  destruct (vlt v [2; 2]), (vlt v [3]), r; reflexivity.
Qed.

Theorem tie_meta_type : forall v e st g, init_and_get_adapter (Some v) e = GProxy st ->
  (if existsb is_v3 st then v3_meta_type g else g) = meta_type (vlt v [3]) g.
Proof.
  intros v e st g H. unfold init_and_get_adapter in H.
  destruct (vge v [4]); [discriminate|].
  match type of H with (if ?c then _ else _) = _ => destruct c; [discriminate|] end.
  injection H as <-.
  destruct (vlt v [2; 2]), (vlt v [3]), g; reflexivity.
Qed.

Lemma generated_accepted_iff : forall s, version s <> [] -> (forall e, explicit s = Some e -> e <> []) ->
  (exists a b c, gen_start_of s = Started a b c) <->
  (major (version s) < 4 /\ (forall e, explicit s = Some e -> e = version s) /\
   ~ (inproc s = true /\ compliant s = false /\ 3 <= major (version s))).
Proof. intros s. rewrite tie_start. exact (start_accepts_iff s). Qed.

Lemma generated_requests_through_the_adapters : forall v e st, init_and_get_adapter (Some v) e = GProxy st ->
  (forall n, send_through v3_send v2_send st (RStep n) = Some (RStep (if vlt v [3] then Nat.min n 2 else n))) /\
  send_through v3_send v2_send st RSetupDone = (if vlt v [2; 2] then None else Some RSetupDone) /\
  (forall k, send_through v3_send v2_send st (ROther k) = Some (ROther k)).
Proof.
  intros v e st H. repeat split; intros; rewrite (tie_deliver v e st _ H).
  - apply deliver_step. - apply deliver_setup_done. - apply deliver_other.
Qed.
