(* Tie between the generated bulk-connection helpers (Gen/BulkFns.v, regenerated from mosaik/util.py on every run) and the
   model Ext/Util.v that the C18 theorems are about. *)
From Coq Require Import ZArith List Bool Arith Lia.
Import ListNotations.
From MV Require Import Ext.Util Ext.UtilP Ext.GenBulk Gen.BulkFns.

Definition to_rres (g : gres) : rres :=
  match g with
  | GOk conns _ => ROk conns | GPrecondition => RPrecondition | GAssert => RAssert
  | GIndexError => ROracle | GOracle => ROracle          (* (an index error does not occur: tie_randomly_loop) *)
  end.

(* ---- connect_many_to_one ---- *)
Lemma many_fold (d : nat) : forall (l : list nat) (acc : list (nat * nat)), fold_left (fun conns src => conns ++ [(src, d)]) l acc = acc ++ map (fun s => (s, d)) l.
Proof.
  induction l as [|x l IH]; intros acc; simpl; [rewrite app_nil_r; reflexivity|].
  rewrite IH, <- app_assoc. reflexivity.
Qed.
Theorem tie_many_to_one src d : connect_many_to_one_gen src d = connect_many_to_one src d.
Proof. unfold connect_many_to_one_gen, connect_many_to_one. rewrite many_fold. reflexivity. Qed.

(* ---- _connect_evenly ---- *)
Lemma evenly_round pairs : forall conns connected,
  connect_evenly_round pairs conns connected = (conns ++ pairs, connected ++ map snd pairs).
Proof.
  unfold connect_evenly_round. induction pairs as [|[s d] pairs IH]; intros conns connected; simpl.
  - rewrite !app_nil_r. reflexivity.
  - rewrite IH, <- !app_assoc. reflexivity.
Qed.

Lemma skipn_nonempty {A} (l : list A) n : n < length l -> exists x r, skipn n l = x :: r.
Proof.
  revert n. induction l as [|a l IH]; intros n H; simpl in H; [lia|].
  destruct n as [|n]; [exists a, l; reflexivity|]. simpl. apply IH. lia.
Qed.

Lemma skipn_skipn' {A} (l : list A) : forall a b, skipn a (skipn b l) = skipn (b + a) l.
Proof.
  induction l as [|x l IH]; intros a b; [rewrite !skipn_nil; reflexivity|].
  destruct b as [|b]; [reflexivity|]. simpl. apply IH.
Qed.

Theorem tie_evenly_loop d src : forall fuel shuffles pos conns connected,
  connect_evenly_loop fuel shuffles src (length src) d pos conns connected =
  match connect_evenly fuel shuffles (skipn pos src) d with
  | Some r => GOk (conns ++ r) (connected ++ map snd r)
  | None => GOracle
  end.
Proof.
  induction fuel as [|fuel IH]; intros shuffles pos conns connected.
  - simpl. destruct (pos <? length src) eqn:E.
    + apply Nat.ltb_lt in E. destruct (skipn_nonempty src pos E) as (x & r & ->). reflexivity.
    + apply Nat.ltb_ge in E. rewrite skipn_all2 by exact E. simpl. rewrite !app_nil_r. reflexivity.
  - cbn [connect_evenly_loop]. destruct (pos <? length src) eqn:E.
    + apply Nat.ltb_lt in E. destruct (skipn_nonempty src pos E) as (x & r & Hs).
      destruct shuffles as [|p shuffles]; [rewrite Hs; reflexivity|].
      rewrite evenly_round, IH. rewrite Hs. cbn [connect_evenly]. rewrite <- Hs.
      rewrite skipn_skipn'.
      destruct (connect_evenly fuel shuffles (skipn (pos + d) src) d) as [r'|]; [|reflexivity].
      rewrite map_app, <- !app_assoc. reflexivity.
    + apply Nat.ltb_ge in E. rewrite skipn_all2 by exact E. destruct shuffles; simpl; rewrite !app_nil_r; reflexivity.
Qed.

Theorem tie_evenly fuel shuffles src dest :
  connect_evenly_gen fuel shuffles src dest =
  match connect_evenly fuel shuffles src (length dest) with Some r => GOk r (map snd r) | None => GOracle end.
Proof. unfold connect_evenly_gen. rewrite tie_evenly_loop. reflexivity. Qed.

(* ---- _connect_randomly ---- *)
Lemma length_remove1 d : forall l, In d l -> length (remove1 d l) = length l - 1.
Proof.
  induction l as [|y l IH]; intros H; [destruct H|]. simpl. destruct (Nat.eqb y d) eqn:E; [lia|].
  destruct H as [H|H]; [subst; rewrite Nat.eqb_refl in E; discriminate|]. simpl. rewrite IH by exact H.
  destruct l; [destruct H|simpl; lia].
Qed.

Lemma dget_dset c d v x : dget (dset c d v) x 0 = if Nat.eqb d x then v else dget c x 0.
Proof. reflexivity. Qed.

Theorem tie_randomly_loop maxc : forall src choices pool max_i connects conns connected,
  max_i = (Z.of_nat (length pool) - 1)%Z ->
  (forall x, dget connects x 0 = count x conns) ->
  to_rres (connect_randomly_loop choices src pool max_i maxc connects conns connected) = rand_loop choices src pool maxc (rev conns).
Proof.
  induction src as [|s rest IH]; intros choices pool max_i connects conns connected Hm Hc.
  - destruct choices; cbn [connect_randomly_loop rand_loop to_rres]; rewrite rev_involutive; reflexivity.
  - cbn [connect_randomly_loop rand_loop].
    destruct pool as [|p0 pool'].
    { subst max_i. destruct choices; reflexivity. }
    assert (Hge : (max_i >=? 0)%Z = true) by (subst max_i; simpl length; apply Z.geb_le; lia).
    rewrite Hge. cbn [negb].
    destruct choices as [|i ch]; [reflexivity|]. cbn [rand_loop].
    destruct (Z.of_nat i <=? max_i)%Z eqn:Ei; cbn [negb].
    + apply Z.leb_le in Ei. assert (Hi : i < length (p0 :: pool')) by (subst max_i; lia).
      destruct (nth_error (p0 :: pool') i) as [d|] eqn:En; [|apply nth_error_None in En; lia].
      assert (Hin : In d (p0 :: pool')) by (eapply nth_error_In; exact En).
      assert (Hcnt : count d ((s, d) :: rev conns) = dget connects d 0 + 1).
      { cbn [count]. rewrite Nat.eqb_refl, count_rev, Hc. lia. }
      rewrite dget_dset, Nat.eqb_refl.
      replace (match maxc with Some m => m <=? count d ((s, d) :: rev conns) | None => false end)
        with (ge_inf (dget connects d 0 + 1) maxc) by (unfold ge_inf; destruct maxc; [rewrite Hcnt|]; reflexivity).
      replace ((s, d) :: rev conns) with (rev (conns ++ [(s, d)])) by (rewrite rev_app_distr; reflexivity).
      assert (Hc' : forall x, dget (dset connects d (dget connects d 0 + 1)) x 0 = count x (conns ++ [(s, d)])).
      { intros x. rewrite dget_dset, count_app. cbn [count]. destruct (Nat.eqb d x) eqn:Ex.
        - apply Nat.eqb_eq in Ex. subst x. rewrite Hc. lia.
        - rewrite Hc. lia. }
      destruct (ge_inf (dget connects d 0 + 1) maxc).
      * apply IH; [|exact Hc']. rewrite length_remove1 by exact Hin. subst max_i. simpl length. lia.
      * apply IH; [exact Hm|exact Hc'].
    + apply Z.leb_gt in Ei. assert (Hn : nth_error (p0 :: pool') i = None) by (apply nth_error_None; subst max_i; lia).
      rewrite Hn. reflexivity.
Qed.

(* the set the helper returns holds exactly the destinations of the connections it made *)
Theorem randomly_loop_connected maxc : forall src choices pool max_i connects conns connected r c,
  connected = map snd conns ->
  connect_randomly_loop choices src pool max_i maxc connects conns connected = GOk r c -> c = map snd r.
Proof.
  induction src as [|s rest IH]; intros choices pool max_i connects conns connected r c Hk H.
  - simpl in H. injection H as <- <-. exact Hk.
  - cbn [connect_randomly_loop] in H.
    destruct (negb (max_i >=? 0)%Z); [discriminate|].
    destruct choices as [|i ch]; [discriminate|].
    destruct (negb (Z.of_nat i <=? max_i)%Z); [discriminate|].
    destruct (nth_error pool i) as [d|]; [|discriminate].
    destruct (ge_inf (dget (dset connects d (dget connects d 0 + 1)) d 0) maxc);
      (eapply IH; [|exact H]; rewrite map_app, Hk; reflexivity).
Qed.

Theorem tie_randomly_uneven choices src dest maxc : dest <> [] ->
  to_rres (connect_randomly_uneven_gen choices src dest maxc) = connect_randomly_uneven choices src dest maxc.
Proof.
  intros Hd. unfold connect_randomly_uneven_gen, connect_randomly_uneven.
  assert (Hp : negb (le_times_inf (length src) (length dest) maxc) =
               match maxc with Some m => negb (length src <=? length dest * m) | None => false end).
  { unfold le_times_inf. destruct maxc; [reflexivity|]. destruct dest; [contradiction|reflexivity]. }
  rewrite Hp. destruct (match maxc with Some m => negb (length src <=? length dest * m) | None => false end); [reflexivity|].
  apply (tie_randomly_loop maxc src choices dest _ [] [] []); [reflexivity|reflexivity].
Qed.

(* ---- connect_randomly (the public helper) ---- *)
Theorem tie_connect_randomly evenly fuel shuffles choices src dest maxc :
  (dest = [] -> connect_randomly_gen evenly fuel shuffles choices src dest maxc = GAssert) /\
  (dest <> [] -> evenly = true ->
     connect_randomly_gen evenly fuel shuffles choices src dest maxc =
     match connect_evenly fuel shuffles src (length dest) with Some r => GOk r (map snd r) | None => GOracle end) /\
  (dest <> [] -> evenly = false ->
     to_rres (connect_randomly_gen evenly fuel shuffles choices src dest maxc) = connect_randomly_uneven choices src dest maxc /\
     forall r c, connect_randomly_gen evenly fuel shuffles choices src dest maxc = GOk r c -> forall d, In d c <-> In d (connected_set r)).
Proof.
  unfold connect_randomly_gen. split; [|split].
  - intros ->. reflexivity.
  - intros Hd ->. destruct dest; [contradiction|]. apply tie_evenly.
  - intros Hd ->. destruct dest as [|d0 dest']; [contradiction|]. split.
    + apply tie_randomly_uneven. exact Hd.
    + intros r c H1 d. unfold connect_randomly_uneven_gen in H1.
      destruct (negb (le_times_inf (length src) (length (d0 :: dest')) maxc)); [discriminate|].
      apply randomly_loop_connected in H1; [|reflexivity]. subst c. unfold connected_set. rewrite nodup_In. reflexivity.
Qed.

Lemma generated_randomly_each_source_once_and_capped : forall fuel shuffles choices src dest m r c, dest <> [] -> (0 < m)%nat -> NoDup dest ->
  connect_randomly_gen false fuel shuffles choices src dest (Some m) = GOk r c ->
  map fst r = src /\ (forall d, count d r <= m) /\ (forall d, In d c <-> 0 < count d r).
Proof.
  intros fuel shuffles choices src dest m r c Hd Hm Hn H.
  destruct (tie_connect_randomly false fuel shuffles choices src dest (Some m)) as (_ & _ & H3).
  destruct (H3 Hd eq_refl) as (Ht & Hset). rewrite H in Ht. cbn [to_rres] in Ht. symmetry in Ht.
  split; [exact (randomly_each_source_once choices src dest (Some m) r Ht)|].
  split; [exact (randomly_respects_max_connects choices src dest m r Hm Hn Ht)|].
  intros d. rewrite (Hset r c H d). apply connected_set_spec.
Qed.

Lemma generated_never_asserts_when_feasible : forall fuel shuffles choices src dest m, dest <> [] -> (0 < m)%nat -> NoDup dest ->
  connect_randomly_gen false fuel shuffles choices src dest (Some m) <> GAssert.
Proof.
  intros fuel shuffles choices src dest m Hd Hm Hn H.
  destruct (tie_connect_randomly false fuel shuffles choices src dest (Some m)) as (_ & _ & H3).
  destruct (H3 Hd eq_refl) as (Ht & _). rewrite H in Ht. cbn [to_rres] in Ht. symmetry in Ht.
  exact (randomly_never_asserts choices src dest m Hm Hn Ht).
Qed.
