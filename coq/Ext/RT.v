(* Real-time mode arithmetic of mosaik/scheduler.py (advance_progress rt branch, rt_check) and MosaikRemote.set_event,
   on an integer clock: time in ticks, r = rt_factor * time_resolution ticks per simulation time step (r > 0).
   IEEE rounding of passed/rt_factor is not modelled (see DESIGN.md C17). *)
From Coq Require Import ZArith Bool.
Open Scope Z_scope.

Definition ceil_div (p r : Z) : Z := - ((- p) / r).                    (* math.ceil(p / r), r > 0 *)
Definition rt_progress (passed r : Z) : Z := ceil_div passed r.        (* cap of every simulator's progress *)
(* a step for time t can begin only when progress = t, and progress <= rt_progress *)
Definition may_begin (t passed r : Z) : bool := t <=? rt_progress passed r.

Inductive check_result := InTime | TooSlowWarning | TooSlowError.
Definition rt_check (rt : option Z) (strict : bool) (passed last_step : Z) : check_result :=
  match rt with
  | None => InTime
  | Some r => if 0 <? passed - r * last_step then (if strict then TooSlowError else TooSlowWarning) else InTime
  end.

Inductive event_result := EventRefused | EventScheduled | EventIgnoredWithWarning.
Definition set_event (rt : option Z) (t until : Z) : event_result :=
  match rt with
  | None => EventRefused
  | Some _ => if t <? until then EventScheduled else EventIgnoredWithWarning
  end.
