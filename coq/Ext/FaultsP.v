From Coq Require Import List Bool Arith Lia.
Import ListNotations.
From MV Require Import Ext.Faults.

Lemma shutdown_all k stops_ : (forall s, In s stops_ -> s = SReturns) -> shutdown k stops_ = (seq k (length stops_), None).
Proof.
  revert k; induction stops_ as [|s r IH]; intros k H; simpl; [reflexivity|].
  rewrite (H s (or_introl eq_refl)). rewrite IH by (intros; apply H; right; auto). reflexivity.
Qed.

(* C14: whatever fails and wherever, if every stop() returns, then every simulator is stopped exactly once (in order),
   the loop is closed, and the failure surfaces as an exception or as the logged remote error - never as success *)
Theorem fault_containment procs stops_ e : first_failure procs = Some e -> (forall s, In s stops_ -> s = SReturns) ->
  let r := world_run procs stops_ in
  stops r = seq 0 (length stops_) /\ loop_closed r = true /\ success_logged r = false /\
  (raised r = Some e \/ (e = ERemoteException /\ logged_remote_error r = true /\ raised r = None)
   \/ (e = EKeyboardInterrupt /\ raised r = None)).
Proof.
  intros F H. unfold world_run. rewrite F. rewrite (shutdown_all 0 stops_ H).
  destruct e; simpl; repeat split; auto.
Qed.
(* a fault-free run stops everybody once, closes the loop and reports success *)
Theorem clean_run procs stops_ : first_failure procs = None -> (forall s, In s stops_ -> s = SReturns) ->
  let r := world_run procs stops_ in
  stops r = seq 0 (length stops_) /\ loop_closed r = true /\ success_logged r = true /\ raised r = None.
Proof. intros F H. unfold world_run. rewrite F. rewrite (shutdown_all 0 stops_ H). simpl. auto. Qed.
(* every task that was still waiting when the failure happened is cancelled (no pending event-loop work) *)
Theorem waiting_tasks_are_cancelled procs e : first_failure procs = Some e ->
  forall i, nth i procs PDone = PWaiting -> nth i (cancelled procs) false = true.
Proof.
  intros F i H. unfold cancelled. rewrite F.
  assert (G : forall l i, nth i l PDone = PWaiting -> nth i (map (fun p => match p with PWaiting => true | _ => false end) l) false = true).
  { induction l as [|p l IH]; intros [|j] Hj; simpl in *; try discriminate; auto. rewrite Hj. reflexivity. }
  apply G. exact H.
Qed.
(* the oracle assumption is needed: a stop() that raises leaves later simulators unstopped and the loop open *)
Theorem stop_raising_breaks_containment_refuted :
  exists procs stops_, let r := world_run procs stops_ in loop_closed r = false /\ length (stops r) < length stops_.
Proof. exists [PFails ESimulationError; PWaiting], [SRaises EOtherError; SReturns]. simpl. split; [reflexivity|lia]. Qed.
