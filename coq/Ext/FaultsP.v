From Coq Require Import List Bool Arith Lia.
Import ListNotations.
From MV Require Import Ext.Faults.

Lemma shutdown_all k stops_ : (forall s, In s stops_ -> s = SReturns) -> shutdown k stops_ = (seq k (length stops_), None).
Proof.
  revert k; induction stops_ as [|s r IH]; intros k H; simpl; [reflexivity|].
  rewrite (H s (or_introl eq_refl)). rewrite IH by (intros; apply H; right; auto). reflexivity.
Qed.
(* whatever the stop() calls do, every simulator is stopped once, in order *)
Lemma shutdown_stops_all k stops_ : fst (shutdown k stops_) = seq k (length stops_).
Proof.
  revert k; induction stops_ as [|s r IH]; intros k; simpl; [reflexivity|].
  specialize (IH (S k)). destruct (shutdown (S k) r) as [l e]. simpl in *. rewrite IH. reflexivity.
Qed.
(* ... and a stop() that raises surfaces as an error of run() *)
Lemma shutdown_error k stops_ : (exists e, In (SRaises e) stops_) -> snd (shutdown k stops_) <> None.
Proof.
  revert k; induction stops_ as [|s r IH]; intros k [e H]; [destruct H|]. simpl.
  destruct (shutdown (S k) r) as [l e'] eqn:E. simpl. destruct s as [|e0]; [|discriminate].
  destruct H as [H|H]; [discriminate|]. specialize (IH (S k) (ex_intro _ e H)). rewrite E in IH. exact IH.
Qed.

(* C14: whatever fails and wherever, if every stop() returns, then every simulator is stopped exactly once (in order),
   the loop is closed, and the failure surfaces as an exception or as the logged remote error - never as success *)
Theorem fault_containment procs stops_ e : first_failure procs = Some e -> (forall s, In s stops_ -> s = SReturns) ->
  let r := world_run procs stops_ in
  stops r = seq 0 (length stops_) /\ loop_closed r = true /\ success_logged r = false /\
  (raised r = Some e \/ (e = ERemoteException /\ logged_remote_error r = true /\ raised r = None)
   \/ (e = EKeyboardInterrupt /\ raised r = None)).
Proof.
  intros F H. unfold world_run. rewrite F. rewrite (shutdown_all 0 stops_ H).
  destruct e; simpl; repeat split; auto.
Qed.
(* a fault-free run stops everybody once, closes the loop and reports success *)
Theorem clean_run procs stops_ : first_failure procs = None -> (forall s, In s stops_ -> s = SReturns) ->
  let r := world_run procs stops_ in
  stops r = seq 0 (length stops_) /\ loop_closed r = true /\ success_logged r = true /\ raised r = None.
Proof. intros F H. unfold world_run. rewrite F. rewrite (shutdown_all 0 stops_ H). simpl. auto. Qed.
(* every task that was still waiting when the failure happened is cancelled (no pending event-loop work) *)
Theorem waiting_tasks_are_cancelled procs e : first_failure procs = Some e ->
  forall i, nth i procs PDone = PWaiting -> nth i (cancelled procs) false = true.
Proof.
  intros F i H. unfold cancelled. rewrite F.
  assert (G : forall l i, nth i l PDone = PWaiting -> nth i (map (fun p => match p with PWaiting => true | _ => false end) l) false = true).
  { induction l as [|p l IH]; intros [|j] Hj; simpl in *; try discriminate; auto. rewrite Hj. reflexivity. }
  apply G. exact H.
Qed.
(* since the repair of F25 no assumption on stop() is needed for the clean-up: whatever fails during the run and whatever the
   stop() calls do, every simulator is stopped exactly once, in order, and the loop is closed; a stop() that raises makes
   run() raise and is never reported as success *)
Theorem cleanup_is_unconditional procs stops_ :
  let r := world_run procs stops_ in
  stops r = seq 0 (length stops_) /\ loop_closed r = true /\
  ((exists e, In (SRaises e) stops_) -> raised r <> None /\ success_logged r = false).
Proof.
  unfold world_run. pose proof (shutdown_stops_all 0 stops_) as Hs. pose proof (shutdown_error 0 stops_) as He.
  destruct (shutdown 0 stops_) as [stopped stop_exn]. simpl in Hs, He. subst stopped.
  destruct (first_failure procs) as [[| | |]|]; destruct stop_exn as [e|]; cbn;
    (split; [reflexivity|split; [reflexivity|]]); intros Hx;
    first [split; [discriminate|reflexivity] | exfalso; apply (He Hx); reflexivity].
Qed.
