(* Vocabulary of the generated API-version functions (Gen/AdaptFns.v, written by harness/py2coq_adapt.py): the adapter
   classes as tags, a proxy as the stack of adapters around the base proxy (outermost first), what init_and_get_adapter
   ends in, and how a request travels through a stack. *)
From Coq Require Import List Bool Arith.
Import ListNotations.
From MV Require Import Ext.Adapters.

Inductive adapter := A_V2ToV1 | A_V3ToV2.
Inductive gen_start := GInitFailed | GTooNew | GMismatch | GProxy (stack : list adapter).

Definition is_v2 (a : adapter) : bool := match a with A_V2ToV1 => true | _ => false end.
Definition is_v3 (a : adapter) : bool := match a with A_V3ToV2 => true | _ => false end.

Section Send.
  Variable v3_send v2_send : request -> option request.
  (* proxy.send(request): each adapter either answers itself (None) or hands the (changed) request to the proxy it wraps *)
  Fixpoint send_through (stack : list adapter) (r : request) : option request :=
    match stack with
    | [] => Some r
    | a :: rest => match (match a with A_V3ToV2 => v3_send r | A_V2ToV1 => v2_send r end) with
                   | None => None | Some r' => send_through rest r' end
    end.
End Send.
