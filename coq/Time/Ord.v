(* Order facts about Python tuple order on list Z, tmin, and monotonicity of act in its time argument. *)
From Coq Require Import ZArith List Bool Arith Lia.
Import ListNotations.
From MV Require Import Time.Spec.
Open Scope Z_scope.

Lemma tlt_irrefl a : tlt a a = false.
Proof. induction a; simpl; auto. rewrite Z.ltb_irrefl. auto. Qed.

Lemma tlt_trichotomy a b : tlt a b = true \/ a = b \/ tlt b a = true.
Proof.
  revert b; induction a as [|x a IH]; intros [|y b]; simpl; auto.
  destruct (x <? y) eqn:E1; auto.
  destruct (y <? x) eqn:E2; auto.
  apply Z.ltb_ge in E1, E2. assert (x = y) by lia. subst.
  destruct (IH b) as [H|[H|H]]; auto. subst; auto.
Qed.

Lemma tlt_asym a b : tlt a b = true -> tlt b a = false.
Proof.
  revert b; induction a as [|x a IH]; intros [|y b]; simpl; auto; try discriminate.
  destruct (x <? y) eqn:E1.
  - intros _. apply Z.ltb_lt in E1. destruct (y <? x) eqn:E2; auto. apply Z.ltb_lt in E2; lia.
  - destruct (y <? x) eqn:E2; try discriminate. apply IH.
Qed.

Lemma tlt_trans a b c : tlt a b = true -> tlt b c = true -> tlt a c = true.
Proof.
  revert b c; induction a as [|x a IH]; intros [|y b] [|z c]; simpl; auto; try discriminate.
  destruct (x <? y) eqn:A, (y <? z) eqn:B, (x <? z) eqn:C, (y <? x) eqn:D, (z <? y) eqn:E, (z <? x) eqn:F;
    try discriminate; auto; rewrite ?Z.ltb_lt, ?Z.ltb_ge in *; try lia; intros; eauto.
Qed.

Lemma tle_refl a : tle a a = true.
Proof. unfold tle. rewrite tlt_irrefl. reflexivity. Qed.

Lemma tle_trans a b c : tle a b = true -> tle b c = true -> tle a c = true.
Proof.
  unfold tle. rewrite !negb_true_iff. intros H1 H2.
  destruct (tlt c a) eqn:E; auto.
  destruct (tlt_trichotomy b a) as [H|[H|H]].
  - congruence.
  - subst. congruence.
  - (* a < b, c < a -> c < b contradiction *) rewrite (tlt_trans _ _ _ E H) in H2. discriminate.
Qed.

Lemma tlt_tle a b : tlt a b = true -> tle a b = true.
Proof. intros H. unfold tle. rewrite (tlt_asym _ _ H). reflexivity. Qed.

Lemma tle_total a b : tle a b = true \/ tle b a = true.
Proof. unfold tle. destruct (tlt_trichotomy a b) as [H|[H|H]].
  - left. rewrite (tlt_asym _ _ H). auto.
  - subst. left. rewrite tlt_irrefl. auto.
  - right. rewrite (tlt_asym _ _ H). auto.
Qed.

Lemma tle_antisym a b : tle a b = true -> tle b a = true -> a = b.
Proof. unfold tle. rewrite !negb_true_iff. intros. destruct (tlt_trichotomy a b) as [H1|[H1|H1]]; congruence. Qed.

Lemma tlt_tle_trans a b c : tlt a b = true -> tle b c = true -> tlt a c = true.
Proof.
  intros H1 H2. destruct (tlt_trichotomy a c) as [H|[H|H]]; auto.
  - subst. unfold tle in H2. rewrite H1 in H2. discriminate.
  - pose proof (tlt_trans _ _ _ H H1) as H3. unfold tle in H2. rewrite H3 in H2. discriminate.
Qed.

Lemma teq_eq a b : teq a b = true <-> a = b.
Proof.
  revert b; induction a as [|x a IH]; intros [|y b]; simpl; split; intros H; try discriminate; auto.
  - apply andb_true_iff in H as [H1 H2]. apply Z.eqb_eq in H1. apply IH in H2. subst; auto.
  - injection H as -> ->. rewrite Z.eqb_refl. apply IH. reflexivity.
Qed.

(* tmin *)
Lemma tmin_spec l m : tmin l = Some m -> In m l /\ forall x, In x l -> tle m x = true.
Proof.
  revert m; induction l as [|a l IH]; simpl; intros m H; [discriminate|].
  destruct (tmin l) as [m'|] eqn:E.
  - specialize (IH m' eq_refl) as [Hin Hle]. injection H as <-.
    destruct (tlt m' a) eqn:Hlt.
    + split; [right; exact Hin|]. intros x [<-|Hx]; [apply tlt_tle; exact Hlt | apply Hle; exact Hx].
    + split; [left; reflexivity|]. intros x [<-|Hx]; [apply tle_refl|].
      apply tle_trans with m'; [unfold tle; rewrite Hlt; reflexivity | apply Hle; exact Hx].
  - injection H as <-. destruct l; [|simpl in E; destruct (tmin l); discriminate].
    split; [left; reflexivity|]. intros x [<-|[]]. apply tle_refl.
Qed.
Lemma tmin_none l : tmin l = None -> l = [].
Proof. destruct l; simpl; auto. destruct (tmin l); discriminate. Qed.

(* act is weakly monotone in the time argument (equal lengths) *)
Lemma tlt_app_same x y e : length x = length y -> tlt (x ++ e) (y ++ e) = tlt x y.
Proof.
  revert y; induction x as [|a x IH]; intros [|b y] H; simpl in *; try discriminate.
  - apply tlt_irrefl.
  - destruct (a <? b); auto. destruct (b <? a); auto.
Qed.
Lemma zadd_length xs ys : length (zadd xs ys) = Nat.min (length xs) (length ys).
Proof. revert ys; induction xs; intros [|y ys]; simpl; auto. Qed.
Lemma zadd_mono c c' p : length c = length c' -> tlt c' c = false -> tlt (zadd c' p) (zadd c p) = false.
Proof.
  revert c' p; induction c as [|x c IH]; intros [|x' c'] [|y p] Hl H; simpl in *; try discriminate; auto.
  injection Hl as Hl.
  destruct (x' <? x) eqn:E1; [discriminate|].
  destruct (x <? x') eqn:E2.
  - apply Z.ltb_lt in E2. replace (x' + y <? x + y) with false by (symmetry; apply Z.ltb_ge; lia).
    replace (x + y <? x' + y) with true by (symmetry; apply Z.ltb_lt; lia). reflexivity.
  - apply Z.ltb_ge in E1, E2. assert (x = x') by lia. subst. rewrite Z.ltb_irrefl. apply IH; auto.
Qed.
Lemma act_mono c c' d : length c = length c' -> tle c c' = true -> tle (act c d) (act c' d) = true.
Proof.
  unfold tle, act. rewrite !negb_true_iff. intros Hl H.
  rewrite tlt_app_same by (rewrite !zadd_length; lia).
  apply zadd_mono; auto.
Qed.
