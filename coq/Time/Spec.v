(* Clean specification of mosaik's tiered time arithmetic (mosaik/tiered_time.py).
   Definitions only; everything here is executable and is extracted.
   The tie to the code is Time/Tie.v (generated Gen.TieredTime = these functions). *)
From Coq Require Import ZArith List Bool Arith.
Import ListNotations.
Open Scope Z_scope.

Definition time := list Z.
Record interval := mkI { ipre : nat; icut : nat; itiers : list Z }.

(* the asserts of TieredInterval.__init__ *)
Definition wfIb (a : interval) : bool :=
  (1 <=? icut a)%nat && (icut a <=? ipre a)%nat && (icut a <=? length (itiers a))%nat.
Definition wfI (a : interval) : Prop :=
  (1 <= icut a)%nat /\ (icut a <= ipre a)%nat /\ (icut a <= length (itiers a))%nat.

(* Python tuple order on equal-length tuples (and on all lists) *)
Fixpoint tlt (a b : time) : bool :=
  match a, b with
  | [], [] => false | [], _ :: _ => true | _ :: _, [] => false
  | x :: a', y :: b' => if x <? y then true else if y <? x then false else tlt a' b' end.
Definition tle (a b : time) : bool := negb (tlt b a).
Fixpoint teq (a b : time) : bool :=
  match a, b with [], [] => true | x :: a', y :: b' => (x =? y) && teq a' b' | _, _ => false end.

(* tuple_add: zip truncation *)
Fixpoint zadd (xs ys : list Z) : list Z :=
  match xs, ys with x :: xs', y :: ys' => (x + y) :: zadd xs' ys' | _, _ => [] end.

Definition iadd (a : interval) := firstn (icut a) (itiers a).
Definition iext (a : interval) := skipn (icut a) (itiers a).

(* TieredTime.__add__ (the assert len t = pre is the caller's obligation, see Tie) *)
Definition act (t : time) (d : interval) : time := zadd t (firstn (icut d) (itiers d)) ++ skipn (icut d) (itiers d).

(* TieredInterval.__add__ *)
Definition comp (a b : interval) : interval :=
  let add := zadd (iadd a) (iadd b) in
  let ext := if (icut b <=? icut a)%nat then iext b
             else zadd (iext a ++ repeat 0 (length (iadd b))) (skipn (icut a) (iadd b)) ++ iext b in
  mkI (ipre a) (Nat.min (icut a) (icut b)) (add ++ ext).

(* TieredInterval.__lt__ : None = the "incomparable" assertion *)
Fixpoint ilt_loop (ca cb : nat) (i : nat) (xs ys : list Z) : option bool :=
  match xs, ys with
  | x :: xs', y :: ys' =>
      if x <? y then (if (cb <=? i)%nat && (i <? ca)%nat then None else Some true)
      else if y <? x then (if (ca <=? i)%nat && (i <? cb)%nat then None else Some false)
      else ilt_loop ca cb (S i) xs' ys'
  | _, _ => Some false
  end.
(* None also when the length / pre_length asserts fail *)
Definition ilt (a b : interval) : option bool :=
  if negb (length (itiers a) =? length (itiers b))%nat then None else
  if negb (ipre a =? ipre b)%nat then None else
  ilt_loop (icut a) (icut b) 0 (itiers a) (itiers b).
Definition ieq (a b : interval) : bool :=
  (ipre a =? ipre b)%nat && (icut a =? icut b)%nat && teq (itiers a) (itiers b).
(* functools.total_ordering *)
Definition ile (a b : interval) : option bool := option_map (fun r => r || ieq a b) (ilt a b).
Definition igt (a b : interval) : option bool := option_map (fun r => negb r && negb (ieq a b)) (ilt a b).
Definition ige (a b : interval) : option bool := option_map negb (ilt a b).
(* scenario.update_min at intervals: None = assertion, Some None = keep, Some (Some b) = replace *)
Definition upd_min (a : option interval) (b : interval) : option (option interval) :=
  match a with None => Some (Some b)
  | Some a0 => match ile a0 b with None => None | Some true => Some None | Some false => Some (Some b) end end.

Definition same_shape (a b : interval) : Prop :=
  ipre a = ipre b /\ icut a = icut b /\ length (itiers a) = length (itiers b).
Definition same_shapeb (a b : interval) : bool :=
  (ipre a =? ipre b)%nat && (icut a =? icut b)%nat && (length (itiers a) =? length (itiers b))%nat.

Definition thd (t : time) : Z := hd 0 t.
Fixpoint tmin (l : list time) : option time :=
  match l with [] => None | x :: r => match tmin r with None => Some x | Some m => Some (if tlt m x then m else x) end end.
Definition nonneg (a : interval) : bool := forallb (fun x => 0 <=? x) (itiers a).
Definition izero (a : interval) : bool := forallb (fun x => x =? 0) (itiers a).
