(* The laws of Time.Laws transported to the generated model of tiered_time.py through Time.Tie:
   these are statements about what the Python code computes. *)
From Coq Require Import ZArith List Bool Lia Arith.
Import ListNotations.
From MV Require Import Prelude.Py Gen.TieredTime Gen.UpdateMin Time.Spec Time.Ord Time.Laws Time.Tie.
Open Scope Z_scope.

Definition gsame (a b : TieredInterval) : Prop :=
  TieredInterval_pre_length a = TieredInterval_pre_length b /\
  TieredInterval_cutoff a = TieredInterval_cutoff b /\
  py_len (TieredInterval_tiers a) = py_len (TieredInterval_tiers b).
Definition gnonneg (a : TieredInterval) : bool := forallb (fun x => 0 <=? x) (TieredInterval_tiers a).

Lemma gsame_same a b : gsame a b -> same_shape (to_spec a) (to_spec b).
Proof. intros (A&B&C). unfold same_shape, to_spec; simpl. unfold py_len in C. repeat split; try congruence. lia. Qed.

(* for two comparable delays exactly one of <, =, > holds (and no comparison asserts) *)
Lemma gen_trichotomy a b : gwf a -> gwf b -> gsame a b ->
  (TieredInterval___lt__ a b = Ok true  /\ TieredInterval___eq__ a b = false /\ TieredInterval___gt__ a b = Ok false) \/
  (TieredInterval___lt__ a b = Ok false /\ TieredInterval___eq__ a b = true  /\ TieredInterval___gt__ a b = Ok false) \/
  (TieredInterval___lt__ a b = Ok false /\ TieredInterval___eq__ a b = false /\ TieredInterval___gt__ a b = Ok true).
Proof.
  intros Wa Wb HS. rewrite tie_lt, tie_gt, tie_eq by assumption.
  destruct (trichotomy _ _ (gsame_same a b HS)) as [(A&B&C)|[(A&B&C)|(A&B&C)]]; rewrite A, B, C; simpl; auto.
Qed.
Lemma gen_eq_true a b : gwf a -> gwf b -> (TieredInterval___eq__ a b = true <-> a = b).
Proof.
  intros Wa Wb. rewrite tie_eq by assumption. rewrite ieq_true. split.
  - intros H. rewrite <- (of_to a Wa), <- (of_to b Wb), H. reflexivity.
  - intros ->. reflexivity.
Qed.
Lemma gen_gt_flip a b : gwf a -> gwf b -> gsame a b -> TieredInterval___gt__ a b = TieredInterval___lt__ b a.
Proof.
  intros Wa Wb HS. rewrite tie_gt, tie_lt by assumption. rewrite igt_is_flip by (apply gsame_same; exact HS). reflexivity.
Qed.
Lemma gen_lt_trans a b c : gwf a -> gwf b -> gwf c -> gsame a b -> gsame b c ->
  TieredInterval___lt__ a b = Ok true -> TieredInterval___lt__ b c = Ok true -> TieredInterval___lt__ a c = Ok true.
Proof.
  intros Wa Wb Wc H1 H2. rewrite !tie_lt by assumption.
  pose proof (ilt_trans _ _ _ (gsame_same _ _ H1) (gsame_same _ _ H2)) as T.
  destruct (ilt (to_spec a) (to_spec b)) as [[|]|]; simpl; try discriminate.
  destruct (ilt (to_spec b) (to_spec c)) as [[|]|]; simpl; try discriminate.
  intros _ _. rewrite T; auto.
Qed.

(* a smaller delay never yields a later arrival time, for any departure time *)
Lemma gen_smaller_not_later t a b : gwf a -> gwf b -> gsame a b -> py_len t = TieredInterval_pre_length a ->
  TieredInterval___lt__ a b = Ok true ->
  exists ta tb, TieredTime___add__ (mk_TieredTime t) a = Ok (mk_TieredTime ta) /\
                TieredTime___add__ (mk_TieredTime t) b = Ok (mk_TieredTime tb) /\
                TieredTime___lt__ (mk_TieredTime ta) (mk_TieredTime tb) = Ok true.
Proof.
  intros Wa Wb HS Ht. rewrite tie_lt by assumption.
  pose proof (gsame_same _ _ HS) as HS'. rewrite (ilt_same_shape _ _ HS'). simpl. intros E. injection E as E.
  exists (act t (to_spec a)), (act t (to_spec b)).
  destruct HS as (P&C&L).
  rewrite !tie_act by assumption. rewrite <- P, Ht, Z.eqb_refl. split; [reflexivity|]. split; [reflexivity|].
  rewrite tie_tlt.
  assert (Ht' : length t = ipre (to_spec a)) by (unfold to_spec; simpl; rewrite <- Ht; symmetry; apply py_len_nat).
  assert (Ht'' : length t = ipre (to_spec b)) by (destruct HS' as (Q&_&_); congruence).
  pose proof (act_length t _ (gwf_wf a Wa) Ht') as L1. pose proof (act_length t _ (gwf_wf b Wb) Ht'') as L2.
  destruct HS' as (Q1&Q2&Q3).
  replace (py_len (act t (to_spec a)) =? py_len (act t (to_spec b))) with true
    by (symmetry; apply Z.eqb_eq; unfold py_len; f_equal; congruence).
  f_equal. apply act_mono_delay; auto.
  - apply gwf_wf; exact Wa.
  - repeat split; auto.
Qed.

(* adding a delay with non-negative tiers never moves time backwards *)
Lemma gen_never_backwards t a : gwf a -> py_len t = TieredInterval_pre_length a -> gnonneg a = true ->
  exists t', TieredTime___add__ (mk_TieredTime t) a = Ok (mk_TieredTime t') /\
    tle (firstn (Z.to_nat (TieredInterval_cutoff a)) t) (firstn (Z.to_nat (TieredInterval_cutoff a)) t') = true /\
    thd t <= thd t'.
Proof.
  intros Wa Ht Hn. exists (act t (to_spec a)). rewrite tie_act by assumption. rewrite Ht, Z.eqb_refl.
  split; [reflexivity|].
  assert (Ht' : length t = ipre (to_spec a)) by (unfold to_spec; simpl; rewrite <- Ht; symmetry; apply py_len_nat).
  apply (act_inflationary t (to_spec a) (gwf_wf a Wa) Ht'). exact Hn.
Qed.

(* combining is associative, wherever it is defined *)
Lemma gen_assoc a b c : gwf a -> gwf b -> gwf c ->
  py_len (TieredInterval_tiers a) = TieredInterval_pre_length b ->
  py_len (TieredInterval_tiers b) = TieredInterval_pre_length c ->
  exists ab bc r, TieredInterval___add__ a b = Ok ab /\ TieredInterval___add__ b c = Ok bc /\
     TieredInterval___add__ ab c = Ok r /\ TieredInterval___add__ a bc = Ok r.
Proof.
  intros Wa Wb Wc Hab Hbc.
  assert (Hab' : length (itiers (to_spec a)) = ipre (to_spec b)) by (unfold to_spec; simpl; rewrite <- Hab; symmetry; apply py_len_nat).
  assert (Hbc' : length (itiers (to_spec b)) = ipre (to_spec c)) by (unfold to_spec; simpl; rewrite <- Hbc; symmetry; apply py_len_nat).
  pose proof (comp_wf _ _ (gwf_wf a Wa) (gwf_wf b Wb) Hab') as Wab.
  pose proof (comp_wf _ _ (gwf_wf b Wb) (gwf_wf c Wc) Hbc') as Wbc.
  exists (of_spec (comp (to_spec a) (to_spec b))), (of_spec (comp (to_spec b) (to_spec c))),
         (of_spec (comp (comp (to_spec a) (to_spec b)) (to_spec c))).
  rewrite !tie_comp by (auto using wf_gwf). rewrite Hab, Hbc, !Z.eqb_refl. split; [reflexivity|]. split; [reflexivity|].
  rewrite !to_of.
  pose proof (comp_tiers_length _ _ (gwf_wf a Wa) (gwf_wf b Wb) Hab') as Lab.
  cbn [TieredInterval_tiers TieredInterval_pre_length of_spec].
  replace (py_len (itiers (comp (to_spec a) (to_spec b))) =? TieredInterval_pre_length c) with true
    by (symmetry; apply Z.eqb_eq; rewrite <- Hbc; unfold py_len; f_equal; exact Lab).
  split; [reflexivity|].
  rewrite comp_pre. assert (Wb' := Wb). destruct Wb' as (B1&B2&B3).
  replace (Z.of_nat (ipre (to_spec b))) with (TieredInterval_pre_length b) by (unfold to_spec; cbn [ipre]; lia).
  rewrite Z.eqb_refl.
  rewrite comp_assoc; auto using gwf_wf.
Qed.

(* ... and agrees with applying the delays one after the other *)
Lemma gen_action t a b : gwf a -> gwf b ->
  py_len t = TieredInterval_pre_length a ->
  py_len (TieredInterval_tiers a) = TieredInterval_pre_length b ->
  exists ta ab r, TieredTime___add__ (mk_TieredTime t) a = Ok ta /\ TieredInterval___add__ a b = Ok ab /\
     TieredTime___add__ ta b = Ok r /\ TieredTime___add__ (mk_TieredTime t) ab = Ok r.
Proof.
  intros Wa Wb Ht Hab.
  assert (Ht' : length t = ipre (to_spec a)) by (unfold to_spec; simpl; rewrite <- Ht; symmetry; apply py_len_nat).
  assert (Hab' : length (itiers (to_spec a)) = ipre (to_spec b)) by (unfold to_spec; simpl; rewrite <- Hab; symmetry; apply py_len_nat).
  pose proof (comp_wf _ _ (gwf_wf a Wa) (gwf_wf b Wb) Hab') as Wab.
  exists (mk_TieredTime (act t (to_spec a))), (of_spec (comp (to_spec a) (to_spec b))),
         (mk_TieredTime (act (act t (to_spec a)) (to_spec b))).
  rewrite !tie_act, tie_comp by (auto using wf_gwf). rewrite Ht, Hab, !Z.eqb_refl.
  split; [reflexivity|]. split; [reflexivity|].
  pose proof (act_length t _ (gwf_wf a Wa) Ht') as L1.
  replace (py_len (act t (to_spec a)) =? TieredInterval_pre_length b) with true
    by (symmetry; apply Z.eqb_eq; rewrite <- Hab; unfold py_len; f_equal; exact L1).
  split; [reflexivity|].
  cbn [TieredInterval_pre_length of_spec]. rewrite comp_pre. assert (Wa' := Wa). destruct Wa' as (A1&A2&A3).
  replace (Z.of_nat (ipre (to_spec a))) with (TieredInterval_pre_length a) by (unfold to_spec; cbn [ipre]; lia).
  rewrite Z.eqb_refl. rewrite to_of.
  rewrite act_comp; auto using gwf_wf.
Qed.

(* ---- what is NOT order-consistent: delays of different cutoff (known finding F13, class of F9) ---- *)
Definition mkg p c ts := mk_TieredInterval p c ts.
Lemma mixed_cutoff_unsound_refuted :
  exists a b t ta tb, gwf a /\ gwf b /\ TieredInterval___lt__ a b = Ok true /\
    TieredTime___add__ (mk_TieredTime t) a = Ok ta /\ TieredTime___add__ (mk_TieredTime t) b = Ok tb /\
    TieredTime___lt__ tb ta = Ok true.
Proof.
  exists (mkg 2 2 [0;0;1]), (mkg 2 1 [0;0;2]), [0;3], (mk_TieredTime [0;3;1]), (mk_TieredTime [0;0;2]).
  unfold gwf, mkg, py_len; simpl. repeat split; try lia; reflexivity.
Qed.
Lemma mixed_cutoff_incomparable_reachable :
  exists a b, gwf a /\ gwf b /\ TieredInterval___lt__ a b = AssertFail.
Proof.
  exists (mkg 2 2 [0;0]), (mkg 2 1 [0;1]). unfold gwf, mkg, py_len; simpl. repeat split; try lia; reflexivity.
Qed.
