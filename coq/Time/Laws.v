(* Laws of the tiered arithmetic (all lengths, all tier values): pointwise characterisations,
   the action law, associativity, the order laws for equal shapes, monotonicity. *)
From Coq Require Import ZArith List Bool Lia Arith.
Import ListNotations.
From MV Require Import Time.Spec Time.Ord.
Open Scope Z_scope.

Lemma nth_firstn {A} (l:list A) n i d : nth i (firstn n l) d = if (i <? n)%nat then nth i l d else d.
Proof.
  revert n i; induction l as [|x l IH]; intros n i.
  - rewrite firstn_nil. destruct i; simpl; destruct (_ <? _)%nat; reflexivity.
  - destruct n as [|n]; simpl.
    + destruct i; reflexivity.
    + destruct i as [|i]; simpl; [reflexivity|]. rewrite IH. reflexivity.
Qed.
Lemma nth_skipn {A} (l:list A) n i d : nth i (skipn n l) d = nth (n + i) l d.
Proof. revert l; induction n; intros [|x l]; simpl; auto. destruct i; auto. Qed.

(* pointwise characterisations via nth are the robust way to reason *)

Lemma zadd_nth xs ys i : (i < length xs)%nat -> (i < length ys)%nat ->
  nth i (zadd xs ys) 0 = nth i xs 0 + nth i ys 0.
Proof. revert ys i; induction xs; intros [|y ys] [|i]; simpl; intros; try lia; auto. apply IHxs; lia. Qed.

Lemma act_length t a : wfI a -> length t = ipre a -> length (act t a) = length (itiers a).
Proof.
  intros (H1&H2&H3) Ht. unfold act, iadd, iext. rewrite app_length, zadd_length, firstn_length, skipn_length. lia.
Qed.

Lemma act_nth t a i : wfI a -> length t = ipre a -> (i < length (itiers a))%nat ->
  nth i (act t a) 0 = if (i <? icut a)%nat then nth i t 0 + nth i (itiers a) 0 else nth i (itiers a) 0.
Proof.
  intros (H1&H2&H3) Ht Hi. unfold act, iadd, iext.
  destruct (Nat.ltb_spec i (icut a)).
  - rewrite app_nth1 by (rewrite zadd_length, firstn_length; lia).
    rewrite zadd_nth by (rewrite ?firstn_length; lia).
    f_equal. rewrite nth_firstn. destruct (Nat.ltb_spec i (icut a)); auto; lia.
  - rewrite app_nth2 by (rewrite zadd_length, firstn_length; lia).
    rewrite zadd_length, firstn_length.
    replace (Nat.min (length t) (Nat.min (icut a) (length (itiers a)))) with (icut a) by lia.
    rewrite nth_skipn. f_equal. lia.
Qed.

Lemma comp_tiers_length a b : wfI a -> wfI b -> length (itiers a) = ipre b ->
  length (itiers (comp a b)) = length (itiers b).
Proof.
  intros (A1&A2&A3) (B1&B2&B3) Hl. unfold comp, iadd, iext; simpl.
  destruct (Nat.leb_spec (icut b) (icut a)); rewrite ?app_length, ?zadd_length, ?firstn_length, ?skipn_length, ?app_length, ?repeat_length, ?firstn_length, ?skipn_length; lia.
Qed.

Lemma comp_nth a b i : wfI a -> wfI b -> length (itiers a) = ipre b -> (i < length (itiers b))%nat ->
  nth i (itiers (comp a b)) 0 =
    if (i <? icut b)%nat then nth i (itiers a) 0 + nth i (itiers b) 0   (* b adds: whatever a produced there *)
    else nth i (itiers b) 0.
Proof.
  intros (A1&A2&A3) (B1&B2&B3) Hl Hi. unfold comp, iadd, iext; simpl.
  destruct (Nat.leb_spec (icut b) (icut a)).
  - (* icut b <= icut a *)
    destruct (Nat.ltb_spec i (icut b)).
    + rewrite app_nth1 by (rewrite zadd_length, !firstn_length; lia).
      rewrite zadd_nth by (rewrite ?firstn_length; lia).
      rewrite !nth_firstn. destruct (Nat.ltb_spec i (icut a)), (Nat.ltb_spec i (icut b)); try lia; auto.
    + rewrite app_nth2 by (rewrite zadd_length, !firstn_length; lia).
      rewrite zadd_length, !firstn_length.
      rewrite nth_skipn. f_equal. lia.
  - (* icut a < icut b *)
    destruct (Nat.ltb_spec i (icut a)).
    + rewrite app_nth1 by (rewrite zadd_length, !firstn_length; lia).
      rewrite zadd_nth by (rewrite ?firstn_length; lia).
      rewrite !nth_firstn. destruct (Nat.ltb_spec i (icut a)), (Nat.ltb_spec i (icut b)); try lia; auto.
    + rewrite app_nth2 by (rewrite zadd_length, !firstn_length; lia).
      rewrite zadd_length, !firstn_length.
      replace (i - Nat.min (Nat.min (icut a) (length (itiers a))) (Nat.min (icut b) (length (itiers b))))%nat with (i - icut a)%nat by lia.
      destruct (Nat.ltb_spec i (icut b)).
      * rewrite app_nth1 by (rewrite zadd_length, app_length, skipn_length, repeat_length, skipn_length, !firstn_length; lia).
        rewrite zadd_nth by (rewrite ?app_length, ?skipn_length, ?repeat_length, ?firstn_length; lia).
        rewrite nth_skipn, nth_firstn.
        replace (icut a + (i - icut a))%nat with i by lia.
        destruct (Nat.ltb_spec i (icut b)); try lia. f_equal.
        (* nth (i - icut a) (skipn (icut a) (itiers a) ++ repeat 0 _) = nth i (itiers a) 0, both 0 beyond the end *)
        destruct (Nat.lt_ge_cases (i - icut a) (length (skipn (icut a) (itiers a)))) as [Hlt|Hge].
        -- rewrite app_nth1 by exact Hlt. rewrite nth_skipn. f_equal; lia.
        -- rewrite app_nth2 by exact Hge. rewrite skipn_length in *.
           rewrite (nth_overflow (itiers a)) by lia.
           apply nth_repeat.
      * rewrite app_nth2 by (rewrite zadd_length, app_length, skipn_length, repeat_length, skipn_length, !firstn_length; lia).
        rewrite zadd_length, app_length, skipn_length, repeat_length, skipn_length, !firstn_length.
        rewrite nth_skipn. f_equal. lia.
Qed.

(* ------------------------------------------------------------------ *)
(* well-formedness is preserved *)
Lemma wfIb_iff a : wfIb a = true <-> wfI a.
Proof.
  unfold wfIb, wfI. rewrite !andb_true_iff, !Nat.leb_le. tauto.
Qed.

Lemma comp_wf a b : wfI a -> wfI b -> length (itiers a) = ipre b -> wfI (comp a b).
Proof.
  intros Ha Hb Hl. pose proof (comp_tiers_length a b Ha Hb Hl) as HL.
  destruct Ha as (A1&A2&A3), Hb as (B1&B2&B3). unfold wfI. rewrite HL. simpl. lia.
Qed.
Lemma comp_pre a b : ipre (comp a b) = ipre a. Proof. reflexivity. Qed.
Lemma comp_cut a b : icut (comp a b) = Nat.min (icut a) (icut b). Proof. reflexivity. Qed.

Lemma interval_eq a b : ipre a = ipre b -> icut a = icut b -> itiers a = itiers b -> a = b.
Proof. destruct a, b; simpl; intros; subst; reflexivity. Qed.

(* combining delays along a path is associative *)
Theorem comp_assoc a b c :
  wfI a -> wfI b -> wfI c -> length (itiers a) = ipre b -> length (itiers b) = ipre c ->
  comp (comp a b) c = comp a (comp b c).
Proof.
  intros Ha Hb Hc Hab Hbc.
  pose proof (comp_wf a b Ha Hb Hab) as Wab. pose proof (comp_wf b c Hb Hc Hbc) as Wbc.
  pose proof (comp_tiers_length a b Ha Hb Hab) as Lab.
  pose proof (comp_tiers_length b c Hb Hc Hbc) as Lbc.
  assert (Hab' : length (itiers (comp a b)) = ipre c) by congruence.
  assert (Habc : length (itiers a) = ipre (comp b c)) by (rewrite comp_pre; exact Hab).
  pose proof (comp_tiers_length (comp a b) c Wab Hc Hab') as L1.
  pose proof (comp_tiers_length a (comp b c) Ha Wbc Habc) as L2.
  apply interval_eq.
  - reflexivity.
  - rewrite !comp_cut. lia.
  - apply nth_ext with (d := 0) (d' := 0); [congruence|].
    intros i Hi. rewrite L1 in Hi.
    rewrite (comp_nth (comp a b) c i Wab Hc Hab' Hi).
    rewrite (comp_nth a (comp b c) i Ha Wbc Habc) by (rewrite Lbc; exact Hi).
    rewrite (comp_nth b c i Hb Hc Hbc Hi). rewrite comp_cut.
    destruct Hc as (C1&C2&C3).
    destruct (Nat.ltb_spec i (icut c)) as [Hic|Hic].
    + assert (Hib : (i < length (itiers b))%nat) by lia.
      rewrite (comp_nth a b i Ha Hb Hab Hib).
      destruct (Nat.ltb_spec i (icut b)), (Nat.ltb_spec i (Nat.min (icut b) (icut c))); try lia.
    + destruct (Nat.ltb_spec i (Nat.min (icut b) (icut c))); try lia.
Qed.

(* ... and agrees with applying them one after the other (action law) *)
Theorem act_comp t a b :
  wfI a -> wfI b -> length t = ipre a -> length (itiers a) = ipre b ->
  act (act t a) b = act t (comp a b).
Proof.
  intros Ha Hb Ht Hab.
  pose proof (comp_wf a b Ha Hb Hab) as Wab.
  pose proof (comp_tiers_length a b Ha Hb Hab) as Lab.
  pose proof (act_length t a Ha Ht) as L1.
  assert (L1' : length (act t a) = ipre b) by congruence.
  pose proof (act_length (act t a) b Hb L1') as L2.
  assert (Ht' : length t = ipre (comp a b)) by (rewrite comp_pre; exact Ht).
  pose proof (act_length t (comp a b) Wab Ht') as L3.
  apply nth_ext with (d := 0) (d' := 0); [congruence|].
  intros i Hi. rewrite L2 in Hi.
  rewrite (act_nth (act t a) b i Hb L1' Hi).
  rewrite (act_nth t (comp a b) i Wab Ht') by (rewrite Lab; exact Hi).
  rewrite (comp_nth a b i Ha Hb Hab Hi). rewrite comp_cut.
  destruct Hb as (B1&B2&B3). destruct Ha as (A1&A2&A3).
  destruct (Nat.ltb_spec i (icut b)) as [Hib|Hib].
  - assert (Hia : (i < length (itiers a))%nat) by lia.
    rewrite (act_nth t a i (conj A1 (conj A2 A3)) Ht Hia).
    destruct (Nat.ltb_spec i (icut a)), (Nat.ltb_spec i (Nat.min (icut a) (icut b))); try lia.
  - destruct (Nat.ltb_spec i (Nat.min (icut a) (icut b))); try lia.
Qed.

(* ------------------------------------------------------------------ *)
(* order: for equal shapes __lt__ is the tuple order of the tiers and never asserts *)
Lemma ilt_loop_same c i xs ys : length xs = length ys -> ilt_loop c c i xs ys = Some (tlt xs ys).
Proof.
  revert i ys; induction xs as [|x xs IH]; intros i [|y ys] Hl; simpl in *; try discriminate; try reflexivity.
  assert (E : (c <=? i)%nat && (i <? c)%nat = false).
  { destruct (Nat.leb_spec c i), (Nat.ltb_spec i c); simpl; auto; lia. }
  rewrite E. destruct (x <? y); [reflexivity|]. destruct (y <? x); [reflexivity|]. apply IH. lia.
Qed.

Theorem ilt_same_shape a b : same_shape a b -> ilt a b = Some (tlt (itiers a) (itiers b)).
Proof.
  intros (Hp & Hc & Hl). unfold ilt. rewrite Hl, Hp, Hc, !Nat.eqb_refl. simpl. apply ilt_loop_same. exact Hl.
Qed.

Lemma teq_eq' a b : teq a b = true <-> a = b. Proof. apply teq_eq. Qed.
Lemma ieq_same_shape a b : same_shape a b -> ieq a b = teq (itiers a) (itiers b).
Proof. intros (Hp & Hc & Hl). unfold ieq. rewrite Hp, Hc, !Nat.eqb_refl. reflexivity. Qed.
Lemma ieq_true a b : ieq a b = true <-> a = b.
Proof.
  unfold ieq. rewrite !andb_true_iff, !Nat.eqb_eq, teq_eq. split.
  - intros [[H1 H2] H3]. apply interval_eq; assumption.
  - intros ->. auto.
Qed.

(* exactly one of <, =, > (as Python evaluates them, total_ordering included) *)
Theorem trichotomy a b : same_shape a b ->
  (ilt a b = Some true  /\ ieq a b = false /\ igt a b = Some false) \/
  (ilt a b = Some false /\ ieq a b = true  /\ igt a b = Some false) \/
  (ilt a b = Some false /\ ieq a b = false /\ igt a b = Some true).
Proof.
  intros HS. unfold igt. rewrite (ilt_same_shape a b HS), (ieq_same_shape a b HS). simpl.
  destruct (tlt_trichotomy (itiers a) (itiers b)) as [H|[H|H]].
  - left. rewrite H. assert (E : teq (itiers a) (itiers b) = false).
    { destruct (teq _ _) eqn:E; auto. apply teq_eq in E. rewrite E, tlt_irrefl in H. discriminate. }
    rewrite E. auto.
  - right; left. rewrite H, tlt_irrefl. assert (E : teq (itiers b) (itiers b) = true) by (apply teq_eq; reflexivity).
    rewrite E. auto.
  - right; right. rewrite (tlt_asym _ _ H). assert (E : teq (itiers a) (itiers b) = false).
    { destruct (teq _ _) eqn:E; auto. apply teq_eq in E. rewrite E, tlt_irrefl in H. discriminate. }
    rewrite E. auto.
Qed.
(* a > b as Python computes it is b < a *)
Theorem igt_is_flip a b : same_shape a b -> igt a b = ilt b a.
Proof.
  intros HS. assert (HS' : same_shape b a) by (destruct HS as (A&B&C); repeat split; congruence).
  unfold igt. rewrite (ilt_same_shape a b HS), (ilt_same_shape b a HS'), (ieq_same_shape a b HS). simpl. f_equal.
  destruct (tlt_trichotomy (itiers a) (itiers b)) as [H|[H|H]].
  - rewrite H, (tlt_asym _ _ H). reflexivity.
  - rewrite H, tlt_irrefl. assert (E : teq (itiers b) (itiers b) = true) by (apply teq_eq; reflexivity). rewrite E. reflexivity.
  - rewrite H, (tlt_asym _ _ H). simpl. destruct (teq _ _) eqn:E; auto. apply teq_eq in E. rewrite E, tlt_irrefl in H. discriminate.
Qed.
Theorem ilt_asym a b : same_shape a b -> ilt a b = Some true -> ilt b a = Some false.
Proof.
  intros HS. assert (HS' : same_shape b a) by (destruct HS as (A&B&C); repeat split; congruence).
  rewrite (ilt_same_shape a b HS), (ilt_same_shape b a HS'). intros H. injection H as H. rewrite (tlt_asym _ _ H). reflexivity.
Qed.
Theorem ilt_trans a b c : same_shape a b -> same_shape b c ->
  ilt a b = Some true -> ilt b c = Some true -> ilt a c = Some true.
Proof.
  intros H1 H2. assert (H3 : same_shape a c) by (destruct H1 as (A&B&C), H2 as (D&E&F); repeat split; congruence).
  rewrite (ilt_same_shape a b H1), (ilt_same_shape b c H2), (ilt_same_shape a c H3).
  intros A B. injection A as A. injection B as B. rewrite (tlt_trans _ _ _ A B). reflexivity.
Qed.
Theorem ile_same_shape a b : same_shape a b -> ile a b = Some (tle (itiers a) (itiers b)).
Proof.
  intros HS. unfold ile. rewrite (ilt_same_shape a b HS), (ieq_same_shape a b HS). simpl. f_equal. unfold tle.
  destruct (tlt_trichotomy (itiers a) (itiers b)) as [H|[H|H]].
  - rewrite H, (tlt_asym _ _ H). reflexivity.
  - rewrite H, tlt_irrefl. simpl. assert (E : teq (itiers b) (itiers b) = true) by (apply teq_eq; reflexivity). rewrite E. reflexivity.
  - rewrite H, (tlt_asym _ _ H). simpl. destruct (teq _ _) eqn:E; auto. apply teq_eq in E. rewrite E, tlt_irrefl in H. discriminate.
Qed.

(* ------------------------------------------------------------------ *)
(* monotonicity *)
Lemma tlt_zadd_l t x y : length x = length y -> (length x <= length t)%nat ->
  tlt (zadd t x) (zadd t y) = tlt x y.
Proof.
  revert x y; induction t as [|a t IH]; intros [|p x] [|q y] Hl Hle; simpl in *; try discriminate; try lia; auto.
  replace (a + p <? a + q) with (p <? q) by (destruct (Z.ltb_spec p q), (Z.ltb_spec (a+p) (a+q)); auto; lia).
  replace (a + q <? a + p) with (q <? p) by (destruct (Z.ltb_spec q p), (Z.ltb_spec (a+q) (a+p)); auto; lia).
  destruct (p <? q); auto. destruct (q <? p); auto. apply IH; lia.
Qed.
Lemma tlt_app x y e f : length x = length y -> tlt (x ++ e) (y ++ f) = if tlt x y then true else if tlt y x then false else tlt e f.
Proof.
  revert y; induction x as [|a x IH]; intros [|b y] H; simpl in *; try discriminate; auto.
  destruct (a <? b) eqn:E1; auto. destruct (b <? a) eqn:E2; auto.
Qed.
Lemma tlt_firstn_skipn n x y : length x = length y ->
  tlt x y = if tlt (firstn n x) (firstn n y) then true else if tlt (firstn n y) (firstn n x) then false else tlt (skipn n x) (skipn n y).
Proof.
  intros H. rewrite <- (firstn_skipn n x) at 1. rewrite <- (firstn_skipn n y) at 1.
  apply tlt_app. rewrite !firstn_length. lia.
Qed.

(* a smaller delay never yields a later arrival, for any departure time (strict form) *)
Theorem act_mono_delay t a b : wfI a -> same_shape a b -> length t = ipre a ->
  tlt (itiers a) (itiers b) = true -> tlt (act t a) (act t b) = true.
Proof.
  intros (A1&A2&A3) (Hp&Hc&Hl) Ht H. unfold act. rewrite <- Hc.
  rewrite tlt_app by (rewrite !zadd_length, !firstn_length; lia).
  rewrite !tlt_zadd_l by (rewrite !firstn_length; lia).
  rewrite (tlt_firstn_skipn (icut a)) in H by exact Hl. exact H.
Qed.
Theorem act_mono_delay_le t a b : wfI a -> same_shape a b -> length t = ipre a ->
  tle (itiers a) (itiers b) = true -> tle (act t a) (act t b) = true.
Proof.
  intros Wa HS Ht H. unfold tle in *. apply negb_true_iff in H. apply negb_true_iff.
  destruct (tlt (act t b) (act t a)) eqn:E; auto.
  destruct (tlt_trichotomy (itiers a) (itiers b)) as [K|[K|K]].
  - assert (HS' := HS). pose proof (act_mono_delay t a b Wa HS Ht K) as M. rewrite (tlt_asym _ _ M) in E. discriminate.
  - assert (a = b) by (destruct HS as (P&C&L); apply interval_eq; auto). subst. rewrite tlt_irrefl in E. discriminate.
  - congruence.
Qed.

Lemma In_firstn_in {A} n (l:list A) x : In x (firstn n l) -> In x l.
Proof. revert l; induction n; intros [|y l]; simpl; intros H; try contradiction. destruct H; auto. Qed.
(* adding a (non-negative) delay never moves time backwards *)
Lemma zadd_nonneg_ge t x : Forall (fun v => 0 <= v) x -> (length x <= length t)%nat ->
  tlt (zadd t x) (firstn (length x) t) = false.
Proof.
  revert x; induction t as [|a t IH]; intros [|p x] Hx Hl; simpl in *; try lia; auto.
  inversion Hx; subst.
  destruct (Z.ltb_spec (a + p) a); [lia|].
  destruct (Z.ltb_spec a (a + p)); [reflexivity|]. apply IH; auto. lia.
Qed.
Theorem act_inflationary t a : wfI a -> length t = ipre a -> nonneg a = true ->
  tle (firstn (icut a) t) (firstn (icut a) (act t a)) = true /\ thd t <= thd (act t a).
Proof.
  intros (A1&A2&A3) Ht Hn. unfold nonneg in Hn. rewrite forallb_forall in Hn.
  assert (Hf : Forall (fun v => 0 <= v) (firstn (icut a) (itiers a))).
  { apply Forall_forall. intros v Hv. apply Z.leb_le. apply Hn. eapply In_firstn_in; eauto. }
  assert (Lf : length (firstn (icut a) (itiers a)) = icut a) by (rewrite firstn_length; lia).
  split.
  - unfold act, tle. rewrite firstn_app. rewrite zadd_length, Lf.
    replace (icut a - Nat.min (length t) (icut a))%nat with 0%nat by lia. simpl. rewrite app_nil_r.
    rewrite firstn_all2 by (rewrite zadd_length; lia).
    pose proof (zadd_nonneg_ge t _ Hf) as Z. rewrite Lf in Z. rewrite Z by lia. reflexivity.
  - unfold act. destruct t as [|x t]; simpl in *; [lia|].
    destruct (itiers a) as [|y ys] eqn:E; simpl in *; [lia|]. destruct (icut a) as [|c]; [lia|]. simpl.
    assert (0 <= y) by (apply Z.leb_le; apply Hn; left; reflexivity). lia.
Qed.
