(* The tie between the GENERATED model of mosaik/tiered_time.py (Gen.TieredTime, Gen.UpdateMin,
   re-translated from /repo on every run) and the specification Time.Spec that all theorems are about.
   This is the file that stops compiling when tiered_time.py changes its meaning. *)
From Coq Require Import ZArith List Bool Lia Arith.
Import ListNotations.
From MV Require Import Prelude.Py Gen.TieredTime Gen.UpdateMin Time.Spec Time.Ord Time.Laws.
Open Scope Z_scope.

Definition to_spec (g : TieredInterval) : interval :=
  mkI (Z.to_nat (TieredInterval_pre_length g)) (Z.to_nat (TieredInterval_cutoff g)) (TieredInterval_tiers g).
Definition of_spec (a : interval) : TieredInterval :=
  mk_TieredInterval (Z.of_nat (ipre a)) (Z.of_nat (icut a)) (itiers a).
(* the constructor's asserts, on the generated record *)
Definition gwf (g : TieredInterval) : Prop :=
  1 <= TieredInterval_cutoff g /\ TieredInterval_cutoff g <= TieredInterval_pre_length g
  /\ TieredInterval_cutoff g <= py_len (TieredInterval_tiers g).
Definition optres {A} (o : option A) : res A := match o with Some x => Ok x | None => AssertFail end.

Lemma gwf_wf g : gwf g -> wfI (to_spec g).
Proof. unfold gwf, wfI, to_spec, py_len. simpl. lia. Qed.
Lemma wf_gwf a : wfI a -> gwf (of_spec a).
Proof. unfold gwf, wfI, of_spec, py_len. simpl. lia. Qed.
Lemma to_of a : to_spec (of_spec a) = a.
Proof. destruct a. unfold to_spec, of_spec. simpl. rewrite !Nat2Z.id. reflexivity. Qed.
Lemma of_to g : gwf g -> of_spec (to_spec g) = g.
Proof. destruct g. unfold gwf, to_spec, of_spec. simpl. intros. rewrite !Z2Nat.id by lia. reflexivity. Qed.

(* constructor: succeeds exactly on well-formed arguments *)
Theorem tie_new tiers c p :
  TieredInterval_new tiers (Some c) (Some p) =
  if (1 <=? c) && (c <=? p) && (c <=? py_len tiers) then Ok (mk_TieredInterval p c tiers) else AssertFail.
Proof.
  unfold TieredInterval_new. rewrite Z.geb_leb.
  destruct (1 <=? c), (c <=? p), (c <=? py_len tiers); reflexivity.
Qed.
Theorem tie_new_default tiers : tiers <> [] ->
  TieredInterval_new tiers None None = Ok (mk_TieredInterval (py_len tiers) (py_len tiers) tiers).
Proof.
  intros H. unfold TieredInterval_new. rewrite Z.geb_leb, !Z.leb_refl.
  assert (1 <= py_len tiers) by (destruct tiers; [congruence|unfold py_len; simpl length; lia]).
  destruct (Z.leb_spec 1 (py_len tiers)); [reflexivity|lia].
Qed.
Theorem tie_new_gwf tiers c p g : TieredInterval_new tiers c p = Ok g -> gwf g.
Proof.
  unfold TieredInterval_new. rewrite Z.geb_leb.
  set (c' := match c with Some v => v | None => py_len tiers end).
  set (p' := match p with Some v => v | None => c' end).
  destruct (Z.leb_spec 1 c'); [|discriminate].
  destruct (Z.leb_spec c' p'); [|discriminate].
  destruct (Z.leb_spec c' (py_len tiers)); [|discriminate].
  intros E. injection E as <-. unfold gwf. simpl. lia.
Qed.

Lemma py_zipwith_zadd xs ys : py_zipwith (fun x y => x + y) xs ys = zadd xs ys.
Proof. revert ys; induction xs; intros [|y ys]; simpl; auto; f_equal; auto. Qed.
Lemma py_tuple_lt_tlt xs ys : py_tuple_lt xs ys = tlt xs ys.
Proof. revert ys; induction xs; intros [|y ys]; simpl; auto; try (rewrite IHxs; reflexivity). Qed.
Lemma py_tuple_eq_teq xs ys : py_tuple_eq xs ys = teq xs ys.
Proof. revert ys; induction xs; intros [|y ys]; simpl; auto; try (rewrite IHxs; reflexivity). Qed.
Lemma slice_add g : gwf g ->
  py_slice (TieredInterval_tiers g) (Some 0) (Some (TieredInterval_cutoff g)) = iadd (to_spec g).
Proof. intros. unfold py_slice, iadd, to_spec. simpl. reflexivity. Qed.
Lemma slice_ext g : gwf g ->
  py_slice (TieredInterval_tiers g) (Some (TieredInterval_cutoff g)) None = iext (to_spec g).
Proof. intros. unfold py_slice, iext, to_spec. simpl. reflexivity. Qed.

(* TieredTime.__add__ *)
Theorem tie_act t g : gwf g ->
  TieredTime___add__ (mk_TieredTime t) g =
  if py_len t =? TieredInterval_pre_length g then Ok (mk_TieredTime (act t (to_spec g))) else AssertFail.
Proof.
  intros W. unfold TieredTime___add__, TieredInterval_add, TieredInterval_ext, tuple_add, TieredTime_new.
  cbn [bind TieredTime_tiers]. destruct (py_len t =? _); [|reflexivity].
  rewrite py_zipwith_zadd, slice_add, slice_ext by exact W. reflexivity.
Qed.

(* TieredTime.__lt__ *)
Theorem tie_tlt a b :
  TieredTime___lt__ (mk_TieredTime a) (mk_TieredTime b) =
  if py_len a =? py_len b then Ok (tlt a b) else AssertFail.
Proof.
  unfold TieredTime___lt__, TieredTime___len__. cbn [bind TieredTime_tiers].
  destruct (py_len a =? py_len b); [|reflexivity]. rewrite py_tuple_lt_tlt. reflexivity.
Qed.

Lemma tuple_mul_zero n : py_tuple_mul [0] n = repeat 0 (Z.to_nat n).
Proof. unfold py_tuple_mul. induction (Z.to_nat n); simpl; auto. f_equal. auto. Qed.
Lemma py_len_nat (l : list Z) : Z.to_nat (py_len l) = length l.
Proof. unfold py_len. apply Nat2Z.id. Qed.

(* TieredInterval.__add__ : on well-formed operands only the first assert can fail *)
Theorem tie_comp a b : gwf a -> gwf b ->
  TieredInterval___add__ a b =
  if py_len (TieredInterval_tiers a) =? TieredInterval_pre_length b
  then Ok (of_spec (comp (to_spec a) (to_spec b))) else AssertFail.
Proof.
  intros Wa Wb.
  unfold TieredInterval___add__, TieredInterval___len__, TieredInterval_add, TieredInterval_ext, tuple_add.
  cbn [bind]. destruct (py_len (TieredInterval_tiers a) =? TieredInterval_pre_length b) eqn:Hl; [|reflexivity].
  apply Z.eqb_eq in Hl.
  assert (Hl' : length (itiers (to_spec a)) = ipre (to_spec b)).
  { unfold to_spec; simpl. rewrite <- Hl. symmetry. apply py_len_nat. }
  pose proof (comp_tiers_length _ _ (gwf_wf a Wa) (gwf_wf b Wb) Hl') as HL.
  pose proof (comp_wf _ _ (gwf_wf a Wa) (gwf_wf b Wb) Hl') as HW.
  rewrite !py_zipwith_zadd, !slice_add, !slice_ext by assumption.
  (* the generated tiers expression is the spec's *)
  match goal with |- context [if ?c then _ else _] =>
    match c with (_ >=? _) => idtac end end.
  assert (Ht : (if TieredInterval_cutoff a >=? TieredInterval_cutoff b
                then zadd (iadd (to_spec a)) (iadd (to_spec b)) ++ iext (to_spec b)
                else zadd (iadd (to_spec a)) (iadd (to_spec b)) ++
                     (zadd (iext (to_spec a) ++ py_tuple_mul [0] (py_len (iadd (to_spec b))))
                           (py_slice (iadd (to_spec b)) (Some (TieredInterval_cutoff a)) None) ++ iext (to_spec b)))
               = itiers (comp (to_spec a) (to_spec b))).
  { unfold comp. cbn [itiers]. rewrite tuple_mul_zero, py_len_nat. unfold py_slice.
    destruct Wa as (A1&A2&A3), Wb as (B1&B2&B3). rewrite Z.geb_leb.
    change (icut (to_spec a)) with (Z.to_nat (TieredInterval_cutoff a)).
    change (icut (to_spec b)) with (Z.to_nat (TieredInterval_cutoff b)).
    destruct (Z.leb_spec (TieredInterval_cutoff b) (TieredInterval_cutoff a)),
             (Nat.leb_spec (Z.to_nat (TieredInterval_cutoff b)) (Z.to_nat (TieredInterval_cutoff a))); try lia; reflexivity. }
  assert (Hmin : Z.min (TieredInterval_cutoff a) (TieredInterval_cutoff b) = Z.of_nat (icut (comp (to_spec a) (to_spec b)))).
  { rewrite comp_cut. unfold to_spec; cbn [icut]. destruct Wa as (A1&A2&A3), Wb as (B1&B2&B3). lia. }
  assert (Hpre : TieredInterval_pre_length a = Z.of_nat (ipre (comp (to_spec a) (to_spec b)))).
  { rewrite comp_pre. unfold to_spec; cbn [ipre]. destruct Wa as (A1&A2&A3). lia. }
  assert (Hlen : py_len (itiers (comp (to_spec a) (to_spec b))) = py_len (TieredInterval_tiers b)).
  { unfold py_len. f_equal. exact HL. }
  destruct HW as (W1&W2&W3).
  destruct (TieredInterval_cutoff a >=? TieredInterval_cutoff b); cbv zeta; rewrite Ht, Hlen, Z.eqb_refl, tie_new, Hmin, Hpre;
    (match goal with |- context [if ?c then _ else _] => replace c with true
       by (symmetry; rewrite !andb_true_iff, !Z.leb_le; unfold py_len; lia) end); reflexivity.
Qed.

(* TieredInterval.__lt__ *)
Definition spec_body (CA CB : Z) (i s o : Z) : ctl bool :=
  if s <? o then (if (CB <=? i) && (i <? CA) then Return AssertFail else Return (Ok true))
  else if o <? s then (if (CA <=? i) && (i <? CB) then Return AssertFail else Return (Ok false))
  else Continue.
Lemma for_enum_zip_ext {A} (f g : Z -> Z -> Z -> ctl A) i xs ys after :
  (forall i s o, f i s o = g i s o) -> for_enum_zip i xs ys f after = for_enum_zip i xs ys g after.
Proof.
  intros H. revert i ys; induction xs as [|x xs IH]; intros i [|y ys]; simpl; auto.
  rewrite H. destruct (g i x y); auto.
Qed.
Lemma loop_spec ca cb n xs ys :
  for_enum_zip (Z.of_nat n) xs ys (spec_body (Z.of_nat ca) (Z.of_nat cb)) (Ok false)
  = optres (ilt_loop ca cb n xs ys).
Proof.
  revert n ys; induction xs as [|x xs IH]; intros n [|y ys]; simpl; auto.
  unfold spec_body.
  replace (Z.of_nat cb <=? Z.of_nat n) with (cb <=? n)%nat
    by (destruct (Nat.leb_spec cb n), (Z.leb_spec (Z.of_nat cb) (Z.of_nat n)); auto; lia).
  replace (Z.of_nat ca <=? Z.of_nat n) with (ca <=? n)%nat
    by (destruct (Nat.leb_spec ca n), (Z.leb_spec (Z.of_nat ca) (Z.of_nat n)); auto; lia).
  replace (Z.of_nat n <? Z.of_nat ca) with (n <? ca)%nat
    by (destruct (Nat.ltb_spec n ca), (Z.ltb_spec (Z.of_nat n) (Z.of_nat ca)); auto; lia).
  replace (Z.of_nat n <? Z.of_nat cb) with (n <? cb)%nat
    by (destruct (Nat.ltb_spec n cb), (Z.ltb_spec (Z.of_nat n) (Z.of_nat cb)); auto; lia).
  destruct (x <? y).
  - destruct ((cb <=? n)%nat && (n <? ca)%nat); reflexivity.
  - destruct (y <? x).
    + destruct ((ca <=? n)%nat && (n <? cb)%nat); reflexivity.
    + replace (Z.of_nat n + 1) with (Z.of_nat (S n)) by lia. apply IH.
Qed.

Theorem tie_lt a b : gwf a -> gwf b ->
  TieredInterval___lt__ a b = optres (ilt (to_spec a) (to_spec b)).
Proof.
  intros Wa Wb. unfold TieredInterval___lt__, TieredInterval___len__. cbn [bind].
  unfold ilt, to_spec. cbn [itiers ipre icut].
  destruct Wa as (A1&A2&A3), Wb as (B1&B2&B3).
  replace (length (TieredInterval_tiers a) =? length (TieredInterval_tiers b))%nat
    with (py_len (TieredInterval_tiers a) =? py_len (TieredInterval_tiers b))
    by (unfold py_len; destruct (Nat.eqb_spec (length (TieredInterval_tiers a)) (length (TieredInterval_tiers b))),
          (Z.eqb_spec (Z.of_nat (length (TieredInterval_tiers a))) (Z.of_nat (length (TieredInterval_tiers b)))); auto; lia).
  destruct (py_len (TieredInterval_tiers a) =? py_len (TieredInterval_tiers b)); [|reflexivity]. cbn [negb].
  replace (Z.to_nat (TieredInterval_pre_length a) =? Z.to_nat (TieredInterval_pre_length b))%nat
    with (TieredInterval_pre_length a =? TieredInterval_pre_length b)
    by (destruct (Nat.eqb_spec (Z.to_nat (TieredInterval_pre_length a)) (Z.to_nat (TieredInterval_pre_length b))),
          (Z.eqb_spec (TieredInterval_pre_length a) (TieredInterval_pre_length b)); auto; lia).
  destruct (TieredInterval_pre_length a =? TieredInterval_pre_length b); [|reflexivity]. cbn [negb].
  rewrite <- (loop_spec (Z.to_nat (TieredInterval_cutoff a)) (Z.to_nat (TieredInterval_cutoff b)) 0).
  rewrite !Z2Nat.id by lia. change (Z.of_nat 0) with 0.
  apply for_enum_zip_ext. intros i s o. unfold spec_body. cbv zeta. rewrite ?Z.gtb_ltb.
  destruct (s <? o) eqn:E1; [reflexivity|].
  destruct (o <? s) eqn:E2; reflexivity.
Qed.

Theorem tie_eq a b : gwf a -> gwf b -> TieredInterval___eq__ a b = ieq (to_spec a) (to_spec b).
Proof.
  intros (A1&A2&A3) (B1&B2&B3). unfold TieredInterval___eq__, ieq, to_spec. cbn [ipre icut itiers].
  rewrite py_tuple_eq_teq. f_equal. f_equal.
  - destruct (Z.eqb_spec (TieredInterval_pre_length a) (TieredInterval_pre_length b)),
      (Nat.eqb_spec (Z.to_nat (TieredInterval_pre_length a)) (Z.to_nat (TieredInterval_pre_length b))); auto; lia.
  - destruct (Z.eqb_spec (TieredInterval_cutoff a) (TieredInterval_cutoff b)),
      (Nat.eqb_spec (Z.to_nat (TieredInterval_cutoff a)) (Z.to_nat (TieredInterval_cutoff b))); auto; lia.
Qed.
Theorem tie_le a b : gwf a -> gwf b -> TieredInterval___le__ a b = optres (ile (to_spec a) (to_spec b)).
Proof.
  intros Wa Wb. unfold TieredInterval___le__, py_le_from_lt, ile. rewrite tie_lt, tie_eq by assumption.
  destruct (ilt (to_spec a) (to_spec b)); reflexivity.
Qed.
Theorem tie_gt a b : gwf a -> gwf b -> TieredInterval___gt__ a b = optres (igt (to_spec a) (to_spec b)).
Proof.
  intros Wa Wb. unfold TieredInterval___gt__, py_gt_from_lt, igt. rewrite tie_lt, tie_eq by assumption.
  destruct (ilt (to_spec a) (to_spec b)); reflexivity.
Qed.
(* scenario.update_min at TieredInterval *)
Theorem tie_update_min a b : (forall a0, a = Some a0 -> gwf a0) -> gwf b ->
  update_min a b = optres (option_map (option_map of_spec) (upd_min (option_map to_spec a) (to_spec b))).
Proof.
  intros Wa Wb. unfold update_min, upd_min. destruct a as [a0|]; simpl.
  - rewrite tie_le by auto. destruct (ile (to_spec a0) (to_spec b)) as [[|]|]; simpl; try reflexivity.
    rewrite of_to by exact Wb. reflexivity.
  - rewrite of_to by exact Wb. reflexivity.
Qed.
