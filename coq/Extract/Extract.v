(* Extraction of the executable models (ExtrOcamlBasic only; Z, nat, positive stay Coq datatypes). *)
From Coq Require Import ZArith List Bool.
From MV Require Import Prelude.Py Gen.TieredTime Gen.UpdateMin Time.Spec Static.Groups Static.Connect Static.Build Static.Cycle Static.CycleP Static.CycleC Static.Attrs Sched.Timing Sched.Plane Sched.Link Sched.Certify Sched.Quiet Sched.Bound Sched.PullRun Sched.EventRun Ext.Adapters Ext.Util Ext.RT Gen.CycleFns Static.GenCycle Gen.AncFns Static.GenAnc.
Require Extraction.
Require Import ExtrOcamlBasic.
Extraction Language OCaml.
Extraction "../build/model.ml"
  (* generated from tiered_time.py *)
  mk_TieredInterval mk_TieredTime TieredInterval_new TieredInterval___add__ TieredInterval___lt__
  TieredInterval___eq__ TieredInterval___le__ TieredInterval___gt__ TieredInterval___ge__
  TieredTime___add__ TieredTime___lt__ TieredTime___le__ TieredTime___gt__ TieredTime___ge__ TieredTime_time update_min
  (* specification *)
  mkI act comp ilt ile igt ige ieq upd_min tlt tle teq wfIb
  (* static layer *)
  wfGb group_path gdepth connect_interval connect_one should_reject is_rejected mkF
  (* scheduler *)
  mkStatic mkDStatic init_state init_dstate apply dapply all_done failing_guards begin_preview enabled_sims prog nexts cur pc
  prepare mkScen mkConn build ancestors check_static check_static2 flat_certified uniform_certified init_before_untilb check_bound pull_strictb push_strictb wk_indel uni_indel cov_indel cycle_check walk_delay izero
  Attrs.parse_attrs Attrs.parse_set_triple isub iand ior seqb mem mkDesc
  start deliver meta_type mkStart
  connect_evenly connect_randomly_uneven connected_set connect_many_to_one
  may_begin rt_check set_event rt_progress
  (* regenerated closures, for the cross-check of the normal-form hypothesis of their ties *)
  cycle_check_gen ancestors_gen.
