(* Data-plane facts (C03/C04/C16, partial): the timed buffer delivers every entry exactly once and never early;
   a pulled value never comes from an output that is not yet due; pruning the cache never changes what a later
   step can pull (given non-decreasing output times); set_data inputs are consumed by the next step. *)
From Coq Require Import ZArith List Bool Arith Lia.
Import ListNotations.
From MV Require Import Time.Spec Static.Build Sched.Timing Sched.Plane.
Open Scope Z_scope.

(* ---- timed input buffer ---- *)
Lemma insert_b_perm e l x : In x (insert_b e l) <-> x = e \/ In x l.
Proof.
  induction l as [|y l IH]; simpl; [intuition (subst; auto)|].
  destruct (_ || _); simpl; [intuition (subst; auto)|]. rewrite IH. intuition (subst; auto).
Qed.
Lemma sort_b_in l x : In x (sort_b l) <-> In x l.
Proof. induction l as [|y l IH]; simpl; [tauto|]. rewrite insert_b_perm, IH. intuition (subst; auto). Qed.

(* what get_input_data leaves in the buffer: exactly the entries that are not yet due; the delivered ones are
   exactly those due: no event is delivered twice (it is gone afterwards), none is lost, none is taken early *)
Theorem buffer_split dt ds i step inp ds' : get_input_data dt ds i step = (inp, ds') ->
  (forall e, In e (buffer (ds' i)) <-> (In e (buffer (ds i)) /\ step < btime e)) /\
  (forall e, In e (sort_b (filter (fun e => btime e <=? step) (buffer (ds i)))) <-> (In e (buffer (ds i)) /\ btime e <= step)).
Proof.
  unfold get_input_data. intros H. injection H as _ <-. split.
  - intros e. unfold dupd. rewrite Nat.eqb_refl. simpl. rewrite filter_In.
    destruct (Z.leb_spec (btime e) step); simpl; split; intros [A B]; try discriminate; try lia; auto.
  - intros e. rewrite sort_b_in, filter_In. rewrite Z.leb_le. tauto.
Qed.
(* other simulators' buffers, caches and memories are untouched by a step's input assembly *)
Theorem get_input_data_frame dt ds i step inp ds' j : get_input_data dt ds i step = (inp, ds') -> j <> i -> ds' j = ds j.
Proof.
  unfold get_input_data. intros H Hj. injection H as _ <-. unfold dupd. destruct (Nat.eqb_spec j i); congruence.
Qed.
(* C16: values written with set_data are consumed by the next step and only by it *)
Theorem setdata_cleared dt ds i step inp ds' : get_input_data dt ds i step = (inp, ds') -> setdata (ds' i) = [].
Proof. unfold get_input_data. intros H. injection H as _ <-. unfold dupd. rewrite Nat.eqb_refl. reflexivity. Qed.

(* ---- output cache ---- *)
(* a pulled value is never taken from an output that is not yet due *)
Theorem get_output_for_due outs t d : get_output_for outs t = d -> d = [] \/ exists t', In (t', d) outs /\ t' <= t.
Proof.
  unfold get_output_for. destruct (find _ (rev outs)) as [e|] eqn:E; intros <-; [|left; reflexivity].
  right. apply find_some in E as [Hin Hle]. exists (fst e). split.
  - apply in_rev in Hin. destruct e; exact Hin.
  - apply Z.leb_le. exact Hle.
Qed.

Lemma find_filter {A} (p q : A -> bool) l e : find p l = Some e -> q e = true -> find p (filter q l) = Some e.
Proof.
  induction l as [|x l IH]; simpl; [discriminate|]. destruct (p x) eqn:P.
  - intros H Q. injection H as ->. rewrite Q. simpl. rewrite P. reflexivity.
  - intros H Q. destruct (q x); simpl; [rewrite P|]; auto.
Qed.
Lemma find_filter_none {A} (p q : A -> bool) l : find p l = None -> find p (filter q l) = None.
Proof.
  induction l as [|x l IH]; simpl; auto. destruct (p x) eqn:P; [discriminate|].
  intros H. destruct (q x); simpl; [rewrite P|]; auto.
Qed.
Lemma filter_rev' {A} (q : A -> bool) l : filter q (rev l) = rev (filter q l).
Proof.
  induction l as [|x l IH]; simpl; auto. rewrite filter_app, IH. simpl. destruct (q x); simpl; [reflexivity|apply app_nil_r].
Qed.
Lemma fold_max_ge l : forall a, a <= fold_left Z.max l a /\ forall x, In x l -> x <= fold_left Z.max l a.
Proof.
  induction l as [|y l IH]; intros a; simpl; [split; [lia|tauto]|].
  destruct (IH (Z.max a y)) as [A B]. split; [lia|]. intros x [<-|H]; [lia|auto].
Qed.

(* output times strictly increase in insertion order (what a simulator with non-decreasing output times produces) *)
Fixpoint increasing (l : list (Z * odata)) : Prop :=
  match l with [] => True | e :: r => (forall e', In e' r -> fst e < fst e') /\ increasing r end.
Lemma find_rev_last_le outs x e : increasing outs -> find (fun e : Z*odata => fst e <=? x) (rev outs) = Some e ->
  forall e', In e' outs -> fst e' <= x -> fst e' <= fst e.
Proof.
  induction outs as [|a outs IH]; simpl; intros Hinc H e' Hin Hle; [destruct Hin|].
  destruct Hinc as [Ha Hinc].
  destruct (find (fun e0 : Z * odata => fst e0 <=? x) (rev outs)) as [e0|] eqn:E.
  - assert (F : find (fun e0 : Z * odata => fst e0 <=? x) (rev outs ++ [a]) = Some e0).
    { clear -E. induction (rev outs) as [|y l IHl]; simpl in *; [discriminate|]. destruct (fst y <=? x); auto. }
    rewrite F in H. injection H as <-.
    destruct Hin as [<-|Hin]; [|eapply IH; eauto].
    apply find_some in E as [Hin0 _]. apply in_rev in Hin0. specialize (Ha e0 Hin0). lia.
  - assert (N : forall y, In y outs -> (fst y <=? x) = false).
    { intros y Hy. apply in_rev in Hy. eapply find_none in E; eauto. }
    destruct Hin as [->|Hin].
    + assert (F : find (fun e0 : Z * odata => fst e0 <=? x) (rev outs ++ [e']) = Some e').
      { clear -E Hle. induction (rev outs) as [|y l IHl]; simpl in *.
        - destruct (Z.leb_spec (fst e') x); [reflexivity|lia].
        - destruct (fst y <=? x); [discriminate|auto]. }
      rewrite F in H. injection H as <-. lia.
    + specialize (N e' Hin). apply Z.leb_gt in N. lia.
Qed.

(* pruning never changes what a step at or after the threshold can pull *)
Theorem prune_preserves_pull (outs : list (Z * odata)) thr x : increasing outs -> thr <= x ->
  let older := filter (fun t => t <=? thr) (map fst outs) in
  let keep_from := match older with [] => thr | y :: r => fold_left Z.max r y end in
  get_output_for (filter (fun e : Z*odata => keep_from <=? fst e) outs) x = get_output_for outs x.
Proof.
  intros Hinc Hx older keep_from. unfold get_output_for. rewrite <- filter_rev'.
  destruct (find (fun e : Z*odata => fst e <=? x) (rev outs)) as [e|] eqn:E.
  - rewrite (find_filter _ _ _ e E); [reflexivity|].
    apply Z.leb_le. pose proof (find_rev_last_le outs x e Hinc E) as Hmax.
    apply find_some in E as [Hin He]. apply Z.leb_le in He.
    unfold keep_from. destruct older as [|y r] eqn:EO.
    + (* nothing at or before thr: e itself is after thr *)
      destruct (Z.le_gt_cases (fst e) thr) as [L|G]; [|lia].
      exfalso. apply in_rev in Hin.
      assert (In (fst e) older) by (unfold older; apply filter_In; split; [apply in_map; exact Hin|apply Z.leb_le; exact L]).
      rewrite EO in H. destruct H.
    + (* keep_from is one of the times <= thr <= x *)
      assert (Hall : forall t, In t (y :: r) -> t <= fst e).
      { intros t Ht. rewrite <- EO in Ht. unfold older in Ht. apply filter_In in Ht as [Hm Hl]. apply Z.leb_le in Hl.
        apply in_map_iff in Hm as (e' & <- & He'). apply Hmax; [exact He'|lia]. }
      assert (K : fold_left Z.max r y <= fst e).
      { clear -Hall. assert (G : forall l a, a <= fst e -> (forall t, In t l -> t <= fst e) -> fold_left Z.max l a <= fst e).
        { induction l as [|z l IHl]; intros a Ha Hl; simpl; [exact Ha|]. apply IHl; [|intros; apply Hl; right; auto].
          specialize (Hl z (or_introl eq_refl)). lia. }
        apply G; [apply Hall; left; reflexivity|intros; apply Hall; right; auto]. }
      exact K.
  - rewrite find_filter_none by exact E. reflexivity.
Qed.
