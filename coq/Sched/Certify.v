(* Certifying check of the static tables: [check_static sc t anc = true] implies the premise [static_ok] of the
   scheduler theorems for the static record [static_of sc t anc].  The extracted checker is run on the tables that
   the model builds for every generated scenario (and those equal the implementation's tables). *)
From Coq Require Import ZArith List Bool Arith Lia.
Import ListNotations.
From MV Require Import Time.Spec Time.Ord Time.Laws Static.Groups Static.Connect Static.Build Sched.Timing Sched.Plane Sched.Link
  Sched.Inv Sched.Init Sched.Main.
Open Scope Z_scope.

Definition shape_okb (sc : scenario) (src dst : nat) (d : interval) : bool :=
  wfIb d && Nat.eqb (ipre d) (sim_depth sc src) && Nat.eqb (length (itiers d)) (sim_depth sc dst).
(* some delay from [a] in the row is of the same shape as d and not larger *)
Definition dominated (row : list (nat * interval)) (a : nat) (d : interval) : bool :=
  existsb (fun e : nat * interval => Nat.eqb (fst e) a && same_shapeb (snd e) d && tle (itiers (snd e)) (itiers d)) row.

Definition trig_entries (t : tables) : list (nat * nat * nat * interval) :=
  flat_map (fun (ir : nat * list (nat * list (nat * interval))) =>
    flat_map (fun (pr : nat * list (nat * interval)) => map (fun (e : nat * interval) => (fst ir, fst pr, fst e, snd e)) (snd pr)) (snd ir)) (t_trig t).
Definition anc_entries (anc : anc_tab) : list (nat * nat * interval) :=
  flat_map (fun (jr : nat * list (nat * interval)) => map (fun (e : nat * interval) => (fst jr, fst e, snd e)) (snd jr)) anc.

Definition check_static (sc : scenario) (t : tables) (anc : anc_tab) : bool :=
  (0 <=? sc_until sc) &&
  forallb (fun e : nat * Z => 0 <=? snd e) (sc_init sc) &&
  forallb (fun x : nat * nat * nat * interval => let '(i, p, dest, d) := x in
     shape_okb sc i dest d && dominated (aget_l dest anc) i d) (trig_entries t) &&
  forallb (fun x : nat * nat * interval => let '(j, a, d) := x in shape_okb sc a j d) (anc_entries anc) &&
  forallb (fun x : nat * nat * nat * interval => let '(i, p, b, d1) := x in
     forallb (fun y : nat * nat * interval => let '(j, b', d2) := y in
        if Nat.eqb b' b then dominated (aget_l j anc) i (comp d1 d2) else true) (anc_entries anc)) (trig_entries t) &&
  forallb (fun x : nat * nat * interval => let '(i, a, d) := x in
     forallb (fun c => tle (repeat 0 (sim_depth sc i)) (act c d)) (initial_nexts sc a)) (anc_entries anc).

Lemma aget_in' {V} k (v:V) l : aget k l = Some v -> In (k, v) l.
Proof. induction l as [|[k' v'] l IH]; simpl; [discriminate|]. destruct (Nat.eqb_spec k k'); [intros H; injection H as <-; subst; left; reflexivity|intros H; right; auto]. Qed.
Lemma aget_l_in {V} k (x:V) l : In x (aget_l k l) -> exists row, In (k, row) l /\ In x row.
Proof. unfold aget_l. destruct (aget k l) as [row|] eqn:E; [|intros []]. intros H. exists row. split; [apply aget_in'; exact E|exact H]. Qed.

Section Cert.
Variable sc : scenario.
Variable t : tables.
Variable atab : anc_tab.
Hypothesis CK : check_static sc t atab = true.
Let st := static_of sc t atab.

Lemma ck_parts : 0 <= sc_until sc /\
  (forall e, In e (sc_init sc) -> 0 <= snd e) /\
  (forall i p dest d, In (i, p, dest, d) (trig_entries t) -> shape_okb sc i dest d = true /\ dominated (aget_l dest atab) i d = true) /\
  (forall j a d, In (j, a, d) (anc_entries atab) -> shape_okb sc a j d = true) /\
  (forall i p b d1 j d2, In (i, p, b, d1) (trig_entries t) -> In (j, b, d2) (anc_entries atab) -> dominated (aget_l j atab) i (comp d1 d2) = true) /\
  (forall i a d c, In (i, a, d) (anc_entries atab) -> In c (initial_nexts sc a) -> tle (repeat 0 (sim_depth sc i)) (act c d) = true).
Proof.
  unfold check_static in CK. rewrite !andb_true_iff in CK. destruct CK as [[[[[A B] C] D] E] F].
  rewrite forallb_forall in B, C, D, E, F. split; [apply Z.leb_le; exact A|]. split.
  - intros e He. apply Z.leb_le. apply (B e He).
  - split.
    + intros i p dest d H. specialize (C _ H). simpl in C. apply andb_true_iff in C. exact C.
    + split.
      * intros j a d H. apply (D _ H).
      * split.
        -- intros i p b d1 j d2 H1 H2. specialize (E _ H1). simpl in E. rewrite forallb_forall in E. specialize (E _ H2). simpl in E.
           rewrite Nat.eqb_refl in E. exact E.
        -- intros i a d c H1 H2. specialize (F _ H1). simpl in F. rewrite forallb_forall in F. apply (F c H2).
Qed.

Lemma trig_in i p dest d : In (dest, d) (trig st i p) -> In (i, p, dest, d) (trig_entries t).
Proof.
  unfold st, static_of. simpl. intros H.
  apply aget_l_in in H as (rowp & H1 & H2). apply aget_l_in in H1 as (rowi & H3 & H4).
  unfold trig_entries. apply in_flat_map. exists (i, rowi). split; [exact H3|].
  apply in_flat_map. exists (p, rowp). split; [exact H4|]. apply in_map_iff. exists (dest, d). split; [reflexivity|exact H2].
Qed.
Lemma anc_in j a d : In (a, d) (anc st j) -> In (j, a, d) (anc_entries atab).
Proof.
  unfold st, static_of. simpl. intros H. apply aget_l_in in H as (row & H1 & H2).
  unfold anc_entries. apply in_flat_map. exists (j, row). split; [exact H1|]. apply in_map_iff. exists (a, d). split; [reflexivity|exact H2].
Qed.
Lemma shape_ok_spec src dst d : shape_okb sc src dst d = true -> wfI d /\ ipre d = sim_depth sc src /\ length (itiers d) = sim_depth sc dst.
Proof. unfold shape_okb. rewrite !andb_true_iff, !Nat.eqb_eq. intros [[A B] C]. split; [apply wfIb_iff; exact A|auto]. Qed.
Lemma dominated_spec row a d : dominated row a d = true ->
  exists d', In (a, d') row /\ same_shape d' d /\ tle (itiers d') (itiers d) = true.
Proof.
  unfold dominated. rewrite existsb_exists. intros ([a' d'] & Hin & H). simpl in H.
  rewrite !andb_true_iff in H. destruct H as [[H1 H2] H3]. apply Nat.eqb_eq in H1. subst a'.
  exists d'. split; [exact Hin|]. split; [|exact H3].
  unfold same_shapeb in H2. rewrite !andb_true_iff, !Nat.eqb_eq in H2. destruct H2 as [[P C] L]. repeat split; assumption.
Qed.
Lemma depth_pos i : (1 <= sim_depth sc i)%nat.
Proof. unfold sim_depth, gdepth, gchain. destruct (sc_group sc i); simpl; lia. Qed.

Lemma init_nexts_spec i c : In c (initial_nexts sc i) -> length c = sim_depth sc i /\ tle (repeat 0 (sim_depth sc i)) c = true.
Proof.
  destruct ck_parts as (_ & HI & _). unfold initial_nexts.
  assert (G : forall l acc, (forall e, In e l -> 0 <= snd e) ->
     (forall c, In c acc -> length c = sim_depth sc i /\ tle (repeat 0 (sim_depth sc i)) c = true) ->
     forall c, In c (fold_left (fun acc (e : nat * Z) => if Nat.eqb (fst e) i then [snd e :: repeat 0 (sim_depth sc i - 1)] else acc) l acc) ->
     length c = sim_depth sc i /\ tle (repeat 0 (sim_depth sc i)) c = true).
  { induction l as [|e l IH]; intros acc Hl Hacc c0 Hc; simpl in Hc; [apply Hacc; exact Hc|].
    eapply IH; [intros; apply Hl; right; auto| |exact Hc].
    destruct (Nat.eqb (fst e) i); [|exact Hacc].
    intros c' [<-|[]]. pose proof (depth_pos i). split; [simpl; rewrite repeat_length; lia|].
    specialize (Hl e (or_introl eq_refl)). unfold tle. destruct (sim_depth sc i) as [|n]; [lia|]. simpl. rewrite Nat.sub_0_r.
    destruct (Z.ltb_spec (snd e) 0); [lia|]. destruct (Z.ltb_spec 0 (snd e)); [reflexivity|]. simpl. rewrite tlt_irrefl. reflexivity. }
  apply G; [exact HI|].
  intros c' Hc'. destruct (sc_type sc i); simpl in Hc'; try (destruct Hc' as [<-|[]]; split; [apply repeat_length|apply tle_refl]); destruct Hc'.
Qed.

Theorem check_static_sound : static_ok st.
Proof.
  destruct ck_parts as (HU & HI & HT & HA & HTri & HIA).
  constructor.
  - intros i. unfold st, static_of; simpl. apply depth_pos.
  - unfold st, static_of; simpl. exact HU.
  - (* trig_shape *)
    intros i p dest d c Hin Hc. destruct (HT _ _ _ _ (trig_in _ _ _ _ Hin)) as [S _].
    apply shape_ok_spec in S as (W & P & L). unfold st, static_of in *; simpl in *.
    rewrite act_length; [exact L|exact W|congruence].
  - (* anc_shape *)
    intros i a d c Hin Hc. pose proof (HA _ _ _ (anc_in _ _ _ Hin)) as S.
    apply shape_ok_spec in S as (W & P & L). unfold st, static_of in *; simpl in *.
    rewrite act_length; [exact L|exact W|congruence].
  - (* dist_edge *)
    intros i p dest d Hin. destruct (HT _ _ _ _ (trig_in _ _ _ _ Hin)) as [S D].
    apply shape_ok_spec in S as (W & P & L). apply dominated_spec in D as (d' & Hd' & SS & LE).
    exists d'. split; [unfold st, static_of; simpl; exact Hd'|].
    intros c Hc. unfold st, static_of in Hc; simpl in Hc.
    destruct SS as (P' & C' & L').
    assert (W' : wfI d') by (destruct W as (A1 & A2 & A3); unfold wfI; rewrite P', C', L'; auto).
    apply act_mono_delay_le; [exact W'|repeat split; assumption|congruence|exact LE].
  - (* dist_tri *)
    intros i p b d1 j d2 H1 H2.
    pose proof (trig_in _ _ _ _ H1) as T1. pose proof (anc_in _ _ _ H2) as A2.
    destruct (HT _ _ _ _ T1) as [S1 _]. apply shape_ok_spec in S1 as (W1 & P1 & L1).
    pose proof (HA _ _ _ A2) as S2. apply shape_ok_spec in S2 as (W2 & P2 & L2).
    pose proof (HTri _ _ _ _ _ _ T1 A2) as D. apply dominated_spec in D as (d3 & Hd3 & SS & LE).
    exists d3. split; [unfold st, static_of; simpl; exact Hd3|].
    intros c Hc. unfold st, static_of in Hc; simpl in Hc.
    assert (Hcomp : length (itiers d1) = ipre d2) by congruence.
    rewrite act_comp; [|exact W1|exact W2|congruence|exact Hcomp].
    pose proof (comp_wf d1 d2 W1 W2 Hcomp) as Wc.
    destruct SS as (P' & C' & L').
    assert (W3 : wfI d3) by (destruct Wc as (A1 & A2' & A3); unfold wfI; rewrite P', C', L'; auto).
    apply act_mono_delay_le; [exact W3|repeat split; assumption| |exact LE].
    rewrite P', comp_pre. congruence.
  - (* init_shape *)
    intros i c Hc. unfold st, static_of in *; simpl in *. apply init_nexts_spec. exact Hc.
  - (* init_anc *)
    intros i a d c Ha Hc. unfold st, static_of in *; simpl in *. apply (HIA i a d c); [apply anc_in; exact Ha|exact Hc].
Qed.
End Cert.

(* the static record produced by [prepare] for a scenario whose tables pass the check satisfies the premise of
   every scheduler theorem (Props/C01, C02, C05, C10, C16) *)
Theorem prepared_static_ok fuel sc st dt t anc :
  prepare fuel sc = Prepared st dt t anc -> check_static sc t anc = true -> static_ok st.
Proof.
  unfold prepare. destruct (build (sc_gt sc) (sc_group sc) (sc_conns sc)) as [t0| |]; try discriminate.
  destruct (ancestors fuel t0) as [[a0|]|]; try discriminate.
  intros H. injection H as <- _ <- <-. apply check_static_sound.
Qed.

(* ------------------------------------------------------------------------------------------------------ *)
(* the additional static facts of the strictness theorem (Sched/Strict.v), also decidable per scenario *)
Record static_ok2 (st : static) : Prop := {
  ok2_trig_in : forall i p dest d, In (dest,d) (trig st i p) ->
     exists d', In (i,d') (indel st dest) /\ forall c, length c = depth st i -> tle (act c d') (act c d) = true;
  ok2_init_kx : forall j k d, In (k,d) (indel st j) ->
     tlt ((-1) :: repeat 0 (depth st j - 1)) (act (repeat 0 (depth st k)) d) = true;
  ok2_init_nodup : forall i, NoDup (init_nexts st i) }.

Definition indel_entries (t : tables) : list (nat * nat * interval) :=
  flat_map (fun (jr : nat * list (nat * interval)) => map (fun (e : nat * interval) => (fst jr, fst e, snd e)) (snd jr)) (t_indel t).
Definition check_static2 (sc : scenario) (t : tables) : bool :=
  forallb (fun x : nat * nat * nat * interval => let '(i, p, dest, d) := x in
     shape_okb sc i dest d && dominated (aget_l dest (t_indel t)) i d) (trig_entries t) &&
  forallb (fun x : nat * nat * interval => let '(j, k, d) := x in
     tlt ((-1) :: repeat 0 (sim_depth sc j - 1)) (act (repeat 0 (sim_depth sc k)) d)) (indel_entries t).

Lemma initial_nexts_short sc i : (length (initial_nexts sc i) <= 1)%nat.
Proof.
  unfold initial_nexts.
  assert (G : forall l acc, (length acc <= 1)%nat ->
     (length (fold_left (fun acc (e : nat * Z) => if Nat.eqb (fst e) i then [snd e :: repeat 0%Z (sim_depth sc i - 1)] else acc) l acc) <= 1)%nat).
  { induction l as [|e l IH]; intros acc H; simpl; [exact H|]. apply IH. destruct (Nat.eqb (fst e) i); [simpl; lia|exact H]. }
  apply G. destruct (sc_type sc i); simpl; lia.
Qed.
Lemma short_nodup {A} (l : list A) : (length l <= 1)%nat -> NoDup l.
Proof. destruct l as [|x [|y l]]; simpl; intros H; [constructor|constructor; [intros []|constructor]|lia]. Qed.

Theorem check_static2_sound sc t atab : check_static2 sc t = true -> static_ok2 (static_of sc t atab).
Proof.
  intros CK. unfold check_static2 in CK. apply andb_true_iff in CK as [C1 C2]. rewrite forallb_forall in C1, C2.
  constructor.
  - intros i p dest d Hin. pose proof (trig_in sc t atab i p dest d Hin) as T. specialize (C1 _ T). simpl in C1.
    apply andb_true_iff in C1 as [S D]. apply shape_ok_spec in S as (W & P & L).
    apply dominated_spec in D as (d' & Hd' & SS & LE). exists d'. split; [unfold static_of; simpl; exact Hd'|].
    intros c Hc. unfold static_of in Hc; simpl in Hc. destruct SS as (P' & C' & L').
    assert (W' : wfI d') by (destruct W as (A1 & A2 & A3); unfold wfI; rewrite P', C', L'; auto).
    apply act_mono_delay_le; [exact W'|repeat split; assumption|congruence|exact LE].
  - intros j k d Hin. unfold static_of in *; simpl in *.
    apply aget_l_in in Hin as (row & H1 & H2).
    apply (C2 (j, k, d)). unfold indel_entries. apply in_flat_map. exists (j, row). split; [exact H1|].
    apply in_map_iff. exists (k, d). split; [reflexivity|exact H2].
  - intros i. unfold static_of; simpl. apply short_nodup. apply initial_nexts_short.
Qed.

From MV Require Import Sched.Wle Sched.Guards Sched.Strict.
(* C02: strict increase of every simulator's steps, for runs from the initial state of a certified scenario *)
Theorem certified_strictly_increasing st : static_ok st -> static_ok2 st ->
  forall evs l p q j t m u m', run st (init_state st) evs = Ok l ->
  (p < q)%nat -> nth_error evs p = Some (EvBegin j t m) -> nth_error evs q = Some (EvBegin j u m') -> tlt t u = true.
Proof.
  intros OK OK2. apply strictly_increasing_from_init; [exact OK|apply (ok2_trig_in st OK2)|apply (ok2_init_kx st OK2)|apply (ok2_init_nodup st OK2)].
Qed.
