(* C02, strictness: every step a simulator begins is strictly later than the step it began before; consequently no
   time is executed twice.  Invariants (for the repaired scheduler):
     Nx : every queued step of j is strictly after floor_j (the latest step j has begun)
     Kx : for every input connection k -> j with delay d : floor_j < act progress_k d
     ND : no time is queued twice
   Kx is established by the input guard at BEGIN(j) and is stable because progress only grows; it makes every later
   trigger from k land strictly after floor_j. *)
From Coq Require Import ZArith List Bool Arith Lia.
Import ListNotations.
From MV Require Import Time.Spec Time.Ord Sched.Timing Sched.Inv Sched.Init Sched.Wle Sched.Main Sched.Guards.
Open Scope Z_scope.

Lemma tle_tlt_trans' a b c : tle a b = true -> tlt b c = true -> tlt a c = true.
Proof.
  intros H1 H2. destruct (tlt_trichotomy a c) as [H|[H|H]]; auto.
  - subst. unfold tle in H1. rewrite H2 in H1. discriminate.
  - pose proof (tlt_trans _ _ _ H2 H) as H3. unfold tle in H1. rewrite H3 in H1. discriminate.
Qed.

Definition floor (x : sim) : time := match cur x with Some c => c | None => last x end.

Section S.
Variable st : static.
Hypothesis OK : static_ok st.
(* every trigger edge is also an input connection, with a delay that is not larger (World.connect_one: min over the pair) *)
Hypothesis trig_in : forall i p dest d, In (dest,d) (trig st i p) ->
  exists d', In (i,d') (indel st dest) /\ forall c, length c = depth st i -> tle (act c d') (act c d) = true.
Hypothesis indel_shape : forall j k d c, In (k,d) (indel st j) -> length c = depth st k -> length (act c d) = depth st j.

Definition Nx (s:state) : Prop := forall j c, In c (nexts (s j)) -> tlt (floor (s j)) c = true.
Definition Kx (s:state) : Prop := forall j k d, In (k,d) (indel st j) -> tlt (floor (s j)) (act (prog (s k)) d) = true.
Definition ND (s:state) : Prop := forall j, NoDup (nexts (s j)).
Definition FL (s:state) : Prop := forall j, length (floor (s j)) = depth st j.
Definition SX (s:state) : Prop := Nx s /\ Kx s /\ ND s /\ FL s.

(* ---- steps that keep queues and floors and only let progress grow ---- *)
Lemma sx_progress s s' : SX s -> Inv st s -> Inv st s' ->
  (forall j, nexts (s' j) = nexts (s j) /\ cur (s' j) = cur (s j) /\ last (s' j) = last (s j)) ->
  prog_le s s' -> SX s'.
Proof.
  intros (HN & HK & HD & HF) [HS _] [HS' _] Hsame Hle.
  assert (Hfl : forall j, floor (s' j) = floor (s j)) by (intros j; unfold floor; destruct (Hsame j) as (_ & B & C); rewrite B, C; reflexivity).
  split; [|split; [|split]].
  - intros j c Hc. rewrite Hfl. destruct (Hsame j) as (A & _). rewrite A in Hc. apply HN; exact Hc.
  - intros j k d Hin. rewrite Hfl. eapply tlt_tle_trans; [apply (HK j k d Hin)|].
    apply act_mono; [|apply Hle]. destruct (HS k) as [A _]. destruct (HS' k) as [A' _]. congruence.
  - intros j. destruct (Hsame j) as (A & _). rewrite A. apply HD.
  - intros j. rewrite Hfl. apply HF.
Qed.

(* ---- schedule ---- *)
Lemma memT_true t l : memT t l = true -> In t l.
Proof. induction l as [|y l IH]; simpl; [discriminate|]. intros H. apply orb_true_iff in H as [H|H]; [left; symmetry; apply teq_eq; exact H|right; auto]. Qed.
Lemma memT_false t l : memT t l = false -> ~ In t l.
Proof. induction l as [|y l IH]; simpl; [tauto|]. intros H. apply orb_false_iff in H as [H1 H2]. intros [E|E]; [subst; assert (teq t t = true) by (apply teq_eq; reflexivity); congruence|apply IH; auto]. Qed.
Lemma nexts_schedule s i t j : nexts (schedule s i t j) = if Nat.eqb j i then (if memT t (nexts (s i)) then nexts (s i) else t :: nexts (s i)) else nexts (s j).
Proof.
  unfold schedule. destruct (memT t (nexts (s i))) eqn:M.
  - destruct (Nat.eqb_spec j i); [subst|]; reflexivity.
  - unfold upd. destruct (Nat.eqb_spec j i); [subst|]; reflexivity.
Qed.
Lemma floor_schedule s i t j : floor (schedule s i t j) = floor (s j).
Proof. unfold floor. rewrite cur_schedule, last_schedule. reflexivity. Qed.
Lemma sx_schedule s i t : SX s -> tlt (floor (s i)) t = true -> SX (schedule s i t).
Proof.
  intros (HN & HK & HD & HF) Ht. split; [|split; [|split]].
  - intros j c Hc. rewrite floor_schedule. rewrite nexts_schedule in Hc.
    destruct (Nat.eqb_spec j i) as [->|Hne]; [|apply HN; exact Hc].
    destruct (memT t (nexts (s i))); [apply HN; exact Hc|]. destruct Hc as [<-|Hc]; [exact Ht|apply HN; exact Hc].
  - intros j k d Hin. rewrite floor_schedule, prog_schedule. apply HK; exact Hin.
  - intros j. rewrite nexts_schedule. destruct (Nat.eqb_spec j i) as [->|Hne]; [|apply HD].
    destruct (memT t (nexts (s i))) eqn:M; [apply HD|]. constructor; [apply memT_false; exact M|apply HD].
  - intros j. rewrite floor_schedule. apply HF.
Qed.

(* ---- notify: every trigger produced by a step of i with output time ott >= progress_i lands strictly after the destination's floor ---- *)
Lemma sx_notify_inner i p ott (s : state) :
  (forall k, length (prog (s k)) = depth st k) -> length ott = depth st i -> tle (prog (s i)) ott = true ->
  forall l s0, (forall dd, In dd l -> In dd (trig st i p)) -> SX s0 -> (forall j, prog (s0 j) = prog (s j)) ->
  SX (fold_left (fun s (dd:nat*interval) => let (dest,d) := dd in let tt := act ott d in
                 if until st <=? thd tt then s else schedule s dest tt) l s0) /\
  (forall j, prog (fold_left (fun s (dd:nat*interval) => let (dest,d) := dd in let tt := act ott d in
                 if until st <=? thd tt then s else schedule s dest tt) l s0 j) = prog (s j)).
Proof.
  intros Hshape Hlen Hle. induction l as [|[dest d] l IHl]; intros s0 Hsub HX0 Hp; simpl; [split; auto|].
  assert (Hin : In (dest, d) (trig st i p)) by (apply Hsub; left; reflexivity).
  destruct (until st <=? thd (act ott d)).
  - apply IHl; auto. intros; apply Hsub; right; auto.
  - assert (Hlt : tlt (floor (s0 dest)) (act ott d) = true).
    { destruct (trig_in i p dest d Hin) as (d' & Hd' & Hdom).
      destruct HX0 as (_ & HK0 & _). specialize (HK0 dest i d' Hd').
      eapply tlt_tle_trans; [exact HK0|].
      eapply tle_trans; [apply act_mono; [rewrite Hp, Hshape; symmetry; exact Hlen|rewrite Hp; exact Hle]|].
      apply Hdom. exact Hlen. }
    apply IHl; [intros; apply Hsub; right; auto|apply sx_schedule; assumption|].
    intros j. rewrite prog_schedule. apply Hp.
Qed.
Lemma sx_notify ports : forall (s : state) i ott, SX s ->
  (forall k, length (prog (s k)) = depth st k) -> length ott = depth st i -> tle (prog (s i)) ott = true ->
  SX (notify st s i ott ports) /\ (forall j, prog (notify st s i ott ports j) = prog (s j)).
Proof.
  unfold notify.
  assert (G : forall ports (s s0 : state) i ott, (forall k, length (prog (s k)) = depth st k) -> length ott = depth st i -> tle (prog (s i)) ott = true ->
     SX s0 -> (forall j, prog (s0 j) = prog (s j)) ->
     SX (fold_left (fun s p => fold_left (fun s (dd:nat*interval) => let (dest,d) := dd in let tt := act ott d in
                 if until st <=? thd tt then s else schedule s dest tt) (trig st i p) s) ports s0) /\
     (forall j, prog (fold_left (fun s p => fold_left (fun s (dd:nat*interval) => let (dest,d) := dd in let tt := act ott d in
                 if until st <=? thd tt then s else schedule s dest tt) (trig st i p) s) ports s0 j) = prog (s j))).
  { induction ports0 as [|p ports0 IH]; intros s s0 i ott Hshape Hlen Hle HX0 Hp; simpl; [split; auto|].
    destruct (sx_notify_inner i p ott s Hshape Hlen Hle (trig st i p) s0 (fun dd H => H) HX0 Hp) as [HX1 Hp1].
    apply IH; assumption. }
  intros s i ott HX Hshape Hlen Hle. apply (G ports s s i ott); auto.
Qed.

Ltac okargs := first [ exact (ok_depth st OK) | exact (ok_trig_shape st OK) | exact (ok_anc_shape st OK)
                     | exact (ok_dist_edge st OK) | exact (ok_dist_tri st OK) ].

(* ---- transfers ---- *)
Lemma sx_floor_same s s' : SX s ->
  (forall j, nexts (s' j) = nexts (s j) /\ prog (s' j) = prog (s j) /\ floor (s' j) = floor (s j)) -> SX s'.
Proof.
  intros (HN & HK & HD & HF) H. split; [|split; [|split]].
  - intros j c Hc. destruct (H j) as (A & B & C). rewrite C. apply HN. rewrite <- A. exact Hc.
  - intros j k d Hin. destruct (H j) as (_ & _ & C). destruct (H k) as (_ & B & _). rewrite C, B. apply HK; exact Hin.
  - intros j. destruct (H j) as (A & _). rewrite A. apply HD.
  - intros j. destruct (H j) as (_ & _ & C). rewrite C. apply HF.
Qed.
Lemma sx_same_data s s' : same_data s s' -> SX s -> SX s'.
Proof.
  intros H HX. apply sx_floor_same with s; [exact HX|]. intros j. destruct (H j) as (A & B & C & D).
  split; [exact B|]. split; [exact A|]. unfold floor. rewrite C, D. reflexivity.
Qed.
Lemma advance_fields s i s' : advance st s i = Ok s' -> forall j, nexts (s' j) = nexts (s j) /\ cur (s' j) = cur (s j) /\ last (s' j) = last (s j).
Proof.
  unfold advance. destruct (tlt _ _); [discriminate|]. intros H; injection H as <-. intros j. unfold upd.
  destruct (Nat.eqb_spec j i); [subst|]; simpl; auto.
Qed.
Lemma sx_advance s i s' : Inv st s -> SX s -> advance st s i = Ok s' -> SX s' /\ Inv st s'.
Proof.
  intros HI HX E. assert (HI' : Inv st s').
  { assert (A := advance_inv st). specialize (A (ok_depth st OK) (ok_anc_shape st OK) s i HI). destruct A as (s1 & E1 & HI1 & _). congruence. }
  split; [|exact HI']. eapply sx_progress; eauto; [apply advance_fields with i; exact E|eapply advance_mono; eauto].
Qed.
Lemma sx_advance_all l : forall s s', Inv st s -> SX s ->
  fold_left (fun (r:res state) j => match r with Ok s => advance st s j | e => e end) l (Ok s) = Ok s' -> SX s' /\ Inv st s'.
Proof.
  induction l as [|i l IH]; intros s s' HI HX H; simpl in H; [injection H as <-; auto|].
  destruct (advance st s i) as [s1|e] eqn:E.
  - destruct (sx_advance s i s1 HI HX E) as [HX1 HI1]. eapply IH; eauto.
  - exfalso. clear -H. induction l; simpl in H; [discriminate|auto].
Qed.

Lemma in_removeT_neq t l c : NoDup l -> In c (removeT t l) -> In c l /\ c <> t.
Proof.
  induction l as [|y l IH]; simpl; intros Hnd Hc; [destruct Hc|]. inversion Hnd; subst.
  destruct (teq t y) eqn:E.
  - apply teq_eq in E. subst y. split; [right; exact Hc|]. intros ->. contradiction.
  - destruct Hc as [<-|Hc]; [split; [left; reflexivity|]; intros ->; assert (teq t t = true) by (apply teq_eq; reflexivity); congruence|].
    destruct (IH H2 Hc) as [A B]. split; [right; exact A|exact B].
Qed.
Lemma nodup_removeT t l : NoDup l -> NoDup (removeT t l).
Proof.
  induction l as [|y l IH]; simpl; intros H; [constructor|]. inversion H; subst.
  destruct (teq t y); [assumption|]. constructor; [intros Hin; apply H2; eapply in_removeT; eauto|auto].
Qed.
Lemma tle_neq_tlt a b : tle a b = true -> a <> b -> tlt a b = true.
Proof. unfold tle. rewrite negb_true_iff. intros H Hne. destruct (tlt_trichotomy a b) as [A|[A|A]]; [exact A|contradiction|congruence]. Qed.
Lemma world_time_gt_strict i t v : length t = depth st i -> thd t < v -> tlt t (world_time st i v) = true.
Proof.
  intros Hl Hv. unfold world_time. destruct t as [|x t]; simpl in *.
  - pose proof (ok_depth st OK i). lia.
  - apply Z.ltb_lt in Hv. rewrite Hv. reflexivity.
Qed.

Lemma sx_upd_same_floor s i v : nexts v = nexts (s i) -> prog v = prog (s i) -> floor v = floor (s i) -> SX s -> SX (upd s i v).
Proof.
  intros A B C HX. apply sx_floor_same with s; [exact HX|]. intros j. destruct (Nat.eqb_spec j i) as [->|Hne].
  - rewrite upd_same. auto.
  - rewrite upd_other by exact Hne. auto.
Qed.

(* ---- finishing a step of i whose floor is c (= last = the step just performed), with output time ott >= c ---- *)
Lemma sx_finish s i c ott ports s' : Inv st s -> SX s -> cur (s i) = Some c -> last (s i) = c ->
  length ott = depth st i -> tle c ott = true ->
  finish_step st s i ott ports = Ok s' -> SX s'.
Proof.
  intros HI HX Hcur Hlast Hott Hle. rewrite finish_step_eq.
  set (s1 := upd s i (mkSim (pc (s i)) (prog (s i)) (nexts (s i)) None (last (s i)) (newer (s i)))).
  assert (Hin : In c (cands (s i))) by (unfold cands; rewrite Hcur; left; reflexivity).
  assert (Hc : length c = depth st i) by (destruct HI as [HS _]; apply (HS i); exact Hin).
  assert (Hp1 : forall j, prog (s1 j) = prog (s j)) by (intros j; unfold s1, upd; destruct (Nat.eqb_spec j i); subst; reflexivity).
  assert (HI1 : Inv st s1).
  { apply inv_weaken with s; auto. intros j x. unfold s1, upd. destruct (Nat.eqb_spec j i); auto. subst.
    unfold cands; simpl. intros H. apply in_app_iff. right; exact H. }
  assert (HX1 : SX s1).
  { apply sx_floor_same with s; [exact HX|]. intros j. unfold s1, upd, floor. destruct (Nat.eqb_spec j i); [subst; simpl; rewrite Hcur; auto|auto]. }
  assert (Hple : tle (prog (s1 i)) ott = true).
  { rewrite Hp1. destruct HI as [_ HL]. destruct (HL i) as (_ & B & _). eapply tle_trans; [apply B; exact Hin|exact Hle]. }
  assert (Hshape1 : forall k, length (prog (s1 k)) = depth st k) by (intros k; destruct HI1 as [HS1 _]; destruct (HS1 k) as [A _]; exact A).
  destruct (sx_notify ports s1 i ott HX1 Hshape1 Hott Hple) as [HX2 _].
  assert (Hsee : forall j d, In (i,d) (anc st j) -> tle (prog (s1 j)) (act c d) = true).
  { intros j d Hd. rewrite Hp1. destruct HI as [_ HL]. destruct (HL j) as (_ & _ & C). eapply C; eauto. }
  assert (HI2 : Inv st (notify st s1 i ott ports)).
  { assert (N := notify_inv st). eapply N; try okargs; eauto. }
  destruct (fold_left _ (seq 0 (nsims st)) (Ok (notify st s1 i ott ports))) as [s3|e] eqn:E; [|discriminate].
  intros H; injection H as <-.
  destruct (sx_advance_all _ _ _ HI2 HX2 E) as [HX3 HI3].
  eapply sx_same_data; [apply wake_sleepers_same|]. eapply sx_same_data; [apply loop_eval_same|]. exact HX3.
Qed.

(* ---- every accepted event preserves the invariants ---- *)
Theorem apply_sx s e s' : Good st s -> SX s -> apply st s e = Ok s' -> SX s'.
Proof.
  intros HG HX. assert (HG' := HG). destruct HG' as ([HI HD] & HW & HE).
  destruct e as [i | i t m | i nxt | i ot ports | | i | ib]; simpl.
  - (* START *)
    destruct (pc (s i)); try discriminate.
    destruct (advance st s i) as [s1|] eqn:E; [|discriminate]. intros H; injection H as <-.
    destruct (sx_advance s i s1 HI HX E) as [HX1 _].
    eapply sx_same_data; [apply wake_sleepers_same|]. eapply sx_same_data; [apply loop_eval_same|]. exact HX1.
  - (* BEGIN *)
    intros H. assert (Hb := H). destruct (begin_facts _ _ _ _ _ _ H) as (t0 & P & D & T & Et & _ & Es & _).
    pose proof (input_guard st s i t m s' HG Hb) as IG.
    destruct HX as (HN & HK & HND & HF). destruct HI as [HS HL].
    subst s'. split; [|split; [|split]].
    + intros j c Hc. unfold upd in Hc. unfold upd. destruct (Nat.eqb_spec j i) as [->|Hne]; [|apply HN; exact Hc].
      cbn [nexts] in Hc. unfold floor. cbn [cur].
      destruct (in_removeT_neq t (nexts (s i)) c (HND i) Hc) as [A B].
      apply tle_neq_tlt; [|intros E; apply B; symmetry; exact E].
      rewrite Et. destruct (HL i) as (_ & Hc' & _). apply Hc'. unfold cands. apply in_app_iff. right. exact A.
    + intros j k d Hin. unfold upd. destruct (Nat.eqb_spec j i) as [->|Hne].
      * unfold floor at 1; simpl. destruct (Nat.eqb_spec k i) as [->|Hk]; simpl; apply IG; exact Hin.
      * destruct (Nat.eqb_spec k i) as [->|Hk]; simpl; apply HK; exact Hin.
    + intros j. unfold upd. destruct (Nat.eqb_spec j i) as [->|Hne]; [simpl; apply nodup_removeT; apply HND|apply HND].
    + intros j. unfold upd. destruct (Nat.eqb_spec j i) as [->|Hne]; [|apply HF]. unfold floor; simpl. rewrite Et. destruct (HS i) as [A _]; exact A.
  - (* STEPREPLY *)
    destruct (pc (s i)) eqn:Ep; try discriminate. destruct (cur (s i)) as [t|] eqn:Ec; try discriminate.
    set (s1 := upd s i (mkSim InStep (prog (s i)) (nexts (s i)) (Some t) t (newer (s i)))).
    assert (Hin : In t (cands (s i))) by (unfold cands; rewrite Ec; left; reflexivity).
    assert (Ht : length t = depth st i) by (destruct HI as [HS _]; apply (HS i); exact Hin).
    assert (HI1 : Inv st s1).
    { apply inv_weaken with s; auto.
      - intros j. unfold s1, upd. destruct (Nat.eqb_spec j i) as [->|Hji]; reflexivity.
      - intros j x. unfold s1, upd. destruct (Nat.eqb_spec j i) as [->|Hji]; auto. unfold cands. simpl. rewrite Ec. auto. }
    assert (HX1 : SX s1).
    { apply sx_floor_same with s; [exact HX|]. intros j. unfold s1, upd, floor. destruct (Nat.eqb_spec j i); [subst; simpl; rewrite Ec; auto|auto]. }
    assert (C1 : cur (s1 i) = Some t) by (unfold s1, upd; rewrite Nat.eqb_refl; reflexivity).
    assert (L1 : last (s1 i) = t) by (unfold s1, upd; rewrite Nat.eqb_refl; reflexivity).
    destruct nxt as [v|].
    + destruct (Z.leb_spec v (thd t)) as [Hv|Hv]; try discriminate.
      set (s2 := if v <? until st then schedule s1 i (world_time st i v) else s1).
      assert (F1 : floor (s1 i) = t) by (unfold floor; rewrite C1; reflexivity).
      assert (HX2 : SX s2).
      { unfold s2. destruct (v <? until st); [|exact HX1]. apply sx_schedule; [exact HX1|]. rewrite F1. apply world_time_gt_strict; [exact Ht|lia]. }
      assert (HI2 : Inv st s2).
      { unfold s2. destruct (v <? until st); [|exact HI1].
        assert (IS := inv_schedule st). eapply IS; try okargs; eauto.
        - apply length_world. okargs.
        - destruct HI1 as [_ HL1]. destruct (HL1 i) as (_ & B & _). eapply tle_trans; [apply B; unfold cands; rewrite C1; left; reflexivity|].
          apply tlt_tle. apply world_time_gt_strict; [exact Ht|lia].
        - intros j d Hd. destruct HI1 as [_ HL1]. destruct (HL1 j) as (_ & _ & C). 
          eapply tle_trans; [eapply C; [exact Hd|unfold cands; rewrite C1; left; reflexivity]|].
          apply act_mono; [rewrite Ht; symmetry; apply length_world; okargs|apply tlt_tle; apply world_time_gt_strict; [exact Ht|lia]]. }
      assert (C2 : cur (s2 i) = Some t) by (unfold s2; destruct (v <? until st); [rewrite cur_schedule|]; exact C1).
      assert (L2 : last (s2 i) = t) by (unfold s2; destruct (v <? until st); [rewrite last_schedule|]; exact L1).
      destruct (outreq st i).
      * intros Hr; injection Hr as <-. apply sx_upd_same_floor; try reflexivity. exact HX2.
      * intros Hr. exact (sx_finish s2 i t t [] s' HI2 HX2 C2 L2 Ht (tle_refl t) Hr).
    + destruct (timebased st i); try discriminate. destruct (outreq st i).
      * intros Hr; injection Hr as <-. apply sx_upd_same_floor; try reflexivity. exact HX1.
      * intros Hr. exact (sx_finish s1 i t t [] s' HI1 HX1 C1 L1 Ht (tle_refl t) Hr).
  - (* DATAREPLY *)
    destruct (pc (s i)) eqn:Ep; try discriminate. destruct (cur (s i)) as [c|] eqn:Ec; try discriminate.
    destruct (Z.ltb_spec ot (thd (last (s i)))) as [Hot|Hot]; try discriminate.
    assert (Hlast : last (s i) = c) by (apply HD; assumption).
    assert (Hin : In c (cands (s i))) by (unfold cands; rewrite Ec; left; reflexivity).
    assert (Hc : length c = depth st i) by (destruct HI as [HS _]; apply (HS i); exact Hin).
    intros Hr.
    assert (Hlen : length (if ot =? thd c then c else world_time st i ot) = depth st i).
    { destruct (ot =? thd c); [exact Hc|apply length_world; okargs]. }
    assert (Hle2 : tle c (if ot =? thd c then c else world_time st i ot) = true).
    { destruct (Z.eqb_spec ot (thd c)); [apply tle_refl|]. apply tlt_tle. apply world_time_gt_strict; [exact Hc|]. rewrite Hlast in Hot. lia. }
    exact (sx_finish s i c _ ports s' HI HX Ec Hlast Hlen Hle2 Hr).
  - destruct (existsb _ _); try discriminate. intros H; injection H as <-. exact HX.
  - destruct (begin_enabled st s i); simpl; try discriminate.
    destruct (tmin (nexts (s i))) as [t'|]; try discriminate.
    destruct (loop_exceeded st t' && teq t' (prog (s i))); try discriminate. intros H; injection H as <-. exact HX.
  - destruct (pc (s ib)); try discriminate; destruct (cur (s ib)); discriminate.
Qed.

(* ---- the latest begun step (floor) never decreases, and a BEGIN raises it strictly ---- *)
Lemma begin_after_floor s j t m s' : Good st s -> SX s -> apply st s (EvBegin j t m) = Ok s' ->
  tlt (floor (s j)) t = true /\ floor (s' j) = t /\ forall k, k <> j -> floor (s' k) = floor (s k).
Proof.
  intros HG (HN & _) H. destruct (begin_facts _ _ _ _ _ _ H) as (_ & _ & _ & T & _ & _ & Es & _).
  split; [apply HN; apply tmin_spec in T; apply T|]. subst s'. split.
  - unfold floor. rewrite upd_same. reflexivity.
  - intros k Hk. rewrite upd_other by exact Hk. reflexivity.
Qed.
Lemma floor_same_data s s' : same_data s s' -> forall j, floor (s' j) = floor (s j).
Proof. intros H j. destruct (H j) as (_ & _ & C & D). unfold floor. rewrite C, D. reflexivity. Qed.
Lemma floor_advance s i s' : advance st s i = Ok s' -> forall j, floor (s' j) = floor (s j).
Proof. intros H j. destruct (advance_fields s i s' H j) as (_ & B & C). unfold floor. rewrite B, C. reflexivity. Qed.
Lemma floor_advance_all l : forall s s', fold_left (fun (r:res state) j => match r with Ok s => advance st s j | e => e end) l (Ok s) = Ok s' ->
  forall j, floor (s' j) = floor (s j).
Proof.
  induction l as [|i l IH]; intros s s' H j; simpl in H; [injection H as <-; reflexivity|].
  destruct (advance st s i) as [s1|e] eqn:E.
  - rewrite (IH _ _ H j). apply (floor_advance s i s1 E).
  - exfalso. clear -H. induction l; simpl in H; [discriminate|auto].
Qed.
Lemma floor_notify ports : forall s i ott j, floor (notify st s i ott ports j) = floor (s j).
Proof.
  unfold notify. induction ports as [|p ports IH]; intros s i ott j; simpl; [reflexivity|].
  rewrite IH. generalize (trig st i p). intros l. revert s. induction l as [|[dest d] l IHl]; intros s; simpl; [reflexivity|].
  rewrite IHl. destruct (until st <=? thd (act ott d)); [reflexivity|apply floor_schedule].
Qed.
Lemma floor_finish s i c ott ports s' : cur (s i) = Some c -> last (s i) = c ->
  finish_step st s i ott ports = Ok s' -> forall j, floor (s' j) = floor (s j).
Proof.
  intros Hc Hl. rewrite finish_step_eq.
  destruct (fold_left _ (seq 0 (nsims st)) _) as [s3|e] eqn:E; [|discriminate]. intros H; injection H as <-. intros j.
  rewrite (floor_same_data _ _ (wake_sleepers_same st _)), (floor_same_data _ _ (loop_eval_same st _ i)).
  rewrite (floor_advance_all _ _ _ E j), floor_notify.
  destruct (Nat.eqb_spec j i) as [->|Hne]; [rewrite upd_same; unfold floor; simpl; rewrite Hc; exact Hl|rewrite upd_other by exact Hne; reflexivity].
Qed.
Theorem apply_floor_le s e s' : Good st s -> SX s -> apply st s e = Ok s' -> forall j, tle (floor (s j)) (floor (s' j)) = true.
Proof.
  intros HG HX H j. assert (HG' := HG). destruct HG' as ([HI HD] & HW & HE).
  destruct e as [i | i t m | i nxt | i ot ports | | i | ib]; simpl in H.
  - destruct (pc (s i)); try discriminate. destruct (advance st s i) as [s1|] eqn:E; [|discriminate]. injection H as <-.
    rewrite (floor_same_data _ _ (wake_sleepers_same st _)), (floor_same_data _ _ (loop_eval_same st _ i)), (floor_advance s i s1 E). apply tle_refl.
  - destruct (begin_after_floor s i t m s' HG HX H) as (A & B & C).
    destruct (Nat.eq_dec j i) as [->|Hne]; [rewrite B; apply tlt_tle; exact A|rewrite (C j Hne); apply tle_refl].
  - destruct (pc (s i)) eqn:Ep; try discriminate. destruct (cur (s i)) as [t|] eqn:Ec; try discriminate.
    set (s1 := upd s i (mkSim InStep (prog (s i)) (nexts (s i)) (Some t) t (newer (s i)))) in *.
    assert (F1 : forall k, floor (s1 k) = floor (s k)).
    { intros k. unfold s1. destruct (Nat.eqb_spec k i) as [->|Hne]; [rewrite upd_same; unfold floor; simpl; rewrite Ec; reflexivity|rewrite upd_other by exact Hne; reflexivity]. }
    assert (C1 : cur (s1 i) = Some t) by (unfold s1; rewrite upd_same; reflexivity).
    assert (L1 : last (s1 i) = t) by (unfold s1; rewrite upd_same; reflexivity).
    destruct nxt as [v|].
    + destruct (v <=? thd t); try discriminate.
      set (s2 := if v <? until st then schedule s1 i (world_time st i v) else s1) in *.
      assert (F2 : forall k, floor (s2 k) = floor (s k)) by (intros k; unfold s2; destruct (v <? until st); [rewrite floor_schedule|]; apply F1).
      assert (C2 : cur (s2 i) = Some t) by (unfold s2; destruct (v <? until st); [rewrite cur_schedule|]; exact C1).
      assert (L2 : last (s2 i) = t) by (unfold s2; destruct (v <? until st); [rewrite last_schedule|]; exact L1).
      destruct (outreq st i).
      * injection H as <-. destruct (Nat.eqb_spec j i) as [->|Hne]; [rewrite upd_same; unfold floor at 2; simpl; fold (floor (s2 i)); rewrite F2; apply tle_refl|rewrite upd_other by exact Hne; rewrite F2; apply tle_refl].
      * rewrite (floor_finish s2 i t t [] s' C2 L2 H j), F2. apply tle_refl.
    + destruct (timebased st i); try discriminate. destruct (outreq st i).
      * injection H as <-. destruct (Nat.eqb_spec j i) as [->|Hne]; [rewrite upd_same; unfold floor at 2; simpl; fold (floor (s1 i)); rewrite F1; apply tle_refl|rewrite upd_other by exact Hne; rewrite F1; apply tle_refl].
      * rewrite (floor_finish s1 i t t [] s' C1 L1 H j), F1. apply tle_refl.
  - destruct (pc (s i)) eqn:Ep; try discriminate. destruct (cur (s i)) as [c|] eqn:Ec; try discriminate.
    destruct (ot <? thd (last (s i))); try discriminate.
    assert (Hlast : last (s i) = c) by (apply HD; assumption).
    rewrite (floor_finish s i c _ ports s' Ec Hlast H j). apply tle_refl.
  - destruct (existsb _ _); try discriminate. injection H as <-. apply tle_refl.
  - destruct (begin_enabled st s i); simpl in H; try discriminate.
    destruct (tmin (nexts (s i))) as [t'|]; try discriminate.
    destruct (loop_exceeded st t' && teq t' (prog (s i))); try discriminate. injection H as <-. apply tle_refl.
  - destruct (pc (s ib)); try discriminate; destruct (cur (s ib)); discriminate.
Qed.

(* ---- whole runs ---- *)
Definition Full (s : state) : Prop := Good st s /\ SX s.
Lemma full_step s e s' : Full s -> apply st s e = Ok s' -> Full s'.
Proof. intros [HG HX] H. split; [eapply good_step; eauto|eapply apply_sx; eauto]. Qed.
Lemma full_run evs : forall s l, Full s -> run st s evs = Ok l ->
  forall p sp, nth_error (s :: l) p = Some sp -> Full sp /\ forall j, tle (floor (s j)) (floor (sp j)) = true.
Proof.
  induction evs as [|e r IH]; intros s l HF H p sp Hp; simpl in H.
  - injection H as <-. destruct p as [|[|p]]; simpl in Hp; try discriminate. injection Hp as <-. split; [exact HF|intros; apply tle_refl].
  - destruct (apply st s e) as [s1|] eqn:E; [|discriminate].
    destruct (run st s1 r) as [l1|] eqn:E1; [|discriminate]. injection H as <-.
    destruct p as [|p]; simpl in Hp; [injection Hp as <-; split; [exact HF|intros; apply tle_refl]|].
    destruct (IH s1 l1 (full_step _ _ _ HF E) E1 p sp Hp) as [A B]. split; [exact A|].
    intros j. eapply tle_trans; [apply (apply_floor_le s e s1 (proj1 HF) (proj2 HF) E j)|apply B].
Qed.

(* C02: the steps of a simulator are begun in strictly increasing order - in particular no time is executed twice *)
Theorem strictly_increasing s0 evs l p q j t m u m' : Full s0 -> run st s0 evs = Ok l ->
  (p < q)%nat -> nth_error evs p = Some (EvBegin j t m) -> nth_error evs q = Some (EvBegin j u m') -> tlt t u = true.
Proof.
  intros HF Hrun Hpq Hp Hq.
  assert (Hlp : (p < length evs)%nat) by (apply nth_error_Some; congruence).
  assert (Hlq : (q < length evs)%nat) by (apply nth_error_Some; congruence).
  destruct (run_split st _ _ _ p Hrun Hlp) as (sp & e & sp' & l2 & A & B & C & D & F & G).
  rewrite Hp in B. injection B as <-.
  destruct (run_split st _ _ _ q Hrun Hlq) as (sq & e' & sq' & l3 & A' & B' & C' & D' & F' & G').
  rewrite Hq in B'. injection B' as <-.
  destruct (full_run evs s0 l HF Hrun p sp A) as [HFp _].
  destruct (full_run evs s0 l HF Hrun q sq A') as [HFq _].
  destruct (begin_after_floor sp j t m sp' (proj1 HFp) (proj2 HFp) C) as (_ & Ft & _).
  destruct (begin_after_floor sq j u m' sq' (proj1 HFq) (proj2 HFq) C') as (Fu & _ & _).
  (* sq is reached from sp': its floor is at least t *)
  assert (Hmono : tle (floor (sp' j)) (floor (sq j)) = true).
  { destruct (full_run (skipn (S p) evs) sp' l2 (full_step _ _ _ HFp C) F (q - S p) sq) as [_ M]; [|apply M].
    subst l2. rewrite (nth_shift s0 sp' l p q D Hpq). exact A'. }
  rewrite Ft in Hmono. eapply tle_tlt_trans'; eauto.
Qed.

(* ---- the initial state ---- *)
Hypothesis init_kx : forall j k d, In (k,d) (indel st j) ->
  tlt ((-1) :: repeat 0 (depth st j - 1)) (act (repeat 0 (depth st k)) d) = true.
Hypothesis init_nodup : forall i, NoDup (init_nexts st i).

Lemma minus_one_below n c : (1 <= n)%nat -> length c = n -> tle (repeat 0 n) c = true -> tlt ((-1) :: repeat 0 (n - 1)) c = true.
Proof.
  intros Hn Hl H. destruct c as [|x c]; [simpl in Hl; lia|]. destruct n as [|n]; [lia|]. simpl in *.
  unfold tle in H. simpl in H. destruct (Z.ltb_spec x 0); [discriminate|].
  destruct (Z.ltb_spec (-1) x); [reflexivity|lia].
Qed.
Theorem init_full : Full (init_state st).
Proof.
  split; [apply good_init; exact OK|].
  split; [|split; [|split]].
  - intros j c Hc. unfold init_state in *; simpl in *. unfold floor; simpl.
    destruct (ok_init_shape st OK j c Hc) as [L T]. apply minus_one_below; [apply (ok_depth st OK)|exact L|exact T].
  - intros j k d Hin. unfold init_state, floor; simpl. apply init_kx. exact Hin.
  - intros j. unfold init_state; simpl. apply init_nodup.
  - intros j. unfold init_state, floor; simpl. rewrite repeat_length. pose proof (ok_depth st OK j). lia.
Qed.

(* C02 for runs from the initial state *)
Theorem strictly_increasing_from_init evs l p q j t m u m' : run st (init_state st) evs = Ok l ->
  (p < q)%nat -> nth_error evs p = Some (EvBegin j t m) -> nth_error evs q = Some (EvBegin j u m') -> tlt t u = true.
Proof. apply strictly_increasing. apply init_full. Qed.
End S.
