(* C03, the event (pushed) half over whole runs: the timed input buffer of a simulator j
   - only loses entries at a BEGIN of j, and then exactly those that are due (kept until the first step at or after the
     due time, delivered by it, gone afterwards),
   - never holds an entry that was due at or before a step of j that has already begun: what a provider pushes after
     BEGIN(j,t) is due after t (C01's guard) - so an entry is delivered by the FIRST step of j at or after its due time,
   - numbers its entries uniquely, so that an entry delivered once never comes back. *)
From Coq Require Import ZArith List Bool Arith Lia.
Import ListNotations.
From MV Require Import Time.Spec Time.Ord Static.Build Sched.Timing Sched.Inv Sched.Init Sched.Wle Sched.Main Sched.Guards Sched.Final
  Sched.Plane Sched.DataP Sched.PruneRun Sched.Later Sched.PullRun.
Open Scope Z_scope.

Section E.
Variable st : static.
Variable dt : dstatic.
Hypothesis OK : static_ok st.

Local Arguments apply : simpl never.
Local Arguments get_input_data : simpl never.
Local Arguments put_outputs : simpl never.

(* ---- what put_outputs does to the buffers ---- *)
Definition pushed_by (i:nat) (ot:Z) (data:odata) (j:nat) (e:bufentry) : Prop :=
  bsrc e = i /\ exists sa dests sh da v, In (sa, dests) (pushes dt i) /\ In (j, sh, da) dests /\ aget sa data = Some v /\
    btime e = ot + sh /\ battr e = da /\ bval e = v.

Definition BufLe (ds ds':dstate) : Prop :=
  forall j, (bcount (ds j) <= bcount (ds' j))%nat /\ (forall e, In e (buffer (ds j)) -> In e (buffer (ds' j))).
Lemma bufle_refl ds : BufLe ds ds. Proof. intros j; split; auto. Qed.
Lemma bufle_trans a b c : BufLe a b -> BufLe b c -> BufLe a c.
Proof. intros H1 H2 j. destruct (H1 j), (H2 j). split; [lia|auto]. Qed.

Lemma push_one_spec i ot v ds dd : let '(dest, sh, da) := dd in
  BufLe ds (push_one i ot v ds dd) /\
  (forall j e, In e (buffer (push_one i ot v ds dd j)) -> In e (buffer (ds j)) \/
     (j = dest /\ e = mkB (ot + sh) (bcount (ds dest)) i da v)) /\
  (forall j, bcount (push_one i ot v ds dd j) = if Nat.eqb j dest then S (bcount (ds j)) else bcount (ds j)).
Proof.
  destruct dd as [[dest sh] da]. unfold push_one. repeat split.
  - unfold dupd. destruct (Nat.eqb_spec j dest) as [->|]; simpl; lia.
  - intros e He. unfold dupd. destruct (Nat.eqb_spec j dest) as [->|]; simpl; auto.
  - intros j e He. unfold dupd in He. destruct (Nat.eqb_spec j dest) as [->|]; simpl in He; auto.
    destruct He as [<-|He]; auto.
  - intros j. unfold dupd. destruct (Nat.eqb_spec j dest) as [->|]; reflexivity.
Qed.

(* entries are numbered below the counter *)
Definition Ctr (ds:dstate) : Prop := forall j e, In e (buffer (ds j)) -> (bctr e < bcount (ds j))%nat.

Lemma push_fold_spec i ot v sa data dests0 : In (sa, dests0) (pushes dt i) -> aget sa data = Some v ->
  forall dests ds, (forall x, In x dests -> In x dests0) -> Ctr ds ->
  let ds' := fold_left (push_one i ot v) dests ds in
  BufLe ds ds' /\ Ctr ds' /\
  (forall j e, In e (buffer (ds' j)) -> In e (buffer (ds j)) \/ (pushed_by i ot data j e /\ (bcount (ds j) <= bctr e)%nat)).
Proof.
  intros Hp Hv. induction dests as [|dd dests IH]; intros ds Hsub HC; simpl.
  - split; [apply bufle_refl|]. split; [exact HC|]. auto.
  - pose proof (push_one_spec i ot v ds dd) as S1. destruct dd as [[dest sh] da]. destruct S1 as (L1 & N1 & C1).
    assert (HC1 : Ctr (push_one i ot v ds (dest, sh, da))).
    { intros j e He. rewrite C1. destruct (N1 j e He) as [Hold|[-> ->]].
      - specialize (HC j e Hold). destruct (Nat.eqb j dest); lia.
      - rewrite Nat.eqb_refl. simpl. lia. }
    destruct (IH (push_one i ot v ds (dest, sh, da)) (fun x Hx => Hsub x (or_intror Hx)) HC1) as (L2 & C2 & N2).
    split; [eapply bufle_trans; eauto|]. split; [exact C2|].
    intros j e He. destruct (N2 j e He) as [Hmid|[Hp2 Hc2]].
    + destruct (N1 j e Hmid) as [Hold|[-> ->]]; [left; exact Hold|right]. split; [|simpl; lia].
      split; [reflexivity|]. exists sa, dests0, sh, da, v. repeat split; auto. apply Hsub. left. reflexivity.
    + right. split; [exact Hp2|]. destruct (L1 j) as [Hle _]. lia.
Qed.

Lemma push_ports_spec i ot data : forall ps ds, (forall x, In x ps -> In x (pushes dt i)) -> Ctr ds ->
  let ds' := fold_left (push_port i ot data) ps ds in
  BufLe ds ds' /\ Ctr ds' /\
  (forall j e, In e (buffer (ds' j)) -> In e (buffer (ds j)) \/ (pushed_by i ot data j e /\ (bcount (ds j) <= bctr e)%nat)).
Proof.
  induction ps as [|[sa dests] ps IH]; intros ds Hsub HC; simpl.
  - split; [apply bufle_refl|]. split; [exact HC|]. auto.
  - assert (S1 : let d1 := push_port i ot data ds (sa, dests) in BufLe ds d1 /\ Ctr d1 /\
       (forall j e, In e (buffer (d1 j)) -> In e (buffer (ds j)) \/ (pushed_by i ot data j e /\ (bcount (ds j) <= bctr e)%nat))).
    { unfold push_port. destruct (aget sa data) as [v|] eqn:Ev.
      - apply (push_fold_spec i ot v sa data dests (Hsub _ (or_introl eq_refl)) Ev dests ds (fun x H => H) HC).
      - split; [apply bufle_refl|]. split; [exact HC|]. auto. }
    destruct S1 as (L1 & C1 & N1).
    destruct (IH _ (fun x Hx => Hsub x (or_intror Hx)) C1) as (L2 & C2 & N2).
    split; [eapply bufle_trans; eauto|]. split; [exact C2|].
    intros j e He. destruct (N2 j e He) as [Hmid|[Hp2 Hc2]].
    + destruct (N1 j e Hmid) as [Hold|Hnew]; auto.
    + right. split; [exact Hp2|]. destruct (L1 j) as [Hle _]. lia.
Qed.

Lemma put_outputs_buffers ds i ot data : Ctr ds ->
  let ds' := put_outputs dt ds i ot data in
  BufLe ds ds' /\ Ctr ds' /\
  (forall j e, In e (buffer (ds' j)) -> In e (buffer (ds j)) \/ (pushed_by i ot data j e /\ (bcount (ds j) <= bctr e)%nat)).
Proof.
  intros HC. rewrite put_outputs_eq.
  set (d0 := if d_cache dt then dupd ds i _ else ds).
  assert (E0 : forall j, buffer (d0 j) = buffer (ds j) /\ bcount (d0 j) = bcount (ds j)).
  { intros j. unfold d0. destruct (d_cache dt); [|auto]. unfold dupd. destruct (Nat.eqb_spec j i) as [->|]; simpl; auto. }
  assert (C0 : Ctr d0) by (intros j e He; destruct (E0 j) as [A B]; rewrite A in He; rewrite B; apply HC; exact He).
  destruct (push_ports_spec i ot data (pushes dt i) d0 (fun x H => H) C0) as (L & C & N).
  split; [|split; [exact C|]].
  - intros j. destruct (L j) as [A B]. destruct (E0 j) as [E1 E2]. rewrite <- E2. split; [exact A|]. intros e He. apply B. rewrite E1. exact He.
  - intros j e He. destruct (E0 j) as [E1 E2]. rewrite <- E1, <- E2. apply N. exact He.
Qed.

(* ---- one event ---- *)
(* the buffers after one event, in terms of the buffers before *)
Lemma buffers_step s ds e s' ds' inp : Ctr ds -> dapply_gen false st dt (s, ds) e = DOk s' ds' inp ->
  Ctr ds' /\
  (forall j, (bcount (ds j) <= bcount (ds' j))%nat) /\
  (forall j x, In x (buffer (ds j)) -> In x (buffer (ds' j)) \/ exists t m, e = DBegin j t m /\ btime x <= thd t) /\
  (forall j x, In x (buffer (ds' j)) -> In x (buffer (ds j)) \/
      exists i ot ports data, e = DData i ot ports data /\ pushed_by i ot data j x /\ (bcount (ds j) <= bctr x)%nat) /\
  (forall j t m x, e = DBegin j t m -> In x (buffer (ds' j)) -> thd t < btime x).
Proof.
  intros HC. destruct e as [e|i t m|i ot ports data|i w k a v]; unfold dapply_gen; intros H.
  - assert (ds' = ds).
    { destruct e; try (destruct (apply st s _) as [s1|]; [injection H as _ <- _; reflexivity|discriminate]).
      destruct (apply st s _) as [s1|]; [|discriminate]. injection H as _ <- _. destruct (pc (s1 i)); reflexivity. }
    subst ds'. repeat split; auto; intros; discriminate.
  - destruct (apply st s _) as [s1|]; [|discriminate]. destruct (get_input_data dt ds i (thd t)) as [inp0 ds0] eqn:G. injection H as _ <- _.
    destruct (buffer_split dt ds i (thd t) inp0 ds0 G) as [B1 _].
    assert (F : forall j, j <> i -> ds0 j = ds j) by (intros j Hj; eapply get_input_data_frame; eauto).
    assert (Bc : bcount (ds0 i) = bcount (ds i)).
    { unfold get_input_data in G. injection G as _ <-. unfold dupd. rewrite Nat.eqb_refl. reflexivity. }
    repeat split.
    + intros j x Hx. destruct (Nat.eq_dec j i) as [->|Hj]; [rewrite Bc; apply HC; apply B1; exact Hx|rewrite (F j Hj) in *; apply HC; exact Hx].
    + intros j. destruct (Nat.eq_dec j i) as [->|Hj]; [rewrite Bc; lia|rewrite (F j Hj); lia].
    + intros j x Hx. destruct (Nat.eq_dec j i) as [->|Hj]; [|rewrite (F j Hj); left; exact Hx].
      destruct (Z_lt_le_dec (thd t) (btime x)) as [Hl|Hl]; [left; apply B1; auto|right; exists t, m; auto].
    + intros j x Hx. left. destruct (Nat.eq_dec j i) as [->|Hj]; [apply B1; exact Hx|rewrite (F j Hj) in Hx; exact Hx].
    + intros j t0 m0 x E Hx. injection E as -> -> ->. apply B1. exact Hx.
  - destruct (apply st s _) as [s1|]; [|discriminate]. injection H as _ <- _.
    destruct (put_outputs_buffers ds i ot data HC) as (L & C & N). repeat split.
    + exact C.
    + intros j. apply L.
    + intros j x Hx. left. apply L. exact Hx.
    + intros j x Hx. destruct (N j x Hx) as [Hold|[Hp Hc]]; [left; exact Hold|right]. exists i, ot, ports, data. auto.
    + intros; discriminate.
  - destruct (existsb _ _); [|discriminate]. injection H as _ <- _.
    assert (E0 : forall j, buffer (dupd ds k (mkD (outputs (ds k)) (buffer (ds k)) (bcount (ds k)) (persist (ds k)) (iset a (w * nsims st + i) (Some v) (setdata (ds k)))) j) = buffer (ds j) /\
                           bcount (dupd ds k (mkD (outputs (ds k)) (buffer (ds k)) (bcount (ds k)) (persist (ds k)) (iset a (w * nsims st + i) (Some v) (setdata (ds k)))) j) = bcount (ds j)).
    { intros j. unfold dupd. destruct (Nat.eqb_spec j k) as [->|]; simpl; auto. }
    repeat split.
    + intros j x Hx. destruct (E0 j) as [A B]. rewrite A in Hx. rewrite B. apply HC. exact Hx.
    + intros j. destruct (E0 j) as [_ B]. rewrite B. lia.
    + intros j x Hx. left. destruct (E0 j) as [A _]. rewrite A. exact Hx.
    + intros j x Hx. left. destruct (E0 j) as [A _]. rewrite A in Hx. exact Hx.
    + intros; discriminate.
Qed.

(* ---- whole runs ---- *)
Lemma ctr_init : Ctr (init_dstate dt). Proof. intros j e []. Qed.
Lemma ctr_dfinal evs : forall s ds sf dsf, Ctr ds -> dfinal st dt s ds evs = Some (sf, dsf) -> Ctr dsf.
Proof.
  induction evs as [|e r IH]; intros s ds sf dsf HC H; cbn [dfinal] in H; [injection H as _ <-; exact HC|].
  destruct (dapply_gen false st dt (s, ds) e) as [s' ds' inp| |] eqn:E; try discriminate.
  eapply IH; [|exact H]. apply (buffers_step _ _ _ _ _ _ HC E).
Qed.

(* no loss: an entry stays in the buffer as long as no step of its simulator begins at or after its due time *)
Theorem event_kept evs : forall s ds sf dsf j x, Ctr ds -> dfinal st dt s ds evs = Some (sf, dsf) -> In x (buffer (ds j)) ->
  (forall t m, In (DBegin j t m) evs -> thd t < btime x) -> In x (buffer (dsf j)).
Proof.
  induction evs as [|e r IH]; intros s ds sf dsf j x HC H Hx Hb; cbn [dfinal] in H; [injection H as _ <-; exact Hx|].
  destruct (dapply_gen false st dt (s, ds) e) as [s' ds' inp| |] eqn:E; try discriminate.
  destruct (buffers_step _ _ _ _ _ _ HC E) as (C' & _ & Keep & _ & _).
  apply (IH s' ds' sf dsf j x C' H); [|intros t m Hin; apply (Hb t m); right; exact Hin].
  destruct (Keep j x Hx) as [Hk|(t & m & -> & Hle)]; [exact Hk|]. specialize (Hb t m (or_introl eq_refl)). lia.
Qed.

(* no duplication: the step that finds the entry due receives it, and the entry never reappears afterwards *)
Theorem event_delivered s ds j t m s' ds' inp x : dapply_gen false st dt (s, ds) (DBegin j t m) = DOk s' ds' inp ->
  In x (buffer (ds j)) -> btime x <= thd t ->
  In x (sort_b (filter (fun e => btime e <=? thd t) (buffer (ds j)))) /\ ~ In x (buffer (ds' j)).
Proof.
  unfold dapply_gen. intros H Hx Hle. destruct (apply st s _) as [s1|]; [|discriminate].
  destruct (get_input_data dt ds j (thd t)) as [inp0 ds0] eqn:G. injection H as _ <- _.
  destruct (buffer_split dt ds j (thd t) inp0 ds0 G) as [B1 B2]. split; [apply B2; auto|]. intros Hin. apply B1 in Hin. lia.
Qed.
Theorem event_gone evs : forall s ds sf dsf j x, Ctr ds -> dfinal st dt s ds evs = Some (sf, dsf) ->
  ~ In x (buffer (ds j)) -> (bctr x < bcount (ds j))%nat -> ~ In x (buffer (dsf j)).
Proof.
  induction evs as [|e r IH]; intros s ds sf dsf j x HC H Hx Hc; cbn [dfinal] in H; [injection H as _ <-; exact Hx|].
  destruct (dapply_gen false st dt (s, ds) e) as [s' ds' inp| |] eqn:E; try discriminate.
  destruct (buffers_step _ _ _ _ _ _ HC E) as (C' & Cnt & _ & New & _).
  apply (IH s' ds' sf dsf j x C' H); [|specialize (Cnt j); lia].
  intros Hin. destruct (New j x Hin) as [Hold|(i & ot & ports & data & _ & _ & Hge)]; [exact (Hx Hold)|lia].
Qed.

(* the connection of the push tables with the timing tables (as pull_strict for pulled data) *)
Definition push_strict : Prop := forall k sa dests j sh da, (k < nsims st)%nat ->
  In (sa, dests) (pushes dt k) -> In (j, sh, da) dests ->
  exists d, In (k, d) (indel st j) /\
    forall t o, length t = depth st j -> length o = depth st k -> tlt t (act o d) = true -> thd t < thd o + sh.
Definition push_strictb : bool :=
  forallb (fun k => forallb (fun p : attr * list (nat * Z * attr) => forallb (fun dd : nat * Z * attr =>
      let '(j, sh, _) := dd in
      Nat.eqb (depth st j) 1 && Nat.eqb (depth st k) 1 &&
      existsb (fun kd : nat * interval => Nat.eqb (fst kd) k && Nat.eqb (icut (snd kd)) 1 &&
                 match itiers (snd kd) with [x] => x <=? sh | _ => false end) (indel st j)) (snd p)) (pushes dt k)) (seq 0 (nsims st)).
Lemma push_strictb_sound : push_strictb = true -> push_strict.
Proof.
  intros H k sa dests j sh da Hk Hp Hd. unfold push_strictb in H. rewrite forallb_forall in H.
  specialize (H k (proj2 (in_seq _ _ _) (conj (Nat.le_0_l _) Hk))). rewrite forallb_forall in H. specialize (H _ Hp). simpl in H.
  rewrite forallb_forall in H. specialize (H _ Hd). cbv beta iota in H.
  apply andb_true_iff in H as [H He]. apply andb_true_iff in H as [Dj Dk]. apply Nat.eqb_eq in Dj, Dk.
  apply existsb_exists in He as ([k' d] & Hin & Hc). simpl in Hc.
  apply andb_true_iff in Hc as [Hc Ht]. apply andb_true_iff in Hc as [Hc Hcut]. apply Nat.eqb_eq in Hc, Hcut. subst k'.
  exists d. split; [exact Hin|]. intros t o Lt Lo T. rewrite Dj in Lt. rewrite Dk in Lo.
  destruct (itiers d) as [|x [|x2 r]] eqn:Ei; try discriminate. apply Z.leb_le in Ht.
  destruct t as [|a [|a2 t']]; try discriminate. destruct o as [|b [|b2 o']]; try discriminate.
  unfold act in T. rewrite Hcut, Ei in T. simpl in T.
  destruct (a <? b + x) eqn:E1; [apply Z.ltb_lt in E1; simpl; lia|].
  destruct (b + x <? a); discriminate.
Qed.

Definition in_range (evs:list devent) : Prop := forall i ot ports data, In (DData i ot ports data) evs -> (i < nsims st)%nat.

(* after BEGIN(j,t): no entry that is or becomes buffered for j is due at or before t *)
Section After.
Variables (s0:state) (j:nat) (t:time) (m:Z) (s1:state).
Hypothesis G0 : Good st s0.
Hypothesis Hb : apply st s0 (EvBegin j t m) = Ok s1.
Hypothesis PS : push_strict.

Lemma no_overdue_suffix evs : forall s ds sf dsf, K st s1 s -> Ctr ds -> in_range evs ->
  (forall x, In x (buffer (ds j)) -> thd t < btime x) ->
  dfinal st dt s ds evs = Some (sf, dsf) -> forall x, In x (buffer (dsf j)) -> thd t < btime x.
Proof.
  induction evs as [|e r IH]; intros s ds sf dsf HK HC HR Hall H; cbn [dfinal] in H; [injection H as _ <-; exact Hall|].
  destruct (dapply_gen false st dt (s, ds) e) as [s' ds' inp| |] eqn:E; try discriminate.
  destruct (buffers_step _ _ _ _ _ _ HC E) as (C' & _ & _ & New & _).
  apply (IH s' ds' sf dsf (K_step st dt OK _ _ _ _ _ _ _ HK E) C' (fun i ot p d Hin => HR i ot p d (or_intror Hin))); [|exact H].
  intros x Hx. destruct (New j x Hx) as [Hold|(i & ot & ports & data & -> & Hp & _)]; [apply Hall; exact Hold|].
  destruct Hp as (_ & sa & dests & sh & da & v & Hps & Hd & _ & Hbt & _).
  pose proof (HR i ot ports data (or_introl eq_refl)) as Hi.
  destruct (PS i sa dests j sh da Hi Hps Hd) as (d & Hind & Hstrict).
  pose proof (dapply_timing st dt _ _ _ _ _ _ E) as Ha. simpl in Ha. destruct HK as [Gs Ms].
  destruct (later_out_core st OK s0 j t m s1 s G0 Hb Gs Ms i ot ports s' Ha d Hind) as (c & _ & Lc & T).
  pose proof (Hstrict t (out_time st i c ot) (length_begin st s0 j t m s1 G0 Hb) (length_out_time st OK i c ot Lc) T) as B.
  rewrite thd_out_time in B. lia.
Qed.
End After.

(* over a run from the initial state: after BEGIN(j,t) the buffer of j never holds an entry due at or before t, so
   what the next step of j is given was due after t - every event is delivered by the first step at or after its due time *)
Theorem no_event_overdue : push_strict ->
  forall pre j t m post sp dsp s1 ds1 inp sf dsf, in_range post ->
  dfinal st dt (init_state st) (init_dstate dt) pre = Some (sp, dsp) ->
  dapply_gen false st dt (sp, dsp) (DBegin j t m) = DOk s1 ds1 inp ->
  dfinal st dt s1 ds1 post = Some (sf, dsf) ->
  forall x, In x (buffer (dsf j)) -> thd t < btime x.
Proof.
  intros PS pre j t m post sp dsp s1 ds1 inp sf dsf HR Hpre Hb Hpost.
  assert (G0 : Good st (init_state st)) by (apply (reached_good st OK); exists [], []; split; reflexivity).
  pose proof (good_dfinal st dt OK pre _ _ _ _ G0 Hpre) as Gp.
  pose proof (ctr_dfinal pre _ _ _ _ ctr_init Hpre) as Cp.
  pose proof (dapply_timing st dt _ _ _ _ _ _ Hb) as Ha. simpl in Ha.
  destruct (buffers_step _ _ _ _ _ _ Cp Hb) as (C1 & _ & _ & _ & Fresh).
  apply (no_overdue_suffix sp j t m s1 Gp Ha PS post s1 ds1 sf dsf (conj (good_step st OK _ _ _ Gp Ha) (prog_le_refl s1)) C1 HR); [|exact Hpost].
  intros x Hx. apply (Fresh j t m x eq_refl Hx).
Qed.
End E.
