(* The view of SimRunner objects through which the generated progress formulas (Gen/SchedulerFns.v, translated from
   mosaik/scheduler.py by harness/py2coq_sched.py) are stated.  Hand-written prelude; what is trusted here:
   - next_steps is a heapq heap, so next_steps[0] is its smallest element (heap0 = tmin) and the heap is falsy iff empty;
   - min(list) of TieredTime objects / ints is the least element (tmin / Z.min); the list given to min always ends in a
     fixed last element, so it is never empty;
   - `>` and `>=` on TieredTime are the functools.total_ordering derivations from __lt__ and __eq__ (tgt, tge);
   - a simulator's Progress object is seen as its current value; awaiting asyncio.gather of the futures returns when every awaited
     has_passed / has_reached coroutine has finished, and such a coroutine finishes as soon as _triggered_time is not None
     (asyncio and the wake-ups of Progress.set are not modelled here; their liveness is checked by the quiescence test). *)
From Coq Require Import ZArith List Bool Arith.
Import ListNotations.
From MV Require Import Time.Spec.
Open Scope Z_scope.

Record simview := mkSV { sv_next_steps : list time; sv_current_step : option time }.
Definition heap0 (l : list time) : option time := tmin l.
Definition tmin_ne (l : list time) (d : time) : time := match tmin (l ++ [d]) with Some m => m | None => d end.
Definition zmin_ne (l : list Z) (d : Z) : Z := fold_left Z.min l d.
Definition tgt (a b : time) : bool := negb (tlt a b) && negb (teq a b).     (* total_ordering: a > b  =  not (a < b) and a != b *)
Definition tge (a b : time) : bool := negb (tlt a b).                       (* total_ordering: a >= b  =  not (a < b) *)
Definition zero_interval (n : nat) : interval := mkI n n (repeat 0 n).      (* TieredInterval of n zeros: cutoff and pre_length default to n *)
(* what a simulator's step() returned, as far as scheduler.step looks at it; and what scheduler.step decides *)
Inductive reply := RNone | RInt (v : Z) | ROther.
Inductive step_decision := StepErrType | StepErrNotLater | StepErrMissing | StepOk (self_step : option Z).
(* what one round of next_step_settled's loop ends in *)
Inductive settle := SettleDone | Settled (t : time) | SettleWait (await_time : time).
