(* Data plane of the scheduler on top of the timing core: output cache (a dict in insertion order), timed input
   buffer, persistent input memory, set_data inputs, cache pruning (scheduler.get_input_data, get_outputs,
   prune_dataflow_cache; simmanager.TimedInputBuffer, SimRunner.get_output_for; MosaikRemote.set_data).
   One entity per simulator; attributes and values are opaque tokens.  Executable model, extracted. *)
From Coq Require Import ZArith List Bool Arith.
Import ListNotations.
From MV Require Import Time.Spec Static.Build Sched.Timing.
Open Scope Z_scope.

(* ---------- data plane types ---------- *)
Definition attr := nat.
Definition value := option Z.                      (* None = Python None *)
Definition odata := list (attr * Z).               (* one entity per simulator: attr -> value *)
Definition idata := list (attr * list (nat * value)).   (* dest attr -> src sim -> value *)
Fixpoint aset_z {V} (k:Z) (v:V) (l:list (Z*V)) : list (Z*V) :=
  match l with [] => [(k,v)] | (k',v')::r => if k =? k' then (k,v)::r else (k',v') :: aset_z k v r end.
Definition iset (a:attr) (src:nat) (v:value) (d:idata) : idata :=
  aset a (aset src v (match aget a d with Some m => m | None => [] end)) d.
(* merge_all(target:=t, other:=o) with "target wins" at the leaves *)
Definition merge_all_i (t o : idata) : idata :=
  fold_left (fun t (ad : attr * list (nat*value)) => let (a,m) := ad in
     match aget a t with
     | None => aset a m t
     | Some tm => aset a (fold_left (fun tm (sv:nat*value) => let (s,v) := sv in
                       match aget s tm with None => aset s v tm | Some _ => tm end) m tm) t
     end) o t.
(* merge_existing(target:=p, other:=i) with "other wins" at the leaves, existing keys only *)
Definition merge_existing_i (p i : idata) : idata :=
  map (fun (ad : attr * list (nat*value)) => let (a,m) := ad in
     match aget a i with
     | None => (a,m)
     | Some im => (a, map (fun (sv:nat*value) => let (s,v) := sv in match aget s im with Some v' => (s,v') | None => (s,v) end) m)
     end) p.
Record bufentry := mkB { btime : Z; bctr : nat; bsrc : nat; battr : attr; bval : Z }.
Record dsim := mkD { outputs : list (Z * odata); buffer : list bufentry; bcount : nat; persist : idata; setdata : idata }.
Definition dstate := nat -> dsim.
Definition dupd (s:dstate) (i:nat) (v:dsim) : dstate := fun j => if Nat.eqb j i then v else s j.

Record dstatic := mkDStatic {
  d_cache : bool;
  pulled : nat -> list ((nat * Z) * list (attr * attr));        (* dest sim -> (src sim, int shift) -> (src attr, dest attr) *)
  pushes : nat -> list (attr * list (nat * Z * attr));          (* src sim -> src attr -> (dest sim, int shift, dest attr) *)
  init_outputs : nat -> list (Z * odata);
  init_persist : nat -> idata }.

(* ---------- data plane functions ---------- *)
Definition init_dstate (dt:dstatic) : dstate := fun i => mkD (init_outputs dt i) [] 0%nat (init_persist dt i) [].
(* SimRunner.get_output_for: newest INSERTED entry with data_time <= t *)
Definition get_output_for (outs : list (Z*odata)) (t:Z) : odata :=
  match find (fun e : Z*odata => fst e <=? t) (rev outs) with Some e => snd e | None => [] end.
(* TimedInputBuffer.get_input: pop all entries with time <= step in (time, counter) order *)
Fixpoint insert_b (e:bufentry) (l:list bufentry) : list bufentry :=
  match l with [] => [e] | x::r => if (btime e <? btime x) || ((btime e =? btime x) && Nat.ltb (bctr e) (bctr x)) then e::x::r else x :: insert_b e r end.
Definition sort_b (l:list bufentry) := fold_right insert_b [] l.
Definition get_input_data (dt:dstatic) (ds:dstate) (i:nat) (step:Z) : idata * dstate :=
  let d := ds i in
  let inp := merge_all_i (setdata d) (persist d) in
  let due := sort_b (filter (fun e => btime e <=? step) (buffer d)) in
  let rest := filter (fun e => negb (btime e <=? step)) (buffer d) in
  let inp := fold_left (fun inp e => iset (battr e) (bsrc e) (Some (bval e)) inp) due inp in
  let inp := fold_left (fun inp (g : (nat*Z) * list (attr*attr)) => let '((src,sh),flows) := g in
               let cache := get_output_for (outputs (ds src)) (step - sh) in
               fold_left (fun inp (f:attr*attr) => let (sa,da) := f in iset da src (aget sa cache) inp) flows inp) (pulled dt i) inp in
  let p' := merge_existing_i (persist d) inp in
  (inp, dupd ds i (mkD (outputs d) rest (bcount d) p' [])).
(* scheduler.get_outputs: cache fill + pushes *)
Definition put_outputs (dt:dstatic) (ds:dstate) (i:nat) (ot:Z) (data:odata) : dstate :=
  let d := ds i in
  let ds := if d_cache dt then dupd ds i (mkD (aset_z ot data (outputs d)) (buffer d) (bcount d) (persist d) (setdata d)) else ds in
  fold_left (fun ds (p : attr * list (nat*Z*attr)) => let (sa,dests) := p in
     match aget sa data with
     | None => ds
     | Some v => fold_left (fun ds (dd:nat*Z*attr) => let '(dest,sh,da) := dd in
                   let x := ds dest in
                   dupd ds dest (mkD (outputs x) (mkB (ot+sh) (bcount x) i da v :: buffer x) (S (bcount x)) (persist x) (setdata x))) dests ds
     end) (pushes dt i) ds.
(* scheduler.prune_dataflow_cache: threshold = oldest last step minus the largest pulled time shift; per
   simulator the newest entry at or before the threshold is kept as well *)
Definition max_shift (st:static) (dt:dstatic) : Z :=
  fold_left Z.max (flat_map (fun i => map (fun g : (nat*Z) * list (attr*attr) => snd (fst g)) (pulled dt i)) (seq 0 (nsims st))) 0.
Definition min_last (st:static) (s:nat -> sim) : Z :=
  match map (fun i => thd (last (s i))) (seq 0 (nsims st)) with
  | [] => 0 | x :: r => fold_left Z.min r x end.
Definition prune (st:static) (dt:dstatic) (s:nat -> sim) (ds:dstate) : dstate :=
  if negb (d_cache dt) then ds else
  let thr := min_last st s - max_shift st dt in
  fun i => let d := ds i in
    match outputs d with
    | [] => d
    | _ => let older := filter (fun t => t <=? thr) (map fst (outputs d)) in
           let keep_from := match older with [] => thr | x :: r => fold_left Z.max r x end in
           mkD (filter (fun e : Z*odata => keep_from <=? fst e) (outputs d)) (buffer d) (bcount d) (persist d) (setdata d)
    end.

(* ---------- combined semantics ---------- *)
Inductive devent :=
| DEv (e:event)
| DBegin (i:nat) (t:time) (m:Z)
| DData (i:nat) (ot:Z) (ports:list nat) (data:odata)
| DSetData (i:nat) (w:nat) (j:nat) (a:attr) (v:Z).     (* entity w of simulator i, during i's step, writes v to attribute a of simulator j *)
Inductive dres := DOk (s : state) (ds : dstate) (inp : option idata) | DErr (e : err) | DAsyncRefused (i j : nat).
Definition dapply (st:static) (dt:dstatic) (sd : state * dstate) (e:devent) : dres :=
  let (s,ds) := sd in
  match e with
  | DBegin i t m =>
      match apply st s (EvBegin i t m) with
      | Ok s' => let (inp, ds') := get_input_data dt ds i (thd t) in DOk s' ds' (Some inp)
      | Err er => DErr er end
  | DData i ot ports data =>
      let ds1 := put_outputs dt ds i ot data in
      match apply st s (EvData i ot ports) with
      | Ok s' => DOk s' (prune st dt s' ds1) None
      | Err er => DErr er end
  | DEv (EvStep i nxt) =>
      match apply st s (EvStep i nxt) with
      | Ok s' => DOk s' (match pc (s' i) with InData => ds | _ => prune st dt s' ds end) None
      | Err er => DErr er end
  | DEv e' =>
      match apply st s e' with Ok s' => DOk s' ds None | Err er => DErr er end
  | DSetData i w j a v =>
      (* MosaikRemote._assert_async_requests: i must be an async-requests successor of j *)
      if existsb (fun jd : nat*interval => Nat.eqb (fst jd) i) (succ_wait st j) then
        let x := ds j in DOk s (dupd ds j (mkD (outputs x) (buffer x) (bcount x) (persist x) (iset a (w * nsims st + i) (Some v) (setdata x)))) None
      else DAsyncRefused i j
  end.
