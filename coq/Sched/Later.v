(* C01 / C03: what a provider produces after its consumer has begun a step is never due at or before that step.
   After BEGIN(j, t), for every provider k of j (delay d, the minimum over the connections k -> j) and every later state of
   the run: every queued or in-flight step c of k satisfies t < act c d, and every output k delivers from then on
   (output time ot of its step c, ot >= the step's time) satisfies t < act ott d for the tiered output time ott.
   Hence the value a cache lookup finds at the BEGIN is the most recent one that will ever be due at or before t. *)
From Coq Require Import ZArith List Bool Arith Lia.
Import ListNotations.
From MV Require Import Time.Spec Time.Ord Sched.Timing Sched.Inv Sched.Init Sched.Wle Sched.Main Sched.Guards Sched.Final.
Open Scope Z_scope.

Section L.
Variable st : static.
Hypothesis OK : static_ok st.

Lemma tlt_tle_trans' a b c : tlt a b = true -> tle b c = true -> tlt a c = true.
Proof. apply tlt_tle_trans. Qed.

(* core: stated for any later state sr that is good and whose progress is at least that of the state after the BEGIN *)
Lemma later_core s j t m s' sr : Good st s -> apply st s (EvBegin j t m) = Ok s' -> Good st sr -> prog_le s' sr ->
  forall k d c, In (k, d) (indel st j) -> In c (cands (sr k)) -> tlt t (act c d) = true.
Proof.
  intros G Hb Gr M1 k d c Hd Hc.
  pose proof (input_guard st s j t m s' G Hb k d Hd) as G0.
  assert (M0 : prog_le s s').
  { destruct G as [I _]. eapply (apply_prog_mono st (ok_depth st OK) (ok_trig_shape st OK) (ok_anc_shape st OK) (ok_dist_edge st OK) (ok_dist_tri st OK)); eauto. }
  pose proof (prog_le_trans _ _ _ M0 M1 k) as Mk.
  destruct Gr as ([[HSr HLr] _] & _ & _). destruct (HLr k) as (_ & Bk & _). specialize (Bk c Hc).
  destruct G as ([[HS0 _] _] & _ & _).
  assert (L1 : length (prog (s k)) = length c) by (rewrite (proj1 (HS0 k)); symmetry; apply (HSr k); exact Hc).
  eapply tlt_tle_trans'; [exact G0|]. apply act_mono; [exact L1|]. eapply tle_trans; [exact Mk|exact Bk].
Qed.
Lemma prog_le_step s e s' : Good st s -> apply st s e = Ok s' -> prog_le s s'.
Proof.
  intros G H. destruct G as [I _]. eapply (apply_prog_mono st (ok_depth st OK) (ok_trig_shape st OK) (ok_anc_shape st OK) (ok_dist_edge st OK) (ok_dist_tri st OK)); eauto.
Qed.

Theorem later_candidates_good s j t m s' : Good st s -> apply st s (EvBegin j t m) = Ok s' ->
  forall evs l, run st s' evs = Ok l ->
  forall sr, In sr (s' :: l) ->
  forall k d c, In (k, d) (indel st j) -> In c (cands (sr k)) -> tlt t (act c d) = true.
Proof.
  intros G Hb evs l Hrun sr Hsr.
  pose proof (good_step st OK _ _ _ G Hb) as G'.
  assert (Gr : Good st sr) by (destruct Hsr as [<-|Hin]; [exact G'|eapply good_run; eauto]).
  assert (M1 : prog_le s' sr).
  { destruct Hsr as [<-|Hin]; [apply prog_le_refl|]. destruct G' as (I' & W' & _). eapply (progress_monotone st OK evs); eauto. }
  exact (later_core s j t m s' sr G Hb Gr M1).
Qed.

Theorem later_candidates_are_later s j t m s' : reached st s -> apply st s (EvBegin j t m) = Ok s' ->
  forall evs l, run st s' evs = Ok l ->
  forall sr, In sr (s' :: l) ->
  forall k d c, In (k, d) (indel st j) -> In c (cands (sr k)) -> tlt t (act c d) = true.
Proof. intros R. apply later_candidates_good. apply reached_good; assumption. Qed.

(* the tiered output time of a DATA event, as notify_dependencies computes it *)
Definition out_time (i:nat) (c:time) (ot:Z) : time := if ot =? thd c then c else world_time st i ot.

Lemma later_out_core s j t m s' sr : Good st s -> apply st s (EvBegin j t m) = Ok s' -> Good st sr -> prog_le s' sr ->
  forall k ot ports sr', apply st sr (EvData k ot ports) = Ok sr' ->
  forall d, In (k, d) (indel st j) ->
  exists c, cur (sr k) = Some c /\ length c = depth st k /\ tlt t (act (out_time k c ot) d) = true.
Proof.
  intros G Hb Gr M1 k ot ports sr' Ha d Hd.
  simpl in Ha. destruct (pc (sr k)) eqn:Epc; try discriminate. destruct (cur (sr k)) as [c|] eqn:Ec; try discriminate.
  destruct (ot <? thd (last (sr k))) eqn:Eo; [discriminate|]. apply Z.ltb_ge in Eo.
  exists c. split; [reflexivity|].
  assert (Hc : In c (cands (sr k))) by (unfold cands; rewrite Ec; left; reflexivity).
  pose proof (later_core s j t m s' sr G Hb Gr M1 k d c Hd Hc) as T.
  destruct Gr as ([[HSr _] HID] & _ & _). rewrite (HID k c Epc Ec) in Eo.
  assert (Lc : length c = depth st k) by (apply (HSr k); exact Hc).
  split; [exact Lc|].
  unfold out_time. destruct (ot =? thd c) eqn:Eq; [exact T|]. apply Z.eqb_neq in Eq.
  eapply tlt_tle_trans'; [exact T|]. apply act_mono; [rewrite Lc; symmetry; apply length_world; apply (ok_depth st OK)|].
  apply world_time_gt; [apply (ok_depth st OK)|exact Lc|lia].
Qed.
Theorem later_outputs_good s j t m s' : Good st s -> apply st s (EvBegin j t m) = Ok s' ->
  forall evs l, run st s' evs = Ok l ->
  forall sr k ot ports sr', In sr (s' :: l) -> apply st sr (EvData k ot ports) = Ok sr' ->
  forall d, In (k, d) (indel st j) ->
  exists c, cur (sr k) = Some c /\ tlt t (act (out_time k c ot) d) = true.
Proof.
  intros G Hb evs l Hrun sr k ot ports sr' Hsr Ha d Hd.
  pose proof (good_step st OK _ _ _ G Hb) as G'.
  assert (Gr : Good st sr) by (destruct Hsr as [<-|Hin]; [exact G'|eapply good_run; eauto]).
  assert (M1 : prog_le s' sr).
  { destruct Hsr as [<-|Hin]; [apply prog_le_refl|]. destruct G' as (I' & W' & _). eapply (progress_monotone st OK evs); eauto. }
  destruct (later_out_core s j t m s' sr G Hb Gr M1 k ot ports sr' Ha d Hd) as (c & A & _ & B). exists c; auto.
Qed.
Theorem later_outputs_are_later s j t m s' : reached st s -> apply st s (EvBegin j t m) = Ok s' ->
  forall evs l, run st s' evs = Ok l ->
  forall r sr k ot ports sr', nth_error evs r = Some (EvData k ot ports) -> nth_error (s' :: l) r = Some sr -> apply st sr (EvData k ot ports) = Ok sr' ->
  forall d, In (k, d) (indel st j) ->
  exists c, cur (sr k) = Some c /\ tlt t (act (out_time k c ot) d) = true.
Proof.
  intros R Hb evs l Hrun r sr k ot ports sr' He Hs Ha d Hd.
  eapply later_outputs_good; eauto. apply reached_good; assumption. eapply nth_error_In; eauto.
Qed.

(* C10 / C16 over whole runs: the lazy-stepping (and the async-requests) bound does not only hold at the BEGIN: once i has
   begun its step at t, a consumer j it feeds never again has an outstanding (queued or in-flight) step before act t d,
   however the run continues - j's progress had reached act t d, progress never goes back, and every outstanding step
   lies at or after its simulator's progress *)
Lemma bound_persists_core (sel : static -> nat -> list (nat * interval)) s i t m s' sr :
  (forall j d, In (j,d) (sel st i) -> tle (act t d) (prog (s j)) = true) ->
  Good st s -> apply st s (EvBegin i t m) = Ok s' -> Good st sr -> prog_le s' sr ->
  forall j d c, In (j,d) (sel st i) -> In c (cands (sr j)) -> tle (act t d) c = true.
Proof.
  intros Hguard G Hb Gr M1 j d c Hj Hc.
  pose proof (prog_le_trans _ _ _ (prog_le_step s _ s' G Hb) M1 j) as Mj.
  destruct Gr as ([[_ HLr] _] & _ & _). destruct (HLr j) as (_ & Bj & _).
  eapply tle_trans; [apply (Hguard j d Hj)|]. eapply tle_trans; [exact Mj|apply Bj; exact Hc].
Qed.
Theorem lazy_bound_persists s i t m s' sr : lazy st = true -> Good st s -> apply st s (EvBegin i t m) = Ok s' ->
  Good st sr -> prog_le s' sr ->
  forall j d c, In (j,d) (succ_lazy st i) -> In c (cands (sr j)) -> tle (act t d) c = true.
Proof.
  intros HL G Hb. apply (bound_persists_core succ_lazy s i t m s'); auto.
  intros j d Hj. destruct (begin_guards st s i t m s' G Hb) as [_ D].
  unfold deps_ok in D. rewrite HL in D. apply andb_true_iff in D as [_ D].
  rewrite forallb_forall in D. exact (D (j,d) Hj).
Qed.
Theorem async_bound_persists s i t m s' sr : Good st s -> apply st s (EvBegin i t m) = Ok s' ->
  Good st sr -> prog_le s' sr ->
  forall j d c, In (j,d) (succ_wait st i) -> In c (cands (sr j)) -> tle (act t d) c = true.
Proof.
  intros G Hb. apply (bound_persists_core succ_wait s i t m s'); auto.
  intros j d Hj. destruct (begin_guards st s i t m s' G Hb) as [_ D].
  unfold deps_ok in D. apply andb_true_iff in D as [D _]. apply andb_true_iff in D as [_ D].
  rewrite forallb_forall in D. exact (D (j,d) Hj).
Qed.
(* along a run *)
Theorem lazy_bound_over_runs s i t m s' : lazy st = true -> reached st s -> apply st s (EvBegin i t m) = Ok s' ->
  forall evs l, run st s' evs = Ok l -> forall sr, In sr (s' :: l) ->
  forall j d c, In (j,d) (succ_lazy st i) -> In c (cands (sr j)) -> tle (act t d) c = true.
Proof.
  intros HL R Hb evs l Hrun sr Hsr.
  pose proof (reached_good st OK s R) as G. pose proof (good_step st OK _ _ _ G Hb) as G'.
  assert (Gr : Good st sr) by (destruct Hsr as [<-|Hin]; [exact G'|eapply good_run; eauto]).
  assert (M1 : prog_le s' sr).
  { destruct Hsr as [<-|Hin]; [apply prog_le_refl|]. destruct G' as (I' & W' & _). eapply (progress_monotone st OK evs); eauto. }
  exact (lazy_bound_persists s i t m s' sr HL G Hb Gr M1).
Qed.
Theorem async_bound_over_runs s i t m s' : reached st s -> apply st s (EvBegin i t m) = Ok s' ->
  forall evs l, run st s' evs = Ok l -> forall sr, In sr (s' :: l) ->
  forall j d c, In (j,d) (succ_wait st i) -> In c (cands (sr j)) -> tle (act t d) c = true.
Proof.
  intros R Hb evs l Hrun sr Hsr.
  pose proof (reached_good st OK s R) as G. pose proof (good_step st OK _ _ _ G Hb) as G'.
  assert (Gr : Good st sr) by (destruct Hsr as [<-|Hin]; [exact G'|eapply good_run; eauto]).
  assert (M1 : prog_le s' sr).
  { destruct Hsr as [<-|Hin]; [apply prog_le_refl|]. destruct G' as (I' & W' & _). eapply (progress_monotone st OK evs); eauto. }
  exact (async_bound_persists s i t m s' sr G Hb Gr M1).
Qed.
End L.
