(* The invariants hold in the initial state of every scenario whose initial steps are not negative. *)
From Coq Require Import ZArith List Bool Arith Lia.
Import ListNotations.
From MV Require Import Time.Spec Time.Ord Sched.Timing Sched.Inv.
Open Scope Z_scope.

Section I.
Variable st : static.
Hypothesis Hdepth : forall i, (1 <= depth st i)%nat.
Hypothesis Huntil : 0 <= until st.
Hypothesis init_shape : forall i c, In c (init_nexts st i) ->
  length c = depth st i /\ tle (repeat 0 (depth st i)) c = true.
Hypothesis init_anc : forall i a d c, In (a,d) (anc st i) -> In c (init_nexts st a) ->
  tle (repeat 0 (depth st i)) (act c d) = true.

Lemma tle_zeros_until i : tle (repeat 0 (depth st i)) (until_t st i) = true.
Proof.
  unfold until_t, world_time, tle. specialize (Hdepth i).
  destruct (depth st i) as [|n]; [lia|]. simpl. rewrite Nat.sub_0_r.
  destruct (Z.ltb_spec (until st) 0); [lia|]. simpl.
  destruct (Z.ltb_spec 0 (until st)); [reflexivity|]. simpl.
  rewrite tlt_irrefl. reflexivity.
Qed.

Theorem init_inv : Inv' st (init_state st) /\ WaitIn (init_state st).
Proof.
  split; [split|].
  - split.
    + intros i. unfold init_state; simpl. split; [apply repeat_length|].
      intros c Hc. unfold cands in Hc; simpl in Hc. apply (init_shape i c Hc).
    + intros i. unfold init_state; simpl. split; [apply tle_zeros_until|]. split.
      * intros c Hc. unfold cands in Hc; simpl in Hc. apply (init_shape i c Hc).
      * intros a d c Ha Hc. unfold cands in Hc; simpl in Hc. apply (init_anc i a d c Ha Hc).
  - intros j c H. unfold init_state in H; simpl in H. discriminate.
  - intros j t0 H. unfold init_state in H; simpl in H. discriminate.
Qed.
End I.
