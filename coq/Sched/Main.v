(* The theorems of Sched/Inv.v stated for whole runs from the initial state of a scenario whose static tables
   satisfy [static_ok] (the facts about delays and the ancestors closure that the proofs consume). *)
From Coq Require Import ZArith List Bool Arith Lia.
Import ListNotations.
From MV Require Import Time.Spec Time.Ord Sched.Timing Sched.Inv Sched.Init Sched.Wle.
Open Scope Z_scope.

Record static_ok (st : static) : Prop := {
  ok_depth : forall i, (1 <= depth st i)%nat;
  ok_until : 0 <= until st;
  ok_trig_shape : forall i p dest d c, In (dest,d) (trig st i p) -> length c = depth st i -> length (act c d) = depth st dest;
  ok_anc_shape : forall i a d c, In (a,d) (anc st i) -> length c = depth st a -> length (act c d) = depth st i;
  (* every direct trigger edge is dominated by the ancestors table *)
  ok_dist_edge : forall i p dest d, In (dest,d) (trig st i p) ->
     exists d', In (i,d') (anc st dest) /\ forall c, length c = depth st i -> tle (act c d') (act c d) = true;
  (* triangle inequality of the ancestors table along trigger edges *)
  ok_dist_tri : forall i p b d1 j d2, In (b,d1) (trig st i p) -> In (b,d2) (anc st j) ->
     exists d3, In (i,d3) (anc st j) /\ forall c, length c = depth st i -> tle (act c d3) (act (act c d1) d2) = true;
  ok_init_shape : forall i c, In c (init_nexts st i) -> length c = depth st i /\ tle (repeat 0 (depth st i)) c = true;
  ok_init_anc : forall i a d c, In (a,d) (anc st i) -> In c (init_nexts st a) -> tle (repeat 0 (depth st i)) (act c d) = true }.

Lemma last_in {A} (l : list A) d : l <> [] -> In (List.last l d) l.
Proof.
  intros H. destruct (exists_last H) as (l0 & y & E). rewrite E, last_last. apply in_or_app. right. left. reflexivity.
Qed.

Section M.
Variable st : static.
Hypothesis OK : static_ok st.

Let inv_step := apply_inv st (ok_depth st OK) (ok_trig_shape st OK) (ok_anc_shape st OK) (ok_dist_edge st OK) (ok_dist_tri st OK).

Lemma init_ok : Inv' st (init_state st) /\ WaitIn (init_state st).
Proof. apply init_inv; destruct OK; assumption. Qed.

(* all three invariants together *)
Definition Good (s : state) : Prop := Inv' st s /\ WaitIn s /\ WLe s.
Lemma good_init : Good (init_state st).
Proof. destruct init_ok as [A B]. split; [exact A|]. split; [exact B|apply init_wle]. Qed.
Lemma good_step s e s' : Good s -> apply st s e = Ok s' -> Good s'.
Proof.
  intros (A & B & C) H. split; [eapply inv_step; eauto|]. split; [eapply apply_waitin; eauto|eapply apply_wle; eauto].
Qed.
Lemma good_run evs : forall s l, Good s -> run st s evs = Ok l -> forall s', In s' l -> Good s'.
Proof.
  induction evs as [|e r IH]; intros s l HG H s' Hs'; simpl in H.
  - injection H as <-. destruct Hs'.
  - destruct (apply st s e) as [s1|] eqn:E; [|discriminate].
    destruct (run st s1 r) as [l1|] eqn:E1; [|discriminate]. injection H as <-.
    pose proof (good_step _ _ _ HG E) as G1.
    destruct Hs' as [<-|Hs']; [exact G1|]. eapply IH; eauto.
Qed.
Lemma good_last evs l : run st (init_state st) evs = Ok l -> Good (List.last l (init_state st)).
Proof.
  intros H. destruct l as [|x l']; [apply good_init|]. eapply good_run; [apply good_init|exact H|]. apply last_in. discriminate.
Qed.
(* the step a simulator finally begins is the step whose dependencies it waited for *)
Lemma begin_pops_waited s i t m s' t0 : Good s -> apply st s (EvBegin i t m) = Ok s' -> pc (s i) = WaitDeps t0 -> t0 = t.
Proof.
  intros ([[HS HL] _] & HW & HE) H P. simpl in H. unfold begin_enabled in H. rewrite P in H.
  destruct (deps_ok st s i t0); simpl in H; [|discriminate].
  destruct (tmin (nexts (s i))) as [t'|] eqn:T; [|discriminate].
  destruct (teq t' t) eqn:E1; simpl in H; [|discriminate]. apply teq_eq in E1. subst t'.
  destruct (teq t (prog (s i))) eqn:E2; simpl in H; [|discriminate]. apply teq_eq in E2.
  destruct (HL i) as (_ & Hc & _).
  assert (In t0 (cands (s i))) by (unfold cands; apply in_or_app; right; apply HW; exact P).
  pose proof (Hc t0 H0) as L1. pose proof (HE i t0 P) as L2. rewrite <- E2 in L1, L2. apply tle_antisym; assumption.
Qed.

(* every state along every accepted event sequence satisfies the invariants *)
Lemma run_inv evs : forall s l, Inv' st s -> WaitIn s -> run st s evs = Ok l ->
  forall s', In s' l -> Inv' st s' /\ WaitIn s'.
Proof.
  induction evs as [|e r IH]; intros s l HI HW H s' Hs'; simpl in H.
  - injection H as <-. destruct Hs'.
  - destruct (apply st s e) as [s1|] eqn:E; [|discriminate].
    destruct (run st s1 r) as [l1|] eqn:E1; [|discriminate]. injection H as <-.
    assert (HI1 : Inv' st s1) by (eapply inv_step; eauto).
    assert (HW1 : WaitIn s1) by (eapply apply_waitin; eauto).
    destruct Hs' as [<-|Hs']; [split; assumption|]. eapply IH; eauto.
Qed.

(* C01 in trace form, from the initial state: once a consumer j has begun a step at t, no simulator k feeding it
   (delay d) is ever stepped at a time u whose delayed output time act u d is at or before t *)
Theorem C01_from_init evs l p q j t m k u m' d :
  run st (init_state st) evs = Ok l -> (p < q)%nat ->
  nth_error evs p = Some (EvBegin j t m) -> nth_error evs q = Some (EvBegin k u m') ->
  In (k,d) (indel st j) -> tlt t (act u d) = true.
Proof.
  destruct init_ok as [HI HW].
  eapply (C01_trace st (ok_depth st OK) (ok_trig_shape st OK) (ok_anc_shape st OK) (ok_dist_edge st OK) (ok_dist_tri st OK)); eauto.
Qed.

(* ... and at the moment j begins at t, every step of a provider k that is in flight or queued is due after t:
   whatever was due at or before t has finished (step and output retrieval) *)
Theorem C01_nothing_due_in_flight evs l s s' j t m :
  run st (init_state st) evs = Ok l -> s = List.last l (init_state st) ->
  apply st s (EvBegin j t m) = Ok s' ->
  forall k d c, In (k,d) (indel st j) -> In c (cands (s k)) -> tlt t (act c d) = true.
Proof.
  intros Hrun -> Hb. destruct init_ok as [HI HW].
  assert (H : Inv' st (List.last l (init_state st)) /\ WaitIn (List.last l (init_state st))).
  { destruct l as [|x l']; [simpl; split; assumption|].
    eapply run_inv; eauto. apply last_in. discriminate. }
  destruct H as [HI' HW']. eapply causal_readiness_at_begin; eauto.
Qed.

(* the internal assertion "cannot progress backwards" is unreachable *)
Theorem no_backwards_from_init evs l e i :
  run st (init_state st) evs = Ok l -> apply st (List.last l (init_state st)) e <> Err (EBackwards i).
Proof.
  intros Hrun. destruct init_ok as [HI HW].
  assert (H : Inv' st (List.last l (init_state st))).
  { destruct l as [|x l']; [exact HI|].
    eapply (run_inv evs); eauto. apply last_in. discriminate. }
  apply (no_backwards st (ok_depth st OK) (ok_trig_shape st OK) (ok_anc_shape st OK) (ok_dist_edge st OK) (ok_dist_tri st OK)). exact H.
Qed.

(* progress of every simulator is monotone along every run *)
Theorem progress_monotone evs : forall s l, Inv' st s -> WaitIn s -> run st s evs = Ok l ->
  forall s', In s' l -> prog_le s s'.
Proof.
  induction evs as [|e r IH]; intros s l HI HW H s' Hs'; simpl in H.
  - injection H as <-. destruct Hs'.
  - destruct (apply st s e) as [s1|] eqn:E; [|discriminate].
    destruct (run st s1 r) as [l1|] eqn:E1; [|discriminate]. injection H as <-.
    assert (M : prog_le s s1) by (eapply (apply_prog_mono st (ok_depth st OK) (ok_trig_shape st OK) (ok_anc_shape st OK) (ok_dist_edge st OK) (ok_dist_tri st OK)); eauto).
    destruct Hs' as [<-|Hs']; [exact M|].
    eapply prog_le_trans; [exact M|]. eapply IH; eauto. eapply apply_waitin; eauto.
Qed.
End M.
