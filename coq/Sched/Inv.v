(* The lower-bound invariant of the timing core is preserved by every event of Timing.apply; consequences:
   progress never moves backwards (the "cannot progress backwards" assertion is unreachable), no step in a
   simulator's past, causal readiness at every BEGIN, and C01 in trace form. *)
From Coq Require Import ZArith List Bool Arith Lia.
Import ListNotations.
From MV Require Import Time.Spec Time.Ord Sched.Timing.
Open Scope Z_scope.

Section Inv.
Variable st : static.
Hypothesis Hdepth : forall i, (1 <= depth st i)%nat.
Hypothesis trig_shape : forall i p dest d c, In (dest,d) (trig st i p) -> length c = depth st i -> length (act c d) = depth st dest.
Hypothesis anc_shape : forall i a d c, In (a,d) (anc st i) -> length c = depth st a -> length (act c d) = depth st i.
Hypothesis dist_edge : forall i p dest d, In (dest,d) (trig st i p) ->
   exists d', In (i,d') (anc st dest) /\ forall c, length c = depth st i -> tle (act c d') (act c d) = true.
Hypothesis dist_tri : forall i p b d1 j d2, In (b,d1) (trig st i p) -> In (b,d2) (anc st j) ->
   exists d3, In (i,d3) (anc st j) /\ forall c, length c = depth st i -> tle (act c d3) (act (act c d1) d2) = true.

Definition cands (x:sim) : list time := opt_list (cur x) ++ nexts x.
Definition LB (s:state) (i:nat) (b:time) : Prop :=
  tle b (until_t st i) = true /\
  (forall c, In c (cands (s i)) -> tle b c = true) /\
  (forall a d c, In (a,d) (anc st i) -> In c (cands (s a)) -> tle b (act c d) = true).
Definition Shape (s:state) : Prop :=
  forall i, length (prog (s i)) = depth st i /\ forall c, In c (cands (s i)) -> length c = depth st i.
Definition Inv (s:state) : Prop := Shape s /\ forall i, LB s i (prog (s i)).

(* a step that keeps every prog and only shrinks/keeps candidate sets preserves Inv *)
Lemma inv_weaken (s s':state) :
  Inv s -> (forall j, prog (s' j) = prog (s j)) -> (forall j c, In c (cands (s' j)) -> In c (cands (s j))) -> Inv s'.
Proof.
  intros [HS HL] Hp Hc. split.
  - intros i. destruct (HS i) as [A B]. rewrite Hp. split; auto.
  - intros i. rewrite Hp. destruct (HL i) as (A & B & C). repeat split; auto. intros; eapply C; eauto.
Qed.

Lemma upd_same (s:state) i v : upd s i v i = v.
Proof. unfold upd. rewrite Nat.eqb_refl. reflexivity. Qed.
Lemma upd_other (s:state) i v j : j <> i -> upd s i v j = s j.
Proof. unfold upd. intros H. destruct (Nat.eqb_spec j i); congruence. Qed.

Lemma length_until i : length (until_t st i) = depth st i.
Proof. unfold until_t, world_time. simpl. rewrite repeat_length. specialize (Hdepth i). lia. Qed.
Lemma length_world i v : length (world_time st i v) = depth st i.
Proof. unfold world_time. simpl. rewrite repeat_length. specialize (Hdepth i). lia. Qed.

Lemma in_removeT x c l : In c (removeT x l) -> In c l.
Proof. induction l as [|y l IH]; simpl; auto. destruct (teq x y); simpl; intuition. Qed.

(* ---- schedule ---- *)
Lemma prog_schedule (s:state) i t j : prog (schedule s i t j) = prog (s j).
Proof. unfold schedule. destruct (memT t (nexts (s i))); auto. unfold upd. destruct (Nat.eqb j i) eqn:E; auto. apply Nat.eqb_eq in E; subst; reflexivity. Qed.
Lemma cands_schedule (s:state) i t j c : In c (cands (schedule s i t j)) -> In c (cands (s j)) \/ (j = i /\ c = t).
Proof.
  unfold schedule. destruct (memT t (nexts (s i))); auto.
  unfold upd. destruct (Nat.eqb_spec j i); auto. subst. unfold cands; simpl.
  rewrite !in_app_iff. simpl. intuition.
Qed.
Lemma cur_schedule (s:state) i t j : cur (schedule s i t j) = cur (s j).
Proof. unfold schedule. destruct (memT t (nexts (s i))); auto. unfold upd. destruct (Nat.eqb j i) eqn:E; auto. apply Nat.eqb_eq in E; subst; reflexivity. Qed.

Lemma last_schedule (s:state) i t j : last (schedule s i t j) = last (s j).
Proof. unfold schedule. destruct (memT t (nexts (s i))); auto. unfold upd. destruct (Nat.eqb j i) eqn:E; auto. apply Nat.eqb_eq in E; subst; reflexivity. Qed.

(* adding a candidate t at sim i preserves Inv provided every old prog that could see it is below it *)
Lemma inv_schedule (s:state) i t :
  Inv s -> length t = depth st i ->
  tle (prog (s i)) t = true ->
  (forall j d, In (i,d) (anc st j) -> tle (prog (s j)) (act t d) = true) ->
  Inv (schedule s i t).
Proof.
  intros [HS HL] Hlen Hown Hdesc. split.
  - intros j. rewrite prog_schedule. destruct (HS j) as [A B]. split; auto.
    intros c Hc. destruct (cands_schedule _ _ _ _ _ Hc) as [H|[-> ->]]; auto.
  - intros j. rewrite prog_schedule. destruct (HL j) as (A & B & C). repeat split; auto.
    + intros c Hc. destruct (cands_schedule _ _ _ _ _ Hc) as [H|[-> ->]]; auto.
    + intros a d c Ha Hc. destruct (cands_schedule _ _ _ _ _ Hc) as [H|[-> ->]]; eauto.
Qed.

(* ---- advance ---- *)
Lemma anc_cands_in (s:state) i x : In x (anc_cands st s i) ->
  exists a d c, In (a,d) (anc st i) /\ x = act c d /\ (tmin (nexts (s a)) = Some c \/ cur (s a) = Some c).
Proof.
  unfold anc_cands. rewrite in_flat_map. intros ([a d] & Hin & Hx).
  apply in_map_iff in Hx as (c & <- & Hc). exists a, d, c. split; auto. split; auto.
  apply in_app_iff in Hc as [Hc|Hc].
  - left. destruct (tmin (nexts (s a))); simpl in Hc; intuition congruence.
  - right. destruct (cur (s a)); simpl in Hc; intuition congruence.
Qed.
Lemma in_cands_of (s:state) a c : (tmin (nexts (s a)) = Some c \/ cur (s a) = Some c) -> In c (cands (s a)).
Proof.
  unfold cands. intros [H|H]; apply in_app_iff.
  - right. apply tmin_spec in H. tauto.
  - left. rewrite H. left; reflexivity.
Qed.

Lemma new_progress_in (s:state) i :
  In (new_progress st s i) (anc_cands st s i ++ (opt_list (tmin (nexts (s i))) ++ opt_list (cur (s i))) ++ [until_t st i]) /\
  forall x, In x (anc_cands st s i ++ (opt_list (tmin (nexts (s i))) ++ opt_list (cur (s i))) ++ [until_t st i]) -> tle (new_progress st s i) x = true.
Proof.
  unfold new_progress.
  destruct (tmin (anc_cands st s i ++ (opt_list (tmin (nexts (s i))) ++ opt_list (cur (s i))) ++ [until_t st i])) eqn:E.
  - apply tmin_spec in E. exact E.
  - apply tmin_none in E. destruct (anc_cands st s i); simpl in E; try discriminate.
    destruct (opt_list (tmin (nexts (s i))) ++ opt_list (cur (s i))); discriminate.
Qed.

Lemma new_progress_lb (s:state) i : Shape s -> LB s i (new_progress st s i) /\ length (new_progress st s i) = depth st i.
Proof.
  intros HS. destruct (new_progress_in s i) as [Hin Hle]. split.
  - repeat split.
    + apply Hle. rewrite !in_app_iff. right; right; left; reflexivity.
    + intros c Hc. unfold cands in Hc. apply in_app_iff in Hc as [Hc|Hc].
      * apply Hle. rewrite !in_app_iff. right; left; right. exact Hc.
      * destruct (tmin (nexts (s i))) as [m|] eqn:E.
        -- apply tle_trans with m.
           ++ apply Hle. rewrite !in_app_iff. right; left; left. left; reflexivity.
           ++ apply tmin_spec in E. apply E; exact Hc.
        -- apply tmin_none in E. rewrite E in Hc. destruct Hc.
    + intros a d c Ha Hc. unfold cands in Hc. apply in_app_iff in Hc as [Hc|Hc].
      * apply Hle. rewrite in_app_iff. left. unfold anc_cands. rewrite in_flat_map. exists (a,d). split; auto.
        apply in_map_iff. exists c. split; [reflexivity|]. apply in_app_iff. right. exact Hc.
      * destruct (tmin (nexts (s a))) as [m|] eqn:E.
        -- apply tle_trans with (act m d).
           ++ apply Hle. rewrite in_app_iff. left. unfold anc_cands. rewrite in_flat_map. exists (a,d). split; auto.
              rewrite E. apply in_map_iff. exists m. split; [reflexivity|]. left; reflexivity.
           ++ pose proof (tmin_spec _ _ E) as [Hm Hmin].
              apply act_mono; [|apply Hmin; exact Hc].
              destruct (HS a) as [_ B]. rewrite (B m), (B c); auto; unfold cands; apply in_app_iff; right; auto.
        -- apply tmin_none in E. rewrite E in Hc. destruct Hc.
  - rewrite !in_app_iff in Hin. destruct Hin as [H|[[H|H]|[H|[]]]].
    + apply anc_cands_in in H as (a & d & c & Ha & -> & Hc). eapply anc_shape; eauto.
      destruct (HS a) as [_ B]. apply B. apply in_cands_of; exact Hc.
    + destruct (tmin (nexts (s i))) as [m|] eqn:E; simpl in H; [|destruct H]. destruct H as [<-|[]].
      destruct (HS i) as [_ B]. apply B. apply in_cands_of. left; exact E.
    + destruct (cur (s i)) as [m|] eqn:E; simpl in H; [|destruct H]. destruct H as [<-|[]].
      destruct (HS i) as [_ B]. apply B. apply in_cands_of. right; exact E.
    + rewrite <- H. apply length_until.
Qed.

Lemma old_le_new (s:state) i b : Shape s -> LB s i b -> tle b (new_progress st s i) = true.
Proof.
  intros HS (A & B & C). destruct (new_progress_in s i) as [Hin _].
  rewrite !in_app_iff in Hin. destruct Hin as [H|[[H|H]|[H|[]]]].
  - apply anc_cands_in in H as (a & d & c & Ha & -> & Hc). eapply C; eauto. apply in_cands_of; exact Hc.
  - destruct (tmin (nexts (s i))) as [m|] eqn:E; simpl in H; [|destruct H]. destruct H as [<-|[]].
    apply B. apply in_cands_of. left; exact E.
  - destruct (cur (s i)) as [m|] eqn:E; simpl in H; [|destruct H]. destruct H as [<-|[]].
    apply B. apply in_cands_of. right; exact E.
  - rewrite <- H. exact A.
Qed.

Lemma advance_inv (s:state) i : Inv s -> exists s', advance st s i = Ok s' /\ Inv s' /\ (forall j, cands (s' j) = cands (s j)) /\ (forall j, pc (s' j) = pc (s j)).
Proof.
  intros [HS HL]. unfold advance.
  pose proof (old_le_new s i (prog (s i)) HS (HL i)) as Hmono.
  unfold tle in Hmono. apply negb_true_iff in Hmono. rewrite Hmono.
  set (s' := upd s i _). exists s'. split; [reflexivity|].
  destruct (new_progress_lb s i HS) as [Hlb Hlen].
  assert (Hc : forall j, cands (s' j) = cands (s j)).
  { intros j. unfold s', upd. destruct (Nat.eqb_spec j i); subst; reflexivity. }
  assert (Hp : forall j, j <> i -> prog (s' j) = prog (s j)).
  { intros j Hj. unfold s'. rewrite upd_other; auto. }
  assert (Hpi : prog (s' i) = new_progress st s i).
  { unfold s'. rewrite upd_same. reflexivity. }
  split; [|split; [exact Hc|]].
  - split.
    + intros j. rewrite Hc. destruct (Nat.eq_dec j i) as [->|Hj].
      * rewrite Hpi. split; auto. apply (HS i).
      * rewrite Hp by auto. apply HS.
    + intros j. destruct (Nat.eq_dec j i) as [->|Hj].
      * rewrite Hpi. destruct Hlb as (A & B & C). repeat split; auto.
        -- intros c Hin. rewrite Hc in Hin. auto.
        -- intros a d c Ha Hin. rewrite Hc in Hin. eauto.
      * rewrite Hp by auto. destruct (HL j) as (A & B & C). repeat split; auto.
        -- intros c Hin. rewrite Hc in Hin. auto.
        -- intros a d c Ha Hin. rewrite Hc in Hin. eauto.
  - intros j. unfold s', upd. destruct (Nat.eqb_spec j i); subst; reflexivity.
Qed.


(* ---- advance for all simulators (fold) ---- *)
Lemma advance_all_inv l (s:state) : Inv s ->
  exists s', fold_left (fun (r:res state) j => match r with Ok s => advance st s j | e => e end) l (Ok s) = Ok s'
             /\ Inv s' /\ (forall j, cands (s' j) = cands (s j)) /\ (forall j, pc (s' j) = pc (s j)).
Proof.
  revert s; induction l as [|i l IH]; intros s HI; simpl.
  - exists s. split; [reflexivity|]. split; [exact HI|]. split; auto.
  - destruct (advance_inv s i HI) as (s1 & E & HI1 & Hc1 & Hp1). rewrite E.
    destruct (IH s1 HI1) as (s2 & E2 & HI2 & Hc2 & Hp2). exists s2. split; [exact E2|]. split; [exact HI2|].
    split; intros j; [rewrite Hc2, Hc1|rewrite Hp2, Hp1]; reflexivity.
Qed.

(* ---- steps that only touch pc / newer ---- *)
Definition same_data (s s':state) : Prop := forall j, prog (s' j) = prog (s j) /\ nexts (s' j) = nexts (s j) /\ cur (s' j) = cur (s j) /\ last (s' j) = last (s j).
Lemma same_data_refl s : same_data s s. Proof. intros j; auto. Qed.
Lemma same_data_trans s1 s2 s3 : same_data s1 s2 -> same_data s2 s3 -> same_data s1 s3.
Proof. intros A B j. destruct (A j) as (a1&a2&a3&a4), (B j) as (b1&b2&b3&b4). repeat split; congruence. Qed.
Lemma same_data_inv s s' : same_data s s' -> Inv s -> Inv s'.
Proof.
  intros H HI. apply inv_weaken with s; auto.
  - intros j. apply (H j).
  - intros j c. unfold cands. destruct (H j) as (_ & A & B & _). rewrite A, B. auto.
Qed.
Lemma loop_eval_same s i : same_data s (loop_eval st s i).
Proof.
  intros j. unfold loop_eval.
  destruct (until st <=? thd (prog (s i))); [|destruct (tmin (nexts (s i))) as [m|]; [destruct (teq m (prog (s i)))|]];
    unfold upd; destruct (Nat.eqb_spec j i); subst; auto.
Qed.
Lemma wake_sleepers_same s : same_data s (wake_sleepers st s).
Proof.
  unfold wake_sleepers. generalize (seq 0 (nsims st)). intros l. revert s. induction l as [|i l IH]; intros s; simpl.
  - apply same_data_refl.
  - eapply same_data_trans; [|apply IH].
    destruct (pc (s i)); try apply same_data_refl.
    destruct (tle await (prog (s i)) || newer (s i)); [apply loop_eval_same|apply same_data_refl].
Qed.

(* ---- notify: scheduling act ott d at every triggered destination ---- *)
Definition notify (s:state) (i:nat) (ott:time) (ports:list nat) : state :=
  fold_left (fun s p => fold_left (fun s (dd:nat*interval) => let (dest,d) := dd in
                 let tt := act ott d in
                 if (until st <=? thd tt) then s else schedule s dest tt) (trig st i p) s) ports s.

Lemma notify_inv ports (s:state) i t ott :
  Inv s -> length t = depth st i -> length ott = depth st i -> tle t ott = true ->
  (* every old progress that can "see" simulator i is below what i's step at t can cause *)
  (forall j d, In (i,d) (anc st j) -> tle (prog (s j)) (act t d) = true) ->
  Inv (notify s i ott ports) /\ (forall j, prog (notify s i ott ports j) = prog (s j)) /\ (forall j, cur (notify s i ott ports j) = cur (s j)).
Proof.
  unfold notify. intros HI Ht Hott Hle Hsee.
  (* generalise to an arbitrary list of (dest, d) pairs that all come from trig *)
  assert (G : forall (l:list (nat*interval)) (s0:state),
            (forall dest d, In (dest,d) l -> exists p, In (dest,d) (trig st i p)) ->
            Inv s0 -> (forall j, prog (s0 j) = prog (s j)) ->
            let s1 := fold_left (fun s (dd:nat*interval) => let (dest,d) := dd in let tt := act ott d in
                        if (until st <=? thd tt) then s else schedule s dest tt) l s0 in
            Inv s1 /\ (forall j, prog (s1 j) = prog (s j)) /\ (forall j, cur (s1 j) = cur (s0 j))).
  { induction l as [|[dest d] l IH]; intros s0 Hl HI0 Hp0; simpl.
    - split; [exact HI0|]. split; auto.
    - assert (Hstep : Inv (if (until st <=? thd (act ott d)) then s0 else schedule s0 dest (act ott d))
                      /\ (forall j, prog ((if (until st <=? thd (act ott d)) then s0 else schedule s0 dest (act ott d)) j) = prog (s j))
                      /\ (forall j, cur ((if (until st <=? thd (act ott d)) then s0 else schedule s0 dest (act ott d)) j) = cur (s0 j))).
      { destruct ((until st <=? thd (act ott d))); [split; [exact HI0|]; split; auto|].
        destruct (Hl dest d (or_introl eq_refl)) as (p & Hin).
        split; [|split; intros j; [rewrite prog_schedule; apply Hp0 | apply cur_schedule]].
        apply inv_schedule; auto.
        - eapply trig_shape; eauto.
        - (* own: prog dest <= act t d' <= act t d <= act ott d *)
          destruct (dist_edge _ _ _ _ Hin) as (d' & Hd' & Hdom).
          rewrite Hp0. apply tle_trans with (act t d'); [apply Hsee; exact Hd'|].
          apply tle_trans with (act t d); [apply Hdom; exact Ht|].
          apply act_mono; [congruence|exact Hle].
        - (* descendants of dest *)
          intros j d2 Hd2. destruct (dist_tri _ _ _ _ _ _ Hin Hd2) as (d3 & Hd3 & Hdom).
          rewrite Hp0. apply tle_trans with (act t d3); [apply Hsee; exact Hd3|].
          apply tle_trans with (act (act t d) d2); [apply Hdom; exact Ht|].
          apply act_mono.
          + rewrite (trig_shape _ _ _ _ t Hin Ht), (trig_shape _ _ _ _ ott Hin Hott). reflexivity.
          + apply act_mono; [congruence|exact Hle]. }
      destruct Hstep as (HI1 & Hp1 & Hc1).
      destruct (IH _ (fun dest0 d0 H => Hl dest0 d0 (or_intror H)) HI1 Hp1) as (A & B & C).
      split; [exact A|]. split; [exact B|]. intros j. rewrite C. apply Hc1. }
  revert s HI Hsee G. induction ports as [|p ports IH]; intros s HI Hsee G; simpl.
  - split; [exact HI|]. split; auto.
  - destruct (G (trig st i p) s (fun dest d H => ex_intro _ p H) HI (fun j => eq_refl)) as (HI1 & Hp1 & Hc1).
    set (s1 := fold_left _ (trig st i p) s) in *.
    assert (Hsee1 : forall j d, In (i,d) (anc st j) -> tle (prog (s1 j)) (act t d) = true).
    { intros j d Hd. rewrite Hp1. apply Hsee; exact Hd. }
    assert (G1 : forall (l:list (nat*interval)) (s0:state),
            (forall dest d, In (dest,d) l -> exists p, In (dest,d) (trig st i p)) ->
            Inv s0 -> (forall j, prog (s0 j) = prog (s1 j)) ->
            let s2 := fold_left (fun s (dd:nat*interval) => let (dest,d) := dd in let tt := act ott d in
                        if (until st <=? thd tt) then s else schedule s dest tt) l s0 in
            Inv s2 /\ (forall j, prog (s2 j) = prog (s1 j)) /\ (forall j, cur (s2 j) = cur (s0 j))).
    { intros l s0 Hl HI0 Hp0. destruct (G l s0 Hl HI0 (fun j => eq_trans (Hp0 j) (Hp1 j))) as (A & B & C).
      split; [exact A|]. split; [|exact C]. intros j. rewrite B, Hp1. reflexivity. }
    destruct (IH s1 HI1 Hsee1 G1) as (A & B & C).
    split; [exact A|]. split; intros j; [rewrite B; apply Hp1 | rewrite C; apply Hc1].
Qed.

(* ---- finish_step (DATAREPLY, or STEPREPLY of a simulator nobody listens to) ---- *)
Lemma finish_step_eq s i ott ports :
  finish_step st s i ott ports =
  match fold_left (fun (r:res state) j => match r with Ok s => advance st s j | e => e end) (seq 0 (nsims st))
          (Ok (notify (upd s i (mkSim (pc (s i)) (prog (s i)) (nexts (s i)) None (last (s i)) (newer (s i)))) i ott ports)) with
  | Ok s' => Ok (wake_sleepers st (loop_eval st s' i))
  | Err e => Err e end.
Proof. unfold finish_step, notify. destruct (fold_left _ (seq 0 (nsims st)) _); reflexivity. Qed.

Lemma finish_step_inv (s:state) i t ott ports :
  Inv s -> cur (s i) = Some t -> length ott = depth st i -> tle t ott = true ->
  exists s', finish_step st s i ott ports = Ok s' /\ Inv s'.
Proof.
  intros HI Hcur Hott Hle. rewrite finish_step_eq.
  set (s1 := upd s i _).
  assert (Hin : In t (cands (s i))) by (unfold cands; rewrite Hcur; left; reflexivity).
  assert (Ht : length t = depth st i) by (destruct HI as [HS _]; apply (HS i); exact Hin).
  assert (Hp1 : forall j, prog (s1 j) = prog (s j)).
  { intros j. unfold s1, upd. destruct (Nat.eqb_spec j i); subst; reflexivity. }
  assert (HI1 : Inv s1).
  { apply inv_weaken with s; auto. intros j c. unfold s1, upd. destruct (Nat.eqb_spec j i); auto. subst.
    unfold cands; simpl. intros H. apply in_app_iff. right; exact H. }
  assert (Hsee : forall j d, In (i,d) (anc st j) -> tle (prog (s1 j)) (act t d) = true).
  { intros j d Hd. rewrite Hp1. destruct HI as [_ HL]. destruct (HL j) as (_ & _ & C). eapply C; eauto. }
  destruct (notify_inv ports s1 i t ott HI1 Ht Hott Hle Hsee) as (HI2 & _ & _).
  destruct (advance_all_inv (seq 0 (nsims st)) _ HI2) as (s3 & E & HI3 & _ & _).
  rewrite E. eexists; split; [reflexivity|].
  eapply same_data_inv; [apply wake_sleepers_same|]. eapply same_data_inv; [apply loop_eval_same|]. exact HI3.
Qed.

Lemma finish_step_inv2 (s:state) i t ott ports s' :
  Inv s -> cur (s i) = Some t -> length ott = depth st i -> tle t ott = true ->
  finish_step st s i ott ports = Ok s' -> Inv s'.
Proof. intros HI Hc Hl Hle H. destruct (finish_step_inv s i t ott ports HI Hc Hl Hle) as (s3 & E & HI3). congruence. Qed.

Lemma finish_step_noerr (s:state) i t ott ports e :
  Inv s -> cur (s i) = Some t -> length ott = depth st i -> tle t ott = true ->
  finish_step st s i ott ports <> Err e.
Proof. intros HI Hc Hl Hle. destruct (finish_step_inv s i t ott ports HI Hc Hl Hle) as (s3 & E & _). congruence. Qed.

Lemma world_time_gt i t v : length t = depth st i -> thd t < v -> tle t (world_time st i v) = true.
Proof.
  intros Hl Hv. apply tlt_tle. unfold world_time. destruct t as [|x t]; simpl in *.
  - specialize (Hdepth i). lia.
  - apply Z.ltb_lt in Hv. rewrite Hv. reflexivity.
Qed.


(* ---- auxiliary invariant forced by the proof: while get_data is outstanding, last_step = current_step ---- *)
Definition InDataOK (s:state) : Prop := forall j c, pc (s j) = InData -> cur (s j) = Some c -> last (s j) = c.
(* R s s': every simulator either keeps (pc, cur, last) or is not in InData afterwards *)
Definition R (s s':state) : Prop := forall j, (pc (s' j) = pc (s j) /\ cur (s' j) = cur (s j) /\ last (s' j) = last (s j)) \/ pc (s' j) <> InData.
Lemma R_refl s : R s s. Proof. intros j; left; auto. Qed.
Lemma R_trans s1 s2 s3 : R s1 s2 -> R s2 s3 -> R s1 s3.
Proof.
  intros A B j. destruct (B j) as [(b1&b2&b3)|b]; [|right; exact b].
  destruct (A j) as [(a1&a2&a3)|a]; [left; repeat split; congruence | right; congruence].
Qed.
Lemma R_ok s s' : R s s' -> InDataOK s -> InDataOK s'.
Proof. intros HR H j c Hpc Hcur. destruct (HR j) as [(a&b&d)|a]; [|congruence]. rewrite d. apply H; congruence. Qed.

Lemma R_schedule (s:state) i t : R s (schedule s i t).
Proof.
  intros j. left. unfold schedule. destruct (memT t (nexts (s i))); auto.
  unfold upd. destruct (Nat.eqb_spec j i); subst; auto.
Qed.
Lemma R_advance (s:state) i s' : advance st s i = Ok s' -> R s s'.
Proof.
  unfold advance. destruct (tlt _ _); [discriminate|]. intros H; injection H as <-.
  intros j. left. unfold upd. destruct (Nat.eqb_spec j i); subst; auto.
Qed.
Lemma R_advance_all l (s s':state) :
  fold_left (fun (r:res state) j => match r with Ok s => advance st s j | e => e end) l (Ok s) = Ok s' -> R s s'.
Proof.
  revert s; induction l as [|i l IH]; intros s; simpl.
  - intros H; injection H as <-. apply R_refl.
  - destruct (advance st s i) as [s1|e] eqn:E.
    + intros H. eapply R_trans; [eapply R_advance; eauto | apply IH; exact H].
    + intros H. exfalso. clear -H. induction l; simpl in H; [discriminate|auto].
Qed.
Lemma R_notify ports (s:state) i ott : R s (notify s i ott ports).
Proof.
  unfold notify. revert s. induction ports as [|p ports IH]; intros s; simpl; [apply R_refl|].
  eapply R_trans; [|apply IH].
  generalize (trig st i p). intros l. revert s. induction l as [|[dest d] l IHl]; intros s; simpl; [apply R_refl|].
  eapply R_trans; [|apply IHl].
  destruct ((until st <=? thd (act ott d))); [apply R_refl|apply R_schedule].
Qed.
Lemma R_loop_eval (s:state) i : pc (s i) <> InData -> R s (loop_eval st s i).
Proof.
  intros Hpc j. unfold loop_eval.
  destruct (until st <=? thd (prog (s i))); [|destruct (tmin (nexts (s i))) as [m|]; [destruct (teq m (prog (s i)))|]];
    unfold upd; destruct (Nat.eqb_spec j i); subst; simpl; auto; right; discriminate.
Qed.
Lemma R_loop_eval' (s:state) i : R s (loop_eval st s i) \/ True. Proof. auto. Qed.
Lemma loop_eval_pc (s:state) i j : j <> i -> pc (loop_eval st s i j) = pc (s j) /\ cur (loop_eval st s i j) = cur (s j) /\ last (loop_eval st s i j) = last (s j).
Proof.
  intros Hj. unfold loop_eval.
  destruct (until st <=? thd (prog (s i))); [|destruct (tmin (nexts (s i))) as [m|]; [destruct (teq m (prog (s i)))|]];
    rewrite upd_other; auto.
Qed.
Lemma loop_eval_not_indata (s:state) i : pc (loop_eval st s i i) <> InData.
Proof.
  unfold loop_eval.
  destruct (until st <=? thd (prog (s i))); [|destruct (tmin (nexts (s i))) as [m|]; [destruct (teq m (prog (s i)))|]];
    rewrite upd_same; simpl; discriminate.
Qed.
Lemma R_loop_eval_any (s:state) i : R s (loop_eval st s i).
Proof.
  intros j. destruct (Nat.eq_dec j i) as [->|Hj].
  - right. apply loop_eval_not_indata.
  - left. apply loop_eval_pc; auto.
Qed.
Lemma R_wake (s:state) : R s (wake_sleepers st s).
Proof.
  unfold wake_sleepers. generalize (seq 0 (nsims st)). intros l. revert s. induction l as [|i l IH]; intros s; simpl; [apply R_refl|].
  eapply R_trans; [|apply IH].
  destruct (pc (s i)); try apply R_refl.
  destruct (tle await (prog (s i)) || newer (s i)); [apply R_loop_eval_any|apply R_refl].
Qed.
Lemma R_finish (s:state) i ott ports s' : finish_step st s i ott ports = Ok s' -> pc (s i) <> InData \/ True -> 
  forall j, j <> i -> (pc (s' j) = pc (s j) /\ cur (s' j) = cur (s j) /\ last (s' j) = last (s j)) \/ pc (s' j) <> InData.
Proof.
  rewrite finish_step_eq. set (s1 := upd s i _).
  destruct (fold_left _ (seq 0 (nsims st)) _) as [s3|e] eqn:E; [|discriminate].
  intros H _; injection H as <-. intros j Hj.
  assert (R1 : R s1 s3) by (eapply R_trans; [apply R_notify | eapply R_advance_all; exact E]).
  assert (R2 : R s1 (wake_sleepers st (loop_eval st s3 i))).
  { eapply R_trans; [exact R1|]. eapply R_trans; [apply R_loop_eval_any|apply R_wake]. }
  destruct (R2 j) as [(a&b&c)|a]; [left|right; exact a].
  unfold s1 in a, b, c. rewrite upd_other in a, b, c by auto. auto.
Qed.
Lemma finish_self_not_indata (s:state) i ott ports s' : finish_step st s i ott ports = Ok s' -> InDataOK s ->
  InDataOK s'.
Proof.
  intros H Hok j c Hpc Hcur.
  destruct (Nat.eq_dec j i) as [->|Hj].
  - (* the finishing simulator: cur = None after the step, and stays None *)
    exfalso. revert H. rewrite finish_step_eq. set (s1 := upd s i _).
    destruct (fold_left _ (seq 0 (nsims st)) _) as [s3|e] eqn:E; [|discriminate].
    intros H; injection H as <-.
    (* cur is preserved by notify / advance / loop_eval / wake *)
    assert (C1 : cur (s1 i) = None) by (unfold s1; rewrite upd_same; reflexivity).
    assert (Hn : forall ports (s:state) j, cur (notify s i ott ports j) = cur (s j)).
    { clear. unfold notify. induction ports as [|p ports IH]; intros s j; simpl; auto. rewrite IH.
      generalize (trig st i p). intros l. revert s. induction l as [|[dest d] l IHl]; intros s; simpl; auto.
      rewrite IHl. destruct ((until st <=? thd (act ott d))); auto. apply cur_schedule. }
    assert (Ha : forall l (s s':state), fold_left (fun (r:res state) j => match r with Ok s => advance st s j | e => e end) l (Ok s) = Ok s' -> forall j, cur (s' j) = cur (s j)).
    { clear. induction l as [|k l IH]; intros s s' H j; simpl in H.
      - injection H as <-; auto.
      - destruct (advance st s k) as [s1|e] eqn:E.
        + rewrite (IH _ _ H j). unfold advance in E. destruct (tlt _ _); [discriminate|]. injection E as <-.
          unfold upd. destruct (Nat.eqb_spec j k); subst; auto.
        + exfalso. clear -H. induction l; simpl in H; [discriminate|auto]. }
    assert (C3 : cur (s3 i) = None) by (rewrite (Ha _ _ _ E i), Hn; exact C1).
    destruct (wake_sleepers_same (loop_eval st s3 i) i) as (_ & _ & W & _).
    destruct (loop_eval_same s3 i i) as (_ & _ & L & _).
    rewrite W, L, C3 in Hcur. discriminate.
  - destruct (R_finish s i ott ports s' H (or_intror I) j Hj) as [(a&b&d)|a]; [|congruence].
    rewrite d. apply Hok; congruence.
Qed.

Definition Inv' (s:state) : Prop := Inv s /\ InDataOK s.

(* ---- main theorem: every accepted event preserves the invariant ---- *)
Theorem apply_inv s e s' : Inv' s -> apply st s e = Ok s' -> Inv' s'.
Proof.
  intros [HI HD]. destruct e as [i | i t m | i nxt | i ot ports | | i | ib]; simpl.
  - (* START *)
    destruct (pc (s i)) eqn:Epc; try discriminate.
    destruct (advance_inv s i HI) as (s1 & E & HI1 & _ & _). rewrite E. intros H; injection H as <-. split.
    + eapply same_data_inv; [apply wake_sleepers_same|]. eapply same_data_inv; [apply loop_eval_same|]. exact HI1.
    + eapply R_ok; [|exact HD]. eapply R_trans; [eapply R_advance; eauto|]. eapply R_trans; [apply R_loop_eval_any|apply R_wake].
  - (* BEGIN *)
    destruct (begin_enabled st s i); simpl; try discriminate.
    destruct (tmin (nexts (s i))) as [t'|] eqn:E; try discriminate.
    destruct (teq t' t); simpl; try discriminate.
    destruct (teq t' (prog (s i))); simpl; try discriminate.
    destruct (loop_exceeded st t'); simpl; try discriminate.
    match goal with |- (if ?c then _ else _) = _ -> _ => destruct c end; try discriminate.
    intros H; injection H as <-. split.
    + apply inv_weaken with s; auto.
      * intros j. unfold upd. destruct (Nat.eqb_spec j i); [subst j|]; reflexivity.
      * intros j c. unfold upd. destruct (Nat.eqb_spec j i); auto. subst j. unfold cands; simpl.
        intros [<-|H].
        -- apply in_app_iff. right. apply tmin_spec in E. tauto.
        -- apply in_app_iff. right. eapply in_removeT; eauto.
    + eapply R_ok; [|exact HD]. intros j. unfold upd. destruct (Nat.eqb_spec j i); [right; simpl; discriminate|left; auto].
  - (* STEPREPLY *)
    destruct (pc (s i)) eqn:Epc; try discriminate.
    destruct (cur (s i)) as [t|] eqn:Ecur; try discriminate.
    set (s1 := upd s i _).
    assert (HI1 : Inv s1).
    { apply inv_weaken with s; auto.
      - intros j. unfold s1, upd. destruct (Nat.eqb_spec j i); [subst j|]; reflexivity.
      - intros j c. unfold s1, upd. destruct (Nat.eqb_spec j i); auto. subst j. unfold cands; simpl. rewrite Ecur. auto. }
    assert (HD1 : InDataOK s1).
    { eapply R_ok; [|exact HD]. intros j. unfold s1, upd. destruct (Nat.eqb_spec j i); [right; simpl; discriminate|left; auto]. }
    assert (Hcur1 : cur (s1 i) = Some t) by (unfold s1; rewrite upd_same; reflexivity).
    assert (Hlast1 : last (s1 i) = t) by (unfold s1; rewrite upd_same; reflexivity).
    assert (Hin : In t (cands (s i))) by (unfold cands; rewrite Ecur; left; reflexivity).
    assert (Ht : length t = depth st i) by (destruct HI as [HS _]; apply (HS i); exact Hin).
    assert (Hgo : forall s2, Inv s2 -> InDataOK s2 -> cur (s2 i) = Some t -> last (s2 i) = t ->
              (if outreq st i
               then Ok (upd s2 i (mkSim InData (prog (s2 i)) (nexts (s2 i)) (cur (s2 i)) (last (s2 i)) (newer (s2 i))))
               else finish_step st s2 i t []) = Ok s' -> Inv' s').
    { intros s2 HI2 HD2 Hc2 Hl2. destruct (outreq st i).
      - intros H; injection H as <-. split.
        + apply inv_weaken with s2; auto.
          * intros j. unfold upd. destruct (Nat.eqb_spec j i); [subst j|]; reflexivity.
          * intros j c. unfold upd. destruct (Nat.eqb_spec j i); auto. subst j. auto.
        + intros j c. unfold upd. destruct (Nat.eqb_spec j i).
          * subst j. simpl. intros _ Hc. congruence.
          * apply HD2.
      - intros H. split; [eapply (finish_step_inv2 s2 i t t []); eauto; apply tle_refl|]. eapply finish_self_not_indata; eauto. }
    destruct nxt as [v|].
    + destruct (v <=? thd t) eqn:Ev; try discriminate. apply Z.leb_gt in Ev.
      assert (HI2 : Inv (if v <? until st then schedule s1 i (world_time st i v) else s1)).
      { destruct (v <? until st); auto. apply inv_schedule; auto.
        - apply length_world.
        - destruct HI1 as [_ HL]. destruct (HL i) as (_ & B & _).
          apply tle_trans with t; [|apply world_time_gt; auto].
          apply B. unfold cands. rewrite Hcur1. left; reflexivity.
        - intros j d Hd. destruct HI1 as [_ HL]. destruct (HL j) as (_ & _ & C).
          apply tle_trans with (act t d).
          + eapply C; eauto. unfold cands. rewrite Hcur1. left; reflexivity.
          + apply act_mono; [rewrite length_world; exact Ht | apply world_time_gt; auto]. }
      apply Hgo; auto.
      * destruct (v <? until st); auto. eapply R_ok; [apply R_schedule|exact HD1].
      * destruct (v <? until st); auto. rewrite cur_schedule. exact Hcur1.
      * destruct (v <? until st); auto. rewrite last_schedule. exact Hlast1.
    + destruct (timebased st i); try discriminate. apply Hgo; auto.
  - (* DATAREPLY *)
    destruct (pc (s i)) eqn:Epc; try discriminate.
    destruct (cur (s i)) as [c|] eqn:Ecur; try discriminate.
    destruct (ot <? thd (last (s i))) eqn:Eot; try discriminate. apply Z.ltb_ge in Eot.
    intros H.
    assert (Hin : In c (cands (s i))) by (unfold cands; rewrite Ecur; left; reflexivity).
    assert (Hc : length c = depth st i) by (destruct HI as [HS _]; apply (HS i); exact Hin).
    assert (Hlast : last (s i) = c) by (apply HD; auto).
    assert (Hott : length (if ot =? thd c then c else world_time st i ot) = depth st i)
      by (destruct (ot =? thd c); [exact Hc|apply length_world]).
    assert (Hle : tle c (if ot =? thd c then c else world_time st i ot) = true).
    { destruct (ot =? thd c) eqn:Eeq; [apply tle_refl|]. apply world_time_gt; auto.
      apply Z.eqb_neq in Eeq. rewrite Hlast in Eot. lia. }
    split; [eapply finish_step_inv2; eauto|]. eapply finish_self_not_indata; eauto.
  - intros H; destruct (existsb _ _); [discriminate|]. injection H as <-. split; auto.
  - destruct (begin_enabled st s i); simpl; try discriminate.
    destruct (tmin (nexts (s i))); try discriminate.
    destruct (_ && _); try discriminate. intros H; injection H as <-. split; auto.
  - (* STEPBAD *) destruct (pc (s ib)); try discriminate; destruct (cur (s ib)); discriminate.
Qed.

(* Corollaries: the two internal consistency errors of the scheduler are unreachable from Inv' *)
Corollary no_backwards s e i : Inv' s -> apply st s e <> Err (EBackwards i).
Proof.
  intros [HI HD]. destruct e as [k | k t m | k nxt | k ot ports | | k | ib]; simpl.
  - destruct (pc (s k)); try discriminate.
    destruct (advance_inv s k HI) as (s1 & E & _). rewrite E. discriminate.
  - destruct (begin_enabled st s k); simpl; try discriminate.
    destruct (tmin (nexts (s k))); try discriminate.
    destruct (teq _ _); simpl; try discriminate. destruct (teq _ _); simpl; try discriminate.
    destruct (loop_exceeded _ _); simpl; try discriminate. destruct (_ =? _); discriminate.
  - destruct (pc (s k)) eqn:Epc; try discriminate.
    destruct (cur (s k)) as [t|] eqn:Ecur; try discriminate.
    set (s1 := upd s k _).
    assert (HI1 : Inv s1).
    { apply inv_weaken with s; auto.
      - intros j. unfold s1, upd. destruct (Nat.eqb_spec j k); [subst j|]; reflexivity.
      - intros j c. unfold s1, upd. destruct (Nat.eqb_spec j k); auto. subst j. unfold cands; simpl. rewrite Ecur. auto. }
    assert (Hcur1 : cur (s1 k) = Some t) by (unfold s1; rewrite upd_same; reflexivity).
    assert (Hin : In t (cands (s k))) by (unfold cands; rewrite Ecur; left; reflexivity).
    assert (Ht : length t = depth st k) by (destruct HI as [HS _]; apply (HS k); exact Hin).
    destruct nxt as [v|].
    + destruct (v <=? thd t) eqn:Ev; try discriminate. apply Z.leb_gt in Ev.
      assert (HI2 : Inv (if v <? until st then schedule s1 k (world_time st k v) else s1)).
      { destruct (v <? until st); auto. apply inv_schedule; auto.
        - apply length_world.
        - destruct HI1 as [_ HL]. destruct (HL k) as (_ & B & _).
          apply tle_trans with t; [|apply world_time_gt; auto].
          apply B. unfold cands. rewrite Hcur1. left; reflexivity.
        - intros j d Hd. destruct HI1 as [_ HL]. destruct (HL j) as (_ & _ & C).
          apply tle_trans with (act t d).
          + eapply C; eauto. unfold cands. rewrite Hcur1. left; reflexivity.
          + apply act_mono; [rewrite length_world; exact Ht | apply world_time_gt; auto]. }
      destruct (outreq st k); [discriminate|].
      assert (Hc2 : cur ((if v <? until st then schedule s1 k (world_time st k v) else s1) k) = Some t)
        by (destruct (v <? until st); auto; rewrite cur_schedule; exact Hcur1).
      eapply finish_step_noerr; eauto. apply tle_refl.
    + destruct (timebased st k); try discriminate. destruct (outreq st k); [discriminate|].
      eapply finish_step_noerr; eauto. apply tle_refl.
  - destruct (pc (s k)) eqn:Epc; try discriminate.
    destruct (cur (s k)) as [c|] eqn:Ecur; try discriminate.
    destruct (ot <? thd (last (s k))) eqn:Eot; try discriminate. apply Z.ltb_ge in Eot.
    assert (Hin : In c (cands (s k))) by (unfold cands; rewrite Ecur; left; reflexivity).
    assert (Hc : length c = depth st k) by (destruct HI as [HS _]; apply (HS k); exact Hin).
    assert (Hlast : last (s k) = c) by (apply HD; auto).
    assert (Hott : length (if ot =? thd c then c else world_time st k ot) = depth st k)
      by (destruct (ot =? thd c); [exact Hc|apply length_world]).
    assert (Hle : tle c (if ot =? thd c then c else world_time st k ot) = true).
    { destruct (ot =? thd c) eqn:Eeq; [apply tle_refl|]. apply world_time_gt; auto.
      apply Z.eqb_neq in Eeq. rewrite Hlast in Eot. lia. }
    eapply finish_step_noerr; eauto.
  - destruct (existsb _ _); discriminate.
  - destruct (begin_enabled st s k); simpl; try discriminate.
    destruct (tmin (nexts (s k))); try discriminate. destruct (_ && _); discriminate.
  - (* STEPBAD *) destruct (pc (s ib)); try discriminate; destruct (cur (s ib)); discriminate.
Qed.

(* ---- progress is monotone along every accepted event ---- *)
Definition prog_le (s s':state) : Prop := forall j, tle (prog (s j)) (prog (s' j)) = true.
Lemma prog_le_refl s : prog_le s s. Proof. intros j; apply tle_refl. Qed.
Lemma prog_le_trans s1 s2 s3 : prog_le s1 s2 -> prog_le s2 s3 -> prog_le s1 s3.
Proof. intros A B j. eapply tle_trans; eauto. Qed.
Lemma prog_le_eq (s s':state) : (forall j, prog (s' j) = prog (s j)) -> prog_le s s'.
Proof. intros H j. rewrite H. apply tle_refl. Qed.

Lemma advance_mono (s:state) i s' : Inv s -> advance st s i = Ok s' -> prog_le s s'.
Proof.
  intros [HS HL] H. unfold advance in H. destruct (tlt _ _); [discriminate|]. injection H as <-.
  intros j. unfold upd. destruct (Nat.eqb_spec j i); [subst j; simpl; apply old_le_new; auto | apply tle_refl].
Qed.
Lemma advance_all_mono l (s s':state) : Inv s ->
  fold_left (fun (r:res state) j => match r with Ok s => advance st s j | e => e end) l (Ok s) = Ok s' -> prog_le s s'.
Proof.
  revert s; induction l as [|i l IH]; intros s HI; simpl.
  - intros H; injection H as <-. apply prog_le_refl.
  - destruct (advance_inv s i HI) as (s1 & E & HI1 & _). rewrite E. intros H.
    eapply prog_le_trans; [eapply advance_mono; eauto | eapply IH; eauto].
Qed.
Lemma finish_step_mono (s:state) i t ott ports s' :
  Inv s -> cur (s i) = Some t -> length ott = depth st i -> tle t ott = true ->
  finish_step st s i ott ports = Ok s' -> prog_le s s'.
Proof.
  intros HI Hcur Hott Hle. rewrite finish_step_eq.
  set (s1 := upd s i _).
  assert (Hin : In t (cands (s i))) by (unfold cands; rewrite Hcur; left; reflexivity).
  assert (Ht : length t = depth st i) by (destruct HI as [HS _]; apply (HS i); exact Hin).
  assert (Hp1 : forall j, prog (s1 j) = prog (s j)).
  { intros j. unfold s1, upd. destruct (Nat.eqb_spec j i); [subst j|]; reflexivity. }
  assert (HI1 : Inv s1).
  { apply inv_weaken with s; auto. intros j c. unfold s1, upd. destruct (Nat.eqb_spec j i); auto. subst j.
    unfold cands; simpl. intros H. apply in_app_iff. right; exact H. }
  assert (Hsee : forall j d, In (i,d) (anc st j) -> tle (prog (s1 j)) (act t d) = true).
  { intros j d Hd. rewrite Hp1. destruct HI as [_ HL]. destruct (HL j) as (_ & _ & C). eapply C; eauto. }
  destruct (notify_inv ports s1 i t ott HI1 Ht Hott Hle Hsee) as (HI2 & Hp2 & _).
  destruct (fold_left _ (seq 0 (nsims st)) _) as [s3|e] eqn:E; [|discriminate].
  intros H; injection H as <-.
  eapply prog_le_trans; [apply prog_le_eq; exact Hp1|].
  eapply prog_le_trans; [apply prog_le_eq; exact Hp2|].
  eapply prog_le_trans; [eapply advance_all_mono; eauto|].
  apply prog_le_eq. intros j.
  destruct (wake_sleepers_same (loop_eval st s3 i) j) as (W & _). destruct (loop_eval_same s3 i j) as (L & _). congruence.
Qed.

Theorem apply_prog_mono s e s' : Inv' s -> apply st s e = Ok s' -> prog_le s s'.
Proof.
  intros [HI HD]. destruct e as [i | i t m | i nxt | i ot ports | | i | ib]; simpl.
  - destruct (pc (s i)); try discriminate.
    destruct (advance st s i) as [s1|] eqn:E; [|discriminate]. intros H; injection H as <-.
    eapply prog_le_trans; [eapply advance_mono; eauto|]. apply prog_le_eq. intros j.
    destruct (wake_sleepers_same (loop_eval st s1 i) j) as (W & _). destruct (loop_eval_same s1 i j) as (L & _). congruence.
  - destruct (begin_enabled st s i); simpl; try discriminate.
    destruct (tmin (nexts (s i))) as [t'|]; try discriminate.
    destruct (teq t' t); simpl; try discriminate. destruct (teq t' (prog (s i))); simpl; try discriminate.
    destruct (loop_exceeded st t'); simpl; try discriminate.
    match goal with |- (if ?c then _ else _) = _ -> _ => destruct c end; try discriminate.
    intros H; injection H as <-. apply prog_le_eq. intros j. unfold upd. destruct (Nat.eqb_spec j i); [subst j|]; reflexivity.
  - destruct (pc (s i)) eqn:Epc; try discriminate.
    destruct (cur (s i)) as [t|] eqn:Ecur; try discriminate.
    set (s1 := upd s i _).
    assert (Hp1 : forall j, prog (s1 j) = prog (s j)).
    { intros j. unfold s1, upd. destruct (Nat.eqb_spec j i); [subst j|]; reflexivity. }
    assert (HI1 : Inv s1).
    { apply inv_weaken with s; auto. intros j c. unfold s1, upd. destruct (Nat.eqb_spec j i); auto. subst j. unfold cands; simpl. rewrite Ecur. auto. }
    assert (Hcur1 : cur (s1 i) = Some t) by (unfold s1; rewrite upd_same; reflexivity).
    assert (Hin : In t (cands (s i))) by (unfold cands; rewrite Ecur; left; reflexivity).
    assert (Ht : length t = depth st i) by (destruct HI as [HS _]; apply (HS i); exact Hin).
    assert (Hgo : forall s2, Inv s2 -> (forall j, prog (s2 j) = prog (s j)) -> cur (s2 i) = Some t ->
              (if outreq st i
               then Ok (upd s2 i (mkSim InData (prog (s2 i)) (nexts (s2 i)) (cur (s2 i)) (last (s2 i)) (newer (s2 i))))
               else finish_step st s2 i t []) = Ok s' -> prog_le s s').
    { intros s2 HI2 Hp2 Hc2. destruct (outreq st i).
      - intros H; injection H as <-. apply prog_le_eq. intros j. unfold upd. destruct (Nat.eqb_spec j i); [subst j; simpl|]; apply Hp2.
      - intros H. eapply prog_le_trans; [apply prog_le_eq; exact Hp2|]. eapply (finish_step_mono s2 i t t []); eauto. apply tle_refl. }
    destruct nxt as [v|].
    + destruct (v <=? thd t) eqn:Ev; try discriminate. apply Z.leb_gt in Ev.
      apply Hgo.
      * destruct (v <? until st); auto. apply inv_schedule; auto.
        -- apply length_world.
        -- destruct HI1 as [_ HL]. destruct (HL i) as (_ & B & _).
           apply tle_trans with t; [|apply world_time_gt; auto]. apply B. unfold cands. rewrite Hcur1. left; reflexivity.
        -- intros j d Hd. destruct HI1 as [_ HL]. destruct (HL j) as (_ & _ & C).
           apply tle_trans with (act t d); [eapply C; eauto; unfold cands; rewrite Hcur1; left; reflexivity|].
           apply act_mono; [rewrite length_world; exact Ht | apply world_time_gt; auto].
      * intros j. destruct (v <? until st); [rewrite prog_schedule|]; apply Hp1.
      * destruct (v <? until st); auto. rewrite cur_schedule. exact Hcur1.
    + destruct (timebased st i); try discriminate. apply Hgo; auto.
  - destruct (pc (s i)) eqn:Epc; try discriminate.
    destruct (cur (s i)) as [c|] eqn:Ecur; try discriminate.
    destruct (ot <? thd (last (s i))) eqn:Eot; try discriminate. apply Z.ltb_ge in Eot.
    assert (Hin : In c (cands (s i))) by (unfold cands; rewrite Ecur; left; reflexivity).
    assert (Hc : length c = depth st i) by (destruct HI as [HS _]; apply (HS i); exact Hin).
    assert (Hlast : last (s i) = c) by (apply HD; auto).
    assert (Hott : length (if ot =? thd c then c else world_time st i ot) = depth st i)
      by (destruct (ot =? thd c); [exact Hc|apply length_world]).
    assert (Hle : tle c (if ot =? thd c then c else world_time st i ot) = true).
    { destruct (ot =? thd c) eqn:Eeq; [apply tle_refl|]. apply world_time_gt; auto.
      apply Z.eqb_neq in Eeq. rewrite Hlast in Eot. lia. }
    intros H. exact (finish_step_mono s i c _ ports s' HI Ecur Hott Hle H).
  - destruct (existsb _ _); [discriminate|]. intros H; injection H as <-. apply prog_le_refl.
  - destruct (begin_enabled st s i); simpl; try discriminate.
    destruct (tmin (nexts (s i))); try discriminate. destruct (_ && _); try discriminate.
    intros H; injection H as <-. apply prog_le_refl.
  - (* STEPBAD *) destruct (pc (s ib)); try discriminate; destruct (cur (s ib)); discriminate.
Qed.


(* ---- pc invariant: a simulator waiting for its dependencies at t0 still has t0 in its queue ---- *)
Definition WaitIn (s:state) : Prop := forall j t0, pc (s j) = WaitDeps t0 -> In t0 (nexts (s j)).
Definition Rw (s s':state) : Prop := forall j,
  (pc (s' j) = pc (s j) /\ incl (nexts (s j)) (nexts (s' j))) \/ (forall t0, pc (s' j) = WaitDeps t0 -> In t0 (nexts (s' j))).
Lemma Rw_refl s : Rw s s. Proof. intros j; left; split; auto. apply incl_refl. Qed.
Lemma Rw_trans s1 s2 s3 : Rw s1 s2 -> Rw s2 s3 -> Rw s1 s3.
Proof.
  intros A B j. destruct (B j) as [(b1&b2)|b]; [|right; exact b].
  destruct (A j) as [(a1&a2)|a].
  - left. split; [congruence|eapply incl_tran; eauto].
  - right. intros t0 H. apply b2. apply a. congruence.
Qed.
Lemma Rw_ok s s' : Rw s s' -> WaitIn s -> WaitIn s'.
Proof. intros HR H j t0 Hpc. destruct (HR j) as [(a&b)|a]; [|auto]. apply b. apply H. congruence. Qed.
Lemma Rw_schedule (s:state) i t : Rw s (schedule s i t).
Proof.
  intros j. left. unfold schedule. destruct (memT t (nexts (s i))); [split; auto; apply incl_refl|].
  unfold upd. destruct (Nat.eqb_spec j i); [subst j; simpl; split; auto; apply incl_tl, incl_refl | split; auto; apply incl_refl].
Qed.
Lemma Rw_advance (s:state) i s' : advance st s i = Ok s' -> Rw s s'.
Proof.
  unfold advance. destruct (tlt _ _); [discriminate|]. intros H; injection H as <-.
  intros j. left. unfold upd. destruct (Nat.eqb_spec j i); [subst j|]; simpl; split; auto; apply incl_refl.
Qed.
Lemma Rw_advance_all l (s s':state) :
  fold_left (fun (r:res state) j => match r with Ok s => advance st s j | e => e end) l (Ok s) = Ok s' -> Rw s s'.
Proof.
  revert s; induction l as [|i l IH]; intros s; simpl.
  - intros H; injection H as <-. apply Rw_refl.
  - destruct (advance st s i) as [s1|e] eqn:E.
    + intros H. eapply Rw_trans; [eapply Rw_advance; eauto | apply IH; exact H].
    + intros H. exfalso. clear -H. induction l; simpl in H; [discriminate|auto].
Qed.
Lemma Rw_notify ports (s:state) i ott : Rw s (notify s i ott ports).
Proof.
  unfold notify. revert s. induction ports as [|p ports IH]; intros s; simpl; [apply Rw_refl|].
  eapply Rw_trans; [|apply IH].
  generalize (trig st i p). intros l. revert s. induction l as [|[dest d] l IHl]; intros s; simpl; [apply Rw_refl|].
  eapply Rw_trans; [|apply IHl].
  destruct ((until st <=? thd (act ott d))); [apply Rw_refl|apply Rw_schedule].
Qed.
Lemma Rw_loop_eval (s:state) i : Rw s (loop_eval st s i).
Proof.
  intros j. destruct (Nat.eq_dec j i) as [->|Hj].
  - right. unfold loop_eval. intros t0.
    destruct (until st <=? thd (prog (s i))); [rewrite upd_same; simpl; discriminate|].
    destruct (tmin (nexts (s i))) as [m|] eqn:E; [destruct (teq m (prog (s i)))|]; rewrite upd_same; simpl; try discriminate.
    intros H; injection H as <-. apply tmin_spec in E. tauto.
  - left. destruct (loop_eval_same s i j) as (_ & N & _). rewrite N. split; [apply loop_eval_pc; auto|apply incl_refl].
Qed.
Lemma Rw_wake (s:state) : Rw s (wake_sleepers st s).
Proof.
  unfold wake_sleepers. generalize (seq 0 (nsims st)). intros l. revert s. induction l as [|i l IH]; intros s; simpl; [apply Rw_refl|].
  eapply Rw_trans; [|apply IH].
  destruct (pc (s i)); try apply Rw_refl.
  destruct (tle await (prog (s i)) || newer (s i)); [apply Rw_loop_eval|apply Rw_refl].
Qed.
Lemma Rw_finish (s:state) i ott ports s' : finish_step st s i ott ports = Ok s' -> Rw s s'.
Proof.
  rewrite finish_step_eq. set (s1 := upd s i _).
  destruct (fold_left _ (seq 0 (nsims st)) _) as [s3|e] eqn:E; [|discriminate].
  intros H; injection H as <-.
  assert (R0 : Rw s s1).
  { intros j. left. unfold s1, upd. destruct (Nat.eqb_spec j i); [subst j|]; simpl; split; auto; apply incl_refl. }
  eapply Rw_trans; [exact R0|]. eapply Rw_trans; [apply Rw_notify|]. eapply Rw_trans; [eapply Rw_advance_all; exact E|].
  eapply Rw_trans; [apply Rw_loop_eval|apply Rw_wake].
Qed.

Theorem apply_waitin s e s' : WaitIn s -> apply st s e = Ok s' -> WaitIn s'.
Proof.
  intros HW. destruct e as [i | i t m | i nxt | i ot ports | | i | ib]; simpl.
  - destruct (pc (s i)); try discriminate.
    destruct (advance st s i) as [s1|] eqn:E; [|discriminate]. intros H; injection H as <-.
    eapply Rw_ok; [|exact HW]. eapply Rw_trans; [eapply Rw_advance; eauto|]. eapply Rw_trans; [apply Rw_loop_eval|apply Rw_wake].
  - destruct (begin_enabled st s i); simpl; try discriminate.
    destruct (tmin (nexts (s i))) as [t'|]; try discriminate.
    destruct (teq t' t); simpl; try discriminate. destruct (teq t' (prog (s i))); simpl; try discriminate.
    destruct (loop_exceeded st t'); simpl; try discriminate.
    match goal with |- (if ?c then _ else _) = _ -> _ => destruct c end; try discriminate.
    intros H; injection H as <-. eapply Rw_ok; [|exact HW].
    intros j. unfold upd. destruct (Nat.eqb_spec j i); [right; simpl; discriminate | left; split; auto; apply incl_refl].
  - destruct (pc (s i)) eqn:Epc; try discriminate.
    destruct (cur (s i)) as [t|] eqn:Ecur; try discriminate.
    set (s1 := upd s i _).
    assert (R1 : Rw s s1).
    { intros j. unfold s1, upd. destruct (Nat.eqb_spec j i); [right; simpl; discriminate | left; split; auto; apply incl_refl]. }
    assert (Hgo : forall s2, Rw s s2 ->
              (if outreq st i
               then Ok (upd s2 i (mkSim InData (prog (s2 i)) (nexts (s2 i)) (cur (s2 i)) (last (s2 i)) (newer (s2 i))))
               else finish_step st s2 i t []) = Ok s' -> WaitIn s').
    { intros s2 R2. destruct (outreq st i).
      - intros H; injection H as <-. eapply Rw_ok; [|exact HW]. eapply Rw_trans; [exact R2|].
        intros j. unfold upd. destruct (Nat.eqb_spec j i); [right; simpl; discriminate | left; split; auto; apply incl_refl].
      - intros H. eapply Rw_ok; [|exact HW]. eapply Rw_trans; [exact R2|]. eapply Rw_finish; eauto. }
    destruct nxt as [v|].
    + destruct (v <=? thd t); try discriminate. apply Hgo.
      destruct (v <? until st); [eapply Rw_trans; [exact R1|apply Rw_schedule]|exact R1].
    + destruct (timebased st i); try discriminate. apply Hgo; auto.
  - destruct (pc (s i)); try discriminate. destruct (cur (s i)); try discriminate.
    destruct (ot <? thd (last (s i))); try discriminate.
    intros H. eapply Rw_ok; [|exact HW]. eapply Rw_finish; eauto.
  - destruct (existsb _ _); [discriminate|]. intros H; injection H as <-. exact HW.
  - destruct (begin_enabled st s i); simpl; try discriminate.
    destruct (tmin (nexts (s i))); try discriminate. destruct (_ && _); try discriminate.
    intros H; injection H as <-. exact HW.
  - (* STEPBAD *) destruct (pc (s ib)); try discriminate; destruct (cur (s ib)); discriminate.
Qed.

(* ---- the core of C01: when BEGIN(j,t) is accepted, every current or scheduled step of every
        input predecessor k lies strictly beyond t after the connection delay ---- *)
Hypothesis indel_shape : forall j k d c, In (k,d) (indel st j) -> length c = depth st k -> length (act c d) = depth st j.
Theorem causal_readiness_at_begin s j t m s' :
  Inv' s -> WaitIn s -> apply st s (EvBegin j t m) = Ok s' ->
  forall k d c, In (k,d) (indel st j) -> In c (cands (s k)) -> tlt t (act c d) = true.
Proof.
  intros [[HS HL] _] HW. simpl.
  destruct (begin_enabled st s j) eqn:En; simpl; try discriminate.
  destruct (tmin (nexts (s j))) as [t'|] eqn:E; try discriminate.
  destruct (teq t' t) eqn:E1; simpl; try discriminate. apply teq_eq in E1. subst t'.
  intros _ k d c Hk Hc.
  unfold begin_enabled in En. destruct (pc (s j)) eqn:Epc; try discriminate.
  unfold deps_ok in En. apply andb_true_iff in En as [En _]. apply andb_true_iff in En as [En _].
  rewrite forallb_forall in En. specialize (En (k,d) Hk). simpl in En.
  (* the popped minimum t is <= the time t0 captured when the simulator settled *)
  assert (Hle : tle t t0 = true) by (apply tmin_spec in E; apply E; apply HW; exact Epc).
  assert (Hlt : tlt t (act (prog (s k)) d) = true).
  { destruct (tlt_trichotomy t (act (prog (s k)) d)) as [H|[H|H]]; auto.
    - subst t. unfold tle in Hle. rewrite En in Hle. discriminate.
    - pose proof (tlt_trans _ _ _ En H) as H2. unfold tle in Hle. rewrite H2 in Hle. discriminate. }
  eapply tlt_tle_trans; [exact Hlt|].
  apply act_mono.
  - destruct (HS k) as [A B]. rewrite A, (B c Hc). reflexivity.
  - destruct (HL k) as (_ & B & _). apply B; exact Hc.
Qed.

(* ---- trace level: C01 for whole runs ---- *)
Fixpoint run (s:state) (evs:list event) : res (list state) :=   (* returns the states after each event *)
  match evs with
  | [] => Ok []
  | e :: r => match apply st s e with
              | Ok s' => match run s' r with Ok l => Ok (s' :: l) | Err x => Err x end
              | Err x => Err x end
  end.

Lemma run_inv s evs l : Inv' s -> WaitIn s -> run s evs = Ok l ->
  forall p sp, nth_error (s :: l) p = Some sp -> Inv' sp /\ WaitIn sp /\ prog_le s sp.
Proof.
  revert s l; induction evs as [|e r IH]; intros s l HI HW H p sp Hp; simpl in H.
  - injection H as <-. destruct p as [|[|p]]; simpl in Hp; try discriminate.
    injection Hp as <-. split; [exact HI|]. split; [exact HW|]. apply prog_le_refl.
  - destruct (apply st s e) as [s'|] eqn:E; [|discriminate].
    destruct (run s' r) as [l'|] eqn:E2; [|discriminate]. injection H as <-.
    destruct p as [|p]; simpl in Hp.
    + injection Hp as <-. split; [exact HI|]. split; [exact HW|]. apply prog_le_refl.
    + destruct (IH s' l' (apply_inv _ _ _ HI E) (apply_waitin _ _ _ HW E) E2 p sp Hp) as (A & B & C).
      split; [exact A|]. split; [exact B|]. eapply prog_le_trans; [eapply apply_prog_mono; eauto|exact C].
Qed.

Lemma run_split s evs l p : run s evs = Ok l -> (p < length evs)%nat ->
  exists sp e sp' l2, nth_error (s :: l) p = Some sp /\ nth_error evs p = Some e /\ apply st sp e = Ok sp'
                      /\ nth_error (s :: l) (S p) = Some sp' /\ run sp' (skipn (S p) evs) = Ok l2 /\ l2 = skipn (S p) l.
Proof.
  revert s l p; induction evs as [|e r IH]; intros s l p H Hp; simpl in *; [lia|].
  destruct (apply st s e) as [s'|] eqn:E; [|discriminate].
  destruct (run s' r) as [l'|] eqn:E2; [|discriminate]. injection H as <-.
  destruct p as [|p].
  - exists s, e, s', l'. simpl. repeat split; auto.
  - destruct (IH s' l' p E2 ltac:(lia)) as (sp & e' & sp' & l2 & A & B & C & D & F & G).
    exists sp, e', sp', l2. simpl. repeat split; auto.
Qed.

Lemma nth_error_skipn' {A} (l:list A) n i : nth_error (skipn n l) i = nth_error l (n + i).
Proof. revert l; induction n; intros [|x l]; simpl; auto. destruct i; auto. Qed.
Lemma nth_shift {A} (x y : A) l p q : nth_error (x :: l) (S p) = Some y -> (p < q)%nat ->
  nth_error (y :: skipn (S p) l) (q - S p) = nth_error (x :: l) q.
Proof.
  intros H Hpq. destruct (Nat.eq_dec q (S p)) as [->|Hne].
  - rewrite Nat.sub_diag. simpl. simpl in H. symmetry; exact H.
  - destruct q as [|q']; [lia|]. replace (S q' - S p)%nat with (S (q' - S p)) by lia.
    change (nth_error (skipn (S p) l) (q' - S p) = nth_error l q').
    rewrite nth_error_skipn'. f_equal. lia.
Qed.

(* C01, trace form: if BEGIN(j,t) is accepted at position p and BEGIN(k,u) at a later position q,
   and k feeds j with (minimum) delay d, then u shifted by d lies strictly after t. *)
Theorem C01_trace s0 evs l p q j t m k u m' d :
  Inv' s0 -> WaitIn s0 -> run s0 evs = Ok l ->
  (p < q)%nat -> nth_error evs p = Some (EvBegin j t m) -> nth_error evs q = Some (EvBegin k u m') ->
  In (k,d) (indel st j) ->
  tlt t (act u d) = true.
Proof.
  intros HI HW Hrun Hpq Hp Hq Hk.
  assert (Hlp : (p < length evs)%nat) by (apply nth_error_Some; congruence).
  assert (Hlq : (q < length evs)%nat) by (apply nth_error_Some; congruence).
  destruct (run_split _ _ _ p Hrun Hlp) as (sp & e & sp' & l2 & A & B & C & D & F & G).
  rewrite Hp in B. injection B as <-.
  destruct (run_split _ _ _ q Hrun Hlq) as (sq & e' & sq' & l3 & A' & B' & C' & D' & F' & G').
  rewrite Hq in B'. injection B' as <-.
  destruct (run_inv _ _ _ HI HW Hrun p sp A) as (HIp & HWp & _).
  destruct (run_inv _ _ _ HI HW Hrun q sq A') as (HIq & HWq & _).
  (* progress of k at q is >= progress of k at p: sq is reached from sp *)
  assert (Hmono : prog_le sp sq).
  { (* sq = nth (q) of (s0::l); it lies in the run from sp' *)
    destruct (run_inv sp' (skipn (S p) evs) l2 (apply_inv _ _ _ HIp C) (apply_waitin _ _ _ HWp C) F (q - S p) sq) as (_ & _ & M).
    - subst l2. rewrite (nth_shift s0 sp' l p q D Hpq). exact A'.
    - eapply prog_le_trans; [eapply apply_prog_mono; eauto|exact M]. }
  (* at p: guard gives t < act (prog_p k) d *)
  assert (Hguard : tlt t (act (prog (sp k)) d) = true).
  { clear - C Hk HWp. simpl in C.
    destruct (begin_enabled st sp j) eqn:En; simpl in C; try discriminate.
    destruct (tmin (nexts (sp j))) as [t'|] eqn:E; try discriminate.
    destruct (teq t' t) eqn:E1; simpl in C; try discriminate. apply teq_eq in E1. subst t'.
    unfold begin_enabled in En. destruct (pc (sp j)) eqn:Epc; try discriminate.
    unfold deps_ok in En. apply andb_true_iff in En as [En _]. apply andb_true_iff in En as [En _].
    rewrite forallb_forall in En. specialize (En (k,d) Hk). simpl in En.
    assert (Hle : tle t t0 = true) by (apply tmin_spec in E; apply E; apply HWp; exact Epc).
    destruct (tlt_trichotomy t (act (prog (sp k)) d)) as [H|[H|H]]; auto.
    - subst t. unfold tle in Hle. rewrite En in Hle. discriminate.
    - pose proof (tlt_trans _ _ _ En H) as H2. unfold tle in Hle. rewrite H2 in Hle. discriminate. }
  (* at q: the accepted step u equals prog_q k *)
  assert (Hu : u = prog (sq k)).
  { clear - C'. simpl in C'.
    destruct (begin_enabled st sq k); simpl in C'; try discriminate.
    destruct (tmin (nexts (sq k))) as [t'|]; try discriminate.
    destruct (teq t' u) eqn:E1; simpl in C'; try discriminate. apply teq_eq in E1. subst t'.
    destruct (teq u (prog (sq k))) eqn:E2; simpl in C'; try discriminate. apply teq_eq in E2. exact E2. }
  subst u.
  eapply tlt_tle_trans; [exact Hguard|].
  apply act_mono; [|apply Hmono].
  destruct HIp as [[HSp _] _]. destruct HIq as [[HSq _] _]. rewrite (proj1 (HSp k)), (proj1 (HSq k)). reflexivity.
Qed.
End Inv.

