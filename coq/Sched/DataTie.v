(* Tie between the generated get_input_data (Gen/InputData.v, regenerated from mosaik/scheduler.py on every run) and the
   data plane's model of it (Sched/Plane.v), which the C03/C04 theorems are about.  Dicts have unique keys. *)
From Coq Require Import ZArith List Bool Arith.
Import ListNotations.
From MV Require Import Time.Spec Static.Build Sched.Timing Sched.Plane Sched.GenData Sched.MergeTie.
From MV Require Gen.InternalUtil Gen.InputData.
Open Scope Z_scope.

Theorem tie_get_input_data dt ds i step :
  NoDup (map fst (persist (ds i))) -> (forall a m, In (a, m) (persist (ds i)) -> NoDup (map fst m)) ->
  let d := ds i in
  let '(inp, p', q', sd') := Gen.InputData.get_input_data (setdata d) (persist d) (buffer d) (pulled dt i) (fun src => outputs (ds src)) step in
  Plane.get_input_data dt ds i step = (inp, dupd ds i (mkD (outputs d) q' (bcount d) p' sd')).
Proof.
  intros Hp Hm. cbv zeta. unfold Gen.InputData.get_input_data, Plane.get_input_data, timed_get_input. cbv zeta.
  rewrite <- tie_merge_all. rewrite <- (tie_merge_existing _ _ Hp Hm). reflexivity.
Qed.

(* the data part of scheduler.get_outputs *)
Theorem tie_put_outputs dt ds i ot data :
  Gen.InputData.put_outputs (d_cache dt) (pushes dt i) ds i ot data = Plane.put_outputs dt ds i ot data.
Proof. reflexivity. Qed.

Lemma fold_max_nonneg : forall l x, 0 <= x -> fold_left Z.max l (Z.max 0 x) = fold_left Z.max l x.
Proof. intros l x H. rewrite Z.max_r by exact H. reflexivity. Qed.

Lemma zmax_d_is_fold l : (forall x, In x l -> 0 <= x) -> zmax_d l 0 = fold_left Z.max l 0.
Proof.
  destruct l as [|x r]; intros H; [reflexivity|]. simpl. rewrite fold_max_nonneg; [reflexivity|]. apply H. left. reflexivity.
Qed.

Lemma filter_ext' {A} (f g : A -> bool) l : (forall x, f x = g x) -> filter f l = filter g l.
Proof. intros H. induction l as [|a l IH]; simpl; [reflexivity|]. rewrite H, IH. reflexivity. Qed.

(* scheduler.prune_dataflow_cache (time shifts of pulled connections are not negative) *)
Theorem tie_prune st dt s ds : (forall j g, In g (pulled dt j) -> 0 <= snd (fst g)) -> forall i,
  Gen.InputData.prune_dataflow_cache (d_cache dt) (seq 0 (nsims st)) (pulled dt) (fun j => thd (last (s j))) ds i = Plane.prune st dt s ds i.
Proof.
  intros Hs i. unfold Gen.InputData.prune_dataflow_cache, Plane.prune. destruct (d_cache dt); cbn [negb]; [|reflexivity].
  cbv zeta. unfold max_shift, min_last. rewrite zmax_d_is_fold.
  - destruct (outputs (ds i)) as [|o os] eqn:Eo; [reflexivity|]. unfold with_outputs. f_equal.
    apply filter_ext'. intros e. apply Z.geb_leb.
  - intros x Hx. apply in_flat_map in Hx as (j & _ & Hx). apply in_map_iff in Hx as (g & <- & Hg). eapply Hs. exact Hg.
Qed.

(* MosaikRemote.set_data: one write, as the data plane's DSetData event - refused unless the caller is an async-requests
   successor of the destination (every async-requests successor is a successor: World.connect_one enters both) *)
Theorem tie_set_data st dt s ds i w j a v successors :
  (forall x, In x (map fst (succ_wait st j)) -> In x successors) ->
  dapply st dt (s, ds) (DSetData i w j a v) =
  match Gen.InputData.set_data_write successors (map fst (succ_wait st j)) (setdata (ds j)) i (w * nsims st + i)%nat a v with
  | Some sd' => let x := ds j in DOk s (dupd ds j (mkD (outputs x) (buffer x) (bcount x) (persist x) sd')) None
  | None => DAsyncRefused i j
  end.
Proof.
  intros Hsub. unfold dapply, Gen.InputData.set_data_write, Gen.InputData.async_requests_refused.
  assert (He : existsb (fun jd : nat * interval => Nat.eqb (fst jd) i) (succ_wait st j) = existsb (Nat.eqb i) (map fst (succ_wait st j))).
  { clear Hsub. induction (succ_wait st j) as [|[k d] l IH]; [reflexivity|]. cbn [existsb map fst]. rewrite IH, (Nat.eqb_sym k i). reflexivity. }
  rewrite He. destruct (existsb (Nat.eqb i) (map fst (succ_wait st j))) eqn:E.
  - assert (Hs : existsb (Nat.eqb i) successors = true).
    { apply existsb_exists in E as (x & Hx & Ex). apply Nat.eqb_eq in Ex. subst x. apply existsb_exists. exists i. split; [apply Hsub, Hx|apply Nat.eqb_refl]. }
    rewrite Hs. reflexivity.
  - rewrite orb_true_r. reflexivity.
Qed.
