(* Known finding F11, its core on the model of the output cache (scheduler.get_outputs / SimRunner.get_output_for, both tied to the
   source): the cache is keyed by the integer time of a step, not by its tiered time, so the output of a later sub-step of
   the same time REPLACES that of the earlier sub-step - a reader that looks at the cache afterwards, for whatever tiered time
   (t, k), is given the later sub-step's value; the earlier one is gone. *)
From Coq Require Import ZArith List Bool Arith.
Import ListNotations.
From MV Require Import Time.Spec Static.Build Sched.Timing Sched.Plane.
Open Scope Z_scope.

Lemma zeqb_refl_aset {V} k (v w : V) : aset_z k w (aset_z k v []) = [(k, w)].
Proof. simpl. rewrite Z.eqb_refl. reflexivity. Qed.

Theorem cache_does_not_keep_sub_steps_apart dt ds i ot d1 d2 :
  d_cache dt = true -> pushes dt i = [] -> outputs (ds i) = [] ->
  let ds' := put_outputs dt (put_outputs dt ds i ot d1) i ot d2 in
  outputs (ds' i) = [(ot, d2)] /\ get_output_for (outputs (ds' i)) ot = d2.
Proof.
  intros Hc Hp Ho. unfold put_outputs. rewrite Hc, Hp. cbn [fold_left]. unfold dupd. rewrite !Nat.eqb_refl. cbn [outputs].
  rewrite Ho, zeqb_refl_aset. split; [reflexivity|]. unfold get_output_for. cbn [rev app find fst snd]. rewrite Z.leb_refl. reflexivity.
Qed.
