(* C03, pushed values and the persistent memory, one step: for a slot (attribute a, source k) that no pulled connection
   writes, the step is given the value of the LAST due buffer entry for that slot in (due time, arrival number) order,
   and if none is due what the registers hold (set_data value, else the remembered value / initial data); afterwards
   the memory of an existing slot holds what the step was given.  The due entries are applied in sorted order. *)
From Coq Require Import ZArith List Bool Arith Lia Sorting.Sorted.
Import ListNotations.
From MV Require Import Time.Spec Static.Build Static.Cycle Static.CycleP Sched.Timing Sched.Plane Sched.DataP Sched.PruneRun Sched.SetData.
Open Scope Z_scope.

Definition slot (a:attr) (k:nat) (e:bufentry) : bool := Nat.eqb (battr e) a && Nat.eqb (bsrc e) k.
(* the last entry of a list that writes slot (a,k) *)
Definition last_for (a:attr) (k:nat) (l:list bufentry) : option bufentry := find (slot a k) (rev l).

Lemma fold_iset_last a k : forall l inp0,
  iget a k (fold_left (fun inp e => iset (battr e) (bsrc e) (Some (bval e)) inp) l inp0) =
  match last_for a k l with Some e => Some (Some (bval e)) | None => iget a k inp0 end.
Proof.
  intros l. induction l as [|e l IH] using rev_ind; intros inp0; [reflexivity|].
  rewrite fold_left_app. simpl. unfold last_for. rewrite rev_app_distr. simpl.
  rewrite iget_iset. unfold slot at 1. rewrite (Nat.eqb_sym a), (Nat.eqb_sym k).
  destruct (Nat.eqb (battr e) a && Nat.eqb (bsrc e) k); [reflexivity|]. apply IH.
Qed.

(* the pulled stage leaves a slot alone that no pulled flow writes *)
Definition not_pulled (dt:dstatic) (i:nat) (a:attr) (k:nat) : Prop :=
  forall src sh flows sa da, In ((src, sh), flows) (pulled dt i) -> In (sa, da) flows -> ~ (da = a /\ src = k).
Lemma pulled_stage_frame dt i a k look step : not_pulled dt i a k -> forall inp,
  iget a k (fold_left (fun inp (g : (nat*Z) * list (attr*attr)) => let '((src,sh),flows) := g in
               let cache := look src (step - sh) in
               fold_left (fun inp (f:attr*attr) => let (sa,da) := f in iset da src (aget sa cache) inp) flows inp) (pulled dt i) inp) = iget a k inp.
Proof.
  intros NP. unfold not_pulled in NP. revert NP. generalize (pulled dt i). intros l. induction l as [|[[src sh] flows] l IH]; intros NP inp; simpl; [reflexivity|].
  rewrite IH by (intros; eapply NP; eauto; right; eassumption).
  assert (F : forall fl inp1, (forall sa da, In (sa, da) fl -> ~ (da = a /\ src = k)) ->
     iget a k (fold_left (fun inp (f:attr*attr) => let (sa,da) := f in iset da src (aget sa (look src (step - sh))) inp) fl inp1) = iget a k inp1).
  { induction fl as [|[sa da] fl IHf]; intros inp1 Hn; simpl; [reflexivity|].
    rewrite IHf by (intros; eapply Hn; right; eassumption). rewrite iget_iset.
    destruct (Nat.eqb_spec a da) as [->|]; simpl; [|reflexivity]. destruct (Nat.eqb_spec k src) as [->|]; [|reflexivity].
    exfalso. apply (Hn sa da (or_introl eq_refl)). auto. }
  apply F. intros sa da Hin. apply (NP src sh flows sa da (or_introl eq_refl) Hin).
Qed.

(* merge_existing: an existing slot takes the step's value when there is one, a missing slot stays missing *)
Lemma aget_map_keys {V} (f : nat * V -> nat * V) (l : list (nat * V)) x : (forall p, fst (f p) = fst p) ->
  aget x (map f l) = match aget x l with Some v => Some (snd (f (x, v))) | None => None end.
Proof.
  intros Hf. induction l as [|[y v] l IH]; simpl; [reflexivity|].
  pose proof (Hf (y, v)) as E. destruct (f (y, v)) as [y' v'] eqn:Ef. simpl in E. subst y'.
  destruct (Nat.eqb_spec x y) as [->|Hn]; [rewrite Ef; reflexivity|exact IH].
Qed.
Lemma iget_merge_existing p inp a k :
  iget a k (merge_existing_i p inp) = match iget a k p with
                                      | Some old => Some (match iget a k inp with Some new => new | None => old end)
                                      | None => None end.
Proof.
  unfold iget, merge_existing_i.
  erewrite aget_map_keys by (intros [a0 m]; simpl; destruct (aget a0 inp); reflexivity).
  destruct (aget a p) as [m|]; [|reflexivity]. destruct (aget a inp) as [im|]; simpl; [|destruct (aget k m); reflexivity].
  erewrite aget_map_keys by (intros [s v]; simpl; destruct (aget s im); reflexivity).
  destruct (aget k m) as [old|]; [|reflexivity]. simpl. destruct (aget k im); reflexivity.
Qed.

Theorem pushed_value_and_memory dt ds i step inp ds' a k : get_input_data dt ds i step = (inp, ds') -> not_pulled dt i a k ->
  let due := sort_b (filter (fun e => btime e <=? step) (buffer (ds i))) in
  iget a k inp = match last_for a k due with
                 | Some e => Some (Some (bval e))
                 | None => iget a k (merge_all_i (setdata (ds i)) (persist (ds i))) end /\
  iget a k (persist (ds' i)) = match iget a k (persist (ds i)) with
                               | Some old => Some (match iget a k inp with Some new => new | None => old end)
                               | None => None end.
Proof.
  intros H NP. rewrite gid_core_eq in H. injection H as <- <-. unfold gid_core. cbn [fst snd].
  split.
  - rewrite (pulled_stage_frame dt i a k (fun src x => get_output_for (outputs (ds src)) x) step NP). apply fold_iset_last.
  - unfold dupd. rewrite Nat.eqb_refl. cbn [persist]. apply iget_merge_existing.
Qed.

(* the due entries are applied in (due time, arrival number) order: the last entry for a slot is the one with the
   largest due time, and among equal due times the one that arrived last *)
Definition ble (e x : bufentry) : Prop := btime e < btime x \/ (btime e = btime x /\ (bctr e <= bctr x)%nat).
Lemma insert_b_sorted e : forall l, StronglySorted ble l -> StronglySorted ble (insert_b e l).
Proof.
  induction l as [|x r IH]; intros Hs; simpl; [constructor; constructor|].
  inversion Hs as [|? ? Hr Hx]; subst.
  destruct ((btime e <? btime x) || ((btime e =? btime x) && Nat.ltb (bctr e) (bctr x))) eqn:E.
  - constructor; [exact Hs|]. assert (Hex : ble e x).
    { apply orb_true_iff in E as [E|E]; [left; apply Z.ltb_lt; exact E|]. apply andb_true_iff in E as [E1 E2].
      apply Z.eqb_eq in E1. apply Nat.ltb_lt in E2. right. split; [exact E1|lia]. }
    constructor; [exact Hex|]. rewrite Forall_forall in *. intros y Hy. specialize (Hx y Hy).
    unfold ble in *. destruct Hex as [A|[A B]], Hx as [C|[C D]]; [left|left|left|right]; try lia.
  - constructor; [apply IH; exact Hr|]. rewrite Forall_forall in *. intros y Hy.
    assert (Hy' : y = e \/ In y r).
    { clear -Hy. induction r as [|z r IHr]; simpl in Hy; [destruct Hy as [<-|[]]; auto|].
      destruct ((btime e <? btime z) || ((btime e =? btime z) && Nat.ltb (bctr e) (bctr z))); simpl in Hy.
      - destruct Hy as [<-|[<-|Hy]]; auto. right; left; reflexivity. right; right; exact Hy.
      - destruct Hy as [<-|Hy]; [right; left; reflexivity|]. destruct (IHr Hy) as [->|Hr]; auto. right; right; exact Hr. }
    destruct Hy' as [->|Hy']; [|apply Hx; exact Hy'].
    apply orb_false_iff in E as [E1 E2]. apply Z.ltb_ge in E1. unfold ble.
    destruct (Z.eq_dec (btime e) (btime x)) as [Eq|Ne]; [|left; lia].
    rewrite Eq, Z.eqb_refl in E2. simpl in E2. apply Nat.ltb_ge in E2. right. split; [lia|lia].
Qed.
Lemma sort_b_sorted l : StronglySorted ble (sort_b l).
Proof. induction l as [|e l IH]; simpl; [constructor|apply insert_b_sorted; exact IH]. Qed.

Lemma last_for_is_max a k : forall l e, StronglySorted ble l -> last_for a k l = Some e ->
  In e l /\ slot a k e = true /\ forall x, In x l -> slot a k x = true -> ble x e \/ x = e.
Proof.
  intros l. induction l as [|y l IH] using rev_ind; intros e Hs H; [discriminate|].
  unfold last_for in H. rewrite rev_app_distr in H. simpl in H.
  assert (Hs' : StronglySorted ble l /\ forall x, In x l -> ble x y).
  { clear -Hs. induction l as [|z l IHl]; simpl in *; [split; [constructor|intros x []]|].
    inversion Hs as [|? ? Hr Hz]; subst. destruct (IHl Hr) as [A B]. split.
    - constructor; [exact A|]. rewrite Forall_forall in *. intros x Hx. apply Hz. apply in_or_app. left. exact Hx.
    - intros x [<-|Hx]; [rewrite Forall_forall in Hz; apply Hz; apply in_or_app; right; left; reflexivity|apply B; exact Hx]. }
  destruct Hs' as [Hsl Hle].
  destruct (slot a k y) eqn:Ey.
  - injection H as <-. split; [apply in_or_app; right; left; reflexivity|]. split; [exact Ey|].
    intros x Hx _. apply in_app_or in Hx as [Hx|[<-|[]]]; [left; apply Hle; exact Hx|right; reflexivity].
  - destruct (IH e Hsl H) as (A & B & C). split; [apply in_or_app; left; exact A|]. split; [exact B|].
    intros x Hx Sx. apply in_app_or in Hx as [Hx|[<-|[]]]; [apply C; assumption|congruence].
Qed.
Theorem last_due_is_latest a k l e : last_for a k (sort_b l) = Some e ->
  In e l /\ slot a k e = true /\ forall x, In x l -> slot a k x = true -> ble x e \/ x = e.
Proof.
  intros H. destruct (last_for_is_max a k (sort_b l) e (sort_b_sorted l) H) as (A & B & C).
  split; [apply sort_b_in; exact A|]. split; [exact B|]. intros x Hx. apply C. apply sort_b_in. exact Hx.
Qed.
