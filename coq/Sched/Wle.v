(* A simulator that waits for its dependencies at t0 has progress >= t0 (it entered the wait when its earliest
   step met its progress, and progress only grows); with Inv and WaitIn this makes the step it finally pops equal
   to the step it waited for. *)
From Coq Require Import ZArith List Bool Arith Lia.
Import ListNotations.
From MV Require Import Time.Spec Time.Ord Sched.Timing Sched.Inv.
Open Scope Z_scope.

Section W.
Variable st : static.
Definition WLe (s:state) : Prop := forall j t0, pc (s j) = WaitDeps t0 -> tle t0 (prog (s j)) = true.

(* P s s' : pointwise, either (pc kept, progress not smaller) or the fact already holds in s' *)
Definition Pw (s s':state) : Prop := forall j,
  (pc (s' j) = pc (s j) /\ tle (prog (s j)) (prog (s' j)) = true) \/ (forall t0, pc (s' j) = WaitDeps t0 -> tle t0 (prog (s' j)) = true).
Lemma Pw_refl s : Pw s s. Proof. intros j; left; split; auto. apply tle_refl. Qed.
Lemma Pw_trans a b c : Pw a b -> Pw b c -> Pw a c.
Proof.
  intros H1 H2 j. destruct (H2 j) as [[E2 L2]|F2]; [|right; exact F2].
  destruct (H1 j) as [[E1 L1]|F1].
  - left. split; [congruence|]. eapply tle_trans; eauto.
  - right. intros t0 Ht. rewrite E2 in Ht. eapply tle_trans; [apply F1; exact Ht|exact L2].
Qed.
Lemma Pw_ok s s' : Pw s s' -> WLe s -> WLe s'.
Proof.
  intros HP HW j t0 Ht. destruct (HP j) as [[E L]|F]; [|apply F; exact Ht].
  rewrite E in Ht. eapply tle_trans; [apply HW; exact Ht|exact L].
Qed.

Lemma Pw_schedule s i t : Pw s (schedule s i t).
Proof.
  intros j. left. unfold schedule. destruct (memT t (nexts (s i))); [split; auto; apply tle_refl|].
  unfold upd. destruct (Nat.eqb_spec j i); [subst|]; simpl; split; auto; apply tle_refl.
Qed.
Lemma Pw_advance s i s' : advance st s i = Ok s' -> Pw s s'.
Proof.
  unfold advance. destruct (tlt (new_progress st s i) (prog (s i))) eqn:E; [discriminate|].
  intros H; injection H as <-. intros j. left. unfold upd. destruct (Nat.eqb_spec j i); [subst|]; simpl.
  - split; auto. unfold tle. rewrite E. reflexivity.
  - split; auto. apply tle_refl.
Qed.
Lemma Pw_loop_eval s i : Pw s (loop_eval st s i).
Proof.
  intros j. unfold loop_eval.
  destruct (until st <=? thd (prog (s i))).
  - unfold upd. destruct (Nat.eqb_spec j i); [subst; right; simpl; intros; discriminate|left; split; auto; apply tle_refl].
  - destruct (tmin (nexts (s i))) as [m|].
    + destruct (teq m (prog (s i))) eqn:E.
      * unfold upd. destruct (Nat.eqb_spec j i); [subst|left; split; auto; apply tle_refl].
        right. simpl. intros t0 H. injection H as <-. apply teq_eq in E. rewrite E. apply tle_refl.
      * unfold upd. destruct (Nat.eqb_spec j i); [subst; right; simpl; intros; discriminate|left; split; auto; apply tle_refl].
    + unfold upd. destruct (Nat.eqb_spec j i); [subst; right; simpl; intros; discriminate|left; split; auto; apply tle_refl].
Qed.
Lemma Pw_wake s : Pw s (wake_sleepers st s).
Proof.
  unfold wake_sleepers. generalize (seq 0 (nsims st)). intros l. revert s.
  induction l as [|i l IH]; intros s; simpl; [apply Pw_refl|].
  eapply Pw_trans; [|apply IH].
  destruct (pc (s i)); try apply Pw_refl. destruct (tle await (prog (s i)) || newer (s i)); [apply Pw_loop_eval|apply Pw_refl].
Qed.
Lemma Pw_upd_nowait s i v : (forall t0, pc v <> WaitDeps t0) -> Pw s (upd s i v).
Proof.
  intros H j. unfold upd. destruct (Nat.eqb_spec j i); [subst; right; intros t0 E; exfalso; eapply H; eauto|left; split; auto; apply tle_refl].
Qed.
Lemma Pw_advance_all l : forall s s', fold_left (fun (r:res state) j => match r with Ok s => advance st s j | e => e end) l (Ok s) = Ok s' -> Pw s s'.
Proof.
  induction l as [|j l IH]; intros s s' H; simpl in H.
  - injection H as <-. apply Pw_refl.
  - destruct (advance st s j) as [s1|e] eqn:E.
    + eapply Pw_trans; [eapply Pw_advance; eauto|apply IH; exact H].
    + exfalso. clear -H. induction l; simpl in H; [discriminate|auto].
Qed.
Lemma Pw_notify ports : forall s i ott,
  Pw s (fold_left (fun s p => fold_left (fun s (dd:nat*interval) => let (dest,d) := dd in
                 let tt := act ott d in if until st <=? thd tt then s else schedule s dest tt) (trig st i p) s) ports s).
Proof.
  induction ports as [|p ports IH]; intros s i ott; simpl; [apply Pw_refl|].
  eapply Pw_trans; [|apply IH].
  generalize (trig st i p). intros l. revert s. induction l as [|[dest d] l IHl]; intros s; simpl; [apply Pw_refl|].
  eapply Pw_trans; [|apply IHl]. destruct (until st <=? thd (act ott d)); [apply Pw_refl|apply Pw_schedule].
Qed.
Lemma Pw_finish s i ott ports s' : finish_step st s i ott ports = Ok s' -> Pw s s'.
Proof.
  unfold finish_step.
  set (s1 := upd s i _). set (s2 := fold_left _ ports s1).
  destruct (fold_left _ (seq 0 (nsims st)) (Ok s2)) as [s3|e] eqn:E; [|discriminate].
  intros H; injection H as <-.
  eapply Pw_trans; [|apply Pw_wake]. eapply Pw_trans; [|apply Pw_loop_eval].
  eapply Pw_trans; [|eapply Pw_advance_all; exact E].
  eapply Pw_trans; [|apply Pw_notify].
  intros j. left. unfold s1, upd. destruct (Nat.eqb_spec j i); [subst|]; simpl; split; auto; apply tle_refl.
Qed.

Theorem apply_wle s e s' : WLe s -> apply st s e = Ok s' -> WLe s'.
Proof.
  intros HW. destruct e as [i | i t m | i nxt | i ot ports | | i | ib]; simpl.
  - destruct (pc (s i)); try discriminate.
    destruct (advance st s i) as [s1|] eqn:E; [|discriminate]. intros H; injection H as <-.
    eapply Pw_ok; [|exact HW]. eapply Pw_trans; [eapply Pw_advance; eauto|]. eapply Pw_trans; [apply Pw_loop_eval|apply Pw_wake].
  - destruct (begin_enabled st s i); simpl; try discriminate.
    destruct (tmin (nexts (s i))) as [t'|]; try discriminate.
    destruct (teq t' t); simpl; try discriminate. destruct (teq t' (prog (s i))); simpl; try discriminate.
    destruct (loop_exceeded st t'); try discriminate.
    destruct (_ =? m); try discriminate. intros H; injection H as <-.
    eapply Pw_ok; [|exact HW]. apply Pw_upd_nowait. simpl. intros; discriminate.
  - destruct (pc (s i)) eqn:Ep; try discriminate. destruct (cur (s i)) as [t|] eqn:Ec; try discriminate.
    set (s1 := upd s i _).
    assert (P1 : Pw s s1) by (apply Pw_upd_nowait; simpl; intros; discriminate).
    destruct nxt as [v|].
    + destruct (v <=? thd t); try discriminate.
      set (s2 := if v <? until st then schedule s1 i (world_time st i v) else s1).
      assert (P2 : Pw s s2) by (unfold s2; destruct (v <? until st); [eapply Pw_trans; [exact P1|apply Pw_schedule]|exact P1]).
      destruct (outreq st i).
      * intros H; injection H as <-. eapply Pw_ok; [|exact HW]. eapply Pw_trans; [exact P2|]. apply Pw_upd_nowait. simpl. intros; discriminate.
      * intros H. eapply Pw_ok; [|exact HW]. eapply Pw_trans; [exact P2|eapply Pw_finish; eauto].
    + destruct (timebased st i); try discriminate. destruct (outreq st i).
      * intros H; injection H as <-. eapply Pw_ok; [|exact HW]. eapply Pw_trans; [exact P1|]. apply Pw_upd_nowait. simpl. intros; discriminate.
      * intros H. eapply Pw_ok; [|exact HW]. eapply Pw_trans; [exact P1|eapply Pw_finish; eauto].
  - destruct (pc (s i)); try discriminate. destruct (cur (s i)) as [c|]; try discriminate.
    destruct (ot <? thd (last (s i))); try discriminate.
    intros H. eapply Pw_ok; [|exact HW]. eapply Pw_finish; eauto.
  - destruct (existsb _ _); try discriminate. intros H; injection H as <-. exact HW.
  - destruct (begin_enabled st s i); simpl; try discriminate.
    destruct (tmin (nexts (s i))) as [t'|]; try discriminate.
    destruct (loop_exceeded st t' && teq t' (prog (s i))); try discriminate. intros H; injection H as <-. exact HW.
  - destruct (pc (s ib)); try discriminate; destruct (cur (s ib)); discriminate.
Qed.

Lemma init_wle : WLe (init_state st).
Proof. intros j t0 H. unfold init_state in H; simpl in H. discriminate. Qed.
End W.
