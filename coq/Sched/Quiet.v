(* Deadlock-freedom (C05, progress) for flat scenarios, run-level statement.
   Sched/Progress.v proves: in a quiet state (nothing in flight) of a flat scenario that satisfies the invariants
   Inv, WaitIn, WLe, Aux and three more facts - every progress is exact, sleepers have been woken, done simulators
   are past until - some simulator is enabled.  This file proves those three facts to be invariants of every run and
   states the result for every state reached from the initial state: either everything is done, or something is in
   flight, or an event (START or BEGIN) is accepted. *)
From Coq Require Import ZArith List Bool Arith Lia.
Import ListNotations.
From MV Require Import Time.Spec Time.Ord Sched.Timing Sched.Inv Sched.Init Sched.Wle Sched.Main Sched.Guards Sched.Final Sched.Live Sched.Progress.
Open Scope Z_scope.

(* ---- the effect of loop_eval / wake_sleepers on one simulator ---- *)
Definition loop_sim (st:static) (i:nat) (x:sim) : sim :=
  if until st <=? thd (prog x) then mkSim Done (prog x) (nexts x) (cur x) (last x) (newer x)
  else match tmin (nexts x) with
       | Some m => if teq m (prog x) then mkSim (WaitDeps m) (prog x) (nexts x) (cur x) (last x) (newer x)
                   else mkSim (Sleep (sleep_until st i m)) (prog x) (nexts x) (cur x) (last x) false
       | None => mkSim (Sleep (until_t st i)) (prog x) (nexts x) (cur x) (last x) false
       end.
Definition wake_sim (st:static) (i:nat) (x:sim) : sim :=
  match pc x with Sleep aw => if tle aw (prog x) || newer x then loop_sim st i x else x | _ => x end.

Lemma upd_at (s:state) i v j : upd s i v j = if Nat.eqb j i then v else s j.
Proof. reflexivity. Qed.

Lemma loop_eval_at st (s:state) i j : loop_eval st s i j = if Nat.eqb j i then loop_sim st i (s i) else s j.
Proof.
  unfold loop_eval, loop_sim. destruct (until st <=? thd (prog (s i))).
  - apply upd_at.
  - destruct (tmin (nexts (s i))) as [m|]; [destruct (teq m (prog (s i)))|]; apply upd_at.
Qed.

Lemma wake_fold_at st l : forall (s:state), NoDup l -> forall j,
  fold_left (fun s i => match pc (s i) with
                        | Sleep aw => if tle aw (prog (s i)) || newer (s i) then loop_eval st s i else s
                        | _ => s end) l s j
  = if in_dec Nat.eq_dec j l then wake_sim st j (s j) else s j.
Proof.
  induction l as [|k l IH]; intros s ND j; simpl; [reflexivity|].
  inversion ND as [|? ? Hk ND']; subst.
  rewrite (IH _ ND').
  set (s1 := match pc (s k) with Sleep aw => if tle aw (prog (s k)) || newer (s k) then loop_eval st s k else s | _ => s end).
  assert (H1 : forall q, s1 q = if Nat.eqb q k then wake_sim st k (s k) else s q).
  { intros q. unfold s1, wake_sim. destruct (Nat.eqb_spec q k) as [->|Hq].
    - destruct (pc (s k)) as [|aw|w| | |]; try reflexivity. destruct (tle aw (prog (s k)) || newer (s k)); [|reflexivity].
      rewrite loop_eval_at, Nat.eqb_refl. reflexivity.
    - destruct (pc (s k)) as [|aw|w| | |]; try reflexivity. destruct (tle aw (prog (s k)) || newer (s k)); [|reflexivity].
      rewrite loop_eval_at. destruct (Nat.eqb_spec q k); [contradiction|reflexivity]. }
  destruct (Nat.eq_dec k j) as [->|Hkj].
  - destruct (in_dec Nat.eq_dec j l) as [Hin|_]; [contradiction|]. rewrite H1, Nat.eqb_refl. reflexivity.
  - destruct (in_dec Nat.eq_dec j l) as [Hin|Hnin].
    + rewrite H1. destruct (Nat.eqb_spec j k); [congruence|reflexivity].
    + rewrite H1. destruct (Nat.eqb_spec j k); [congruence|reflexivity].
Qed.

Lemma wake_at st (s:state) j : wake_sleepers st s j = if (j <? nsims st)%nat then wake_sim st j (s j) else s j.
Proof.
  unfold wake_sleepers. rewrite wake_fold_at by apply seq_NoDup.
  destruct (in_dec Nat.eq_dec j (seq 0 (nsims st))) as [H|H]; destruct (Nat.ltb_spec j (nsims st)); try reflexivity.
  - apply in_seq in H. lia.
  - exfalso. apply H. apply in_seq. lia.
Qed.

Lemma loop_sim_data st i x : prog (loop_sim st i x) = prog x /\ nexts (loop_sim st i x) = nexts x /\ cur (loop_sim st i x) = cur x.
Proof.
  unfold loop_sim. destruct (until st <=? thd (prog x)); [simpl; auto|].
  destruct (tmin (nexts x)) as [m|]; [destruct (teq m (prog x))|]; simpl; auto.
Qed.
Lemma wake_sim_data st i x : prog (wake_sim st i x) = prog x /\ nexts (wake_sim st i x) = nexts x /\ cur (wake_sim st i x) = cur x.
Proof.
  unfold wake_sim. destruct (pc x) as [|aw|w| | |]; auto. destruct (tle aw (prog x) || newer x); auto. apply loop_sim_data.
Qed.
Lemma loop_sim_done st i x : pc (loop_sim st i x) = Done -> until st <= thd (prog x).
Proof.
  unfold loop_sim. destruct (until st <=? thd (prog x)) eqn:E; [intros _; apply Z.leb_le; exact E|].
  destruct (tmin (nexts x)) as [m|]; [destruct (teq m (prog x))|]; simpl; discriminate.
Qed.
Lemma loop_sim_started st i x : pc (loop_sim st i x) <> NotStarted.
Proof.
  unfold loop_sim. destruct (until st <=? thd (prog x)); [simpl; discriminate|].
  destruct (tmin (nexts x)) as [m|]; [destruct (teq m (prog x))|]; simpl; discriminate.
Qed.
Lemma wake_sim_done st i x : pc (wake_sim st i x) = Done -> pc x = Done \/ until st <= thd (prog x).
Proof.
  unfold wake_sim. destruct (pc x) as [|aw|w| | |] eqn:E; try (intros H; left; congruence).
  destruct (tle aw (prog x) || newer x); [|intros H; left; congruence].
  intros H. right. eapply loop_sim_done; eauto.
Qed.
Lemma wake_sim_notstarted st i x : pc (wake_sim st i x) = NotStarted <-> pc x = NotStarted.
Proof.
  unfold wake_sim. destruct (pc x) as [|aw|w| | |] eqn:E; try (rewrite E; tauto).
  destruct (tle aw (prog x) || newer x); [|rewrite E; tauto].
  split; [intros H; exfalso; eapply loop_sim_started; eauto|discriminate].
Qed.

(* new_progress reads only the queues and the in-flight steps *)
Lemma new_progress_ext st (s s':state) i :
  (forall j, nexts (s' j) = nexts (s j) /\ cur (s' j) = cur (s j)) -> new_progress st s' i = new_progress st s i.
Proof.
  intros H. unfold new_progress, anc_cands.
  destruct (H i) as [-> ->].
  replace (flat_map (fun ad : nat * interval => let (a, d) := ad in
             map (fun c : time => act c d) (opt_list (tmin (nexts (s' a))) ++ opt_list (cur (s' a)))) (anc st i))
    with (flat_map (fun ad : nat * interval => let (a, d) := ad in
             map (fun c : time => act c d) (opt_list (tmin (nexts (s a))) ++ opt_list (cur (s a)))) (anc st i)); [reflexivity|].
  apply flat_map_ext. intros [a d]. destruct (H a) as [-> ->]. reflexivity.
Qed.

Lemma advance_fields st (s:state) k s' : advance st s k = Ok s' ->
  (forall j, pc (s' j) = pc (s j) /\ nexts (s' j) = nexts (s j) /\ cur (s' j) = cur (s j) /\ newer (s' j) = newer (s j)) /\
  prog (s' k) = new_progress st s k /\ (forall j, j <> k -> prog (s' j) = prog (s j)).
Proof.
  unfold advance. destruct (tlt _ _); [discriminate|]. intros H; injection H as <-. split; [|split].
  - intros j. rewrite upd_at. destruct (Nat.eqb_spec j k) as [->|]; simpl; auto.
  - rewrite upd_at, Nat.eqb_refl. reflexivity.
  - intros j Hj. rewrite upd_at. destruct (Nat.eqb_spec j k); [contradiction|reflexivity].
Qed.

Lemma advance_all_fields st l : forall (s s':state),
  fold_left (fun (r:res state) j => match r with Ok s => advance st s j | e => e end) l (Ok s) = Ok s' ->
  (forall j, pc (s' j) = pc (s j) /\ nexts (s' j) = nexts (s j) /\ cur (s' j) = cur (s j) /\ newer (s' j) = newer (s j)) /\
  (forall j, In j l -> prog (s' j) = new_progress st s j) /\ (forall j, ~ In j l -> prog (s' j) = prog (s j)).
Proof.
  induction l as [|k l IH]; intros s s' H; simpl in H.
  - injection H as <-. split; [auto|]. split; [intros j []|auto].
  - destruct (advance st s k) as [s1|e] eqn:E.
    + destruct (advance_fields _ _ _ _ E) as (F1 & P1 & O1).
      destruct (IH _ _ H) as (F2 & P2 & O2).
      assert (X : forall j, new_progress st s1 j = new_progress st s j).
      { intros j. apply new_progress_ext. intros q. destruct (F1 q) as (_ & A & B & _). auto. }
      split; [|split].
      * intros j. destruct (F1 j) as (a1 & a2 & a3 & a4). destruct (F2 j) as (b1 & b2 & b3 & b4). repeat split; congruence.
      * intros j Hj. destruct (in_dec Nat.eq_dec j l) as [Hin|Hnin].
        -- rewrite (P2 j Hin). apply X.
        -- destruct Hj as [<-|Hj]; [|contradiction]. rewrite (O2 k Hnin). exact P1.
      * intros j Hj. rewrite (O2 j) by (intros Hin; apply Hj; right; exact Hin).
        apply O1. intros ->. apply Hj. left; reflexivity.
    + exfalso. clear -H. induction l; simpl in H; [discriminate|auto].
Qed.

Lemma notify_pc st ports : forall (s:state) i ott j, pc (notify st s i ott ports j) = pc (s j).
Proof.
  unfold notify. induction ports as [|p ports IH]; intros s i ott j; simpl; [reflexivity|].
  rewrite IH. generalize (trig st i p). intros l. revert s. induction l as [|[dest d] l IHl]; intros s; simpl; [reflexivity|].
  rewrite IHl. destruct (until st <=? thd (act ott d)); [reflexivity|apply pc_schedule].
Qed.
Lemma notify_prog st ports : forall (s:state) i ott j, prog (notify st s i ott ports j) = prog (s j).
Proof.
  unfold notify. induction ports as [|p ports IH]; intros s i ott j; simpl; [reflexivity|].
  rewrite IH. generalize (trig st i p). intros l. revert s. induction l as [|[dest d] l IHl]; intros s; simpl; [reflexivity|].
  rewrite IHl. destruct (until st <=? thd (act ott d)); [reflexivity|apply prog_schedule].
Qed.

Lemma schedule_other (s:state) i t j : j <> i -> schedule s i t j = s j.
Proof.
  intros Hj. unfold schedule. destruct (memT t (nexts (s i))); [reflexivity|].
  rewrite upd_at. destruct (Nat.eqb_spec j i); [contradiction|reflexivity].
Qed.

Lemma tle_thd a b : tle a b = true -> a <> [] -> b <> [] -> thd a <= thd b.
Proof.
  unfold tle. destruct a as [|x a]; [congruence|]. destruct b as [|y b]; [congruence|]. intros H _ _. simpl in *.
  destruct (y <? x) eqn:E; [discriminate|]. apply Z.ltb_ge in E. exact E.
Qed.
Lemma tlt_first x a y b : x < y -> tlt (x :: a) (y :: b) = true.
Proof. intros H. simpl. apply Z.ltb_lt in H. rewrite H. reflexivity. Qed.

Section Q.
Variable st : static.
Hypothesis OK : static_ok st.

Definition Quiet (s:state) : Prop := forall j, quiet_pc (pc (s j)) = true.
Definition Exact (s:state) : Prop :=
  Quiet s -> forall i, (i < nsims st)%nat -> pc (s i) <> NotStarted -> prog (s i) = new_progress st s i.
Definition Woken (s:state) : Prop :=
  forall i aw, (i < nsims st)%nat -> pc (s i) = Sleep aw -> tlt (prog (s i)) aw = true /\ newer (s i) = false.
Definition DoneOK (s:state) : Prop := forall i, pc (s i) = Done -> until st <= thd (prog (s i)).

Lemma nonempty_of_len (t:time) n : length t = n -> (1 <= n)%nat -> t <> [].
Proof. intros H H1 ->. simpl in H. lia. Qed.

(* ---- Woken is established by every wake_sleepers ---- *)
Lemma woken_wake (s:state) : Inv st (wake_sleepers st s) -> Woken (wake_sleepers st s).
Proof.
  intros [HS HL] i aw Hi. rewrite wake_at. apply Nat.ltb_lt in Hi. rewrite Hi.
  pose proof (wake_at st s i) as W. rewrite Hi in W.
  destruct (wake_sim_data st i (s i)) as (Dp & Dn & _).
  assert (Hlb : forall c, In c (nexts (s i)) -> tle (prog (s i)) c = true).
  { intros c Hc. destruct (HL i) as (_ & B & _). rewrite W, Dp in B. apply B. unfold cands. apply in_or_app. right.
    rewrite Dn. exact Hc. }
  assert (Hlen : length (prog (s i)) = depth st i) by (destruct (HS i) as [A _]; rewrite W, Dp in A; exact A).
  unfold wake_sim. destruct (pc (s i)) as [|aw0|w| | |] eqn:Epc; try (rewrite Epc; discriminate).
  destruct (tle aw0 (prog (s i)) || newer (s i)) eqn:Ec.
  - unfold loop_sim. destruct (until st <=? thd (prog (s i))) eqn:Eu; [simpl; discriminate|].
    destruct (tmin (nexts (s i))) as [m|] eqn:Em.
    + destruct (teq m (prog (s i))) eqn:Et; simpl; [discriminate|]. intros H; injection H as <-. split; [|reflexivity].
      unfold sleep_until. destruct (tlt (until_t st i) m) eqn:Ecap.
      { apply Z.leb_gt in Eu. unfold until_t, world_time.
        destruct (prog (s i)) as [|x r] eqn:Ep; [simpl in Hlen; pose proof (ok_depth st OK i); lia|]. simpl in Eu. apply tlt_first. exact Eu. }
      apply tmin_spec in Em as [Hm _]. specialize (Hlb m Hm).
      destruct (tlt_trichotomy (prog (s i)) m) as [A|[A|A]]; [exact A| |].
      * subst m. assert (teq (prog (s i)) (prog (s i)) = true) by (apply teq_eq; reflexivity). congruence.
      * unfold tle in Hlb. rewrite A in Hlb. discriminate.
    + simpl. intros H; injection H as <-. split; [|reflexivity].
      apply Z.leb_gt in Eu. unfold until_t, world_time.
      pose proof (ok_depth st OK i) as Hd.
      destruct (prog (s i)) as [|x r] eqn:Ep; [simpl in Hlen; lia|]. simpl in Eu. apply tlt_first. exact Eu.
  - rewrite Epc. intros H; injection H as <-. apply orb_false_iff in Ec as [E1 E2]. split; [|exact E2].
    unfold tle in E1. apply negb_false_iff in E1. exact E1.
Qed.

(* ---- Exact is established by every finish_step ---- *)
Lemma exact_finish (s:state) i ott ports s' : finish_step st s i ott ports = Ok s' ->
  forall j, (j < nsims st)%nat -> prog (s' j) = new_progress st s' j.
Proof.
  rewrite finish_step_eq. set (s1 := notify st _ i ott ports).
  destruct (fold_left _ (seq 0 (nsims st)) _) as [s3|e] eqn:E; [|discriminate]. intros H; injection H as <-.
  intros j Hj.
  destruct (advance_all_fields st _ _ _ E) as (F & P & _).
  pose proof (wake_sleepers_same st (loop_eval st s3 i)) as W. pose proof (loop_eval_same st s3 i) as L.
  destruct (W j) as (w1 & _). destruct (L j) as (l1 & _). rewrite w1, l1.
  rewrite (P j) by (apply in_seq; lia).
  symmetry. apply new_progress_ext. intros q.
  destruct (W q) as (_ & w2 & w3 & _). destruct (L q) as (_ & l2 & l3 & _). destruct (F q) as (_ & f2 & f3 & _).
  split; congruence.
Qed.

(* ---- where a Done phase comes from ---- *)
Definition DoneFrom (s s':state) : Prop := forall j, pc (s' j) = Done -> pc (s j) = Done \/ until st <= thd (prog (s' j)).

Lemma donefrom_wake_loop (s0 s3:state) i :
  (forall j, pc (s3 j) = pc (s0 j)) -> DoneFrom s0 (wake_sleepers st (loop_eval st s3 i)).
Proof.
  intros Hpc j. rewrite wake_at.
  assert (X : pc (loop_eval st s3 i j) = Done -> pc (s0 j) = Done \/ until st <= thd (prog (loop_eval st s3 i j))).
  { rewrite loop_eval_at. destruct (Nat.eqb_spec j i) as [->|Hj].
    - intros H. right. destruct (loop_sim_data st i (s3 i)) as (-> & _). eapply loop_sim_done; eauto.
    - rewrite Hpc. auto. }
  destruct (j <? nsims st)%nat; [|exact X].
  intros H. destruct (wake_sim_data st j (loop_eval st s3 i j)) as (-> & _).
  apply wake_sim_done in H as [H|H]; auto.
Qed.

Lemma donefrom_finish (s:state) i ott ports s' : finish_step st s i ott ports = Ok s' -> DoneFrom s s'.
Proof.
  rewrite finish_step_eq. set (s1 := notify st _ i ott ports).
  destruct (fold_left _ (seq 0 (nsims st)) _) as [s3|e] eqn:E; [|discriminate]. intros H; injection H as <-.
  apply donefrom_wake_loop. intros j.
  destruct (advance_all_fields st _ _ _ E) as (F & _ & _). destruct (F j) as (-> & _).
  unfold s1. rewrite notify_pc, upd_at. destruct (Nat.eqb_spec j i) as [->|]; reflexivity.
Qed.

Lemma doneok_step (s s':state) : Inv st s' -> DoneOK s -> prog_le s s' -> DoneFrom s s' -> Inv st s -> DoneOK s'.
Proof.
  intros [HS' _] HD HP HF [HS _] j Hj. destruct (HF j Hj) as [H|H]; [|exact H].
  specialize (HD j H). etransitivity; [exact HD|].
  pose proof (ok_depth st OK j) as Hd.
  apply tle_thd; [apply HP| |]; eapply nonempty_of_len; try exact Hd; [exact (proj1 (HS j))|exact (proj1 (HS' j))].
Qed.

(* ---- the three facts are invariants of every event ---- *)
Record Live3 (s:state) : Prop := { l_exact : Exact s; l_woken : Woken s; l_done : DoneOK s }.

Let mono := apply_prog_mono st (ok_depth st OK) (ok_trig_shape st OK) (ok_anc_shape st OK) (ok_dist_edge st OK) (ok_dist_tri st OK).

Lemma not_quiet_upd (s:state) i v : quiet_pc (pc v) = false -> ~ Quiet (upd s i v).
Proof. intros Hv Q. specialize (Q i). rewrite upd_at, Nat.eqb_refl in Q. congruence. Qed.

(* a simulator goes (or stays) in flight; nobody else changes *)
Lemma live3_inflight (s s2:state) i v : Woken s -> DoneOK s -> (forall j, j <> i -> s2 j = s j) ->
  quiet_pc (pc v) = false -> Live3 (upd s2 i v).
Proof.
  intros HW HD Hs2 Hv. split.
  - intros Q. exfalso. revert Q. apply not_quiet_upd; exact Hv.
  - intros j aw Hj. rewrite upd_at. destruct (Nat.eqb_spec j i) as [->|Hji]; [intros E; rewrite E in Hv; discriminate|].
    rewrite (Hs2 j Hji). apply HW; exact Hj.
  - intros j. rewrite upd_at. destruct (Nat.eqb_spec j i) as [->|Hji]; [intros E; rewrite E in Hv; discriminate|].
    rewrite (Hs2 j Hji). apply HD.
Qed.

Lemma live3_finish (s0 s:state) i ott ports s' :
  Good st s0 -> Good st s' -> prog_le s0 s' -> DoneOK s0 -> (forall j, pc (s j) = Done -> pc (s0 j) = Done) ->
  finish_step st s i ott ports = Ok s' -> Live3 s'.
Proof.
  intros G0 G' HP HD Hpc H. split.
  - intros _ j Hj _. eapply exact_finish; eauto.
  - revert H. rewrite finish_step_eq. destruct (fold_left _ (seq 0 (nsims st)) _) as [s3|e]; [|discriminate].
    intros H; injection H as <-. apply woken_wake. destruct G' as [[I _] _]. exact I.
  - destruct G' as [[I' _] _]. destruct G0 as [[I0 _] _].
    eapply doneok_step; eauto. intros j Hj. destruct (donefrom_finish _ _ _ _ _ H j Hj) as [A|A]; auto.
Qed.

Theorem apply_live3 s e s' : Good st s -> Live3 s -> apply st s e = Ok s' -> Live3 s'.
Proof.
  intros G [HE HW HD] H.
  pose proof (good_step st OK _ _ _ G H) as G'.
  assert (HP : prog_le s s') by (destruct G as [I _]; eapply mono; eauto).
  destruct e as [i | i t m | i nxt | i ot ports | | i | i]; simpl in H.
  - (* START *)
    destruct (pc (s i)) eqn:Epc; try discriminate.
    destruct (advance st s i) as [s1|] eqn:E; [|discriminate]. injection H as <-.
    destruct (advance_fields _ _ _ _ E) as (F & P & O).
    pose proof (wake_sleepers_same st (loop_eval st s1 i)) as W. pose proof (loop_eval_same st s1 i) as L.
    assert (Xn : forall q, nexts (wake_sleepers st (loop_eval st s1 i) q) = nexts (s q) /\ cur (wake_sleepers st (loop_eval st s1 i) q) = cur (s q)).
    { intros q. destruct (W q) as (_ & w2 & w3 & _). destruct (L q) as (_ & l2 & l3 & _). destruct (F q) as (_ & f2 & f3 & _). split; congruence. }
    assert (Xp : forall q, prog (wake_sleepers st (loop_eval st s1 i) q) = prog (s1 q)).
    { intros q. destruct (W q) as (w1 & _). destruct (L q) as (l1 & _). congruence. }
    assert (Xpc : forall q, q <> i -> pc (wake_sleepers st (loop_eval st s1 i) q) = NotStarted <-> pc (s q) = NotStarted).
    { intros q Hq. rewrite wake_at. destruct (q <? nsims st)%nat.
      - rewrite wake_sim_notstarted, loop_eval_at. destruct (Nat.eqb_spec q i); [contradiction|]. destruct (F q) as (-> & _). tauto.
      - rewrite loop_eval_at. destruct (Nat.eqb_spec q i); [contradiction|]. destruct (F q) as (-> & _). tauto. }
    split.
    + intros Q j Hj Hs. rewrite Xp. rewrite (new_progress_ext st s _ j Xn).
      destruct (Nat.eq_dec j i) as [->|Hji]; [exact P|].
      rewrite (O j Hji). apply HE; auto.
      * intros q. destruct (Nat.eq_dec q i) as [->|Hqi]; [rewrite Epc; reflexivity|].
        specialize (Q q). rewrite wake_at in Q.
        assert (Y : loop_eval st s1 i q = s1 q) by (rewrite loop_eval_at; destruct (Nat.eqb_spec q i); [contradiction|reflexivity]).
        rewrite Y in Q. destruct (F q) as (Fp & _).
        destruct (q <? nsims st)%nat; [|rewrite Fp in Q; exact Q].
        revert Q. unfold wake_sim. rewrite Fp. destruct (pc (s q)) eqn:Eq; auto; rewrite Fp; auto.
      * intros Hn. apply Hs. apply Xpc; auto.
    + apply woken_wake. destruct G' as [[I _] _]. exact I.
    + destruct G' as [[I' _] _]. destruct G as [[I0 _] _]. eapply doneok_step; eauto.
      apply donefrom_wake_loop. intros j. destruct (F j) as (-> & _). reflexivity.
  - (* BEGIN *)
    destruct (begin_enabled st s i) eqn:Eb; simpl in H; try discriminate.
    destruct (tmin (nexts (s i))) as [t'|] eqn:Et; try discriminate.
    destruct (teq t' t); simpl in H; try discriminate. destruct (teq t' (prog (s i))); simpl in H; try discriminate.
    destruct (loop_exceeded st t'); simpl in H; try discriminate.
    match type of H with (if ?c then _ else _) = _ => destruct c end; try discriminate.
    injection H as <-. apply (live3_inflight s s); auto.
  - (* STEP *)
    destruct (pc (s i)) eqn:Epc; try discriminate.
    destruct (cur (s i)) as [t|] eqn:Ecur; try discriminate.
    set (s1 := upd s i (mkSim InStep (prog (s i)) (nexts (s i)) (Some t) t (newer (s i)))) in H.
    assert (A1 : forall j, j <> i -> s1 j = s j) by (intros j Hj; unfold s1; rewrite upd_at; destruct (Nat.eqb_spec j i); [contradiction|reflexivity]).
    assert (B1 : pc (s1 i) = InStep) by (unfold s1; rewrite upd_at, Nat.eqb_refl; reflexivity).
    assert (Hgo : forall s2, (forall j, j <> i -> s2 j = s j) -> pc (s2 i) = InStep ->
              (if outreq st i
               then Ok (upd s2 i (mkSim InData (prog (s2 i)) (nexts (s2 i)) (cur (s2 i)) (last (s2 i)) (newer (s2 i))))
               else finish_step st s2 i t []) = Ok s' -> Live3 s').
    { intros s2 A2 B2 H2. destruct (outreq st i).
      - injection H2 as <-. apply (live3_inflight s s2); auto.
      - eapply (live3_finish s s2); eauto.
        intros j. destruct (Nat.eq_dec j i) as [->|Hj]; [rewrite B2; discriminate|rewrite (A2 j Hj); auto]. }
    destruct nxt as [v|].
    + destruct (v <=? thd t); try discriminate.
      destruct (v <? until st).
      * apply Hgo in H; auto.
        -- intros j Hj. rewrite schedule_other by exact Hj. apply A1; exact Hj.
        -- rewrite pc_schedule. exact B1.
      * apply Hgo in H; auto.
    + destruct (timebased st i); try discriminate. apply Hgo in H; auto.
  - (* DATA *)
    destruct (pc (s i)) eqn:Epc; try discriminate. destruct (cur (s i)) as [c|] eqn:Ecur; try discriminate.
    destruct (ot <? thd (last (s i))); try discriminate.
    eapply (live3_finish s s); eauto.
  - destruct (existsb _ _); [discriminate|]. injection H as <-. split; assumption.
  - destruct (negb (begin_enabled st s i)); simpl in H; try discriminate.
    destruct (tmin (nexts (s i))); try discriminate. destruct (_ && _); try discriminate.
    injection H as <-. split; assumption.
  - destruct (pc (s i)); try discriminate. destruct (cur (s i)); discriminate.
Qed.
End Q.

(* ---- uniform scenarios: the certificate the progress argument needs ----
   All simulators have the same depth D and every delay keeps all D tiers (cutoff D): flat scenarios (D = 1) and
   scenarios whose simulators all sit in one group (D = 2, ...).  Every delay is either the identity or strictly
   increasing; identities go up in a rank (no zero-delay cycle). *)
Record uni_ok (st:static) (D:nat) (rank : nat -> nat) : Prop := {
  fl_depth : forall i, (i < nsims st)%nat -> depth st i = D;
  fl_anc : forall i a d, (i < nsims st)%nat -> In (a,d) (anc st i) -> (a < nsims st)%nat /\
     ((forall c, length c = D -> tlt c (act c d) = true) \/ ((forall c, length c = D -> act c d = c) /\ (rank a < rank i)%nat));
  fl_indel : forall j k d, (j < nsims st)%nat -> In (k,d) (indel st j) -> (k < nsims st)%nat /\
     ((forall c, length c = D -> tlt c (act c d) = true) \/ ((forall c, length c = D -> act c d = c) /\ (rank k < rank j)%nat));
  fl_succ : forall i j d, (i < nsims st)%nat -> In (j,d) (succ_lazy st i) \/ In (j,d) (succ_wait st i) ->
     (j < nsims st)%nat /\ forall c, length c = D -> act c d = c;
  fl_init : forall i c, (i < nsims st)%nat -> In c (init_nexts st i) -> thd c < until st }.

(* boolean certificate checker *)
Definition uni_shape (D:nat) (d : interval) : bool := (icut d =? D)%nat && (length (itiers d) =? D)%nat && nonneg d.
Definition uni_edge_okb (n D : nat) (rank : nat -> nat) (src dst : nat) (d : interval) : bool :=
  (src <? n)%nat && uni_shape D d && (negb (izero d) || (rank src <? rank dst)%nat).
Definition uni_zero_okb (n D : nat) (j : nat) (d : interval) : bool :=
  (j <? n)%nat && uni_shape D d && izero d.
Definition check_uniform (st : static) (D : nat) (rk : list nat) : bool :=
  let rank := fun i => nth i rk 0%nat in
  forallb (fun i =>
    (depth st i =? D)%nat &&
    forallb (fun ad : nat * interval => uni_edge_okb (nsims st) D rank (fst ad) i (snd ad)) (anc st i) &&
    forallb (fun kd : nat * interval => uni_edge_okb (nsims st) D rank (fst kd) i (snd kd)) (indel st i) &&
    forallb (fun jd : nat * interval => uni_zero_okb (nsims st) D (fst jd) (snd jd)) (succ_lazy st i ++ succ_wait st i))
    (seq 0 (nsims st)) &&
  forallb (fun i => forallb (fun c => thd c <? until st) (init_nexts st i)) (seq 0 (nsims st)).

Lemma uni_shape_act D d c : uni_shape D d = true -> length c = D -> act c d = zadd c (itiers d).
Proof.
  unfold uni_shape. intros H Hc. apply andb_true_iff in H as [H _]. apply andb_true_iff in H as [H1 H2].
  apply Nat.eqb_eq in H1. apply Nat.eqb_eq in H2. unfold act. rewrite H1.
  rewrite <- H2 at 1. rewrite firstn_all. rewrite <- H2. rewrite skipn_all. apply app_nil_r.
Qed.

Lemma zadd_zero c k : length k = length c -> forallb (fun x => x =? 0) k = true -> zadd c k = c.
Proof.
  revert k. induction c as [|x c IH]; intros [|y k] Hl Hz; simpl in *; try discriminate; auto.
  apply andb_true_iff in Hz as [Hy Hz]. apply Z.eqb_eq in Hy. subst y. rewrite Z.add_0_r. f_equal. apply IH; auto.
Qed.
Lemma zadd_pos c k : length k = length c -> forallb (fun x => 0 <=? x) k = true -> forallb (fun x => x =? 0) k = false ->
  tlt c (zadd c k) = true.
Proof.
  revert k. induction c as [|x c IH]; intros [|y k] Hl Hn Hz; simpl in *; try discriminate.
  apply andb_true_iff in Hn as [Hy Hn]. apply Z.leb_le in Hy.
  destruct (y =? 0) eqn:E.
  - apply Z.eqb_eq in E. subst y. simpl in Hz. rewrite Z.add_0_r, Z.ltb_irrefl. apply IH; auto.
  - apply Z.eqb_neq in E. assert (x <? x + y = true) by (apply Z.ltb_lt; lia). rewrite H. reflexivity.
Qed.

Lemma uni_edge_sound n D rank src dst d : uni_edge_okb n D rank src dst d = true ->
  (src < n)%nat /\ ((forall c, length c = D -> tlt c (act c d) = true) \/
                    ((forall c, length c = D -> act c d = c) /\ (rank src < rank dst)%nat)).
Proof.
  unfold uni_edge_okb. intros H. apply andb_true_iff in H as [H H3]. apply andb_true_iff in H as [H1 H2].
  apply Nat.ltb_lt in H1. split; [exact H1|].
  pose proof H2 as Hs. unfold uni_shape in Hs. apply andb_true_iff in Hs as [Hs Hnn]. apply andb_true_iff in Hs as [_ Hlen].
  apply Nat.eqb_eq in Hlen.
  destruct (izero d) eqn:Ez.
  - right. simpl in H3. apply Nat.ltb_lt in H3. split; [|exact H3].
    intros c Hc. rewrite (uni_shape_act _ _ _ H2 Hc). apply zadd_zero; [congruence|exact Ez].
  - left. intros c Hc. rewrite (uni_shape_act _ _ _ H2 Hc). apply zadd_pos; [congruence|exact Hnn|exact Ez].
Qed.

Lemma uni_zero_sound n D j d : uni_zero_okb n D j d = true -> (j < n)%nat /\ forall c, length c = D -> act c d = c.
Proof.
  unfold uni_zero_okb. intros H. apply andb_true_iff in H as [H H3]. apply andb_true_iff in H as [H1 H2].
  apply Nat.ltb_lt in H1. split; [exact H1|].
  pose proof H2 as Hs. unfold uni_shape in Hs. apply andb_true_iff in Hs as [Hs _]. apply andb_true_iff in Hs as [_ Hlen].
  apply Nat.eqb_eq in Hlen.
  intros c Hc. rewrite (uni_shape_act _ _ _ H2 Hc). apply zadd_zero; [congruence|exact H3].
Qed.

Theorem check_uniform_sound st D rk : check_uniform st D rk = true -> uni_ok st D (fun i => nth i rk 0%nat).
Proof.
  intros H. unfold check_uniform in H. apply andb_true_iff in H as [H HI].
  rewrite forallb_forall in H.
  assert (P : forall i, (i < nsims st)%nat -> _) by (intros i Hi; apply (H i); apply in_seq; lia).
  split.
  - intros i Hi. specialize (P i Hi). repeat (apply andb_true_iff in P as [P ?]). apply Nat.eqb_eq in P. exact P.
  - intros i a d Hi Hin. specialize (P i Hi). repeat (apply andb_true_iff in P as [P ?]).
    match goal with X : forallb _ (anc st i) = true |- _ => rewrite forallb_forall in X; specialize (X _ Hin); simpl in X; apply uni_edge_sound in X; exact X end.
  - intros j k d Hj Hin. specialize (P j Hj). repeat (apply andb_true_iff in P as [P ?]).
    match goal with X : forallb _ (indel st j) = true |- _ => rewrite forallb_forall in X; specialize (X _ Hin); simpl in X; apply uni_edge_sound in X; exact X end.
  - intros i j d Hi Hin. specialize (P i Hi). repeat (apply andb_true_iff in P as [P ?]).
    match goal with X : forallb _ (succ_lazy st i ++ succ_wait st i) = true |- _ =>
      rewrite forallb_forall in X; specialize (X (j,d)); simpl in X; apply (uni_zero_sound (nsims st) D); apply X; apply in_or_app; exact Hin end.
  - intros i c Hi Hc.
    rewrite forallb_forall in HI. assert (Hs : In i (seq 0 (nsims st))) by (apply in_seq; lia).
    specialize (HI i Hs). rewrite forallb_forall in HI. apply Z.ltb_lt. apply HI; exact Hc.
Qed.

(* ---- run level ---- *)
Definition init_before_until (st:static) : Prop := forall i c, (i < nsims st)%nat -> In c (init_nexts st i) -> thd c < until st.

Definition init_before_untilb (st:static) : bool :=
  forallb (fun i => forallb (fun c => thd c <? until st) (init_nexts st i)) (seq 0 (nsims st)).
Lemma init_before_untilb_sound st : init_before_untilb st = true -> init_before_until st.
Proof.
  unfold init_before_untilb. intros H i c Hi Hc. rewrite forallb_forall in H.
  assert (Hs : In i (seq 0 (nsims st))) by (apply in_seq; lia).
  specialize (H i Hs). rewrite forallb_forall in H. apply Z.ltb_lt. apply H; exact Hc.
Qed.

Section Run0.
Variable st : static.
Hypothesis OK : static_ok st.
Hypothesis IB : init_before_until st.

Definition Live (s:state) : Prop := Good st s /\ Aux st s /\ Live3 st s.

Lemma live_init : Live (init_state st).
Proof.
  split; [apply good_init; exact OK|]. split.
  - split.
    + intros i aw H. simpl in H. discriminate.
    + intros i _. reflexivity.
    + intros i c Hi H. simpl in H. eapply IB; eauto.
  - split.
    + intros _ i _ H. simpl in H. congruence.
    + intros i aw _ H. simpl in H. discriminate.
    + intros i H. simpl in H. discriminate.
Qed.

Lemma live_step s e s' : Live s -> apply st s e = Ok s' -> Live s'.
Proof.
  intros (G & A & L) H. split; [eapply good_step; eauto|]. split; [eapply apply_aux; eauto|eapply apply_live3; eauto].
Qed.

Lemma live_run evs : forall s l, Live s -> run st s evs = Ok l -> forall s', In s' l -> Live s'.
Proof.
  induction evs as [|e r IH]; intros s l HG H s' Hs'; simpl in H.
  - injection H as <-. destruct Hs'.
  - destruct (apply st s e) as [s1|] eqn:E; [|discriminate].
    destruct (run st s1 r) as [l1|] eqn:E1; [|discriminate]. injection H as <-.
    pose proof (live_step _ _ _ HG E) as G1.
    destruct Hs' as [<-|Hs']; [exact G1|]. eapply IH; eauto.
Qed.

Lemma reached_live s : reached st s -> Live s.
Proof.
  intros (evs & l & H & ->). destruct l as [|x l']; [apply live_init|].
  eapply live_run; [apply live_init|exact H|]. apply last_in. discriminate.
Qed.

(* a simulator that is done has nothing left in its queue: no demanded step is dropped at the end *)
Theorem done_queue_empty s i : reached st s -> (i < nsims st)%nat -> pc (s i) = Done -> nexts (s i) = [].
Proof.
  intros R Hi Hd. destruct (reached_live s R) as (G & A & [_ _ HD]).
  destruct (nexts (s i)) as [|c r] eqn:E; [reflexivity|exfalso].
  assert (Hc : In c (nexts (s i))) by (rewrite E; left; reflexivity).
  pose proof (aux_bound _ _ A i c Hi Hc) as Hb. specialize (HD i Hd).
  destruct G as ([[HS HL] _] & _ & _). destruct (HL i) as (_ & B & _).
  assert (Hin : In c (cands (s i))) by (unfold cands; apply in_or_app; right; exact Hc).
  specialize (B c Hin). pose proof (ok_depth st OK i) as H1.
  assert (thd (prog (s i)) <= thd c).
  { apply tle_thd; [exact B| |]; eapply nonempty_of_len; try exact H1; [exact (proj1 (HS i))|exact (proj2 (HS i) c Hin)]. }
  lia.
Qed.
End Run0.

Section Run.
Variable st : static.
Hypothesis OK : static_ok st.
Variable D : nat.
Variable rank : nat -> nat.
Hypothesis FL : uni_ok st D rank.
Let IB : init_before_until st := fl_init _ _ _ FL.

(* the events with which the scheduler itself moves on: a simulator task starts, a simulator begins a step, or the
   same-time loop guard stops the run with a SimulationError *)
Definition scheduler_move (e:event) : Prop :=
  match e with EvStart i => (i < nsims st)%nat | EvBegin i _ _ => (i < nsims st)%nat | EvLoopFail i => (i < nsims st)%nat | _ => False end.

(* Deadlock-freedom of uniform scenarios: in every reachable state in which nothing is in flight (every simulator is
   not started, asleep, waiting or done) and some simulator of the scenario is not done, the scheduler can move: a
   START, a BEGIN or the loop guard's abort is accepted - the run is not stuck. *)
Theorem uniform_progress s : reached st s -> Quiet s -> (exists i, (i < nsims st)%nat /\ pc (s i) <> Done) ->
  exists e s', scheduler_move e /\ apply st s e = Ok s'.
Proof.
  intros R Q Hnd. destruct (reached_live st OK IB s R) as (G & A & [HE HW HD]).
  assert (HD1 : (1 <= D)%nat).
  { destruct Hnd as (i & Hi & _). rewrite <- (fl_depth _ _ _ FL i Hi). apply (ok_depth st OK). }
  destruct (existsb (fun i => match pc (s i) with NotStarted => true | _ => false end) (seq 0 (nsims st))) eqn:Ex.
  - (* some simulator has not been started *)
    apply existsb_exists in Ex as (i & Hi & Hp). apply in_seq in Hi.
    destruct (pc (s i)) eqn:Epc; try discriminate.
    destruct (advance st s i) as [s1|e] eqn:E.
    + exists (EvStart i). eexists. split; [simpl; lia|]. simpl. rewrite Epc, E. reflexivity.
    + exfalso. assert (e = EBackwards i) by (unfold advance in E; destruct (tlt _ _); [injection E as <-; reflexivity|discriminate]).
      subst e. apply (C05_no_backwards st OK s (EvStart i) i R). simpl. rewrite Epc, E. reflexivity.
  - (* everybody has been started: Sched/Progress.v *)
    assert (HQ : forall i, (i < nsims st)%nat -> quiet_pc (pc (s i)) = true /\ pc (s i) <> NotStarted).
    { intros i Hi. split; [apply Q|]. intros Hn.
      assert (X : existsb (fun i => match pc (s i) with NotStarted => true | _ => false end) (seq 0 (nsims st)) = true).
      { apply existsb_exists. exists i. split; [apply in_seq; lia|rewrite Hn; reflexivity]. }
      congruence. }
    destruct G as ([I ID] & WI & WL).
    destruct (progress_flat st rank D HD1 (fl_depth _ _ _ FL) (fl_anc _ _ _ FL) (fl_indel _ _ _ FL) (fl_succ _ _ _ FL) s I WI A
                (fun i Hi => HE Q i Hi (proj2 (HQ i Hi))) HW WL HQ HD Hnd) as (i & Hi & Hen).
    pose proof Hen as Hen'. unfold begin_enabled in Hen'. destruct (pc (s i)) as [|aw|t| | |] eqn:Epc; try discriminate.
    pose proof (WI i t Epc) as Hin.
    destruct (tmin (nexts (s i))) as [t'|] eqn:Et; [|apply tmin_none in Et; rewrite Et in Hin; destruct Hin].
    assert (Htt : teq t' t' = true) by (apply teq_eq; reflexivity).
    set (s1 := upd s i (mkSim InStep (prog (s i)) (removeT t' (nexts (s i))) (Some t') (last (s i)) (newer (s i)))).
    destruct (teq t' (prog (s i))) eqn:Ep.
    + destruct (loop_exceeded st t') eqn:Hle.
      * exists (EvLoopFail i), s. split; [simpl; exact Hi|].
        simpl. rewrite Hen. simpl. rewrite Et, Hle, Ep. reflexivity.
      * exists (EvBegin i t' (max_advance st s1 i)), s1. split; [simpl; exact Hi|].
        simpl. rewrite Hen. simpl. rewrite Et, Htt. simpl. rewrite Ep. simpl. rewrite Hle.
        fold s1. rewrite Z.eqb_refl. reflexivity.
    + exfalso. apply (C05_no_past st OK s i t' 0 R). simpl. rewrite Hen. simpl. rewrite Et, Htt. simpl. rewrite Ep. reflexivity.
Qed.
End Run.

(* ---- a rank certificate computed from the tables: longest zero-delay path into every simulator ---- *)
Definition zero_preds (st:static) (i:nat) : list nat :=
  map fst (filter (fun ad : nat * interval => izero (snd ad)) (anc st i ++ indel st i)).
Definition rank_step (st:static) (rk : list nat) : list nat :=
  map (fun i => fold_left Nat.max (map (fun a => S (nth a rk 0%nat)) (zero_preds st i)) 0%nat) (seq 0 (nsims st)).
Definition compute_rank (st:static) : list nat := Nat.iter (nsims st) (rank_step st) (repeat 0%nat (nsims st)).
Definition uniform_certified (st:static) : bool := check_uniform st (depth st 0) (compute_rank st).
(* flat: no groups at all *)
Definition flat_certified (st:static) : bool := (depth st 0 =? 1)%nat && uniform_certified st.

Theorem certified_uniform_progress st : static_ok st -> uniform_certified st = true ->
  forall s, reached st s -> Quiet s -> (exists i, (i < nsims st)%nat /\ pc (s i) <> Done) ->
  exists e s', scheduler_move st e /\ apply st s e = Ok s'.
Proof.
  intros OK H. apply (uniform_progress st OK _ _ (check_uniform_sound st _ _ H)).
Qed.

(* in a flat scenario the loop guard never fires: the move is a START or a BEGIN *)
Theorem certified_flat_progress st : static_ok st -> flat_certified st = true ->
  forall s, reached st s -> Quiet s -> (exists i, (i < nsims st)%nat /\ pc (s i) <> Done) ->
  exists e s', match e with EvStart i => (i < nsims st)%nat | EvBegin i _ _ => (i < nsims st)%nat | _ => False end /\ apply st s e = Ok s'.
Proof.
  intros OK H s R Q Hnd. apply andb_true_iff in H as [H1 H2]. apply Nat.eqb_eq in H1.
  destruct (certified_uniform_progress st OK H2 s R Q Hnd) as (e & s' & Hm & Ha).
  exists e, s'. split; [|exact Ha].
  destruct e as [i | i t m | i nxt | i ot ports | | i | i]; simpl in Hm; try contradiction; auto.
  (* a loop-guard abort needs a time with more than one tier *)
  exfalso. simpl in Ha.
  destruct (negb (begin_enabled st s i)) eqn:Eb; simpl in Ha; [discriminate|].
  destruct (tmin (nexts (s i))) as [t'|] eqn:Et; [|discriminate].
  destruct (loop_exceeded st t') eqn:El; simpl in Ha; [|discriminate].
  pose proof (reached_good st OK s R) as ([[HS _] _] & _ & _).
  assert (Hlen : length t' = 1%nat).
  { apply tmin_spec in Et as [Et _]. destruct (HS i) as [_ Hc]. rewrite (Hc t').
    - pose proof (fl_depth _ _ _ (check_uniform_sound st _ _ H2)) as Fd. rewrite (Fd i Hm). rewrite <- H1.
      destruct (Nat.eq_dec (nsims st) 0) as [Hz|Hz]; [lia|]. symmetry. apply Fd. lia.
    - unfold cands. apply in_or_app. right. exact Et. }
  destruct t' as [|x [|? ?]]; discriminate.
Qed.
