(* Deadlock-freedom (C05, progress) for scenarios whose simulators all have the same depth D and whose delays keep all D
   tiers (flat scenarios: D = 1; all simulators in one group: D = 2, weak connections raise the second tier): in a quiet
   state (nothing in flight, every simulator started) in which some simulator is not done, some simulator can begin a step.  The witness is the simulator owning the
   globally smallest queued time, ties broken by a rank that decreases along zero-delay connections. *)
From Coq Require Import ZArith List Bool Arith Lia.
Import ListNotations.
From MV Require Import Time.Spec Time.Ord Sched.Timing Sched.Inv Sched.Wle Sched.Live.
Open Scope Z_scope.

Lemma tle_tlt_trans' a b c : tle a b = true -> tlt b c = true -> tlt a c = true.
Proof.
  intros H1 H2. destruct (tlt_trichotomy a c) as [H|[H|H]]; auto.
  - subst. unfold tle in H1. rewrite H2 in H1. discriminate.
  - pose proof (tlt_trans _ _ _ H2 H) as H3. unfold tle in H1. rewrite H3 in H1. discriminate.
Qed.

Section Progress.
Variable st : static.
Variable rank : nat -> nat.
Variable D : nat.
Hypothesis HD1 : (1 <= D)%nat.
Hypothesis Hflat : forall i, (i < nsims st)%nat -> depth st i = D.
Hypothesis Hanc : forall i a d, (i < nsims st)%nat -> In (a,d) (anc st i) -> (a < nsims st)%nat /\
   ((forall c, length c = D -> tlt c (act c d) = true) \/ ((forall c, length c = D -> act c d = c) /\ (rank a < rank i)%nat)).
Hypothesis Hindel : forall j k d, (j < nsims st)%nat -> In (k,d) (indel st j) -> (k < nsims st)%nat /\
   ((forall c, length c = D -> tlt c (act c d) = true) \/ ((forall c, length c = D -> act c d = c) /\ (rank k < rank j)%nat)).
Hypothesis Hsucc : forall i j d, (i < nsims st)%nat -> In (j,d) (succ_lazy st i) \/ In (j,d) (succ_wait st i) -> (j < nsims st)%nat /\ forall c, length c = D -> act c d = c.

Variable s : state.
Hypothesis HI : Inv st s.
Hypothesis HW : WaitIn s.
Hypothesis HA : Aux st s.
Hypothesis HE : forall i, (i < nsims st)%nat -> prog (s i) = new_progress st s i.
Hypothesis HWoken : forall i aw, (i < nsims st)%nat -> pc (s i) = Sleep aw -> tlt (prog (s i)) aw = true /\ newer (s i) = false.
Hypothesis HWle : forall i t, pc (s i) = WaitDeps t -> tle t (prog (s i)) = true.
Hypothesis HQ : forall i, (i < nsims st)%nat -> quiet_pc (pc (s i)) = true /\ pc (s i) <> NotStarted.
Hypothesis HDone : forall i, pc (s i) = Done -> until st <= thd (prog (s i)).

(* all candidates of all simulators *)
Definition allc : list (nat * time) := flat_map (fun i => map (fun c => (i,c)) (nexts (s i))) (seq 0 (nsims st)).
Lemma allc_in i c : In (i,c) allc <-> (i < nsims st)%nat /\ In c (nexts (s i)).
Proof.
  unfold allc. rewrite in_flat_map. split.
  - intros (j & Hj & H). apply in_map_iff in H as (c' & E & Hc). injection E as -> ->. apply in_seq in Hj. split; [lia|auto].
  - intros [Hi Hc]. exists i. split; [apply in_seq; lia|]. apply in_map_iff. exists c; auto.
Qed.

Definition better (x y : nat*time) : bool := tlt (snd x) (snd y) || (teq (snd x) (snd y) && Nat.ltb (rank (fst x)) (rank (fst y))).
Fixpoint argmin (l : list (nat*time)) : option (nat*time) :=
  match l with [] => None | x :: r => match argmin r with None => Some x | Some m => Some (if better x m then x else m) end end.
Lemma argmin_spec l m : argmin l = Some m -> In m l /\ forall y, In y l -> better y m = false.
Proof.
  revert m; induction l as [|x l IH]; simpl; intros m H; [discriminate|].
  destruct (argmin l) as [m'|] eqn:E.
  - specialize (IH m' eq_refl) as [Hin Hmin]. injection H as <-.
    destruct (better x m') eqn:B.
    + split; [left; reflexivity|]. intros y [<-|Hy].
      * unfold better. rewrite tlt_irrefl, Nat.ltb_irrefl, andb_false_r. reflexivity.
      * (* y not better than m', x better than m' => y not better than x *)
        specialize (Hmin y Hy). unfold better in *.
        apply orb_false_iff in Hmin as [H1 H2]. apply orb_true_iff in B as [B|B].
        -- (* snd x < snd m' *) apply orb_false_iff. split.
           ++ destruct (tlt (snd y) (snd x)) eqn:F; auto. rewrite (tlt_trans _ _ _ F B) in H1. discriminate.
           ++ destruct (teq (snd y) (snd x)) eqn:F; auto. apply teq_eq in F. rewrite F, B in H1. discriminate.
        -- apply andb_true_iff in B as [B1 B2]. apply teq_eq in B1. apply Nat.ltb_lt in B2. apply orb_false_iff. split.
           ++ rewrite B1. exact H1.
           ++ rewrite B1. destruct (teq (snd y) (snd m')) eqn:F; auto. simpl in *. apply Nat.ltb_ge in H2. apply Nat.ltb_ge. lia.
    + split; [right; exact Hin|]. intros y [<-|Hy]; auto.
  - injection H as <-. destruct l; [|simpl in E; destruct (argmin l); discriminate].
    split; [left; reflexivity|]. intros y [<-|[]]. unfold better. rewrite tlt_irrefl, Nat.ltb_irrefl, andb_false_r. reflexivity.
Qed.

(* shapes in the flat case *)
Lemma len1 i c : (i < nsims st)%nat -> In c (nexts (s i)) -> length c = D.
Proof. intros Hi H. destruct HI as [HS _]. rewrite <- (Hflat i Hi). apply (HS i). unfold cands. apply in_app_iff. right; exact H. Qed.
Lemma cur_none i : (i < nsims st)%nat -> cur (s i) = None.
Proof. intros Hi. apply (aux_cur _ _ HA). apply HQ; exact Hi. Qed.

(* every candidate of the minimum-progress computation of simulator i is >= tau when tau is a global lower bound of all queues *)
Lemma np_ge tau i : (i < nsims st)%nat -> length tau = D ->
  (forall j c, In (j,c) allc -> tle tau c = true) -> tle tau (until_t st i) = true ->
  tle tau (new_progress st s i) = true.
Proof.
  intros Hi Hlt Hmin Hu.
  destruct (new_progress_in st s i) as [Hin _].
  rewrite !in_app_iff in Hin. destruct Hin as [H|[[H|H]|[H|[]]]].
  - apply (anc_cands_in st) in H as (a & d & c & Ha & -> & Hc).
    destruct (Hanc _ _ _ Hi Ha) as [Han Hd].
    destruct Hc as [Hc|Hc]; [|rewrite (cur_none a Han) in Hc; discriminate].
    apply tmin_spec in Hc as [Hc _].
    assert (tle tau c = true) by (apply (Hmin a); apply allc_in; auto).
    apply tle_trans with c; auto.
    destruct Hd as [Hd|[Hd _]]; [apply tlt_tle, Hd, (len1 a _ Han), Hc | rewrite Hd; [apply tle_refl|apply (len1 a _ Han), Hc]].
  - destruct (tmin (nexts (s i))) as [m|] eqn:E; simpl in H; [|destruct H]. destruct H as [<-|[]].
    apply tmin_spec in E as [E _]. apply (Hmin i). apply allc_in; auto.
  - rewrite (cur_none i Hi) in H. destruct H.
  - rewrite <- H. exact Hu.
Qed.

Theorem progress_flat :
  (exists i, (i < nsims st)%nat /\ pc (s i) <> Done) ->
  exists i, (i < nsims st)%nat /\ begin_enabled st s i = true.
Proof.
  intros (k0 & Hk0 & Hnd).
  destruct (argmin allc) as [[a tau]|] eqn:Eam.
  - (* some queue is non-empty: (a,tau) is a best candidate *)
    apply argmin_spec in Eam as [Hin Hbest].
    apply allc_in in Hin as [Ha Htau].
    assert (Hl : length tau = D) by (apply (len1 a _ Ha); exact Htau).
    assert (Hmin : forall j c, In (j,c) allc -> tle tau c = true).
    { intros j c Hjc. specialize (Hbest _ Hjc). unfold better in Hbest. simpl in Hbest.
      apply orb_false_iff in Hbest as [H _]. unfold tle. rewrite H. reflexivity. }
    assert (Hu : forall i, (i < nsims st)%nat -> tle tau (until_t st i) = true).
    { intros i Hi. apply tlt_tle. unfold until_t, world_time.
      pose proof (aux_bound _ _ HA a tau Ha Htau) as Hb.
      destruct tau as [|x r]; [simpl in Hl; lia|]. simpl in Hb. simpl. apply Z.ltb_lt in Hb. rewrite Hb. reflexivity. }
    assert (Hge : forall i, (i < nsims st)%nat -> tle tau (prog (s i)) = true).
    { intros i Hi. rewrite (HE i Hi). apply np_ge; auto. }
    (* prog a = tau *)
    assert (Hpa : prog (s a) = tau).
    { apply tle_antisym; [|apply Hge; exact Ha].
      destruct HI as [_ HL]. destruct (HL a) as (_ & B & _). apply B. unfold cands. apply in_app_iff. right; exact Htau. }
    assert (Htm : tmin (nexts (s a)) = Some tau).
    { destruct (tmin (nexts (s a))) as [m|] eqn:E; [|apply tmin_none in E; rewrite E in Htau; destruct Htau].
      f_equal. pose proof (tmin_spec _ _ E) as [Hm Hmm]. apply tle_antisym; [apply Hmm; exact Htau|].
      apply (Hmin a). apply allc_in; auto. }
    exists a. split; [exact Ha|].
    unfold begin_enabled.
    destruct (pc (s a)) eqn:Epc.
    + exfalso. apply (proj2 (HQ a Ha)). exact Epc.
    + (* Sleep: contradiction with being woken *)
      exfalso. destruct (HWoken a await Ha Epc) as [Hlt Hnew].
      rewrite (aux_sleep _ _ HA a await Epc Hnew), Htm, (sleep_until_id _ a tau (aux_bound _ _ HA a tau Ha Htau)), Hpa, tlt_irrefl in Hlt. discriminate.
    + (* WaitDeps t: t = tau and all guards hold *)
      assert (t = tau).
      { apply tle_antisym; [rewrite <- Hpa; apply HWle; exact Epc|].
        apply (Hmin a). apply allc_in; split; auto. }
      subst t. unfold deps_ok. apply andb_true_iff; split; [apply andb_true_iff; split|].
      * (* input predecessors *)
        apply forallb_forall. intros [k d] Hk. destruct (Hindel _ _ _ Ha Hk) as [Hkn Hd].
        assert (Hlk : length (prog (s k)) = D) by (destruct HI as [HS _]; rewrite <- (Hflat k Hkn); apply (proj1 (HS k))).
        destruct Hd as [Hd|[Hd Hr]].
        -- eapply tle_tlt_trans'; [apply Hge; exact Hkn|apply Hd; exact Hlk].
        -- rewrite Hd by exact Hlk.
           (* need prog k > tau: otherwise a better candidate exists *)
           destruct (tlt_trichotomy tau (prog (s k))) as [H|[H|H]]; auto.
           ++ exfalso. (* prog k = tau: tau is attained by a candidate of k or of a zero-distance ancestor *)
              rewrite (HE k Hkn) in H.
              destruct (new_progress_in st s k) as [Hin _]. rewrite <- H in Hin.
              rewrite !in_app_iff in Hin. destruct Hin as [Hx|[[Hx|Hx]|[Hx|[]]]].
              ** apply (anc_cands_in st) in Hx as (a' & d' & c & Ha' & Ec & Hc).
                 destruct (Hanc _ _ _ Hkn Ha') as [Han Hd'].
                 destruct Hc as [Hc|Hc]; [|rewrite (cur_none a' Han) in Hc; discriminate].
                 apply tmin_spec in Hc as [Hc _].
                 assert (Hlc : length c = D) by (apply (len1 a' _ Han); exact Hc).
                 assert (Htc : tle tau c = true) by (apply (Hmin a'); apply allc_in; auto).
                 destruct Hd' as [Hd'|[Hd' Hr']].
                 --- specialize (Hd' c Hlc). rewrite <- Ec in Hd'. unfold tle in Htc. rewrite Hd' in Htc. discriminate.
                 --- rewrite Hd' in Ec by exact Hlc. subst c.
                     assert (Hb : better (a',tau) (a,tau) = false) by (apply Hbest; apply allc_in; auto).
                     unfold better in Hb. simpl in Hb. rewrite tlt_irrefl in Hb. simpl in Hb.
                     assert (teq tau tau = true) by (apply teq_eq; reflexivity). rewrite H0 in Hb. simpl in Hb.
                     apply Nat.ltb_ge in Hb. lia.
              ** destruct (tmin (nexts (s k))) as [m|] eqn:E; simpl in Hx; [|destruct Hx]. destruct Hx as [Hx|[]]. subst m.
                 apply tmin_spec in E as [E _].
                 assert (Hb : better (k,tau) (a,tau) = false) by (apply Hbest; apply allc_in; auto).
                 unfold better in Hb. simpl in Hb. rewrite tlt_irrefl in Hb. simpl in Hb.
                 assert (teq tau tau = true) by (apply teq_eq; reflexivity). rewrite H0 in Hb. simpl in Hb.
                 apply Nat.ltb_ge in Hb. lia.
              ** rewrite (cur_none k Hkn) in Hx. destruct Hx.
              ** (* until = tau: impossible *)
                 unfold until_t, world_time in Hx.
                 pose proof (aux_bound _ _ HA a tau Ha Htau) as Hb. rewrite <- Hx in Hb. simpl in Hb. lia.
           ++ exfalso. specialize (Hge k Hkn). unfold tle in Hge. rewrite H in Hge. discriminate.
      * (* async successors *)
        apply forallb_forall. intros [j d] Hj. destruct (Hsucc a j d Ha (or_intror Hj)) as [Hjn Hd].
        rewrite Hd by exact Hl. apply Hge; exact Hjn.
      * destruct (lazy st); auto.
        apply forallb_forall. intros [j d] Hj. destruct (Hsucc a j d Ha (or_introl Hj)) as [Hjn Hd].
        rewrite Hd by exact Hl. apply Hge; exact Hjn.
    + exfalso. assert (H : quiet_pc (pc (s a)) = true) by (apply HQ; exact Ha). rewrite Epc in H. discriminate.
    + exfalso. assert (H : quiet_pc (pc (s a)) = true) by (apply HQ; exact Ha). rewrite Epc in H. discriminate.
    + (* Done: prog >= until > tau *)
      exfalso. pose proof (HDone a Epc) as Hd. rewrite Hpa in Hd.
      pose proof (aux_bound _ _ HA a tau Ha Htau). lia.
  - (* all queues empty: every progress equals until, so nobody can be asleep or waiting *)
    exfalso.
    assert (Hnil : allc = []) by (destruct allc as [|x l] eqn:E; auto; simpl in Eam; destruct (argmin l); discriminate).
    assert (Hempty : forall i, (i < nsims st)%nat -> nexts (s i) = []).
    { intros i Hi. destruct (nexts (s i)) as [|c l] eqn:E; auto.
      assert (In (i,c) allc) by (apply allc_in; split; auto; rewrite E; left; reflexivity). rewrite Hnil in H. destruct H. }
    assert (Hp : prog (s k0) = until_t st k0).
    { rewrite (HE k0 Hk0). destruct (new_progress_in st s k0) as [Hin _].
      rewrite !in_app_iff in Hin. destruct Hin as [H|[[H|H]|[H|[]]]]; auto.
      - apply (anc_cands_in st) in H as (a & d & c & Ha & _ & Hc). destruct (Hanc _ _ _ Hk0 Ha) as [Han _].
        destruct Hc as [Hc|Hc]; [rewrite (Hempty a Han) in Hc; discriminate | rewrite (cur_none a Han) in Hc; discriminate].
      - rewrite (Hempty k0 Hk0) in H. destruct H.
      - rewrite (cur_none k0 Hk0) in H. destruct H. }
    destruct (pc (s k0)) eqn:Epc.
    + apply (proj2 (HQ k0 Hk0)). exact Epc.
    + destruct (HWoken k0 await Hk0 Epc) as [Hlt Hnew].
      assert (Haw : await = until_t st k0).
      { rewrite (aux_sleep _ _ HA k0 await Epc Hnew), (Hempty k0 Hk0). reflexivity. }
      rewrite Haw, Hp, tlt_irrefl in Hlt. discriminate.
    + pose proof (HW k0 t Epc) as H. rewrite (Hempty k0 Hk0) in H. destruct H.
    + assert (H : quiet_pc (pc (s k0)) = true) by (apply HQ; exact Hk0). rewrite Epc in H. discriminate.
    + assert (H : quiet_pc (pc (s k0)) = true) by (apply HQ; exact Hk0). rewrite Epc in H. discriminate.
    + apply Hnd. reflexivity.
Qed.
End Progress.
