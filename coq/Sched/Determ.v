(* C04, timing part: the steps a simulator performs do not depend on the interleaving.
   A behaviour B gives, for every simulator and step time, the next-step reply and the output reply (output time and the
   ports on which data is produced): simulators whose replies are a function of the step they are asked to perform.
   Theorem: two complete runs (every simulator done at the end) of the same scenario whose replies follow the same B
   perform, for every simulator, the same set of steps - whatever the order in which the replies arrive in each.
   (With C02's strict increase the sequences are equal.  That the replies of a deterministic simulator are the same in
   both runs when they depend on its inputs as well is the data-plane half of C04 - C03 - and is not proved here.) *)
From Coq Require Import ZArith List Bool Arith Lia.
Import ListNotations.
From MV Require Import Time.Spec Time.Ord Sched.Timing Sched.Inv Sched.Init Sched.Wle Sched.Main Sched.Guards Sched.Final Sched.Live Sched.Progress Sched.Quiet Sched.NoLost Sched.Bound.
Open Scope Z_scope.

Definition behaviour := nat -> time -> option Z * option (Z * list nat).
Lemma option_eq_dec_nat (o : option nat) (i : nat) : {o = Some i} + {o <> Some i}.
Proof. destruct o as [j|]; [destruct (Nat.eq_dec j i) as [->|H]; [left; reflexivity|right; congruence]|right; discriminate]. Qed.

Section D.
Variable st : static.
Hypothesis OK : static_ok st.
Hypothesis IB : init_before_until st.
Variable B : behaviour.

Definition follows (s:state) (e:event) : Prop :=
  match e with
  | EvStep i nxt => forall t, cur (s i) = Some t -> nxt = fst (B i t)
  | EvData i ot ports => forall t, cur (s i) = Some t -> snd (B i t) = Some (ot, ports)
  | _ => True end.
Fixpoint run_follows (s:state) (evs:list event) : Prop :=
  match evs with
  | [] => True
  | e :: r => follows s e /\ match apply st s e with Ok s' => run_follows s' r | Err _ => True end
  end.

Definition event_sim (e:event) : option nat :=
  match e with EvStart i | EvBegin i _ _ | EvStep i _ | EvData i _ _ | EvLoopFail i | EvStepBad i => Some i | EvQuiesce => None end.
Definition inflight (p:phase) : Prop := p = InStep \/ p = InData.

Lemma wake_sim_inflight i x : inflight (pc x) -> wake_sim st i x = x.
Proof. intros [H|H]; unfold wake_sim; rewrite H; reflexivity. Qed.

Lemma finish_frame (s:state) j ott ports s' i : finish_step st s j ott ports = Ok s' -> i <> j -> inflight (pc (s i)) ->
  pc (s' i) = pc (s i) /\ cur (s' i) = cur (s i).
Proof.
  rewrite finish_step_eq. set (s1 := upd s j _).
  destruct (fold_left _ (seq 0 (nsims st)) _) as [s3|e] eqn:E; [|discriminate]. intros H Hij Hin; injection H as <-.
  destruct (advance_all_fields st _ _ _ E) as (F & _ & _). destruct (F i) as (Fp & _ & Fc & _).
  assert (P1 : pc (s3 i) = pc (s i)).
  { rewrite Fp. unfold s1. rewrite notify_pc, upd_at. destruct (Nat.eqb_spec i j); [contradiction|reflexivity]. }
  assert (C1 : cur (s3 i) = cur (s i)).
  { rewrite Fc. unfold s1. rewrite notify_cur, upd_at. destruct (Nat.eqb_spec i j); [contradiction|reflexivity]. }
  rewrite wake_at, loop_eval_at. destruct (Nat.eqb_spec i j); [contradiction|].
  assert (Hin3 : inflight (pc (s3 i))) by (rewrite P1; exact Hin).
  destruct (i <? nsims st)%nat; [rewrite (wake_sim_inflight i _ Hin3)|]; auto.
Qed.

Lemma apply_frame s e s' i : apply st s e = Ok s' -> inflight (pc (s i)) -> event_sim e <> Some i ->
  pc (s' i) = pc (s i) /\ cur (s' i) = cur (s i).
Proof.
  intros H Hin Hne. destruct e as [j | j t m | j nxt | j ot ports | | j | j]; simpl in H, Hne.
  - assert (Hij : i <> j) by congruence.
    destruct (pc (s j)); try discriminate.
    destruct (advance st s j) as [s1|] eqn:E; [|discriminate]. injection H as <-.
    destruct (advance_fields _ _ _ _ E) as (F & _ & _). destruct (F i) as (Fp & _ & Fc & _).
    rewrite wake_at, loop_eval_at. destruct (Nat.eqb_spec i j); [contradiction|].
    assert (Hin1 : inflight (pc (s1 i))) by (rewrite Fp; exact Hin).
    destruct (i <? nsims st)%nat; [rewrite (wake_sim_inflight i _ Hin1)|]; auto.
  - assert (Hij : i <> j) by congruence.
    destruct (begin_enabled st s j); simpl in H; try discriminate.
    destruct (tmin (nexts (s j))) as [t'|]; try discriminate.
    destruct (teq t' t); simpl in H; try discriminate. destruct (teq t' (prog (s j))); simpl in H; try discriminate.
    destruct (loop_exceeded st t'); simpl in H; try discriminate.
    match type of H with (if ?b then _ else _) = _ => destruct b end; try discriminate.
    injection H as <-. rewrite upd_at. destruct (Nat.eqb_spec i j); [contradiction|auto].
  - assert (Hij : i <> j) by congruence.
    destruct (pc (s j)) eqn:Epc; try discriminate. destruct (cur (s j)) as [t|] eqn:Ecur; try discriminate.
    set (s1 := upd s j (mkSim InStep (prog (s j)) (nexts (s j)) (Some t) t (newer (s j)))) in H.
    assert (A1 : s1 i = s i) by (unfold s1; rewrite upd_at; destruct (Nat.eqb_spec i j); [contradiction|reflexivity]).
    assert (Hgo : forall s2, s2 i = s i ->
              (if outreq st j
               then Ok (upd s2 j (mkSim InData (prog (s2 j)) (nexts (s2 j)) (cur (s2 j)) (last (s2 j)) (newer (s2 j))))
               else finish_step st s2 j t []) = Ok s' -> pc (s' i) = pc (s i) /\ cur (s' i) = cur (s i)).
    { intros s2 A2 H2. destruct (outreq st j).
      - injection H2 as <-. rewrite upd_at. destruct (Nat.eqb_spec i j); [contradiction|rewrite A2; auto].
      - rewrite <- A2. eapply finish_frame; eauto. rewrite A2. exact Hin. }
    destruct nxt as [v|].
    + destruct (v <=? thd t); try discriminate.
      destruct (v <? until st); apply Hgo in H; auto. rewrite schedule_other by exact Hij. exact A1.
    + destruct (timebased st j); try discriminate. apply Hgo in H; auto.
  - assert (Hij : i <> j) by congruence.
    destruct (pc (s j)); try discriminate. destruct (cur (s j)); try discriminate.
    destruct (ot <? thd (last (s j))); try discriminate. eapply finish_frame; eauto.
  - destruct (existsb _ _); [discriminate|]. injection H as <-. auto.
  - destruct (negb (begin_enabled st s j)); simpl in H; try discriminate.
    destruct (tmin (nexts (s j))); try discriminate. destruct (_ && _); try discriminate. injection H as <-. auto.
  - destruct (pc (s j)); try discriminate. destruct (cur (s j)); discriminate.
Qed.

(* an event addressed to a simulator that is in its step (waiting for the step reply) is that reply *)
Lemma own_event_instep s e s' i : apply st s e = Ok s' -> pc (s i) = InStep -> event_sim e = Some i -> exists nxt, e = EvStep i nxt.
Proof.
  intros H Hp He. destruct e as [j | j t m | j nxt | j ot ports | | j | j]; simpl in He; try discriminate; injection He as ->; simpl in H.
  - rewrite Hp in H. discriminate.
  - unfold begin_enabled in H. rewrite Hp in H. simpl in H. discriminate.
  - eauto.
  - rewrite Hp in H. discriminate.
  - unfold begin_enabled in H. rewrite Hp in H. simpl in H. discriminate.
  - rewrite Hp in H. destruct (cur (s i)); discriminate.
Qed.
Lemma own_event_indata s e s' i : apply st s e = Ok s' -> pc (s i) = InData -> event_sim e = Some i -> exists ot ports, e = EvData i ot ports.
Proof.
  intros H Hp He. destruct e as [j | j t m | j nxt | j ot ports | | j | j]; simpl in He; try discriminate; injection He as ->; simpl in H.
  - rewrite Hp in H. discriminate.
  - unfold begin_enabled in H. rewrite Hp in H. simpl in H. discriminate.
  - rewrite Hp in H. discriminate.
  - eauto.
  - unfold begin_enabled in H. rewrite Hp in H. simpl in H. discriminate.
  - rewrite Hp in H. destruct (cur (s i)); discriminate.
Qed.

(* in a run that ends with i done, a step of i that is in flight receives its replies *)
Lemma instep_gets_reply evs : forall s l i t, run st s evs = Ok l -> pc (s i) = InStep -> cur (s i) = Some t ->
  pc (List.last l s i) = Done ->
  exists p sp nxt, nth_error evs p = Some (EvStep i nxt) /\ nth_error (s :: l) p = Some sp /\ cur (sp i) = Some t.
Proof.
  induction evs as [|e r IH]; intros s l i t H Hp Hc Hd; simpl in H.
  - injection H as <-. simpl in Hd. congruence.
  - destruct (apply st s e) as [s1|] eqn:E; [|discriminate].
    destruct (run st s1 r) as [l1|] eqn:E1; [|discriminate]. injection H as <-.
    destruct (option_eq_dec_nat (event_sim e) i) as [He|He].
    + destruct (own_event_instep _ _ _ _ E Hp He) as (nxt & ->). exists 0%nat, s, nxt. auto.
    + destruct (apply_frame _ _ _ i E (or_introl Hp) He) as [P C]. rewrite last_cons_default in Hd.
      destruct (IH s1 l1 i t E1 (eq_trans P Hp) (eq_trans C Hc) Hd) as (p & sp & nxt & A1 & A2 & A3).
      exists (S p), sp, nxt. auto.
Qed.

Lemma indata_gets_reply evs : forall s l i t, run st s evs = Ok l -> pc (s i) = InData -> cur (s i) = Some t ->
  pc (List.last l s i) = Done ->
  exists p sp ot ports, nth_error evs p = Some (EvData i ot ports) /\ nth_error (s :: l) p = Some sp /\ cur (sp i) = Some t.
Proof.
  induction evs as [|e r IH]; intros s l i t H Hp Hc Hd; simpl in H.
  - injection H as <-. simpl in Hd. congruence.
  - destruct (apply st s e) as [s1|] eqn:E; [|discriminate].
    destruct (run st s1 r) as [l1|] eqn:E1; [|discriminate]. injection H as <-.
    destruct (option_eq_dec_nat (event_sim e) i) as [He|He].
    + destruct (own_event_indata _ _ _ _ E Hp He) as (ot & ports & ->). exists 0%nat, s, ot, ports. auto.
    + destruct (apply_frame _ _ _ i E (or_intror Hp) He) as [P C]. rewrite last_cons_default in Hd.
      destruct (IH s1 l1 i t E1 (eq_trans P Hp) (eq_trans C Hc) Hd) as (p & sp & ot & ports & A1 & A2 & A3).
      exists (S p), sp, ot, ports. auto.
Qed.

(* ---- where the InData phase comes from: only from a step reply of a simulator whose outputs are requested ---- *)
Lemma loop_sim_not_indata i x : pc (loop_sim st i x) <> InData.
Proof.
  unfold loop_sim. destruct (until st <=? thd (prog x)); [simpl; discriminate|].
  destruct (tmin (nexts x)) as [m|]; [destruct (teq m (prog x))|]; simpl; discriminate.
Qed.
Lemma wake_sim_indata i x : pc (wake_sim st i x) = InData -> pc x = InData.
Proof.
  unfold wake_sim. destruct (pc x) as [|aw|w| | |] eqn:E; try (intros H; congruence).
  destruct (tle aw (prog x) || newer x); [intros H; exfalso; eapply loop_sim_not_indata; eauto|congruence].
Qed.
Lemma finish_indata (s:state) j ott ports s' q : finish_step st s j ott ports = Ok s' -> pc (s' q) = InData -> pc (s q) = InData.
Proof.
  rewrite finish_step_eq. set (s1 := upd s j _).
  destruct (fold_left _ (seq 0 (nsims st)) _) as [s3|e] eqn:E; [|discriminate]. intros H Hq; injection H as <-.
  destruct (advance_all_fields st _ _ _ E) as (F & _ & _). destruct (F q) as (Fp & _).
  assert (X : pc (loop_eval st s3 j q) = InData).
  { rewrite wake_at in Hq. destruct (q <? nsims st)%nat; [apply wake_sim_indata in Hq|]; exact Hq. }
  rewrite loop_eval_at in X. destruct (Nat.eqb_spec q j) as [->|Hqj]; [exfalso; eapply loop_sim_not_indata; eauto|].
  rewrite Fp in X. unfold s1 in X. rewrite notify_pc, upd_at in X. destruct (Nat.eqb_spec q j); [contradiction|exact X].
Qed.
Lemma apply_indata_origin s e s' q : apply st s e = Ok s' -> pc (s' q) = InData -> pc (s q) = InData \/ outreq st q = true.
Proof.
  intros H Hq. destruct e as [j | j t m | j nxt | j ot ports | | j | j]; simpl in H.
  - left. destruct (pc (s j)); try discriminate.
    destruct (advance st s j) as [s1|] eqn:E; [|discriminate]. injection H as <-.
    destruct (advance_fields _ _ _ _ E) as (F & _ & _). destruct (F q) as (Fp & _).
    assert (X : pc (loop_eval st s1 j q) = InData).
    { rewrite wake_at in Hq. destruct (q <? nsims st)%nat; [apply wake_sim_indata in Hq|]; exact Hq. }
    rewrite loop_eval_at in X. destruct (Nat.eqb_spec q j) as [->|Hqj]; [exfalso; eapply loop_sim_not_indata; eauto|].
    rewrite Fp in X. exact X.
  - left. destruct (begin_enabled st s j); simpl in H; try discriminate.
    destruct (tmin (nexts (s j))) as [t'|]; try discriminate.
    destruct (teq t' t); simpl in H; try discriminate. destruct (teq t' (prog (s j))); simpl in H; try discriminate.
    destruct (loop_exceeded st t'); simpl in H; try discriminate.
    match type of H with (if ?b then _ else _) = _ => destruct b end; try discriminate.
    injection H as <-. rewrite upd_at in Hq. destruct (Nat.eqb_spec q j); [simpl in Hq; discriminate|exact Hq].
  - destruct (pc (s j)) eqn:Epc; try discriminate. destruct (cur (s j)) as [t|] eqn:Ecur; try discriminate.
    set (s1 := upd s j (mkSim InStep (prog (s j)) (nexts (s j)) (Some t) t (newer (s j)))) in H.
    assert (A1 : forall x, x <> j -> pc (s1 x) = pc (s x)) by (intros x Hx; unfold s1; rewrite upd_at; destruct (Nat.eqb_spec x j); [contradiction|reflexivity]).
    assert (B1 : pc (s1 j) = InStep) by (unfold s1; rewrite upd_at, Nat.eqb_refl; reflexivity).
    assert (Hgo : forall s2, (forall x, pc (s2 x) = pc (s1 x)) ->
              (if outreq st j
               then Ok (upd s2 j (mkSim InData (prog (s2 j)) (nexts (s2 j)) (cur (s2 j)) (last (s2 j)) (newer (s2 j))))
               else finish_step st s2 j t []) = Ok s' -> pc (s q) = InData \/ outreq st q = true).
    { intros s2 A2 H2. destruct (outreq st j) eqn:Eo.
      - injection H2 as <-. rewrite upd_at in Hq. destruct (Nat.eqb_spec q j) as [->|Hqj]; [right; exact Eo|].
        left. rewrite A2, A1 in Hq by exact Hqj. exact Hq.
      - left. pose proof (finish_indata _ _ _ _ _ _ H2 Hq) as X. rewrite A2 in X.
        destruct (Nat.eq_dec q j) as [->|Hqj]; [congruence|]. rewrite A1 in X by exact Hqj. exact X. }
    destruct nxt as [v|].
    + destruct (v <=? thd t); try discriminate.
      destruct (v <? until st); apply Hgo in H; auto. intros x. apply pc_schedule.
    + destruct (timebased st j); try discriminate. apply Hgo in H; auto.
  - left. destruct (pc (s j)); try discriminate. destruct (cur (s j)); try discriminate.
    destruct (ot <? thd (last (s j))); try discriminate. eapply finish_indata; eauto.
  - left. destruct (existsb _ _); [discriminate|]. injection H as <-. exact Hq.
  - left. destruct (negb (begin_enabled st s j)); simpl in H; try discriminate.
    destruct (tmin (nexts (s j))); try discriminate. destruct (_ && _); try discriminate. injection H as <-. exact Hq.
  - destruct (pc (s j)); try discriminate. destruct (cur (s j)); discriminate.
Qed.

(* ---- position-indexed versions of the origin lemmas ---- *)
Lemma queue_origin_at evs : forall s l p sp i c, run st s evs = Ok l -> nth_error (s :: l) p = Some sp -> In c (nexts (sp i)) ->
  In c (nexts (s i)) \/ exists p' e sp', (p' < p)%nat /\ nth_error evs p' = Some e /\ nth_error (s :: l) p' = Some sp' /\ demanded st sp' e i c.
Proof.
  induction evs as [|e r IH]; intros s l p sp i c H Hp Hc; simpl in H.
  - injection H as <-. destruct p as [|[|p]]; simpl in Hp; try discriminate. injection Hp as <-. left; exact Hc.
  - destruct (apply st s e) as [s1|] eqn:E; [|discriminate].
    destruct (run st s1 r) as [l1|] eqn:E1; [|discriminate]. injection H as <-.
    destruct p as [|p]; [simpl in Hp; injection Hp as <-; left; exact Hc|]. simpl in Hp.
    destruct (IH s1 l1 p sp i c E1 Hp Hc) as [A|(p' & e' & sp' & A1 & A2 & A3 & A4)].
    + destruct (apply_queue_origin st _ _ _ _ _ E A) as [A'|A']; [left; exact A'|].
      right. exists 0%nat, e, s. repeat split; auto. lia.
    + right. exists (S p'), e', sp'. repeat split; auto. lia.
Qed.

Lemma apply_cur_begin s e s' i c : apply st s e = Ok s' -> cur (s' i) = Some c -> cur (s i) = Some c \/ exists m, e = EvBegin i c m.
Proof.
  intros H Hc. destruct e as [j | j t m | j nxt | j ot ports | | j | j]; simpl in H.
  - left. destruct (pc (s j)); try discriminate.
    destruct (advance st s j) as [s1|] eqn:E; [|discriminate]. injection H as <-.
    destruct (advance_fields _ _ _ _ E) as (F & _ & _).
    pose proof (wake_sleepers_same st (loop_eval st s1 j) i) as (_ & _ & W & _). rewrite W in Hc.
    pose proof (loop_eval_same st s1 j i) as (_ & _ & L & _). rewrite L in Hc. destruct (F i) as (_ & _ & N & _). rewrite N in Hc. exact Hc.
  - destruct (begin_enabled st s j); simpl in H; try discriminate.
    destruct (tmin (nexts (s j))) as [t'|] eqn:Et; try discriminate.
    destruct (teq t' t) eqn:E1; simpl in H; try discriminate. apply teq_eq in E1. subst t'.
    destruct (teq t (prog (s j))); simpl in H; try discriminate.
    destruct (loop_exceeded st t); simpl in H; try discriminate.
    match type of H with (if ?b then _ else _) = _ => destruct b end; try discriminate.
    injection H as <-. rewrite upd_at in Hc. destruct (Nat.eqb_spec i j) as [->|Hij]; [|left; exact Hc].
    simpl in Hc. injection Hc as <-. right. exists m. reflexivity.
  - left. destruct (pc (s j)) eqn:Epc; try discriminate.
    destruct (cur (s j)) as [t|] eqn:Ecur; try discriminate.
    set (s1 := upd s j (mkSim InStep (prog (s j)) (nexts (s j)) (Some t) t (newer (s j)))) in H.
    assert (G1 : forall q, cur (s1 q) = cur (s q)).
    { intros q. unfold s1. rewrite upd_at. destruct (Nat.eqb_spec q j) as [->|]; [simpl; symmetry; exact Ecur|reflexivity]. }
    assert (Hgo : forall s2, (forall q, cur (s2 q) = cur (s q)) ->
              (if outreq st j
               then Ok (upd s2 j (mkSim InData (prog (s2 j)) (nexts (s2 j)) (cur (s2 j)) (last (s2 j)) (newer (s2 j))))
               else finish_step st s2 j t []) = Ok s' -> cur (s i) = Some c).
    { intros s2 G2 H2. destruct (outreq st j).
      - injection H2 as <-. rewrite upd_at in Hc. destruct (Nat.eqb_spec i j) as [->|]; [simpl in Hc|]; rewrite G2 in Hc; exact Hc.
      - rewrite <- G2. eapply (finish_cur st); eauto. }
    destruct nxt as [v|].
    + destruct (v <=? thd t); try discriminate.
      destruct (v <? until st); apply Hgo in H; auto. intros q. rewrite cur_schedule. apply G1.
    + destruct (timebased st j); try discriminate. apply Hgo in H; auto.
  - left. destruct (pc (s j)); try discriminate. destruct (cur (s j)) as [t|] eqn:Ecur; try discriminate.
    destruct (ot <? thd (last (s j))); try discriminate. eapply (finish_cur st); eauto.
  - left. destruct (existsb _ _); [discriminate|]. injection H as <-. exact Hc.
  - left. destruct (negb (begin_enabled st s j)); simpl in H; try discriminate.
    destruct (tmin (nexts (s j))); try discriminate. destruct (_ && _); try discriminate.
    injection H as <-. exact Hc.
  - destruct (pc (s j)); try discriminate. destruct (cur (s j)); discriminate.
Qed.

Lemma cur_origin_at evs : forall s l p sp i t, run st s evs = Ok l -> nth_error (s :: l) p = Some sp -> cur (sp i) = Some t ->
  cur (s i) = Some t \/ exists p' m, (p' < p)%nat /\ nth_error evs p' = Some (EvBegin i t m).
Proof.
  induction evs as [|e r IH]; intros s l p sp i t H Hp Hc; simpl in H.
  - injection H as <-. destruct p as [|[|p]]; simpl in Hp; try discriminate. injection Hp as <-. left; exact Hc.
  - destruct (apply st s e) as [s1|] eqn:E; [|discriminate].
    destruct (run st s1 r) as [l1|] eqn:E1; [|discriminate]. injection H as <-.
    destruct p as [|p]; [simpl in Hp; injection Hp as <-; left; exact Hc|]. simpl in Hp.
    destruct (IH s1 l1 p sp i t E1 Hp Hc) as [A|(p' & m & A1 & A2)].
    + destruct (apply_cur_begin _ _ _ _ _ E A) as [A'|(m & ->)]; [left; exact A'|].
      right. exists 0%nat, m. split; [lia|reflexivity].
    + right. exists (S p'), m. split; [lia|exact A2].
Qed.

Lemma run_suffix evs : forall s l g sg, run st s evs = Ok l -> nth_error (s :: l) g = Some sg ->
  run st sg (skipn g evs) = Ok (skipn g l) /\ List.last (skipn g l) sg = List.last l s.
Proof.
  induction evs as [|e r IH]; intros s l g sg H Hg; simpl in H.
  - injection H as <-. destruct g as [|[|g]]; simpl in Hg; try discriminate. injection Hg as <-. simpl. auto.
  - destruct (apply st s e) as [s1|] eqn:E; [|discriminate].
    destruct (run st s1 r) as [l1|] eqn:E1; [|discriminate]. injection H as <-.
    destruct g as [|g].
    + simpl in Hg. injection Hg as <-. simpl. rewrite E, E1. auto.
    + simpl in Hg. destruct (IH s1 l1 g sg E1 Hg) as [A A']. simpl. split; [exact A|]. rewrite A'. symmetry. apply last_cons_default.
Qed.

Lemma follows_at evs : forall s l p e sp, run st s evs = Ok l -> run_follows s evs ->
  nth_error evs p = Some e -> nth_error (s :: l) p = Some sp -> follows sp e.
Proof.
  induction evs as [|e0 r IH]; intros s l p e sp H HF Hp Hs; simpl in H; [destruct p; discriminate|].
  destruct (apply st s e0) as [s1|] eqn:E; [|discriminate].
  destruct (run st s1 r) as [l1|] eqn:E1; [|discriminate]. injection H as <-.
  simpl in HF. rewrite E in HF. destruct HF as [F0 FR].
  destruct p as [|p]; simpl in Hp, Hs.
  - injection Hp as <-. injection Hs as <-. exact F0.
  - eapply IH; eauto.
Qed.

Lemma nth_error_suffix {A} (l : list A) g r x : nth_error (skipn g l) r = Some x -> nth_error l (g + r) = Some x.
Proof. rewrite nth_error_skipn'. auto. Qed.

(* ---- run B: complete ---- *)
Variable evsB : list event.
Variable lB : list state.
Hypothesis HrunB : run st (init_state st) evsB = Ok lB.
Hypothesis HfolB : run_follows (init_state st) evsB.
Hypothesis HdoneB : forall i, (i < nsims st)%nat -> pc (List.last lB (init_state st) i) = Done.

Definition beginsB (i:nat) (c:time) : Prop := exists q m, nth_error evsB q = Some (EvBegin i c m).

Lemma reachedB : reached st (List.last lB (init_state st)).
Proof. exists evsB, lB. auto. Qed.

Lemma queued_is_begun g sg i c : (i < nsims st)%nat -> nth_error (init_state st :: lB) g = Some sg -> In c (nexts (sg i)) -> beginsB i c.
Proof.
  intros Hi Hg Hc. destruct (run_suffix _ _ _ _ _ HrunB Hg) as [Hs Hl].
  destruct (run_queue st _ _ _ i c Hs Hc) as [A|(p & m & A)].
  - exfalso. rewrite Hl in A. rewrite (done_queue_empty st OK IB _ i reachedB Hi (HdoneB i Hi)) in A. destruct A.
  - exists (g + p)%nat, m. apply nth_error_suffix. exact A.
Qed.

(* what a step begun in B leads to: its step reply, and (if outputs are requested) its output reply, both with cur = t *)
Lemma begun_step_reply q i t m : (i < nsims st)%nat -> nth_error evsB q = Some (EvBegin i t m) ->
  exists g sg nxt, nth_error evsB g = Some (EvStep i nxt) /\ nth_error (init_state st :: lB) g = Some sg /\ cur (sg i) = Some t /\ pc (sg i) = InStep.
Proof.
  intros Hi Hq. assert (Hlq : (q < length evsB)%nat) by (apply nth_error_Some; congruence).
  destruct (run_split st _ _ _ q HrunB Hlq) as (sq & e & sq' & l2 & A & B0 & C & D0 & _).
  rewrite Hq in B0. injection B0 as <-.
  destruct (begin_facts _ _ _ _ _ _ C) as (t0 & _ & _ & _ & _ & _ & Es' & _).
  assert (P' : pc (sq' i) = InStep) by (rewrite Es', upd_at, Nat.eqb_refl; reflexivity).
  assert (C' : cur (sq' i) = Some t) by (rewrite Es', upd_at, Nat.eqb_refl; reflexivity).
  destruct (run_suffix _ _ _ _ _ HrunB D0) as [Hs Hl].
  assert (Hd : pc (List.last (skipn (S q) lB) sq' i) = Done) by (rewrite Hl; apply HdoneB; exact Hi).
  destruct (instep_gets_reply _ _ _ i t Hs P' C' Hd) as (p & sp & nxt & A1 & A2 & A3).
  exists (S q + p)%nat, sp, nxt. split; [apply nth_error_suffix; exact A1|].
  assert (X : nth_error (init_state st :: lB) (S q + p) = Some sp).
  { destruct p as [|p]; [simpl in A2; injection A2 as <-; rewrite Nat.add_0_r; exact D0|].
    simpl in A2. replace (S q + S p)%nat with (S (S q + p)) by lia. change (nth_error lB (S q + p) = Some sp). apply nth_error_suffix. exact A2. }
  split; [exact X|]. split; [exact A3|].
  (* pc: the state in which the reply arrives still has the simulator in its step *)
  assert (Hlp : (S q + p < length evsB)%nat) by (apply nth_error_Some; rewrite (nth_error_suffix _ _ _ _ A1); discriminate).
  destruct (run_split st _ _ _ (S q + p) HrunB Hlp) as (sg & e & sg' & l3 & G1 & G2 & G3 & _).
  rewrite X in G1. injection G1 as <-. rewrite (nth_error_suffix _ _ _ _ A1) in G2. injection G2 as <-.
  simpl in G3. destruct (pc (sp i)); try discriminate. reflexivity.
Qed.

Lemma begun_data_reply q i t m : (i < nsims st)%nat -> nth_error evsB q = Some (EvBegin i t m) -> outreq st i = true ->
  exists g sg ot ports, nth_error evsB g = Some (EvData i ot ports) /\ nth_error (init_state st :: lB) g = Some sg /\ cur (sg i) = Some t.
Proof.
  intros Hi Hq Ho. destruct (begun_step_reply q i t m Hi Hq) as (g1 & sg1 & nxt & G1 & G2 & G3 & G4).
  assert (Hl1 : (g1 < length evsB)%nat) by (apply nth_error_Some; congruence).
  destruct (run_split st _ _ _ g1 HrunB Hl1) as (s0 & e & s1' & l3 & A & B0 & C & D0 & _).
  rewrite G2 in A. injection A as <-. rewrite G1 in B0. injection B0 as <-.
  assert (P' : pc (s1' i) = InData /\ cur (s1' i) = Some t).
  { simpl in C. rewrite G4, G3, Ho in C.
    destruct nxt as [v|].
    - destruct (v <=? thd t); [discriminate|]. injection C as <-. rewrite upd_at, Nat.eqb_refl. simpl. split; [reflexivity|].
      destruct (v <? until st); [rewrite cur_schedule|]; rewrite upd_at, Nat.eqb_refl; reflexivity.
    - destruct (timebased st i); [discriminate|]. injection C as <-. rewrite upd_at, Nat.eqb_refl. simpl. split; [reflexivity|].
      rewrite upd_at, Nat.eqb_refl; reflexivity. }
  destruct P' as [P' C'].
  destruct (run_suffix _ _ _ _ _ HrunB D0) as [Hs Hl].
  assert (Hd : pc (List.last (skipn (S g1) lB) s1' i) = Done) by (rewrite Hl; apply HdoneB; exact Hi).
  destruct (indata_gets_reply _ _ _ i t Hs P' C' Hd) as (p & sp & ot & ports & A1 & A2 & A3).
  exists (S g1 + p)%nat, sp, ot, ports. split; [apply nth_error_suffix; exact A1|]. split; [|exact A3].
  destruct p as [|p]; [simpl in A2; injection A2 as <-; rewrite Nat.add_0_r; exact D0|].
  simpl in A2. replace (S g1 + S p)%nat with (S (S g1 + p)) by lia. change (nth_error lB (S g1 + p) = Some sp). apply nth_error_suffix. exact A2.
Qed.

(* ---- run A: any run that follows the same behaviour ---- *)
Theorem same_steps evsA lA :
  run st (init_state st) evsA = Ok lA -> run_follows (init_state st) evsA ->
  (forall e j, In e evsA -> event_sim e = Some j -> (j < nsims st)%nat) ->
  forall p i c m, nth_error evsA p = Some (EvBegin i c m) -> beginsB i c.
Proof.
  intros HrunA HfolA Hrange p. induction p as [p IHp] using lt_wf_ind. intros i c m Hp.
  assert (Hi : (i < nsims st)%nat) by (eapply Hrange; [eapply nth_error_In; exact Hp|reflexivity]).
  assert (Hlp : (p < length evsA)%nat) by (apply nth_error_Some; congruence).
  destruct (run_split st _ _ _ p HrunA Hlp) as (sp & e & sp' & l2 & A & B0 & C & _).
  rewrite Hp in B0. injection B0 as <-.
  destruct (begin_facts _ _ _ _ _ _ C) as (t0 & _ & _ & Ht & _).
  apply tmin_spec in Ht as [Hin _].
  destruct (queue_origin_at _ _ _ _ _ _ _ HrunA A Hin) as [Hinit|(p' & e & sp0 & Hlt & He & Hs0 & Hdem)].
  - (* an initial step: queued in the initial state of run B as well *)
    apply (queued_is_begun 0 (init_state st) i c Hi eq_refl Hinit).
  - assert (Hlp' : (p' < length evsA)%nat) by (apply nth_error_Some; congruence).
    destruct (run_split st _ _ _ p' HrunA Hlp') as (s0 & e0 & s0' & l3 & A0 & B1 & C0 & _).
    rewrite Hs0 in A0. injection A0 as <-. rewrite He in B1. injection B1 as <-.
    pose proof (follows_at _ _ _ _ _ _ HrunA HfolA He Hs0) as Hfol.
    destruct e as [j | j t m0 | j nxt | j ot ports | | j | j]; simpl in Hdem; try contradiction.
    + (* demanded by a next-step reply of i itself *)
      destruct nxt as [v|]; [|contradiction]. destruct Hdem as (-> & -> & Hv).
      simpl in C0. destruct (pc (sp0 i)) eqn:Epc; try discriminate. destruct (cur (sp0 i)) as [t|] eqn:Ecur; try discriminate.
      simpl in Hfol. specialize (Hfol t Ecur).
      destruct (cur_origin_at _ _ _ _ _ _ _ HrunA Hs0 Ecur) as [X|(p'' & m'' & Hlt'' & Hb'')]; [simpl in X; discriminate|].
      destruct (IHp p'' ltac:(lia) i t m'' Hb'') as (q & mq & Hq).
      destruct (begun_step_reply q i t mq Hi Hq) as (g & sg & nxt' & G1 & G2 & G3 & G4).
      pose proof (follows_at _ _ _ _ _ _ HrunB HfolB G1 G2) as HfB. simpl in HfB. specialize (HfB t G3).
      assert (Hn : nxt' = Some v) by congruence. rewrite Hn in G1. clear HfB Hn.
      assert (Hlg : (g < length evsB)%nat) by (apply nth_error_Some; congruence).
      destruct (run_split st _ _ _ g HrunB Hlg) as (s1 & e1 & s1' & l4 & A1 & B2 & C1 & D1 & _).
      rewrite G2 in A1. injection A1 as <-. rewrite G1 in B2. injection B2 as <-.
      assert (Hd : demanded st sg (EvStep i (Some v)) i (world_time st i v)) by (simpl; auto).
      pose proof (demanded_is_queued st _ _ _ _ _ C1 Hd) as Hq1.
      apply (queued_is_begun (S g) s1' i _ Hi D1 Hq1).
    + (* demanded by an output of j delivered to a trigger input of i *)
      destruct Hdem as (t & pt & d & Hc & Hpt & Hd & -> & Hu).
      assert (Hj : (j < nsims st)%nat) by (eapply Hrange; [eapply nth_error_In; exact He|reflexivity]).
      simpl in C0. destruct (pc (sp0 j)) eqn:Epc; try discriminate. rewrite Hc in C0.
      simpl in Hfol. specialize (Hfol t Hc).
      (* outputs of j are requested: it reached InData *)
      assert (Ho : outreq st j = true).
      { assert (G : forall evs s l p sp, run st s evs = Ok l -> nth_error (s :: l) p = Some sp -> pc (sp j) = InData -> pc (s j) = InData \/ outreq st j = true).
        { induction evs as [|e r IH]; intros s l p0 sp1 H Hp0 Hq; simpl in H.
          - injection H as <-. destruct p0 as [|[|p0]]; simpl in Hp0; try discriminate. injection Hp0 as <-. left; exact Hq.
          - destruct (apply st s e) as [s1|] eqn:E; [|discriminate].
            destruct (run st s1 r) as [l1|] eqn:E1; [|discriminate]. injection H as <-.
            destruct p0 as [|p0]; [simpl in Hp0; injection Hp0 as <-; left; exact Hq|]. simpl in Hp0.
            destruct (IH s1 l1 p0 sp1 E1 Hp0 Hq) as [X|X]; [|right; exact X].
            apply (apply_indata_origin _ _ _ _ E X). }
        destruct (G _ _ _ _ _ HrunA Hs0 Epc) as [X|X]; [simpl in X; discriminate|exact X]. }
      destruct (cur_origin_at _ _ _ _ _ _ _ HrunA Hs0 Hc) as [X|(p'' & m'' & Hlt'' & Hb'')]; [simpl in X; discriminate|].
      destruct (IHp p'' ltac:(lia) j t m'' Hb'') as (q & mq & Hq).
      destruct (begun_data_reply q j t mq Hj Hq Ho) as (g & sg & ot' & ports' & G1 & G2 & G3).
      pose proof (follows_at _ _ _ _ _ _ HrunB HfolB G1 G2) as HfB. simpl in HfB. specialize (HfB t G3).
      assert (Hsame : (ot', ports') = (ot, ports)) by congruence. injection Hsame as -> ->. clear HfB.
      assert (Hlg : (g < length evsB)%nat) by (apply nth_error_Some; congruence).
      destruct (run_split st _ _ _ g HrunB Hlg) as (s1 & e1 & s1' & l4 & A1 & B2 & C1 & D1 & _).
      rewrite G2 in A1. injection A1 as <-. rewrite G1 in B2. injection B2 as <-.
      assert (Hdm : demanded st sg (EvData j ot ports) i (act (if ot =? thd t then t else world_time st j ot) d)).
      { simpl. exists t, pt, d. repeat split; auto. }
      pose proof (demanded_is_queued st _ _ _ _ _ C1 Hdm) as Hq1.
      apply (queued_is_begun (S g) s1' i _ Hi D1 Hq1).
Qed.
End D.

(* ---- an executable driver: build a run from a schedule (which simulator moves next) and a behaviour ---- *)
Definition next_event (st:static) (B:behaviour) (s:state) (i:nat) : option event :=
  match pc (s i) with
  | NotStarted => Some (EvStart i)
  | WaitDeps _ => match begin_preview st s i with Some (t, m) => Some (EvBegin i t m) | None => None end
  | InStep => match cur (s i) with Some t => Some (EvStep i (fst (B i t))) | None => None end
  | InData => match cur (s i) with Some t => match snd (B i t) with Some (ot, ports) => Some (EvData i ot ports) | None => None end | None => None end
  | _ => None end.
Fixpoint drive (st:static) (B:behaviour) (s:state) (sched:list nat) : list event :=
  match sched with
  | [] => []
  | i :: r => match next_event st B s i with
              | Some e => match apply st s e with Ok s' => e :: drive st B s' r | Err _ => [] end
              | None => drive st B s r end
  end.

Lemma next_event_follows st B s i e : next_event st B s i = Some e -> follows B s e /\ event_sim e = Some i.
Proof.
  unfold next_event. destruct (pc (s i)); try discriminate.
  - intros H; injection H as <-. simpl. auto.
  - destruct (begin_preview st s i) as [[t0 m]|]; [|discriminate]. intros H; injection H as <-. simpl. auto.
  - destruct (cur (s i)) as [t0|] eqn:E; [|discriminate]. intros H; injection H as <-. simpl. split; [|reflexivity].
    intros t' H'. rewrite E in H'. injection H' as <-. reflexivity.
  - destruct (cur (s i)) as [t0|] eqn:E; [|discriminate]. destruct (snd (B i t0)) as [[ot ports]|] eqn:E2; [|discriminate].
    intros H; injection H as <-. simpl. split; [|reflexivity].
    intros t' H'. rewrite E in H'. injection H' as <-. exact E2.
Qed.

(* runs built by the driver are runs, follow the behaviour, and only address the scheduled simulators *)
Lemma drive_ok st B sched : forall s, exists l, run st s (drive st B s sched) = Ok l /\ run_follows st B s (drive st B s sched) /\
  (forall e j, In e (drive st B s sched) -> event_sim e = Some j -> In j sched).
Proof.
  induction sched as [|i r IH]; intros s; simpl.
  - exists []. simpl. split; [reflexivity|]. split; [exact I|intros ? ? []].
  - destruct (next_event st B s i) as [e|] eqn:En.
    + destruct (apply st s e) as [s'|] eqn:Ea.
      * destruct (IH s') as (l & R & F & G). exists (s' :: l). simpl. rewrite Ea, R. split; [reflexivity|].
        destruct (next_event_follows _ _ _ _ _ En) as [Fe Se]. split; [split; [exact Fe|exact F]|].
        intros e0 j [<-|Hin] Hj; [left; congruence|right; eapply G; eauto].
      * exists []. simpl. split; [reflexivity|]. split; [exact I|intros ? ? []].
    + destruct (IH s) as (l & R & F & G). exists l. split; [exact R|]. split; [exact F|].
      intros e0 j Hin Hj. right. eapply G; eauto.
Qed.
