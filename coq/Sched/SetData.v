(* C16, delivery of set_data values: a value written with set_data stays in the target's register until the target's
   next step, is handed to that step (unless a connection writes the very same (attribute, source) slot), and is gone
   afterwards: delivered exactly once, in the next step. *)
From Coq Require Import ZArith List Bool Arith Lia.
Import ListNotations.
From MV Require Import Time.Spec Static.Build Static.Cycle Static.CycleP Sched.Timing Sched.Plane Sched.DataP Sched.PruneRun.
Open Scope Z_scope.

Definition iget (a:attr) (k:nat) (d:idata) : option value := match aget a d with Some m => aget k m | None => None end.

Lemma iget_iset a k v a' k' d : iget a' k' (iset a k v d) = if Nat.eqb a' a && Nat.eqb k' k then Some v else iget a' k' d.
Proof.
  unfold iget, iset. destruct (Nat.eqb_spec a' a) as [->|Ha]; simpl.
  - rewrite aget_aset_same. destruct (Nat.eqb_spec k' k) as [->|Hk]; [apply aget_aset_same|].
    rewrite aget_aset_other by exact Hk. destruct (aget a d); reflexivity.
  - rewrite aget_aset_other by exact Ha. reflexivity.
Qed.

(* merging other data into a target never changes a slot the target already has ("target wins") *)
Lemma merge_inner_keeps (m : list (nat*value)) : forall tm k x, aget k tm = Some x ->
  aget k (fold_left (fun tm (sv:nat*value) => let (s,v) := sv in match aget s tm with None => aset s v tm | Some _ => tm end) m tm) = Some x.
Proof.
  induction m as [|[s v] m IH]; intros tm k x H; simpl; [exact H|]. apply IH.
  destruct (aget s tm) eqn:E; [exact H|]. destruct (Nat.eq_dec k s) as [->|Hk]; [congruence|]. rewrite aget_aset_other by exact Hk. exact H.
Qed.
Lemma merge_all_keeps o : forall t a k x, iget a k t = Some x -> iget a k (merge_all_i t o) = Some x.
Proof.
  unfold merge_all_i. induction o as [|[a0 m] o IH]; intros t a k x H; simpl; [exact H|]. apply IH.
  unfold iget in *. destruct (aget a t) as [tm|] eqn:Et; [|discriminate].
  destruct (aget a0 t) as [tm0|] eqn:E0.
  - destruct (Nat.eq_dec a a0) as [->|Ha].
    + rewrite aget_aset_same. rewrite Et in E0. injection E0 as <-. apply merge_inner_keeps. exact H.
    + rewrite aget_aset_other by exact Ha. rewrite Et. exact H.
  - destruct (Nat.eq_dec a a0) as [->|Ha]; [congruence|]. rewrite aget_aset_other by exact Ha. rewrite Et. exact H.
Qed.

(* the target's next step receives the value, unless a connection of the scenario writes the same slot in that step *)
Theorem set_data_delivered dt ds j step inp ds' a k v :
  get_input_data dt ds j step = (inp, ds') -> iget a k (setdata (ds j)) = Some v ->
  (forall e, In e (buffer (ds j)) -> btime e <= step -> (battr e, bsrc e) <> (a, k)) ->
  (forall src sh flows sa da, In ((src, sh), flows) (pulled dt j) -> In (sa, da) flows -> (da, src) <> (a, k)) ->
  iget a k inp = Some v.
Proof.
  unfold get_input_data. intros H Hs Hb Hp. injection H as <- _.
  set (inp0 := merge_all_i (setdata (ds j)) (persist (ds j))).
  assert (H0 : iget a k inp0 = Some v) by (apply merge_all_keeps; exact Hs).
  set (due := sort_b (filter (fun e => btime e <=? step) (buffer (ds j)))).
  assert (Hdue : forall e, In e due -> (battr e, bsrc e) <> (a, k)).
  { intros e He. unfold due in He. apply (proj1 (sort_b_in _ _)) in He. apply filter_In in He as [He Ht]. apply Z.leb_le in Ht. apply Hb; assumption. }
  assert (H1 : forall l inp1, (forall e, In e l -> (battr e, bsrc e) <> (a, k)) -> iget a k inp1 = Some v ->
     iget a k (fold_left (fun inp e => iset (battr e) (bsrc e) (Some (bval e)) inp) l inp1) = Some v).
  { induction l as [|e l IH]; intros inp1 Hl Hi; simpl; [exact Hi|]. apply IH; [intros; apply Hl; right; assumption|].
    rewrite iget_iset. destruct (Nat.eqb_spec a (battr e)) as [->|]; [|exact Hi]. destruct (Nat.eqb_spec k (bsrc e)) as [->|]; [|exact Hi].
    exfalso. apply (Hl e (or_introl eq_refl)). reflexivity. }
  specialize (H1 due inp0 Hdue H0).
  assert (H2 : forall l inp1, (forall src sh flows sa da, In ((src, sh), flows) l -> In (sa, da) flows -> (da, src) <> (a, k)) -> iget a k inp1 = Some v ->
     iget a k (fold_left (fun inp (g : (nat*Z) * list (attr*attr)) => let '((src,sh),flows) := g in
               let cache := get_output_for (outputs (ds src)) (step - sh) in
               fold_left (fun inp (f:attr*attr) => let (sa,da) := f in iset da src (aget sa cache) inp) flows inp) l inp1) = Some v).
  { induction l as [|[[src sh] flows] l IH]; intros inp1 Hl Hi; simpl; [exact Hi|]. apply IH; [intros src' sh' flows' sa' da' Hin1 Hin2; apply (Hl src' sh' flows' sa' da'); [right; exact Hin1|exact Hin2]|].
    assert (G : forall fl inp2, (forall sa da, In (sa, da) fl -> (da, src) <> (a, k)) -> iget a k inp2 = Some v ->
       iget a k (fold_left (fun inp (f:attr*attr) => let (sa,da) := f in iset da src (aget sa (get_output_for (outputs (ds src)) (step - sh))) inp) fl inp2) = Some v).
    { induction fl as [|[sa da] fl IHf]; intros inp2 Hf Hi2; simpl; [exact Hi2|]. apply IHf; [intros sa' da' Hin'; apply (Hf sa' da'); right; exact Hin'|].
      rewrite iget_iset. destruct (Nat.eqb_spec a da) as [->|]; [|exact Hi2]. destruct (Nat.eqb_spec k src) as [->|]; [|exact Hi2].
      exfalso. apply (Hf sa da (or_introl eq_refl)). reflexivity. }
    apply G; [intros sa da Hin; apply (Hl src sh flows sa da); [left; reflexivity|exact Hin]|exact Hi]. }
  apply H2; assumption.
Qed.

Lemma push_one_setdata i ot v ds dd j : setdata (push_one i ot v ds dd j) = setdata (ds j).
Proof. destruct dd as [[dest sh] da]. unfold push_one, dupd. destruct (Nat.eqb_spec j dest) as [->|]; reflexivity. Qed.
Lemma put_outputs_setdata dt ds i ot data j : setdata (put_outputs dt ds i ot data j) = setdata (ds j).
Proof.
  rewrite put_outputs_eq.
  assert (G : forall ps d0, setdata (fold_left (push_port i ot data) ps d0 j) = setdata (d0 j)).
  { induction ps as [|[sa dests] ps IH]; intros d0; simpl; [reflexivity|]. rewrite IH. unfold push_port.
    destruct (aget sa data) as [v|]; [|reflexivity].
    clear. revert d0. induction dests as [|dd dests IHd]; intros d0; simpl; [reflexivity|]. rewrite IHd. apply push_one_setdata. }
  rewrite G. destruct (d_cache dt); [|reflexivity]. unfold dupd. destruct (Nat.eqb_spec j i) as [->|]; reflexivity.
Qed.
Lemma prune_setdata st dt s ds j : setdata (prune st dt s ds j) = setdata (ds j).
Proof.
  rewrite prune_at. destruct (negb (d_cache dt)); [reflexivity|]. unfold prune1. destruct (outputs (ds j)); reflexivity.
Qed.

(* the register of j is only touched by j's own BEGIN and by set_data calls addressed to j *)
Theorem set_data_kept st dt s ds e s' ds' inp j :
  dapply st dt (s, ds) e = DOk s' ds' inp ->
  (forall t m, e <> DBegin j t m) -> (forall i w a v, e <> DSetData i w j a v) ->
  setdata (ds' j) = setdata (ds j).
Proof.
  intros H Hb Hs. unfold dapply in H. destruct e as [e' | i t m | i ot ports data | i w j' a v]; cbv beta iota in H.
  - destruct e' as [q | q t m | q nxt | q ot ports | | q | q]; cbv beta iota in H;
      try (destruct (apply st s _) as [s1|]; [|discriminate]; injection H as _ <- _; reflexivity).
    destruct (apply st s (EvStep q nxt)) as [s1|]; [|discriminate]. injection H as _ <- _.
    destruct (pc (s1 q)); try reflexivity; apply prune_setdata.
  - destruct (apply st s (EvBegin i t m)) as [s1|]; [|discriminate].
    destruct (get_input_data dt ds i (thd t)) as [inp1 ds1] eqn:E. injection H as _ <- _.
    destruct (Nat.eq_dec j i) as [->|Hji]; [exfalso; eapply Hb; reflexivity|].
    rewrite (get_input_data_frame _ _ _ _ _ _ j E Hji). reflexivity.
  - destruct (apply st s (EvData i ot ports)) as [s1|]; [|discriminate]. injection H as _ <- _.
    rewrite prune_setdata. apply put_outputs_setdata.
  - destruct (existsb _ (succ_wait st j')); [|discriminate]. injection H as _ <- _.
    unfold dupd. destruct (Nat.eqb_spec j j') as [->|]; [exfalso; eapply Hs; reflexivity|reflexivity].
Qed.
