(* C03 / C04 (cache): pruning the output cache is unobservable over whole runs.
   dapply_gen pr is the data-plane step with (pr = true: the real scheduler) or without (pr = false) cache pruning.
   Theorem: for every event sequence in which each simulator's output times never decrease, the run with pruning and
   the run without pruning deliver exactly the same inputs to every step (and agree on errors).  Together with
   get_output_for_latest (the unpruned cache returns the most recent value produced so far that is due) this is the
   "most recent due value" clause of C03 for cached persistent inputs. *)
From Coq Require Import ZArith List Bool Arith Lia.
Import ListNotations.
From MV Require Import Time.Spec Time.Ord Static.Build Sched.Timing Sched.Inv Sched.Init Sched.Wle Sched.Main Sched.Guards Sched.Strict Sched.Final Sched.Live Sched.Progress Sched.Quiet Sched.NoLost Sched.Bound Sched.Certify Sched.Determ Sched.Plane Sched.DataP.
Open Scope Z_scope.

Definition dapply_gen (pr:bool) (st:static) (dt:dstatic) (sd : state * dstate) (e:devent) : dres :=
  let (s,ds) := sd in
  match e with
  | DBegin i t m =>
      match apply st s (EvBegin i t m) with
      | Ok s' => let (inp, ds') := get_input_data dt ds i (thd t) in DOk s' ds' (Some inp)
      | Err er => DErr er end
  | DData i ot ports data =>
      let ds1 := put_outputs dt ds i ot data in
      match apply st s (EvData i ot ports) with
      | Ok s' => DOk s' (if pr then prune st dt s' ds1 else ds1) None
      | Err er => DErr er end
  | DEv (EvStep i nxt) =>
      match apply st s (EvStep i nxt) with
      | Ok s' => DOk s' (match pc (s' i) with InData => ds | _ => if pr then prune st dt s' ds else ds end) None
      | Err er => DErr er end
  | DEv e' =>
      match apply st s e' with Ok s' => DOk s' ds None | Err er => DErr er end
  | DSetData i w j a v =>
      if existsb (fun jd : nat*interval => Nat.eqb (fst jd) i) (succ_wait st j) then
        let x := ds j in DOk s (dupd ds j (mkD (outputs x) (buffer x) (bcount x) (persist x) (iset a (w * nsims st + i) (Some v) (setdata x)))) None
      else DAsyncRefused i j
  end.
Lemma dapply_is_gen st dt sd e : dapply st dt sd e = dapply_gen true st dt sd e.
Proof. destruct sd as [s ds]. destruct e as [e'| | |]; try reflexivity; destruct e'; reflexivity. Qed.

(* ---- lists: lookups in increasing caches ---- *)
Definition keys_le (l : list (Z * odata)) (k : Z) : Prop := forall e, In e l -> fst e <= k.

Lemma get_output_for_app_last l k v x : keys_le l k ->
  get_output_for (l ++ [(k, v)]) x = if k <=? x then v else get_output_for l x.
Proof.
  intros _. unfold get_output_for. rewrite rev_app_distr. simpl. destruct (k <=? x); reflexivity.
Qed.

Lemma aset_z_spec k v l : increasing l -> keys_le l k ->
  (exists l0 v0, l = l0 ++ [(k, v0)] /\ aset_z k v l = l0 ++ [(k, v)]) \/ ((forall e, In e l -> fst e < k) /\ aset_z k v l = l ++ [(k, v)]).
Proof.
  induction l as [|[k' v'] l IH]; intros Hinc Hk; simpl.
  - right. split; [intros ? []|reflexivity].
  - destruct Hinc as [Ha Hinc]. assert (Hk' : keys_le l k) by (intros e He; apply Hk; right; exact He).
    destruct (Z.eqb_spec k k') as [->|Hne].
    + (* the key is the head: then the tail must be empty (keys increase and are <= k) *)
      destruct l as [|e l']; [left; exists [], v'; split; reflexivity|].
      exfalso. specialize (Ha e (or_introl eq_refl)). specialize (Hk e (or_intror (or_introl eq_refl))). simpl in *. lia.
    + destruct (IH Hinc Hk') as [(l0 & v0 & E1 & E2)|[Hlt E2]].
      * left. exists ((k', v') :: l0), v0. rewrite E2. rewrite E1. split; reflexivity.
      * right. split; [|rewrite E2; reflexivity]. intros e [<-|He]; [|apply Hlt; exact He].
        simpl. specialize (Hk (k', v') (or_introl eq_refl)). simpl in Hk. lia.
Qed.

Lemma increasing_app l k v : increasing l -> (forall e, In e l -> fst e < k) -> increasing (l ++ [(k, v)]).
Proof.
  induction l as [|a l IH]; intros Hinc Hlt; simpl; [split; [intros ? []|exact I]|].
  destruct Hinc as [Ha Hinc]. split.
  - intros e' Hin. apply in_app_or in Hin as [Hin|[<-|[]]]; [apply Ha; exact Hin|apply Hlt; left; reflexivity].
  - apply IH; [exact Hinc|intros e He; apply Hlt; right; exact He].
Qed.
Lemma increasing_app_inv l e : increasing (l ++ [e]) -> increasing l /\ forall e', In e' l -> fst e' < fst e.
Proof.
  induction l as [|a l IH]; simpl; intros H; [split; [exact I|intros ? []]|].
  destruct H as [Ha Hinc]. destruct (IH Hinc) as [I1 I2]. split.
  - split; [intros e' He'; apply Ha; apply in_or_app; left; exact He'|exact I1].
  - intros e' [<-|He']; [apply Ha; apply in_or_app; right; left; reflexivity|apply I2; exact He'].
Qed.

(* insertion of an output whose time is not below any cached time: lookups change in the same way whatever the cache *)
Lemma lookup_aset_z k v l x : increasing l -> keys_le l k ->
  increasing (aset_z k v l) /\ keys_le (aset_z k v l) k /\
  get_output_for (aset_z k v l) x = if k <=? x then v else get_output_for l x.
Proof.
  intros Hinc Hk. destruct (aset_z_spec k v l Hinc Hk) as [(l0 & v0 & E1 & E2)|[Hlt E2]]; rewrite E2.
  - subst l. destruct (increasing_app_inv _ _ Hinc) as [I0 L0]. simpl in L0.
    split; [apply increasing_app; assumption|]. split.
    + intros e He. apply in_app_or in He as [He|[<-|[]]]; [specialize (L0 e He); lia|simpl; lia].
    + assert (K0 : keys_le l0 k) by (intros e He; specialize (L0 e He); lia).
      rewrite !get_output_for_app_last by exact K0. destruct (k <=? x) eqn:E; [reflexivity|].
      reflexivity.
  - split; [apply increasing_app; assumption|]. split.
    + intros e He. apply in_app_or in He as [He|[<-|[]]]; [specialize (Hlt e He); lia|simpl; lia].
    + apply get_output_for_app_last. exact Hk.
Qed.

Lemma increasing_filter q l : increasing l -> increasing (filter q l).
Proof.
  induction l as [|a l IH]; simpl; intros H; [exact I|]. destruct H as [Ha Hinc].
  destruct (q a); [|apply IH; exact Hinc]. simpl. split; [|apply IH; exact Hinc].
  intros e' He'. apply filter_In in He' as [He' _]. apply Ha; exact He'.
Qed.

(* the unpruned cache returns the most recent value produced so far that is due: the entry with the largest time <= x *)
Theorem get_output_for_latest outs x : increasing outs ->
  match find (fun e : Z*odata => fst e <=? x) (rev outs) with
  | Some e => get_output_for outs x = snd e /\ In e outs /\ fst e <= x /\ (forall e', In e' outs -> fst e' <= x -> fst e' <= fst e)
  | None => get_output_for outs x = [] /\ forall e', In e' outs -> x < fst e'
  end.
Proof.
  intros Hinc. unfold get_output_for. destruct (find _ (rev outs)) as [e|] eqn:E.
  - split; [reflexivity|]. pose proof (find_rev_last_le outs x e Hinc E) as M.
    apply find_some in E as [Hin He]. apply in_rev in Hin. apply Z.leb_le in He. auto.
  - split; [reflexivity|]. intros e' He'. apply in_rev in He'. pose proof (find_none _ _ E e' He') as N. simpl in N. apply Z.leb_gt in N. exact N.
Qed.

(* ---- timing side: the last step time of a simulator never decreases ---- *)
Section T.
Variable st : static.
Hypothesis OK : static_ok st.
Hypothesis OK2 : static_ok2 st.
Hypothesis IB : init_before_until st.

Lemma advance_last (s:state) k s' : advance st s k = Ok s' -> forall j, last (s' j) = last (s j).
Proof.
  unfold advance. destruct (tlt _ _); [discriminate|]. intros H j; injection H as <-.
  rewrite upd_at. destruct (Nat.eqb_spec j k) as [->|]; reflexivity.
Qed.
Lemma advance_all_last l : forall (s s':state),
  fold_left (fun (r:res state) j => match r with Ok s => advance st s j | e => e end) l (Ok s) = Ok s' -> forall j, last (s' j) = last (s j).
Proof.
  induction l as [|k l IH]; intros s s' H j; simpl in H; [injection H as <-; reflexivity|].
  destruct (advance st s k) as [s1|e] eqn:E.
  - rewrite (IH _ _ H j). eapply advance_last; eauto.
  - exfalso. clear -H. induction l; simpl in H; [discriminate|auto].
Qed.
Lemma notify_last ports : forall (s:state) i ott j, last (notify st s i ott ports j) = last (s j).
Proof.
  unfold notify. induction ports as [|p ports IH]; intros s i ott j; simpl; [reflexivity|].
  rewrite IH. generalize (trig st i p). intros l. revert s. induction l as [|[dest d] l IHl]; intros s; simpl; [reflexivity|].
  rewrite IHl. destruct (until st <=? thd (act ott d)); [reflexivity|apply last_schedule].
Qed.
Lemma finish_last (s:state) j ott ports s' i : finish_step st s j ott ports = Ok s' -> last (s' i) = last (s i).
Proof.
  rewrite finish_step_eq. set (s1 := upd s j _).
  destruct (fold_left _ (seq 0 (nsims st)) _) as [s3|e] eqn:E; [|discriminate]. intros H; injection H as <-.
  pose proof (wake_sleepers_same st (loop_eval st s3 j) i) as (_ & _ & _ & W). rewrite W.
  pose proof (loop_eval_same st s3 j i) as (_ & _ & _ & L). rewrite L.
  rewrite (advance_all_last _ _ _ E i), notify_last. unfold s1. rewrite upd_at. destruct (Nat.eqb_spec i j) as [->|]; reflexivity.
Qed.

Lemma last_origin s e s' i : apply st s e = Ok s' ->
  last (s' i) = last (s i) \/ exists nxt t, e = EvStep i nxt /\ cur (s i) = Some t /\ last (s' i) = t.
Proof.
  intros H. destruct e as [j | j t m | j nxt | j ot ports | | j | j]; simpl in H.
  - left. destruct (pc (s j)); try discriminate.
    destruct (advance st s j) as [s1|] eqn:E; [|discriminate]. injection H as <-.
    pose proof (wake_sleepers_same st (loop_eval st s1 j) i) as (_ & _ & _ & W). rewrite W.
    pose proof (loop_eval_same st s1 j i) as (_ & _ & _ & L). rewrite L. eapply advance_last; eauto.
  - left. destruct (begin_enabled st s j); simpl in H; try discriminate.
    destruct (tmin (nexts (s j))) as [t'|]; try discriminate.
    destruct (teq t' t); simpl in H; try discriminate. destruct (teq t' (prog (s j))); simpl in H; try discriminate.
    destruct (loop_exceeded st t'); simpl in H; try discriminate.
    match type of H with (if ?b then _ else _) = _ => destruct b end; try discriminate.
    injection H as <-. rewrite upd_at. destruct (Nat.eqb_spec i j) as [->|]; reflexivity.
  - destruct (pc (s j)) eqn:Epc; try discriminate. destruct (cur (s j)) as [t|] eqn:Ecur; try discriminate.
    set (s1 := upd s j (mkSim InStep (prog (s j)) (nexts (s j)) (Some t) t (newer (s j)))) in H.
    assert (A1 : forall q, last (s1 q) = if Nat.eqb q j then t else last (s q)).
    { intros q. unfold s1. rewrite upd_at. destruct (Nat.eqb_spec q j); reflexivity. }
    assert (Hgo : forall s2, (forall q, last (s2 q) = last (s1 q)) ->
              (if outreq st j
               then Ok (upd s2 j (mkSim InData (prog (s2 j)) (nexts (s2 j)) (cur (s2 j)) (last (s2 j)) (newer (s2 j))))
               else finish_step st s2 j t []) = Ok s' -> last (s' i) = last (s1 i)).
    { intros s2 A2 H2. destruct (outreq st j).
      - injection H2 as <-. rewrite upd_at. destruct (Nat.eqb_spec i j) as [->|]; [simpl|]; apply A2.
      - rewrite (finish_last _ _ _ _ _ i H2). apply A2. }
    assert (X : last (s' i) = last (s1 i)).
    { destruct nxt as [v|].
      - destruct (v <=? thd t); try discriminate.
        destruct (v <? until st); apply Hgo in H; auto. intros q. apply last_schedule.
      - destruct (timebased st j); try discriminate. apply Hgo in H; auto. }
    rewrite X, A1. destruct (Nat.eqb_spec i j) as [->|]; [right; exists nxt, t; auto|left; reflexivity].
  - left. destruct (pc (s j)); try discriminate. destruct (cur (s j)); try discriminate.
    destruct (ot <? thd (last (s j))); try discriminate. eapply finish_last; eauto.
  - left. destruct (existsb _ _); [discriminate|]. injection H as <-. reflexivity.
  - left. destruct (negb (begin_enabled st s j)); simpl in H; try discriminate.
    destruct (tmin (nexts (s j))); try discriminate. destruct (_ && _); try discriminate. injection H as <-. reflexivity.
  - destruct (pc (s j)); try discriminate. destruct (cur (s j)); discriminate.
Qed.

(* while a step is in flight, its time is at least the simulator's last step time *)
Definition CurGe (s:state) : Prop := forall i t, cur (s i) = Some t -> tle (last (s i)) t = true.

Lemma curge_step s e s' : Good st s -> SX st s -> Aux st s -> CurGe s -> apply st s e = Ok s' -> CurGe s'.
Proof.
  intros G X A HC H i t Hc.
  destruct (apply_cur_begin st _ _ _ _ _ H Hc) as [Hc0|(m & ->)].
  - destruct (last_origin _ _ _ i H) as [L|(nxt & t' & _ & Hc' & L)].
    + rewrite L. apply HC; exact Hc0.
    + rewrite L. rewrite Hc0 in Hc'. injection Hc' as <-. apply tle_refl.
  - destruct (last_origin _ _ _ i H) as [L|(nxt & t' & E & _)]; [|discriminate].
    rewrite L. destruct (begin_after_floor st _ _ _ _ _ G X H) as (F & _ & _).
    destruct (begin_facts _ _ _ _ _ _ H) as (t0 & Hpc & _).
    assert (Hn : cur (s i) = None) by (apply (aux_cur _ _ A); rewrite Hpc; reflexivity).
    unfold floor in F. rewrite Hn in F. apply tlt_tle. exact F.
Qed.

Lemma last_mono s e s' : CurGe s -> apply st s e = Ok s' -> forall i, tle (last (s i)) (last (s' i)) = true.
Proof.
  intros HC H i. destruct (last_origin _ _ _ i H) as [L|(nxt & t & _ & Hc & L)]; rewrite L; [apply tle_refl|apply HC; exact Hc].
Qed.
End T.

(* ---- data side ---- *)
Definition Thr (st:static) (dt:dstatic) (s:state) : Z := min_last st s - max_shift st dt.
Definition nonout (d:dsim) := (buffer d, bcount d, persist d, setdata d).

Record Rel (st:static) (dt:dstatic) (s:state) (ds dsu:dstate) : Prop := {
  r_same : forall j, nonout (ds j) = nonout (dsu j);
  r_incu : forall j, increasing (outputs (dsu j));
  r_inc : forall j, increasing (outputs (ds j));
  r_sub : forall j e, In e (outputs (ds j)) -> In e (outputs (dsu j));
  r_look : forall j x, Thr st dt s <= x -> get_output_for (outputs (ds j)) x = get_output_for (outputs (dsu j)) x }.

Lemma rel_weaken st dt s s' ds dsu : Thr st dt s <= Thr st dt s' -> Rel st dt s ds dsu -> Rel st dt s' ds dsu.
Proof. intros H [A B C D E]. split; auto. intros j x Hx. apply E. lia. Qed.

(* get_input_data with the cache lookups abstracted *)
Definition gid_core (dt:dstatic) (look : nat -> Z -> odata) (d:dsim) (i:nat) (step:Z) : idata * dsim :=
  let inp := merge_all_i (setdata d) (persist d) in
  let due := sort_b (filter (fun e => btime e <=? step) (buffer d)) in
  let rest := filter (fun e => negb (btime e <=? step)) (buffer d) in
  let inp := fold_left (fun inp e => iset (battr e) (bsrc e) (Some (bval e)) inp) due inp in
  let inp := fold_left (fun inp (g : (nat*Z) * list (attr*attr)) => let '((src,sh),flows) := g in
               let cache := look src (step - sh) in
               fold_left (fun inp (f:attr*attr) => let (sa,da) := f in iset da src (aget sa cache) inp) flows inp) (pulled dt i) inp in
  let p' := merge_existing_i (persist d) inp in
  (inp, mkD (outputs d) rest (bcount d) p' []).
Lemma gid_core_eq dt ds i step :
  get_input_data dt ds i step =
  (fst (gid_core dt (fun src x => get_output_for (outputs (ds src)) x) (ds i) i step),
   dupd ds i (snd (gid_core dt (fun src x => get_output_for (outputs (ds src)) x) (ds i) i step))).
Proof. reflexivity. Qed.

Lemma gid_core_congr dt look look' d d' i step :
  nonout d = nonout d' ->
  (forall src sh flows, In ((src, sh), flows) (pulled dt i) -> look src (step - sh) = look' src (step - sh)) ->
  fst (gid_core dt look d i step) = fst (gid_core dt look' d' i step) /\
  nonout (snd (gid_core dt look d i step)) = nonout (snd (gid_core dt look' d' i step)) /\
  outputs (snd (gid_core dt look d i step)) = outputs d /\ outputs (snd (gid_core dt look' d' i step)) = outputs d'.
Proof.
  intros Hn Hl. unfold nonout in Hn. injection Hn as Hb Hc Hp Hs.
  unfold gid_core. rewrite Hb, Hc, Hp, Hs.
  set (inp0 := fold_left _ (sort_b _) _).
  assert (G : forall l inp, (forall src sh flows, In ((src, sh), flows) l -> In ((src, sh), flows) (pulled dt i)) ->
     fold_left (fun inp (g : (nat*Z) * list (attr*attr)) => let '((src,sh),flows) := g in
               fold_left (fun inp (f:attr*attr) => let (sa,da) := f in iset da src (aget sa (look src (step - sh))) inp) flows inp) l inp =
     fold_left (fun inp (g : (nat*Z) * list (attr*attr)) => let '((src,sh),flows) := g in
               fold_left (fun inp (f:attr*attr) => let (sa,da) := f in iset da src (aget sa (look' src (step - sh))) inp) flows inp) l inp).
  { induction l as [|[[src sh] flows] l IH]; intros inp Hsub; simpl; [reflexivity|].
    rewrite (Hl src sh flows) by (apply Hsub; left; reflexivity). apply IH. intros; apply Hsub; right; assumption. }
  rewrite (G (pulled dt i) inp0 (fun _ _ _ H => H)). simpl. unfold nonout. simpl. auto.
Qed.

(* ---- put_outputs: the cache entry of the producer, and pushes that only touch buffers ---- *)
Definition push_one (i:nat) (ot:Z) (v:Z) (ds:dstate) (dd:nat*Z*attr) : dstate :=
  let '(dest,sh,da) := dd in
  let x := ds dest in
  dupd ds dest (mkD (outputs x) (mkB (ot+sh) (bcount x) i da v :: buffer x) (S (bcount x)) (persist x) (setdata x)).
Definition push_port (i:nat) (ot:Z) (data:odata) (ds:dstate) (p : attr * list (nat*Z*attr)) : dstate :=
  let (sa,dests) := p in
  match aget sa data with None => ds | Some v => fold_left (push_one i ot v) dests ds end.
Lemma put_outputs_eq dt ds i ot data :
  put_outputs dt ds i ot data =
  fold_left (push_port i ot data) (pushes dt i)
    (if d_cache dt then dupd ds i (mkD (aset_z ot data (outputs (ds i))) (buffer (ds i)) (bcount (ds i)) (persist (ds i)) (setdata (ds i))) else ds).
Proof. reflexivity. Qed.

Lemma push_one_props i ot v ds dsu dd :
  (forall j, nonout (ds j) = nonout (dsu j)) ->
  (forall j, outputs (push_one i ot v ds dd j) = outputs (ds j)) /\
  (forall j, nonout (push_one i ot v ds dd j) = nonout (push_one i ot v dsu dd j)).
Proof.
  intros H. destruct dd as [[dest sh] da]. unfold push_one. split; intros j; unfold dupd; destruct (Nat.eqb_spec j dest) as [->|]; simpl; auto.
  pose proof (H dest) as Hd. unfold nonout in *. injection Hd as -> -> -> ->. reflexivity.
Qed.
Lemma push_fold_props i ot v dests : forall ds dsu,
  (forall j, nonout (ds j) = nonout (dsu j)) ->
  (forall j, outputs (fold_left (push_one i ot v) dests ds j) = outputs (ds j)) /\
  (forall j, nonout (fold_left (push_one i ot v) dests ds j) = nonout (fold_left (push_one i ot v) dests dsu j)).
Proof.
  induction dests as [|dd dests IH]; intros ds dsu H; simpl; [auto|].
  destruct (push_one_props i ot v ds dsu dd H) as [A B].
  destruct (IH _ _ B) as [A' B']. split; [intros j; rewrite A'; apply A|exact B'].
Qed.
Lemma push_port_props i ot data p ds dsu :
  (forall j, nonout (ds j) = nonout (dsu j)) ->
  (forall j, outputs (push_port i ot data ds p j) = outputs (ds j)) /\
  (forall j, nonout (push_port i ot data ds p j) = nonout (push_port i ot data dsu p j)).
Proof.
  intros H. destruct p as [sa dests]. unfold push_port. destruct (aget sa data) as [v|]; [apply push_fold_props; exact H|auto].
Qed.
Lemma push_ports_props i ot data ps : forall ds dsu,
  (forall j, nonout (ds j) = nonout (dsu j)) ->
  (forall j, outputs (fold_left (push_port i ot data) ps ds j) = outputs (ds j)) /\
  (forall j, nonout (fold_left (push_port i ot data) ps ds j) = nonout (fold_left (push_port i ot data) ps dsu j)).
Proof.
  induction ps as [|p ps IH]; intros ds dsu H; simpl; [auto|].
  destruct (push_port_props i ot data p ds dsu H) as [A B].
  destruct (IH _ _ B) as [A' B']. split; [intros j; rewrite A'; apply A|exact B'].
Qed.

Lemma put_outputs_props dt ds dsu i ot data :
  (forall j, nonout (ds j) = nonout (dsu j)) ->
  (forall j, outputs (put_outputs dt ds i ot data j) = if d_cache dt && Nat.eqb j i then aset_z ot data (outputs (ds j)) else outputs (ds j)) /\
  (forall j, nonout (put_outputs dt ds i ot data j) = nonout (put_outputs dt dsu i ot data j)).
Proof.
  intros H. rewrite !put_outputs_eq.
  set (d0 := if d_cache dt then dupd ds i _ else ds). set (du0 := if d_cache dt then dupd dsu i _ else dsu).
  assert (H0 : forall j, nonout (d0 j) = nonout (du0 j)).
  { intros j. unfold d0, du0. destruct (d_cache dt); [|apply H]. unfold dupd. destruct (Nat.eqb_spec j i) as [->|]; [|apply H].
    pose proof (H i) as Hi. unfold nonout in *. simpl. exact Hi. }
  destruct (push_ports_props i ot data (pushes dt i) d0 du0 H0) as [A B]. split; [|exact B].
  intros j. rewrite A. unfold d0. destruct (d_cache dt); simpl; [|reflexivity].
  unfold dupd. destruct (Nat.eqb_spec j i) as [->|]; reflexivity.
Qed.

Lemma aset_z_members k v l : increasing l -> keys_le l k ->
  forall e, In e (aset_z k v l) <-> (e = (k, v) \/ (In e l /\ fst e < k)).
Proof.
  intros Hinc Hk e. destruct (aset_z_spec k v l Hinc Hk) as [(l0 & v0 & E1 & E2)|[Hlt E2]]; rewrite E2.
  - subst l. destruct (increasing_app_inv _ _ Hinc) as [_ L0]. simpl in L0. split.
    + intros H. apply in_app_or in H as [H|[<-|[]]]; [right; split; [apply in_or_app; left; exact H|apply L0; exact H]|left; reflexivity].
    + intros [->|[H Hl]]; [apply in_or_app; right; left; reflexivity|].
      apply in_app_or in H as [H|[<-|[]]]; [apply in_or_app; left; exact H|simpl in Hl; lia].
  - split.
    + intros H. apply in_app_or in H as [H|[<-|[]]]; [right; split; [exact H|apply Hlt; exact H]|left; reflexivity].
    + intros [->|[H _]]; apply in_or_app; [right; left; reflexivity|left; exact H].
Qed.

Lemma rel_put st dt s ds dsu i ot data : Rel st dt s ds dsu -> keys_le (outputs (dsu i)) ot ->
  Rel st dt s (put_outputs dt ds i ot data) (put_outputs dt dsu i ot data).
Proof.
  intros [A B C D E] Hk.
  destruct (put_outputs_props dt ds dsu i ot data A) as [O1 N1].
  destruct (put_outputs_props dt dsu ds i ot data (fun j => eq_sym (A j))) as [O2 _].
  assert (Hk' : keys_le (outputs (ds i)) ot) by (intros e He; apply Hk; apply D; exact He).
  split.
  - exact N1.
  - intros j. rewrite O2. destruct (d_cache dt && Nat.eqb j i) eqn:Eb; [|apply B].
    apply andb_true_iff in Eb as [_ Ej]. apply Nat.eqb_eq in Ej. subst j. apply (lookup_aset_z ot data _ 0 (B i) Hk).
  - intros j. rewrite O1. destruct (d_cache dt && Nat.eqb j i) eqn:Eb; [|apply C].
    apply andb_true_iff in Eb as [_ Ej]. apply Nat.eqb_eq in Ej. subst j. apply (lookup_aset_z ot data _ 0 (C i) Hk').
  - intros j e. rewrite O1, O2. destruct (d_cache dt && Nat.eqb j i) eqn:Eb; [|apply D].
    apply andb_true_iff in Eb as [_ Ej]. apply Nat.eqb_eq in Ej. subst j.
    rewrite (aset_z_members ot data _ (C i) Hk'), (aset_z_members ot data _ (B i) Hk).
    intros [->|[H1 H2]]; [left; reflexivity|right; split; [apply D; exact H1|exact H2]].
  - intros j x Hx. rewrite O1, O2. destruct (d_cache dt && Nat.eqb j i) eqn:Eb; [|apply E; exact Hx].
    apply andb_true_iff in Eb as [_ Ej]. apply Nat.eqb_eq in Ej. subst j.
    destruct (lookup_aset_z ot data _ x (C i) Hk') as (_ & _ & ->). destruct (lookup_aset_z ot data _ x (B i) Hk) as (_ & _ & ->).
    destruct (ot <=? x); [reflexivity|apply E; exact Hx].
Qed.

Definition prune1 (thr:Z) (d:dsim) : dsim :=
  match outputs d with
  | [] => d
  | _ => let older := filter (fun t => t <=? thr) (map fst (outputs d)) in
         let keep_from := match older with [] => thr | x :: r => fold_left Z.max r x end in
         mkD (filter (fun e : Z*odata => keep_from <=? fst e) (outputs d)) (buffer d) (bcount d) (persist d) (setdata d)
  end.
Lemma prune_at st dt s ds j : prune st dt s ds j = if negb (d_cache dt) then ds j else prune1 (Thr st dt s) (ds j).
Proof. unfold prune, prune1, Thr. destruct (negb (d_cache dt)); reflexivity. Qed.
Lemma prune1_props thr d : increasing (outputs d) ->
  nonout (prune1 thr d) = nonout d /\
  exists k, outputs (prune1 thr d) = filter (fun e : Z*odata => k <=? fst e) (outputs d) /\
            forall x, thr <= x -> get_output_for (filter (fun e : Z*odata => k <=? fst e) (outputs d)) x = get_output_for (outputs d) x.
Proof.
  intros Hinc. unfold prune1. destruct (outputs d) as [|e0 r0] eqn:Eo.
  - split; [reflexivity|]. exists 0. rewrite Eo. simpl. auto.
  - split; [reflexivity|]. eexists. split; [reflexivity|].
    intros x Hx. exact (prune_preserves_pull (e0 :: r0) thr x Hinc Hx).
Qed.

Lemma rel_prune st dt s s' ds dsu : Rel st dt s ds dsu -> Thr st dt s <= Thr st dt s' -> Rel st dt s' (prune st dt s' ds) dsu.
Proof.
  intros [A B C D E] Hthr.
  assert (P : forall j, nonout (prune st dt s' ds j) = nonout (ds j) /\
            exists k, outputs (prune st dt s' ds j) = filter (fun e : Z*odata => k <=? fst e) (outputs (ds j)) /\
              (forall x, Thr st dt s' <= x -> get_output_for (outputs (prune st dt s' ds j)) x = get_output_for (outputs (ds j)) x)).
  { intros j. rewrite prune_at. destruct (negb (d_cache dt)).
    - split; [reflexivity|]. destruct (prune1_props (Thr st dt s') (ds j) (C j)) as (_ & k & _ & L).
      (* no cache: nothing is pruned; any bound below every key will do - reuse the list itself *)
      exists (match outputs (ds j) with [] => 0 | e :: _ => fst e end). split; [|auto].
      pose proof (C j) as Hc. destruct (outputs (ds j)) as [|e r]; [reflexivity|]. simpl. rewrite Z.leb_refl. f_equal.
      destruct Hc as [Ha _]. clear -Ha. induction r as [|y r IH]; simpl; [reflexivity|].
      assert (fst e <=? fst y = true) by (apply Z.leb_le; specialize (Ha y (or_introl eq_refl)); lia). rewrite H. f_equal.
      apply IH. intros e' He'. apply Ha. right; exact He'.
    - destruct (prune1_props (Thr st dt s') (ds j) (C j)) as (N & k & O & L). split; [exact N|]. exists k. split; [exact O|].
      intros x Hx. rewrite O. apply L; exact Hx. }
  split.
  - intros j. rewrite (proj1 (P j)). apply A.
  - exact B.
  - intros j. destruct (P j) as (_ & k & -> & _). apply increasing_filter. apply C.
  - intros j e. destruct (P j) as (_ & k & -> & _). intros H. apply filter_In in H as [H _]. apply D; exact H.
  - intros j x Hx. destruct (P j) as (_ & k & _ & L). rewrite (L x Hx). apply E. lia.
Qed.

(* ---- thresholds ---- *)
Definition minl (l : list Z) : Z := match l with [] => 0 | x :: r => fold_left Z.min r x end.
Lemma fold_min_le_all r : forall a, fold_left Z.min r a <= a /\ forall x, In x r -> fold_left Z.min r a <= x.
Proof.
  induction r as [|y r IH]; intros a; simpl; [split; [lia|intros ? []]|].
  destruct (IH (Z.min a y)) as [A B]. split; [lia|]. intros x [<-|H]; [lia|auto].
Qed.
Lemma minl_le l x : In x l -> minl l <= x.
Proof. destruct l as [|y r]; [intros []|]. simpl. destruct (fold_min_le_all r y) as [A B]. intros [<-|H]; auto. Qed.
Lemma fold_min_mono r r' : Forall2 Z.le r r' -> forall a a', a <= a' -> fold_left Z.min r a <= fold_left Z.min r' a'.
Proof. induction 1 as [|x y r r' Hxy _ IH]; intros a a' Ha; simpl; [exact Ha|]. apply IH. lia. Qed.
Lemma minl_mono l l' : Forall2 Z.le l l' -> minl l <= minl l'.
Proof. intros H. destruct H as [|x y r r' Hxy Hr]; simpl; [lia|]. apply fold_min_mono; assumption. Qed.
Lemma min_last_eq st s : min_last st s = minl (map (fun i => thd (last (s i))) (seq 0 (nsims st))).
Proof. reflexivity. Qed.
Lemma min_last_le st s i : (i < nsims st)%nat -> min_last st s <= thd (last (s i)).
Proof. intros Hi. rewrite min_last_eq. apply minl_le. apply in_map_iff. exists i. split; [reflexivity|apply in_seq; lia]. Qed.
Lemma min_last_mono st s s' : (forall i, (i < nsims st)%nat -> thd (last (s i)) <= thd (last (s' i))) -> min_last st s <= min_last st s'.
Proof.
  intros H. rewrite !min_last_eq. apply minl_mono.
  assert (G : forall l, (forall i, In i l -> (i < nsims st)%nat) ->
     Forall2 Z.le (map (fun i => thd (last (s i))) l) (map (fun i => thd (last (s' i))) l)).
  { induction l as [|i l IH]; intros Hl; simpl; constructor; [apply H; apply Hl; left; reflexivity|apply IH; intros; apply Hl; right; assumption]. }
  apply G. intros i Hi. apply in_seq in Hi. lia.
Qed.
Lemma max_shift_ge st dt i src sh flows : (i < nsims st)%nat -> In ((src, sh), flows) (pulled dt i) -> 0 <= max_shift st dt /\ sh <= max_shift st dt.
Proof.
  intros Hi Hin. unfold max_shift.
  destruct (fold_max_ge (flat_map (fun i0 => map (fun g : (nat*Z) * list (attr*attr) => snd (fst g)) (pulled dt i0)) (seq 0 (nsims st))) 0) as [A B].
  split; [exact A|]. apply B. apply in_flat_map. exists i. split; [apply in_seq; lia|].
  apply in_map_iff. exists ((src, sh), flows). split; [reflexivity|exact Hin].
Qed.

(* ---- the run-level statement ---- *)
Section R.
Variable st : static.
Variable dt : dstatic.
Hypothesis OK : static_ok st.
Hypothesis OK2 : static_ok2 st.
Hypothesis IB : init_before_until st.

(* everything the lockstep argument needs about the timing state *)
Record TInv (s:state) : Prop := { ti_good : Good st s; ti_sx : SX st s; ti_aux : Aux st s; ti_cur : CurGe s; ti_ne : forall i, last (s i) <> [] }.

Lemma tinv_step s e s' : TInv s -> apply st s e = Ok s' -> TInv s'.
Proof.
  intros [G X A C N] H. split.
  - eapply good_step; eauto.
  - eapply (apply_sx st OK (ok2_trig_in st OK2)); eauto.
  - eapply apply_aux; eauto.
  - eapply curge_step; eauto.
  - intros i. destruct (last_origin st _ _ _ i H) as [L|(nxt & t & _ & Hc & L)]; rewrite L; [apply N|].
    destruct G as ([[HS _] _] & _ & _). pose proof (ok_depth st OK i) as Hd.
    intros ->. assert (length (@nil Z) = depth st i) by (apply (HS i); unfold cands; rewrite Hc; left; reflexivity). simpl in H0. lia.
Qed.
Lemma tinv_init : TInv (init_state st).
Proof.
  destruct (init_full st OK (ok2_init_kx st OK2) (ok2_init_nodup st OK2)) as [G X].
  split; [exact G|exact X|exact (proj1 (proj2 (live_init st OK IB)))| |].
  - intros i t H. simpl in H. discriminate.
  - intros i. simpl. discriminate.
Qed.

Lemma thr_mono s e s' : TInv s -> apply st s e = Ok s' -> Thr st dt s <= Thr st dt s'.
Proof.
  intros T H. pose proof (tinv_step _ _ _ T H) as T'. unfold Thr.
  assert (min_last st s <= min_last st s'); [|lia].
  apply min_last_mono. intros i _. apply tle_thd; [apply (last_mono st _ _ _ (ti_cur _ T) H)|apply (ti_ne _ T)|apply (ti_ne _ T')].
Qed.

(* the monotone-output premise of one event, stated on the unpruned cache *)
Definition mono_ok (dsu:dstate) (e:devent) : Prop :=
  match e with
  | DData i ot _ _ => (i < nsims st)%nat /\ keys_le (outputs (dsu i)) ot
  | DBegin i _ _ => (i < nsims st)%nat
  | _ => True end.

Local Arguments apply : simpl never.
Local Arguments get_input_data : simpl never.
Local Arguments put_outputs : simpl never.
Local Arguments prune : simpl never.
Theorem lockstep s ds dsu e : TInv s -> Rel st dt s ds dsu -> mono_ok dsu e ->
  match dapply_gen true st dt (s, ds) e, dapply_gen false st dt (s, dsu) e with
  | DOk s1 ds1 inp1, DOk s2 ds2 inp2 => s1 = s2 /\ inp1 = inp2 /\ TInv s1 /\ Rel st dt s1 ds1 ds2
  | DErr e1, DErr e2 => e1 = e2
  | DAsyncRefused a b, DAsyncRefused a' b' => a = a' /\ b = b'
  | _, _ => False end.
Proof.
  intros T R M. destruct e as [e' | i t m | i ot ports data | i w j a v]; unfold dapply_gen; cbv beta iota.
  - (* timing-only events *)
    assert (Hgen : forall (f : state -> dstate -> dstate), (forall s', apply st s e' = Ok s' -> Rel st dt s' (f s' ds) dsu) ->
       match (match apply st s e' with Ok s' => DOk s' (f s' ds) None | Err er => DErr er end),
             (match apply st s e' with Ok s' => DOk s' dsu None | Err er => DErr er end) with
       | DOk s1 ds1 inp1, DOk s2 ds2 inp2 => s1 = s2 /\ inp1 = inp2 /\ TInv s1 /\ Rel st dt s1 ds1 ds2
       | DErr e1, DErr e2 => e1 = e2 | DAsyncRefused a b, DAsyncRefused a' b' => a = a' /\ b = b' | _, _ => False end).
    { intros f Hf. destruct (apply st s e') as [s'|er] eqn:E; [|reflexivity].
      split; [reflexivity|]. split; [reflexivity|]. split; [eapply tinv_step; eauto|apply Hf; reflexivity]. }
    destruct e' as [j | j t m | j nxt | j ot ports | | j | j];
      try (apply (Hgen (fun _ d => d)); intros s' E; eapply rel_weaken; [eapply thr_mono; eauto|exact R]).
    (* EvStep: prunes unless the simulator goes on to get_data *)
    destruct (apply st s (EvStep j nxt)) as [s'|er] eqn:E; [|reflexivity].
    split; [reflexivity|]. split; [reflexivity|]. split; [eapply tinv_step; eauto|].
    pose proof (thr_mono _ _ _ T E) as Hm.
    destruct (pc (s' j)); try (apply rel_prune with (s := s); assumption). eapply rel_weaken; eauto.
  - (* BEGIN: the lookups are at or after the threshold *)
    destruct (apply st s (EvBegin i t m)) as [s'|er] eqn:E; [|reflexivity].
    rewrite !gid_core_eq.
    pose proof (thr_mono _ _ _ T E) as Hm.
    destruct (begin_after_floor st _ _ _ _ _ (ti_good _ T) (ti_sx _ T) E) as (F & _ & _).
    destruct (begin_facts _ _ _ _ _ _ E) as (t0 & Hpc & _ & Htm & _).
    assert (Hn : cur (s i) = None) by (apply (aux_cur _ _ (ti_aux _ T)); rewrite Hpc; reflexivity).
    unfold floor in F. rewrite Hn in F.
    assert (Hlt : thd (last (s i)) <= thd t).
    { apply tle_thd; [apply tlt_tle; exact F|apply (ti_ne _ T)|].
      destruct (ti_good _ T) as ([[HS _] _] & _ & _). pose proof (ok_depth st OK i) as Hd.
      apply tmin_spec in Htm as [Hin _]. intros ->.
      assert (length (@nil Z) = depth st i) by (apply (HS i); unfold cands; apply in_or_app; right; exact Hin). simpl in H. lia. }
    assert (Hlook : forall src sh flows, In ((src, sh), flows) (pulled dt i) ->
       get_output_for (outputs (ds src)) (thd t - sh) = get_output_for (outputs (dsu src)) (thd t - sh)).
    { intros src sh flows Hin. apply (r_look _ _ _ _ _ R). unfold Thr.
      destruct (max_shift_ge st dt i src sh flows M Hin) as [H0 H1]. pose proof (min_last_le st s i M). lia. }
    destruct (gid_core_congr dt (fun src x => get_output_for (outputs (ds src)) x) (fun src x => get_output_for (outputs (dsu src)) x)
                (ds i) (dsu i) i (thd t) (r_same _ _ _ _ _ R i) Hlook) as (I1 & I2 & I3 & I4).
    cbv beta iota. split; [reflexivity|]. split; [f_equal; exact I1|]. split; [eapply tinv_step; eauto|].
    destruct R as [A B C D0 E0]. split.
    + intros j. unfold dupd. destruct (Nat.eqb_spec j i) as [->|]; [exact I2|apply A].
    + intros j. unfold dupd. destruct (Nat.eqb_spec j i) as [->|]; [rewrite I4|]; apply B.
    + intros j. unfold dupd. destruct (Nat.eqb_spec j i) as [->|]; [rewrite I3|]; apply C.
    + intros j e. unfold dupd. destruct (Nat.eqb_spec j i) as [->|]; [rewrite I3, I4|]; apply D0.
    + intros j x Hx. unfold dupd. destruct (Nat.eqb_spec j i) as [->|]; [rewrite I3, I4|]; apply E0; lia.
  - (* DATA *)
    destruct M as [Hi Hk].
    destruct (apply st s (EvData i ot ports)) as [s'|er] eqn:E; [|reflexivity].
    split; [reflexivity|]. split; [reflexivity|]. split; [eapply tinv_step; eauto|].
    apply rel_prune with (s := s); [apply rel_put; assumption|eapply thr_mono; eauto].
  - (* set_data *)
    destruct (existsb _ (succ_wait st j)); [|auto].
    split; [reflexivity|]. split; [reflexivity|]. split; [exact T|].
    destruct R as [A B C D0 E0]. split.
    + intros q. unfold dupd. destruct (Nat.eqb_spec q j) as [->|]; [|apply A].
      pose proof (A j) as Hj. unfold nonout in *. simpl. injection Hj as -> -> -> ->. reflexivity.
    + intros q. unfold dupd. destruct (Nat.eqb_spec q j) as [->|]; simpl; apply B.
    + intros q. unfold dupd. destruct (Nat.eqb_spec q j) as [->|]; simpl; apply C.
    + intros q e. unfold dupd. destruct (Nat.eqb_spec q j) as [->|]; simpl; apply D0.
    + intros q x Hx. unfold dupd. destruct (Nat.eqb_spec q j) as [->|]; simpl; apply E0; exact Hx.
Qed.
End R.

(* ---- whole runs ---- *)
(* the inputs delivered to the steps of a run, until its end or first failure *)
Fixpoint dinputs (pr:bool) (st:static) (dt:dstatic) (s:state) (ds:dstate) (evs:list devent) : list (option idata) :=
  match evs with
  | [] => []
  | e :: r => match dapply_gen pr st dt (s, ds) e with
              | DOk s' ds' inp => inp :: dinputs pr st dt s' ds' r
              | _ => [] end
  end.
(* in the run without pruning, no output time of a simulator is below an earlier one (and events address simulators of the scenario) *)
Fixpoint mono_run (st:static) (dt:dstatic) (s:state) (dsu:dstate) (evs:list devent) : Prop :=
  match evs with
  | [] => True
  | e :: r => mono_ok st dsu e /\ match dapply_gen false st dt (s, dsu) e with DOk s' dsu' _ => mono_run st dt s' dsu' r | _ => True end
  end.

Theorem prune_unobservable_from st dt : static_ok st -> static_ok2 st -> init_before_until st ->
  forall evs s ds dsu, TInv st s -> Rel st dt s ds dsu -> mono_run st dt s dsu evs ->
  dinputs true st dt s ds evs = dinputs false st dt s dsu evs.
Proof.
  intros OK OK2 IB. induction evs as [|e r IH]; intros s ds dsu T R M; cbn [dinputs]; [reflexivity|].
  cbn [mono_run] in M. destruct M as [M0 M1].
  pose proof (lockstep st dt OK OK2 s ds dsu e T R M0) as L.
  destruct (dapply_gen true st dt (s, ds) e) as [s1 ds1 i1| |]; destruct (dapply_gen false st dt (s, dsu) e) as [s2 ds2 i2| |]; try contradiction; try reflexivity.
  destruct L as (<- & <- & T1 & R1). f_equal. apply IH; assumption.
Qed.

(* from the initial state of a scenario whose initial cache entries are ordered by time *)
Theorem prune_unobservable st dt : static_ok st -> static_ok2 st -> init_before_until st ->
  (forall j, increasing (init_outputs dt j)) ->
  forall evs, mono_run st dt (init_state st) (init_dstate dt) evs ->
  dinputs true st dt (init_state st) (init_dstate dt) evs = dinputs false st dt (init_state st) (init_dstate dt) evs.
Proof.
  intros OK OK2 IB Hinit evs M. apply prune_unobservable_from; auto.
  - apply tinv_init; assumption.
  - split; auto; intros j; simpl; apply Hinit.
Qed.
