(* Run-level statements: for every scenario with static_ok tables, every event sequence accepted from the initial
   state (any behaviour, any interleaving), and the state s reached by it. *)
From Coq Require Import ZArith List Bool Arith Lia.
Import ListNotations.
From MV Require Import Time.Spec Time.Ord Sched.Timing Sched.Inv Sched.Init Sched.Wle Sched.Main Sched.Guards.
Open Scope Z_scope.

Definition reached (st : static) (s : state) : Prop :=
  exists evs l, run st (init_state st) evs = Ok l /\ s = List.last l (init_state st).
Lemma reached_good st : static_ok st -> forall s, reached st s -> Good st s.
Proof. intros OK s (evs & l & H & ->). eapply good_last; eauto. Qed.

Section F.
Variable st : static.
Hypothesis OK : static_ok st.

Theorem C10_lazy_bound s i t m s' : reached st s -> lazy st = true -> apply st s (EvBegin i t m) = Ok s' ->
  forall j d c, In (j,d) (succ_lazy st i) -> In c (cands (s j)) -> tle (act t d) c = true.
Proof. intros R HL. apply lazy_bound; [exact HL|apply reached_good; assumption]. Qed.

Theorem C16_async_bound s i t m s' : reached st s -> apply st s (EvBegin i t m) = Ok s' ->
  forall j d c, In (j,d) (succ_wait st i) -> In c (cands (s j)) -> tle (act t d) c = true.
Proof. intros R. apply async_bound. apply reached_good; assumption. Qed.

Theorem C05_no_backwards s e i : reached st s -> apply st s e <> Err (EBackwards i).
Proof. intros (evs & l & H & ->). eapply no_backwards_from_init; eauto. Qed.

Theorem C05_no_past s i t m : reached st s -> apply st s (EvBegin i t m) <> Err (EPast i).
Proof. intros R. apply no_past_error. apply reached_good; assumption. Qed.

Theorem C01_input_guard s i t m s' : reached st s -> apply st s (EvBegin i t m) = Ok s' ->
  forall k d, In (k,d) (indel st i) -> tlt t (act (prog (s k)) d) = true.
Proof. intros R. apply input_guard. apply reached_good; assumption. Qed.

(* C02, partial: the step begun is the simulator's progress and its earliest queued step, lies in [0, until),
   and every queued or in-flight step of every simulator is at or after that simulator's progress *)
Theorem C02_begin_is_progress s i t m s' : reached st s -> apply st s (EvBegin i t m) = Ok s' ->
  t = prog (s i) /\ tmin (nexts (s i)) = Some t /\ (forall c, In c (cands (s i)) -> tle t c = true).
Proof.
  intros R H. destruct (begin_facts _ _ _ _ _ _ H) as (_ & _ & _ & T & E & _).
  split; [exact E|]. split; [exact T|].
  destruct (reached_good st OK s R) as ([[_ HL] _] & _ & _). destruct (HL i) as (_ & Hc & _).
  intros c Hc'. rewrite E. apply Hc. exact Hc'.
Qed.
Theorem C02_no_step_in_the_past s j c : reached st s -> In c (cands (s j)) -> tle (prog (s j)) c = true.
Proof.
  intros R Hc. destruct (reached_good st OK s R) as ([[_ HL] _] & _ & _). destruct (HL j) as (_ & H & _). apply H. exact Hc.
Qed.
End F.
