(* Vocabulary of the generated get_input_data (Gen/InputData.v, written by harness/py2coq_data.py): the timed input buffer's
   get_input as the data plane models it - TimedInputBuffer.get_input, compared literally with the source by the translator:
   the entries due at `step` leave the heap in (time, counter) order and are written into their slots, the rest stays. *)
From Coq Require Import ZArith List Bool Arith.
Import ListNotations.
From MV Require Import Static.Build Sched.Plane.
Open Scope Z_scope.

Definition timed_get_input (queue : list bufentry) (input_dict : idata) (step : Z) : idata * list bufentry :=
  let due := sort_b (filter (fun e => btime e <=? step) queue) in
  (fold_left (fun inp e => iset (battr e) (bsrc e) (Some (bval e)) inp) due input_dict,
   filter (fun e => negb (btime e <=? step)) queue).

(* sim.outputs[output_time] = data ; TimedInputBuffer.add (compared literally): a new entry with the buffer's next counter *)
Definition set_output (ds : dstate) (i : nat) (ot : Z) (data : odata) : dstate :=
  let d := ds i in dupd ds i (mkD (aset_z ot data (outputs d)) (buffer d) (bcount d) (persist d) (setdata d)).
Definition buffer_add (ds : dstate) (dest : nat) (t : Z) (src : nat) (da : attr) (v : Z) : dstate :=
  let x := ds dest in dupd ds dest (mkD (outputs x) (mkB t (bcount x) src da v :: buffer x) (S (bcount x)) (persist x) (setdata x)).
Definition with_outputs (d : dsim) (o : list (Z * odata)) : dsim := mkD o (buffer d) (bcount d) (persist d) (setdata d).
(* max(<generator>, default=...) / min(...) of a list of integers *)
Definition zmax_d (l : list Z) (default : Z) : Z := match l with [] => default | x :: r => fold_left Z.max r x end.
Definition zmin_d (l : list Z) (default : Z) : Z := match l with [] => default | x :: r => fold_left Z.min r x end.
