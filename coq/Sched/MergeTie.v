(* Tie for mosaik/internal_util.py: the generic dict-merging helpers regenerated from the source (Gen/InternalUtil.v),
   composed as scheduler.get_input_data composes them (the lambdas at the two levels below the entity level; the model has
   one entity per simulator), are the data plane's merge_all_i / merge_existing_i (Sched/Plane.v).  Dicts have unique keys:
   merge_existing (assignment to the key of the current item) coincides with the model's map only then. *)
From Coq Require Import ZArith List Bool Arith Lia.
Import ListNotations.
From MV Require Import Static.Build Static.CycleP Sched.Plane.
From MV Require Gen.InternalUtil.

Lemma fold_left_ext {A B} (f g : A -> B -> A) : (forall a b, f a b = g a b) -> forall l a, fold_left f l a = fold_left g l a.
Proof. intros H l. induction l as [|b l IH]; intros a; simpl; [reflexivity|]. rewrite H. apply IH. Qed.

Lemma aset_same_value {V} k (x:V) : forall l, aget k l = Some x -> aset k x l = l.
Proof.
  induction l as [|[k' v] l IH]; simpl; [discriminate|]. destruct (Nat.eqb_spec k k') as [->|Hn]; intros H.
  - injection H as ->. reflexivity.
  - rewrite IH by exact H. reflexivity.
Qed.

(* merge_all, two levels, "target wins" at the leaves *)
Theorem tie_merge_all t o :
  merge_all_i t o = Gen.InternalUtil.merge_all (fun tm m => Gen.InternalUtil.merge_all (fun v_new _ => v_new) tm m) t o.
Proof.
  unfold merge_all_i, Gen.InternalUtil.merge_all. apply fold_left_ext. intros t0 [a m].
  destruct (aget a t0) as [tm|] eqn:E; [|reflexivity]. f_equal.
  apply fold_left_ext. intros tm0 [s v]. destruct (aget s tm0) as [x|] eqn:Es; [|reflexivity].
  symmetry. apply aset_same_value. exact Es.
Qed.

(* merge_existing: assignment to the current key = mapping the item, for duplicate-free keys *)
Lemma aset_app_notin {V} k (x v : V) : forall l0 r, ~ In k (map fst l0) -> aset k x (l0 ++ (k, v) :: r) = l0 ++ (k, x) :: r.
Proof.
  induction l0 as [|[k' v'] l0 IH]; intros r Hn; simpl; [rewrite Nat.eqb_refl; reflexivity|].
  destruct (Nat.eqb_spec k k') as [->|Hk]; [exfalso; apply Hn; left; reflexivity|].
  rewrite IH by (intros H; apply Hn; right; exact H). reflexivity.
Qed.
Lemma fold_aset_is_map {V} (upd : nat -> V -> option V) : forall r l0, NoDup (map fst (l0 ++ r)) ->
  fold_left (fun t (kv : nat * V) => let (k, v) := kv in match upd k v with Some x => aset k x t | None => t end) r (l0 ++ r) =
  l0 ++ map (fun kv : nat * V => let (k, v) := kv in match upd k v with Some x => (k, x) | None => (k, v) end) r.
Proof.
  induction r as [|[k v] r IH]; intros l0 Hnd; simpl; [reflexivity|].
  assert (Hk : ~ In k (map fst l0)).
  { rewrite map_app in Hnd. simpl in Hnd. apply NoDup_remove_2 in Hnd. intros H. apply Hnd. apply in_or_app. left. exact H. }
  destruct (upd k v) as [x|] eqn:E.
  - rewrite aset_app_notin by exact Hk.
    change (l0 ++ (k, x) :: r) with (l0 ++ [(k, x)] ++ r). rewrite app_assoc. rewrite IH.
    + rewrite <- app_assoc. reflexivity.
    + rewrite <- app_assoc. simpl. rewrite map_app in *. simpl in *. exact Hnd.
  - change (l0 ++ (k, v) :: r) with (l0 ++ [(k, v)] ++ r). rewrite app_assoc. rewrite IH.
    + rewrite <- app_assoc. reflexivity.
    + rewrite <- app_assoc. simpl. exact Hnd.
Qed.
Lemma merge_existing_is_map {V} (merger : V -> V -> V) (target other : list (nat * V)) : NoDup (map fst target) ->
  Gen.InternalUtil.merge_existing merger target other =
  map (fun kv : nat * V => let (k, v) := kv in match aget k other with Some o => (k, merger v o) | None => (k, v) end) target.
Proof.
  intros Hnd. unfold Gen.InternalUtil.merge_existing.
  pose proof (fold_aset_is_map (fun k v => match aget k other with Some o => Some (merger v o) | None => None end) target [] Hnd) as H.
  simpl in H. etransitivity; [|etransitivity; [exact H|]].
  - apply fold_left_ext. intros t0 [k v]. destruct (aget k other); reflexivity.
  - apply map_ext. intros [k v]. destruct (aget k other); reflexivity.
Qed.

Theorem tie_merge_existing p i : NoDup (map fst p) -> (forall a m, In (a, m) p -> NoDup (map fst m)) ->
  merge_existing_i p i =
  Gen.InternalUtil.merge_existing (fun m im => Gen.InternalUtil.merge_existing (fun _ v_new => v_new) m im) p i.
Proof.
  intros Hp Hm. rewrite merge_existing_is_map by exact Hp. unfold merge_existing_i.
  apply map_ext_in. intros [a m] Hin. destruct (aget a i) as [im|]; [|reflexivity].
  rewrite merge_existing_is_map by (eapply Hm; exact Hin). reflexivity.
Qed.
