(* Towards deadlock-freedom (C05, progress) : auxiliary control-state invariant [Aux] - what a sleeping simulator waits
   for is its current queue minimum (or until) unless its newer_step flag is set; nothing is in flight in a quiet
   state; every queued time is before until (what the repair of F5 establishes). *)
From Coq Require Import ZArith List Bool Arith Lia.
Import ListNotations.
From MV Require Import Time.Spec Time.Ord Sched.Timing Sched.Inv.
Open Scope Z_scope.

Section Live.
Variable st : static.

Definition quiet_pc (p:phase) : bool := match p with Sleep _ | WaitDeps _ | Done | NotStarted => true | _ => false end.

(* Aux: facts about the control state that the liveness argument needs *)
Record Aux (s:state) : Prop := mkAux {
  aux_sleep : forall i aw, pc (s i) = Sleep aw -> newer (s i) = false ->
                aw = match tmin (nexts (s i)) with Some m => sleep_until st i m | None => until_t st i end;
  aux_cur   : forall i, quiet_pc (pc (s i)) = true -> cur (s i) = None;
  aux_bound : forall i c, (i < nsims st)%nat -> In c (nexts (s i)) -> thd c < until st
}.

Lemma sleep_until_id i m : thd m < until st -> sleep_until st i m = m.
Proof.
  intros H. unfold sleep_until, until_t, world_time. destruct m as [|x m]; simpl in *; [reflexivity|].
  destruct (until st <? x) eqn:E1; [apply Z.ltb_lt in E1; lia|]. destruct (x <? until st) eqn:E2; [reflexivity|apply Z.ltb_ge in E2; lia].
Qed.

(* tmin facts *)
Lemma tmin_cons_ge l m t : tmin l = Some m -> tle m t = true -> tmin (t :: l) = Some m.
Proof.
  intros H Hle. simpl. rewrite H. unfold tle in Hle. apply negb_true_iff in Hle.
  destruct (tlt m t) eqn:E; auto.
  (* m not < t and t not < m: equal *)
  destruct (tlt_trichotomy m t) as [A|[A|A]]; try congruence.
Qed.

(* schedule: effect on nexts / newer / pc / cur *)
Lemma pc_schedule (s:state) i t j : pc (schedule s i t j) = pc (s j).
Proof. unfold schedule. destruct (memT t (nexts (s i))); auto. unfold upd. destruct (Nat.eqb j i) eqn:E; auto. apply Nat.eqb_eq in E; subst; reflexivity. Qed.

Lemma memT_in t l : memT t l = true -> In t l.
Proof. induction l as [|y l IH]; simpl; [discriminate|]. intros H. apply orb_true_iff in H as [H|H]; [left; symmetry; apply teq_eq; exact H|right; auto]. Qed.

Lemma nexts_schedule (s:state) i t j c : In c (nexts (schedule s i t j)) -> In c (nexts (s j)) \/ (j = i /\ c = t).
Proof.
  unfold schedule. destruct (memT t (nexts (s i))); auto.
  unfold upd. destruct (Nat.eqb_spec j i); auto. subst. simpl. intuition.
Qed.

Lemma aux_schedule (s:state) i t : Aux s -> thd t < until st -> Aux (schedule s i t).
Proof.
  intros [A B C] Ht. split.
  - intros j aw Hpc Hnew. rewrite pc_schedule in Hpc.
    unfold schedule in Hnew |- *. destruct (memT t (nexts (s i))) eqn:Em; [apply A; auto|].
    unfold upd in Hnew |- *. destruct (Nat.eqb_spec j i); [subst j|apply A; auto].
    cbn [newer nexts] in Hnew |- *.
    destruct (tmin (nexts (s i))) as [m|] eqn:E; [|discriminate].
    destruct (tlt t m) eqn:Elt; [discriminate|].
    assert (Hle : tle m t = true) by (unfold tle; rewrite Elt; reflexivity).
    rewrite (tmin_cons_ge _ _ _ E Hle). rewrite (A i aw Hpc Hnew), E. reflexivity.
  - intros j Hq. rewrite pc_schedule in Hq. rewrite cur_schedule. apply B; exact Hq.
  - intros j c Hj Hc. destruct (nexts_schedule _ _ _ _ _ Hc) as [H|[-> ->]]; eauto.
Qed.

Lemma aux_ext (s s':state) : (forall j, pc (s' j) = pc (s j) /\ nexts (s' j) = nexts (s j) /\ cur (s' j) = cur (s j) /\ newer (s' j) = newer (s j)) -> Aux s -> Aux s'.
Proof.
  intros H [A B C]. split.
  - intros i aw Hpc Hn. destruct (H i) as (a&b&c&d). rewrite b. apply A; congruence.
  - intros i Hq. destruct (H i) as (a&b&c&d). rewrite c. apply B. congruence.
  - intros i c Hi Hc. destruct (H i) as (a&b&_&_). rewrite b in Hc. eauto.
Qed.

Lemma aux_advance (s:state) i s' : advance st s i = Ok s' -> Aux s -> Aux s'.
Proof.
  unfold advance. destruct (tlt _ _); [discriminate|]. intros H; injection H as <-.
  apply aux_ext. intros j. unfold upd. destruct (Nat.eqb_spec j i); [subst j|]; auto.
Qed.
Lemma aux_advance_all l (s s':state) :
  fold_left (fun (r:res state) j => match r with Ok s => advance st s j | e => e end) l (Ok s) = Ok s' -> Aux s -> Aux s'.
Proof.
  revert s; induction l as [|i l IH]; intros s; simpl.
  - intros H; injection H as <-. auto.
  - destruct (advance st s i) as [s1|e] eqn:E.
    + intros H HA. eapply IH; eauto. eapply aux_advance; eauto.
    + intros H. exfalso. clear -H. induction l; simpl in H; [discriminate|auto].
Qed.

Lemma aux_loop_eval (s:state) i : cur (s i) = None -> Aux s -> Aux (loop_eval st s i).
Proof.
  intros Hc [A B C].
  assert (Hn : forall j, nexts (loop_eval st s i j) = nexts (s j)) by (intros j; apply (loop_eval_same st s i j)).
  assert (Hcu : forall j, cur (loop_eval st s i j) = cur (s j)) by (intros j; apply (loop_eval_same st s i j)).
  split.
  - intros j aw Hpc Hnew. rewrite Hn. destruct (Nat.eq_dec j i) as [->|Hj].
    + revert Hpc Hnew. unfold loop_eval.
      destruct (until st <=? thd (prog (s i))); [rewrite upd_same; simpl; discriminate|].
      destruct (tmin (nexts (s i))) as [m|] eqn:E; [destruct (teq m (prog (s i)))|]; rewrite upd_same; simpl; try discriminate;
        intros H _; injection H as <-; reflexivity.
    + destruct (loop_eval_pc st s i j Hj) as (a&_&_). rewrite a in Hpc.
      assert (newer (loop_eval st s i j) = newer (s j)).
      { unfold loop_eval. destruct (until st <=? thd (prog (s i))); [|destruct (tmin (nexts (s i))) as [m|]; [destruct (teq m (prog (s i)))|]]; rewrite upd_other; auto. }
      apply A; congruence.
  - intros j Hq. rewrite Hcu. destruct (Nat.eq_dec j i) as [->|Hj]; [exact Hc|].
    apply B. destruct (loop_eval_pc st s i j Hj) as (a&_&_). congruence.
  - intros j c Hj Hin. rewrite Hn in Hin. eauto.
Qed.

Lemma aux_wake (s:state) : Aux s -> Aux (wake_sleepers st s).
Proof.
  unfold wake_sleepers. generalize (seq 0 (nsims st)). intros l. revert s. induction l as [|i l IH]; intros s HA; simpl; auto.
  apply IH. destruct (pc (s i)) eqn:Epc; auto.
  destruct (tle await (prog (s i)) || newer (s i)); auto.
  apply aux_loop_eval; auto. apply (aux_cur _ HA). rewrite Epc. reflexivity.
Qed.

Lemma aux_notify ports (s:state) i ott : Aux s -> Aux (notify st s i ott ports).
Proof.
  unfold notify. revert s. induction ports as [|p ports IH]; intros s HA; simpl; auto.
  apply IH. generalize (trig st i p). intros l. revert s HA. induction l as [|[dest d] l IHl]; intros s HA; simpl; auto.
  apply IHl. destruct (until st <=? thd (act ott d)) eqn:E; auto.
  apply aux_schedule; auto. apply Z.leb_gt in E. exact E.
Qed.

Lemma aux_finish (s:state) i ott ports s' : finish_step st s i ott ports = Ok s' -> Aux s -> Aux s'.
Proof.
  rewrite finish_step_eq. set (s1 := upd s i _).
  destruct (fold_left _ (seq 0 (nsims st)) _) as [s3|e] eqn:E; [|discriminate].
  intros H HA; injection H as <-.
  assert (HA1 : Aux s1).
  { destruct HA as [A B C]. split.
    - intros j aw. unfold s1, upd. destruct (Nat.eqb_spec j i); [subst j; simpl|]; apply A.
    - intros j. unfold s1, upd. destruct (Nat.eqb_spec j i); [subst j; simpl; auto|apply B].
    - intros j c Hj. unfold s1, upd. destruct (Nat.eqb_spec j i); [subst j; simpl|]; apply C; exact Hj. }
  assert (HA3 : Aux s3) by (eapply aux_advance_all; [exact E|apply aux_notify; exact HA1]).
  apply aux_wake. apply aux_loop_eval; auto.
  (* cur (s3 i) = None *)
  assert (C1 : cur (s1 i) = None) by (unfold s1; rewrite upd_same; reflexivity).
  assert (Hn : forall ports (s:state) j, cur (notify st s i ott ports j) = cur (s j)).
  { clear. unfold notify. induction ports as [|p ports IH]; intros s j; simpl; auto. rewrite IH.
    generalize (trig st i p). intros l. revert s. induction l as [|[dest d] l IHl]; intros s; simpl; auto.
    rewrite IHl. destruct ((until st <=? thd (act ott d))); auto. apply cur_schedule. }
  assert (Ha : forall l (s s':state), fold_left (fun (r:res state) j => match r with Ok s => advance st s j | e => e end) l (Ok s) = Ok s' -> forall j, cur (s' j) = cur (s j)).
  { clear. induction l as [|k l IH]; intros s s' H j; simpl in H.
    - injection H as <-; auto.
    - destruct (advance st s k) as [s1|e] eqn:E.
      + rewrite (IH _ _ H j). unfold advance in E. destruct (tlt _ _); [discriminate|]. injection E as <-.
        unfold upd. destruct (Nat.eqb_spec j k); subst; auto.
      + exfalso. clear -H. induction l; simpl in H; [discriminate|auto]. }
  rewrite (Ha _ _ _ E i), Hn. exact C1.
Qed.

Theorem apply_aux s e s' : Aux s -> apply st s e = Ok s' -> Aux s'.
Proof.
  intros HA. destruct e as [i | i t m | i nxt | i ot ports | | i | i]; simpl.
  - destruct (pc (s i)) eqn:Epc; try discriminate.
    destruct (advance st s i) as [s1|] eqn:E; [|discriminate]. intros H; injection H as <-.
    apply aux_wake. pose proof (aux_advance _ _ _ E HA) as HA1. apply aux_loop_eval; auto.
    assert (cur (s1 i) = cur (s i)).
    { unfold advance in E. destruct (tlt _ _); [discriminate|]. injection E as <-. rewrite upd_same. reflexivity. }
    rewrite H. apply (aux_cur _ HA). rewrite Epc. reflexivity.
  - destruct (begin_enabled st s i); simpl; try discriminate.
    destruct (tmin (nexts (s i))) as [t'|] eqn:E; try discriminate.
    destruct (teq t' t); simpl; try discriminate. destruct (teq t' (prog (s i))); simpl; try discriminate.
    destruct (loop_exceeded st t'); simpl; try discriminate.
    match goal with |- (if ?c then _ else _) = _ -> _ => destruct c end; try discriminate.
    intros H; injection H as <-. destruct HA as [A B C]. split.
    + intros j aw. unfold upd. destruct (Nat.eqb_spec j i); [subst j; simpl; discriminate|apply A].
    + intros j. unfold upd. destruct (Nat.eqb_spec j i); [subst j; simpl; discriminate|apply B].
    + intros j c Hj. unfold upd. destruct (Nat.eqb_spec j i); [subst j; simpl; intros Hin; apply (C i _ Hj); eapply in_removeT; eauto|apply C; exact Hj].
  - destruct (pc (s i)) eqn:Epc; try discriminate.
    destruct (cur (s i)) as [t|] eqn:Ecur; try discriminate.
    set (s1 := upd s i _).
    assert (HA1 : Aux s1).
    { destruct HA as [A B C]. split.
      - intros j aw. unfold s1, upd. destruct (Nat.eqb_spec j i); [subst j; simpl; discriminate|apply A].
      - intros j. unfold s1, upd. destruct (Nat.eqb_spec j i); [subst j; simpl; discriminate|apply B].
      - intros j c Hj. unfold s1, upd. destruct (Nat.eqb_spec j i); [subst j; simpl|]; apply C; exact Hj. }
    assert (Hgo : forall s2, Aux s2 -> pc (s2 i) = InStep ->
              (if outreq st i
               then Ok (upd s2 i (mkSim InData (prog (s2 i)) (nexts (s2 i)) (cur (s2 i)) (last (s2 i)) (newer (s2 i))))
               else finish_step st s2 i t []) = Ok s' -> Aux s').
    { intros s2 [A B C] Hpc2. destruct (outreq st i).
      - intros H; injection H as <-. split.
        + intros j aw. unfold upd. destruct (Nat.eqb_spec j i); [subst j; simpl; discriminate|apply A].
        + intros j. unfold upd. destruct (Nat.eqb_spec j i); [subst j; simpl; discriminate|apply B].
        + intros j c Hj. unfold upd. destruct (Nat.eqb_spec j i); [subst j; simpl|]; apply C; exact Hj.
      - intros H. eapply aux_finish; eauto. split; auto. }
    assert (Hpc1 : pc (s1 i) = InStep) by (unfold s1; rewrite upd_same; reflexivity).
    destruct nxt as [v|].
    + destruct (v <=? thd t); try discriminate.
      destruct (v <? until st) eqn:Ev.
      * apply Hgo; [|rewrite pc_schedule; exact Hpc1]. apply aux_schedule; auto.
        unfold world_time. simpl. apply Z.ltb_lt in Ev. exact Ev.
      * apply Hgo; auto.
    + destruct (timebased st i); try discriminate. apply Hgo; auto.
  - destruct (pc (s i)); try discriminate. destruct (cur (s i)); try discriminate.
    destruct (ot <? thd (last (s i))); try discriminate.
    intros H. eapply aux_finish; eauto.
  - destruct (existsb _ _); [discriminate|]. intros H; injection H as <-. exact HA.
  - destruct (begin_enabled st s i); simpl; try discriminate.
    destruct (tmin (nexts (s i))); try discriminate. destruct (_ && _); try discriminate.
    intros H; injection H as <-. exact HA.
  - destruct (pc (s i)); try discriminate. destruct (cur (s i)); discriminate.
Qed.
End Live.
