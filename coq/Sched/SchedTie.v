(* Tie of the scheduler's two progress formulas to the source: the functions regenerated from mosaik/scheduler.py on every
   run (Gen/SchedulerFns.v: get_max_advance, advance_progress) equal the model's max_advance and new_progress on the view
   of the model state (each triggering ancestor with its queue and current step).  A change of either formula in the
   source changes the generated definition and breaks these theorems (or the translator rejects the source). *)
From Coq Require Import ZArith List Bool Arith Lia.
Import ListNotations.
From MV Require Import Time.Spec Time.Ord Sched.Timing Sched.GenView Gen.SchedulerFns.
Open Scope Z_scope.

Definition view (st:static) (s:state) (i:nat) : list (simview * interval) :=
  map (fun ad : nat * interval => (mkSV (nexts (s (fst ad))) (cur (s (fst ad))), snd ad)) (anc st i).

(* minima only depend on the members *)
Lemma zmin_spec l : forall a, let r := fold_left Z.min l a in (r = a \/ In r l) /\ r <= a /\ forall x, In x l -> r <= x.
Proof.
  induction l as [|y l IH]; intros a; simpl; [split; [auto|split; [lia|intros x []]]|].
  destruct (IH (Z.min a y)) as (M & La & Lx). split; [|split].
  - destruct M as [M|M]; [|right; right; exact M]. rewrite M. destruct (Z.min_spec a y) as [[_ ->]|[_ ->]]; auto.
  - lia.
  - intros x [<-|Hx]; [lia|apply Lx; exact Hx].
Qed.
Lemma zmin_members l1 l2 a : (forall x, In x l1 <-> In x l2) -> fold_left Z.min l1 a = fold_left Z.min l2 a.
Proof.
  intros H. destruct (zmin_spec l1 a) as (M1 & A1 & X1), (zmin_spec l2 a) as (M2 & A2 & X2).
  assert (fold_left Z.min l1 a <= fold_left Z.min l2 a) by (destruct M2 as [->|M2]; [exact A1|apply X1, H, M2]).
  assert (fold_left Z.min l2 a <= fold_left Z.min l1 a) by (destruct M1 as [->|M1]; [exact A2|apply X2, H, M1]).
  lia.
Qed.
Lemma tmin_members l1 l2 : (forall x, In x l1 <-> In x l2) -> tmin l1 = tmin l2.
Proof.
  intros H. destruct (tmin l1) as [m1|] eqn:E1, (tmin l2) as [m2|] eqn:E2; auto.
  - destruct (tmin_spec _ _ E1) as [I1 L1], (tmin_spec _ _ E2) as [I2 L2]. f_equal.
    apply tle_antisym; [apply L1, H, I2|apply L2, H, I1].
  - apply tmin_none in E2. subst l2. destruct (tmin_spec _ _ E1) as [I1 _]. apply H in I1. destruct I1.
  - apply tmin_none in E1. subst l1. destruct (tmin_spec _ _ E2) as [I2 _]. apply H in I2. destruct I2.
Qed.

Lemma in_opt_list {A} (o : option A) x : In x (opt_list o) <-> o = Some x.
Proof. destruct o; simpl; split; intros H; try discriminate; try tauto; [destruct H as [<-|[]]; reflexivity|injection H as <-; auto]. Qed.

Theorem tie_get_max_advance st s i :
  get_max_advance (view st s i) (nexts (s i)) (cur (s i)) (until st) = max_advance st s i.
Proof.
  unfold get_max_advance, max_advance, zmin_ne, heap0. f_equal. apply zmin_members. intros x.
  rewrite !in_app_iff, !in_map_iff. unfold view, anc_cands. split.
  - intros [H|H].
    + apply in_flat_map in H as ([v d] & Hv & Hx). apply in_map_iff in Hv as ([a d'] & E & Ha). simpl in E. injection E as <- <-. simpl in Hx. rename d' into d.
      left. apply in_app_or in Hx.
      assert (exists c, x = thd (act c d) /\ (tmin (nexts (s a)) = Some c \/ cur (s a) = Some c)) as (c & -> & Hc).
      { destruct Hx as [Hx|Hx]; [destruct (cur (s a)) as [c|]; [destruct Hx as [<-|[]]; eauto|destruct Hx]|destruct (tmin (nexts (s a))) as [c|]; [destruct Hx as [<-|[]]; eauto|destruct Hx]]. }
      exists (act c d). split; [reflexivity|]. apply in_flat_map. exists (a, d). split; [exact Ha|].
      apply in_map_iff. exists c. split; [reflexivity|]. apply in_or_app. rewrite !in_opt_list. exact Hc.
    + right. destruct (tmin (nexts (s i))) as [c|]; [destruct H as [<-|[]]; exists c; simpl; auto|destruct H].
  - intros [(t & <- & H)|(t & <- & H)].
    + apply in_flat_map in H as ([a d] & Ha & Hx). apply in_map_iff in Hx as (c & <- & Hc). apply in_app_or in Hc. rewrite !in_opt_list in Hc.
      left. apply in_flat_map. exists (mkSV (nexts (s a)) (cur (s a)), d). split; [apply in_map_iff; exists (a, d); auto|].
      simpl. apply in_or_app. destruct Hc as [Hc|Hc]; rewrite Hc; [right|left]; left; reflexivity.
    + right. apply in_opt_list in H. rewrite H. left. reflexivity.
Qed.

Lemma act_until st i : (1 <= depth st i)%nat -> act [until st] (mkI 1 1 (repeat 0 (depth st i))) = until_t st i.
Proof.
  intros H. unfold act, until_t, world_time. simpl. destruct (depth st i) as [|n]; [lia|]. simpl.
  rewrite Z.add_0_r, Nat.sub_0_r. reflexivity.
Qed.

(* outside real-time mode (rt = None); the real-time cap is modelled in Ext/RT.v *)
Theorem tie_advance_progress st s i : (1 <= depth st i)%nat ->
  advance_progress (view st s i) (nexts (s i)) (cur (s i)) None (until st) (mkI 1 1 (repeat 0 (depth st i))) = new_progress st s i.
Proof.
  intros Hd. unfold advance_progress, new_progress, tmin_ne, heap0. rewrite (act_until st i Hd), app_nil_r.
  match goal with |- match tmin ?l1 with _ => _ end = match tmin ?l2 with _ => _ end => assert (E : tmin l1 = tmin l2); [|rewrite E; reflexivity] end.
  apply tmin_members. intros x. rewrite !in_app_iff. unfold view, anc_cands.
  assert (A : (In x (flat_map (fun ad : simview * interval => let (pre_sim, distance) := ad in
                        match tmin (sv_next_steps pre_sim) with Some h => [act h distance] | None => [] end)
                      (map (fun ad : nat * interval => (mkSV (nexts (s (fst ad))) (cur (s (fst ad))), snd ad)) (anc st i))) \/
               In x (flat_map (fun ad : simview * interval => let (pre_sim, distance) := ad in
                        match sv_current_step pre_sim with Some c => [act c distance] | None => [] end)
                      (map (fun ad : nat * interval => (mkSV (nexts (s (fst ad))) (cur (s (fst ad))), snd ad)) (anc st i)))) <->
              In x (flat_map (fun ad : nat * interval => let (a, d) := ad in map (fun c => act c d) (opt_list (tmin (nexts (s a))) ++ opt_list (cur (s a)))) (anc st i))).
  { rewrite !in_flat_map. split.
    - intros [([v d] & Hv & Hx)|([v d] & Hv & Hx)]; apply in_map_iff in Hv as ([a d'] & E & Ha); simpl in E; injection E as <- <-; simpl in Hx; rename d' into d;
        exists (a, d); (split; [exact Ha|]); apply in_map_iff.
      + destruct (tmin (nexts (s a))) as [c|] eqn:Ec; [destruct Hx as [<-|[]]|destruct Hx]. exists c. split; [reflexivity|]. apply in_or_app. left. left. reflexivity.
      + destruct (cur (s a)) as [c|] eqn:Ec; [destruct Hx as [<-|[]]|destruct Hx]. exists c. split; [reflexivity|]. apply in_or_app. right. left. reflexivity.
    - intros ([a d] & Ha & Hx). apply in_map_iff in Hx as (c & <- & Hc). apply in_app_or in Hc. rewrite !in_opt_list in Hc.
      destruct Hc as [Hc|Hc]; [left|right]; exists (mkSV (nexts (s a)) (cur (s a)), d); (split; [apply in_map_iff; exists (a, d); auto|]); simpl; rewrite Hc; left; reflexivity. }
  assert (B : forall o : option time, In x (match o with Some h => [h] | None => [] end) <-> In x (opt_list o)) by (intros [h|]; reflexivity).
  rewrite (B (tmin (nexts (s i)))), (B (cur (s i))). tauto.
Qed.

(* ---- wait_for_dependencies / Progress: the guard of a BEGIN ---- *)
Lemma zadd_zeros p : zadd p (repeat 0 (length p)) = p.
Proof. induction p as [|x p IH]; simpl; [reflexivity|]. rewrite Z.add_0_r, IH. reflexivity. Qed.
Lemma firstn_repeat {A} (x:A) n : firstn n (repeat x n) = repeat x n.
Proof. induction n; simpl; [reflexivity|rewrite IHn; reflexivity]. Qed.
Lemma skipn_repeat {A} (x:A) n : skipn n (repeat x n) = [].
Proof. induction n; simpl; [reflexivity|exact IHn]. Qed.
Lemma act_zero p : act p (zero_interval (length p)) = p.
Proof. unfold act, zero_interval. simpl. rewrite firstn_repeat, skipn_repeat, zadd_zeros, app_nil_r. reflexivity. Qed.
Lemma tgt_tlt a b : tgt a b = tlt b a.
Proof.
  unfold tgt. destruct (tlt_trichotomy a b) as [H|[->|H]].
  - rewrite H. simpl. symmetry. apply tlt_asym. exact H.
  - rewrite tlt_irrefl. simpl. destruct (teq b b) eqn:E; [reflexivity|]. exfalso. assert (teq b b = true) by (apply teq_eq; reflexivity). congruence.
  - rewrite H, (tlt_asym _ _ H). simpl. destruct (teq a b) eqn:E; [|reflexivity]. apply teq_eq in E. subst. rewrite tlt_irrefl in H. discriminate.
Qed.

Lemma has_passed_ready p t d : progress_has_passed_ready p t (Some d) = tlt t (act p d).
Proof. unfold progress_has_passed_ready, progress_add_trigger_ready, progress_triggered_time. simpl. rewrite tgt_tlt. destruct (tlt t (act p d)); reflexivity. Qed.
Lemma has_reached_ready p t : progress_has_reached_ready p t None = tle t p.
Proof. unfold progress_has_reached_ready, progress_add_trigger_ready, progress_triggered_time. rewrite act_zero. simpl. unfold tge, tle. destruct (tlt p t); reflexivity. Qed.

Lemma forallb_id_map {A} (f : A -> bool) l : forallb (fun b : bool => b) (map f l) = forallb f l.
Proof. induction l as [|x l IH]; simpl; [reflexivity|rewrite IH; reflexivity]. Qed.

Lemma forallb_map' {A B} (f : B -> bool) (g : A -> B) l : forallb f (map g l) = forallb (fun x => f (g x)) l.
Proof. induction l as [|x l IH]; simpl; [reflexivity|rewrite IH; reflexivity]. Qed.

Lemma forallb_ext' {A} (f g : A -> bool) l : (forall x, f x = g x) -> forallb f l = forallb g l.
Proof. intros H. induction l as [|x l IH]; simpl; [reflexivity|rewrite H, IH; reflexivity]. Qed.

Definition pview (s:state) (l : list (nat * interval)) : list (time * interval) := map (fun kd : nat * interval => (prog (s (fst kd)), snd kd)) l.

(* the three groups of awaited conditions of wait_for_dependencies (regenerated from the source, with Progress._triggered_time)
   are all fulfilled exactly when the model's guard deps_ok holds *)
Theorem tie_wait_for_dependencies st s i t :
  wait_for_dependencies_ready (pview s (indel st i)) (pview s (succ_wait st i)) (pview s (succ_lazy st i)) (lazy st) t = deps_ok st s i t.
Proof.
  unfold wait_for_dependencies_ready, deps_ok, pview. rewrite !forallb_app, !forallb_id_map, !forallb_map'.
  assert (A : forall l, forallb (fun x : nat * interval => let (pre_sim, delay) := (prog (s (fst x)), snd x) in progress_has_passed_ready pre_sim t (Some delay)) l =
                        forallb (fun kd : nat * interval => let (k, d) := kd in tlt t (act (prog (s k)) d)) l).
  { intros l. apply forallb_ext'. intros [k d]. simpl. apply has_passed_ready. }
  assert (B : forall l, forallb (fun x : nat * interval => let (suc_sim, adapt) := (prog (s (fst x)), snd x) in progress_has_reached_ready suc_sim (act t adapt) None) l =
                        forallb (fun jd : nat * interval => let (j, d) := jd in tle (act t d) (prog (s j))) l).
  { intros l. apply forallb_ext'. intros [k d]. simpl. apply has_reached_ready. }
  rewrite A, B. destruct (lazy st); [rewrite forallb_id_map, forallb_map', B|simpl]; rewrite ?andb_true_r, ?andb_assoc; reflexivity.
Qed.

(* ---- real-time mode: the wall clock caps the progress ---- *)
Lemma tmin_unique l m : In m l -> (forall x, In x l -> tle m x = true) -> tmin l = Some m.
Proof.
  intros Hin Hle. destruct (tmin l) as [m'|] eqn:E.
  - destruct (tmin_spec _ _ E) as [I L]. f_equal. apply tle_antisym; [apply L; exact Hin|apply Hle; exact I].
  - apply tmin_none in E. subst l. destruct Hin.
Qed.

(* with rt = Some k (k = ceil(seconds passed / rt_factor)) the regenerated advance_progress is the smaller of the model's
   new_progress and the clock's tick k: in real-time mode no simulator's progress runs ahead of the wall clock *)
Theorem tie_advance_progress_rt st s i k : (1 <= depth st i)%nat ->
  advance_progress (view st s i) (nexts (s i)) (cur (s i)) (Some k) (until st) (mkI 1 1 (repeat 0 (depth st i))) =
  (let w := world_time st i k in if tlt w (new_progress st s i) then w else new_progress st s i).
Proof.
  intros Hd. pose proof (tie_advance_progress st s i Hd) as E0. cbv zeta.
  set (w := world_time st i k). set (np := new_progress st s i) in *.
  assert (Ew : act [k] (mkI 1 1 (repeat 0 (depth st i))) = w).
  { unfold w, act, world_time. simpl. destruct (depth st i) as [|n]; [lia|]. simpl. rewrite Z.add_0_r, Nat.sub_0_r. reflexivity. }
  unfold advance_progress, tmin_ne in *. rewrite Ew. rewrite app_nil_r in E0.
  match type of E0 with match tmin (?L ++ [?u]) with _ => _ end = _ => set (L0 := L) in *; set (u0 := u) in * end.
  match goal with |- match tmin (?L1 ++ [?u]) with _ => _ end = _ => set (L1' := L1) end.
  assert (HL1 : forall x, In x (L1' ++ [u0]) <-> x = w \/ In x (L0 ++ [u0])).
  { intros x. unfold L1', L0. rewrite !in_app_iff. simpl. intuition (subst; auto). }
  destruct (tmin (L0 ++ [u0])) as [m|] eqn:Em; [|apply tmin_none in Em; destruct L0; discriminate].
  unfold np in *. rewrite <- E0. destruct (tmin_spec _ _ Em) as [Im Lm].
  assert (R : tmin (L1' ++ [u0]) = Some (if tlt w m then w else m)).
  { apply tmin_unique.
    - apply HL1. destruct (tlt w m); [left; reflexivity|right; exact Im].
    - intros x Hx. apply HL1 in Hx. destruct (tlt w m) eqn:Ewm.
      + destruct Hx as [->|Hx]; [apply tle_refl|]. apply tlt_tle. apply (tlt_tle_trans _ m); [exact Ewm|apply Lm; exact Hx].
      + destruct Hx as [->|Hx]; [unfold tle; rewrite Ewm; reflexivity|apply Lm; exact Hx]. }
  rewrite R. reflexivity.
Qed.

(* ---- SimRunner.schedule_step: queueing a step ---- *)
(* (checked against the source statement by statement: no duplicate entry, the heap gets the new time, the newer_step flag is
   raised iff the new time is earlier than everything queued) *)
Theorem tie_schedule_step s i t :
  schedule s i t =
  let x := s i in let r := schedule_step (nexts x) (newer x) t in
  if memT t (nexts x) then s else upd s i (mkSim (pc x) (prog x) (fst r) (cur x) (last x) (snd r)).
Proof.
  unfold schedule, schedule_step, heap0. cbv zeta. destruct (memT t (nexts (s i))); [reflexivity|].
  destruct (tmin (nexts (s i))) as [m|]; simpl; [destruct (tlt t m)|]; reflexivity.
Qed.

(* ---- scheduler.step: the validation of the reply; scheduler.get_outputs: the output time ---- *)
Definition reply_of (nxt : option Z) : reply := match nxt with Some v => RInt v | None => RNone end.

Theorem tie_step_reply st s i nxt t : pc (s i) = InStep -> cur (s i) = Some t ->
  apply st s (EvStep i nxt) =
  (let x := s i in
   let s1 := upd s i (mkSim InStep (prog x) (nexts x) (cur x) t (newer x)) in
   match step_reply (reply_of nxt) (thd t) (until st) (timebased st i) with
   | StepOk sched =>
       let s2 := match sched with Some v => schedule s1 i (world_time st i v) | None => s1 end in
       if outreq st i then let y := s2 i in Ok (upd s2 i (mkSim InData (prog y) (nexts y) (cur y) (last y) (newer y)))
       else finish_step st s2 i t []
   | _ => Err (EReply i)
   end).
Proof.
  intros Hp Hc. unfold apply. rewrite Hp, Hc. cbv zeta. destruct nxt as [v|]; simpl.
  - destruct (v <=? thd t); [reflexivity|]. destruct (v <? until st); reflexivity.
  - destruct (timebased st i); reflexivity.
Qed.
Theorem tie_step_reply_bad st s i t : pc (s i) = InStep -> cur (s i) = Some t ->
  apply st s (EvStepBad i) = Err (EReply i) /\ step_reply ROther (thd t) (until st) (timebased st i) = StepErrType.
Proof. intros Hp Hc. unfold apply. rewrite Hp, Hc. split; reflexivity. Qed.

Theorem tie_output_time st s i ot ports c : pc (s i) = InData -> cur (s i) = Some c -> length c = depth st i ->
  apply st s (EvData i ot ports) =
  match output_time_rule ot c (thd (last (s i))) with
  | None => Err (EOutTime i)
  | Some ott => finish_step st s i ott ports
  end.
Proof.
  intros Hp Hc Hl. unfold apply, output_time_rule. rewrite Hp, Hc. cbv zeta. rewrite Z.gtb_ltb.
  destruct (ot <? thd (last (s i))); [reflexivity|]. unfold world_time. rewrite Hl. reflexivity.
Qed.

(* ---- sim_process: the two tests made when a step is popped ---- *)
Theorem tie_loop_guard st t : loop_guard (maxloop st) t = loop_exceeded st t.
Proof. unfold loop_guard, loop_exceeded. induction (tl t) as [|x l IH]; simpl; [reflexivity|]. rewrite IH, Z.geb_leb. reflexivity. Qed.

Theorem tie_begin_checks st s i t m : begin_enabled st s i = true -> tmin (nexts (s i)) = Some t ->
  apply st s (EvBegin i t m) =
  (let x := s i in
   if past_check t (prog x) then Err (EPast i) else
   if loop_guard (maxloop st) t then Err (ELoopExpected i) else
   let s' := upd s i (mkSim InStep (prog x) (removeT t (nexts x)) (Some t) (last x) (newer x)) in
   if max_advance st s' i =? m then Ok s' else Err (EMaxAdv i)).
Proof.
  intros He Ht. unfold apply. rewrite He, Ht. cbv zeta. simpl negb at 1.
  assert (Er : teq t t = true) by (apply teq_eq; reflexivity). rewrite Er. simpl negb at 1. cbv iota.
  unfold past_check. rewrite tie_loop_guard. reflexivity.
Qed.

(* ---- the property read off the generated validation itself: which replies scheduler.step accepts ---- *)
Theorem generated_reply_accepted_iff r c u tb sched :
  step_reply r c u tb = StepOk sched <->
  (exists v, r = RInt v /\ c < v /\ sched = (if v <? u then Some v else None)) \/ (r = RNone /\ tb = false /\ sched = None).
Proof.
  unfold step_reply. split.
  - destruct r as [|v|].
    + destruct tb; [discriminate|]. intros H. injection H as <-. right. repeat split.
    + destruct (v <=? c) eqn:E; [discriminate|]. intros H. injection H as <-. left. exists v. repeat split. apply Z.leb_gt. exact E.
    + discriminate.
  - intros [(v & -> & Hc & ->)|(-> & -> & ->)]; [|reflexivity].
    assert (E : (v <=? c) = false) by (apply Z.leb_gt; exact Hc). rewrite E. reflexivity.
Qed.

Theorem generated_output_time_accepted_iff ot c lst ott :
  output_time_rule ot c lst = Some ott <->
  lst <= ot /\ ott = (if ot =? thd c then c else ot :: repeat 0 (length c - 1)).
Proof.
  unfold output_time_rule. cbv zeta. rewrite Z.gtb_ltb. split.
  - destruct (ot <? lst) eqn:E; [discriminate|]. intros H. injection H as <-. split; [apply Z.ltb_ge; exact E|reflexivity].
  - intros [Hl ->]. assert (E : (ot <? lst) = false) by (apply Z.ltb_ge; exact Hl). rewrite E. reflexivity.
Qed.

(* the loop guard read off the generated test itself: it fires iff some sub-step counter has reached max_loop_iterations *)
Theorem generated_loop_guard_iff m t : loop_guard m t = true <-> exists x, In x (tl t) /\ m <= x.
Proof.
  unfold loop_guard. rewrite existsb_exists. split; intros (x & Hx & H); exists x; (split; [exact Hx|]).
  - apply Z.geb_le. exact H.
  - apply Z.geb_le. exact H.
Qed.
