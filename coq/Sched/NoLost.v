(* C02, "every demanded time is executed": a queued step leaves a simulator's queue only by being begun, and a simulator
   that is done has an empty queue.  So in a run that completes, every step that was ever queued (demanded and not a
   duplicate of a pending demand) has been executed. *)
From Coq Require Import ZArith List Bool Arith Lia.
Import ListNotations.
From MV Require Import Time.Spec Time.Ord Sched.Timing Sched.Inv Sched.Init Sched.Wle Sched.Main Sched.Guards Sched.Final Sched.Live Sched.Progress Sched.Quiet.
Open Scope Z_scope.

Lemma last_cons_default {A} (l : list A) a d : List.last (a :: l) d = List.last l a.
Proof. revert a. induction l as [|y l IH]; intros a; [reflexivity|]. simpl in *. destruct l; [reflexivity|apply IH]. Qed.

Section N.
Variable st : static.

Definition Grow (s s':state) : Prop := forall j c, In c (nexts (s j)) -> In c (nexts (s' j)).
Lemma Grow_refl s : Grow s s. Proof. intros j c H; exact H. Qed.
Lemma Grow_trans a b c : Grow a b -> Grow b c -> Grow a c.
Proof. intros A B j x H. apply B, A, H. Qed.
Lemma Grow_same s s' : same_data s s' -> Grow s s'.
Proof. intros H j c Hc. destruct (H j) as (_ & -> & _). exact Hc. Qed.
Lemma Grow_schedule (s:state) i t : Grow s (schedule s i t).
Proof.
  intros j c Hc. unfold schedule. destruct (memT t (nexts (s i))); [exact Hc|].
  rewrite upd_at. destruct (Nat.eqb_spec j i) as [->|]; [simpl; right; exact Hc|exact Hc].
Qed.
Lemma Grow_notify ports : forall (s:state) i ott, Grow s (notify st s i ott ports).
Proof.
  unfold notify. induction ports as [|p ports IH]; intros s i ott; simpl; [apply Grow_refl|].
  eapply Grow_trans; [|apply IH].
  generalize (trig st i p). intros l. revert s. induction l as [|[dest d] l IHl]; intros s; simpl; [apply Grow_refl|].
  eapply Grow_trans; [|apply IHl].
  destruct (until st <=? thd (act ott d)); [apply Grow_refl|apply Grow_schedule].
Qed.
Lemma Grow_fields (s s':state) : (forall j, nexts (s' j) = nexts (s j)) -> Grow s s'.
Proof. intros H j c Hc. rewrite H. exact Hc. Qed.

Lemma Grow_finish (s:state) i ott ports s' : finish_step st s i ott ports = Ok s' -> Grow s s'.
Proof.
  rewrite finish_step_eq. set (s1 := upd s i _).
  destruct (fold_left _ (seq 0 (nsims st)) _) as [s3|e] eqn:E; [|discriminate]. intros H; injection H as <-.
  assert (G1 : Grow s s1).
  { apply Grow_fields. intros j. unfold s1. rewrite upd_at. destruct (Nat.eqb_spec j i) as [->|]; reflexivity. }
  eapply Grow_trans; [exact G1|]. eapply Grow_trans; [apply Grow_notify|].
  destruct (advance_all_fields st _ _ _ E) as (F & _ & _).
  eapply Grow_trans; [apply Grow_fields; intros j; destruct (F j) as (_ & N & _); exact N|].
  eapply Grow_trans; [apply Grow_same, loop_eval_same|apply Grow_same, wake_sleepers_same].
Qed.

Lemma in_removeT_or x c l : In c l -> In c (removeT x l) \/ c = x.
Proof.
  induction l as [|y l IH]; simpl; [tauto|]. intros [<-|H].
  - destruct (teq x y) eqn:E; [right; symmetry; apply teq_eq; exact E|left; left; reflexivity].
  - destruct (teq x y); [left; exact H|]. destruct (IH H) as [A|A]; [left; right; exact A|right; exact A].
Qed.

(* one event: a queued step stays queued unless this event begins it *)
Theorem apply_queue s e s' i c : apply st s e = Ok s' -> In c (nexts (s i)) ->
  In c (nexts (s' i)) \/ exists m, e = EvBegin i c m.
Proof.
  intros H Hc. destruct e as [j | j t m | j nxt | j ot ports | | j | j]; simpl in H.
  - destruct (pc (s j)); try discriminate.
    destruct (advance st s j) as [s1|] eqn:E; [|discriminate]. injection H as <-. left.
    destruct (advance_fields _ _ _ _ E) as (F & _ & _).
    pose proof (wake_sleepers_same st (loop_eval st s1 j) i) as (_ & -> & _).
    pose proof (loop_eval_same st s1 j i) as (_ & -> & _). destruct (F i) as (_ & -> & _). exact Hc.
  - destruct (begin_enabled st s j); simpl in H; try discriminate.
    destruct (tmin (nexts (s j))) as [t'|] eqn:Et; try discriminate.
    destruct (teq t' t) eqn:E1; simpl in H; try discriminate. apply teq_eq in E1. subst t'.
    destruct (teq t (prog (s j))); simpl in H; try discriminate.
    destruct (loop_exceeded st t); simpl in H; try discriminate.
    match type of H with (if ?b then _ else _) = _ => destruct b end; try discriminate.
    injection H as <-. rewrite upd_at. destruct (Nat.eqb_spec i j) as [->|Hij]; [|left; exact Hc].
    simpl. destruct (in_removeT_or t c _ Hc) as [A|A]; [left; exact A|right; subst c; exists m; reflexivity].
  - left. destruct (pc (s j)) eqn:Epc; try discriminate.
    destruct (cur (s j)) as [t|] eqn:Ecur; try discriminate.
    set (s1 := upd s j (mkSim InStep (prog (s j)) (nexts (s j)) (Some t) t (newer (s j)))) in H.
    assert (G1 : Grow s s1).
    { apply Grow_fields. intros q. unfold s1. rewrite upd_at. destruct (Nat.eqb_spec q j) as [->|]; reflexivity. }
    assert (Hgo : forall s2, Grow s s2 ->
              (if outreq st j
               then Ok (upd s2 j (mkSim InData (prog (s2 j)) (nexts (s2 j)) (cur (s2 j)) (last (s2 j)) (newer (s2 j))))
               else finish_step st s2 j t []) = Ok s' -> In c (nexts (s' i))).
    { intros s2 G2 H2. destruct (outreq st j).
      - injection H2 as <-. rewrite upd_at. destruct (Nat.eqb_spec i j) as [->|]; [simpl|]; apply G2; exact Hc.
      - eapply Grow_finish; [exact H2|]. apply G2; exact Hc. }
    destruct nxt as [v|].
    + destruct (v <=? thd t); try discriminate.
      destruct (v <? until st); apply Hgo in H; auto. eapply Grow_trans; [exact G1|apply Grow_schedule].
    + destruct (timebased st j); try discriminate. apply Hgo in H; auto.
  - left. destruct (pc (s j)); try discriminate. destruct (cur (s j)); try discriminate.
    destruct (ot <? thd (last (s j))); try discriminate. eapply Grow_finish; [exact H|exact Hc].
  - left. destruct (existsb _ _); [discriminate|]. injection H as <-. exact Hc.
  - left. destruct (negb (begin_enabled st s j)); simpl in H; try discriminate.
    destruct (tmin (nexts (s j))); try discriminate. destruct (_ && _); try discriminate.
    injection H as <-. exact Hc.
  - destruct (pc (s j)); try discriminate. destruct (cur (s j)); discriminate.
Qed.

(* ---- conversely: a step enters a queue only because it is demanded ---- *)
Definition demanded (s:state) (e:event) (i:nat) (c:time) : Prop :=
  match e with
  | EvStep j (Some v) => j = i /\ c = world_time st i v /\ v < until st       (* the next-step time the simulator returned *)
  | EvData j ot ports =>                                                     (* an output delivered to a trigger input *)
      exists t p d, cur (s j) = Some t /\ In p ports /\ In (i,d) (trig st j p) /\
                    c = act (if ot =? thd t then t else world_time st j ot) d /\ thd c < until st
  | _ => False end.

Definition Shrink (s s':state) : Prop := forall j c, In c (nexts (s' j)) -> In c (nexts (s j)).
Lemma Shrink_trans a b c : Shrink a b -> Shrink b c -> Shrink a c.
Proof. intros A B j x H. apply A, B, H. Qed.
Lemma Shrink_fields (s s':state) : (forall j, nexts (s' j) = nexts (s j)) -> Shrink s s'.
Proof. intros H j c Hc. rewrite <- H. exact Hc. Qed.

Lemma notify_origin ports : forall (s:state) j ott i c, In c (nexts (notify st s j ott ports i)) ->
  In c (nexts (s i)) \/ exists p d, In p ports /\ In (i,d) (trig st j p) /\ c = act ott d /\ thd c < until st.
Proof.
  unfold notify. induction ports as [|p ports IH]; intros s j ott i c H; simpl in H; [left; exact H|].
  apply IH in H as [H|(p' & d & Hp & Hd & Hc & Hu)]; [|right; exists p', d; repeat split; auto; right; exact Hp].
  assert (G : forall l (s0:state), In c (nexts (fold_left (fun s (dd:nat*interval) => let (dest,d) := dd in
                   let tt := act ott d in if until st <=? thd tt then s else schedule s dest tt) l s0 i)) ->
              In c (nexts (s0 i)) \/ exists d, In (i,d) l /\ c = act ott d /\ thd c < until st).
  { induction l as [|[dest d] l IHl]; intros s0 H0; simpl in H0; [left; exact H0|].
    apply IHl in H0 as [H0|(d' & A & B & C)]; [|right; exists d'; repeat split; auto; right; exact A].
    destruct (until st <=? thd (act ott d)) eqn:Eu; [left; exact H0|].
    apply nexts_schedule in H0 as [H0|[-> ->]]; [left; exact H0|].
    right. exists d. split; [left; reflexivity|]. split; [reflexivity|]. apply Z.leb_gt in Eu. exact Eu. }
  apply G in H as [H|(d & A & B & C)]; [left; exact H|]. right. exists p, d. repeat split; auto. left; reflexivity.
Qed.

Lemma finish_origin (s:state) j ott ports s' i c : finish_step st s j ott ports = Ok s' -> In c (nexts (s' i)) ->
  In c (nexts (s i)) \/ exists p d, In p ports /\ In (i,d) (trig st j p) /\ c = act ott d /\ thd c < until st.
Proof.
  rewrite finish_step_eq. set (s1 := upd s j _).
  destruct (fold_left _ (seq 0 (nsims st)) _) as [s3|e] eqn:E; [|discriminate]. intros H Hc; injection H as <-.
  pose proof (wake_sleepers_same st (loop_eval st s3 j) i) as (_ & W & _). rewrite W in Hc.
  pose proof (loop_eval_same st s3 j i) as (_ & L & _). rewrite L in Hc.
  destruct (advance_all_fields st _ _ _ E) as (F & _ & _). destruct (F i) as (_ & N & _). rewrite N in Hc.
  apply notify_origin in Hc as [Hc|Hc]; [left|right; exact Hc].
  unfold s1 in Hc. rewrite upd_at in Hc. destruct (Nat.eqb_spec i j) as [->|]; exact Hc.
Qed.

Theorem apply_queue_origin s e s' i c : apply st s e = Ok s' -> In c (nexts (s' i)) ->
  In c (nexts (s i)) \/ demanded s e i c.
Proof.
  intros H Hc. destruct e as [j | j t m | j nxt | j ot ports | | j | j]; simpl in H.
  - left. destruct (pc (s j)); try discriminate.
    destruct (advance st s j) as [s1|] eqn:E; [|discriminate]. injection H as <-.
    destruct (advance_fields _ _ _ _ E) as (F & _ & _).
    pose proof (wake_sleepers_same st (loop_eval st s1 j) i) as (_ & W & _). rewrite W in Hc.
    pose proof (loop_eval_same st s1 j i) as (_ & L & _). rewrite L in Hc. destruct (F i) as (_ & N & _). rewrite N in Hc. exact Hc.
  - left. destruct (begin_enabled st s j); simpl in H; try discriminate.
    destruct (tmin (nexts (s j))) as [t'|] eqn:Et; try discriminate.
    destruct (teq t' t); simpl in H; try discriminate.
    destruct (teq t' (prog (s j))); simpl in H; try discriminate.
    destruct (loop_exceeded st t'); simpl in H; try discriminate.
    match type of H with (if ?b then _ else _) = _ => destruct b end; try discriminate.
    injection H as <-. rewrite upd_at in Hc. destruct (Nat.eqb_spec i j) as [->|Hij]; [|exact Hc].
    simpl in Hc. eapply in_removeT; eauto.
  - destruct (pc (s j)) eqn:Epc; try discriminate.
    destruct (cur (s j)) as [t|] eqn:Ecur; try discriminate.
    set (s1 := upd s j (mkSim InStep (prog (s j)) (nexts (s j)) (Some t) t (newer (s j)))) in H.
    assert (G1 : forall q, nexts (s1 q) = nexts (s q)).
    { intros q. unfold s1. rewrite upd_at. destruct (Nat.eqb_spec q j) as [->|]; reflexivity. }
    assert (Hgo : forall s2,
              (if outreq st j
               then Ok (upd s2 j (mkSim InData (prog (s2 j)) (nexts (s2 j)) (cur (s2 j)) (last (s2 j)) (newer (s2 j))))
               else finish_step st s2 j t []) = Ok s' -> In c (nexts (s2 i))).
    { intros s2 H2. destruct (outreq st j).
      - injection H2 as <-. rewrite upd_at in Hc. destruct (Nat.eqb_spec i j) as [->|]; exact Hc.
      - destruct (finish_origin _ _ _ _ _ _ _ H2 Hc) as [A|(p & d & [] & _)]. exact A. }
    destruct nxt as [v|].
    + destruct (v <=? thd t); try discriminate.
      destruct (v <? until st) eqn:Ev; apply Hgo in H.
      * apply nexts_schedule in H as [H|[-> ->]]; [left; rewrite <- G1; exact H|].
        right. simpl. split; [reflexivity|]. split; [reflexivity|]. apply Z.ltb_lt; exact Ev.
      * left. rewrite <- G1; exact H.
    + destruct (timebased st j); try discriminate. apply Hgo in H. left. rewrite <- G1; exact H.
  - destruct (pc (s j)); try discriminate. destruct (cur (s j)) as [t|] eqn:Ecur; try discriminate.
    destruct (ot <? thd (last (s j))); try discriminate.
    destruct (finish_origin _ _ _ _ _ _ _ H Hc) as [A|(p & d & A & B & C & D0)]; [left; exact A|].
    right. simpl. exists t, p, d. repeat split; auto.
  - left. destruct (existsb _ _); [discriminate|]. injection H as <-. exact Hc.
  - left. destruct (negb (begin_enabled st s j)); simpl in H; try discriminate.
    destruct (tmin (nexts (s j))); try discriminate. destruct (_ && _); try discriminate.
    injection H as <-. exact Hc.
  - destruct (pc (s j)); try discriminate. destruct (cur (s j)); discriminate.
Qed.

(* a whole run: a queued step is still queued at the end, or some later event begins it *)
Theorem run_queue evs : forall s l i c, run st s evs = Ok l -> In c (nexts (s i)) ->
  In c (nexts (List.last l s i)) \/ exists p m, nth_error evs p = Some (EvBegin i c m).
Proof.
  induction evs as [|e r IH]; intros s l i c H Hc; simpl in H.
  - injection H as <-. left. exact Hc.
  - destruct (apply st s e) as [s1|] eqn:E; [|discriminate].
    destruct (run st s1 r) as [l1|] eqn:E1; [|discriminate]. injection H as <-.
    destruct (apply_queue _ _ _ _ _ E Hc) as [A|(m & ->)].
    + destruct (IH s1 l1 i c E1 A) as [B|(p & m & B)].
      * left. rewrite last_cons_default. exact B.
      * right. exists (S p), m. exact B.
    + right. exists 0%nat, m. reflexivity.
Qed.

(* and a demanded step is in the queue right after the event that demands it (possibly merged with an equal pending one) *)
Lemma schedule_in (s:state) i t : In t (nexts (schedule s i t i)).
Proof.
  unfold schedule. destruct (memT t (nexts (s i))) eqn:E; [apply memT_in; exact E|].
  rewrite upd_at, Nat.eqb_refl. simpl. left; reflexivity.
Qed.
Lemma notify_in ports : forall (s:state) j ott i p d, In p ports -> In (i,d) (trig st j p) -> thd (act ott d) < until st ->
  In (act ott d) (nexts (notify st s j ott ports i)).
Proof.
  induction ports as [|p0 ports IH]; intros s j ott i p d Hp Hd Hu; [destruct Hp|].
  destruct Hp as [->|Hp].
  - unfold notify. simpl.
    pose proof (Grow_notify ports) as G. unfold notify in G. apply G. clear G IH.
    revert s. revert Hd. generalize (trig st j p) as l. intros l Hd. induction l as [|[dest d'] l IHl]; intros s; [destruct Hd|].
    simpl. destruct Hd as [E|Hd].
    + injection E as -> ->. apply Z.ltb_lt in Hu. rewrite Z.leb_antisym. rewrite Hu. simpl.
      assert (G : forall l0 (s0:state), Grow s0 (fold_left (fun s (dd:nat*interval) => let (dest,d) := dd in
                   let tt := act ott d in if until st <=? thd tt then s else schedule s dest tt) l0 s0)).
      { induction l0 as [|[dest d0] l0 IH0]; intros s0; simpl; [apply Grow_refl|].
        eapply Grow_trans; [|apply IH0]. destruct (until st <=? thd (act ott d0)); [apply Grow_refl|apply Grow_schedule]. }
      apply G. apply schedule_in.
    + apply IHl. exact Hd.
  - unfold notify. simpl. apply (IH _ j ott i p d Hp Hd Hu).
Qed.

Theorem demanded_is_queued s e s' i c : apply st s e = Ok s' -> demanded s e i c -> In c (nexts (s' i)).
Proof.
  intros H D. destruct e as [j | j t m | j nxt | j ot ports | | j | j]; simpl in D; try contradiction.
  - destruct nxt as [v|]; [|contradiction]. destruct D as (-> & -> & Hv). simpl in H.
    destruct (pc (s i)) eqn:Epc; try discriminate. destruct (cur (s i)) as [t|] eqn:Ecur; try discriminate.
    destruct (v <=? thd t); try discriminate. apply Z.ltb_lt in Hv. rewrite Hv in H.
    set (s2 := schedule _ i (world_time st i v)) in H.
    assert (A : In (world_time st i v) (nexts (s2 i))) by apply schedule_in.
    destruct (outreq st i).
    + injection H as <-. rewrite upd_at, Nat.eqb_refl. simpl. exact A.
    + eapply Grow_finish; eauto.
  - destruct D as (t & p & d & Hc & Hp & Hd & -> & Hu). simpl in H.
    destruct (pc (s j)); try discriminate. rewrite Hc in H.
    destruct (ot <? thd (last (s j))); try discriminate.
    revert H. rewrite finish_step_eq. set (s1 := upd s j _).
    destruct (fold_left _ (seq 0 (nsims st)) _) as [s3|e] eqn:E; [|discriminate]. intros H; injection H as <-.
    pose proof (wake_sleepers_same st (loop_eval st s3 j) i) as (_ & -> & _).
    pose proof (loop_eval_same st s3 j i) as (_ & -> & _).
    destruct (advance_all_fields st _ _ _ E) as (F & _ & _). destruct (F i) as (_ & -> & _).
    apply (notify_in ports s1 j _ i p d Hp Hd Hu).
Qed.

(* a whole run: what is queued at the end was queued at the start or was demanded by an event of the run *)
Theorem run_queue_origin evs : forall s l i c, run st s evs = Ok l -> In c (nexts (List.last l s i)) ->
  In c (nexts (s i)) \/ exists p e sp, nth_error evs p = Some e /\ nth_error (s :: l) p = Some sp /\ demanded sp e i c.
Proof.
  induction evs as [|e r IH]; intros s l i c H Hc; simpl in H.
  - injection H as <-. left. exact Hc.
  - destruct (apply st s e) as [s1|] eqn:E; [|discriminate].
    destruct (run st s1 r) as [l1|] eqn:E1; [|discriminate]. injection H as <-.
    rewrite last_cons_default in Hc.
    destruct (IH s1 l1 i c E1 Hc) as [A|(p & e' & sp & A & B & C)].
    + destruct (apply_queue_origin _ _ _ _ _ E A) as [A'|A']; [left; exact A'|].
      right. exists 0%nat, e, s. repeat split; auto.
    + right. exists (S p), e', sp. repeat split; auto.
Qed.
End N.

Lemma run_app st evs1 : forall s0 l1 evs2 l2, run st s0 evs1 = Ok l1 -> run st (List.last l1 s0) evs2 = Ok l2 ->
  run st s0 (evs1 ++ evs2) = Ok (l1 ++ l2).
Proof.
  induction evs1 as [|e r IH]; intros s0 l1 evs2 l2 H1 H2; simpl in *.
  - injection H1 as <-. simpl in *. exact H2.
  - destruct (apply st s0 e) as [s1|] eqn:E; [|discriminate].
    destruct (run st s1 r) as [l1'|] eqn:E1; [|discriminate]. injection H1 as <-.
    rewrite last_cons_default in H2. rewrite (IH s1 l1' evs2 l2 E1 H2). reflexivity.
Qed.
Lemma last_app_default {A} (l1 l2 : list A) d : List.last (l1 ++ l2) d = List.last l2 (List.last l1 d).
Proof.
  revert d. induction l1 as [|y l IH]; intros d; [reflexivity|].
  change ((y :: l) ++ l2) with (y :: (l ++ l2)). rewrite !last_cons_default. apply IH.
Qed.

(* In a run from the initial state that ends with every simulator done, every step that is queued at any point of the
   run is begun by a later event. *)
Theorem no_lost_step st : static_ok st -> init_before_until st ->
  forall evs1 evs2 l1 l2, run st (init_state st) evs1 = Ok l1 ->
  let s := List.last l1 (init_state st) in
  run st s evs2 = Ok l2 ->
  (forall i, (i < nsims st)%nat -> pc (List.last l2 s i) = Done) ->
  forall i c, (i < nsims st)%nat -> In c (nexts (s i)) -> exists p m, nth_error evs2 p = Some (EvBegin i c m).
Proof.
  intros OK IB evs1 evs2 l1 l2 H1 s H2 Hdone i c Hi Hc.
  destruct (run_queue st evs2 s l2 i c H2 Hc) as [A|A]; [|exact A]. exfalso.
  assert (R : reached st (List.last l2 s)).
  { exists (evs1 ++ evs2), (l1 ++ l2). split; [apply run_app; assumption|]. unfold s. symmetry. apply last_app_default. }
  rewrite (done_queue_empty st OK IB _ i R Hi (Hdone i Hi)) in A. destruct A.
Qed.

(* Every step that is begun was an initial step of that simulator or was demanded by an earlier event of the run (a
   next-step time returned by the simulator, or an output delivered to one of its trigger inputs), and lies before until
   in the second case. *)
Theorem only_demanded_steps st : forall evs l i c m s',
  run st (init_state st) evs = Ok l ->
  apply st (List.last l (init_state st)) (EvBegin i c m) = Ok s' ->
  In c (init_nexts st i) \/
  exists p e sp, nth_error evs p = Some e /\ nth_error (init_state st :: l) p = Some sp /\ demanded st sp e i c.
Proof.
  intros evs l i c m s' H Hb.
  destruct (begin_facts _ _ _ _ _ _ Hb) as (t0 & _ & _ & Ht & _).
  apply tmin_spec in Ht as [Hin _].
  destruct (run_queue_origin st evs _ l i c H Hin) as [A|A]; [left; exact A|right; exact A].
Qed.
