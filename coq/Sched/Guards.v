(* What an accepted event guarantees, read off Timing.apply, and their combination with the invariant:
   loop guard (C09), lazy run-ahead bound (C10), reply validation (C13), max_advance bounds (C07). *)
From Coq Require Import ZArith List Bool Arith Lia.
Import ListNotations.
From MV Require Import Time.Spec Time.Ord Sched.Timing Sched.Inv Sched.Init Sched.Main.
Open Scope Z_scope.

(* ---- BEGIN: everything the guard established ---- *)
Lemma begin_facts st s i t m s' : apply st s (EvBegin i t m) = Ok s' ->
  exists t0, pc (s i) = WaitDeps t0 /\ deps_ok st s i t0 = true /\
    tmin (nexts (s i)) = Some t /\ t = prog (s i) /\ loop_exceeded st t = false /\
    s' = upd s i (mkSim InStep (prog (s i)) (removeT t (nexts (s i))) (Some t) (last (s i)) (newer (s i))) /\
    m = max_advance st s' i.
Proof.
  simpl. unfold begin_enabled. destruct (pc (s i)) eqn:E; simpl; try discriminate.
  destruct (deps_ok st s i t0) eqn:D; simpl; try discriminate.
  destruct (tmin (nexts (s i))) as [t'|] eqn:T; try discriminate.
  destruct (teq t' t) eqn:E1; simpl; try discriminate. apply teq_eq in E1. subst t'.
  destruct (teq t (prog (s i))) eqn:E2; simpl; try discriminate. apply teq_eq in E2.
  destruct (loop_exceeded st t) eqn:L; try discriminate.
  destruct (Z.eqb_spec (max_advance st (upd s i (mkSim InStep (prog (s i)) (removeT t (nexts (s i))) (Some t) (last (s i)) (newer (s i)))) i) m); try discriminate.
  intros H. injection H as <-. exists t0. repeat split; auto.
Qed.

Lemma C01_guard st s i t m s' : apply st s (EvBegin i t m) = Ok s' ->
  exists t0, pc (s i) = WaitDeps t0 /\
  forall k d, In (k,d) (indel st i) -> tlt t0 (act (prog (s k)) d) = true.
Proof.
  intros H. destruct (begin_facts _ _ _ _ _ _ H) as (t0 & P & D & _). exists t0. split; [exact P|].
  unfold deps_ok in D. apply andb_true_iff in D as [D _]. apply andb_true_iff in D as [D _].
  intros k d Hin. rewrite forallb_forall in D. apply (D (k,d) Hin).
Qed.

(* ---- C09: the loop guard ---- *)
(* no step whose sub-step index (any sub-tier) has reached max_loop_iterations is ever begun *)
Theorem loop_guard_blocks st s i t m s' : apply st s (EvBegin i t m) = Ok s' ->
  forall x, In x (tl t) -> x < maxloop st.
Proof.
  intros H x Hx. destruct (begin_facts _ _ _ _ _ _ H) as (_ & _ & _ & _ & _ & L & _).
  unfold loop_exceeded in L. destruct (Z.ltb_spec x (maxloop st)); auto.
  exfalso. assert (existsb (fun x => maxloop st <=? x) (tl t) = true).
  { apply existsb_exists. exists x. split; auto. apply Z.leb_le. lia. }
  congruence.
Qed.
(* the run is stopped (SimulationError naming i) exactly when i is otherwise ready to step and its next step exceeds the bound *)
Theorem loop_guard_fires_iff st s i : (exists s', apply st s (EvLoopFail i) = Ok s') <->
  begin_enabled st s i = true /\ exists t, tmin (nexts (s i)) = Some t /\ loop_exceeded st t = true /\ t = prog (s i).
Proof.
  simpl. split.
  - intros [s' H]. destruct (begin_enabled st s i); simpl in H; [|discriminate]. split; [reflexivity|].
    destruct (tmin (nexts (s i))) as [t|]; [|discriminate]. exists t.
    destruct (loop_exceeded st t) eqn:L; simpl in H; [|discriminate].
    destruct (teq t (prog (s i))) eqn:E; [|discriminate]. apply teq_eq in E. auto.
  - intros (En & t & T & L & E). rewrite En, T, L. simpl. subst t. 
    assert (teq (prog (s i)) (prog (s i)) = true) by (apply teq_eq; reflexivity). rewrite H. eauto.
Qed.
(* a step within the bound is never refused by the loop guard: BEGIN and LOOPFAIL are mutually exclusive *)
Theorem loop_guard_exclusive st s i t m s1 s2 :
  apply st s (EvBegin i t m) = Ok s1 -> apply st s (EvLoopFail i) = Ok s2 -> False.
Proof.
  intros H1 H2. destruct (begin_facts _ _ _ _ _ _ H1) as (_ & _ & _ & T & _ & L & _).
  destruct (proj1 (loop_guard_fires_iff st s i) (ex_intro _ s2 H2)) as (_ & t' & T' & L' & _). congruence.
Qed.

(* ---- C10: lazy stepping ---- *)
Section WithStatic.
Variable st : static.
Hypothesis OK : static_ok st.

(* the guards that were checked concern exactly the step that is begun *)
Lemma begin_guards s i t m s' : Good st s -> apply st s (EvBegin i t m) = Ok s' ->
  pc (s i) = WaitDeps t /\ deps_ok st s i t = true.
Proof.
  intros HG H. destruct (begin_facts _ _ _ _ _ _ H) as (t0 & P & D & _).
  pose proof (begin_pops_waited st s i t m s' t0 HG H P). subst t0. auto.
Qed.

(* with lazy stepping, when i begins at t no consumer j of i has an in-flight or scheduled step before adapt(t):
   producers never run more than one step ahead of their direct consumers *)
Theorem lazy_bound s i t m s' : lazy st = true -> Good st s -> apply st s (EvBegin i t m) = Ok s' ->
  forall j d c, In (j,d) (succ_lazy st i) -> In c (cands (s j)) -> tle (act t d) c = true.
Proof.
  intros HL HG H j d c Hj Hc. destruct (begin_guards s i t m s' HG H) as [_ D].
  unfold deps_ok in D. rewrite HL in D. apply andb_true_iff in D as [_ D].
  rewrite forallb_forall in D. specialize (D (j,d) Hj). simpl in D.
  destruct HG as ([[_ HLB] _] & _ & _). destruct (HLB j) as (_ & Hcands & _).
  eapply tle_trans; [exact D|apply Hcands; exact Hc].
Qed.
(* the same for consumers connected with async_requests, lazy or not (C16, ordering clause) *)
Theorem async_bound s i t m s' : Good st s -> apply st s (EvBegin i t m) = Ok s' ->
  forall j d c, In (j,d) (succ_wait st i) -> In c (cands (s j)) -> tle (act t d) c = true.
Proof.
  intros HG H j d c Hj Hc. destruct (begin_guards s i t m s' HG H) as [_ D].
  unfold deps_ok in D. apply andb_true_iff in D as [D _]. apply andb_true_iff in D as [_ D].
  rewrite forallb_forall in D. specialize (D (j,d) Hj). simpl in D.
  destruct HG as ([[_ HLB] _] & _ & _). destruct (HLB j) as (_ & Hcands & _).
  eapply tle_trans; [exact D|apply Hcands; exact Hc].
Qed.
(* input guard, for the step that is begun *)
Theorem input_guard s i t m s' : Good st s -> apply st s (EvBegin i t m) = Ok s' ->
  forall k d, In (k,d) (indel st i) -> tlt t (act (prog (s k)) d) = true.
Proof.
  intros HG H k d Hk. destruct (begin_guards s i t m s' HG H) as [_ D].
  unfold deps_ok in D. apply andb_true_iff in D as [D _]. apply andb_true_iff in D as [D _].
  rewrite forallb_forall in D. apply (D (k,d) Hk).
Qed.
(* "has already progressed" (a step in the simulator's past) is unreachable *)
Theorem no_past_error s i t m : Good st s -> apply st s (EvBegin i t m) <> Err (EPast i).
Proof.
  intros ([[HS HL] _] & HW & HE). simpl. unfold begin_enabled.
  destruct (pc (s i)) eqn:P; simpl; try discriminate.
  destruct (deps_ok st s i t0); simpl; try discriminate.
  destruct (tmin (nexts (s i))) as [t'|] eqn:T; try discriminate.
  destruct (teq t' t); simpl; try discriminate.
  destruct (teq t' (prog (s i))) eqn:E; simpl.
  - destruct (loop_exceeded st t'); try discriminate. destruct (_ =? m); discriminate.
  - exfalso. apply tmin_spec in T as [Tin Tmin].
    assert (In t0 (nexts (s i))) by (apply HW; exact P).
    destruct (HL i) as (_ & Hc & _).
    assert (L1 : tle (prog (s i)) t' = true) by (apply Hc; unfold cands; apply in_or_app; right; exact Tin).
    assert (L2 : tle t' t0 = true) by (apply Tmin; exact H).
    assert (L3 : tle t0 (prog (s i)) = true) by (apply HE; exact P).
    assert (t' = prog (s i)) by (apply tle_antisym; [eapply tle_trans; eauto|exact L1]).
    subst. assert (teq (prog (s i)) (prog (s i)) = true) by (apply teq_eq; reflexivity). congruence.
Qed.
End WithStatic.

(* ---- C13: reply validation ---- *)
Theorem bad_next_step_rejected st s i t v : pc (s i) = InStep -> cur (s i) = Some t -> v <= thd t ->
  apply st s (EvStep i (Some v)) = Err (EReply i).
Proof. intros P C H. simpl. rewrite P, C. destruct (Z.leb_spec v (thd t)); [reflexivity|lia]. Qed.
Theorem nonint_next_step_rejected st s i t : pc (s i) = InStep -> cur (s i) = Some t ->
  apply st s (EvStepBad i) = Err (EReply i).
Proof. intros P C. simpl. rewrite P, C. reflexivity. Qed.
Theorem missing_next_step_rejected st s i t : pc (s i) = InStep -> cur (s i) = Some t -> timebased st i = true ->
  apply st s (EvStep i None) = Err (EReply i).
Proof. intros P C T. simpl. rewrite P, C, T. reflexivity. Qed.
Theorem early_output_time_rejected st s i c ot ports : pc (s i) = InData -> cur (s i) = Some c -> ot < thd (last (s i)) ->
  apply st s (EvData i ot ports) = Err (EOutTime i).
Proof. intros P C H. simpl. rewrite P, C. destruct (Z.ltb_spec ot (thd (last (s i)))); [reflexivity|lia]. Qed.
(* a well-formed reply is never rejected by the validation *)
Theorem good_next_step_not_rejected st s i t v : pc (s i) = InStep -> cur (s i) = Some t -> thd t < v ->
  apply st s (EvStep i (Some v)) <> Err (EReply i).
Proof.
  intros P C H. simpl. rewrite P, C. destruct (Z.leb_spec v (thd t)); [lia|].
  destruct (outreq st i); [discriminate|]. unfold finish_step.
  match goal with |- context [fold_left ?f ?l ?a] => destruct (fold_left f l a) as [x|e] eqn:E end; [discriminate|].
  intros K. injection K as K. subst e.
  (* only advance can fail inside finish_step, and it fails with EBackwards *)
  clear -E. revert E. generalize (seq 0 (nsims st)). intros l.
  match goal with |- fold_left _ _ (Ok ?a) = _ -> _ => generalize a end.
  induction l as [|j l IH]; intros s0; simpl; [discriminate|].
  unfold advance at 2. destruct (tlt _ _).
  - intros E. assert (forall l0 e0, fold_left (fun (r:res state) j0 => match r with Ok s1 => advance st s1 j0 | e1 => e1 end) l0 (Err e0) = Err e0) by (induction l0; simpl; auto).
    rewrite H in E. discriminate.
  - apply IH.
Qed.
(* after an error nothing happens any more: a run is a prefix-closed sequence of accepted events *)
Theorem error_is_final st s e r evs : apply st s e = Err r -> run st s (e :: evs) = Err r.
Proof. intros H. simpl. rewrite H. reflexivity. Qed.

(* ---- C07: bounds of max_advance ---- *)
Lemma fold_min_le l : forall a, fold_left Z.min l a <= a.
Proof. induction l as [|x l IH]; intros a; simpl; [lia|]. specialize (IH (Z.min a x)). lia. Qed.
Lemma fold_min_nil_or l a : (forall x, In x l -> a <= x) -> fold_left Z.min l a = a.
Proof. revert a; induction l as [|x l IH]; intros a H; simpl; auto. rewrite Z.min_l by (apply H; left; reflexivity). apply IH. intros y Hy. apply H. right; exact Hy. Qed.
Theorem max_advance_le_until st s i : max_advance st s i <= until st.
Proof. unfold max_advance. pose proof (fold_min_le (map thd (anc_cands st s i) ++ map thd (opt_list (tmin (nexts (s i))))) (until st + 1)). lia. Qed.
(* a simulator that no other simulator can trigger and that has nothing else queued is promised the whole run *)
Theorem max_advance_until_without_triggers st s i : anc st i = [] -> nexts (s i) = [] -> max_advance st s i = until st.
Proof.
  intros A N. unfold max_advance, anc_cands. rewrite A, N. simpl. lia.
Qed.
Theorem begin_max_advance st s i t m s' : apply st s (EvBegin i t m) = Ok s' -> m <= until st /\
  (anc st i = [] -> removeT t (nexts (s i)) = [] -> m = until st).
Proof.
  intros H. destruct (begin_facts _ _ _ _ _ _ H) as (_ & _ & _ & _ & _ & _ & E & M). subst m. split; [apply max_advance_le_until|].
  intros A N. apply max_advance_until_without_triggers; [exact A|]. subst s'. unfold upd. rewrite Nat.eqb_refl. simpl. exact N.
Qed.
