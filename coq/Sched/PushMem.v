(* C03 / C04, pushed values of a persistent slot over a whole run: for a slot (attribute a of simulator j, source k) that
   is registered in the persistent memory (a persistent source attribute, or initial data), that no pulled connection and
   no set_data call writes, the memory after any run prefix - and the value every step of j is given - is the value of the
   entry of k's stream with the LATEST due time at or before the step (the last pushed among equal due times), or the
   initial value when nothing was due yet: the reference data-flow semantics "a consumer sees the newest output due by its
   step time", as a function of the source's outputs only - independent of the interleaving. *)
From Coq Require Import ZArith List Bool Arith Lia Sorting.Sorted.
Import ListNotations.
From MV Require Import Time.Spec Time.Ord Static.Build Static.Cycle Static.CycleP Sched.Timing Sched.Inv Sched.Init Sched.Wle Sched.Main Sched.Guards Sched.Final
  Sched.Plane Sched.DataP Sched.PruneRun Sched.Later Sched.PullRun Sched.EventRun Sched.SetData Sched.Persist Sched.PushRun.
Open Scope Z_scope.

(* ---- lists ---- *)
Lemma pick_snoc l x : pick (l ++ [x]) = pick_step (pick l) x.
Proof. unfold pick. rewrite fold_left_app. reflexivity. Qed.
Lemma pick_in l : forall p, pick l = Some p -> In p l.
Proof.
  induction l as [|x l IH] using rev_ind; intros p H; [discriminate|]. rewrite pick_snoc in H. apply in_or_app.
  unfold pick_step in H. destruct (pick l) as [b|]; [|injection H as <-; right; left; reflexivity].
  destruct (fst b <=? fst x); injection H as <-; [right; left; reflexivity|left; apply IH; reflexivity].
Qed.
Lemma pick_none l : pick l = None -> l = [].
Proof.
  destruct l as [|x l] using rev_ind; [reflexivity|]. rewrite pick_snoc. unfold pick_step. destruct (pick l) as [b|]; [destruct (fst b <=? fst x)|]; discriminate.
Qed.

(* the newest entry due by t is the newest one due in (T, t] if there is one, else the newest one due by T *)
Lemma pick_split T t l : T <= t ->
  pick (filter (fun p : Z*Z => fst p <=? t) l) =
  match pick (filter (fun p : Z*Z => fst p <=? t) (filter (fun p : Z*Z => T <? fst p) l)) with
  | Some p => Some p
  | None => pick (filter (fun p : Z*Z => fst p <=? T) l)
  end.
Proof.
  intros HT. induction l as [|x l IH] using rev_ind; [reflexivity|].
  rewrite !filter_app. cbn [filter].
  destruct (Z.leb_spec (fst x) T) as [H1|H1].
  - (* x is old: only the first and the third list get it *)
    assert (E2 : (T <? fst x) = false) by (apply Z.ltb_ge; exact H1). assert (E1 : (fst x <=? t) = true) by (apply Z.leb_le; lia).
    rewrite E2, E1. cbn [filter]. rewrite app_nil_r, !pick_snoc, IH.
    destruct (pick (filter (fun p : Z*Z => fst p <=? t) (filter (fun p : Z*Z => T <? fst p) l))) as [p|] eqn:EP; [|reflexivity].
    apply pick_in in EP. apply filter_In in EP as [EP _]. apply filter_In in EP as [_ EP]. apply Z.ltb_lt in EP.
    unfold pick_step. destruct (Z.leb_spec (fst p) (fst x)); [lia|reflexivity].
  - assert (E2 : (T <? fst x) = true) by (apply Z.ltb_lt; exact H1). rewrite E2. cbn [filter].
    rewrite app_nil_r.
    destruct (fst x <=? t) eqn:E1; [|rewrite !app_nil_r; exact IH].
    rewrite !pick_snoc, IH.
    destruct (pick (filter (fun p : Z*Z => fst p <=? t) (filter (fun p : Z*Z => T <? fst p) l))) as [p|] eqn:EP.
    + unfold pick_step. destruct (fst p <=? fst x); reflexivity.
    + destruct (pick (filter (fun p : Z*Z => fst p <=? T) l)) as [q|] eqn:EQ; [|reflexivity].
      apply pick_in in EQ. apply filter_In in EQ as [_ EQ]. apply Z.leb_le in EQ.
      unfold pick_step. destruct (Z.leb_spec (fst q) (fst x)); [reflexivity|lia].
Qed.

(* merging the memory into a register that does not have the slot yields the memory's value *)
Lemma merge_inner_adds (m : list (nat*value)) : forall tm k x, aget k tm = None -> aget k m = Some x ->
  aget k (fold_left (fun tm (sv:nat*value) => let (s,v) := sv in match aget s tm with None => aset s v tm | Some _ => tm end) m tm) = Some x.
Proof.
  induction m as [|[s v] m IH]; intros tm k x Ht Hm; [discriminate|]. cbn [fold_left]. simpl in Hm.
  destruct (Nat.eqb_spec k s) as [->|Hk].
  - injection Hm as ->. rewrite Ht. apply merge_inner_keeps. apply aget_aset_same.
  - apply IH; [|exact Hm]. destruct (aget s tm); [exact Ht|]. rewrite aget_aset_other by exact Hk. exact Ht.
Qed.
Lemma merge_all_adds o : forall t a k x, iget a k t = None -> iget a k o = Some x -> iget a k (merge_all_i t o) = Some x.
Proof.
  unfold merge_all_i. induction o as [|[a0 m] o IH]; intros t a k x Ht Ho; [discriminate|]. cbn [fold_left].
  unfold iget in Ho. simpl in Ho. destruct (Nat.eqb_spec a a0) as [->|Ha].
  - apply (merge_all_keeps o). unfold iget in *. destruct (aget a0 t) as [tm|] eqn:Et.
    + rewrite aget_aset_same. apply merge_inner_adds; assumption.
    + rewrite aget_aset_same. exact Ho.
  - apply IH; [|unfold iget; exact Ho]. unfold iget in *.
    destruct (aget a0 t); rewrite aget_aset_other by exact Ha; exact Ht.
Qed.

Lemma push_one_persist i ot v ds dd x : persist (push_one i ot v ds dd x) = persist (ds x).
Proof. destruct dd as [[dest sh] da]. unfold push_one, dupd. destruct (Nat.eqb_spec x dest) as [->|]; reflexivity. Qed.
Lemma put_outputs_persist dt ds i ot data x : persist (put_outputs dt ds i ot data x) = persist (ds x).
Proof.
  rewrite put_outputs_eq.
  assert (G : forall ps d0, persist (fold_left (push_port i ot data) ps d0 x) = persist (d0 x)).
  { induction ps as [|[sa dests] ps IH]; intros d0; simpl; [reflexivity|]. rewrite IH. unfold push_port.
    destruct (aget sa data) as [v|]; [|reflexivity].
    clear. revert d0. induction dests as [|dd dests IHd]; intros d0; simpl; [reflexivity|]. rewrite IHd. apply push_one_persist. }
  rewrite G. destruct (d_cache dt); [|reflexivity]. unfold dupd. destruct (Nat.eqb_spec x i) as [->|]; reflexivity.
Qed.

Section M.
Variable st : static.
Variable dt : dstatic.
Hypothesis OK : static_ok st.
Variables (j:nat) (a:attr) (k:nat).
Hypothesis PS : push_strict st dt.
Hypothesis NP : not_pulled dt j a k.
Variable v0 : value.
Hypothesis P0 : iget a k (init_persist dt j) = Some v0.

Local Arguments apply : simpl never.
Local Arguments get_input_data : simpl never.
Local Arguments put_outputs : simpl never.

(* the value of the newest entry of S due by T, else the initial value *)
Definition mem (T:option Z) (S:list (Z*Z)) : value :=
  match T with
  | None => v0
  | Some T0 => match pick (filter (fun p : Z*Z => fst p <=? T0) S) with Some p => Some (snd p) | None => v0 end
  end.

(* no set_data call writes the slot *)
Definition no_setdata (evs:list devent) : Prop :=
  forall i w x a0 v, In (DSetData i w x a0 v) evs -> ~ (x = j /\ a0 = a /\ (w * nsims st + i)%nat = k).

Lemma mem_omax T t S : pick (filter (fun p : Z*Z => fst p <=? t) (filter (above T) S)) = None -> mem (omax T t) S = mem T S.
Proof.
  intros HN. destruct T as [T0|]; unfold omax, mem.
  - destruct (Z.max_spec T0 t) as [[Hlt ->]|[Hle ->]]; [|reflexivity].
    rewrite (pick_split T0 t S) by lia. unfold above in HN. simpl in HN. rewrite HN. reflexivity.
  - rewrite (filter_all (above None)) in HN by reflexivity. rewrite HN. reflexivity.
Qed.
Lemma mem_omax_some T t S p : pick (filter (fun p : Z*Z => fst p <=? t) (filter (above T) S)) = Some p -> mem (omax T t) S = Some (snd p).
Proof.
  intros HS. destruct T as [T0|]; unfold omax, mem.
  - pose proof (pick_in _ _ HS) as Hin. apply filter_In in Hin as [Hin Hle]. apply filter_In in Hin as [_ Hab]. simpl in Hab.
    apply Z.ltb_lt in Hab. apply Z.leb_le in Hle.
    destruct (Z.max_spec T0 t) as [[_ ->]|[Hge _]]; [|lia].
    rewrite (pick_split T0 t S) by lia. unfold above in HS. simpl in HS. rewrite HS. reflexivity.
  - rewrite (filter_all (above None)) in HS by reflexivity. rewrite HS. reflexivity.
Qed.

(* the value of one step, given the memory invariant before it *)
Lemma begin_value pre sp dsp t inp ds' : in_range st pre ->
  dfinal st dt (init_state st) (init_dstate dt) pre = Some (sp, dsp) ->
  iget a k (persist (dsp j)) = Some (mem (lastb j pre) (stream dt j a k pre)) -> iget a k (setdata (dsp j)) = None ->
  get_input_data dt dsp j (thd t) = (inp, ds') ->
  iget a k inp = Some (mem (omax (lastb j pre) (thd t)) (stream dt j a k pre)) /\
  iget a k (persist (ds' j)) = Some (mem (omax (lastb j pre) (thd t)) (stream dt j a k pre)) /\
  iget a k (setdata (ds' j)) = None.
Proof.
  intros HR Hpre HM HS G.
  destruct (slot_of_run st dt OK j a k pre sp dsp PS HR Hpre) as (Dp & Ep).
  destruct (pushed_value_and_memory dt dsp j (thd t) inp ds' a k G NP) as [V Mv]. cbv zeta in V.
  pose proof (last_for_is_pick a k (buffer (dsp j)) (thd t) (Dp j)) as LP. fold (slotbuf j a k dsp) in LP. rewrite Ep in LP.
  assert (Vv : iget a k inp = Some (mem (omax (lastb j pre) (thd t)) (stream dt j a k pre))).
  { rewrite V. destruct (last_for a k (sort_b (filter (fun e => btime e <=? thd t) (buffer (dsp j))))) as [e|].
    - simpl in LP. symmetry in LP. rewrite (mem_omax_some _ _ _ _ LP). reflexivity.
    - simpl in LP. symmetry in LP. rewrite (mem_omax _ _ _ LP). apply merge_all_adds; assumption. }
  split; [exact Vv|]. split.
  - rewrite Mv, HM, Vv. reflexivity.
  - apply (setdata_cleared dt dsp j (thd t) inp ds') in G. rewrite G. reflexivity.
Qed.

(* over a run from the initial state *)
Theorem memory_of_run evs : forall s ds, in_range st evs -> no_setdata evs ->
  dfinal st dt (init_state st) (init_dstate dt) evs = Some (s, ds) ->
  iget a k (persist (ds j)) = Some (mem (lastb j evs) (stream dt j a k evs)) /\ iget a k (setdata (ds j)) = None.
Proof.
  induction evs as [|e l IH] using rev_ind; intros s ds HR HN H.
  - cbn [dfinal] in H. injection H as _ <-. split; [exact P0|reflexivity].
  - destruct (dfinal_split st dt l [e] _ _ _ H) as (s1 & ds1 & H1 & H2).
    assert (HRl : in_range st l) by (intros i ot p d Hin; apply (HR i ot p d); apply in_or_app; left; exact Hin).
    assert (HNl : no_setdata l) by (intros i w x a0 v Hin; apply (HN i w x a0 v); apply in_or_app; left; exact Hin).
    destruct (IH s1 ds1 HRl HNl H1) as [IM IS].
    cbn [dfinal] in H2. destruct (dapply_gen false st dt (s1, ds1) e) as [s' ds' inp| |] eqn:E; try discriminate. injection H2 as _ <-.
    unfold lastb, stream. rewrite fold_left_app, flat_map_app. cbn [fold_left flat_map]. rewrite app_nil_r.
    fold (lastb j l). fold (stream dt j a k l).
    destruct e as [e|i t m|i ot ports data|i w x a0 v]; unfold dapply_gen in E.
    + assert (ds' = ds1).
      { destruct e; try (destruct (apply st s1 _) as [s2|]; [injection E as _ <- _; reflexivity|discriminate]).
        destruct (apply st s1 _) as [s2|]; [|discriminate]. injection E as _ <- _. destruct (pc (s2 i)); reflexivity. }
      subst ds'. cbn [b_step ev_pushes]. rewrite app_nil_r. auto.
    + destruct (apply st s1 _) as [s2|]; [|discriminate]. destruct (get_input_data dt ds1 i (thd t)) as [inp0 ds0] eqn:G. injection E as _ <- _.
      cbn [b_step ev_pushes]. rewrite app_nil_r. destruct (Nat.eqb_spec i j) as [->|Hn].
      * destruct (begin_value l s1 ds1 t inp0 ds0 HRl H1 IM IS G) as (_ & A & B). auto.
      * rewrite (get_input_data_frame dt ds1 i (thd t) inp0 ds0 j G (fun E0 => Hn (eq_sym E0))). auto.
    + destruct (apply st s1 _) as [s2|]; [|discriminate]. injection E as _ <- _.
      cbn [b_step ev_pushes]. rewrite put_outputs_persist, put_outputs_setdata. split; [|exact IS]. rewrite IM. f_equal.
      unfold mem. destruct (lastb j l) as [T0|] eqn:EL; [|reflexivity]. rewrite filter_app.
      rewrite (filter_none _ (slot_pushes dt j a k i ot data)); [rewrite app_nil_r; reflexivity|].
      intros p Hp. pose proof (run_timely st dt OK j a k (l ++ [DData i ot ports data]) s _ PS HR H l i ot ports data [] eq_refl p Hp) as Ha.
      rewrite EL in Ha. simpl in Ha. apply Z.ltb_lt in Ha. apply Z.leb_gt. exact Ha.
    + destruct (existsb _ _); [|discriminate]. injection E as _ <- _. cbn [b_step ev_pushes]. rewrite app_nil_r.
      unfold dupd. destruct (Nat.eqb_spec j x) as [->|Hn]; [|auto]. cbn [persist setdata]. split; [exact IM|].
      rewrite iget_iset. destruct (Nat.eqb_spec a a0) as [->|]; [|exact IS]. destruct (Nat.eqb_spec k (w * nsims st + i)) as [Ek|]; [|exact IS].
      exfalso. apply (HN i w x a0 v); [apply in_or_app; right; left; reflexivity|auto].
Qed.

(* what a step is given: the newest output of the source due by the step time (the steps of j never go back in time, C02,
   so max(previous steps, t) is t), else the initial value *)
Theorem pushed_value_of_run pre t m post sp dsp s1 ds1 inp sf dsf :
  in_range st (pre ++ DBegin j t m :: post) -> no_setdata pre ->
  dfinal st dt (init_state st) (init_dstate dt) pre = Some (sp, dsp) ->
  dapply_gen false st dt (sp, dsp) (DBegin j t m) = DOk s1 ds1 (Some inp) ->
  dfinal st dt (init_state st) (init_dstate dt) (pre ++ DBegin j t m :: post) = Some (sf, dsf) ->
  iget a k inp = Some (mem (omax (lastb j pre) (thd t)) (stream dt j a k (pre ++ DBegin j t m :: post))).
Proof.
  intros HR HN Hpre HB Hall.
  assert (HRp : in_range st pre) by (intros i ot p d Hin; apply (HR i ot p d); apply in_or_app; left; exact Hin).
  destruct (memory_of_run pre sp dsp HRp HN Hpre) as [IM IS].
  unfold dapply_gen in HB. destruct (apply st sp _) as [s2|]; [|discriminate].
  destruct (get_input_data dt dsp j (thd t)) as [inp0 ds0] eqn:G. injection HB as _ _ ->.
  destruct (begin_value pre sp dsp t inp ds0 HRp Hpre IM IS G) as (V & _ & _). rewrite V. f_equal.
  (* the rest of the run only pushes entries due after t *)
  unfold stream. rewrite flat_map_app. cbn [flat_map ev_pushes]. fold (stream dt j a k pre). fold (stream dt j a k post).
  unfold mem, omax. set (M := match lastb j pre with Some T0 => Z.max T0 (thd t) | None => thd t end).
  rewrite filter_app. rewrite (filter_none _ (stream dt j a k post)); [rewrite app_nil_r; reflexivity|].
  intros p Hp.
  pose proof (run_timely st dt OK j a k _ sf dsf PS HR Hall) as HT.
  (* p is pushed by a DData event of post: it is above lastb of everything before it, which is at least M *)
  unfold stream in Hp. apply in_flat_map in Hp as (e & He & Hpe).
  destruct e as [e|i t' m'|i ot ports data|i w x a0 v]; try contradiction. cbn [ev_pushes] in Hpe.
  apply in_split in He as (post1 & post2 & ->).
  assert (E2 : pre ++ DBegin j t m :: post1 ++ DData i ot ports data :: post2 = (pre ++ DBegin j t m :: post1) ++ DData i ot ports data :: post2)
    by (rewrite <- app_assoc; reflexivity).
  pose proof (HT _ i ot ports data post2 E2 p Hpe) as Ha.
  assert (HM : exists T, lastb j (pre ++ DBegin j t m :: post1) = Some T /\ M <= T).
  { unfold lastb. rewrite fold_left_app. cbn [fold_left b_step]. rewrite Nat.eqb_refl. fold (lastb j pre).
    assert (Mono : forall l T0, exists T, fold_left (b_step j) l (Some T0) = Some T /\ T0 <= T).
    { induction l as [|e l IHl]; intros T0; [exists T0; split; [reflexivity|lia]|]. cbn [fold_left].
      destruct e as [e|i0 t0 m0|i0 ot0 p0 d0|i0 w0 x0 a1 v1]; cbn [b_step]; try apply IHl.
      destruct (Nat.eqb i0 j); [|apply IHl]. unfold omax. destruct (IHl (Z.max T0 (thd t0))) as (T & ET & Hle). exists T. split; [exact ET|lia]. }
    unfold omax. apply Mono. }
  destruct HM as (T & ET & HleM). rewrite ET in Ha. simpl in Ha. apply Z.ltb_lt in Ha. apply Z.leb_gt. lia.
Qed.

(* two interleavings: the same source outputs and the same earlier steps of j give the step the same value on the slot *)
Theorem pushed_persistent_same_in_two_runs t :
  forall preA mA postA spA dspA s1A ds1A inpA sfA dsfA, in_range st (preA ++ DBegin j t mA :: postA) -> no_setdata preA ->
  dfinal st dt (init_state st) (init_dstate dt) preA = Some (spA, dspA) ->
  dapply_gen false st dt (spA, dspA) (DBegin j t mA) = DOk s1A ds1A (Some inpA) ->
  dfinal st dt (init_state st) (init_dstate dt) (preA ++ DBegin j t mA :: postA) = Some (sfA, dsfA) ->
  forall preB mB postB spB dspB s1B ds1B inpB sfB dsfB, in_range st (preB ++ DBegin j t mB :: postB) -> no_setdata preB ->
  dfinal st dt (init_state st) (init_dstate dt) preB = Some (spB, dspB) ->
  dapply_gen false st dt (spB, dspB) (DBegin j t mB) = DOk s1B ds1B (Some inpB) ->
  dfinal st dt (init_state st) (init_dstate dt) (preB ++ DBegin j t mB :: postB) = Some (sfB, dsfB) ->
  produced k (preA ++ DBegin j t mA :: postA) = produced k (preB ++ DBegin j t mB :: postB) ->
  (forall t', begins_of j preA t' <-> begins_of j preB t') ->
  iget a k inpA = iget a k inpB.
Proof.
  intros preA mA postA spA dspA s1A ds1A inpA sfA dsfA RA NA PA BA FA preB mB postB spB dspB s1B ds1B inpB sfB dsfB RB NB PB BB FB HP HB.
  rewrite (pushed_value_of_run preA t mA postA spA dspA s1A ds1A inpA sfA dsfA RA NA PA BA FA).
  rewrite (pushed_value_of_run preB t mB postB spB dspB s1B ds1B inpB sfB dsfB RB NB PB BB FB).
  rewrite (lastb_same j preA preB HB), !stream_produced, HP. reflexivity.
Qed.
End M.
