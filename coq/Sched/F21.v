(* Known finding F21 as a theorem about the model: deadlock-freedom (the statement of C05_progress_flat / C05_progress_one_group)
   is FALSE for scenarios whose simulators sit in different groups when lazy stepping is on.  Witness (corpus/findings/F21.json,
   in the model's numbering: simulator 0 in the root group, simulators 1, 2, 3 in one group): 1 triggers 3 and is triggered
   back by it over a weak connection (a same-time loop); in its second iteration 1 triggers 2 and the outside simulator 0,
   which triggers 2.  After the first iteration 1 waits lazily for its successor 0 to reach its sub-step, 0's progress is held
   by its triggering ancestor 1, and nothing can move.  The same schedule deadlocks the implementation. *)
From Coq Require Import ZArith List Bool Arith Lia.
Import ListNotations.
From MV Require Import Time.Spec Static.Groups Static.Connect Static.Build Sched.Timing Sched.Inv Sched.Link Sched.Live Sched.Final Sched.Quiet.
Open Scope Z_scope.

Definition f21_flags (w : bool) : cflags := mkF true true false true false 0 w false true.   (* an event output into a trigger input *)
Definition f21_scenario : scenario :=
  mkScen [None; Some 0%nat] (fun i => if Nat.eqb i 0 then 0%nat else 1%nat) (fun _ => EventBased) 4
    [mkConn 1 2 4 1 (f21_flags false) false 0; mkConn 1 0 4 1 (f21_flags false) false 0; mkConn 0 2 3 1 (f21_flags false) false 0;
     mkConn 1 3 3 1 (f21_flags false) false 0; mkConn 3 1 3 1 (f21_flags true) false 0]
    [(1%nat, 0)] 3 100 true true.
Definition f21_static : option static :=
  match prepare 100 f21_scenario with Prepared st _ _ _ => Some st | _ => None end.
Definition f21_events : list event :=
  [EvStart 0; EvStart 1; EvStart 2; EvStart 3; EvBegin 1 [0; 0] (-1); EvQuiesce; EvStep 1 None; EvQuiesce; EvData 1 0 [3%nat];
   EvBegin 3 [0; 0] (-1); EvQuiesce; EvStep 3 None; EvQuiesce; EvData 3 0 [3%nat]; EvQuiesce].
Definition st21 : static :=
  match prepare 100 f21_scenario with Prepared st _ _ _ => st | _ => static_of f21_scenario empty_tables [] end.
Definition s21 : state :=
  match run st21 (init_state st21) f21_events with Ok l => List.last l (init_state st21) | Err _ => init_state st21 end.

Lemma f21_prepared : match prepare 100 f21_scenario with Prepared _ _ _ _ => true | _ => false end = true.
Proof. vm_compute. reflexivity. Qed.
Lemma f21_run_ok : exists l, run st21 (init_state st21) f21_events = Ok l /\ s21 = List.last l (init_state st21).
Proof.
  unfold s21. destruct (run st21 (init_state st21) f21_events) as [l|e] eqn:E.
  - exists l. split; reflexivity.
  - exfalso. assert (H : match run st21 (init_state st21) f21_events with Ok _ => true | Err _ => false end = true) by (vm_compute; reflexivity).
    rewrite E in H. discriminate.
Qed.

Definition phase_tag (p : phase) : nat :=
  match p with NotStarted => 0 | Sleep _ => 1 | WaitDeps _ => 2 | InStep => 3 | InData => 4 | Done => 5 end%nat.

(* no scheduler move is accepted in a state in which no simulator is enabled and none is waiting to be started *)
Lemma no_move_from_facts (st : static) (s : state) (n : nat) : nsims st = n ->
  (forall i, (i < n)%nat -> begin_enabled st s i = false) -> (forall i, (i < n)%nat -> pc (s i) <> NotStarted) ->
  forall e, scheduler_move st e -> exists er, apply st s e = Err er.
Proof.
  intros Hn Hen Hns e He.
  destruct e as [i|i t m|i nxt|i ot ports| |i|i]; simpl in He; try contradiction; rewrite Hn in He.
  - cbn [apply]. specialize (Hns i He). destruct (pc (s i)); try (eexists; reflexivity). contradiction.
  - cbn [apply]. rewrite (Hen i He). cbn [negb]. eexists; reflexivity.
  - cbn [apply]. rewrite (Hen i He). cbn [negb]. eexists; reflexivity.
Qed.

Lemma quiet_from_tags (s : state) : (forall j, phase_tag (pc (s j)) = 0 \/ phase_tag (pc (s j)) = 1 \/ phase_tag (pc (s j)) = 2 \/ phase_tag (pc (s j)) = 5)%nat -> Quiet s.
Proof. intros H j. specialize (H j). destruct (pc (s j)); simpl in *; try reflexivity; destruct H as [H|[H|[H|H]]]; discriminate. Qed.

Lemma f21_tags : forall j, (phase_tag (pc (s21 j)) = 0 \/ phase_tag (pc (s21 j)) = 1 \/ phase_tag (pc (s21 j)) = 2 \/ phase_tag (pc (s21 j)) = 5)%nat.
Proof.
  intros j. destruct j as [|[|[|[|j]]]].
  - right. left. vm_compute. reflexivity.
  - right. right. left. vm_compute. reflexivity.
  - right. left. vm_compute. reflexivity.
  - right. left. vm_compute. reflexivity.
  - left. vm_compute. reflexivity.
Qed.

Lemma f21_not_enabled : forall i, (i < 4)%nat -> begin_enabled st21 s21 i = false.
Proof. intros i Hi. destruct i as [|[|[|[|i]]]]; try lia; vm_compute; reflexivity. Qed.
Lemma f21_started : forall i, (i < 4)%nat -> pc (s21 i) <> NotStarted.
Proof.
  intros i Hi H. assert (T : phase_tag (pc (s21 i)) = 0%nat) by (rewrite H; reflexivity). clear H.
  destruct i as [|[|[|[|i]]]]; try lia; vm_compute in T; discriminate.
Qed.
Lemma f21_not_done : pc (s21 0%nat) <> Done.
Proof. intros H. assert (T : phase_tag (pc (s21 0%nat)) = 5%nat) by (rewrite H; reflexivity). vm_compute in T. discriminate. Qed.
Lemma f21_nsims : nsims st21 = 4%nat /\ lazy st21 = true.
Proof. vm_compute. split; reflexivity. Qed.

(* the refutation: a reachable state in which nothing is in flight, not every simulator is done, and the scheduler has no move *)
Theorem progress_across_groups_with_lazy_stepping_refuted :
  exists st s, lazy st = true /\ reached st s /\ Quiet s /\ (exists i, (i < nsims st)%nat /\ pc (s i) <> Done) /\
               forall e, scheduler_move st e -> exists er, apply st s e = Err er.
Proof.
  exists st21, s21. destruct f21_nsims as (Hn & Hl).
  split; [exact Hl|]. split; [destruct f21_run_ok as (l & H1 & H2); exists f21_events, l; split; assumption|].
  split; [apply quiet_from_tags, f21_tags|].
  split; [exists 0%nat; split; [rewrite Hn; lia|exact f21_not_done]|].
  apply (no_move_from_facts st21 s21 4 Hn f21_not_enabled f21_started).
Qed.
