(* C05, "run() returns after finitely many steps": in every run from the initial state, the number of steps a simulator
   begins is at most  until * max_loop_iterations^(depth - 1).
   The steps of a simulator are strictly increasing (Sched/Strict.v), every tier of a begun step is non-negative (NN,
   below), its first tier is below until (Aux) and its sub-step tiers are below max_loop_iterations (the loop guard):
   the begun steps are distinct members of a finite box. *)
From Coq Require Import ZArith List Bool Arith Lia.
Import ListNotations.
From MV Require Import Time.Spec Time.Ord Time.Laws Sched.Timing Sched.Inv Sched.Init Sched.Wle Sched.Main Sched.Guards Sched.Strict Sched.Final Sched.Live Sched.Progress Sched.Quiet Sched.NoLost Sched.Certify.
Open Scope Z_scope.

Definition nn (c:time) : Prop := Forall (fun x => 0 <= x) c.

Lemma nn_zadd a b : nn a -> nn b -> nn (zadd a b).
Proof.
  intros Ha. revert b. induction Ha as [|x a Hx Ha IH]; intros b Hb; [constructor|].
  destruct Hb as [|y b Hy Hb]; simpl; [constructor|]. constructor; [lia|apply IH; exact Hb].
Qed.
Lemma nn_firstn n a : nn a -> nn (firstn n a).
Proof. intros H. apply Forall_forall. intros x Hx. eapply (proj1 (Forall_forall _ _) H). eapply In_firstn_in. exact Hx. Qed.
Lemma nn_skipn n a : nn a -> nn (skipn n a).
Proof.
  intros H. apply Forall_forall. intros x Hx. eapply (proj1 (Forall_forall _ _) H).
  rewrite <- (firstn_skipn n a). apply in_or_app. right. exact Hx.
Qed.
Lemma nn_act c d : nn c -> nonneg d = true -> nn (act c d).
Proof.
  intros Hc Hd. unfold nonneg in Hd. rewrite forallb_forall in Hd.
  assert (Ht : nn (itiers d)) by (apply Forall_forall; intros x Hx; apply Z.leb_le; apply Hd; exact Hx).
  unfold act. apply Forall_app. split; [apply nn_zadd; [exact Hc|apply nn_firstn; exact Ht]|apply nn_skipn; exact Ht].
Qed.
Lemma nn_repeat n : nn (repeat 0 n).
Proof. induction n; simpl; constructor; [lia|exact IHn]. Qed.
Lemma nn_thd c : nn c -> 0 <= thd c.
Proof. intros H. destruct H; simpl; lia. Qed.

Section B.
Variable st : static.
Hypothesis OK : static_ok st.
Hypothesis Htrig : forall i p dest d, In (dest,d) (trig st i p) -> nonneg d = true.
Hypothesis Hinit : forall i c, In c (init_nexts st i) -> nn c.

Lemma nn_world i v : 0 <= v -> nn (world_time st i v).
Proof. intros H. unfold world_time. constructor; [exact H|apply nn_repeat]. Qed.

Definition NN (s:state) : Prop := forall j c, In c (cands (s j)) -> nn c.

Lemma notify_cur ports : forall (s:state) i ott j, cur (notify st s i ott ports j) = cur (s j).
Proof.
  unfold notify. induction ports as [|p ports IH]; intros s i ott j; simpl; [reflexivity|].
  rewrite IH. generalize (trig st i p). intros l. revert s. induction l as [|[dest d] l IHl]; intros s; simpl; [reflexivity|].
  rewrite IHl. destruct (until st <=? thd (act ott d)); [reflexivity|apply cur_schedule].
Qed.

Lemma finish_cur (s:state) j ott ports s' i c : finish_step st s j ott ports = Ok s' -> cur (s' i) = Some c -> cur (s i) = Some c.
Proof.
  rewrite finish_step_eq. set (s1 := upd s j _).
  destruct (fold_left _ (seq 0 (nsims st)) _) as [s3|e] eqn:E; [|discriminate]. intros H Hc; injection H as <-.
  pose proof (wake_sleepers_same st (loop_eval st s3 j) i) as (_ & _ & W & _). rewrite W in Hc.
  pose proof (loop_eval_same st s3 j i) as (_ & _ & L & _). rewrite L in Hc.
  destruct (advance_all_fields st _ _ _ E) as (F & _ & _). destruct (F i) as (_ & _ & N & _). rewrite N in Hc.
  rewrite notify_cur in Hc. unfold s1 in Hc. rewrite upd_at in Hc.
  destruct (Nat.eqb_spec i j) as [->|]; [simpl in Hc; discriminate|exact Hc].
Qed.

Lemma apply_cur_origin s e s' i c : apply st s e = Ok s' -> cur (s' i) = Some c -> cur (s i) = Some c \/ In c (nexts (s i)).
Proof.
  intros H Hc. destruct e as [j | j t m | j nxt | j ot ports | | j | j]; simpl in H.
  - left. destruct (pc (s j)); try discriminate.
    destruct (advance st s j) as [s1|] eqn:E; [|discriminate]. injection H as <-.
    destruct (advance_fields _ _ _ _ E) as (F & _ & _).
    pose proof (wake_sleepers_same st (loop_eval st s1 j) i) as (_ & _ & W & _). rewrite W in Hc.
    pose proof (loop_eval_same st s1 j i) as (_ & _ & L & _). rewrite L in Hc. destruct (F i) as (_ & _ & N & _). rewrite N in Hc. exact Hc.
  - destruct (begin_enabled st s j); simpl in H; try discriminate.
    destruct (tmin (nexts (s j))) as [t'|] eqn:Et; try discriminate.
    destruct (teq t' t); simpl in H; try discriminate.
    destruct (teq t' (prog (s j))); simpl in H; try discriminate.
    destruct (loop_exceeded st t'); simpl in H; try discriminate.
    match type of H with (if ?b then _ else _) = _ => destruct b end; try discriminate.
    injection H as <-. rewrite upd_at in Hc. destruct (Nat.eqb_spec i j) as [->|Hij]; [|left; exact Hc].
    simpl in Hc. injection Hc as <-. right. apply tmin_spec in Et. tauto.
  - left. destruct (pc (s j)) eqn:Epc; try discriminate.
    destruct (cur (s j)) as [t|] eqn:Ecur; try discriminate.
    set (s1 := upd s j (mkSim InStep (prog (s j)) (nexts (s j)) (Some t) t (newer (s j)))) in H.
    assert (G1 : forall q, cur (s1 q) = cur (s q)).
    { intros q. unfold s1. rewrite upd_at. destruct (Nat.eqb_spec q j) as [->|]; [simpl; symmetry; exact Ecur|reflexivity]. }
    assert (Hgo : forall s2, (forall q, cur (s2 q) = cur (s q)) ->
              (if outreq st j
               then Ok (upd s2 j (mkSim InData (prog (s2 j)) (nexts (s2 j)) (cur (s2 j)) (last (s2 j)) (newer (s2 j))))
               else finish_step st s2 j t []) = Ok s' -> cur (s i) = Some c).
    { intros s2 G2 H2. destruct (outreq st j).
      - injection H2 as <-. rewrite upd_at in Hc. destruct (Nat.eqb_spec i j) as [->|]; [simpl in Hc|]; rewrite G2 in Hc; exact Hc.
      - rewrite <- G2. eapply finish_cur; eauto. }
    destruct nxt as [v|].
    + destruct (v <=? thd t); try discriminate.
      destruct (v <? until st); apply Hgo in H; auto. intros q. rewrite cur_schedule. apply G1.
    + destruct (timebased st j); try discriminate. apply Hgo in H; auto.
  - left. destruct (pc (s j)); try discriminate. destruct (cur (s j)) as [t|] eqn:Ecur; try discriminate.
    destruct (ot <? thd (last (s j))); try discriminate. eapply finish_cur; eauto.
  - left. destruct (existsb _ _); [discriminate|]. injection H as <-. exact Hc.
  - left. destruct (negb (begin_enabled st s j)); simpl in H; try discriminate.
    destruct (tmin (nexts (s j))); try discriminate. destruct (_ && _); try discriminate.
    injection H as <-. exact Hc.
  - destruct (pc (s j)); try discriminate. destruct (cur (s j)); discriminate.
Qed.

Lemma demanded_nn s e s' i c : Good st s -> NN s -> apply st s e = Ok s' -> demanded st s e i c -> nn c.
Proof.
  intros G HN H D. destruct G as ([_ HID] & _ & _).
  destruct e as [j | j t m | j nxt | j ot ports | | j | j]; simpl in D; try contradiction.
  - destruct nxt as [v|]; [|contradiction]. destruct D as (-> & -> & _). simpl in H.
    destruct (pc (s i)); try discriminate. destruct (cur (s i)) as [t|] eqn:Ecur; try discriminate.
    destruct (v <=? thd t) eqn:Ev; try discriminate. apply Z.leb_gt in Ev.
    assert (nn t) by (apply (HN i); unfold cands; rewrite Ecur; left; reflexivity).
    apply nn_world. pose proof (nn_thd _ H0). lia.
  - destruct D as (t & p & d & Hc & Hp & Hd & -> & _). simpl in H.
    destruct (pc (s j)) eqn:Epc; try discriminate. rewrite Hc in H.
    destruct (ot <? thd (last (s j))) eqn:Eo; try discriminate. apply Z.ltb_ge in Eo. rewrite (HID j t Epc Hc) in Eo.
    assert (Ht : nn t) by (apply (HN j); unfold cands; rewrite Hc; left; reflexivity).
    apply nn_act; [|eapply Htrig; eauto].
    destruct (ot =? thd t); [exact Ht|]. apply nn_world. pose proof (nn_thd _ Ht). lia.
Qed.

Theorem apply_nn s e s' : Good st s -> NN s -> apply st s e = Ok s' -> NN s'.
Proof.
  intros G HN H i c Hc. unfold cands in Hc. apply in_app_or in Hc as [Hc|Hc].
  - destruct (cur (s' i)) as [c'|] eqn:E; [|destruct Hc]. destruct Hc as [<-|[]].
    destruct (apply_cur_origin _ _ _ _ _ H E) as [A|A]; apply (HN i); unfold cands; [rewrite A; left; reflexivity|apply in_or_app; right; exact A].
  - destruct (apply_queue_origin st _ _ _ _ _ H Hc) as [A|A].
    + apply (HN i). unfold cands. apply in_or_app. right. exact A.
    + eapply demanded_nn; eauto.
Qed.

Lemma nn_init : NN (init_state st).
Proof. intros j c Hc. unfold cands in Hc. simpl in Hc. eapply Hinit; eauto. Qed.

(* an invariant (with Good) holds in every state of a run *)
Lemma run_all (P : state -> Prop) :
  (forall s e s', Good st s -> P s -> apply st s e = Ok s' -> P s') ->
  forall evs s l, Good st s -> P s -> run st s evs = Ok l -> forall p sp, nth_error (s :: l) p = Some sp -> Good st sp /\ P sp.
Proof.
  intros Hstep. induction evs as [|e r IH]; intros s l G HP H p sp Hp; simpl in H.
  - injection H as <-. destruct p as [|[|p]]; simpl in Hp; try discriminate. injection Hp as <-. auto.
  - destruct (apply st s e) as [s1|] eqn:E; [|discriminate].
    destruct (run st s1 r) as [l1|] eqn:E1; [|discriminate]. injection H as <-.
    destruct p as [|p]; [simpl in Hp; injection Hp as <-; auto|].
    simpl in Hp. eapply (IH s1 l1); eauto. eapply good_step; eauto.
Qed.

(* ---- the finite box ---- *)
Definition zrange (M:Z) : list Z := map Z.of_nat (seq 0 (Z.to_nat M)).
Fixpoint tuples (n:nat) (M:Z) : list (list Z) :=
  match n with O => [[]] | S n' => flat_map (fun x => map (cons x) (tuples n' M)) (zrange M) end.
Definition box (U M:Z) (D:nat) : list time :=
  match D with O => [] | S d => flat_map (fun x => map (cons x) (tuples d M)) (zrange U) end.

Lemma in_zrange x M : 0 <= x < M -> In x (zrange M).
Proof.
  intros H. unfold zrange. apply in_map_iff. exists (Z.to_nat x). split; [lia|]. apply in_seq. lia.
Qed.
Lemma in_tuples t M : Forall (fun x => 0 <= x < M) t -> In t (tuples (length t) M).
Proof.
  induction 1 as [|x t Hx Ht IH]; simpl; [left; reflexivity|].
  apply in_flat_map. exists x. split; [apply in_zrange; exact Hx|]. apply in_map. exact IH.
Qed.
Lemma length_flat_map_const {A B} (f : A -> list B) k l : (forall x, In x l -> length (f x) = k) -> length (flat_map f l) = (length l * k)%nat.
Proof.
  induction l as [|x l IH]; intros H; simpl; [reflexivity|].
  rewrite app_length, IH by (intros y Hy; apply H; right; exact Hy). rewrite (H x) by (left; reflexivity). reflexivity.
Qed.
Lemma length_zrange M : length (zrange M) = Z.to_nat M.
Proof. unfold zrange. rewrite map_length, seq_length. reflexivity. Qed.
Lemma length_tuples n M : length (tuples n M) = (Z.to_nat M ^ n)%nat.
Proof.
  induction n as [|n IH]; simpl; [reflexivity|].
  rewrite (length_flat_map_const _ (Z.to_nat M ^ n)%nat) by (intros x _; rewrite map_length; exact IH).
  rewrite length_zrange. reflexivity.
Qed.
Lemma length_box U M D : length (box U M D) = match D with O => 0%nat | S d => (Z.to_nat U * Z.to_nat M ^ d)%nat end.
Proof.
  destruct D as [|d]; [reflexivity|]. unfold box.
  rewrite (length_flat_map_const _ (Z.to_nat M ^ d)%nat) by (intros x _; rewrite map_length; apply length_tuples).
  rewrite length_zrange. reflexivity.
Qed.

Definition inbox (i:nat) (t:time) : Prop :=
  length t = depth st i /\ nn t /\ thd t < until st /\ (forall x, In x (tl t) -> x < maxloop st).

Lemma in_box i t : inbox i t -> In t (box (until st) (maxloop st) (depth st i)).
Proof.
  intros (Hl & Hn & Hu & Hm). destruct t as [|x r]; [pose proof (ok_depth st OK i); simpl in Hl; lia|].
  rewrite <- Hl. simpl. apply in_flat_map. exists x. inversion Hn as [|? ? Hx Hr]; subst. simpl in Hu.
  split; [apply in_zrange; lia|]. apply in_map.
  apply in_tuples. apply Forall_forall. intros y Hy. split; [eapply (proj1 (Forall_forall _ _) Hr); exact Hy|apply Hm; exact Hy].
Qed.

(* ---- counting the steps of one simulator ---- *)
Definition begun (i:nat) (evs : list event) : list time :=
  flat_map (fun e => match e with EvBegin j t _ => if Nat.eqb j i then [t] else [] | _ => [] end) evs.

Lemma in_begun i evs t : In t (begun i evs) -> exists q m, nth_error evs q = Some (EvBegin i t m).
Proof.
  induction evs as [|e r IH]; simpl; [intros []|]. intros H. apply in_app_or in H as [H|H].
  - destruct e as [j | j t' m | j nxt | j ot ports | | j | j]; try destruct H.
    destruct (Nat.eqb_spec j i) as [->|]; [|destruct H]. destruct H as [<-|[]]. exists 0%nat, m. reflexivity.
  - destruct (IH H) as (q & m & A). exists (S q), m. exact A.
Qed.

Lemma begun_nodup i evs : (forall p q t m u m', (p < q)%nat -> nth_error evs p = Some (EvBegin i t m) ->
     nth_error evs q = Some (EvBegin i u m') -> tlt t u = true) -> NoDup (begun i evs).
Proof.
  induction evs as [|e r IH]; intros H; simpl; [constructor|].
  assert (Hr : NoDup (begun i r)).
  { apply IH. intros p q t m u m' Hpq A B. apply (H (S p) (S q) t m u m'); [lia|exact A|exact B]. }
  destruct e as [j | j t' m | j nxt | j ot ports | | j | j]; try exact Hr.
  destruct (Nat.eqb_spec j i) as [->|]; [|exact Hr]. simpl. constructor; [|exact Hr].
  intros Hin. destruct (in_begun _ _ _ Hin) as (q & m' & A).
  pose proof (H 0%nat (S q) t' m t' m' ltac:(lia) eq_refl A) as X. rewrite tlt_irrefl in X. discriminate.
Qed.
End B.

(* Every simulator begins at most until * max_loop_iterations^(depth-1) steps, in every run from the initial state. *)
Theorem bounded_steps st : static_ok st -> static_ok2 st -> init_before_until st ->
  (forall i p dest d, In (dest,d) (trig st i p) -> nonneg d = true) ->
  (forall i c, In c (init_nexts st i) -> nn c) ->
  forall evs l i, (i < nsims st)%nat -> run st (init_state st) evs = Ok l ->
  (length (begun i evs) <= Z.to_nat (until st) * Z.to_nat (maxloop st) ^ (depth st i - 1))%nat.
Proof.
  intros OK OK2 IB Htrig Hinit evs l i Hi Hrun.
  pose proof (ok_depth st OK i) as Hd.
  assert (E : length (box (until st) (maxloop st) (depth st i)) = (Z.to_nat (until st) * Z.to_nat (maxloop st) ^ (depth st i - 1))%nat).
  { rewrite length_box. destruct (depth st i) as [|d]; [lia|]. replace (S d - 1)%nat with d by lia. reflexivity. }
  rewrite <- E. apply NoDup_incl_length.
  - apply begun_nodup. intros p q t m u m' Hpq A B.
    eapply (certified_strictly_increasing st OK OK2 evs l p q i); eauto.
  - intros t Ht. apply (in_box st OK). destruct (in_begun _ _ _ Ht) as (q & m & Hq).
    assert (Hlq : (q < length evs)%nat) by (apply nth_error_Some; congruence).
    destruct (run_split st _ _ _ q Hrun Hlq) as (sq & e & sq' & l2 & A & B & C & _).
    rewrite Hq in B. injection B as <-.
    destruct (run_all st OK (fun s => NN s /\ Aux st s)
                (fun s e s' G P H => conj (apply_nn st Htrig s e s' G (proj1 P) H) (apply_aux st s e s' (proj2 P) H))
                evs (init_state st) l (good_init st OK)
                (conj (nn_init st Hinit) (proj1 (proj2 (live_init st OK IB)))) Hrun q sq A) as (G & HN & HA).
    destruct (begin_facts _ _ _ _ _ _ C) as (t0 & _ & _ & Ht0 & _ & _ & _ & _).
    apply tmin_spec in Ht0 as [Hin _].
    destruct G as ([[HS _] _] & _ & _).
    split; [apply (HS i); unfold cands; apply in_or_app; right; exact Hin|].
    split; [apply (HN i); unfold cands; apply in_or_app; right; exact Hin|].
    split; [eapply aux_bound; eauto|]. eapply loop_guard_blocks; eauto.
Qed.

(* ---- the premises are decidable per scenario ---- *)
From MV Require Import Static.Build Sched.Link.
Definition check_bound (t : tables) : bool :=
  forallb (fun x : nat * nat * nat * interval => let '(i, p, dest, d) := x in nonneg d) (trig_entries t).

Lemma initial_nexts_nn sc i c : forallb (fun e : nat * Z => 0 <=? snd e) (sc_init sc) = true -> In c (initial_nexts sc i) -> nn c.
Proof.
  intros H. unfold initial_nexts.
  assert (G : forall l acc, forallb (fun e : nat * Z => 0 <=? snd e) l = true -> (forall x, In x acc -> nn x) ->
     forall x, In x (fold_left (fun acc (e : nat * Z) => if Nat.eqb (fst e) i then [snd e :: repeat 0%Z (sim_depth sc i - 1)] else acc) l acc) -> nn x).
  { induction l as [|e l IH]; intros acc Hl Hacc x Hx; simpl in *; [apply Hacc; exact Hx|].
    apply andb_true_iff in Hl as [He Hl]. apply (IH _ Hl) in Hx; [exact Hx|].
    destruct (Nat.eqb (fst e) i); [|exact Hacc]. intros y Hy. destruct Hy as [<-|[]]. constructor; [apply Z.leb_le; exact He|apply nn_repeat]. }
  apply G; [exact H|]. intros y Hy. destruct (sc_type sc i); simpl in Hy; try (destruct Hy as [<-|[]]; apply nn_repeat); destruct Hy.
Qed.

Theorem certified_bounded_steps sc t atab :
  check_static sc t atab = true -> check_static2 sc t = true -> check_bound t = true ->
  init_before_untilb (static_of sc t atab) = true ->
  let st := static_of sc t atab in
  forall evs l i, (i < nsims st)%nat -> run st (init_state st) evs = Ok l ->
  (length (begun i evs) <= Z.to_nat (until st) * Z.to_nat (maxloop st) ^ (depth st i - 1))%nat.
Proof.
  intros C1 C2 C3 C4 st. apply bounded_steps.
  - apply check_static_sound. exact C1.
  - apply check_static2_sound. exact C2.
  - apply init_before_untilb_sound. exact C4.
  - intros i p dest d Hin. pose proof (trig_in sc t atab i p dest d Hin) as T.
    unfold check_bound in C3. rewrite forallb_forall in C3. apply (C3 _ T).
  - intros i c Hc. unfold st, static_of in Hc; simpl in Hc. eapply initial_nexts_nn; [|exact Hc].
    unfold check_static in C1. repeat (apply andb_true_iff in C1 as [C1 ?]). assumption.
Qed.
