(* C07, main clause: max_advance is a sound promise.
   After BEGIN(i0, t, m) no step of i0 in the window (t, m] has an external cause.  "External cause" is made precise by
   a ghost component X (for every simulator the queued or in-flight steps that have a cause outside i0's control):
   at the BEGIN it holds every queued or in-flight step of every simulator except the step t of i0 itself; afterwards
   what an external step schedules (its next self-step, the steps its outputs trigger) is external, what a step that
   is not external schedules is not added.  X only grows, so a step that is not in X when it begins was demanded only
   by chains of outputs and self-schedules that start at i0's own steps at or after t.
   Theorem: every step c of i0 that is in X when it begins satisfies m < thd c. *)
From Coq Require Import ZArith List Bool Arith Lia.
Import ListNotations.
From MV Require Import Time.Spec Time.Ord Sched.Timing Sched.Inv Sched.Init Sched.Wle Sched.Main Sched.Guards Sched.Final Sched.Live.
Open Scope Z_scope.

Definition ext := nat -> list time.
Definition xadd (X:ext) (j:nat) (c:time) : ext := fun q => if Nat.eqb q j then c :: X q else X q.

Definition xnotify (st:static) (X:ext) (i:nat) (ott:time) (ports:list nat) : ext :=
  fold_left (fun X p => fold_left (fun X (dd:nat*interval) => let (dest,d) := dd in
                 let tt := act ott d in
                 if until st <=? thd tt then X else xadd X dest tt) (trig st i p) X) ports X.

(* the ghost update that goes with [apply st s e] *)
Definition xapply (st:static) (s:state) (X:ext) (e:event) : ext :=
  match e with
  | EvStep i (Some v) =>
      match cur (s i) with
      | Some c => if memT c (X i) && (v <? until st) then xadd X i (world_time st i v) else X
      | None => X end
  | EvData i ot ports =>
      match cur (s i) with
      | Some c => if memT c (X i) then xnotify st X i (if ot =? thd c then c else world_time st i ot) ports else X
      | None => X end
  | _ => X end.

Fixpoint xrun (st:static) (s:state) (X:ext) (evs:list event) : res (list (state * ext)) :=
  match evs with
  | [] => Ok []
  | e :: r => match apply st s e with
              | Ok s' => let X' := xapply st s X e in
                         match xrun st s' X' r with Ok l => Ok ((s', X') :: l) | Err x => Err x end
              | Err x => Err x end
  end.

(* erasure: the ghost component does not influence the run *)
Lemma xrun_erase st evs : forall s X l, xrun st s X evs = Ok l -> run st s evs = Ok (map fst l).
Proof.
  induction evs as [|e r IH]; intros s X l H; simpl in *.
  - injection H as <-. reflexivity.
  - destruct (apply st s e) as [s'|]; [|discriminate].
    destruct (xrun st s' (xapply st s X e) r) as [l1|] eqn:E; [|discriminate]. injection H as <-.
    rewrite (IH _ _ _ E). reflexivity.
Qed.
Lemma xrun_total st evs : forall s X l0, run st s evs = Ok l0 -> exists l, xrun st s X evs = Ok l /\ map fst l = l0.
Proof.
  induction evs as [|e r IH]; intros s X l0 H; simpl in *.
  - injection H as <-. exists []. auto.
  - destruct (apply st s e) as [s'|]; [|discriminate].
    destruct (run st s' r) as [l1|] eqn:E; [|discriminate]. injection H as <-.
    destruct (IH s' (xapply st s X e) l1 E) as (l & -> & <-). eexists. split; reflexivity.
Qed.

(* everything queued or in flight at the BEGIN, except the step of i0 that begins *)
Definition ext0 (s':state) (i0:nat) : ext := fun x => if Nat.eqb x i0 then nexts (s' x) else cands (s' x).

Lemma fold_min_le_in l : forall a x, In x l -> fold_left Z.min l a <= x.
Proof.
  induction l as [|y l IH]; intros a x Hx; simpl; [destruct Hx|].
  destruct Hx as [->|Hx]; [|apply IH; exact Hx].
  pose proof (fold_min_le l (Z.min a x)). lia.
Qed.

Lemma tle_thd' a b : tle a b = true -> a <> [] -> b <> [] -> thd a <= thd b.
Proof.
  unfold tle. destruct a as [|x a]; [congruence|]. destruct b as [|y b]; [congruence|]. intros H _ _. simpl in *.
  destruct (y <? x) eqn:E; [discriminate|]. apply Z.ltb_ge in E. exact E.
Qed.
Lemma ne_of_len (t:time) n : length t = n -> (1 <= n)%nat -> t <> [].
Proof. intros H H1 ->. simpl in H. lia. Qed.

Section T.
Variable st : static.
Hypothesis OK : static_ok st.
Variable i0 : nat.
Variable m : Z.

(* far(x, c): the step c of x cannot reach i0 inside the window *)
Definition far (x:nat) (c:time) : Prop :=
  length c = depth st x /\ (forall d, In (x,d) (anc st i0) -> m < thd (act c d)) /\ (x = i0 -> m < thd c).
Definition J (X:ext) : Prop := forall x c, In c (X x) -> far x c.

Lemma J_xadd X j c : J X -> far j c -> J (xadd X j c).
Proof.
  intros HJ Hf x c' Hin. unfold xadd in Hin. destruct (Nat.eqb_spec x j) as [->|Hx]; [|apply HJ; exact Hin].
  destruct Hin as [<-|Hin]; [exact Hf|apply HJ; exact Hin].
Qed.

Lemma thd_act_mono x c c' d : In (x,d) (anc st i0) -> length c = depth st x -> length c' = depth st x ->
  tle c c' = true -> thd (act c d) <= thd (act c' d).
Proof.
  intros Hd Hc Hc' Hle. pose proof (ok_depth st OK i0) as H1.
  apply tle_thd'; [apply act_mono; [congruence|exact Hle]| |]; eapply ne_of_len; try exact H1;
    eapply (ok_anc_shape st OK); eauto.
Qed.

(* a later step of the same simulator is far when the earlier one is *)
Lemma far_later x c c' : far x c -> length c' = depth st x -> tle c c' = true -> far x c'.
Proof.
  intros (Hl & Ha & Hs) Hl' Hle. split; [exact Hl'|]. split.
  - intros d Hd. specialize (Ha d Hd). pose proof (thd_act_mono x c c' d Hd Hl Hl' Hle). lia.
  - intros Hx. specialize (Hs Hx). pose proof (ok_depth st OK x) as H1.
    assert (thd c <= thd c') by (apply tle_thd'; [exact Hle| |]; eapply ne_of_len; eauto). lia.
Qed.

(* what a far step triggers is far *)
Lemma far_trigger x c p dest d1 : far x c -> In (dest,d1) (trig st x p) -> far dest (act c d1).
Proof.
  intros (Hl & Ha & Hs) Ht. split; [eapply (ok_trig_shape st OK); eauto|]. split.
  - intros d2 Hd2. destruct (ok_dist_tri st OK x p dest d1 i0 d2 Ht Hd2) as (d3 & Hd3 & Hle).
    specialize (Ha d3 Hd3). specialize (Hle c Hl). pose proof (ok_depth st OK i0) as H1.
    assert (thd (act c d3) <= thd (act (act c d1) d2)).
    { apply tle_thd'; [exact Hle| |]; eapply ne_of_len; try exact H1.
      - eapply (ok_anc_shape st OK); eauto.
      - eapply (ok_anc_shape st OK); eauto. eapply (ok_trig_shape st OK); eauto. }
    lia.
  - intros ->. destruct (ok_dist_edge st OK x p i0 d1 Ht) as (d' & Hd' & Hle).
    specialize (Ha d' Hd'). specialize (Hle c Hl). pose proof (ok_depth st OK i0) as H1.
    assert (thd (act c d') <= thd (act c d1)).
    { apply tle_thd'; [exact Hle| |]; eapply ne_of_len; try exact H1.
      - eapply (ok_anc_shape st OK); eauto.
      - eapply (ok_trig_shape st OK); eauto. }
    lia.
Qed.

Lemma J_xnotify X i ott ports : J X -> far i ott -> J (xnotify st X i ott ports).
Proof.
  intros HJ Hf. unfold xnotify. revert X HJ. induction ports as [|p ports IH]; intros X HJ; simpl; [exact HJ|].
  apply IH. assert (G : forall l, (forall dd, In dd l -> In dd (trig st i p)) -> forall X, J X ->
     J (fold_left (fun X (dd:nat*interval) => let (dest,d) := dd in let tt := act ott d in
                     if until st <=? thd tt then X else xadd X dest tt) l X)).
  { induction l as [|[dest d] l IHl]; intros Hsub X0 HJ0; simpl; [exact HJ0|].
    apply IHl; [intros dd Hdd; apply Hsub; right; exact Hdd|].
    destruct (until st <=? thd (act ott d)); [exact HJ0|].
    apply J_xadd; [exact HJ0|]. eapply far_trigger; eauto. apply Hsub. left; reflexivity. }
  apply G; auto.
Qed.

Theorem xapply_J s X e s' : Good st s -> J X -> apply st s e = Ok s' -> J (xapply st s X e).
Proof.
  intros G HJ H. destruct G as ([[HS _] HID] & _ & _).
  destruct e as [i | i t mm | i nxt | i ot ports | | i | i]; simpl; try exact HJ.
  - (* STEP *)
    destruct nxt as [v|]; [|exact HJ].
    destruct (cur (s i)) as [c|] eqn:Ec; [|exact HJ].
    destruct (memT c (X i) && (v <? until st)) eqn:Em; [|exact HJ].
    apply andb_true_iff in Em as [Em _]. apply memT_in in Em.
    simpl in H. destruct (pc (s i)) eqn:Epc; try discriminate. rewrite Ec in H.
    destruct (v <=? thd c) eqn:Ev; [discriminate|]. apply Z.leb_gt in Ev.
    apply J_xadd; [exact HJ|]. pose proof (HJ i c Em) as Hf.
    eapply far_later; [exact Hf|apply length_world; apply (ok_depth st OK)|].
    apply world_time_gt; [apply (ok_depth st OK)|apply Hf|exact Ev].
  - (* DATA *)
    destruct (cur (s i)) as [c|] eqn:Ec; [|exact HJ].
    destruct (memT c (X i)) eqn:Em; [|exact HJ]. apply memT_in in Em.
    simpl in H. destruct (pc (s i)) eqn:Epc; try discriminate. rewrite Ec in H.
    destruct (ot <? thd (last (s i))) eqn:Eo; [discriminate|]. apply Z.ltb_ge in Eo.
    rewrite (HID i c Epc Ec) in Eo.
    apply J_xnotify; [exact HJ|]. pose proof (HJ i c Em) as Hf.
    destruct (ot =? thd c) eqn:Eq; [exact Hf|]. apply Z.eqb_neq in Eq.
    eapply far_later; [exact Hf|apply length_world; apply (ok_depth st OK)|].
    apply world_time_gt; [apply (ok_depth st OK)|apply Hf|lia].
Qed.

Lemma xrun_J evs : forall s X l, Good st s -> J X -> xrun st s X evs = Ok l ->
  forall s2 X2, In (s2,X2) l -> Good st s2 /\ J X2.
Proof.
  induction evs as [|e r IH]; intros s X l G HJ H s2 X2 Hin; simpl in H.
  - injection H as <-. destruct Hin.
  - destruct (apply st s e) as [s'|] eqn:E; [|discriminate].
    destruct (xrun st s' (xapply st s X e) r) as [l1|] eqn:E1; [|discriminate]. injection H as <-.
    pose proof (good_step st OK _ _ _ G E) as G'. pose proof (xapply_J _ _ _ _ G HJ E) as HJ'.
    destruct Hin as [Hin|Hin]; [injection Hin as <- <-; auto|]. eapply IH; eauto.
Qed.
End T.

(* the promise computed at the BEGIN establishes the invariant *)
Lemma J_ext0 st (OK : static_ok st) s i0 t m s' : Good st s -> apply st s (EvBegin i0 t m) = Ok s' -> J st i0 m (ext0 s' i0).
Proof.
  intros G H. pose proof (good_step st OK _ _ _ G H) as ([[HS HL] _] & _ & _).
  destruct (begin_facts _ _ _ _ _ _ H) as (t0 & _ & _ & _ & _ & _ & _ & Hm).
  assert (Hanc : forall x d c, In (x,d) (anc st i0) -> In c (cands (s' x)) -> m < thd (act c d)).
  { intros x d c Hd Hc.
    assert (Hmin : forall c1, (tmin (nexts (s' x)) = Some c1 \/ cur (s' x) = Some c1) -> m < thd (act c1 d)).
    { intros c1 Hc1. rewrite Hm. unfold max_advance.
      assert (In (thd (act c1 d)) (map thd (anc_cands st s' i0) ++ map thd (opt_list (tmin (nexts (s' i0)))))).
      { apply in_or_app. left. apply in_map. unfold anc_cands. apply in_flat_map. exists (x,d). split; [exact Hd|].
        apply (in_map (fun c0 : time => act c0 d)). apply in_or_app. destruct Hc1 as [E|E]; rewrite E; [left|right]; left; reflexivity. }
      pose proof (fold_min_le_in _ (until st + 1) _ H0). lia. }
    unfold cands in Hc. apply in_app_or in Hc as [Hc|Hc].
    - destruct (cur (s' x)) as [c1|] eqn:E; [|destruct Hc]. destruct Hc as [<-|[]]. apply Hmin. right; reflexivity.
    - destruct (tmin (nexts (s' x))) as [mn|] eqn:E; [|apply tmin_none in E; rewrite E in Hc; destruct Hc].
      pose proof (tmin_spec _ _ E) as [Hin Hle]. specialize (Hle c Hc). specialize (Hmin mn (or_introl eq_refl)).
      assert (L1 : length mn = depth st x) by (apply (HS x); unfold cands; apply in_or_app; right; exact Hin).
      assert (L2 : length c = depth st x) by (apply (HS x); unfold cands; apply in_or_app; right; exact Hc).
      pose proof (thd_act_mono st OK i0 x mn c d Hd L1 L2 Hle). lia. }
  intros x c Hin. unfold ext0 in Hin.
  assert (Hc : In c (cands (s' x))).
  { destruct (Nat.eqb x i0); [unfold cands; apply in_or_app; right|]; exact Hin. }
  split; [apply (HS x); exact Hc|]. split; [intros d Hd; eapply Hanc; eauto|].
  intros ->. rewrite Nat.eqb_refl in Hin.
  destruct (tmin (nexts (s' i0))) as [mn|] eqn:E; [|apply tmin_none in E; rewrite E in Hin; destruct Hin].
  pose proof (tmin_spec _ _ E) as [Hmn Hle]. specialize (Hle c Hin).
  assert (m < thd mn).
  { rewrite Hm. unfold max_advance. rewrite E.
    assert (In (thd mn) (map thd (anc_cands st s' i0) ++ map thd (opt_list (Some mn)))) by (apply in_or_app; right; left; reflexivity).
    pose proof (fold_min_le_in _ (until st + 1) _ H0). lia. }
  pose proof (ok_depth st OK i0) as H1.
  assert (thd mn <= thd c).
  { apply tle_thd'; [exact Hle| |]; eapply ne_of_len; try exact H1; apply (HS i0); unfold cands; apply in_or_app; right; assumption. }
  lia.
Qed.

(* Main clause of C07 for whole runs: after BEGIN(i0, t, m), however the run continues, every step of i0 that has an
   external cause begins after m. *)
Theorem max_advance_sound st (OK : static_ok st) s i0 t m s' :
  reached st s -> apply st s (EvBegin i0 t m) = Ok s' ->
  forall evs l, xrun st s' (ext0 s' i0) evs = Ok l ->
  forall s2 X2 c m2 s3, In (s2, X2) ((s', ext0 s' i0) :: l) -> apply st s2 (EvBegin i0 c m2) = Ok s3 ->
  In c (X2 i0) -> m < thd c.
Proof.
  intros R H evs l Hrun s2 X2 c m2 s3 Hin Hb Hc.
  pose proof (reached_good st OK s R) as G. pose proof (good_step st OK _ _ _ G H) as G'.
  pose proof (J_ext0 st OK _ _ _ _ _ G H) as J0.
  assert (HJ : J st i0 m X2).
  { destruct Hin as [E|Hin]; [injection E as <- <-; exact J0|].
    eapply (xrun_J st OK i0 m evs); eauto. }
  apply (HJ i0 c Hc). reflexivity.
Qed.
