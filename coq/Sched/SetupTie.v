(* Tie between the generated set-up functions (Gen/SchedulerFns.v: the time fields of a new SimRunner, World.set_initial_event,
   MosaikRemote.set_event - regenerated from mosaik/simmanager.py and mosaik/scenario.py on every run) and the models:
   the initial state (Sched/Timing.v init_state), the initial queues of a scenario (Sched/Link.v initial_nexts) and the
   decision on an external event (Ext/RT.v set_event). *)
From Coq Require Import ZArith List Bool Arith Lia.
Import ListNotations.
From MV Require Import Time.Spec Time.Ord Static.Groups Sched.Timing Sched.Guards Sched.Link Sched.GenView Gen.SchedulerFns Sched.SchedTie Ext.RT.
Open Scope Z_scope.

Lemma act_world d t : (1 <= d)%nat -> act [t] (mkI 1 1 (repeat 0 d)) = t :: repeat 0 (d - 1).
Proof.
  intros H. unfold act. simpl. destruct d as [|n]; [lia|]. simpl. rewrite Z.add_0_r, Nat.sub_0_r. reflexivity.
Qed.

Lemma fold_left_ext_in {A B} (f g : A -> B -> A) l : (forall a b, f a b = g a b) -> forall a, fold_left f l a = fold_left g l a.
Proof. intros H. induction l as [|b l IH]; intros a; simpl; [reflexivity|]. rewrite H. apply IH. Qed.

(* the queue a simulator starts the run with: the constructor's queue, then every set_initial_event call naming it, in call order *)
Theorem tie_initial_nexts sc i : (1 <= sim_depth sc i)%nat ->
  initial_nexts sc i =
  fold_left (fun q (e : nat * Z) => if Nat.eqb (fst e) i
                                     then SchedulerFns.set_initial_event (runner_from_world_time (sim_depth sc i)) q (snd e) else q)
            (sc_init sc)
            (runner_next_steps (match sc_type sc i with EventBased => true | _ => false end) (sim_depth sc i)).
Proof.
  intros H. unfold initial_nexts, runner_next_steps, SchedulerFns.set_initial_event, runner_from_world_time.
  destruct (sc_type sc i); (apply fold_left_ext_in; intros a e; rewrite act_world by exact H; reflexivity).
Qed.

(* the other time fields of a new runner are the model's initial state *)
Theorem tie_initial_state st i :
  init_state st i = mkSim NotStarted (runner_progress (depth st i)) (init_nexts st i) None (runner_last_step (depth st i)) false.
Proof. reflexivity. Qed.

(* an external event: refused outside real-time mode, queued (through schedule_step, at the world time) before until, ignored
   with a warning from until on *)
Theorem tie_set_event rt t until d : (1 <= d)%nat ->
  match remote_set_event (match rt with Some _ => true | None => false end) t until (runner_from_world_time d) with
  | None => RT.set_event rt t until = EventRefused
  | Some None => RT.set_event rt t until = EventIgnoredWithWarning
  | Some (Some q) => RT.set_event rt t until = EventScheduled /\ q = t :: repeat 0 (d - 1)
  end.
Proof.
  intros H. unfold remote_set_event, RT.set_event, runner_from_world_time. destruct rt as [r|]; cbn [negb]; [|reflexivity].
  destruct (t <? until); [|reflexivity]. split; [reflexivity|apply act_world; exact H].
Qed.

(* one round of next_step_settled's loop is the model's loop_eval: the simulator is done when its progress has reached until,
   its next step is settled when the head of its queue equals its progress, and otherwise it sleeps until its progress reaches
   the head of the queue - but not beyond the end of the run - or a newer step arrives *)
Theorem tie_next_step_settled st s i : (1 <= depth st i)%nat ->
  loop_eval st s i =
  let x := s i in
  match next_step_settled_round (prog x) (nexts x) (until st) (mkI 1 1 (repeat 0 (depth st i))) with
  | SettleDone => upd s i (mkSim Done (prog x) (nexts x) (cur x) (last x) (newer x))
  | Settled m => upd s i (mkSim (WaitDeps m) (prog x) (nexts x) (cur x) (last x) (newer x))
  | SettleWait aw => upd s i (mkSim (Sleep aw) (prog x) (nexts x) (cur x) (last x) false)
  end.
Proof.
  intros H. unfold loop_eval, next_step_settled_round, heap0. cbv zeta.
  rewrite act_world by exact H. fold (world_time st i (until st)). fold (until_t st i).
  replace (negb (thd (prog (s i)) <? until st)) with (until st <=? thd (prog (s i))) by (rewrite Z.leb_antisym; reflexivity).
  destruct (until st <=? thd (prog (s i))); [reflexivity|].
  destruct (tmin (nexts (s i))) as [m|]; [|reflexivity].
  destruct (teq m (prog (s i))); [reflexivity|].
  unfold sleep_until.
  destruct (tlt_trichotomy m (until_t st i)) as [Hlt|[Heq|Hgt]].
  - rewrite Hlt. rewrite (tlt_asym _ _ Hlt). reflexivity.
  - subst m. rewrite tlt_irrefl. reflexivity.
  - rewrite Hgt. rewrite (tlt_asym _ _ Hgt). reflexivity.
Qed.

(* notify_dependencies is the scheduling part of the model's finish_step: the ports the model is given are those keys of
   sim.triggers (in the dict's order) that are present in the reply *)
Theorem tie_notify_dependencies st i ot produced : forall ports_all s,
  notify_dependencies (until st) (map (fun p => (p, trig st i p)) ports_all) produced ot s =
  fold_left (fun s p => fold_left (fun s (dd : nat * interval) => let (dest, d) := dd in
                 let tt := act ot d in
                 if until st <=? thd tt then s else schedule s dest tt) (trig st i p) s)
            (filter (fun p => existsb (Nat.eqb p) produced) ports_all) s.
Proof.
  unfold notify_dependencies. induction ports_all as [|p ps IH]; intros s; [reflexivity|].
  cbn [map fold_left filter]. destruct (existsb (Nat.eqb p) produced); [|apply IH].
  cbn [fold_left]. rewrite IH. f_equal.
  apply fold_left_ext_in. intros a [dest d]. cbv zeta. rewrite Z.ltb_antisym. destruct (until st <=? thd (act ot d)); reflexivity.
Qed.

(* the bound of C07 stated of the regenerated get_max_advance itself *)
Lemma generated_max_advance_le_until st s i : get_max_advance (view st s i) (nexts (s i)) (cur (s i)) (until st) <= until st.
Proof. rewrite tie_get_max_advance. apply max_advance_le_until. Qed.
