(* Tie between the generated set-up functions (Gen/SchedulerFns.v: the time fields of a new SimRunner, World.set_initial_event,
   MosaikRemote.set_event - regenerated from mosaik/simmanager.py and mosaik/scenario.py on every run) and the models:
   the initial state (Sched/Timing.v init_state), the initial queues of a scenario (Sched/Link.v initial_nexts) and the
   decision on an external event (Ext/RT.v set_event). *)
From Coq Require Import ZArith List Bool Arith Lia.
Import ListNotations.
From MV Require Import Time.Spec Static.Groups Sched.Timing Sched.Link Sched.GenView Gen.SchedulerFns Ext.RT.
Open Scope Z_scope.

Lemma act_world d t : (1 <= d)%nat -> act [t] (mkI 1 1 (repeat 0 d)) = t :: repeat 0 (d - 1).
Proof.
  intros H. unfold act. simpl. destruct d as [|n]; [lia|]. simpl. rewrite Z.add_0_r, Nat.sub_0_r. reflexivity.
Qed.

Lemma fold_left_ext_in {A B} (f g : A -> B -> A) l : (forall a b, f a b = g a b) -> forall a, fold_left f l a = fold_left g l a.
Proof. intros H. induction l as [|b l IH]; intros a; simpl; [reflexivity|]. rewrite H. apply IH. Qed.

(* the queue a simulator starts the run with: the constructor's queue, then every set_initial_event call naming it, in call order *)
Theorem tie_initial_nexts sc i : (1 <= sim_depth sc i)%nat ->
  initial_nexts sc i =
  fold_left (fun q (e : nat * Z) => if Nat.eqb (fst e) i
                                     then SchedulerFns.set_initial_event (runner_from_world_time (sim_depth sc i)) q (snd e) else q)
            (sc_init sc)
            (runner_next_steps (match sc_type sc i with EventBased => true | _ => false end) (sim_depth sc i)).
Proof.
  intros H. unfold initial_nexts, runner_next_steps, SchedulerFns.set_initial_event, runner_from_world_time.
  destruct (sc_type sc i); (apply fold_left_ext_in; intros a e; rewrite act_world by exact H; reflexivity).
Qed.

(* the other time fields of a new runner are the model's initial state *)
Theorem tie_initial_state st i :
  init_state st i = mkSim NotStarted (runner_progress (depth st i)) (init_nexts st i) None (runner_last_step (depth st i)) false.
Proof. reflexivity. Qed.

(* an external event: refused outside real-time mode, queued (through schedule_step, at the world time) before until, ignored
   with a warning from until on *)
Theorem tie_set_event rt t until d : (1 <= d)%nat ->
  match remote_set_event (match rt with Some _ => true | None => false end) t until (runner_from_world_time d) with
  | None => RT.set_event rt t until = EventRefused
  | Some None => RT.set_event rt t until = EventIgnoredWithWarning
  | Some (Some q) => RT.set_event rt t until = EventScheduled /\ q = t :: repeat 0 (d - 1)
  end.
Proof.
  intros H. unfold remote_set_event, RT.set_event, runner_from_world_time. destruct rt as [r|]; cbn [negb]; [|reflexivity].
  destruct (t <? until); [|reflexivity]. split; [reflexivity|apply act_world; exact H].
Qed.
