(* Timing core of the scheduler (mosaik/scheduler.py, simmanager.SimRunner.schedule_step), without data values.
   One constructor of [event] per atomic block of sim_process (DESIGN.md section 1).  Executable model; it is
   extracted and replayed against traces of the real scheduler (trace validation), proofs are in Sched/Inv.v.
   The static tables (delays, triggers, ancestors) are those built by World.connect / cache_triggering_ancestors. *)
From Coq Require Import ZArith List Bool Arith.
Import ListNotations.
From MV Require Import Time.Spec.
Open Scope Z_scope.

Inductive phase := NotStarted | Sleep (await : time) | WaitDeps (t : time) | InStep | InData | Done.
Record sim := mkSim { pc : phase; prog : time; nexts : list time; cur : option time; last : time; newer : bool }.
Definition state := nat -> sim.
Definition upd (s:state) (i:nat) (v:sim) : state := fun j => if Nat.eqb j i then v else s j.

Record static := mkStatic {
  nsims : nat;
  depth : nat -> nat;
  init_nexts : nat -> list time;
  indel : nat -> list (nat * interval);
  succ_lazy : nat -> list (nat * interval);
  succ_wait : nat -> list (nat * interval);
  trig : nat -> nat -> list (nat * interval);
  anc : nat -> list (nat * interval);
  outreq : nat -> bool;
  timebased : nat -> bool;
  until : Z; maxloop : Z; lazy : bool }.

Definition world_time (st:static) (i:nat) (t:Z) : time := t :: repeat 0 (depth st i - 1).
Definition until_t st i := world_time st i (until st).

Definition opt_list {A} (o : option A) : list A := match o with Some x => [x] | None => [] end.
Fixpoint memT (x:time) (l:list time) : bool := match l with [] => false | y::r => teq x y || memT x r end.
Fixpoint removeT (x:time) (l:list time) : list time := match l with [] => [] | y::r => if teq x y then r else y :: removeT x r end.

Inductive err := EBackwards (i:nat) | EPast (i:nat) | EReply (i:nat) | EOutTime (i:nat) | ENotEnabled (i:nat) | EMaxAdv (i:nat) | ELoopExpected (i:nat) | EBadEvent.
Inductive res (A:Type) := Ok (a:A) | Err (e:err).
Arguments Ok {A}. Arguments Err {A}.

Definition init_state (st:static) : state :=
  fun i => mkSim NotStarted (repeat 0 (depth st i)) (init_nexts st i) None ((-1) :: repeat 0 (depth st i - 1)) false.

Definition schedule (s:state) (i:nat) (t:time) : state :=
  let x := s i in
  if memT t (nexts x) then s else
  let earlier := match tmin (nexts x) with None => true | Some m => tlt t m end in
  upd s i (mkSim (pc x) (prog x) (t :: nexts x) (cur x) (last x) (if earlier then true else newer x)).

Definition anc_cands (st:static) (s:state) (i:nat) : list time :=
  flat_map (fun ad : nat*interval => let (a,d) := ad in
     map (fun c => act c d) (opt_list (tmin (nexts (s a))) ++ opt_list (cur (s a)))) (anc st i).
Definition new_progress (st:static) (s:state) (i:nat) : time :=
  let own := opt_list (tmin (nexts (s i))) ++ opt_list (cur (s i)) in
  match tmin (anc_cands st s i ++ own ++ [until_t st i]) with Some m => m | None => until_t st i end.
Definition advance (st:static) (s:state) (i:nat) : res state :=
  let p := new_progress st s i in
  let x := s i in
  if tlt p (prog x) then Err (EBackwards i) else Ok (upd s i (mkSim (pc x) p (nexts x) (cur x) (last x) (newer x))).

(* next_step_settled waits for the earliest queued step, but not beyond the end of the simulation *)
Definition sleep_until (st:static) (i:nat) (m:time) : time := if tlt (until_t st i) m then until_t st i else m.
Definition loop_eval (st:static) (s:state) (i:nat) : state :=
  let x := s i in
  if until st <=? thd (prog x) then upd s i (mkSim Done (prog x) (nexts x) (cur x) (last x) (newer x))
  else match tmin (nexts x) with
       | Some m => if teq m (prog x) then upd s i (mkSim (WaitDeps m) (prog x) (nexts x) (cur x) (last x) (newer x))
                   else upd s i (mkSim (Sleep (sleep_until st i m)) (prog x) (nexts x) (cur x) (last x) false)
       | None => upd s i (mkSim (Sleep (until_t st i)) (prog x) (nexts x) (cur x) (last x) false)
       end.
Definition wake_sleepers (st:static) (s:state) : state :=
  fold_left (fun s i => match pc (s i) with
                        | Sleep aw => if tle aw (prog (s i)) || newer (s i) then loop_eval st s i else s
                        | _ => s end) (seq 0 (nsims st)) s.

Definition deps_ok (st:static) (s:state) (i:nat) (t:time) : bool :=
  forallb (fun kd : nat*interval => let (k,d) := kd in tlt t (act (prog (s k)) d)) (indel st i) &&
  forallb (fun jd : nat*interval => let (j,d) := jd in tle (act t d) (prog (s j))) (succ_wait st i) &&
  (if lazy st then forallb (fun jd : nat*interval => let (j,d) := jd in tle (act t d) (prog (s j))) (succ_lazy st i) else true).
Definition begin_enabled (st:static) (s:state) (i:nat) : bool :=
  match pc (s i) with WaitDeps t => deps_ok st s i t | _ => false end.

Definition max_advance (st:static) (s:state) (i:nat) : Z :=
  let ancs := map thd (anc_cands st s i) in
  let own := map thd (opt_list (tmin (nexts (s i)))) in
  fold_left Z.min (ancs ++ own) (until st + 1) - 1.

Inductive event :=
| EvStart (i:nat) | EvBegin (i:nat) (t:time) (m:Z) | EvStep (i:nat) (nxt : option Z)
| EvData (i:nat) (ot:Z) (ports : list nat) | EvQuiesce | EvLoopFail (i:nat)
| EvStepBad (i:nat)   (* step() returned something that is not an int *).

Definition finish_step (st:static) (s:state) (i:nat) (ot:time) (ports:list nat) : res state :=
  let x := s i in
  let s1 := upd s i (mkSim (pc x) (prog x) (nexts x) None (last x) (newer x)) in
  let s2 := fold_left (fun s p => fold_left (fun s (dd:nat*interval) => let (dest,d) := dd in
                 let tt := act ot d in
                 if until st <=? thd tt then s else schedule s dest tt) (trig st i p) s) ports s1 in
  let s3 := fold_left (fun (r:res state) j => match r with Ok s => advance st s j | e => e end) (seq 0 (nsims st)) (Ok s2) in
  match s3 with
  | Ok s => Ok (wake_sleepers st (loop_eval st s i))
  | e => e end.

Definition loop_exceeded (st:static) (t:time) : bool := existsb (fun x => maxloop st <=? x) (tl t).

Definition apply (st:static) (s:state) (e:event) : res state :=
  match e with
  | EvStart i =>
      match pc (s i) with
      | NotStarted => match advance st s i with Ok s' => Ok (wake_sleepers st (loop_eval st s' i)) | e => e end
      | _ => Err EBadEvent end
  | EvBegin i t m =>
      if negb (begin_enabled st s i) then Err (ENotEnabled i) else
      let x := s i in
      match tmin (nexts x) with
      | None => Err EBadEvent
      | Some t' =>
        if negb (teq t' t) then Err (ENotEnabled i) else
        if negb (teq t' (prog x)) then Err (EPast i) else
        if loop_exceeded st t' then Err (ELoopExpected i) else
        let s' := upd s i (mkSim InStep (prog x) (removeT t' (nexts x)) (Some t') (last x) (newer x)) in
        if max_advance st s' i =? m then Ok s' else Err (EMaxAdv i)
      end
  | EvLoopFail i =>
      if negb (begin_enabled st s i) then Err (ENotEnabled i) else
      match tmin (nexts (s i)) with
      | Some t' => if loop_exceeded st t' && teq t' (prog (s i)) then Ok s else Err (ENotEnabled i)
      | None => Err EBadEvent end
  | EvStep i nxt =>
      let x := s i in
      match pc x, cur x with
      | InStep, Some t =>
          let s1 := upd s i (mkSim InStep (prog x) (nexts x) (cur x) t (newer x)) in
          match nxt with
          | Some v => if v <=? thd t then Err (EReply i) else
                      let s2 := if v <? until st then schedule s1 i (world_time st i v) else s1 in
                      if outreq st i then let y := s2 i in Ok (upd s2 i (mkSim InData (prog y) (nexts y) (cur y) (last y) (newer y)))
                      else finish_step st s2 i t []
          | None => if timebased st i then Err (EReply i) else
                    if outreq st i then let y := s1 i in Ok (upd s1 i (mkSim InData (prog y) (nexts y) (cur y) (last y) (newer y)))
                    else finish_step st s1 i t []
          end
      | _, _ => Err EBadEvent end
  | EvData i ot ports =>
      let x := s i in
      match pc x, cur x with
      | InData, Some c =>
          if ot <? thd (last x) then Err (EOutTime i) else
          let ott := if ot =? thd c then c else world_time st i ot in
          finish_step st s i ott ports
      | _, _ => Err EBadEvent end
  | EvStepBad i =>
      match pc (s i), cur (s i) with
      | InStep, Some _ => Err (EReply i)
      | _, _ => Err EBadEvent end
  | EvQuiesce =>
      if existsb (fun i => begin_enabled st s i) (seq 0 (nsims st)) then Err (ENotEnabled 999) else Ok s
  end.

Definition all_done (st:static) (s:state) : bool :=
  forallb (fun i => match pc (s i) with Done => true | _ => false end) (seq 0 (nsims st)).


(* which wait condition keeps a simulator from beginning its step (diagnostics for the trace validation) *)
Inductive guard := GNotWaiting | GInput (k:nat) | GAsync (j:nat) | GLazy (j:nat).
Definition failing_guards (st:static) (s:state) (i:nat) : list guard :=
  match pc (s i) with
  | WaitDeps t =>
      map (fun kd : nat*interval => GInput (fst kd)) (filter (fun kd : nat*interval => let (k,d) := kd in negb (tlt t (act (prog (s k)) d))) (indel st i)) ++
      map (fun jd : nat*interval => GAsync (fst jd)) (filter (fun jd : nat*interval => let (j,d) := jd in negb (tle (act t d) (prog (s j)))) (succ_wait st i)) ++
      (if lazy st then map (fun jd : nat*interval => GLazy (fst jd)) (filter (fun jd : nat*interval => let (j,d) := jd in negb (tle (act t d) (prog (s j)))) (succ_lazy st i)) else [])
  | _ => [GNotWaiting]
  end.

(* what BEGIN(i) would pop and promise (used by the trace validation to compare max_advance separately) *)
Definition begin_preview (st:static) (s:state) (i:nat) : option (time * Z) :=
  match tmin (nexts (s i)) with
  | None => None
  | Some t' => let x := s i in
      let s' := upd s i (mkSim InStep (prog x) (removeT t' (nexts x)) (Some t') (last x) (newer x)) in
      Some (t', max_advance st s' i)
  end.
Definition enabled_sims (st:static) (s:state) : list nat := filter (fun i => begin_enabled st s i) (seq 0 (nsims st)).
