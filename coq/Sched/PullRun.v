(* C03 / C04: over a whole run, the value a step pulls from a provider's cache is the value it would pull from the
   provider's FINAL cache of the run (all outputs the provider ever produces): what the provider delivers after the
   consumer's BEGIN has an output time after the requested one.  The final cache of a provider is the fold of its own
   outputs in its own step order, hence does not depend on how the steps of different simulators were interleaved. *)
From Coq Require Import ZArith List Bool Arith Lia.
Import ListNotations.
From MV Require Import Time.Spec Time.Ord Sched.Timing Sched.Inv Sched.Init Sched.Wle Sched.Main Sched.Guards Sched.Final
  Sched.Plane Sched.DataP Sched.PruneRun Sched.Later.
Open Scope Z_scope.

Section P.
Variable st : static.
Variable dt : dstatic.
Hypothesis OK : static_ok st.

(* the state after a list of data events (without pruning), None after the first failure *)
Fixpoint dfinal (s:state) (ds:dstate) (evs:list devent) : option (state * dstate) :=
  match evs with
  | [] => Some (s, ds)
  | e :: r => match dapply_gen false st dt (s, ds) e with DOk s' ds' _ => dfinal s' ds' r | _ => None end
  end.

Definition tev (e:devent) : option event :=
  match e with DEv e => Some e | DBegin i t m => Some (EvBegin i t m) | DData i ot ports _ => Some (EvData i ot ports) | DSetData _ _ _ _ _ => None end.

Local Arguments apply : simpl never.
Local Arguments get_input_data : simpl never.
Local Arguments put_outputs : simpl never.

Lemma dapply_timing s ds e s' ds' inp : dapply_gen false st dt (s, ds) e = DOk s' ds' inp ->
  match tev e with Some x => apply st s x = Ok s' | None => s' = s end.
Proof.
  destruct e as [e|i t m|i ot ports data|i w j a v]; unfold dapply_gen, tev; intros H.
  - destruct e; try (destruct (apply st s _) as [s1|] eqn:E; [injection H as <- _ _; reflexivity|discriminate]).
  - destruct (apply st s _) as [s1|] eqn:E; [|discriminate]. destruct (get_input_data dt ds i (thd t)). injection H as <- _ _. reflexivity.
  - destruct (apply st s _) as [s1|] eqn:E; [|discriminate]. injection H as <- _ _. reflexivity.
  - destruct (existsb _ _); [|discriminate]. injection H as <- _ _. reflexivity.
Qed.

(* K: good and at least as far as the state s0 *)
Definition K (s0 sr:state) : Prop := Good st sr /\ prog_le s0 sr.
Lemma K_step s0 s ds e s' ds' inp : K s0 s -> dapply_gen false st dt (s, ds) e = DOk s' ds' inp -> K s0 s'.
Proof.
  intros [G M] H. apply dapply_timing in H. destruct (tev e) as [x|]; [|subst; split; assumption].
  split; [eapply good_step; eauto|]. eapply prog_le_trans; [exact M|]. eapply prog_le_step; eauto.
Qed.

(* every cache is ordered by output time *)
Definition Inc (ds:dstate) : Prop := forall j, increasing (outputs (ds j)).
Definition look (ds:dstate) (src:nat) (x:Z) : odata := get_output_for (outputs (ds src)) x.

Lemma outputs_step s ds e s' ds' inp : dapply_gen false st dt (s, ds) e = DOk s' ds' inp ->
  forall j, outputs (ds' j) = match e with
                              | DData i ot _ data => if d_cache dt && Nat.eqb j i then aset_z ot data (outputs (ds j)) else outputs (ds j)
                              | _ => outputs (ds j) end.
Proof.
  destruct e as [e|i t m|i ot ports data|i w k a v]; unfold dapply_gen; intros H j.
  - destruct e; try (destruct (apply st s _) as [s1|] eqn:E; [injection H as _ <- _; reflexivity|discriminate]).
    destruct (apply st s _) as [s1|] eqn:E; [|discriminate]. injection H as _ <- _. destruct (pc (s1 i)); reflexivity.
  - destruct (apply st s _) as [s1|] eqn:E; [|discriminate]. rewrite gid_core_eq in H. injection H as _ <- _.
    unfold dupd. destruct (Nat.eqb_spec j i) as [->|]; reflexivity.
  - destruct (apply st s _) as [s1|] eqn:E; [|discriminate]. injection H as _ <- _.
    apply (proj1 (put_outputs_props dt ds ds i ot data (fun _ => eq_refl))).
  - destruct (existsb _ _); [|discriminate]. injection H as _ <- _. unfold dupd. destruct (Nat.eqb_spec j k) as [->|]; reflexivity.
Qed.

Lemma inc_step s ds e s' ds' inp : Inc ds -> mono_ok st ds e -> dapply_gen false st dt (s, ds) e = DOk s' ds' inp -> Inc ds'.
Proof.
  intros HI HM H j. rewrite (outputs_step _ _ _ _ _ _ H j). destruct e as [e|i t m|i ot ports data|i w k a v]; try apply HI.
  destruct (d_cache dt && Nat.eqb j i) eqn:E; [|apply HI]. apply andb_true_iff in E as [_ E]. apply Nat.eqb_eq in E. subst j.
  simpl in HM. destruct HM as [_ HK]. apply (lookup_aset_z ot data (outputs (ds i)) 0 (HI i) HK).
Qed.

(* one event leaves the lookup at x in src's cache unchanged unless it is an output of src with a time at or before x *)
Lemma look_step s ds e s' ds' inp src x : Inc ds -> mono_ok st ds e -> dapply_gen false st dt (s, ds) e = DOk s' ds' inp ->
  (forall ot ports data, e = DData src ot ports data -> x < ot) -> look ds' src x = look ds src x.
Proof.
  intros HI HM H Hlate. unfold look. rewrite (outputs_step _ _ _ _ _ _ H src).
  destruct e as [e|i t m|i ot ports data|i w k a v]; try reflexivity.
  destruct (d_cache dt && Nat.eqb src i) eqn:E; [|reflexivity]. apply andb_true_iff in E as [_ E]. apply Nat.eqb_eq in E. subst i.
  simpl in HM. destruct HM as [_ HK].
  destruct (lookup_aset_z ot data (outputs (ds src)) x (HI src) HK) as (_ & _ & ->).
  specialize (Hlate ot ports data eq_refl). destruct (ot <=? x) eqn:E; [apply Z.leb_le in E; lia|reflexivity].
Qed.

(* the connection of the data tables with the timing tables: a pulled flow with integer shift sh belongs to an input
   delay d under which "due after t" means an output time after thd t - sh *)
Definition pull_strict : Prop := forall j src sh flows, (j < nsims st)%nat -> In ((src, sh), flows) (pulled dt j) ->
  exists d, In (src, d) (indel st j) /\
    forall t o, length t = depth st j -> length o = depth st src -> tlt t (act o d) = true -> thd t - sh < thd o.

Lemma thd_out_time k c ot : thd (out_time st k c ot) = ot.
Proof. unfold out_time. destruct (ot =? thd c) eqn:E; [apply Z.eqb_eq in E; symmetry; exact E|reflexivity]. Qed.
Lemma length_out_time k c ot : length c = depth st k -> length (out_time st k c ot) = depth st k.
Proof. intros H. unfold out_time. destruct (ot =? thd c); [exact H|apply length_world; apply (ok_depth st OK)]. Qed.

Section After.
Variables (s0:state) (j:nat) (t:time) (m:Z) (s1:state).
Hypothesis G0 : Good st s0.
Hypothesis Hb : apply st s0 (EvBegin j t m) = Ok s1.
Hypothesis PS : pull_strict.
Hypothesis Hj : (j < nsims st)%nat.

Lemma length_begin : length t = depth st j.
Proof.
  destruct (begin_facts _ _ _ _ _ _ Hb) as (_ & _ & _ & _ & E & _). rewrite E.
  destruct G0 as ([[HS _] _] & _ & _). exact (proj1 (HS j)).
Qed.

Lemma stable_suffix src sh flows : In ((src, sh), flows) (pulled dt j) ->
  forall evs s ds sf dsf, K s1 s -> Inc ds -> mono_run st dt s ds evs -> dfinal s ds evs = Some (sf, dsf) ->
  look dsf src (thd t - sh) = look ds src (thd t - sh).
Proof.
  intros Hp. destruct (PS j src sh flows Hj Hp) as (d & Hd & Hstrict).
  induction evs as [|e r IH]; intros s ds sf dsf HK HI HM H; cbn [dfinal] in H.
  - injection H as _ <-. reflexivity.
  - destruct (dapply_gen false st dt (s, ds) e) as [s' ds' inp| |] eqn:E; try discriminate.
    cbn [mono_run] in HM. rewrite E in HM. destruct HM as [HM0 HM1].
    rewrite (IH s' ds' sf dsf (K_step _ _ _ _ _ _ _ HK E) (inc_step _ _ _ _ _ _ HI HM0 E) HM1 H).
    apply (look_step _ _ _ _ _ _ _ _ HI HM0 E).
    intros ot ports data ->. pose proof (dapply_timing _ _ _ _ _ _ E) as Ha. simpl in Ha.
    destruct HK as [Gs Ms].
    destruct (later_out_core st OK s0 j t m s1 s G0 Hb Gs Ms src ot ports s' Ha d Hd) as (c & _ & Lc & T).
    pose proof (Hstrict t (out_time st src c ot) length_begin (length_out_time src c ot Lc) T) as B.
    rewrite thd_out_time in B. exact B.
Qed.
End After.

(* ---- whole runs from the initial state ---- *)
Lemma good_dfinal evs : forall s ds sf dsf, Good st s -> dfinal s ds evs = Some (sf, dsf) -> Good st sf.
Proof.
  induction evs as [|e r IH]; intros s ds sf dsf G H; cbn [dfinal] in H; [injection H as <- _; exact G|].
  destruct (dapply_gen false st dt (s, ds) e) as [s' ds' inp| |] eqn:E; try discriminate.
  eapply IH; [|exact H]. apply (K_step s _ _ _ _ _ _ (conj G (prog_le_refl s)) E).
Qed.
Lemma inc_dfinal evs : forall s ds sf dsf, Inc ds -> mono_run st dt s ds evs -> dfinal s ds evs = Some (sf, dsf) -> Inc dsf.
Proof.
  induction evs as [|e r IH]; intros s ds sf dsf HI HM H; cbn [dfinal] in H; [injection H as _ <-; exact HI|].
  destruct (dapply_gen false st dt (s, ds) e) as [s' ds' inp| |] eqn:E; try discriminate.
  cbn [mono_run] in HM. rewrite E in HM. destruct HM as [HM0 HM1].
  eapply IH; [|exact HM1|exact H]. eapply inc_step; eauto.
Qed.
Lemma mono_run_app evs1 : forall s ds evs2 s' ds', mono_run st dt s ds (evs1 ++ evs2) -> dfinal s ds evs1 = Some (s', ds') ->
  mono_run st dt s ds evs1 /\ mono_run st dt s' ds' evs2.
Proof.
  induction evs1 as [|e r IH]; intros s ds evs2 s' ds' HM H; cbn [dfinal] in H.
  - injection H as <- <-. split; [exact I|exact HM].
  - simpl app in HM. cbn [mono_run] in *. destruct (dapply_gen false st dt (s, ds) e) as [s2 ds2 inp| |] eqn:E; try discriminate.
    destruct HM as [HM0 HM1]. destruct (IH _ _ _ _ _ HM1 H) as [A B]. auto.
Qed.

(* the inputs of the step BEGIN(j,t) in a run pre ++ BEGIN :: post are those computed from the FINAL caches of the run *)
Theorem pulled_from_final_cache : pull_strict -> (forall i, increasing (init_outputs dt i)) ->
  forall pre j t m post sp dsp s1 ds1 inp sf dsf,
  mono_run st dt (init_state st) (init_dstate dt) (pre ++ DBegin j t m :: post) ->
  dfinal (init_state st) (init_dstate dt) pre = Some (sp, dsp) ->
  dapply_gen false st dt (sp, dsp) (DBegin j t m) = DOk s1 ds1 (Some inp) ->
  dfinal s1 ds1 post = Some (sf, dsf) ->
  (forall src sh flows, In ((src, sh), flows) (pulled dt j) -> look dsp src (thd t - sh) = look dsf src (thd t - sh)) /\
  inp = fst (gid_core dt (look dsf) (dsp j) j (thd t)).
Proof.
  intros PS Hinit pre j t m post sp dsp s1 ds1 inp sf dsf HM Hpre Hb Hpost.
  assert (G0 : Good st (init_state st)) by (apply (reached_good st OK); exists [], []; split; reflexivity).
  pose proof (good_dfinal pre _ _ _ _ G0 Hpre) as Gp.
  destruct (mono_run_app pre _ _ _ _ _ HM Hpre) as [HMpre HMrest].
  assert (I0 : Inc (init_dstate dt)) by (intros i; apply Hinit).
  pose proof (inc_dfinal pre _ _ _ _ I0 HMpre Hpre) as Ip.
  cbn [mono_run] in HMrest. rewrite Hb in HMrest. destruct HMrest as [HMb HMpost].
  pose proof (inc_step _ _ _ _ _ _ Ip HMb Hb) as I1.
  pose proof (dapply_timing _ _ _ _ _ _ Hb) as Ha. simpl in Ha.
  assert (L : forall src sh flows, In ((src, sh), flows) (pulled dt j) -> look dsp src (thd t - sh) = look dsf src (thd t - sh)).
  { intros src sh flows Hp.
    rewrite (stable_suffix sp j t m s1 Gp Ha PS HMb src sh flows Hp post s1 ds1 sf dsf
               (conj (good_step st OK _ _ _ Gp Ha) (prog_le_refl s1)) I1 HMpost Hpost).
    unfold look. rewrite (outputs_step _ _ _ _ _ _ Hb src). reflexivity. }
  split; [exact L|].
  unfold dapply_gen in Hb. rewrite Ha in Hb. rewrite gid_core_eq in Hb. injection Hb as _ <-.
  exact (proj1 (gid_core_congr dt (look dsp) (look dsf) (dsp j) (dsp j) j (thd t) eq_refl L)).
Qed.

(* the final cache of a provider is the fold of its own outputs, in its own order, over its initial cache *)
Fixpoint produced (src:nat) (evs:list devent) : list (Z * odata) :=
  match evs with
  | [] => []
  | DData i ot _ data :: r => if Nat.eqb src i then (ot, data) :: produced src r else produced src r
  | _ :: r => produced src r
  end.
Definition fill (l : list (Z * odata)) (outs : list (Z * odata)) : list (Z * odata) :=
  fold_left (fun acc e => aset_z (fst e) (snd e) acc) l outs.
Lemma final_cache evs : forall s ds sf dsf src, dfinal s ds evs = Some (sf, dsf) ->
  outputs (dsf src) = if d_cache dt then fill (produced src evs) (outputs (ds src)) else outputs (ds src).
Proof.
  induction evs as [|e r IH]; intros s ds sf dsf src H; cbn [dfinal] in H.
  - injection H as _ <-. destruct (d_cache dt); reflexivity.
  - destruct (dapply_gen false st dt (s, ds) e) as [s' ds' inp| |] eqn:E; try discriminate.
    rewrite (IH _ _ _ _ src H). rewrite (outputs_step _ _ _ _ _ _ E src).
    destruct e as [e|i t m|i ot ports data|i w k a v]; try reflexivity.
    cbn [produced]. destruct (d_cache dt); [|reflexivity]. simpl. destruct (Nat.eqb src i); reflexivity.
Qed.

(* a sufficient, computable form of pull_strict: flat times on both sides, the input delay is a plain shift of at most sh *)
Definition pull_strictb : bool :=
  forallb (fun j => forallb (fun g : (nat * Z) * list (attr * attr) =>
      let '((src, sh), _) := g in
      Nat.eqb (depth st j) 1 && Nat.eqb (depth st src) 1 &&
      existsb (fun kd : nat * interval => Nat.eqb (fst kd) src && Nat.eqb (icut (snd kd)) 1 &&
                 match itiers (snd kd) with [k] => k <=? sh | _ => false end) (indel st j)) (pulled dt j)) (seq 0 (nsims st)).
Lemma pull_strictb_sound : pull_strictb = true -> pull_strict.
Proof.
  intros H j src sh flows Hj Hp. unfold pull_strictb in H. rewrite forallb_forall in H.
  specialize (H j (proj2 (in_seq _ _ _) (conj (Nat.le_0_l _) Hj))). rewrite forallb_forall in H. specialize (H _ Hp). cbv beta iota in H.
  apply andb_true_iff in H as [H He]. apply andb_true_iff in H as [Dj Ds]. apply Nat.eqb_eq in Dj, Ds.
  apply existsb_exists in He as ([k d] & Hin & Hk). simpl in Hk.
  apply andb_true_iff in Hk as [Hk Ht]. apply andb_true_iff in Hk as [Hk Hc]. apply Nat.eqb_eq in Hk, Hc. subst k.
  exists d. split; [exact Hin|]. intros t o Lt Lo T. rewrite Dj in Lt. rewrite Ds in Lo.
  destruct (itiers d) as [|k [|k2 r]] eqn:Ei; try discriminate. apply Z.leb_le in Ht.
  destruct t as [|a [|a2 t']]; try discriminate. destruct o as [|b [|b2 o']]; try discriminate.
  unfold act in T. rewrite Hc, Ei in T. simpl in T.
  destruct (a <? b + k) eqn:E1; [apply Z.ltb_lt in E1; simpl; lia|].
  destruct (b + k <? a); discriminate.
Qed.

Lemma dfinal_app pre : forall s ds s1 ds1 r, dfinal s ds pre = Some (s1, ds1) -> dfinal s ds (pre ++ r) = dfinal s1 ds1 r.
Proof.
  induction pre as [|e pre IH]; intros s ds s1 ds1 r H; cbn [dfinal] in H.
  - injection H as <- <-. reflexivity.
  - simpl app. cbn [dfinal]. destruct (dapply_gen false st dt (s, ds) e) as [s' ds' inp| |]; try discriminate. apply IH. exact H.
Qed.

(* two interleavings in which every provider produces the same outputs in the same (own) order deliver the same pulled
   values to the step (j,t) *)
Theorem pulled_same_in_two_runs : pull_strict -> (forall i, increasing (init_outputs dt i)) ->
  forall j t,
  forall preA mA postA spA dspA s1A ds1A inpA sfA dsfA,
  mono_run st dt (init_state st) (init_dstate dt) (preA ++ DBegin j t mA :: postA) ->
  dfinal (init_state st) (init_dstate dt) preA = Some (spA, dspA) ->
  dapply_gen false st dt (spA, dspA) (DBegin j t mA) = DOk s1A ds1A (Some inpA) ->
  dfinal s1A ds1A postA = Some (sfA, dsfA) ->
  forall preB mB postB spB dspB s1B ds1B inpB sfB dsfB,
  mono_run st dt (init_state st) (init_dstate dt) (preB ++ DBegin j t mB :: postB) ->
  dfinal (init_state st) (init_dstate dt) preB = Some (spB, dspB) ->
  dapply_gen false st dt (spB, dspB) (DBegin j t mB) = DOk s1B ds1B (Some inpB) ->
  dfinal s1B ds1B postB = Some (sfB, dsfB) ->
  (forall src, produced src (preA ++ DBegin j t mA :: postA) = produced src (preB ++ DBegin j t mB :: postB)) ->
  forall src sh flows, In ((src, sh), flows) (pulled dt j) -> look dspA src (thd t - sh) = look dspB src (thd t - sh).
Proof.
  intros PS Hinit j t preA mA postA spA dspA s1A ds1A inpA sfA dsfA MA PA BA FA
         preB mB postB spB dspB s1B ds1B inpB sfB dsfB MB PB BB FB Hprod src sh flows Hp.
  destruct (pulled_from_final_cache PS Hinit _ _ _ _ _ _ _ _ _ _ _ _ MA PA BA FA) as [LA _].
  destruct (pulled_from_final_cache PS Hinit _ _ _ _ _ _ _ _ _ _ _ _ MB PB BB FB) as [LB _].
  rewrite (LA src sh flows Hp), (LB src sh flows Hp). unfold look. f_equal.
  assert (WA : dfinal (init_state st) (init_dstate dt) (preA ++ DBegin j t mA :: postA) = Some (sfA, dsfA)).
  { rewrite (dfinal_app preA _ _ _ _ _ PA). cbn [dfinal]. rewrite BA. exact FA. }
  assert (WB : dfinal (init_state st) (init_dstate dt) (preB ++ DBegin j t mB :: postB) = Some (sfB, dsfB)).
  { rewrite (dfinal_app preB _ _ _ _ _ PB). cbn [dfinal]. rewrite BB. exact FB. }
  rewrite (final_cache _ _ _ _ _ src WA), (final_cache _ _ _ _ _ src WB), (Hprod src). reflexivity.
Qed.
End P.
