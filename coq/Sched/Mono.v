(* The wait conditions are monotone in the progress of the other simulators: once true, they stay true
   (this is what makes "BEGIN fires in some state where all guards hold" an exact abstraction of the awaits). *)
From Coq Require Import ZArith List Bool Arith Lia.
Import ListNotations.
From MV Require Import Time.Spec Time.Ord Sched.Timing.
Open Scope Z_scope.

Lemma deps_ok_mono st s s' i t :
  (forall k, length (prog (s k)) = length (prog (s' k))) ->
  (forall k, tle (prog (s k)) (prog (s' k)) = true) -> deps_ok st s i t = true -> deps_ok st s' i t = true.
Proof.
  intros HL HP. unfold deps_ok. rewrite !andb_true_iff. intros [[A B] C]. repeat split.
  - rewrite forallb_forall in *. intros [k d] Hin. specialize (A (k,d) Hin). simpl in *.
    eapply tlt_tle_trans; [exact A|]. apply act_mono; auto.
  - rewrite forallb_forall in *. intros [j d] Hin. specialize (B (j,d) Hin). simpl in *.
    eapply tle_trans; [exact B|apply HP].
  - destruct (lazy st); [|reflexivity]. rewrite forallb_forall in *. intros [j d] Hin. specialize (C (j,d) Hin). simpl in *.
    eapply tle_trans; [exact C|apply HP].
Qed.
