(* C04, the pushed (event) half over whole runs: which event a step is given for a slot (destination attribute a, source
   simulator k) does not depend on the interleaving.
   - The entries of one slot in the timed input buffer of j are, in arrival order, what k's outputs push into it
     (a function of k's own outputs in k's own order: `stream`), minus those due at or before a step of j that has begun.
   - Every entry due at or before t is pushed before BEGIN(j,t) (C03, no_event_overdue), so the due entries of the slot at
     BEGIN(j,t) are the entries of the WHOLE run's stream with due time in (previous step of j, t].
   - The step is given the entry with the latest due time, and among equal due times the one that arrived last: within one
     slot the arrival order is k's own order, so the choice (`pick`) is a function of the stream.
   Two runs in which k produces the same outputs in its own order and j has begun the same earlier steps therefore give
   the step (j,t) the same event for the slot, or none in both. *)
From Coq Require Import ZArith List Bool Arith Lia Sorting.Sorted.
Import ListNotations.
From MV Require Import Time.Spec Time.Ord Static.Build Sched.Timing Sched.Inv Sched.Init Sched.Wle Sched.Main Sched.Guards Sched.Final
  Sched.Plane Sched.DataP Sched.PruneRun Sched.Later Sched.PullRun Sched.EventRun Sched.SetData Sched.Persist.
Open Scope Z_scope.

Definition pv (e:bufentry) : Z * Z := (btime e, bval e).

Section P.
Variable st : static.
Variable dt : dstatic.
Hypothesis OK : static_ok st.
Variables (j:nat) (a:attr) (k:nat).       (* the slot: destination simulator j, attribute a, source simulator k *)

Local Arguments apply : simpl never.
Local Arguments get_input_data : simpl never.
Local Arguments put_outputs : simpl never.

(* the slot's entries in arrival order (the buffer is kept newest first) *)
Definition slotbuf (ds:dstate) : list bufentry := rev (filter (slot a k) (buffer (ds j))).

(* what one output of simulator i pushes into the slot, in push order *)
Definition dest_push (i:nat) (ot v:Z) (dd:nat*Z*attr) : list (Z*Z) :=
  let '(dest,sh,da) := dd in if Nat.eqb dest j && (Nat.eqb da a && Nat.eqb i k) then [(ot+sh, v)] else [].
Definition port_push (i:nat) (ot:Z) (data:odata) (p : attr * list (nat*Z*attr)) : list (Z*Z) :=
  match aget (fst p) data with None => [] | Some v => flat_map (dest_push i ot v) (snd p) end.
Definition slot_pushes (i:nat) (ot:Z) (data:odata) : list (Z*Z) := flat_map (port_push i ot data) (pushes dt i).

(* newest first: arrival numbers strictly decrease along the buffer *)
Definition Dec (ds:dstate) : Prop := forall x, StronglySorted (fun e y : bufentry => (bctr y < bctr e)%nat) (buffer (ds x)).

Lemma push_one_slot i ot v ds dd : Ctr ds -> Dec ds ->
  let ds' := push_one i ot v ds dd in
  Ctr ds' /\ Dec ds' /\ map pv (slotbuf ds') = map pv (slotbuf ds) ++ dest_push i ot v dd.
Proof.
  intros HC HD. destruct dd as [[dest sh] da]. unfold push_one. cbv zeta. repeat split.
  - intros x e He. unfold dupd in *. destruct (Nat.eqb_spec x dest) as [->|]; simpl in *; [|apply HC; exact He].
    destruct He as [<-|He]; simpl; [lia|]. specialize (HC dest e He). lia.
  - intros x. unfold dupd. destruct (Nat.eqb_spec x dest) as [->|]; simpl; [|apply HD].
    constructor; [apply HD|]. rewrite Forall_forall. intros y Hy. simpl. apply (HC dest y Hy).
  - unfold slotbuf, dupd, dest_push. destruct (Nat.eqb_spec j dest) as [->|Hn].
    + rewrite Nat.eqb_refl. simpl. unfold slot at 1. simpl.
      destruct (Nat.eqb da a && Nat.eqb i k); simpl; [rewrite map_app; reflexivity|rewrite app_nil_r; reflexivity].
    + destruct (Nat.eqb_spec dest j) as [->|_]; [contradiction|]. simpl. rewrite app_nil_r. reflexivity.
Qed.

Lemma push_fold_slot i ot v : forall dests ds, Ctr ds -> Dec ds ->
  let ds' := fold_left (push_one i ot v) dests ds in
  Ctr ds' /\ Dec ds' /\ map pv (slotbuf ds') = map pv (slotbuf ds) ++ flat_map (dest_push i ot v) dests.
Proof.
  induction dests as [|dd dests IH]; intros ds HC HD; cbn [fold_left flat_map]; [rewrite app_nil_r; auto|].
  destruct (push_one_slot i ot v ds dd HC HD) as (C1 & D1 & E1).
  destruct (IH _ C1 D1) as (C2 & D2 & E2). split; [exact C2|]. split; [exact D2|].
  rewrite E2, E1, app_assoc. reflexivity.
Qed.

Lemma push_ports_slot i ot data : forall ps ds, Ctr ds -> Dec ds ->
  let ds' := fold_left (push_port i ot data) ps ds in
  Ctr ds' /\ Dec ds' /\ map pv (slotbuf ds') = map pv (slotbuf ds) ++ flat_map (port_push i ot data) ps.
Proof.
  induction ps as [|[sa dests] ps IH]; intros ds HC HD; cbn [fold_left flat_map]; [rewrite app_nil_r; auto|].
  assert (S1 : let d1 := push_port i ot data ds (sa, dests) in
               Ctr d1 /\ Dec d1 /\ map pv (slotbuf d1) = map pv (slotbuf ds) ++ port_push i ot data (sa, dests)).
  { unfold push_port, port_push. simpl. destruct (aget sa data) as [v|]; [apply push_fold_slot; assumption|rewrite app_nil_r; auto]. }
  destruct S1 as (C1 & D1 & E1). destruct (IH _ C1 D1) as (C2 & D2 & E2).
  split; [exact C2|]. split; [exact D2|]. rewrite E2, E1, app_assoc. reflexivity.
Qed.

Lemma put_outputs_slot ds i ot data : Ctr ds -> Dec ds ->
  let ds' := put_outputs dt ds i ot data in
  Ctr ds' /\ Dec ds' /\ map pv (slotbuf ds') = map pv (slotbuf ds) ++ slot_pushes i ot data.
Proof.
  intros HC HD. rewrite put_outputs_eq.
  set (d0 := if d_cache dt then dupd ds i _ else ds).
  assert (E0 : forall x, buffer (d0 x) = buffer (ds x) /\ bcount (d0 x) = bcount (ds x)).
  { intros x. unfold d0. destruct (d_cache dt); [|auto]. unfold dupd. destruct (Nat.eqb_spec x i) as [->|]; simpl; auto. }
  assert (C0 : Ctr d0) by (intros x e He; destruct (E0 x) as [A B]; rewrite A in He; rewrite B; apply HC; exact He).
  assert (D0 : Dec d0) by (intros x; destruct (E0 x) as [A _]; rewrite A; apply HD).
  destruct (push_ports_slot i ot data (pushes dt i) d0 C0 D0) as (C & D & E).
  split; [exact C|]. split; [exact D|]. rewrite E. unfold slotbuf. rewrite (proj1 (E0 j)). reflexivity.
Qed.

(* ---- one event, against an abstract queue of (due time, value) pairs ---- *)
Definition q_step (q:list (Z*Z)) (e:devent) : list (Z*Z) :=
  match e with
  | DData i ot _ data => q ++ slot_pushes i ot data
  | DBegin i t _ => if Nat.eqb i j then filter (fun p => thd t <? fst p) q else q
  | _ => q
  end.

Lemma sorted_filter {A} (R : A -> A -> Prop) (f : A -> bool) l : StronglySorted R l -> StronglySorted R (filter f l).
Proof.
  induction 1 as [|x l Hs IH Hx]; simpl; [constructor|].
  destruct (f x); [|exact IH]. constructor; [exact IH|]. rewrite Forall_forall in *. intros y Hy. apply Hx. apply filter_In in Hy. tauto.
Qed.
Lemma filter_comm {A} (f g : A -> bool) l : filter f (filter g l) = filter g (filter f l).
Proof. induction l as [|x l IH]; simpl; [reflexivity|]. destruct (f x) eqn:Ef, (g x) eqn:Eg; simpl; rewrite ?Ef, ?Eg, IH; reflexivity. Qed.
Lemma filter_map_pv (t:Z) l : filter (fun p : Z*Z => t <? fst p) (map pv l) = map pv (filter (fun e => negb (btime e <=? t)) l).
Proof.
  induction l as [|x l IH]; simpl; [reflexivity|]. rewrite (Z.ltb_antisym (btime x) t).
  destruct (negb (btime x <=? t)); simpl; rewrite IH; reflexivity.
Qed.

Lemma slot_step s ds e s' ds' inp : Ctr ds -> Dec ds -> dapply_gen false st dt (s, ds) e = DOk s' ds' inp ->
  Ctr ds' /\ Dec ds' /\ map pv (slotbuf ds') = q_step (map pv (slotbuf ds)) e.
Proof.
  intros HC HD. destruct e as [e|i t m|i ot ports data|i w x a0 v]; unfold dapply_gen; intros H.
  - assert (ds' = ds).
    { destruct e; try (destruct (apply st s _) as [s1|]; [injection H as _ <- _; reflexivity|discriminate]).
      destruct (apply st s _) as [s1|]; [|discriminate]. injection H as _ <- _. destruct (pc (s1 i)); reflexivity. }
    subst ds'. auto.
  - destruct (apply st s _) as [s1|]; [|discriminate]. destruct (get_input_data dt ds i (thd t)) as [inp0 ds0] eqn:G. injection H as _ <- _.
    assert (F : forall y, y <> i -> ds0 y = ds y) by (intros y Hy; eapply get_input_data_frame; eauto).
    assert (Bi : buffer (ds0 i) = filter (fun e => negb (btime e <=? thd t)) (buffer (ds i)) /\ bcount (ds0 i) = bcount (ds i)).
    { unfold get_input_data in G. injection G as _ <-. unfold dupd. rewrite Nat.eqb_refl. simpl. auto. }
    destruct Bi as [Bi Bc]. repeat split.
    + intros y e He. destruct (Nat.eq_dec y i) as [->|Hy]; [|rewrite (F y Hy) in *; apply HC; exact He].
      rewrite Bc. apply HC. rewrite Bi in He. apply filter_In in He. tauto.
    + intros y. destruct (Nat.eq_dec y i) as [->|Hy]; [rewrite Bi; apply sorted_filter; apply HD|rewrite (F y Hy); apply HD].
    + unfold q_step, slotbuf. destruct (Nat.eqb_spec i j) as [->|Hn]; [|rewrite (F j (fun E => Hn (eq_sym E))); reflexivity].
      rewrite Bi, filter_comm, <- filter_rev', <- filter_map_pv. reflexivity.
  - destruct (apply st s _) as [s1|]; [|discriminate]. injection H as _ <- _. apply put_outputs_slot; assumption.
  - destruct (existsb _ _); [|discriminate]. injection H as _ <- _.
    assert (E0 : forall y, buffer (dupd ds x (mkD (outputs (ds x)) (buffer (ds x)) (bcount (ds x)) (persist (ds x)) (iset a0 (w * nsims st + i) (Some v) (setdata (ds x)))) y) = buffer (ds y) /\
                           bcount (dupd ds x (mkD (outputs (ds x)) (buffer (ds x)) (bcount (ds x)) (persist (ds x)) (iset a0 (w * nsims st + i) (Some v) (setdata (ds x)))) y) = bcount (ds y)).
    { intros y. unfold dupd. destruct (Nat.eqb_spec y x) as [->|]; simpl; auto. }
    repeat split.
    + intros y e He. destruct (E0 y) as [A B]. rewrite A in He. rewrite B. apply HC. exact He.
    + intros y. rewrite (proj1 (E0 y)). apply HD.
    + unfold slotbuf, q_step. rewrite (proj1 (E0 j)). reflexivity.
Qed.

Lemma dec_init : Dec (init_dstate dt). Proof. intros x. constructor. Qed.

(* over a run: the slot's buffer is the abstract queue folded over the events *)
Lemma slot_run evs : forall s ds sf dsf, Ctr ds -> Dec ds -> dfinal st dt s ds evs = Some (sf, dsf) ->
  Ctr dsf /\ Dec dsf /\ map pv (slotbuf dsf) = fold_left q_step evs (map pv (slotbuf ds)).
Proof.
  induction evs as [|e r IH]; intros s ds sf dsf HC HD H; cbn [dfinal] in H; [injection H as _ <-; auto|].
  destruct (dapply_gen false st dt (s, ds) e) as [s' ds' inp| |] eqn:E; try discriminate.
  destruct (slot_step _ _ _ _ _ _ HC HD E) as (C1 & D1 & E1).
  destruct (IH _ _ _ _ C1 D1 H) as (C2 & D2 & E2). split; [exact C2|]. split; [exact D2|].
  cbn [fold_left]. rewrite <- E1. exact E2.
Qed.

(* ---- the queue as a function of the source's outputs ---- *)
Definition ev_pushes (e:devent) : list (Z*Z) := match e with DData i ot _ data => slot_pushes i ot data | _ => [] end.
Definition stream (evs:list devent) : list (Z*Z) := flat_map ev_pushes evs.
Definition omax (T:option Z) (t:Z) : option Z := Some (match T with None => t | Some T0 => Z.max T0 t end).
Definition b_step (T:option Z) (e:devent) : option Z :=
  match e with DBegin i t _ => if Nat.eqb i j then omax T (thd t) else T | _ => T end.
(* the latest time for which a step of j has begun *)
Definition lastb (evs:list devent) : option Z := fold_left b_step evs None.
Definition above (T:option Z) (p:Z*Z) : bool := match T with None => true | Some T0 => T0 <? fst p end.

(* every pushed entry is due after all steps of j that have begun before the push *)
Definition timely (evs:list devent) : Prop := forall pre i ot ports data post, evs = pre ++ DData i ot ports data :: post ->
  forall p, In p (slot_pushes i ot data) -> above (lastb pre) p = true.

Lemma filter_all {A} (f : A -> bool) l : (forall x, In x l -> f x = true) -> filter f l = l.
Proof. induction l as [|x l IH]; intros H; simpl; [reflexivity|]. rewrite (H x (or_introl eq_refl)), IH; [reflexivity|]. intros y Hy. apply H. right. exact Hy. Qed.
Lemma filter_filter_and {A} (f g : A -> bool) l : filter f (filter g l) = filter (fun x => f x && g x) l.
Proof. induction l as [|x l IH]; simpl; [reflexivity|]. destruct (g x); simpl; [destruct (f x); rewrite IH; reflexivity|rewrite andb_false_r; exact IH]. Qed.
Lemma above_omax T t p : above (omax T t) p = (t <? fst p) && above T p.
Proof.
  destruct T as [T0|]; simpl; [|rewrite andb_true_r; reflexivity].
  destruct (Z.ltb_spec (Z.max T0 t) (fst p)), (Z.ltb_spec t (fst p)), (Z.ltb_spec T0 (fst p)); simpl; try reflexivity; lia.
Qed.

Lemma queue_is_stream evs : timely evs -> fold_left q_step evs [] = filter (above (lastb evs)) (stream evs).
Proof.
  induction evs as [|e l IH] using rev_ind; intros HT; [reflexivity|].
  assert (HT' : timely l).
  { intros pre i ot ports data post E. apply (HT pre i ot ports data (post ++ [e])). rewrite E, <- app_assoc. reflexivity. }
  specialize (IH HT'). unfold lastb, stream in *. rewrite !fold_left_app, flat_map_app. cbn [fold_left flat_map]. rewrite app_nil_r, IH.
  destruct e as [e|i t m|i ot ports data|i w x a0 v]; cbn [q_step b_step ev_pushes]; rewrite ?app_nil_r; try reflexivity.
  - destruct (Nat.eqb i j); [|reflexivity]. rewrite filter_filter_and. apply filter_ext. intros p. symmetry. apply above_omax.
  - rewrite filter_app. f_equal. symmetry. apply filter_all. intros p Hp. apply (HT l i ot ports data [] eq_refl p Hp).
Qed.

Lemma lastb_some evs T : lastb evs = Some T -> exists pre t m post, evs = pre ++ DBegin j t m :: post /\ thd t = T.
Proof.
  unfold lastb. induction evs as [|e l IH] using rev_ind; [discriminate|]. rewrite fold_left_app. cbn [fold_left]. intros H.
  assert (Keep : fold_left b_step l None = Some T -> exists pre t m post, (l ++ [e]) = pre ++ DBegin j t m :: post /\ thd t = T).
  { intros H0. destruct (IH H0) as (pre & t & m & post & -> & Ht). exists pre, t, m, (post ++ [e]). rewrite <- app_assoc. auto. }
  destruct e as [e|i t m|i ot ports data|i w x a0 v]; cbn [b_step] in H; auto.
  destruct (Nat.eqb_spec i j) as [->|]; [|auto]. unfold omax in H. injection H as H.
  destruct (fold_left b_step l None) as [T0|] eqn:E0.
  - destruct (Z.max_spec T0 (thd t)) as [[_ M]|[_ M]]; rewrite M in H.
    + exists l, t, m, []. auto.
    + apply Keep. rewrite <- H. reflexivity.
  - exists l, t, m, []. auto.
Qed.

Lemma dfinal_split l1 : forall l2 s ds r, dfinal st dt s ds (l1 ++ l2) = Some r ->
  exists s1 ds1, dfinal st dt s ds l1 = Some (s1, ds1) /\ dfinal st dt s1 ds1 l2 = Some r.
Proof.
  induction l1 as [|e l1 IH]; intros l2 s ds r H; [exists s, ds; auto|].
  simpl app in H. cbn [dfinal] in *. destruct (dapply_gen false st dt (s, ds) e) as [s' ds' inp| |]; try discriminate. apply IH. exact H.
Qed.

Lemma in_map_pv_slotbuf ds p : In p (map pv (slotbuf ds)) -> exists x, In x (buffer (ds j)) /\ pv x = p.
Proof.
  intros H. apply in_map_iff in H as (x & E & Hx). exists x. split; [|exact E].
  unfold slotbuf in Hx. apply in_rev in Hx. apply filter_In in Hx. tauto.
Qed.

(* runs from the initial state push timely (C03: no event is overdue) *)
Lemma run_timely evs sf dsf : push_strict st dt -> in_range st evs ->
  dfinal st dt (init_state st) (init_dstate dt) evs = Some (sf, dsf) -> timely evs.
Proof.
  intros PS HR H pre i ot ports data post E p Hp.
  destruct (lastb pre) as [T|] eqn:EL; [|reflexivity]. simpl. apply Z.ltb_lt.
  destruct (lastb_some pre T EL) as (pre1 & t & m & pre2 & Epre & Ht). subst pre T.
  rewrite E in H. rewrite <- app_assoc in H. simpl app in H.
  destruct (dfinal_split pre1 _ _ _ _ H) as (sp & dsp & H1 & H2). cbn [dfinal] in H2.
  destruct (dapply_gen false st dt (sp, dsp) (DBegin j t m)) as [s1 ds1 inp| |] eqn:EB; try discriminate.
  change (pre2 ++ DData i ot ports data :: post) with (pre2 ++ [DData i ot ports data] ++ post) in H2. rewrite app_assoc in H2.
  destruct (dfinal_split (pre2 ++ [DData i ot ports data]) _ _ _ _ H2) as (s2 & ds2 & H3 & _).
  assert (HR3 : in_range st (pre2 ++ [DData i ot ports data])).
  { intros i0 ot0 p0 d0 Hin. apply (HR i0 ot0 p0 d0). rewrite E. apply in_app_or in Hin as [Hin|[Hin|[]]].
    - apply in_or_app. left. apply in_or_app. right. right. exact Hin.
    - apply in_or_app. right. left. exact Hin. }
  pose proof (no_event_overdue st dt OK PS pre1 j t m _ sp dsp s1 ds1 inp s2 ds2 HR3 H1 EB H3) as NO.
  (* the pushed entry sits in the buffer right after the push *)
  pose proof (ctr_dfinal st dt pre1 _ _ _ _ (ctr_init dt) H1) as Cp.
  destruct (slot_run pre1 _ _ _ _ (ctr_init dt) dec_init H1) as (_ & Dp & _).
  destruct (slot_step _ _ _ _ _ _ Cp Dp EB) as (C1 & D1 & _).
  destruct (dfinal_split pre2 _ _ _ _ H3) as (s3 & ds3 & H4 & H5).
  destruct (slot_run pre2 _ _ _ _ C1 D1 H4) as (C3 & D3 & _).
  cbn [dfinal] in H5. destruct (dapply_gen false st dt (s3, ds3) (DData i ot ports data)) as [s4 ds4 inp4| |] eqn:ED; try discriminate.
  injection H5 as _ <-. destruct (slot_step _ _ _ _ _ _ C3 D3 ED) as (_ & _ & E4). cbn [q_step] in E4.
  assert (Hin : In p (map pv (slotbuf ds4))) by (rewrite E4; apply in_or_app; right; exact Hp).
  destruct (in_map_pv_slotbuf ds4 p Hin) as (x & Hx & <-). apply (NO x Hx).
Qed.

(* the slot's buffer after a run from the initial state: the source's stream, minus what was due at a step of j *)
Theorem slot_of_run evs s ds : push_strict st dt -> in_range st evs ->
  dfinal st dt (init_state st) (init_dstate dt) evs = Some (s, ds) ->
  Dec ds /\ map pv (slotbuf ds) = filter (above (lastb evs)) (stream evs).
Proof.
  intros PS HR H. destruct (slot_run evs _ _ _ _ (ctr_init dt) dec_init H) as (_ & D & E). split; [exact D|].
  rewrite E. change (map pv (slotbuf (init_dstate dt))) with (@nil (Z*Z)). apply queue_is_stream. eapply run_timely; eauto.
Qed.

Lemma lastb_ge l t m : In (DBegin j t m) l -> exists T, lastb l = Some T /\ thd t <= T.
Proof.
  unfold lastb. induction l as [|e l IH] using rev_ind; [intros []|]. intros Hin. rewrite fold_left_app. cbn [fold_left].
  apply in_app_or in Hin as [Hin|[->|[]]].
  - destruct (IH Hin) as (T & -> & Hle). destruct e as [e|i t' m'|i ot ports data|i w x a0 v]; cbn [b_step]; eauto.
    destruct (Nat.eqb i j); [|eauto]. unfold omax. eexists. split; [reflexivity|lia].
  - cbn [b_step]. rewrite Nat.eqb_refl. unfold omax. destruct (fold_left b_step l None); eexists; split; try reflexivity; lia.
Qed.

(* everything that is due at or before t has been pushed when BEGIN(j,t) happens *)
Lemma later_pushes_later evs pre t m post : timely evs -> evs = pre ++ DBegin j t m :: post ->
  forall p, In p (stream post) -> thd t < fst p.
Proof.
  intros HT E p Hp. unfold stream in Hp. apply in_flat_map in Hp as (e & He & Hpe).
  destruct e as [e|i t' m'|i ot ports data|i w x a0 v]; try contradiction. cbn [ev_pushes] in Hpe.
  apply in_split in He as (post1 & post2 & ->).
  assert (E2 : evs = (pre ++ DBegin j t m :: post1) ++ DData i ot ports data :: post2) by (rewrite E, <- app_assoc; reflexivity).
  pose proof (HT _ i ot ports data post2 E2 p Hpe) as Ha.
  destruct (lastb_ge (pre ++ DBegin j t m :: post1) t m) as (T & ET & Hle); [apply in_or_app; right; left; reflexivity|].
  rewrite ET in Ha. simpl in Ha. apply Z.ltb_lt in Ha. lia.
Qed.

(* ---- the choice among the due entries of a slot ---- *)
Definition pick_step (best:option (Z*Z)) (p:Z*Z) : option (Z*Z) :=
  match best with None => Some p | Some b => if fst b <=? fst p then Some p else Some b end.
(* the pair with the largest due time, the LAST one of them in the list *)
Definition pick (l:list (Z*Z)) : option (Z*Z) := fold_left pick_step l None.
Definition pick_step_e (best:option bufentry) (x:bufentry) : option bufentry :=
  match best with None => Some x | Some b => if btime b <=? btime x then Some x else Some b end.

Lemma pick_map l : forall best, fold_left pick_step (map pv l) (option_map pv best) = option_map pv (fold_left pick_step_e l best).
Proof.
  induction l as [|x l IH]; intros best; [reflexivity|]. cbn [map fold_left]. rewrite <- IH. f_equal.
  destruct best as [b|]; simpl; [|reflexivity]. destruct (btime b <=? btime x); reflexivity.
Qed.

Lemma ble_trans x y z : ble x y -> ble y z -> ble x z.
Proof. unfold ble. intros [A|[A B]] [C|[C D]]; [left|left|left|right]; lia. Qed.

Lemma pick_e_max l : forall best, StronglySorted (fun e y : bufentry => (bctr e < bctr y)%nat) l ->
  (forall b, best = Some b -> forall y, In y l -> (bctr b < bctr y)%nat) ->
  match fold_left pick_step_e l best with
  | None => best = None /\ l = []
  | Some m => (Some m = best \/ In m l) /\ (forall b, best = Some b -> ble b m) /\ (forall x, In x l -> ble x m)
  end.
Proof.
  induction l as [|x l IH]; intros best Hs Hb; cbn [fold_left].
  - destruct best as [b|]; [|auto]. split; [left; reflexivity|]. split; [intros b0 E; injection E as <-; right; split; [reflexivity|lia]|intros x []].
  - inversion Hs as [|? ? Hs' Hx]; subst. rewrite Forall_forall in Hx.
    set (best' := pick_step_e best x).
    assert (Hb' : forall b, best' = Some b -> forall y, In y l -> (bctr b < bctr y)%nat).
    { intros b E y Hy. unfold best', pick_step_e in E. destruct best as [b0|].
      - destruct (btime b0 <=? btime x); injection E as <-; [apply Hx; exact Hy|apply (Hb b0 eq_refl); right; exact Hy].
      - injection E as <-. apply Hx. exact Hy. }
    specialize (IH best' Hs' Hb'). destruct (fold_left pick_step_e l best') as [m|].
    + destruct IH as (Hm & Hbm & Hall).
      assert (Hxm : ble x m /\ forall b, best = Some b -> ble b m).
      { unfold best', pick_step_e in Hbm. destruct best as [b0|].
        - destruct (Z.leb_spec (btime b0) (btime x)) as [Hle|Hlt].
          + pose proof (Hbm x eq_refl) as Bx. split; [exact Bx|]. intros b E. injection E as <-. apply (ble_trans _ x); [|exact Bx].
            pose proof (Hb b0 eq_refl x (or_introl eq_refl)). unfold ble. lia.
          + pose proof (Hbm b0 eq_refl) as Bb. split; [apply (ble_trans _ b0); [unfold ble; lia|exact Bb]|]. intros b E. injection E as <-. exact Bb.
        - split; [apply (Hbm x eq_refl)|intros b E; discriminate]. }
      destruct Hxm as [Hxm Hbest]. split.
      * destruct Hm as [Hm|Hm]; [|right; right; exact Hm]. unfold best', pick_step_e in Hm. destruct best as [b0|].
        -- destruct (btime b0 <=? btime x); injection Hm as ->; [right; left; reflexivity|left; reflexivity].
        -- injection Hm as ->. right. left. reflexivity.
      * split; [exact Hbest|]. intros y [<-|Hy]; [exact Hxm|apply Hall; exact Hy].
    + destruct IH as [E _]. unfold best', pick_step_e in E. destruct best as [b0|]; [destruct (btime b0 <=? btime x)|]; discriminate.
Qed.

Lemma sorted_snoc {A} (R : A -> A -> Prop) l x : StronglySorted R l -> (forall y, In y l -> R y x) -> StronglySorted R (l ++ [x]).
Proof.
  induction 1 as [|z l Hs IH Hz]; intros Hx; simpl; [constructor; constructor|].
  constructor; [apply IH; intros y Hy; apply Hx; right; exact Hy|].
  rewrite Forall_forall in *. intros y Hy. apply in_app_or in Hy as [Hy|[<-|[]]]; [apply Hz; exact Hy|apply Hx; left; reflexivity].
Qed.
Lemma sorted_rev {A} (R : A -> A -> Prop) l : StronglySorted R l -> StronglySorted (fun x y => R y x) (rev l).
Proof.
  induction 1 as [|z l Hs IH Hz]; simpl; [constructor|]. apply sorted_snoc; [exact IH|].
  rewrite Forall_forall in Hz. intros y Hy. apply Hz. apply in_rev. exact Hy.
Qed.
Lemma sorted_ctr_inj l : StronglySorted (fun e y : bufentry => (bctr y < bctr e)%nat) l ->
  forall x y, In x l -> In y l -> bctr x = bctr y -> x = y.
Proof.
  induction 1 as [|z l Hs IH Hz]; intros x y Hx Hy E; [destruct Hx|]. rewrite Forall_forall in Hz.
  destruct Hx as [<-|Hx], Hy as [<-|Hy]; auto.
  - specialize (Hz y Hy). lia.
  - specialize (Hz x Hx). lia.
Qed.
Lemma filter_none {A} (f : A -> bool) l : (forall x, In x l -> f x = false) -> filter f l = [].
Proof. induction l as [|x l IH]; intros H; simpl; [reflexivity|]. rewrite (H x (or_introl eq_refl)). apply IH. intros y Hy. apply H. right. exact Hy. Qed.
Lemma filter_map_pv_le (t:Z) l : filter (fun p : Z*Z => fst p <=? t) (map pv l) = map pv (filter (fun e => btime e <=? t) l).
Proof. induction l as [|x l IH]; simpl; [reflexivity|]. destruct (btime x <=? t); simpl; rewrite IH; reflexivity. Qed.

(* the entry the step is given for the slot (Persist.v: the last entry of the slot among the due ones, sorted by due time
   and arrival number) is `pick` of the slot's due pairs in arrival order *)
Theorem last_for_is_pick (L:list bufentry) (step:Z) : StronglySorted (fun e y : bufentry => (bctr y < bctr e)%nat) L ->
  option_map pv (last_for a k (sort_b (filter (fun e => btime e <=? step) L))) =
  pick (filter (fun p => fst p <=? step) (map pv (rev (filter (slot a k) L)))).
Proof.
  intros HL. set (due := filter (fun e => btime e <=? step) L).
  rewrite filter_map_pv_le, filter_rev', filter_comm. fold due.
  set (l := rev (filter (slot a k) due)).
  assert (Sd : StronglySorted (fun e y : bufentry => (bctr y < bctr e)%nat) (filter (slot a k) due)) by (apply sorted_filter, sorted_filter; exact HL).
  assert (Sl : StronglySorted (fun e y : bufentry => (bctr e < bctr y)%nat) l) by (apply (sorted_rev _ _ Sd)).
  unfold pick. change (@None (Z*Z)) with (option_map pv None). rewrite pick_map.
  pose proof (pick_e_max l None Sl (fun b E => ltac:(discriminate))) as PM.
  destruct (last_for a k (sort_b due)) as [e|] eqn:EL.
  - destruct (last_due_is_latest a k due e EL) as (He & Hse & Hmax).
    assert (Hel : In e l) by (unfold l; rewrite <- in_rev; apply filter_In; auto).
    destruct (fold_left pick_step_e l None) as [m|]; [|destruct PM as [_ E]; rewrite E in Hel; destruct Hel].
    destruct PM as ([Hm|Hm] & _ & Hall); [discriminate|].
    assert (Hmd : In m (filter (slot a k) due)) by (unfold l in Hm; rewrite <- in_rev in Hm; exact Hm).
    apply filter_In in Hmd as [Hmd Hsm].
    destruct (Hmax m Hmd Hsm) as [Hme| ->]; [|reflexivity].
    pose proof (Hall e Hel) as Hem.
    assert (bctr m = bctr e) by (unfold ble in *; lia).
    rewrite (sorted_ctr_inj _ Sd m e); auto; apply filter_In; auto.
  - assert (l = []) as ->; [|reflexivity]. unfold l. rewrite filter_none; [reflexivity|].
    intros x Hx. unfold last_for in EL. apply (find_none _ _ EL x). rewrite <- in_rev. apply sort_b_in. exact Hx.
Qed.

(* ---- two interleavings ---- *)
Definition begins_of (evs:list devent) (t:Z) : Prop := exists c m, In (DBegin j c m) evs /\ thd c = t.
Lemma lastb_same l1 l2 : (forall t, begins_of l1 t <-> begins_of l2 t) -> lastb l1 = lastb l2.
Proof.
  assert (G : forall l T, lastb l = Some T -> begins_of l T /\ forall t, begins_of l t -> t <= T).
  { intros l T E. split.
    - destruct (lastb_some l T E) as (pre & t & m & post & -> & Ht). exists t, m. split; [apply in_or_app; right; left; reflexivity|exact Ht].
    - intros t (c & m & Hin & <-). destruct (lastb_ge l c m Hin) as (T' & E' & Hle). congruence. }
  assert (N : forall l, lastb l = None -> forall t, ~ begins_of l t).
  { intros l E t (c & m & Hin & _). destruct (lastb_ge l c m Hin) as (T' & E' & _). congruence. }
  intros H. destruct (lastb l1) as [T1|] eqn:E1, (lastb l2) as [T2|] eqn:E2; auto.
  - destruct (G _ _ E1) as [B1 M1], (G _ _ E2) as [B2 M2]. f_equal.
    pose proof (M2 T1 (proj1 (H T1) B1)). pose proof (M1 T2 (proj2 (H T2) B2)). lia.
  - destruct (G _ _ E1) as [B1 _]. exfalso. apply (N _ E2 T1). apply H. exact B1.
  - destruct (G _ _ E2) as [B2 _]. exfalso. apply (N _ E1 T2). apply H. exact B2.
Qed.

Lemma stream_produced evs : stream evs = flat_map (fun od : Z * odata => slot_pushes k (fst od) (snd od)) (produced k evs).
Proof.
  assert (Z0 : forall i ot data, i <> k -> slot_pushes i ot data = []).
  { intros i ot data Hn. unfold slot_pushes. induction (pushes dt i) as [|[sa dests] ps IH]; simpl; [reflexivity|]. rewrite IH, app_nil_r.
    unfold port_push. simpl. destruct (aget sa data) as [v|]; [|reflexivity].
    induction dests as [|[[dest sh] da] dests IHd]; simpl; [reflexivity|]. rewrite IHd.
    destruct (Nat.eqb_spec i k) as [->|_]; [contradiction|]. rewrite !andb_false_r. reflexivity. }
  unfold stream. induction evs as [|e r IH]; [reflexivity|]. cbn [flat_map produced]. rewrite IH.
  destruct e as [e|i t m|i ot ports data|i w x a0 v]; try reflexivity. cbn [ev_pushes].
  destruct (Nat.eqb_spec k i) as [<-|Hn]; [reflexivity|]. rewrite Z0 by (intros E; apply Hn; symmetry; exact E). reflexivity.
Qed.

(* what BEGIN(j,t) finds due for the slot, as a function of the whole run *)
Theorem due_at_begin pre t m post sp dsp sf dsf : push_strict st dt -> in_range st (pre ++ DBegin j t m :: post) ->
  dfinal st dt (init_state st) (init_dstate dt) pre = Some (sp, dsp) ->
  dfinal st dt (init_state st) (init_dstate dt) (pre ++ DBegin j t m :: post) = Some (sf, dsf) ->
  option_map pv (last_for a k (sort_b (filter (fun e => btime e <=? thd t) (buffer (dsp j))))) =
  pick (filter (above (lastb pre)) (filter (fun p => fst p <=? thd t) (stream (pre ++ DBegin j t m :: post)))).
Proof.
  intros PS HR Hpre Hall.
  assert (HRp : in_range st pre) by (intros i ot p d Hin; apply (HR i ot p d); apply in_or_app; left; exact Hin).
  destruct (slot_of_run pre sp dsp PS HRp Hpre) as (Dp & Ep).
  rewrite (last_for_is_pick (buffer (dsp j)) (thd t) (Dp j)). fold (slotbuf dsp). rewrite Ep. f_equal.
  rewrite filter_comm. f_equal.
  unfold stream. rewrite flat_map_app, filter_app. cbn [flat_map ev_pushes]. fold (stream post).
  rewrite (filter_none _ (stream post)); [rewrite app_nil_r; reflexivity|].
  intros p Hp. pose proof (later_pushes_later _ pre t m post (run_timely _ _ _ PS HR Hall) eq_refl p Hp). apply Z.leb_gt. exact H.
Qed.

(* two interleavings in which the source k produces the same outputs in its own order, and in which the same steps of j
   have begun before BEGIN(j,t), find the same event due for the slot (a,k) - or none in both *)
Theorem due_same_in_two_runs t :
  push_strict st dt ->
  forall preA mA postA spA dspA sfA dsfA, in_range st (preA ++ DBegin j t mA :: postA) ->
  dfinal st dt (init_state st) (init_dstate dt) preA = Some (spA, dspA) ->
  dfinal st dt (init_state st) (init_dstate dt) (preA ++ DBegin j t mA :: postA) = Some (sfA, dsfA) ->
  forall preB mB postB spB dspB sfB dsfB, in_range st (preB ++ DBegin j t mB :: postB) ->
  dfinal st dt (init_state st) (init_dstate dt) preB = Some (spB, dspB) ->
  dfinal st dt (init_state st) (init_dstate dt) (preB ++ DBegin j t mB :: postB) = Some (sfB, dsfB) ->
  produced k (preA ++ DBegin j t mA :: postA) = produced k (preB ++ DBegin j t mB :: postB) ->
  (forall t', begins_of preA t' <-> begins_of preB t') ->
  option_map pv (last_for a k (sort_b (filter (fun e => btime e <=? thd t) (buffer (dspA j))))) =
  option_map pv (last_for a k (sort_b (filter (fun e => btime e <=? thd t) (buffer (dspB j))))).
Proof.
  intros PS preA mA postA spA dspA sfA dsfA RA PA FA preB mB postB spB dspB sfB dsfB RB PB FB HP HB.
  rewrite (due_at_begin preA t mA postA spA dspA sfA dsfA PS RA PA FA), (due_at_begin preB t mB postB spB dspB sfB dsfB PS RB PB FB).
  rewrite (lastb_same preA preB HB), !stream_produced, HP. reflexivity.
Qed.

(* ... and the step is given the same value on that slot when an event is due; when none is due both read their registers
   (set_data value, else the remembered value) *)
Theorem pushed_same_in_two_runs t : push_strict st dt -> not_pulled dt j a k ->
  forall preA mA postA spA dspA s1A ds1A inpA sfA dsfA, in_range st (preA ++ DBegin j t mA :: postA) ->
  dfinal st dt (init_state st) (init_dstate dt) preA = Some (spA, dspA) ->
  dapply_gen false st dt (spA, dspA) (DBegin j t mA) = DOk s1A ds1A (Some inpA) ->
  dfinal st dt (init_state st) (init_dstate dt) (preA ++ DBegin j t mA :: postA) = Some (sfA, dsfA) ->
  forall preB mB postB spB dspB s1B ds1B inpB sfB dsfB, in_range st (preB ++ DBegin j t mB :: postB) ->
  dfinal st dt (init_state st) (init_dstate dt) preB = Some (spB, dspB) ->
  dapply_gen false st dt (spB, dspB) (DBegin j t mB) = DOk s1B ds1B (Some inpB) ->
  dfinal st dt (init_state st) (init_dstate dt) (preB ++ DBegin j t mB :: postB) = Some (sfB, dsfB) ->
  produced k (preA ++ DBegin j t mA :: postA) = produced k (preB ++ DBegin j t mB :: postB) ->
  (forall t', begins_of preA t' <-> begins_of preB t') ->
  (exists due v, iget a k inpA = Some (Some v) /\ iget a k inpB = Some (Some v) /\ due <= thd t /\
                 (forall T, lastb preA = Some T -> T < due)) \/
  (iget a k inpA = iget a k (merge_all_i (setdata (dspA j)) (persist (dspA j))) /\
   iget a k inpB = iget a k (merge_all_i (setdata (dspB j)) (persist (dspB j)))).
Proof.
  intros PS NP preA mA postA spA dspA s1A ds1A inpA sfA dsfA RA PA BA FA preB mB postB spB dspB s1B ds1B inpB sfB dsfB RB PB BB FB HP HB.
  pose proof (due_same_in_two_runs t PS preA mA postA spA dspA sfA dsfA RA PA FA preB mB postB spB dspB sfB dsfB RB PB FB HP HB) as E.
  assert (GA : exists dA, get_input_data dt dspA j (thd t) = (inpA, dA)).
  { unfold dapply_gen in BA. destruct (apply st spA _); [|discriminate]. destruct (get_input_data dt dspA j (thd t)) as [i0 d0]. injection BA as _ _ ->. eauto. }
  assert (GB : exists dB, get_input_data dt dspB j (thd t) = (inpB, dB)).
  { unfold dapply_gen in BB. destruct (apply st spB _); [|discriminate]. destruct (get_input_data dt dspB j (thd t)) as [i0 d0]. injection BB as _ _ ->. eauto. }
  destruct GA as [dA GA], GB as [dB GB].
  destruct (pushed_value_and_memory dt dspA j (thd t) inpA dA a k GA NP) as [VA _].
  destruct (pushed_value_and_memory dt dspB j (thd t) inpB dB a k GB NP) as [VB _].
  cbv zeta in VA, VB.
  destruct (last_for a k (sort_b (filter (fun e => btime e <=? thd t) (buffer (dspA j))))) as [eA|] eqn:LA;
    destruct (last_for a k (sort_b (filter (fun e => btime e <=? thd t) (buffer (dspB j))))) as [eB|] eqn:LB; try discriminate.
  - left. simpl in E. unfold pv in E. injection E as Et Ev. exists (btime eA), (bval eA). rewrite VA, VB, Ev. split; [reflexivity|]. split; [reflexivity|].
    destruct (last_due_is_latest a k _ eA LA) as (HinA & _ & _). apply filter_In in HinA as [HinA Hle]. apply Z.leb_le in Hle. split; [exact Hle|].
    intros T ET.
    assert (HRp : in_range st preA) by (intros i ot p d Hin; apply (RA i ot p d); apply in_or_app; left; exact Hin).
    destruct (slot_of_run preA spA dspA PS HRp PA) as (_ & Ep).
    assert (Hs : In (pv eA) (map pv (slotbuf dspA))).
    { apply in_map. unfold slotbuf. rewrite <- in_rev. apply filter_In. split; [exact HinA|].
      destruct (last_due_is_latest a k _ eA LA) as (_ & S & _). exact S. }
    rewrite Ep in Hs. apply filter_In in Hs as [_ Ha]. rewrite ET in Ha. simpl in Ha. apply Z.ltb_lt in Ha. exact Ha.
  - right. auto.
Qed.
End P.
