(* From a scenario (group table, simulator placement and types, connections, initial events, run flags) to the
   static tables the scheduler models run on: build + ancestors closure.  This is World.start/connect/run up to
   the point where sim_process tasks are created. *)
From Coq Require Import ZArith List Bool Arith.
Import ListNotations.
From MV Require Import Time.Spec Static.Groups Static.Connect Static.Build Sched.Timing Sched.Plane.

Inductive simtype := TimeBased | EventBased | Hybrid.
Record scenario := mkScen {
  sc_gt : gtab;
  sc_group : nat -> nat;            (* simulator -> group id *)
  sc_type : nat -> simtype;
  sc_n : nat;
  sc_conns : list conn;
  sc_init : list (nat * Z);          (* set_initial_event, in call order *)
  sc_until : Z; sc_maxloop : Z; sc_lazy : bool; sc_cache : bool }.

Definition sim_depth (sc : scenario) (i : nat) : nat := gdepth (sc_gt sc) (sc_group sc i).
Definition initial_nexts (sc : scenario) (i : nat) : list time :=
  let base := match sc_type sc i with EventBased => [] | _ => [repeat 0%Z (sim_depth sc i)] end in
  fold_left (fun acc (e : nat * Z) => if Nat.eqb (fst e) i then [snd e :: repeat 0%Z (sim_depth sc i - 1)] else acc) (sc_init sc) base.

Definition static_of (sc : scenario) (t : tables) (anc : anc_tab) : static :=
  mkStatic (sc_n sc) (sim_depth sc) (initial_nexts sc)
    (fun i => aget_l i (t_indel t)) (fun i => aget_l i (t_succ t)) (fun i => aget_l i (t_succw t))
    (fun i a => aget_l a (aget_l i (t_trig t))) (fun i => aget_l i anc)
    (fun i => existsb (Nat.eqb i) (t_outreq t))
    (fun i => match sc_type sc i with TimeBased => true | _ => false end)
    (sc_until sc) (sc_maxloop sc) (sc_lazy sc).
Definition dstatic_of (sc : scenario) (t : tables) : dstatic :=
  mkDStatic (sc_cache sc)
    (fun i => map (fun (e : (nat * interval) * list (nat * nat)) => ((fst (fst e), hd 0%Z (itiers (snd (fst e)))), snd e)) (aget_l i (t_pull t)))
    (fun i => map (fun (e : nat * list (nat * interval * nat)) =>
                     (fst e, map (fun (d : nat * interval * nat) => let '(dst, dl, da) := d in (dst, hd 0%Z (itiers dl), da)) (snd e))) (aget_l i (t_push t)))
    (fun i => if sc_cache sc then aget_l i (t_cinit t) else [])
    (fun i => aget_l i (t_pers t)).

Inductive prepared := Prepared (st : static) (dt : dstatic) (t : tables) (anc : anc_tab)
                    | PrepScenarioError (k : nat) | PrepCrash (k : nat) | PrepIncomparable | PrepFuel.
Definition prepare (fuel : nat) (sc : scenario) : prepared :=
  match build (sc_gt sc) (sc_group sc) (sc_conns sc) with
  | BScenarioError k => PrepScenarioError k
  | BCrash k => PrepCrash k
  | BOk t => match ancestors fuel t with
             | None => PrepIncomparable
             | Some None => PrepFuel
             | Some (Some anc) => Prepared (static_of sc t anc) (dstatic_of sc t) t anc
             end
  end.
