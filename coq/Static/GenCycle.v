(* Driver around the generated pieces of World.ensure_no_dataflow_cycles (Gen/CycleFns.v): the while loop takes the oldest
   element of `dirty` (Python's set.pop() order is not defined; the model's worklist does the same), with explicit fuel. *)
From Coq Require Import ZArith List Bool Arith.
Import ListNotations.
From MV Require Import Time.Spec Static.Build Static.Cycle Gen.CycleFns.

Fixpoint cyc_loop_gen (input_delays : nat -> list (nat * interval)) (fuel : nat) (t : dtab) (dirty : list nat) : option (option dtab) :=
  match dirty with
  | [] => Some (Some t)
  | mid :: rest =>
      match fuel with
      | O => Some None
      | S f => match cyc_step_gen input_delays t mid rest with
               | None => None
               | Some (t', dirty') => cyc_loop_gen input_delays f t' dirty'
               end
      end
  end.

Definition cycle_check_gen (fuel : nat) (sims : list nat) (input_delays : nat -> list (nat * interval)) : cyc_verdict :=
  match cyc_loop_gen input_delays fuel (cyc_init_gen sims input_delays) sims with
  | None => CycIncomparable
  | Some None => CycFuel
  | Some (Some t) => match zero_self_gen sims t with Some p => CycRejected p | None => CycAccepted end
  end.
