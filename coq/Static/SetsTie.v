(* Tie of the generated set algebra (Gen/InOrOutSet.v, regenerated from mosaik/in_or_out_set.py on every run) to the
   specification Static/Attrs.v that the C12 theorems are about: the operators with Python's dispatch, membership,
   equality, and parse_set_triple, on all arguments. *)
From Coq Require Import List Bool Arith.
Import ListNotations.
From MV Require Import Static.Attrs Gen.InOrOutSet.

Lemma tie_sub a b : py_sub a b = isub a b.
Proof. destruct a, b; reflexivity. Qed.
Lemma tie_and a b : py_and a b = iand a b.
Proof. destruct a, b; reflexivity. Qed.
Lemma tie_or a b : py_or a b = ior a b.
Proof. destruct a, b; reflexivity. Qed.
Lemma tie_eq a b : py_eq a b = seqb a b.
Proof. destruct a, b; reflexivity. Qed.
Lemma tie_contains l x : OutSet___contains__ l x = mem x (Cof l).
Proof. reflexivity. Qed.

Theorem tie_parse_set_triple u a b : MV.Gen.InOrOutSet.parse_set_triple u a b = MV.Static.Attrs.parse_set_triple u a b.
Proof.
  unfold MV.Gen.InOrOutSet.parse_set_triple, MV.Static.Attrs.parse_set_triple.
  destruct u as [u|], a as [a|], b as [b|]; simpl; rewrite ?tie_sub, ?tie_and, ?tie_or, ?tie_eq; try reflexivity;
    rewrite ?tie_sub, ?tie_and, ?tie_or, ?tie_eq; reflexivity.
Qed.
