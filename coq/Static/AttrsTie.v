(* Tie of scenario.parse_attrs to the source: the function regenerated from mosaik/scenario.py on every run
   (Gen/ParseAttrs.v, translator harness/py2coq_attrs.py; it calls the generated parse_set_triple and set equality of
   Gen/InOrOutSet.v) equals the specification Static/Attrs.parse_attrs that the C12 theorems are about, on every model
   description and simulator type. *)
From Coq Require Import List Bool Arith.
Import ListNotations.
From MV Require Import Static.Attrs Gen.InOrOutSet Static.SetsTie.
From MV Require Gen.ParseAttrs.

Theorem tie_parse_attrs d ty : MV.Gen.ParseAttrs.parse_attrs d ty = MV.Static.Attrs.parse_attrs d ty.
Proof.
  unfold MV.Gen.ParseAttrs.parse_attrs, MV.Static.Attrs.parse_attrs.
  destruct ty; cbv zeta; rewrite !tie_parse_set_triple;
    match goal with |- context [MV.Static.Attrs.parse_set_triple ?u ?a ?b] => destruct (MV.Static.Attrs.parse_set_triple u a b) as [[mi ei]| | | |] end; try reflexivity;
    rewrite ?tie_eq; repeat match goal with |- context [if ?c then _ else _] => destruct c end; try reflexivity;
    rewrite !tie_parse_set_triple;
    match goal with |- context [MV.Static.Attrs.parse_set_triple ?u ?a ?b] => destruct (MV.Static.Attrs.parse_set_triple u a b) as [[mo eo]| | | |] end; try reflexivity;
    rewrite ?tie_eq; repeat match goal with |- context [if ?c then _ else _] => destruct c end; reflexivity.
Qed.
