(* Tie of scenario.parse_attrs to the source: the function regenerated from mosaik/scenario.py on every run
   (Gen/ParseAttrs.v, translator harness/py2coq_attrs.py; it calls the generated parse_set_triple and set equality of
   Gen/InOrOutSet.v) equals the specification Static/Attrs.parse_attrs that the C12 theorems are about, on every model
   description and simulator type. *)
From Coq Require Import List Bool Arith.
Import ListNotations.
From MV Require Import Static.Attrs Static.AttrsP Gen.InOrOutSet Static.SetsTie.
From MV Require Gen.ParseAttrs.

Theorem tie_parse_attrs d ty : MV.Gen.ParseAttrs.parse_attrs d ty = MV.Static.Attrs.parse_attrs d ty.
Proof.
  unfold MV.Gen.ParseAttrs.parse_attrs, MV.Static.Attrs.parse_attrs.
  destruct ty; cbv zeta; rewrite !tie_parse_set_triple;
    match goal with |- context [MV.Static.Attrs.parse_set_triple ?u ?a ?b] => destruct (MV.Static.Attrs.parse_set_triple u a b) as [[mi ei]| | | |] end; try reflexivity;
    rewrite ?tie_eq; repeat match goal with |- context [if ?c then _ else _] => destruct c end; try reflexivity;
    rewrite !tie_parse_set_triple;
    match goal with |- context [MV.Static.Attrs.parse_set_triple ?u ?a ?b] => destruct (MV.Static.Attrs.parse_set_triple u a b) as [[mo eo]| | | |] end; try reflexivity;
    rewrite ?tie_eq; repeat match goal with |- context [if ?c then _ else _] => destruct c end; reflexivity.
Qed.

(* the classification theorem stated of the regenerated parse_attrs itself *)
Lemma generated_classification_sound : forall d ty mi ei mo eo, MV.Gen.ParseAttrs.parse_attrs d ty = POk (mi, ei, mo, eo) ->
  (forall x, mem x mi && mem x ei = false) /\ (forall x, mem x mo && mem x eo = false) /\
  (forall x, mem x mi || mem x ei = if d_any_inputs d then true else match d_attrs d with Some l => lmem x l | None => mem x mi || mem x ei end) /\
  (forall l, d_attrs d = Some l -> forall x, mem x mo || mem x eo = lmem x l) /\
  (forall l, d_nontrigger d = Some l -> mi = Fin l) /\ (forall l, d_trigger d = Some l -> ei = Fin l) /\
  (forall l, d_persistent d = Some l -> mo = Fin l) /\ (forall l, d_nonpersistent d = Some l -> eo = Fin l) /\
  (ty = ATimeBased -> (forall x, mem x ei = false) /\ (forall x, mem x eo = false)) /\
  (ty = AEventBased -> (forall x, mem x mi = false) /\ (forall x, mem x mo = false)).
Proof. intros d ty mi ei mo eo H. rewrite tie_parse_attrs in H. exact (parse_attrs_sound d ty mi ei mo eo H). Qed.
