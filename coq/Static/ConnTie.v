(* Tie of the generated connect_interval (Gen/ConnectInterval.v, regenerated from mosaik/scenario.py on every run) to the
   specification Static.Groups.connect_interval that the C11/C01 theorems are about: equal on ALL arguments. *)
From Coq Require Import ZArith List Bool Arith Lia.
Import ListNotations.
From MV Require Import Prelude.Py Prelude.PyG Gen.TieredTime Gen.ConnectInterval Time.Spec Time.Tie Static.Groups.
Open Scope Z_scope.

Definition cmap {A B} (f : A -> B) (r : cres A) : cres B := match r with COk a => COk (f a) | CErr e => CErr e end.

Lemma index_of_lt x l a : index_of x l = Some a -> (a < length l)%nat.
Proof.
  revert a; induction l as [|y l IH]; intros a H; simpl in H; [discriminate|].
  destruct (Nat.eqb x y); [injection H as <-; simpl; lia|].
  destruct (index_of x l) as [b|]; [|discriminate]. injection H as <-. specialize (IH b eq_refl). simpl. lia.
Qed.
Lemma gp_loop_lt fuel gt sgs : forall dest descent a d c, gp_loop fuel gt sgs dest descent = Some (a, d, c) -> (a < length sgs)%nat.
Proof.
  induction fuel as [|f IH]; intros dest descent a d c H; simpl in H.
  - destruct (index_of dest sgs) as [a0|] eqn:E; [|discriminate]. injection H as <- _ _. eapply index_of_lt; eauto.
  - destruct (index_of dest sgs) as [a0|] eqn:E; [injection H as <- _ _; eapply index_of_lt; eauto|].
    destruct (parent gt dest) as [p|]; [|discriminate]. eapply IH; eauto.
Qed.
Lemma group_path_ascent gt sg dg a d c : group_path gt sg dg = Some (a, d, c) -> (a < gdepth gt sg)%nat.
Proof. unfold group_path, gdepth. apply gp_loop_lt. Qed.
Lemma gdepth_pos gt g : (1 <= gdepth gt g)%nat.
Proof. unfold gdepth, gchain. destruct g; simpl; lia. Qed.

Lemma tuple_mul_zero n : py_tuple_mul [0] (Z.of_nat n) = repeat 0 n.
Proof. unfold py_tuple_mul. rewrite Nat2Z.id. induction n; simpl; [reflexivity|]. rewrite IHn. reflexivity. Qed.
Lemma set_nth_length n v l : length (set_nth n v l) = length l.
Proof. revert n; induction l as [|x l IH]; intros [|n]; simpl; auto. Qed.

Lemma setitem_in tiers j v : 0 <= j < py_len tiers -> py_setitem tiers j v = COk (set_nth (Z.to_nat j) v tiers).
Proof.
  intros H. unfold py_setitem. replace (j <? 0) with false by (symmetry; apply Z.ltb_ge; lia).
  replace (0 <=? j) with true by (symmetry; apply Z.leb_le; lia). replace (j <? py_len tiers) with true by (symmetry; apply Z.ltb_lt; lia). reflexivity.
Qed.
Lemma setitem_out tiers j v : 0 <= j -> py_len tiers <= j -> py_setitem tiers j v = CErr CAssert.
Proof.
  intros H0 H. unfold py_setitem. replace (j <? 0) with false by (symmetry; apply Z.ltb_ge; lia).
  replace (j <? py_len tiers) with false by (symmetry; apply Z.ltb_ge; lia). rewrite andb_false_r. reflexivity.
Qed.

(* the constructor call at the end, against the specification's well-formedness test *)
Lemma tie_final tiers cut pre : 
  cmap to_spec (lift (TieredInterval_new tiers (Some (Z.of_nat cut)) (Some (Z.of_nat pre)))) =
  (let r := mkI pre cut tiers in if wfIb r then COk r else CErr CAssert).
Proof.
  rewrite tie_new. unfold py_len, wfIb. cbn [ipre icut itiers].
  destruct (Nat.leb_spec 1 cut); destruct (Nat.leb_spec cut pre); destruct (Nat.leb_spec cut (length tiers));
    destruct (Z.leb_spec 1 (Z.of_nat cut)); destruct (Z.leb_spec (Z.of_nat cut) (Z.of_nat pre)); destruct (Z.leb_spec (Z.of_nat cut) (Z.of_nat (length tiers)));
    cbn [andb lift cmap]; try lia; unfold to_spec; cbn [TieredInterval_pre_length TieredInterval_cutoff TieredInterval_tiers]; rewrite ?Nat2Z.id; reflexivity.
Qed.

Theorem tie_connect_interval gt sg dg ts w :
  cmap to_spec (MV.Gen.ConnectInterval.connect_interval gt sg dg ts w) = MV.Static.Groups.connect_interval gt sg dg ts w.
Proof.
  unfold MV.Gen.ConnectInterval.connect_interval, MV.Static.Groups.connect_interval, py_group_path.
  destruct (group_path gt sg dg) as [[[a d] c]|] eqn:Egp; [|reflexivity]. simpl cbind.
  pose proof (group_path_ascent _ _ _ _ _ _ Egp) as Ha. pose proof (gdepth_pos gt dg) as Hd.
  unfold py_depth. rewrite tuple_mul_zero.
  set (pre := gdepth gt sg) in *. set (n := gdepth gt dg) in *.
  replace (Z.of_nat pre - Z.of_nat a) with (Z.of_nat (pre - a)) by lia.
  set (cut := (pre - a)%nat).
  (* the time shift *)
  assert (Hts : (if negb (ts =? 0) then cbind (py_setitem (repeat 0 n) 0 ts) (fun l => COk l) else COk (repeat 0 n)) =
                COk (if negb (ts =? 0) then set_nth 0 ts (repeat 0 n) else repeat 0 n)).
  { destruct (negb (ts =? 0)); [|reflexivity]. rewrite setitem_in by (unfold py_len; rewrite repeat_length; lia). reflexivity. }
  set (t1 := if negb (ts =? 0) then set_nth 0 ts (repeat 0 n) else repeat 0 n) in *.
  assert (Ht1 : length t1 = n) by (unfold t1; destruct (negb (ts =? 0)); rewrite ?set_nth_length; apply repeat_length).
  destruct (negb (w =? 0)) eqn:Ew; simpl andb.
  - destruct (parent gt c) as [pc|] eqn:Ep; simpl; [|reflexivity].
    rewrite Hts. simpl.
    destruct (Nat.ltb_spec cut 2) as [Hc|Hc].
    + replace (Z.of_nat cut >=? 2) with false by (symmetry; rewrite Z.geb_leb; apply Z.leb_gt; lia). reflexivity.
    + replace (Z.of_nat cut >=? 2) with true by (symmetry; rewrite Z.geb_leb; apply Z.leb_le; lia).
      destruct (Z.lt_ge_cases (Z.of_nat cut - 1) (Z.of_nat n)) as [Hin|Hout].
      * rewrite setitem_in by (unfold py_len; rewrite Ht1; lia). simpl.
        replace (Z.to_nat (Z.of_nat cut - 1)) with (cut - 1)%nat by lia. apply tie_final.
      * rewrite setitem_out by (unfold py_len; rewrite ?Ht1; lia). simpl.
        unfold wfIb. simpl. rewrite set_nth_length, Ht1.
        destruct (Nat.leb_spec cut n); [lia|]. rewrite !andb_false_r. reflexivity.
  - simpl. rewrite Hts. simpl. apply tie_final.
Qed.
