(* Proofs for C11: exactness of the rejection decision of connect_one, no crash on well-formed group tables,
   shape of the resulting delay, sibling groups. *)
From Coq Require Import ZArith List Bool Arith Lia.
Import ListNotations.
From MV Require Import Time.Spec Time.Ord Time.Laws Static.Groups Static.GroupsP Static.Connect.

Lemma set_nth_length n v l : length (set_nth n v l) = length l.
Proof. revert n; induction l as [|x r IH]; intros [|n]; simpl; auto. Qed.
Lemma set_nth_nth n v l : (n < length l)%nat -> nth n (set_nth n v l) 0%Z = v.
Proof. revert n; induction l as [|x r IH]; intros [|n] H; simpl in *; try lia; auto. apply IH. lia. Qed.
Lemma set_nth_other n m v l : n <> m -> nth m (set_nth n v l) 0%Z = nth m l 0%Z.
Proof. revert n m; induction l as [|x r IH]; intros [|n] [|m] H; simpl; auto; try congruence. Qed.

Section C.
Variable gt : gtab.
Hypothesis WF : wfGb gt = true.

(* connect_interval: total, and what it returns *)
Theorem connect_interval_spec sg dg sh wk : (sg < length gt)%nat -> (dg < length gt)%nat ->
  exists c, lca gt sg dg = Some c /\ (c < length gt)%nat /\
    In c (gchain gt sg) /\ In c (gchain gt dg) /\
    (forall b, In b (gchain gt sg) -> In b (gchain gt dg) -> In b (gchain gt c)) /\
    if negb (wk =? 0)%Z && Nat.eqb c 0 then connect_interval gt sg dg sh wk = CErr CScenarioError
    else exists d, connect_interval gt sg dg sh wk = COk d /\ wfI d /\
         ipre d = gdepth gt sg /\ icut d = gdepth gt c /\ length (itiers d) = gdepth gt dg /\
         (forall i, (i < gdepth gt dg)%nat -> nth i (itiers d) 0%Z =
             if Nat.eqb i 0 then (if negb (wk =? 0)%Z && Nat.eqb (gdepth gt c) 1 then wk else sh)
             else if negb (wk =? 0)%Z && Nat.eqb i (gdepth gt c - 1) then wk else 0%Z).
Proof.
  intros Hs Hd. destruct (group_path_total gt WF sg dg Hs Hd) as (a & dd & c & G & _).
  destruct (group_path_lca gt WF sg dg a dd c Hs Hd G) as (I1 & I2 & I3 & D1 & D2 & Hc).
  exists c. unfold lca. rewrite G. split; [reflexivity|]. split; [exact Hc|]. split; [exact I1|]. split; [exact I2|]. split; [exact I3|].
  unfold connect_interval. rewrite G. rewrite D1.
  pose proof (depth_pos gt WF c Hc) as P1. pose proof (depth_pos gt WF sg Hs) as P2. pose proof (depth_pos gt WF dg Hd) as P3.
  pose proof (depth_unfold gt WF c Hc) as DU.
  destruct (negb (wk =? 0)%Z) eqn:Ew; cbn [andb].
  - destruct (parent gt c) as [p|] eqn:Ep.
    + assert (Hc0 : c <> 0%nat) by (intros ->; rewrite (parent_root gt WF) in Ep; discriminate).
      destruct (Nat.eqb_spec c 0); [contradiction|].
      assert (P4 : (1 <= gdepth gt p)%nat) by (apply depth_pos; auto; pose proof (parent_lt gt WF c p Hc Ep); lia).
      destruct (Nat.ltb_spec (gdepth gt c) 2); [lia|].
      set (tiers := set_nth (gdepth gt c - 1) wk (if negb (sh =? 0)%Z then set_nth 0 sh (repeat 0%Z (gdepth gt dg)) else repeat 0%Z (gdepth gt dg))).
      assert (Lt : length tiers = gdepth gt dg).
      { unfold tiers. rewrite set_nth_length. destruct (negb (sh =? 0)%Z); rewrite ?set_nth_length, repeat_length; reflexivity. }
      assert (W : wfIb (mkI (gdepth gt sg) (gdepth gt c) tiers) = true).
      { unfold wfIb; cbn [ipre icut itiers]. rewrite Lt. rewrite !andb_true_iff, !Nat.leb_le. lia. }
      rewrite W. eexists. split; [reflexivity|]. split; [apply wfIb_iff; exact W|]. cbn [ipre icut itiers].
      split; [reflexivity|]. split; [reflexivity|]. split; [exact Lt|].
      intros i Hi. destruct (Nat.eqb_spec (gdepth gt c) 1); [lia|]. cbn [andb].
      unfold tiers. destruct (Nat.eqb_spec i (gdepth gt c - 1)) as [->|Hne].
      * rewrite set_nth_nth by (destruct (negb (sh =? 0)%Z); rewrite ?set_nth_length, repeat_length; lia).
        destruct (Nat.eqb_spec (gdepth gt c - 1) 0); [lia|reflexivity].
      * rewrite set_nth_other by lia. destruct (Nat.eqb_spec i 0) as [->|Hi0].
        -- destruct (sh =? 0)%Z eqn:Es; cbn [negb].
           ++ apply Z.eqb_eq in Es. subst. apply nth_repeat.
           ++ apply set_nth_nth. rewrite repeat_length. lia.
        -- destruct (negb (sh =? 0)%Z); rewrite ?set_nth_other by lia; apply nth_repeat.
    + pose proof (parent_none gt WF c Hc Ep). subst. reflexivity.
  - set (tiers := (if negb (sh =? 0)%Z then set_nth 0 sh (repeat 0%Z (gdepth gt dg)) else repeat 0%Z (gdepth gt dg))).
    assert (Lt : length tiers = gdepth gt dg).
    { unfold tiers. destruct (negb (sh =? 0)%Z); rewrite ?set_nth_length, repeat_length; reflexivity. }
    assert (W : wfIb (mkI (gdepth gt sg) (gdepth gt c) tiers) = true).
    { unfold wfIb; cbn [ipre icut itiers]. rewrite Lt. rewrite !andb_true_iff, !Nat.leb_le. lia. }
    rewrite W. eexists. split; [reflexivity|]. split; [apply wfIb_iff; exact W|]. cbn [ipre icut itiers].
    split; [reflexivity|]. split; [reflexivity|]. split; [exact Lt|].
    intros i Hi. unfold tiers. destruct (Nat.eqb_spec i 0) as [->|Hi0].
    + destruct (sh =? 0)%Z eqn:Es; cbn [negb].
      * apply Z.eqb_eq in Es. subst. apply nth_repeat.
      * apply set_nth_nth. rewrite repeat_length. lia.
    + destruct (negb (sh =? 0)%Z); rewrite ?set_nth_other by lia; apply nth_repeat.
Qed.

(* C11, decision: connect_one rejects exactly in the four documented cases and never crashes *)
Theorem connect_one_decision sg dg f : (sg < length gt)%nat -> (dg < length gt)%nat ->
  is_rejected (connect_one gt sg dg f) = should_reject gt sg dg f /\
  (forall e, connect_one gt sg dg f <> Crashed e).
Proof.
  intros Hs Hd.
  destruct (connect_interval_spec sg dg (shifted f) (if weak f then 1 else 0)%Z Hs Hd) as (c & L & Hc & _ & _ & _ & R).
  destruct (connect_interval_spec sg dg 0%Z 0%Z Hs Hd) as (c' & L' & _ & _ & _ & _ & R').
  simpl in R'. destruct R' as (pl & Epl & _).
  unfold connect_one, should_reject, problems. rewrite L.
  destruct (src_is_out f), (dst_is_in f); simpl; try (split; [reflexivity|intros; discriminate]).
  destruct ((negb (shifted f =? 0)%Z || weak f) && dst_nontrigger f && negb (has_init f)); simpl;
    try (split; [reflexivity|intros; discriminate]).
  destruct (weak f); simpl in *.
  - destruct (Nat.eqb c 0).
    + rewrite R. split; [reflexivity|intros; discriminate].
    + destruct R as (d & Ed & _). rewrite Ed, Epl. split; [reflexivity|intros; discriminate].
  - destruct R as (d & Ed & _). rewrite Ed, Epl. split; [reflexivity|intros; discriminate].
Qed.

(* an accepted connection performs exactly these table updates, in this order; a rejected one performs none *)
Definition effects_of (f : cflags) (delay plain : interval) : list effect :=
  [EInputDelay delay] ++
  (if src_persistent f && negb (use_cache f) then [EPersistSetdefault] else []) ++
  [EOutputRequest] ++
  (if use_cache f && src_persistent f then [EPulled delay] else [EPushed delay]) ++
  [ESuccessor plain] ++
  (if dst_trigger f then [ETrigger delay] else []) ++
  (if has_init f then (if use_cache f && src_persistent f then [EInitCache (- shifted f)%Z] else [EInitPersist]) else []).
Theorem connect_one_effects sg dg f es : connect_one gt sg dg f = Accepted es ->
  exists delay plain,
    connect_interval gt sg dg (shifted f) (if weak f then 1 else 0)%Z = COk delay /\
    connect_interval gt sg dg 0 0 = COk plain /\ (es = effects_of f delay plain).
Proof.
  unfold connect_one. destruct (problems f); [|discriminate].
  destruct (connect_interval gt sg dg (shifted f) _) as [delay|[]] eqn:E1; try discriminate.
  destruct (connect_interval gt sg dg 0 0) as [plain|e] eqn:E2; try discriminate.
  intros H. injection H as <-. exists delay, plain. auto.
Qed.
Lemma effects_trigger f delay plain d :
  In (ETrigger d) (effects_of f delay plain) <-> dst_trigger f = true /\ d = delay.
Proof.
  unfold effects_of.
  destruct (src_persistent f), (use_cache f), (dst_trigger f), (has_init f); simpl; intuition congruence.
Qed.
Lemma effects_routing f delay plain :
  (In (EPulled delay) (effects_of f delay plain) <-> (use_cache f && src_persistent f) = true) /\
  (In (EPushed delay) (effects_of f delay plain) <-> (use_cache f && src_persistent f) = false).
Proof.
  unfold effects_of.
  destruct (src_persistent f), (use_cache f), (dst_trigger f), (has_init f); simpl; intuition congruence.
Qed.

(* distinct sibling groups share sub-time only through their parent *)
Theorem siblings_interval g1 g2 p f : (g1 < length gt)%nat -> (g2 < length gt)%nat ->
  parent gt g1 = Some p -> parent gt g2 = Some p -> g1 <> g2 ->
  lca gt g1 g2 = Some p /\
  (weak f = true -> p = 0%nat -> is_rejected (connect_one gt g1 g2 f) = true) /\
  (forall d, connect_interval gt g1 g2 (shifted f) (if weak f then 1 else 0)%Z = COk d -> icut d = gdepth gt p).
Proof.
  intros H1 H2 P1 P2 Hne. pose proof (siblings_common_parent gt WF g1 g2 p H1 H2 P1 P2 Hne) as G.
  assert (L : lca gt g1 g2 = Some p) by (unfold lca; rewrite G; reflexivity).
  split; [exact L|]. split.
  - intros Hw Hp. destruct (connect_one_decision g1 g2 f H1 H2) as [D _]. rewrite D. unfold should_reject.
    rewrite L, Hw, Hp. simpl. rewrite !orb_true_r. reflexivity.
  - intros d Ed. destruct (connect_interval_spec g1 g2 (shifted f) (if weak f then 1 else 0)%Z H1 H2) as (c & L2 & _ & _ & _ & _ & R).
    rewrite L in L2. injection L2 as <-.
    destruct (negb _ && Nat.eqb p 0); [congruence|]. destruct R as (d' & Ed' & _ & _ & Hcut & _). congruence.
Qed.
End C.
