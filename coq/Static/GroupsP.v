(* Proofs about the group model: group_path is total on well-formed tables and returns the deepest common
   enclosing group; connect_interval never crashes and yields (gdepth src, gdepth common, tiers). *)
From Coq Require Import ZArith List Bool Arith Lia.
Import ListNotations.
From MV Require Import Time.Spec Static.Groups.

Section G.
Variable gt : gtab.
Hypothesis WF : wfGb gt = true.

Lemma wfG_from_nth k l i : wfG_from k l = true -> (i < length l)%nat ->
  match nth i l None with Some q => (q < k + i)%nat | None => (k + i = 0)%nat end.
Proof.
  revert k i; induction l as [|p r IH]; intros k i H Hi; simpl in *; [lia|].
  apply andb_true_iff in H as [H1 H2]. destruct i as [|i].
  - destruct p as [q|].
    + apply Nat.ltb_lt in H1. lia.
    + apply Nat.eqb_eq in H1. lia.
  - specialize (IH (S k) i H2 ltac:(lia)). destruct (nth i r None); lia.
Qed.
Lemma len_pos : (0 < length gt)%nat.
Proof. unfold wfGb in WF. apply andb_true_iff in WF as [H _]. destruct (length gt); simpl in H; [discriminate|lia]. Qed.
Lemma parent_spec g : (g < length gt)%nat ->
  match parent gt g with Some q => (q < g)%nat | None => g = 0%nat end.
Proof.
  intros Hg. unfold wfGb in WF. apply andb_true_iff in WF as [_ H].
  pose proof (wfG_from_nth 0 gt g H Hg) as P. unfold parent. destruct (nth g gt None); simpl in P; lia.
Qed.
Lemma parent_lt g p : (g < length gt)%nat -> parent gt g = Some p -> (p < g)%nat.
Proof. intros Hg E. pose proof (parent_spec g Hg) as P. rewrite E in P. exact P. Qed.
Lemma parent_root : parent gt 0 = None.
Proof. pose proof (parent_spec 0 len_pos) as P. destruct (parent gt 0); [lia|reflexivity]. Qed.
Lemma parent_none g : (g < length gt)%nat -> parent gt g = None -> g = 0%nat.
Proof. intros Hg E. pose proof (parent_spec g Hg) as P. rewrite E in P. exact P. Qed.

Lemma chain_S f : forall g, (g < length gt)%nat -> (g <= f)%nat -> chain (S f) gt g = chain f gt g.
Proof.
  induction f as [|f IH]; intros g Hg Hle.
  - assert (g = 0%nat) by lia. subst. simpl. rewrite parent_root. reflexivity.
  - change (chain (S (S f)) gt g) with (g :: match parent gt g with Some p => chain (S f) gt p | None => [] end).
    change (chain (S f) gt g) with (g :: match parent gt g with Some p => chain f gt p | None => [] end).
    destruct (parent gt g) as [p|] eqn:E; [|reflexivity].
    pose proof (parent_lt g p Hg E). rewrite IH by lia. reflexivity.
Qed.
Lemma chain_enough f g : (g < length gt)%nat -> (g <= f)%nat -> chain f gt g = gchain gt g.
Proof.
  intros Hg Hle. unfold gchain. induction Hle as [|f Hle IH]; [reflexivity|].
  rewrite chain_S by lia. exact IH.
Qed.
Lemma gchain_unfold g : (g < length gt)%nat ->
  gchain gt g = g :: match parent gt g with Some p => gchain gt p | None => [] end.
Proof.
  intros Hg. unfold gchain at 1. destruct g as [|f].
  - simpl. rewrite parent_root. reflexivity.
  - simpl. destruct (parent gt (S f)) as [p|] eqn:E; [|reflexivity].
    pose proof (parent_lt _ _ Hg E). rewrite chain_enough by lia. reflexivity.
Qed.

Lemma gchain_bound g : (g < length gt)%nat -> forall x, In x (gchain gt g) -> (x <= g)%nat.
Proof.
  induction g as [g IH] using lt_wf_ind. intros Hg x Hx. rewrite gchain_unfold in Hx by exact Hg.
  destruct Hx as [<-|Hx]; [lia|]. destruct (parent gt g) as [p|] eqn:E; [|destruct Hx].
  pose proof (parent_lt _ _ Hg E). specialize (IH p ltac:(lia) ltac:(lia) x Hx). lia.
Qed.
Lemma gchain_root g : (g < length gt)%nat -> In 0%nat (gchain gt g).
Proof.
  induction g as [g IH] using lt_wf_ind. intros Hg. rewrite gchain_unfold by exact Hg.
  destruct (parent gt g) as [p|] eqn:E.
  - right. pose proof (parent_lt _ _ Hg E). apply IH; lia.
  - left. apply parent_none; assumption.
Qed.
Lemma gchain_self g : (g < length gt)%nat -> In g (gchain gt g).
Proof. intros Hg. rewrite gchain_unfold by exact Hg. left; reflexivity. Qed.
(* ancestors of an ancestor are ancestors *)
Lemma gchain_trans g : (g < length gt)%nat -> forall c, In c (gchain gt g) -> forall b, In b (gchain gt c) -> In b (gchain gt g).
Proof.
  induction g as [g IH] using lt_wf_ind. intros Hg c Hc b Hb.
  rewrite gchain_unfold in Hc by exact Hg. destruct Hc as [<-|Hc]; [exact Hb|].
  rewrite gchain_unfold by exact Hg. right.
  destruct (parent gt g) as [p|] eqn:E; [|destruct Hc].
  pose proof (parent_lt _ _ Hg E). apply (IH p ltac:(lia) ltac:(lia) c Hc b Hb).
Qed.
Lemma depth_unfold g : (g < length gt)%nat ->
  gdepth gt g = S (match parent gt g with Some p => gdepth gt p | None => 0 end).
Proof. intros Hg. unfold gdepth. rewrite gchain_unfold by exact Hg. destruct (parent gt g); reflexivity. Qed.
Lemma depth_pos g : (g < length gt)%nat -> (1 <= gdepth gt g)%nat.
Proof. intros Hg. rewrite depth_unfold by exact Hg. lia. Qed.

Lemma index_of_spec x l a : index_of x l = Some a -> nth_error l a = Some x.
Proof.
  revert a; induction l as [|y r IH]; intros a H; simpl in *; [discriminate|].
  destruct (Nat.eqb_spec x y).
  - injection H as <-. subst. reflexivity.
  - destruct (index_of x r) as [k|]; simpl in H; [|discriminate]. injection H as <-. simpl. apply IH. reflexivity.
Qed.
Lemma index_of_none x l : index_of x l = None -> ~ In x l.
Proof.
  induction l as [|y r IH]; simpl; intros H; [tauto|].
  destruct (Nat.eqb_spec x y); [discriminate|].
  destruct (index_of x r); simpl in H; [discriminate|]. intros [E|E]; [congruence|]. apply IH; auto.
Qed.
Lemma index_of_in x l : In x l -> exists a, index_of x l = Some a.
Proof. intros H. destruct (index_of x l) eqn:E; eauto. exfalso. eapply index_of_none; eauto. Qed.

(* suffix of a chain is the chain of the element found there *)
Lemma gchain_suffix g : (g < length gt)%nat -> forall a c, nth_error (gchain gt g) a = Some c ->
  skipn a (gchain gt g) = gchain gt c /\ (c < length gt)%nat.
Proof.
  induction g as [g IH] using lt_wf_ind. intros Hg a c H.
  rewrite gchain_unfold in H by exact Hg. destruct a as [|a]; simpl in H.
  - injection H as <-. split; [reflexivity|exact Hg].
  - rewrite gchain_unfold by exact Hg. simpl.
    destruct (parent gt g) as [p|] eqn:E; [|destruct a; discriminate].
    pose proof (parent_lt _ _ Hg E). apply IH; [lia|lia|exact H].
Qed.
Lemma depth_of_nth g a c : (g < length gt)%nat -> nth_error (gchain gt g) a = Some c ->
  (gdepth gt g - a = gdepth gt c)%nat /\ (a < gdepth gt g)%nat.
Proof.
  intros Hg H. destruct (gchain_suffix g Hg a c H) as [S _]. unfold gdepth. rewrite <- S, skipn_length.
  split; [reflexivity|]. apply nth_error_Some. congruence.
Qed.

(* the loop of group_path *)
Lemma gp_loop_spec s : (s < length gt)%nat -> forall fuel d k, (d < length gt)%nat -> (d <= fuel)%nat ->
  exists a dd c, gp_loop fuel gt (gchain gt s) d k = Some (a, (k + dd)%nat, c)
    /\ nth_error (gchain gt s) a = Some c /\ nth_error (gchain gt d) dd = Some c
    /\ (forall j x, (j < dd)%nat -> nth_error (gchain gt d) j = Some x -> ~ In x (gchain gt s)).
Proof.
  intros Hs. induction fuel as [|f IH]; intros d k Hd Hf.
  - assert (d = 0%nat) by lia. subst. simpl.
    destruct (index_of_in 0%nat (gchain gt s) (gchain_root s Hs)) as [a Ea]. rewrite Ea.
    exists a, 0%nat, 0%nat. rewrite Nat.add_0_r. split; [reflexivity|]. split; [|split].
    + apply index_of_spec; exact Ea.
    + rewrite gchain_unfold by exact Hd. reflexivity.
    + intros; lia.
  - simpl. destruct (index_of d (gchain gt s)) as [a|] eqn:Ea.
    + exists a, 0%nat, d. rewrite Nat.add_0_r. split; [reflexivity|]. split; [|split].
      * apply index_of_spec; exact Ea.
      * rewrite gchain_unfold by exact Hd. reflexivity.
      * intros; lia.
    + destruct (parent gt d) as [p|] eqn:E.
      * pose proof (parent_lt _ _ Hd E) as Hp.
        destruct (IH p (S k) ltac:(lia) ltac:(lia)) as (a & dd & c & G & N1 & N2 & N3).
        exists a, (S dd), c. replace (k + S dd)%nat with (S k + dd)%nat by lia. split; [exact G|]. split; [exact N1|split].
        -- rewrite gchain_unfold by exact Hd. rewrite E. exact N2.
        -- intros j x Hj Hx. rewrite gchain_unfold in Hx by exact Hd. rewrite E in Hx. destruct j as [|j]; simpl in Hx.
           ++ injection Hx as <-. apply index_of_none. exact Ea.
           ++ apply (N3 j x); [lia|exact Hx].
      * exfalso. pose proof (parent_none _ Hd E). subst. apply (index_of_none _ _ Ea). apply gchain_root. exact Hs.
Qed.

Theorem group_path_total s d : (s < length gt)%nat -> (d < length gt)%nat ->
  exists a dd c, group_path gt s d = Some (a, dd, c)
    /\ nth_error (gchain gt s) a = Some c /\ nth_error (gchain gt d) dd = Some c
    /\ (forall j x, (j < dd)%nat -> nth_error (gchain gt d) j = Some x -> ~ In x (gchain gt s)).
Proof.
  intros Hs Hd. unfold group_path. destruct (gp_loop_spec s Hs d d 0%nat Hd (le_n _)) as (a & dd & c & G & R).
  exists a, dd, c. split; [exact G|exact R].
Qed.

(* the group returned is the deepest common enclosing group *)
Theorem group_path_lca s d a dd c : (s < length gt)%nat -> (d < length gt)%nat ->
  group_path gt s d = Some (a, dd, c) ->
  In c (gchain gt s) /\ In c (gchain gt d) /\
  (forall b, In b (gchain gt s) -> In b (gchain gt d) -> In b (gchain gt c)) /\
  (gdepth gt s - a = gdepth gt c)%nat /\ (gdepth gt d - dd = gdepth gt c)%nat /\ (c < length gt)%nat.
Proof.
  intros Hs Hd G. destruct (group_path_total s d Hs Hd) as (a' & dd' & c' & G' & N1 & N2 & N3).
  rewrite G in G'. injection G' as <- <- <-.
  split; [eapply nth_error_In; eauto|]. split; [eapply nth_error_In; eauto|].
  destruct (gchain_suffix d Hd dd c N2) as [Sd Hc].
  split.
  - intros b Hbs Hbd. apply In_nth_error in Hbd as [j Hj].
    destruct (Nat.lt_ge_cases j dd) as [Hlt|Hge].
    + exfalso. exact (N3 j b Hlt Hj Hbs).
    + rewrite <- Sd. rewrite <- (firstn_skipn dd (gchain gt d)) in Hj.
      rewrite nth_error_app2 in Hj by (rewrite firstn_length; lia).
      eapply nth_error_In. exact Hj.
  - split; [apply (depth_of_nth s a c Hs N1)|]. split; [apply (depth_of_nth d dd c Hd N2)|exact Hc].
Qed.

(* distinct sibling groups: the common group is the parent, never one of them *)
Theorem siblings_common_parent g1 g2 p : (g1 < length gt)%nat -> (g2 < length gt)%nat ->
  parent gt g1 = Some p -> parent gt g2 = Some p -> g1 <> g2 ->
  group_path gt g1 g2 = Some (1, 1, p)%nat.
Proof.
  intros H1 H2 P1 P2 Hne.
  destruct (group_path_total g1 g2 H1 H2) as (a & dd & c & G & N1 & N2 & N3).
  pose proof (parent_lt _ _ H1 P1) as L1. pose proof (parent_lt _ _ H2 P2) as L2.
  assert (Hp : (p < length gt)%nat) by lia.
  rewrite gchain_unfold in N1, N2, N3 by assumption. rewrite P1 in N1. rewrite P2 in N2, N3.
  assert (Hnot : ~ In g2 (gchain gt g1)).
  { rewrite gchain_unfold by assumption. rewrite P1. intros [E|E]; [congruence|].
    pose proof (gchain_bound p Hp g2 E). lia. }
  destruct dd as [|dd].
  - simpl in N2. injection N2 as <-. exfalso. apply Hnot. rewrite gchain_unfold by assumption. rewrite P1.
    eapply nth_error_In; eauto.
  - destruct dd as [|dd].
    + simpl in N2. rewrite gchain_unfold in N2 by exact Hp. simpl in N2. injection N2 as <-.
      destruct a as [|a]; simpl in N1.
      * injection N1 as E. lia.
      * destruct a as [|a].
        -- rewrite G. reflexivity.
        -- exfalso. rewrite gchain_unfold in N1 by exact Hp. simpl in N1.
           destruct (parent gt p) as [q|] eqn:Eq; [|destruct a; discriminate].
           pose proof (parent_lt _ _ Hp Eq). assert (Hq : (q < length gt)%nat) by lia.
           apply nth_error_In in N1. pose proof (gchain_bound q Hq p N1). lia.
    + exfalso. apply (N3 1%nat p); [lia| |].
      * simpl. rewrite gchain_unfold by exact Hp. reflexivity.
      * rewrite gchain_unfold by assumption. rewrite P1. right. apply gchain_self. exact Hp.
Qed.
End G.
