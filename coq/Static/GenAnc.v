(* Driver around the generated pieces of World.cache_triggering_ancestors (Gen/AncFns.v): the while loop takes the oldest
   element of `dirty` (Python's set.pop() order is not defined; the model's worklist does the same), with explicit fuel. *)
From Coq Require Import ZArith List Bool Arith.
Import ListNotations.
From MV Require Import Time.Spec Static.Build Static.Cycle Gen.AncFns.

Fixpoint anc_loop_gen (triggers : nat -> list (nat * list (nat * interval))) (fuel : nat) (tab : anc_tab) (dirty : list nat) : option (option anc_tab) :=
  match dirty with
  | [] => Some (Some tab)
  | mid :: rest =>
      match fuel with
      | O => Some None
      | S f => match anc_step_gen triggers tab mid rest with
               | None => None
               | Some (tab', dirty') => anc_loop_gen triggers f tab' dirty'
               end
      end
  end.

Definition ancestors_gen (fuel : nat) (sims : list nat) (triggers : nat -> list (nat * list (nat * interval))) : option (option anc_tab) :=
  match anc_init_gen sims triggers with
  | None => None
  | Some (tab, dirty) => anc_loop_gen triggers fuel tab dirty
  end.
