(* Tie of World.connect_one to the source: the function regenerated from mosaik/scenario.py on every run (Gen/ConnectOne.v:
   the statements of connect_one in source order, table updates as effects, exceptions with the effects made before them)
   equals the model Static/Connect.connect_one - in particular no table is touched before a rejection. *)
From Coq Require Import ZArith List Bool Arith Lia.
Import ListNotations.
From MV Require Import Time.Spec Static.Groups Static.Connect Static.GenConn.
From MV Require Gen.ConnectOne.

Lemma set_nth_len n v l : length (set_nth n v l) = length l.
Proof. revert n; induction l as [|x l IH]; intros [|n]; simpl; auto. Qed.

Lemma wfIb_len p c t1 t2 : length t1 = length t2 -> wfIb (mkI p c t1) = wfIb (mkI p c t2).
Proof. intros H. unfold wfIb. simpl. rewrite H. reflexivity. Qed.

(* if the delay of a connection exists, so does the plain interval between the two groups *)
Lemma plain_interval_exists gt sg dg s w d : connect_interval gt sg dg s w = COk d -> exists p, connect_interval gt sg dg 0 0 = COk p.
Proof.
  unfold connect_interval. destruct (group_path gt sg dg) as [[[a de] c]|]; [|discriminate].
  change (negb (0 =? 0)%Z) with false. cbn [andb]. destruct (negb (w =? 0)%Z && match parent gt c with None => true | Some _ => false end); [discriminate|].
  destruct (negb (w =? 0)%Z && (gdepth gt sg - a <? 2)%nat); [discriminate|].
  match goal with |- (if wfIb (mkI ?p ?c ?t1) then _ else _) = _ -> exists q, (if wfIb (mkI ?p ?c ?t2) then _ else _) = _ =>
    rewrite (wfIb_len p c t1 t2) end.
  - destruct (wfIb _); [eauto|discriminate].
  - destruct (negb (w =? 0)%Z), (negb (s =? 0)%Z); rewrite ?set_nth_len; reflexivity.
Qed.

Theorem tie_connect_one gt sg dg f : MV.Gen.ConnectOne.connect_one gt sg dg f = embed (MV.Static.Connect.connect_one gt sg dg f).
Proof.
  unfold MV.Gen.ConnectOne.connect_one, MV.Static.Connect.connect_one, problems.
  destruct (src_is_out f), (dst_is_in f); simpl;
    destruct ((negb (shifted f =? 0)%Z || weak f) && dst_nontrigger f); simpl; try destruct (has_init f) eqn:EH; simpl; try reflexivity.
  all: destruct (connect_interval gt sg dg (shifted f) (if weak f then 1 else 0)%Z) as [delay|[| |]] eqn:ED; try reflexivity.
  all: destruct (plain_interval_exists _ _ _ _ _ _ ED) as [pl EP]; rewrite EP.
  all: destruct (use_cache f), (src_persistent f), (dst_trigger f); simpl; rewrite ?EH; reflexivity.
Qed.
