(* Tie of World.connect_one to the source: the function regenerated from mosaik/scenario.py on every run (Gen/ConnectOne.v:
   the statements of connect_one in source order, table updates as effects, exceptions with the effects made before them)
   equals the model Static/Connect.connect_one - in particular no table is touched before a rejection. *)
From Coq Require Import ZArith List Bool Arith Lia.
Import ListNotations.
From MV Require Import Time.Spec Static.Groups Static.GroupsP Static.Connect Static.ConnectP Static.GenConn.
From MV Require Gen.ConnectOne.

Lemma set_nth_len n v l : length (set_nth n v l) = length l.
Proof. revert n; induction l as [|x l IH]; intros [|n]; simpl; auto. Qed.

Lemma wfIb_len p c t1 t2 : length t1 = length t2 -> wfIb (mkI p c t1) = wfIb (mkI p c t2).
Proof. intros H. unfold wfIb. simpl. rewrite H. reflexivity. Qed.

(* if the delay of a connection exists, so does the plain interval between the two groups *)
Lemma plain_interval_exists gt sg dg s w d : connect_interval gt sg dg s w = COk d -> exists p, connect_interval gt sg dg 0 0 = COk p.
Proof.
  unfold connect_interval. destruct (group_path gt sg dg) as [[[a de] c]|]; [|discriminate].
  change (negb (0 =? 0)%Z) with false. cbn [andb]. destruct (negb (w =? 0)%Z && match parent gt c with None => true | Some _ => false end); [discriminate|].
  destruct (negb (w =? 0)%Z && (gdepth gt sg - a <? 2)%nat); [discriminate|].
  match goal with |- (if wfIb (mkI ?p ?c ?t1) then _ else _) = _ -> exists q, (if wfIb (mkI ?p ?c ?t2) then _ else _) = _ =>
    rewrite (wfIb_len p c t1 t2) end.
  - destruct (wfIb _); [eauto|discriminate].
  - destruct (negb (w =? 0)%Z), (negb (s =? 0)%Z); rewrite ?set_nth_len; reflexivity.
Qed.

Theorem tie_connect_one gt sg dg f : MV.Gen.ConnectOne.connect_one gt sg dg f = embed (MV.Static.Connect.connect_one gt sg dg f).
Proof.
  unfold MV.Gen.ConnectOne.connect_one, MV.Static.Connect.connect_one, problems.
  destruct (src_is_out f), (dst_is_in f); simpl;
    destruct ((negb (shifted f =? 0)%Z || weak f) && dst_nontrigger f); simpl; try destruct (has_init f) eqn:EH; simpl; try reflexivity.
  all: destruct (connect_interval gt sg dg (shifted f) (if weak f then 1 else 0)%Z) as [delay|[| |]] eqn:ED; try reflexivity.
  all: destruct (plain_interval_exists _ _ _ _ _ _ ED) as [pl EP]; rewrite EP.
  all: destruct (use_cache f), (src_persistent f), (dst_trigger f); simpl; rewrite ?EH; reflexivity.
Qed.

(* the decision theorem stated of the regenerated connect_one itself: it raises ScenarioError exactly when the property says it
   must, never fails in another way, and whatever it raises it raises before touching any table *)
Definition gen_rejected_clean (r : gen_result) : bool :=
  match r with GRejected _ [] | GWeakRoot [] => true | _ => false end.
Lemma generated_rejection_exact gt : wfGb gt = true -> forall sg dg f, (sg < length gt)%nat -> (dg < length gt)%nat ->
  gen_rejected_clean (MV.Gen.ConnectOne.connect_one gt sg dg f) = should_reject gt sg dg f /\
  (forall e b, MV.Gen.ConnectOne.connect_one gt sg dg f <> GCrashed e b) /\
  (forall ps b, MV.Gen.ConnectOne.connect_one gt sg dg f = GRejected ps b -> b = []) /\
  (forall b, MV.Gen.ConnectOne.connect_one gt sg dg f = GWeakRoot b -> b = []).
Proof.
  intros Hwf sg dg f Hs Hd. rewrite tie_connect_one.
  destruct (connect_one_decision gt Hwf sg dg f Hs Hd) as (Hdec & Hnc).
  destruct (MV.Static.Connect.connect_one gt sg dg f) as [ps| |e|es]; cbn [embed gen_rejected_clean is_rejected] in *.
  - repeat split; try exact Hdec; try discriminate. intros ps' b H. injection H as _ <-. reflexivity.
  - repeat split; try exact Hdec; try discriminate. intros b H. injection H as <-. reflexivity.
  - exfalso. apply (Hnc e). reflexivity.
  - repeat split; try exact Hdec; discriminate.
Qed.
