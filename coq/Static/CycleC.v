(* C06, completeness of the cycle check for input-delay tables whose delays all have the same shape (flat scenarios, or
   all simulators in one group): if ensure_no_dataflow_cycles accepts, no closed walk through a simulator has the
   combined delay zero.  Worklist argument: entries only decrease; a simulator that is not dirty is "closed" (for each
   of its predecessors src and each of its descendants dest, the entry of (src, dest) is at most the composed delay);
   at the end every walk's delay is bounded below by the table entry of its end points. *)
From Coq Require Import ZArith List Bool Arith Lia.
Import ListNotations.
From MV Require Import Time.Spec Time.Ord Time.Laws Static.Groups Static.Connect Static.Build Static.Cycle Static.CycleP.
Open Scope Z_scope.

Definition ush (D:nat) (d:interval) : Prop := ipre d = D /\ icut d = D /\ length (itiers d) = D.

Lemma comp_ush D a b : ush D a -> ush D b -> ush D (comp a b) /\ itiers (comp a b) = zadd (itiers a) (itiers b).
Proof.
  intros (A1 & A2 & A3) (B1 & B2 & B3). unfold comp, iadd, iext. rewrite A2, B2, Nat.leb_refl.
  replace (firstn D (itiers a)) with (itiers a) by (rewrite <- A3; symmetry; apply firstn_all).
  replace (firstn D (itiers b)) with (itiers b) by (rewrite <- B3; symmetry; apply firstn_all).
  replace (skipn D (itiers b)) with (@nil Z) by (rewrite <- B3; symmetry; apply skipn_all).
  rewrite app_nil_r. split; [|reflexivity]. unfold ush; simpl. rewrite Nat.min_id, zadd_length, A3, B3, Nat.min_id. auto.
Qed.
Lemma ile_ush D a b : ush D a -> ush D b -> ile a b = Some (tle (itiers a) (itiers b)).
Proof. intros (A1 & A2 & A3) (B1 & B2 & B3). apply ile_same_shape. unfold same_shape. repeat split; congruence. Qed.

Lemma zadd_comm a b : zadd a b = zadd b a.
Proof. revert b; induction a as [|x a IH]; intros [|y b]; simpl; auto. rewrite IH, Z.add_comm. reflexivity. Qed.
Lemma zadd_mono_r a b b' : length b = length b' -> tle b b' = true -> tle (zadd a b) (zadd a b') = true.
Proof.
  intros Hl H. unfold tle in *. apply negb_true_iff in H. apply negb_true_iff.
  rewrite (zadd_comm a b), (zadd_comm a b'). apply zadd_mono; [congruence|exact H].
Qed.
Lemma nonneg_zadd a b : forallb (fun x => 0 <=? x) a = true -> forallb (fun x => 0 <=? x) b = true -> forallb (fun x => 0 <=? x) (zadd a b) = true.
Proof.
  revert b; induction a as [|x a IH]; intros [|y b] Ha Hb; simpl in *; auto.
  apply andb_true_iff in Ha as [Hx Ha]. apply andb_true_iff in Hb as [Hy Hb].
  apply andb_true_iff. split; [apply Z.leb_le; apply Z.leb_le in Hx, Hy; lia|apply IH; auto].
Qed.
(* a non-negative tuple below an all-zero tuple is all zero *)
Lemma nonneg_le_zero a z : length a = length z -> forallb (fun x => 0 <=? x) a = true -> forallb (fun x => x =? 0) z = true ->
  tle a z = true -> forallb (fun x => x =? 0) a = true.
Proof.
  revert z; induction a as [|x a IH]; intros [|y z] Hl Ha Hz H; simpl in *; try discriminate; auto.
  apply andb_true_iff in Ha as [Hx Ha]. apply andb_true_iff in Hz as [Hy Hz]. apply Z.eqb_eq in Hy. subst y.
  apply Z.leb_le in Hx. unfold tle in H. simpl in H.
  destruct (0 <? x) eqn:E; [discriminate|]. apply Z.ltb_ge in E. assert (x = 0) by lia. subst x.
  simpl in H. apply andb_true_iff. split; [reflexivity|]. apply (IH z); auto.
Qed.

Section CC.
Variable ind : indel_tab.
Variable D : nat.
Hypothesis WK2 : forall sim p dl, In (p, dl) (aget_l sim ind) -> edge ind p sim = Some dl.
Hypothesis WK : forall sim preds, In (sim, preds) ind -> forall p dl, In (p, dl) preds -> edge ind p sim = Some dl.
Hypothesis EU : forall a b d, edge ind a b = Some d -> ush D d /\ nonneg d = true.

Definition GoodT (t:dtab) : Prop := forall s d v p, In (d, (v, p)) (aget_l s t) -> ush D v /\ nonneg v = true.
Definition le_entry (t:dtab) (src dest:nat) (d:interval) : Prop :=
  exists d0 p, d_get t src dest = Some (d0, p) /\ tle (itiers d0) (itiers d) = true.

Lemma goodT_set t s d v p : GoodT t -> ush D v -> nonneg v = true -> GoodT (d_set t s d (v, p)).
Proof.
  intros HG Hu Hn s' d' v' p' H. unfold d_set in H. rewrite aget_l_aset in H.
  destruct (Nat.eqb_spec s' s) as [->|Hs]; [|eapply HG; exact H].
  apply in_aset in H as [H|H]; [injection H as -> -> ->; auto|eapply HG; exact H].
Qed.
Lemma goodT_get t s d v p : GoodT t -> d_get t s d = Some (v, p) -> ush D v /\ nonneg v = true.
Proof. intros HG H. unfold d_get in H. apply aget_in in H. eapply HG; exact H. Qed.

(* replacing an entry by a smaller one keeps every le_entry fact *)
Lemma le_entry_set t s d x px a b v :
  (forall old po, d_get t s d = Some (old, po) -> tle (itiers x) (itiers old) = true) ->
  le_entry t a b v -> le_entry (d_set t s d (x, px)) a b v.
Proof.
  intros Hold (d0 & p & G & L). unfold le_entry. rewrite d_get_set.
  destruct (Nat.eqb a s && Nat.eqb b d) eqn:E.
  - apply andb_true_iff in E as [E1 E2]. apply Nat.eqb_eq in E1, E2. subst a b.
    exists x, px. split; [reflexivity|]. eapply tle_trans; [eapply Hold; exact G|exact L].
  - exists d0, p. auto.
Qed.

(* ---- the two folds of cyc_step ---- *)
Definition inner_f (src : nat) (s2m : interval) (acc2 : option (dtab * list nat)) (de : nat * (interval * list nat)) : option (dtab * list nat) :=
  let '(dest, (mid_to_dest, path)) := de in
  match acc2 with None => None | Some (t1, dirty1) =>
    let src_to_dest := comp s2m mid_to_dest in
    match upd_min (option_map fst (d_get t1 src dest)) src_to_dest with
    | None => None
    | Some None => Some (t1, dirty1)
    | Some (Some x) => Some (d_set t1 src dest (x, src :: path), add_dirty src dirty1)
    end end.
Definition outer_f (mid : nat) (acc : option (dtab * list nat)) (sp : nat * interval) : option (dtab * list nat) :=
  let (src, src_to_mid) := sp in
  match acc with None => None | Some (t0, dirty0) => fold_left (inner_f src src_to_mid) (aget_l mid t0) (Some (t0, dirty0)) end.
Lemma cyc_step_eq t mid dirty : cyc_step ind t mid dirty = fold_left (outer_f mid) (aget_l mid ind) (Some (t, dirty)).
Proof. reflexivity. Qed.

Lemma inner_none src s2m l : fold_left (inner_f src s2m) l None = None.
Proof. induction l as [|[dest [m p]] l IH]; simpl; auto. Qed.
Lemma outer_none mid l : fold_left (outer_f mid) l None = None.
Proof. induction l as [|[src s] l IH]; simpl; auto. Qed.

Lemma incl_add_dirty x l : incl l (add_dirty x l).
Proof. unfold add_dirty. destruct (existsb (Nat.eqb x) l); [apply incl_refl|apply incl_appl, incl_refl]. Qed.
Lemma in_add_dirty x l : In x (add_dirty x l).
Proof.
  unfold add_dirty. destruct (existsb (Nat.eqb x) l) eqn:E.
  - apply existsb_exists in E as (y & Hy & Ey). apply Nat.eqb_eq in Ey. subst y. exact Hy.
  - apply in_or_app. right. left. reflexivity.
Qed.

(* what a pass over a list of (dest, delay) entries establishes *)
Record pass (src : nat) (t1 : dtab) (d1 : list nat) (t2 : dtab) (d2 : list nat) : Prop := {
  p_good : GoodT t2;
  p_incl : incl d1 d2;
  p_rows : forall x, ~ In x d2 -> aget_l x t2 = aget_l x t1;
  p_decr : forall a b v, le_entry t1 a b v -> le_entry t2 a b v }.

Lemma pass_refl src t d : GoodT t -> pass src t d t d.
Proof. intros H. split; auto. apply incl_refl. Qed.
Lemma pass_trans src t1 d1 t2 d2 t3 d3 : pass src t1 d1 t2 d2 -> pass src t2 d2 t3 d3 -> pass src t1 d1 t3 d3.
Proof.
  intros [A1 A2 A3 A4] [B1 B2 B3 B4]. split; auto.
  - eapply incl_tran; eauto.
  - intros x Hx. rewrite (B3 x Hx). apply A3. intros H. apply Hx. apply B2. exact H.
Qed.

Lemma inner_spec src s2m : ush D s2m -> nonneg s2m = true ->
  forall L t1 d1 t2 d2, GoodT t1 ->
  (forall dest m p, In (dest, (m, p)) L -> ush D m /\ nonneg m = true) ->
  fold_left (inner_f src s2m) L (Some (t1, d1)) = Some (t2, d2) ->
  pass src t1 d1 t2 d2 /\ (forall dest m p, In (dest, (m, p)) L -> le_entry t2 src dest (comp s2m m)).
Proof.
  intros Hu Hn. induction L as [|[dest [m p]] L IH]; intros t1 d1 t2 d2 HG HL H; simpl in H.
  - injection H as <- <-. split; [apply pass_refl; exact HG|intros ? ? ? []].
  - destruct (HL dest m p (or_introl eq_refl)) as [Hum Hnm].
    destruct (comp_ush D s2m m Hu Hum) as [Huc Htc].
    assert (Hnc : nonneg (comp s2m m) = true) by (unfold nonneg in *; rewrite Htc; apply nonneg_zadd; assumption).
    destruct (d_get t1 src dest) as [[old po]|] eqn:Eg; simpl in H.
    + destruct (goodT_get _ _ _ _ _ HG Eg) as [Huo _].
      rewrite (ile_ush D old (comp s2m m) Huo Huc) in H.
      destruct (tle (itiers old) (itiers (comp s2m m))) eqn:El.
      * (* keep *)
        destruct (IH t1 d1 t2 d2 HG (fun a b c Hin => HL a b c (or_intror Hin)) H) as [P Q].
        split; [exact P|]. intros dest' m' p' [E|Hin]; [|eapply Q; exact Hin].
        injection E as <- <- <-. apply (p_decr _ _ _ _ _ P). exists old, po. auto.
      * (* replace by the smaller composed delay *)
        set (t1' := d_set t1 src dest (comp s2m m, src :: p)) in H.
        assert (Hlt : tle (itiers (comp s2m m)) (itiers old) = true).
        { apply tlt_tle. unfold tle in El. apply negb_false_iff in El. exact El. }
        assert (HG' : GoodT t1') by (apply goodT_set; assumption).
        assert (P1 : pass src t1 d1 t1' (add_dirty src d1)).
        { split; [exact HG'|apply incl_add_dirty| |].
          - intros x Hx. unfold t1', d_set. rewrite aget_l_aset. destruct (Nat.eqb_spec x src) as [->|]; [|reflexivity].
            exfalso. apply Hx. apply in_add_dirty.
          - intros a b v Hle. apply le_entry_set; [|exact Hle]. intros old' po' E'. rewrite Eg in E'. injection E' as <- <-. exact Hlt. }
        destruct (IH t1' _ t2 d2 HG' (fun a b c Hin => HL a b c (or_intror Hin)) H) as [P Q].
        split; [eapply pass_trans; eauto|]. intros dest' m' p' [E|Hin]; [|eapply Q; exact Hin].
        injection E as <- <- <-. apply (p_decr _ _ _ _ _ P). exists (comp s2m m), (src :: p).
        split; [unfold t1'; rewrite d_get_set, !Nat.eqb_refl; reflexivity|apply tle_refl].
    + (* no entry yet *)
      set (t1' := d_set t1 src dest (comp s2m m, src :: p)) in H.
      assert (HG' : GoodT t1') by (apply goodT_set; assumption).
      assert (P1 : pass src t1 d1 t1' (add_dirty src d1)).
      { split; [exact HG'|apply incl_add_dirty| |].
        - intros x Hx. unfold t1', d_set. rewrite aget_l_aset. destruct (Nat.eqb_spec x src) as [->|]; [|reflexivity].
          exfalso. apply Hx. apply in_add_dirty.
        - intros a b v Hle. apply le_entry_set; [|exact Hle]. intros old' po' E'. rewrite Eg in E'. discriminate. }
      destruct (IH t1' _ t2 d2 HG' (fun a b c Hin => HL a b c (or_intror Hin)) H) as [P Q].
      split; [eapply pass_trans; eauto|]. intros dest' m' p' [E|Hin]; [|eapply Q; exact Hin].
      injection E as <- <- <-. apply (p_decr _ _ _ _ _ P). exists (comp s2m m), (src :: p).
      split; [unfold t1'; rewrite d_get_set, !Nat.eqb_refl; reflexivity|apply tle_refl].
Qed.

Lemma goodT_row t mid dest m p : GoodT t -> In (dest, (m, p)) (aget_l mid t) -> ush D m /\ nonneg m = true.
Proof. intros HG H. eapply HG; exact H. Qed.

Lemma outer_spec mid : forall P t0 d0 t' d', GoodT t0 ->
  (forall src s2m, In (src, s2m) P -> ush D s2m /\ nonneg s2m = true) ->
  fold_left (outer_f mid) P (Some (t0, d0)) = Some (t', d') ->
  pass mid t0 d0 t' d' /\
  (~ In mid d' -> forall src s2m dest m p, In (src, s2m) P -> In (dest, (m, p)) (aget_l mid t0) -> le_entry t' src dest (comp s2m m)).
Proof.
  induction P as [|[src s2m] P IH]; intros t0 d0 t' d' HG HP H; simpl in H.
  - injection H as <- <-. split; [apply pass_refl; exact HG|intros _ ? ? ? ? ? []].
  - destruct (fold_left (inner_f src s2m) (aget_l mid t0) (Some (t0, d0))) as [[t1 d1]|] eqn:E1; [|rewrite outer_none in H; discriminate].
    destruct (HP src s2m (or_introl eq_refl)) as [Hu Hn].
    destruct (inner_spec src s2m Hu Hn _ t0 d0 t1 d1 HG (fun a b c Hin => goodT_row t0 mid a b c HG Hin) E1) as [P1 Q1].
    destruct (IH t1 d1 t' d' (p_good _ _ _ _ _ P1) (fun a b Hin => HP a b (or_intror Hin)) H) as [P2 Q2].
    split.
    + destruct P1 as [A1 A2 A3 A4]. destruct P2 as [B1 B2 B3 B4]. split; auto.
      * eapply incl_tran; eauto.
      * intros x Hx. rewrite (B3 x Hx). apply A3. intros Hin. apply Hx. apply B2. exact Hin.
    + intros Hmid src' s2m' dest m p [E|Hin] Hrow.
      * injection E as <- <-. apply (p_decr _ _ _ _ _ P2). eapply Q1; exact Hrow.
      * apply (Q2 Hmid src' s2m' dest m p Hin).
        rewrite (p_rows _ _ _ _ _ P1 mid); [exact Hrow|]. intros Hin1. apply Hmid. apply (p_incl _ _ _ _ _ P2). exact Hin1.
Qed.

(* ---- the loop ---- *)
Definition Closed (t:dtab) (x:nat) : Prop :=
  forall src s2m dest m p, In (src, s2m) (aget_l x ind) -> In (dest, (m, p)) (aget_l x t) -> le_entry t src dest (comp s2m m).
Definition InitLe (t:dtab) : Prop := forall a b e, edge ind a b = Some e -> le_entry t a b e.

Variable sims : list nat.
Definition LInv (t:dtab) (dirty:list nat) : Prop :=
  GoodT t /\ InitLe t /\ forall x, In x sims -> ~ In x dirty -> Closed t x.

Lemma step_inv t mid rest t' dirty' : LInv t (mid :: rest) -> cyc_step ind t mid rest = Some (t', dirty') -> LInv t' dirty'.
Proof.
  intros (HG & HI & HC) H. rewrite cyc_step_eq in H.
  assert (HP : forall src s2m, In (src, s2m) (aget_l mid ind) -> ush D s2m /\ nonneg s2m = true).
  { intros src s2m Hin. apply (EU src mid). apply WK2. exact Hin. }
  destruct (outer_spec mid _ t rest t' dirty' HG HP H) as [[A1 A2 A3 A4] Q].
  split; [exact A1|]. split; [intros a b e He; apply A4; apply HI; exact He|].
  intros x Hx Hnd. destruct (Nat.eq_dec x mid) as [->|Hxm].
  - (* the simulator just processed, not re-dirtied: its row did not change *)
    intros src s2m dest m p Hs Hr. rewrite (A3 mid Hnd) in Hr. eapply Q; eauto.
  - assert (Hnr : ~ In x (mid :: rest)) by (intros [E|Hin]; [congruence|apply Hnd; apply A2; exact Hin]).
    intros src s2m dest m p Hs Hr. rewrite (A3 x Hnd) in Hr. apply A4. eapply (HC x Hx Hnr); eauto.
Qed.

Lemma loop_inv fuel : forall t dirty t', LInv t dirty -> cyc_loop fuel ind t dirty = Some (Some t') -> LInv t' [].
Proof.
  induction fuel as [|f IH]; intros t dirty t' HL; destruct dirty as [|mid rest]; simpl; try (intros E; injection E as <-; exact HL); try discriminate.
  destruct (cyc_step ind t mid rest) as [[t1 d1]|] eqn:E; [|discriminate].
  apply IH. eapply step_inv; eauto.
Qed.

(* ---- the initial table ---- *)
Lemma init_inv : LInv (cyc_init ind) sims.
Proof.
  assert (G : forall l t, (forall e, In e l -> In e ind) -> GoodT t ->
     (forall a b v p, d_get t a b = Some (v, p) -> edge ind a b = Some v) ->
     let t' := fold_left (fun t (e : nat * list (nat * interval)) => let (sim, preds) := e in
        fold_left (fun t (p : nat * interval) => d_set t (fst p) sim (snd p, [fst p; sim])) preds t) l t in
     GoodT t' /\ (forall a b v p, d_get t' a b = Some (v, p) -> edge ind a b = Some v) /\
     (forall a b v p, d_get t a b = Some (v, p) -> exists p', d_get t' a b = Some (v, p')) /\
     (forall sim preds p dl, In (sim, preds) l -> In (p, dl) preds -> exists p', d_get t' p sim = Some (dl, p'))).
  { induction l as [|[sim preds] l IH]; intros t Hsub HG HE; simpl.
    - split; [exact HG|]. split; [exact HE|]. split; [intros a b v p H; exists p; exact H|intros ? ? ? ? []].
    - assert (Hp : forall p dl, In (p, dl) preds -> edge ind p sim = Some dl) by (apply (WK sim preds); apply Hsub; left; reflexivity).
      assert (Gp : forall preds0 t0, (forall p dl, In (p, dl) preds0 -> edge ind p sim = Some dl) -> GoodT t0 ->
         (forall a b v p, d_get t0 a b = Some (v, p) -> edge ind a b = Some v) ->
         let t1 := fold_left (fun t (p : nat * interval) => d_set t (fst p) sim (snd p, [fst p; sim])) preds0 t0 in
         GoodT t1 /\ (forall a b v p, d_get t1 a b = Some (v, p) -> edge ind a b = Some v) /\
         (forall a b v p, d_get t0 a b = Some (v, p) -> exists p', d_get t1 a b = Some (v, p')) /\
         (forall p dl, In (p, dl) preds0 -> exists p', d_get t1 p sim = Some (dl, p'))).
      { induction preds0 as [|[p dl] preds0 IHp]; intros t0 Hp0 HG0 HE0; simpl.
        - split; [exact HG0|]. split; [exact HE0|]. split; [intros a b v q H; exists q; exact H|intros ? ? []].
        - assert (Ee : edge ind p sim = Some dl) by (apply Hp0; left; reflexivity).
          destruct (EU _ _ _ Ee) as [Hu Hn].
          set (t0' := d_set t0 p sim (dl, [p; sim])).
          assert (HE0' : forall a b v q, d_get t0' a b = Some (v, q) -> edge ind a b = Some v).
          { intros a b v q H. unfold t0' in H. rewrite d_get_set in H. destruct (Nat.eqb a p && Nat.eqb b sim) eqn:E.
            - apply andb_true_iff in E as [E1 E2]. apply Nat.eqb_eq in E1, E2. subst. injection H as <- _. exact Ee.
            - eapply HE0; exact H. }
          destruct (IHp t0' (fun a b Hin => Hp0 a b (or_intror Hin)) (goodT_set _ _ _ _ _ HG0 Hu Hn) HE0') as (B1 & B2 & B3 & B4).
          split; [exact B1|]. split; [exact B2|]. split.
          + intros a b v q H. assert (X : exists q', d_get t0' a b = Some (v, q')).
            { unfold t0'. rewrite d_get_set. destruct (Nat.eqb a p && Nat.eqb b sim) eqn:E; [|exists q; exact H].
              apply andb_true_iff in E as [E1 E2]. apply Nat.eqb_eq in E1, E2. subst.
              pose proof (HE0 _ _ _ _ H) as E'. rewrite Ee in E'. injection E' as <-. eexists; reflexivity. }
            destruct X as (q' & X). eapply B3; exact X.
          + intros p' dl' [E|Hin]; [|eapply B4; exact Hin]. injection E as <- <-.
            apply (B3 p sim dl [p; sim]). unfold t0'. rewrite d_get_set, !Nat.eqb_refl. reflexivity. }
      destruct (Gp preds t Hp HG HE) as (C1 & C2 & C3 & C4).
      destruct (IH _ (fun e Hin => Hsub e (or_intror Hin)) C1 C2) as (B1 & B2 & B3 & B4).
      split; [exact B1|]. split; [exact B2|]. split.
      + intros a b v p H. destruct (C3 _ _ _ _ H) as (p' & H'). eapply B3; exact H'.
      + intros sim' preds' p dl [E|Hin] Hp'; [|eapply B4; eauto]. injection E as <- <-.
        destruct (C4 p dl Hp') as (p' & H'). eapply B3; exact H'. }
  assert (G0 : GoodT []) by (intros s d v p H; unfold aget_l in H; simpl in H; destruct H).
  assert (E0 : forall a b v p, d_get [] a b = Some (v, p) -> edge ind a b = Some v) by (intros a b v p H; unfold d_get, aget_l in H; simpl in H; discriminate).
  destruct (G ind [] (fun e H => H) G0 E0) as (A1 & A2 & A3 & A4).
  split; [exact A1|]. split.
  - intros a b e He. unfold edge in He. apply aget_in in He.
    unfold aget_l in He. destruct (aget b ind) as [row|] eqn:Er; [|destruct He]. apply aget_in in Er.
    destruct (A4 b row a e Er He) as (p' & H'). exists e, p'. split; [exact H'|apply tle_refl].
  - intros x Hx Hn. contradiction.
Qed.

(* ---- walks ---- *)
Hypothesis Hcov : forall x, aget_l x ind <> [] -> In x sims.

Lemma walk_ush p : forall W, walk_delay ind p = Some W -> ush D W /\ nonneg W = true.
Proof.
  induction p as [|a p IH]; intros W H; simpl in H; [discriminate|].
  destruct p as [|b r]; [discriminate|].
  destruct (edge ind a b) as [d|] eqn:E; [|discriminate]. destruct (EU _ _ _ E) as [Hu Hn].
  destruct r as [|c r']; [injection H as <-; auto|].
  destruct (walk_delay ind (b :: c :: r')) as [W'|] eqn:E'; [|discriminate]. injection H as <-.
  destruct (IH W' eq_refl) as [Hu' Hn']. destruct (comp_ush D d W' Hu Hu') as [Hc Ht]. split; [exact Hc|].
  unfold nonneg in *. rewrite Ht. apply nonneg_zadd; assumption.
Qed.

Lemma last_cons2 (a b : nat) r : last (a :: b :: r) 0%nat = last (b :: r) 0%nat.
Proof. reflexivity. Qed.

Lemma walk_bound t : LInv t [] -> forall p a W, hd_error p = Some a -> walk_delay ind p = Some W ->
  le_entry t a (last p 0%nat) W.
Proof.
  intros (HG & HI & HC). induction p as [|a0 p IH]; intros a W Hh H; simpl in H; [discriminate|].
  simpl in Hh. injection Hh as ->.
  destruct p as [|b r]; [discriminate|].
  destruct (edge ind a b) as [d|] eqn:E; [|discriminate]. destruct (EU _ _ _ E) as [Hu Hn].
  destruct r as [|c r'].
  - injection H as <-. simpl. apply HI. exact E.
  - destruct (walk_delay ind (b :: c :: r')) as [W'|] eqn:E'; [|discriminate]. injection H as <-.
    rewrite last_cons2.
    destruct (IH b W' eq_refl eq_refl) as (d0 & p0 & G0 & L0).
    destruct (walk_ush _ _ E') as [Hu' _].
    destruct (goodT_get _ _ _ _ _ HG G0) as [Hu0 _].
    assert (Hb : In b sims).
    { apply Hcov. unfold edge in E. intros Hnil. rewrite Hnil in E. simpl in E. discriminate. }
    assert (Hrow : In (a, d) (aget_l b ind)) by (unfold edge in E; apply aget_in; exact E).
    assert (Hent : In (last (b :: c :: r') 0%nat, (d0, p0)) (aget_l b t)) by (unfold d_get in G0; apply aget_in; exact G0).
    destruct (HC b Hb (fun H => H) a d _ d0 p0 Hrow Hent) as (d1 & p1 & G1 & L1).
    exists d1, p1. split; [exact G1|]. eapply tle_trans; [exact L1|].
    destruct (comp_ush D d d0 Hu Hu0) as [_ T0]. destruct (comp_ush D d W' Hu Hu') as [_ T1]. rewrite T0, T1.
    apply zadd_mono_r; [|exact L0]. destruct Hu0 as (_ & _ & ->). destruct Hu' as (_ & _ & ->). reflexivity.
Qed.

Lemma zero_self_none t : zero_self t sims = None -> forall s d p, In s sims -> d_get t s s = Some (d, p) -> izero d = false.
Proof.
  unfold zero_self.
  assert (G : forall l acc, fold_left (fun (acc : option (list nat)) s =>
     match acc with Some p => Some p | None =>
       match d_get t s s with Some (d, path) => if izero d then Some path else None | None => None end end) l acc = None ->
     acc = None /\ forall s d p, In s l -> d_get t s s = Some (d, p) -> izero d = false).
  { induction l as [|s l IH]; intros acc H; simpl in H; [split; [exact H|intros ? ? ? []]|].
    destruct (IH _ H) as [A B]. destruct acc as [q|]; [discriminate|]. split; [reflexivity|].
    intros s' d p [<-|Hin] Hg; [|eapply B; eauto].
    rewrite Hg in A. destruct (izero d); [discriminate|reflexivity]. }
  intros H. apply (G _ _ H).
Qed.

(* Completeness: an accepted table has no closed walk through a simulator whose combined delay is zero. *)
Theorem accepted_no_zero_cycle fuel : cycle_check fuel ind sims = CycAccepted ->
  forall p s W, hd_error p = Some s -> last p 0%nat = s -> In s sims -> walk_delay ind p = Some W -> izero W = false.
Proof.
  unfold cycle_check. destruct (cyc_loop fuel ind (cyc_init ind) sims) as [[t|]|] eqn:E; try discriminate.
  destruct (zero_self t sims) as [q|] eqn:Z; [discriminate|]. intros _ p s W Hh Hl Hs Hw.
  pose proof (loop_inv fuel _ _ _ init_inv E) as HL.
  destruct (walk_bound t HL p s W Hh Hw) as (d0 & p0 & G0 & L0). rewrite Hl in G0.
  pose proof (zero_self_none t Z s d0 p0 Hs G0) as Hz.
  destruct (izero W) eqn:EW; [|reflexivity]. exfalso.
  destruct HL as (HG & _ & _). destruct (goodT_get _ _ _ _ _ HG G0) as [Hu0 Hn0]. destruct (walk_ush _ _ Hw) as [HuW _].
  assert (izero d0 = true).
  { unfold izero in *. apply (nonneg_le_zero (itiers d0) (itiers W)); auto.
    destruct Hu0 as (_ & _ & ->). destruct HuW as (_ & _ & ->). reflexivity. }
  congruence.
Qed.
End CC.

(* ---- decidable premises, and the statement in terms of resolving connections ---- *)
Definition ushb (D:nat) (d:interval) : bool := (ipre d =? D)%nat && (icut d =? D)%nat && (length (itiers d) =? D)%nat.
Definition uni_indel (D:nat) (ind:indel_tab) : bool :=
  forallb (fun e : nat * list (nat * interval) => forallb (fun pd : nat * interval => ushb D (snd pd) && nonneg (snd pd)) (snd e)) ind.
Definition cov_indel (ind:indel_tab) (sims:list nat) : bool :=
  forallb (fun e : nat * list (nat * interval) => match snd e with [] => true | _ => existsb (Nat.eqb (fst e)) sims end) ind.

(* every connection on the walk has delay zero (it is neither time-shifted nor weak) *)
Fixpoint all_zero (ind:indel_tab) (p:list nat) : bool :=
  match p with
  | a :: ((b :: _) as r) => match edge ind a b with Some d => izero d && (match r with [_] => true | _ => all_zero ind r end) | None => false end
  | _ => false end.

Lemma izero_zadd a b : forallb (fun x => x =? 0) a = true -> forallb (fun x => x =? 0) b = true -> forallb (fun x => x =? 0) (zadd a b) = true.
Proof.
  revert b; induction a as [|x a IH]; intros [|y b] Ha Hb; simpl in *; auto.
  apply andb_true_iff in Ha as [Hx Ha]. apply andb_true_iff in Hb as [Hy Hb].
  apply Z.eqb_eq in Hx, Hy. subst. simpl. apply IH; auto.
Qed.

Theorem accepted_cycles_are_resolved ind D sims fuel :
  wk_indel ind = true -> uni_indel D ind = true -> cov_indel ind sims = true ->
  cycle_check fuel ind sims = CycAccepted ->
  forall p s W, hd_error p = Some s -> last p 0%nat = s -> In s sims -> walk_delay ind p = Some W ->
  izero W = false /\ all_zero ind p = false.
Proof.
  intros W0 U C Hacc p s W Hh Hl Hs Hw.
  pose proof W0 as W0'. apply andb_true_iff in W0' as [W1 W2]. rewrite forallb_forall in W2.
  assert (WK : forall sim preds, In (sim, preds) ind -> forall q dl, In (q, dl) preds -> edge ind q sim = Some dl).
  { intros sim preds Hin q dl Hq. unfold edge, aget_l. rewrite (keys_unique_aget ind sim preds W1 Hin).
    apply keys_unique_aget; [apply (W2 (sim, preds) Hin)|exact Hq]. }
  assert (WK2 : forall sim q dl, In (q, dl) (aget_l sim ind) -> edge ind q sim = Some dl).
  { intros sim q dl Hq. unfold edge. unfold aget_l in *. destruct (aget sim ind) as [row|] eqn:E; [|destruct Hq].
    apply keys_unique_aget; [|exact Hq]. apply (W2 (sim, row)). apply aget_in. exact E. }
  assert (EU : forall a b d, edge ind a b = Some d -> ush D d /\ nonneg d = true).
  { intros a b d He. unfold edge in He. apply aget_in in He. unfold aget_l in He.
    destruct (aget b ind) as [row|] eqn:Er; [|destruct He]. apply aget_in in Er.
    unfold uni_indel in U. rewrite forallb_forall in U. specialize (U _ Er). simpl in U. rewrite forallb_forall in U.
    specialize (U _ He). simpl in U. apply andb_true_iff in U as [U1 U2]. split; [|exact U2].
    unfold ushb in U1. apply andb_true_iff in U1 as [U1 U3]. apply andb_true_iff in U1 as [U1 U4].
    apply Nat.eqb_eq in U1, U3, U4. unfold ush. auto. }
  assert (Hcov : forall x, aget_l x ind <> [] -> In x sims).
  { intros x Hx. unfold aget_l in Hx. destruct (aget x ind) as [row|] eqn:Er; [|congruence]. apply aget_in in Er.
    unfold cov_indel in C. rewrite forallb_forall in C. specialize (C _ Er). simpl in C.
    destruct row as [|r0 row]; [congruence|]. apply existsb_exists in C as (y & Hy & Ey). apply Nat.eqb_eq in Ey. subst y. exact Hy. }
  pose proof (accepted_no_zero_cycle ind D WK2 WK EU sims Hcov fuel Hacc p s W Hh Hl Hs Hw) as Hz.
  split; [exact Hz|].
  destruct (all_zero ind p) eqn:Ea; [|reflexivity]. exfalso.
  assert (G : forall q V, walk_delay ind q = Some V -> all_zero ind q = true -> izero V = true).
  { induction q as [|a q IH]; intros V Hv Hq; simpl in Hv; [discriminate|].
    destruct q as [|b r]; [discriminate|]. simpl in Hq.
    destruct (edge ind a b) as [d|] eqn:E; [|discriminate]. apply andb_true_iff in Hq as [Hd Hq].
    destruct r as [|c r']; [injection Hv as <-; exact Hd|].
    destruct (walk_delay ind (b :: c :: r')) as [V'|] eqn:E'; [|discriminate]. injection Hv as <-.
    specialize (IH V' eq_refl Hq).
    destruct (EU _ _ _ E) as [Hu _].
    assert (Hu' : ush D V').
    { clear -E' EU. revert V' E'. generalize (b :: c :: r') as w. induction w as [|x w IHw]; intros V' H; simpl in H; [discriminate|].
      destruct w as [|y w']; [discriminate|]. destruct (edge ind x y) as [e|] eqn:Ee; [|discriminate]. destruct (EU _ _ _ Ee) as [He _].
      destruct w' as [|z w'']; [injection H as <-; exact He|].
      destruct (walk_delay ind (y :: z :: w'')) as [V''|] eqn:E''; [|discriminate]. injection H as <-.
      apply (comp_ush D e V'' He (IHw V'' eq_refl)). }
    destruct (comp_ush D d V' Hu Hu') as [_ T]. unfold izero in *. rewrite T. apply izero_zadd; assumption. }
  rewrite (G p W Hw Ea) in Hz. discriminate.
Qed.
