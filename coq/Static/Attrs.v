(* mosaik/in_or_out_set.py (OutSet/frozenset algebra with Python's reflected-operator dispatch, parse_set_triple)
   and scenario.parse_attrs.  Executable model; attributes are numbers; a set is a finite list or the complement of one. *)
From Coq Require Import List Bool Arith.
Import ListNotations.

Inductive ioset := Fin (l : list nat) | Cof (l : list nat).     (* Cof l = OutSet(l): everything except l *)
Definition lmem (x : nat) (l : list nat) : bool := existsb (Nat.eqb x) l.
Definition mem (x : nat) (s : ioset) : bool := match s with Fin l => lmem x l | Cof l => negb (lmem x l) end.
Definition ldiff (a b : list nat) := filter (fun x => negb (lmem x b)) a.
Definition linter (a b : list nat) := filter (fun x => lmem x b) a.
Definition lunion (a b : list nat) := a ++ b.
Definition lincl (a b : list nat) : bool := forallb (fun x => lmem x b) a.
Definition leq (a b : list nat) : bool := lincl a b && lincl b a.

(* a - b, a & b, a | b, a == b with the dispatch Python performs for each combination of operand types *)
Definition isub (a b : ioset) : ioset :=
  match a, b with
  | Fin x, Fin y => Fin (ldiff x y)
  | Fin x, Cof y => Fin (linter x y)                 (* OutSet.__rsub__ *)
  | Cof x, Cof y => Fin (ldiff y x)                  (* OutSet.__sub__, other is OutSet *)
  | Cof x, Fin y => Cof (lunion x y)
  end.
Definition iand (a b : ioset) : ioset :=
  match a, b with
  | Fin x, Fin y => Fin (linter x y)
  | Fin x, Cof y => Fin (ldiff x y)                  (* OutSet.__rand__ *)
  | Cof x, Cof y => Cof (lunion x y)
  | Cof x, Fin y => Fin (ldiff y x)
  end.
Definition ior (a b : ioset) : ioset :=
  match a, b with
  | Fin x, Fin y => Fin (lunion x y)
  | Fin x, Cof y => Cof (ldiff y x)                  (* OutSet.__ror__ *)
  | Cof x, Cof y => Cof (linter x y)
  | Cof x, Fin y => Cof (ldiff x y)
  end.
Definition seqb (a b : ioset) : bool :=
  match a, b with Fin x, Fin y => leq x y | Cof x, Cof y => leq x y | _, _ => false end.

Inductive pres (A : Type) := POk (a : A) | PMissing | PNotDisjoint | PNotUnion | PTypeForbidden.
Arguments POk {A}. Arguments PMissing {A}. Arguments PNotDisjoint {A}. Arguments PNotUnion {A}. Arguments PTypeForbidden {A}.

Definition parse_set_triple (u a b : option ioset) : pres (ioset * ioset) :=
  match (match u with Some u0 => Some u0 | None => match a, b with Some a0, Some b0 => Some (ior a0 b0) | _, _ => None end end) with
  | None => PMissing
  | Some u0 =>
    match (match a with Some a0 => Some a0 | None => match b with Some b0 => Some (isub u0 b0) | None => None end end) with
    | None => PMissing
    | Some a0 =>
      let b0 := match b with Some b1 => b1 | None => isub u0 a0 end in
      if negb (seqb (iand a0 b0) (Fin [])) then PNotDisjoint
      else if negb (seqb u0 (ior a0 b0)) then PNotUnion
      else POk (a0, b0)
    end
  end.

Inductive asimtype := ATimeBased | AEventBased | AHybrid.
Record mdesc := mkDesc {
  d_attrs : option (list nat); d_trigger : option (list nat); d_nontrigger : option (list nat);
  d_persistent : option (list nat); d_nonpersistent : option (list nat); d_any_inputs : bool }.
Definition wrap (o : option (list nat)) : option ioset := option_map Fin o.
Definition get_or (o : option (list nat)) (dflt : option ioset) : option ioset :=
  match o with Some l => Some (Fin l) | None => dflt end.

(* returns (measurement inputs, event inputs, measurement outputs, event outputs) *)
Definition parse_attrs (d : mdesc) (ty : asimtype) : pres (ioset * ioset * ioset * ioset) :=
  let inputs := if d_any_inputs d then Some (Cof []) else wrap (d_attrs d) in
  let empty := Some (Fin []) in
  let dm := match ty with ATimeBased => None | AEventBased => empty
                     | AHybrid => match d_trigger d with Some _ => None | None => inputs end end in
  let de := match ty with ATimeBased => empty | _ => None end in
  match parse_set_triple inputs (get_or (d_nontrigger d) dm) (get_or (d_trigger d) de) with
  | POk (mi, ei) =>
      if (match ty with ATimeBased => negb (seqb ei (Fin [])) | AEventBased => negb (seqb mi (Fin [])) | AHybrid => false end)
      then PTypeForbidden else
      let outputs := wrap (d_attrs d) in
      let dmo := match ty with AEventBased => empty | _ => None end in
      let deo := match ty with AEventBased => None | _ => empty end in
      match parse_set_triple outputs (get_or (d_persistent d) dmo) (get_or (d_nonpersistent d) deo) with
      | POk (mo, eo) =>
          if (match ty with ATimeBased => negb (seqb eo (Fin [])) | AEventBased => negb (seqb mo (Fin [])) | AHybrid => false end)
          then PTypeForbidden else POk (mi, ei, mo, eo)
      | PMissing => PMissing | PNotDisjoint => PNotDisjoint | PNotUnion => PNotUnion | PTypeForbidden => PTypeForbidden
      end
  | PMissing => PMissing | PNotDisjoint => PNotDisjoint | PNotUnion => PNotUnion | PTypeForbidden => PTypeForbidden
  end.
