(* The cycle reported by ensure_no_dataflow_cycles is real: every (delay, path) stored by the closure is a walk of
   the input-delay graph from src to dest whose composed delay (combining the edge delays along the path) is the
   stored delay; the rejected path is a closed walk with delay zero. *)
From Coq Require Import ZArith List Bool Arith Lia.
Import ListNotations.
From MV Require Import Time.Spec Static.Groups Static.Connect Static.Build Static.Cycle.

Lemma aget_aset_same {V} k (v:V) l : aget k (aset k v l) = Some v.
Proof. induction l as [|[k' v'] l IH]; simpl; [rewrite Nat.eqb_refl; reflexivity|]. destruct (Nat.eqb_spec k k'); simpl; [rewrite Nat.eqb_refl; reflexivity|]. destruct (Nat.eqb_spec k k'); [contradiction|exact IH]. Qed.
Lemma aget_aset_other {V} k k2 (v:V) l : k2 <> k -> aget k2 (aset k v l) = aget k2 l.
Proof.
  intros H. induction l as [|[k' v'] l IH]; simpl.
  - destruct (Nat.eqb_spec k2 k); [contradiction|reflexivity].
  - destruct (Nat.eqb_spec k k'); simpl.
    + subst. destruct (Nat.eqb_spec k2 k'); [contradiction|reflexivity].
    + destruct (Nat.eqb_spec k2 k'); [reflexivity|exact IH].
Qed.
Lemma d_get_set t s d v s' d' : d_get (d_set t s d v) s' d' = if Nat.eqb s' s && Nat.eqb d' d then Some v else d_get t s' d'.
Proof.
  unfold d_get, d_set, aget_l. destruct (Nat.eqb_spec s' s) as [->|Hs]; simpl.
  - rewrite aget_aset_same. destruct (Nat.eqb_spec d' d) as [->|Hd]; [apply aget_aset_same|apply aget_aset_other; exact Hd].
  - rewrite aget_aset_other by exact Hs. reflexivity.
Qed.

Lemma in_aset {V} k (v:V) l x : In x (aset k v l) -> x = (k, v) \/ In x l.
Proof.
  induction l as [|[k' v'] l IH]; simpl; [intros [H|[]]; auto|].
  destruct (Nat.eqb_spec k k'); simpl; intros [H|H]; auto. destruct (IH H); auto.
Qed.
Lemma aget_l_aset {V} k (row : list V) t k2 : aget_l k2 (aset k row t) = if Nat.eqb k2 k then row else aget_l k2 t.
Proof.
  unfold aget_l. destruct (Nat.eqb_spec k2 k) as [->|H]; [rewrite aget_aset_same; reflexivity|rewrite aget_aset_other by exact H; reflexivity].
Qed.

Lemma aget_in {V} k (v:V) l : aget k l = Some v -> In (k, v) l.
Proof. induction l as [|[k' v'] l IH]; simpl; [discriminate|]. destruct (Nat.eqb_spec k k'); [intros H; injection H as <-; subst; left; reflexivity|intros H; right; auto]. Qed.

Section C.
Variable ind : indel_tab.
(* the table is well keyed: looking an edge up finds what is listed *)
Hypothesis WK : forall sim preds, In (sim, preds) ind -> forall p dl, In (p, dl) preds -> edge ind p sim = Some dl.
Hypothesis WK2 : forall sim p dl, In (p, dl) (aget_l sim ind) -> edge ind p sim = Some dl.

(* a stored entry is justified: its path starts at src, ends at dest, is a walk, and composes to the delay *)
Definition justified (s d : nat) (v : interval * list nat) : Prop :=
  hd_error (snd v) = Some s /\ last (snd v) 0%nat = d /\ walk_delay ind (snd v) = Some (fst v) /\ (2 <= length (snd v))%nat.
Definition Just (t : dtab) : Prop := forall s d v, In (d, v) (aget_l s t) -> justified s d v.

Lemma just_set t s d v : Just t -> justified s d v -> Just (d_set t s d v).
Proof.
  intros HJ Hv s' d' v' H. unfold d_set in H. rewrite aget_l_aset in H.
  destruct (Nat.eqb_spec s' s) as [->|Hs]; [|apply HJ; exact H].
  apply in_aset in H as [H|H]; [injection H as -> ->; exact Hv|apply HJ; exact H].
Qed.
Lemma just_nil : Just [].
Proof. intros s d v H. unfold aget_l in H. simpl in H. destruct H. Qed.

Lemma justified_extend src mid dest e_delay d path :
  edge ind src mid = Some e_delay -> justified mid dest (d, path) -> justified src dest (comp e_delay d, src :: path).
Proof.
  intros He (H1 & H2 & H3 & H4). simpl in *. unfold justified; simpl.
  destruct path as [|m path]; [simpl in H4; lia|]. simpl in H1. injection H1 as ->.
  split; [reflexivity|]. split.
  - destruct path; simpl in *; [lia|exact H2].
  - split; [|simpl; lia]. rewrite He. destruct path as [|x path]; [simpl in H4; lia|]. rewrite H3. reflexivity.
Qed.

Lemma init_just : Just (cyc_init ind).
Proof.
  unfold cyc_init.
  assert (G : forall l t, (forall e, In e l -> In e ind) -> Just t ->
     Just (fold_left (fun t (e : nat * list (nat * interval)) => let (sim, preds) := e in
        fold_left (fun t (p : nat * interval) => d_set t (fst p) sim (snd p, [fst p; sim])) preds t) l t)).
  { induction l as [|[sim preds] l IH]; intros t Hsub HJ; simpl; [exact HJ|].
    apply IH; [intros; apply Hsub; right; auto|].
    assert (Hp : forall p dl, In (p, dl) preds -> edge ind p sim = Some dl) by (apply (WK sim preds); apply Hsub; left; reflexivity).
    clear IH Hsub. revert t HJ. induction preds as [|[p dl] preds IHp]; intros t HJ; simpl; [exact HJ|].
    apply IHp; [intros; apply Hp; right; auto|].
    apply just_set; [exact HJ|]. unfold justified; simpl. repeat split; auto.
    rewrite (Hp p dl) by (left; reflexivity). reflexivity. }
  apply G; [auto|apply just_nil].
Qed.

Lemma upd_min_some a b x : upd_min a b = Some (Some x) -> x = b.
Proof. unfold upd_min. destruct a as [a0|]; [destruct (ile a0 b) as [[|]|]|]; intros H; inversion H; reflexivity. Qed.

Lemma inner_just src mid s2m : edge ind src mid = Some s2m ->
  forall row acc2, (forall de, In de row -> justified mid (fst de) (snd de)) ->
        (forall ta da, acc2 = Some (ta, da) -> Just ta) ->
        forall tb db, fold_left (fun (acc2 : option (dtab * list nat)) (de : nat * (interval * list nat)) =>
            let '(dest, (mid_to_dest, path)) := de in
            match acc2 with None => None | Some (t1, dirty1) =>
              let src_to_dest := comp s2m mid_to_dest in
              match upd_min (option_map fst (d_get t1 src dest)) src_to_dest with
              | None => None
              | Some None => Some (t1, dirty1)
              | Some (Some x) => Some (d_set t1 src dest (x, src :: path), add_dirty src dirty1)
              end end) row acc2 = Some (tb, db) -> Just tb.
Proof.
  intros He row. induction row as [|[dest [m2d path]] row IHr]; intros acc2 Hr Ha tb db; simpl; [intros E; eapply Ha; eauto|].
  apply IHr; [intros; apply Hr; right; auto|].
  intros ta da E. destruct acc2 as [[t1 dirty1]|]; [|discriminate].
  pose proof (Ha t1 dirty1 eq_refl) as HJ1.
  destruct (upd_min (option_map fst (d_get t1 src dest)) (comp s2m m2d)) as [[x|]|] eqn:U; try discriminate.
  - injection E as <- <-. apply upd_min_some in U. subst x. apply just_set; [exact HJ1|].
    apply (justified_extend src mid dest s2m m2d path He). apply (Hr (dest, (m2d, path))). left; reflexivity.
  - injection E as <- <-. exact HJ1.
Qed.

Lemma step_just t mid dirty t' dirty' : Just t -> cyc_step ind t mid dirty = Some (t', dirty') -> Just t'.
Proof.
  unfold cyc_step. intros HJ.
  assert (G : forall l acc, (forall sp, In sp l -> In sp (aget_l mid ind)) ->
     (forall t0 d0, acc = Some (t0, d0) -> Just t0) ->
     forall t1 d1, fold_left (fun (acc : option (dtab * list nat)) (sp : nat * interval) =>
       let (src, src_to_mid) := sp in
       match acc with None => None | Some (t0, dirty0) =>
         fold_left (fun (acc2 : option (dtab * list nat)) (de : nat * (interval * list nat)) =>
            let '(dest, (mid_to_dest, path)) := de in
            match acc2 with None => None | Some (t1, dirty1) =>
              let src_to_dest := comp src_to_mid mid_to_dest in
              match upd_min (option_map fst (d_get t1 src dest)) src_to_dest with
              | None => None
              | Some None => Some (t1, dirty1)
              | Some (Some x) => Some (d_set t1 src dest (x, src :: path), add_dirty src dirty1)
              end end) (aget_l mid t0) (Some (t0, dirty0))
       end) l acc = Some (t1, d1) -> Just t1).
  { induction l as [|[src s2m] l IH]; intros acc Hsub Hacc t1 d1; simpl; [intros E; eapply Hacc; eauto|].
    apply IH; [intros; apply Hsub; right; auto|].
    intros t0' d0' E. destruct acc as [[t0 dirty0]|]; [|
      exfalso; clear -E; discriminate].
    pose proof (Hacc t0 dirty0 eq_refl) as HJ0.
    assert (He : edge ind src mid = Some s2m) by (apply WK2; apply Hsub; left; reflexivity).
    (* inner fold: entries come from the snapshot row of mid in t0, all justified *)
    assert (Hrow : forall de, In de (aget_l mid t0) -> justified mid (fst de) (snd de)) by (intros [d v] Hin; apply (HJ0 mid d v Hin)).
    eapply (inner_just src mid s2m He (aget_l mid t0) (Some (t0, dirty0)) Hrow); [|exact E]. intros ta da Eq. injection Eq as <- <-. exact HJ0. }
  intros E. refine (G _ _ (fun sp H => H) _ _ _ E). intros t0 d0 Eq. injection Eq as <- <-. exact HJ.
Qed.

Lemma loop_just fuel : forall t dirty t', Just t -> cyc_loop fuel ind t dirty = Some (Some t') -> Just t'.
Proof.
  induction fuel as [|f IH]; intros t dirty t' HJ; destruct dirty as [|mid rest]; simpl; try (intros E; injection E as <-; exact HJ); try discriminate.
  destruct (cyc_step ind t mid rest) as [[t1 d1]|] eqn:E; [|discriminate].
  apply IH. eapply step_just; eauto.
Qed.

(* the cycle named in the error is a real cycle of the scenario whose combined delay is zero *)
Theorem rejected_path_is_zero_cycle fuel sims path : cycle_check fuel ind sims = CycRejected path ->
  exists s d, hd_error path = Some s /\ last path 0%nat = s /\ walk_delay ind path = Some d /\ izero d = true /\ In s sims.
Proof.
  unfold cycle_check. destruct (cyc_loop fuel ind (cyc_init ind) sims) as [[t|]|] eqn:E; try discriminate.
  pose proof (loop_just fuel _ _ _ init_just E) as HJ.
  destruct (zero_self t sims) as [p|] eqn:Z; [|discriminate]. intros H; injection H as <-.
  unfold zero_self in Z.
  assert (G : forall l acc, fold_left (fun (acc : option (list nat)) s =>
     match acc with Some p => Some p | None =>
       match d_get t s s with Some (d, path) => if izero d then Some path else None | None => None end end) l acc = Some p ->
     acc = Some p \/ exists s d, In s l /\ d_get t s s = Some (d, p) /\ izero d = true).
  { induction l as [|s l IH]; intros acc H; simpl in H; [left; exact H|].
    destruct (IH _ H) as [A|(s' & d & I & D & Zd)]; [|right; exists s', d; split; [right; exact I|auto]].
    destruct acc as [q|]; [left; exact A|].
    destruct (d_get t s s) as [[d path]|] eqn:D; [|discriminate].
    destruct (izero d) eqn:Zd; [|discriminate]. injection A as <-. right. exists s, d. split; [left; reflexivity|auto]. }
  destruct (G _ _ Z) as [A|(s & d & I & D & Zd)]; [discriminate|].
  assert (Hin : In (s, (d, p)) (aget_l s t)) by (unfold d_get in D; apply aget_in; exact D).
  destruct (HJ s s (d, p) Hin) as (H1 & H2 & H3 & _). simpl in *. exists s, d. auto.
Qed.
End C.

(* well-keyed tables: no key listed twice (what dict-built tables satisfy); decidable *)
Fixpoint keys_unique {V} (l : list (nat * V)) : bool :=
  match l with [] => true | (k, _) :: r => negb (existsb (fun e => Nat.eqb (fst e) k) r) && keys_unique r end.
Definition wk_indel (ind : indel_tab) : bool := keys_unique ind && forallb (fun e : nat * list (nat * interval) => keys_unique (snd e)) ind.
Lemma keys_unique_aget {V} (l : list (nat * V)) k v : keys_unique l = true -> In (k, v) l -> aget k l = Some v.
Proof.
  induction l as [|[k' v'] l IH]; simpl; [tauto|]. intros H [E|Hin]; apply andb_true_iff in H as [H1 H2].
  - injection E as -> ->. rewrite Nat.eqb_refl. reflexivity.
  - destruct (Nat.eqb_spec k k') as [->|Hne]; [|apply IH; assumption].
    exfalso. apply negb_true_iff in H1. assert (existsb (fun e : nat * V => Nat.eqb (fst e) k') l = true).
    { apply existsb_exists. exists (k', v). split; [exact Hin|apply Nat.eqb_refl]. }
    congruence.
Qed.
Theorem rejected_path_is_zero_cycle_wk ind fuel sims path : wk_indel ind = true ->
  cycle_check fuel ind sims = CycRejected path ->
  exists s d, hd_error path = Some s /\ last path 0%nat = s /\ walk_delay ind path = Some d /\ izero d = true /\ In s sims.
Proof.
  intros W. apply andb_true_iff in W as [W1 W2]. rewrite forallb_forall in W2.
  apply rejected_path_is_zero_cycle.
  - intros sim preds Hin p dl Hp. unfold edge, aget_l. rewrite (keys_unique_aget ind sim preds W1 Hin).
    apply keys_unique_aget; [apply (W2 (sim, preds) Hin)|exact Hp].
  - intros sim p dl Hp. unfold edge. unfold aget_l in *. destruct (aget sim ind) as [row|] eqn:E; [|destruct Hp].
    apply keys_unique_aget; [|exact Hp]. apply (W2 (sim, row)). apply aget_in. exact E.
Qed.
