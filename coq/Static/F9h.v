(* Known finding F9h as a theorem about the model: on a non-convex scenario the closure loop of the cycle check need not
   terminate.  The control flow of the loop does not look at the recorded paths, so the loop is simulated by a path-free
   system (cyc_step0 on tables of delays only); in that system the witness's state after 200 iterations comes back 12... (p)
   iterations later (found by computation), hence the loop is alive after ANY number of iterations and cyc_loop runs out of
   every amount of fuel. *)
From Coq Require Import ZArith List Bool Arith Lia.
Import ListNotations.
From MV Require Import Time.Spec Static.Groups Static.Connect Static.Build Static.Cycle.
Open Scope Z_scope.

(* ---- the path-free system ---- *)
Definition tab0 := list (nat * list (nat * interval)).
Definition get0 (t : tab0) (s d : nat) : option interval := aget d (aget_l s t).
Definition set0 (t : tab0) (s d : nat) (v : interval) : tab0 := aset s (aset d v (aget_l s t)) t.
Definition cyc_step0 (ind : indel_tab) (t : tab0) (mid : nat) (dirty : list nat) : option (tab0 * list nat) :=
  fold_left (fun (acc : option (tab0 * list nat)) (sp : nat * interval) =>
     let (src, src_to_mid) := sp in
     match acc with None => None | Some (t0, dirty0) =>
       fold_left (fun (acc2 : option (tab0 * list nat)) (de : nat * interval) =>
          let '(dest, mid_to_dest) := de in
          match acc2 with None => None | Some (t1, dirty1) =>
            match upd_min (get0 t1 src dest) (comp src_to_mid mid_to_dest) with
            | None => None
            | Some None => Some (t1, dirty1)
            | Some (Some x) => Some (set0 t1 src dest x, add_dirty src dirty1)
            end end) (aget_l mid t0) (Some (t0, dirty0))
     end) (aget_l mid ind) (Some (t, dirty)).

Definition erow (r : list (nat * (interval * list nat))) : list (nat * interval) := map (fun e => (fst e, fst (snd e))) r.
Definition erase (t : dtab) : tab0 := map (fun r => (fst r, erow (snd r))) t.
Definition E (a : option (dtab * list nat)) : option (tab0 * list nat) := option_map (fun td => (erase (fst td), snd td)) a.

Lemma aget_map {V W} (h : V -> W) k : forall l, aget k (map (fun e : nat * V => (fst e, h (snd e))) l) = option_map h (aget k l).
Proof. induction l as [|[k' v] l IH]; simpl; [reflexivity|]. destruct (Nat.eqb k k'); [reflexivity|exact IH]. Qed.
Lemma aset_map {V W} (h : V -> W) k v : forall l, aset k (h v) (map (fun e : nat * V => (fst e, h (snd e))) l) = map (fun e => (fst e, h (snd e))) (aset k v l).
Proof. induction l as [|[k' v'] l IH]; simpl; [reflexivity|]. destruct (Nat.eqb k k'); simpl; [reflexivity|]. rewrite IH. reflexivity. Qed.
Lemma aget_l_erase t s : aget_l s (erase t) = erow (aget_l s t).
Proof. unfold aget_l, erase. rewrite (aget_map erow). destruct (aget s t); reflexivity. Qed.
Lemma get0_erase t s d : get0 (erase t) s d = option_map fst (d_get t s d).
Proof. unfold get0, d_get. rewrite aget_l_erase. unfold erow. apply (aget_map (@fst interval (list nat))). Qed.
Lemma set0_erase t s d x p : set0 (erase t) s d x = erase (d_set t s d (x, p)).
Proof.
  unfold set0, d_set. rewrite aget_l_erase. unfold erow at 1.
  change x with (fst (x, p)) at 1. rewrite (aset_map (@fst interval (list nat)) d (x, p)).
  unfold erase. apply (aset_map erow).
Qed.

Lemma fold_commute {A A0 B B0} (Ef : A -> A0) (g : B -> B0) (f : A -> B -> A) (f0 : A0 -> B0 -> A0) :
  (forall a b, Ef (f a b) = f0 (Ef a) (g b)) -> forall l a, Ef (fold_left f l a) = fold_left f0 (map g l) (Ef a).
Proof. intros H l. induction l as [|b l IH]; intros a; simpl; [reflexivity|]. rewrite IH, H. reflexivity. Qed.

Lemma fold_ext3 {A B} (f g : A -> B -> A) l : (forall a b, f a b = g a b) -> forall a, fold_left f l a = fold_left g l a.
Proof. intros H. induction l as [|b l IH]; intros a; simpl; [reflexivity|]. rewrite H. apply IH. Qed.

Theorem step_erased ind t mid dirty : E (cyc_step ind t mid dirty) = cyc_step0 ind (erase t) mid dirty.
Proof.
  unfold cyc_step, cyc_step0.
  rewrite (fold_commute E (fun sp : nat * interval => sp) _
            (fun (acc : option (tab0 * list nat)) (sp : nat * interval) =>
               let (src, src_to_mid) := sp in
               match acc with None => None | Some (t0, dirty0) =>
                 fold_left (fun (acc2 : option (tab0 * list nat)) (de : nat * interval) =>
                    let '(dest, mid_to_dest) := de in
                    match acc2 with None => None | Some (t1, dirty1) =>
                      match upd_min (get0 t1 src dest) (comp src_to_mid mid_to_dest) with
                      | None => None | Some None => Some (t1, dirty1)
                      | Some (Some x) => Some (set0 t1 src dest x, add_dirty src dirty1) end end) (aget_l mid t0) (Some (t0, dirty0))
               end)).
  - rewrite map_id. reflexivity.
  - intros [[t0 d0]|] [src s2m]; [|reflexivity]. cbn [E option_map fst snd].
    rewrite aget_l_erase. unfold erow. change (Some (erase t0, d0)) with (E (Some (t0, d0))).
    rewrite <- (fold_commute E (fun e : nat * (interval * list nat) => (fst e, fst (snd e)))
                  (fun (acc2 : option (dtab * list nat)) (de : nat * (interval * list nat)) =>
                     let '(dest, (mid_to_dest, path)) := de in
                     match acc2 with None => None | Some (t1, dirty1) =>
                       let src_to_dest := comp s2m mid_to_dest in
                       match upd_min (option_map fst (d_get t1 src dest)) src_to_dest with
                       | None => None | Some None => Some (t1, dirty1)
                       | Some (Some x) => Some (d_set t1 src dest (x, src :: path), add_dirty src dirty1) end end)).
    + reflexivity.
    + intros [[t1 d1]|] [dest [m2d path]]; [|reflexivity]. cbn [E option_map fst snd]. rewrite get0_erase.
      destruct (upd_min (option_map fst (d_get t1 src dest)) (comp s2m m2d)) as [[x|]|]; cbn [E option_map fst snd]; try reflexivity.
      rewrite (set0_erase t1 src dest x (src :: path)). reflexivity.
Qed.

(* ---- iteration ---- *)
Fixpoint iter (n : nat) (ind : indel_tab) (st : dtab * list nat) : option (dtab * list nat) :=
  match n with
  | O => Some st
  | S k => match snd st with
           | [] => None
           | mid :: rest => match cyc_step ind (fst st) mid rest with None => None | Some st' => iter k ind st' end
           end
  end.
Fixpoint iter0 (n : nat) (ind : indel_tab) (st : tab0 * list nat) : option (tab0 * list nat) :=
  match n with
  | O => Some st
  | S k => match snd st with
           | [] => None
           | mid :: rest => match cyc_step0 ind (fst st) mid rest with None => None | Some st' => iter0 k ind st' end
           end
  end.

Lemma iter_erased ind : forall n st, E (iter n ind st) = iter0 n ind (erase (fst st), snd st).
Proof.
  induction n as [|n IH]; intros [t d]; [reflexivity|]. cbn [iter iter0 fst snd].
  destruct d as [|mid rest]; [reflexivity|]. rewrite <- step_erased.
  destruct (cyc_step ind t mid rest) as [[t' d']|]; cbn [E option_map fst snd]; [apply IH|reflexivity].
Qed.

Lemma iter0_add a b ind st : iter0 (a + b) ind st = match iter0 a ind st with Some st' => iter0 b ind st' | None => None end.
Proof.
  revert st. induction a as [|a IH]; intros st; [reflexivity|]. cbn [Nat.add iter0].
  destruct (snd st) as [|mid rest]; [reflexivity|]. destruct (cyc_step0 ind (fst st) mid rest); [apply IH|reflexivity].
Qed.

(* a path-free state that comes back after p > 0 iterations is never left *)
Lemma periodic_alive0 ind st p : (0 < p)%nat -> iter0 p ind st = Some st -> forall n, iter0 n ind st <> None.
Proof.
  intros Hp Hper. assert (Hk : forall k, iter0 (k * p) ind st = Some st).
  { induction k as [|k IH]; [reflexivity|]. cbn [Nat.mul]. rewrite iter0_add, Hper. exact IH. }
  intros n Hn. specialize (Hk n). replace (n * p)%nat with (n + (n * p - n))%nat in Hk by nia. rewrite iter0_add, Hn in Hk. discriminate.
Qed.

Lemma alive_runs_out_of_fuel ind : forall fuel st, (forall n, iter n ind st <> None) -> cyc_loop fuel ind (fst st) (snd st) = Some None.
Proof.
  induction fuel as [|f IH]; intros [t dirty] H; cbn [fst snd].
  - destruct dirty as [|mid rest]; [exfalso; apply (H 1%nat); reflexivity|reflexivity].
  - destruct dirty as [|mid rest]; [exfalso; apply (H 1%nat); reflexivity|]. cbn [cyc_loop].
    destruct (cyc_step ind t mid rest) as [[t' d']|] eqn:Es; [|exfalso; apply (H 1%nat); cbn [iter snd fst]; rewrite Es; reflexivity].
    apply (IH (t', d')). intros n Hn. apply (H (S n)). cbn [iter snd fst]. rewrite Es. exact Hn.
Qed.

(* if the path-free image of the state reached after n0 iterations is periodic, the loop never ends *)
Theorem periodic_image_never_ends ind st n0 p st0 : (0 < p)%nat ->
  iter0 n0 ind (erase (fst st), snd st) = Some st0 -> iter0 p ind st0 = Some st0 ->
  forall fuel, cyc_loop fuel ind (fst st) (snd st) = Some None.
Proof.
  intros Hp H0 Hper fuel. apply alive_runs_out_of_fuel. intros n Hn.
  assert (Hn0 : iter0 n ind (erase (fst st), snd st) = None) by (rewrite <- iter_erased, Hn; reflexivity).
  (* n <= n0 + n: the path-free run is alive at n0 + n, hence at n *)
  assert (Ha : iter0 (n0 + n) ind (erase (fst st), snd st) <> None).
  { rewrite iter0_add, H0. apply (periodic_alive0 ind st0 p Hp Hper). }
  apply Ha. rewrite Nat.add_comm, iter0_add, Hn0. reflexivity.
Qed.

(* ---- the witness (known_findings.json F9h) ---- *)
Definition f9h_flags (k : nat) : cflags :=
  match k with
  | 0%nat => mkF true true true false true 0 false false true      (* plain *)
  | 1%nat => mkF true true true false true 0 true true true        (* weak, with initial data *)
  | _ => mkF true true true false true 1 false true true           (* time-shifted, with initial data *)
  end.
Definition f9h_cn (a b k : nat) := mkConn a b 2 0 (f9h_flags k) false 7.
Definition f9h_conns : list conn :=
  [f9h_cn 3 4 1; f9h_cn 2 4 0; f9h_cn 3 0 2; f9h_cn 5 4 0; f9h_cn 0 2 0; f9h_cn 4 0 0; f9h_cn 2 0 1; f9h_cn 1 2 1; f9h_cn 1 5 0; f9h_cn 2 3 0; f9h_cn 0 1 0].
Definition f9h_build := build [None; Some 0%nat; Some 1%nat] (fun i => match i with 0 | 1 | 2 => 1 | 3 | 4 => 2 | _ => 0 end%nat) f9h_conns.
Definition f9h_ind : indel_tab := match f9h_build with BOk t => t_indel t | _ => [] end.
Definition f9h_order : list nat := [4; 0; 2; 3; 5; 1]%nat.

Lemma f9h_periodic : exists st0, iter0 60 f9h_ind (erase (cyc_init f9h_ind), f9h_order) = Some st0 /\ iter0 8 f9h_ind st0 = Some st0.
Proof. eexists. split; vm_compute; reflexivity. Qed.

Theorem f9h_closure_never_ends : forall fuel, cycle_check fuel f9h_ind f9h_order = CycFuel.
Proof.
  intros fuel. unfold cycle_check. destruct f9h_periodic as (st0 & H0 & Hp).
  rewrite (periodic_image_never_ends f9h_ind (cyc_init f9h_ind, f9h_order) 60 8 st0); [reflexivity|lia|exact H0|exact Hp].
Qed.
Theorem f9h_other_order_rejects : exists p, cycle_check 100 f9h_ind [0; 1; 2; 3; 4; 5]%nat = CycRejected p.
Proof. eexists. vm_compute. reflexivity. Qed.
Lemma f9h_builds : exists t, f9h_build = BOk t /\ t_indel t = f9h_ind.
Proof. eexists. split; [vm_compute; reflexivity|]. vm_compute. reflexivity. Qed.

(* ---- known finding F9: the closure ends in update_min's assertion (witness of known_findings.json F9) ---- *)
Definition f9_flags (w : bool) : cflags := mkF true true true false true 0 w w true.
Definition f9_conns : list conn :=
  [mkConn 0 4 2 0 (f9_flags false) false 0; mkConn 4 1 2 0 (f9_flags false) false 0; mkConn 1 3 2 0 (f9_flags true) false 7;
   mkConn 3 2 2 0 (f9_flags true) false 7; mkConn 0 2 2 0 (f9_flags true) false 7].
Theorem only_accept_or_reject_refuted :
  exists t, build [None; Some 0%nat] (fun i => if Nat.eqb i 4 then 0%nat else 1%nat) f9_conns = BOk t /\
            cycle_check 1000 (t_indel t) [0; 1; 2; 3; 4]%nat = CycIncomparable /\
            cycle_check 1000 (t_indel t) [4; 3; 2; 1; 0]%nat = CycIncomparable.
Proof. eexists. split; [vm_compute; reflexivity|]. split; vm_compute; reflexivity. Qed.
