(* Simulator groups (scenario.SimGroup, group_path, connect_interval). Executable model; proofs in GroupsP.v.
   A group table lists, per group id, its parent (None for the root, which is group 0).
   Groups are compared by identity (SimGroup is a dataclass(eq=False) since the repair of F2). *)
From Coq Require Import ZArith List Bool Arith.
Import ListNotations.
From MV Require Import Time.Spec.

Definition gtab := list (option nat).
Definition parent (gt : gtab) (g : nat) : option nat := nth g gt None.
(* [g; parent g; ...; root]  -- src_groups in group_path *)
Fixpoint chain (fuel : nat) (gt : gtab) (g : nat) : list nat :=
  g :: match fuel with
       | O => []
       | S f => match parent gt g with Some p => chain f gt p | None => [] end
       end.
Definition gchain (gt : gtab) (g : nat) : list nat := chain g gt g.
(* SimGroup.gdepth *)
Definition gdepth (gt : gtab) (g : nat) : nat := length (gchain gt g).
Fixpoint index_of (x : nat) (l : list nat) : option nat :=
  match l with [] => None | y :: r => if Nat.eqb x y then Some O else option_map S (index_of x r) end.
(* the while-loop of group_path; None = ValueError("no joint parent") *)
Fixpoint gp_loop (fuel : nat) (gt : gtab) (sgs : list nat) (dest : nat) (descent : nat) : option (nat * nat * nat) :=
  match index_of dest sgs with
  | Some a => Some (a, descent, dest)
  | None => match fuel with
            | O => None
            | S f => match parent gt dest with Some p => gp_loop f gt sgs p (S descent) | None => None end
            end
  end.
Definition group_path (gt : gtab) (src dest : nat) : option (nat * nat * nat) :=
  gp_loop dest gt (gchain gt src) dest 0.

(* the group table is what World.group() can build: group 0 is the root, every other group's parent is older *)
Fixpoint wfG_from (k : nat) (gt : gtab) : bool :=
  match gt with
  | [] => true
  | p :: r => (match p with None => Nat.eqb k 0 | Some q => Nat.ltb q k end) && wfG_from (S k) r
  end.
Definition wfGb (gt : gtab) : bool := negb (Nat.eqb (length gt) 0) && wfG_from 0 gt.

Inductive cerr := CScenarioError | CValueError | CAssert.
Inductive cres (A : Type) := COk (a : A) | CErr (e : cerr).
Arguments COk {A}. Arguments CErr {A}.

Fixpoint set_nth (n : nat) (v : Z) (l : list Z) : list Z :=
  match l, n with [], _ => [] | _ :: r, O => v :: r | x :: r, S n' => x :: set_nth n' v r end.

(* scenario.connect_interval (time_shifted and weak are ints there) *)
Definition connect_interval (gt : gtab) (sg dg : nat) (shifted : Z) (weak : Z) : cres interval :=
  match group_path gt sg dg with
  | None => CErr CValueError
  | Some (ascent, _, common) =>
      let pre := gdepth gt sg in
      let cutoff := (pre - ascent)%nat in
      let tiers := repeat 0%Z (gdepth gt dg) in
      if negb (weak =? 0)%Z && (match parent gt common with None => true | Some _ => false end) then CErr CScenarioError else
      let tiers := if negb (shifted =? 0)%Z then set_nth 0 shifted tiers else tiers in
      if negb (weak =? 0)%Z && (cutoff <? 2)%nat then CErr CAssert else
      let tiers := if negb (weak =? 0)%Z then set_nth (cutoff - 1) weak tiers else tiers in
      let r := mkI pre cutoff tiers in
      if wfIb r then COk r else CErr CAssert
  end.

(* SimRunner.from_world_time / world time of a simulator at gdepth d *)
Definition from_world (d : nat) : interval := mkI 1 1 (repeat 0%Z d).
