(* Known finding F17 as a theorem about the model of World.connect_one (equal to the regenerated source by Static/ConnOneTie.v):
   initial data given for a connection whose source attribute is NOT persistent is always written into the destination's
   persistent-input memory - the slot of an event becomes a remembered slot, whose content is then repeated at every step
   (Sched/Persist.v: a registered slot holds its last value).  Not a single witness but every such connection. *)
From Coq Require Import ZArith List Bool.
Import ListNotations.
From MV Require Import Time.Spec Static.Groups Static.Connect Static.Build Sched.Timing Sched.Plane.
Open Scope Z_scope.

Theorem initial_data_makes_an_event_slot_persistent gt sg dg f es :
  src_persistent f = false -> has_init f = true -> connect_one gt sg dg f = Accepted es -> In EInitPersist es.
Proof.
  intros Hp Hi. unfold connect_one. destruct (problems f); [|discriminate].
  destruct (connect_interval gt sg dg (shifted f) (if weak f then 1 else 0)%Z) as [delay|[]]; try discriminate.
  destruct (connect_interval gt sg dg 0 0) as [plain|e]; [|discriminate].
  intros H. injection H as <-. rewrite Hp, Hi, andb_false_r.
  destruct (dst_trigger f); simpl; auto 20.
Qed.

(* the hypotheses are satisfiable: an event output into a non-trigger input over a time-shifted connection with initial data *)
Example f17_nonvacuous :
  exists es, connect_one [None] 0 0 (mkF true true true false false 1 false true true) = Accepted es /\ In EInitPersist es.
Proof. eexists. split; [vm_compute; reflexivity|]. simpl. tauto. Qed.

Theorem initial_data_is_per_connection_refuted :
  let f := mkF true true true false true 1 false true true in
  exists t, build [None] (fun _ => 0%nat) [mkConn 0 1 2 0 f false 7; mkConn 0 2 2 0 f false 9] = BOk t /\
            t_cinit t = [(0%nat, [(-1, [(2%nat, 9)])])] /\
            map fst (t_pull t) = [1%nat; 2%nat].
Proof. eexists. split; [vm_compute; reflexivity|]. split; vm_compute; reflexivity. Qed.

Theorem pulled_value_is_newest_by_time_refuted :
  exists outs t, (forall e, In e outs -> fst e <= t) /\ In (3, [(2%nat, 30)]) outs /\ get_output_for outs t = [(2%nat, 10)].
Proof. exists [(3, [(2%nat, 30)]); (1, [(2%nat, 10)])], 5. split; [|split; [left; reflexivity|vm_compute; reflexivity]].
       intros e [<-|[<-|[]]]; simpl; discriminate. Qed.
