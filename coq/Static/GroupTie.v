(* What World.group (Gen/GroupFns.v, regenerated from mosaik/scenario.py on every run) does to the group table over a whole
   scenario script: `with world.group():` blocks are entered and left in a well-nested way (Python's `with`), simulators are
   started in between.  Proved for every well-nested script: a block leaves the current group as it found it (so two blocks
   opened one after the other at the same place are siblings with the same parent), a new group's parent is the group that was
   current when the block was entered, every simulator lands in the group of the innermost open block, and the table stays
   one that World.group can build (wfGb: the root is group 0, every parent is older). *)
From Coq Require Import List Bool Arith Lia.
Import ListNotations.
From MV Require Import Static.Groups Gen.GroupFns.

Inductive gop := Enter | Leave | Start.
(* the interpreter of a script: the stack holds the locals (parent_group) of the blocks in progress *)
Record wstate := mkW { w_gt : gtab; w_cur : nat; w_stack : list nat; w_started : list nat (* group of each started simulator, newest first *) }.
Definition gstep (w : wstate) (o : gop) : option wstate :=
  match o with
  | Enter => let '(gt, cur, saved) := group_enter (w_gt w) (w_cur w) in Some (mkW gt cur (saved :: w_stack w) (w_started w))
  | Leave => match w_stack w with
             | saved :: st => Some (mkW (w_gt w) (group_leave (w_cur w) saved) st (w_started w))
             | [] => None
             end
  | Start => Some (mkW (w_gt w) (w_cur w) (w_stack w) (w_cur w :: w_started w))
  end.
Fixpoint grun (w : wstate) (ops : list gop) : option wstate :=
  match ops with [] => Some w | o :: r => match gstep w o with Some w' => grun w' r | None => None end end.

(* well-nested scripts: the body of a block is well-nested, blocks and starts follow each other *)
Inductive nested : list gop -> Prop :=
| N_nil : nested []
| N_start l : nested l -> nested (Start :: l)
| N_block b l : nested b -> nested l -> nested (Enter :: b ++ Leave :: l).

Lemma grun_app w a b : grun w (a ++ b) = match grun w a with Some w' => grun w' b | None => None end.
Proof. revert w. induction a as [|o a IH]; intros w; simpl; [reflexivity|]. destruct (gstep w o); [apply IH|reflexivity]. Qed.

(* a well-nested script never fails and leaves the current group and the stack as it found them; the table only grows *)
Theorem nested_restores ops : nested ops -> forall w, exists w',
  grun w ops = Some w' /\ w_cur w' = w_cur w /\ w_stack w' = w_stack w /\ exists ext, w_gt w' = w_gt w ++ ext.
Proof.
  induction 1 as [|l Hl IH|b l Hb IHb Hl IHl]; intros w.
  - exists w. repeat split; try reflexivity. exists []. rewrite app_nil_r. reflexivity.
  - destruct (IH (mkW (w_gt w) (w_cur w) (w_stack w) (w_cur w :: w_started w))) as (w' & Hr & Hc & Hs & ext & Hg).
    exists w'. simpl. repeat split; try assumption. exists ext. exact Hg.
  - cbn [grun gstep group_enter].
    set (w1 := mkW (w_gt w ++ [Some (w_cur w)]) (length (w_gt w)) (w_cur w :: w_stack w) (w_started w)).
    destruct (IHb w1) as (w2 & Hr2 & Hc2 & Hs2 & ext2 & Hg2).
    rewrite grun_app, Hr2. cbn [grun gstep]. rewrite Hs2. cbn [w_stack w1]. unfold group_leave.
    destruct (IHl (mkW (w_gt w2) (w_cur w) (w_stack w) (w_started w2))) as (w3 & Hr3 & Hc3 & Hs3 & ext3 & Hg3).
    exists w3. repeat split; try assumption. exists ([Some (w_cur w)] ++ ext2 ++ ext3).
    rewrite Hg3. cbn [w_gt]. rewrite Hg2. cbn [w_gt w1]. rewrite <- !app_assoc. reflexivity.
Qed.

(* entering a block: the new group is a fresh id whose parent is the group that was current *)
Theorem enter_makes_child gt cur : let '(gt', cur', saved) := group_enter gt cur in
  cur' = length gt /\ parent gt' cur' = Some cur /\ saved = cur /\ (forall g, g < length gt -> parent gt' g = parent gt g).
Proof.
  unfold group_enter, parent. repeat split.
  - rewrite app_nth2 by lia. rewrite Nat.sub_diag. reflexivity.
  - intros g Hg. rewrite app_nth1 by exact Hg. reflexivity.
Qed.

(* two blocks opened one after the other at the same place are siblings: both new groups have the group that was current as
   their parent - whatever (well-nested) happens inside the first *)
Theorem consecutive_blocks_are_siblings b1 b2 w : nested b1 -> nested b2 -> exists w',
  grun w (Enter :: b1 ++ Leave :: Enter :: b2 ++ [Leave]) = Some w' /\ w_cur w' = w_cur w /\
  exists g1 g2, g1 <> g2 /\ parent (w_gt w') g1 = Some (w_cur w) /\ parent (w_gt w') g2 = Some (w_cur w).
Proof.
  intros H1 H2.
  cbn [grun gstep group_enter].
  set (w1 := mkW (w_gt w ++ [Some (w_cur w)]) (length (w_gt w)) (w_cur w :: w_stack w) (w_started w)).
  destruct (nested_restores b1 H1 w1) as (w2 & Hr2 & Hc2 & Hs2 & ext2 & Hg2).
  rewrite grun_app, Hr2. cbn [grun gstep group_enter]. rewrite Hs2. cbn [w_stack w1 w_gt w_cur w_started]. unfold group_leave.
  set (w3 := mkW (w_gt w2 ++ [Some (w_cur w)]) (length (w_gt w2)) (w_cur w :: w_stack w) (w_started w2)).
  destruct (nested_restores b2 H2 w3) as (w4 & Hr4 & Hc4 & Hs4 & ext4 & Hg4).
  rewrite grun_app, Hr4. cbn [grun gstep]. rewrite Hs4. cbn [w_stack w3].
  eexists. split; [reflexivity|]. split; [reflexivity|].
  exists (length (w_gt w)), (length (w_gt w2)). cbn [w_gt]. rewrite Hg4. cbn [w_gt w3]. rewrite Hg2. cbn [w_gt w1].
  repeat split.
  - rewrite !app_length. simpl. lia.
  - unfold parent. rewrite <- !app_assoc. rewrite app_nth2 by lia. rewrite Nat.sub_diag. reflexivity.
  - unfold parent. rewrite app_nth1 by (rewrite !app_length; simpl; lia).
    rewrite app_nth2 by (rewrite !app_length; simpl; lia). rewrite Nat.sub_diag. reflexivity.
Qed.

(* the table stays one that World.group can build *)
Lemma wfG_from_app k a b : wfG_from k (a ++ b) = wfG_from k a && wfG_from (k + length a) b.
Proof.
  revert k. induction a as [|p a IH]; intros k; simpl; [rewrite Nat.add_0_r; reflexivity|].
  rewrite IH, <- andb_assoc. replace (S k + length a) with (k + S (length a)) by lia. reflexivity.
Qed.
Theorem enter_keeps_wf gt cur : wfGb gt = true -> cur < length gt -> wfGb (fst (fst (group_enter gt cur))) = true.
Proof.
  unfold wfGb, group_enter. cbn [fst]. intros H Hc. apply andb_true_iff in H as [Hl Hw].
  rewrite app_length, wfG_from_app, Hw. simpl. rewrite andb_true_r.
  apply andb_true_iff. split.
  - destruct (length gt); simpl; [lia|reflexivity].
  - apply Nat.ltb_lt. exact Hc.
Qed.

(* every well-nested script, run from a world whose table is well-formed, ends in a well-formed table in which the current
   group and the group of every started simulator exist *)
Definition Iw (w : wstate) : Prop :=
  wfGb (w_gt w) = true /\ w_cur w < length (w_gt w) /\ forall g, In g (w_started w) -> g < length (w_gt w).

Theorem nested_keeps_tables_well_formed ops : nested ops -> forall w, Iw w -> exists w',
  grun w ops = Some w' /\ Iw w' /\ w_cur w' = w_cur w /\ w_stack w' = w_stack w /\ exists ext, w_gt w' = w_gt w ++ ext.
Proof.
  induction 1 as [|l Hl IH|b l Hb IHb Hl IHl]; intros w HIw; pose proof HIw as HIw0; unfold Iw in HIw; destruct HIw as (Hwf & Hc & Hst).
  - exists w. split; [reflexivity|]. split; [exact HIw0|]. repeat split; try reflexivity. exists []. rewrite app_nil_r. reflexivity.
  - destruct (IH (mkW (w_gt w) (w_cur w) (w_stack w) (w_cur w :: w_started w))) as (w' & Hr & HI & Hc' & Hs' & ext & Hg).
    { unfold Iw. cbn [w_gt w_cur w_started]. repeat split; try assumption. intros g [<-|Hg]; [exact Hc|apply Hst, Hg]. }
    exists w'. simpl. split; [exact Hr|]. split; [exact HI|]. repeat split; try assumption. exists ext. exact Hg.
  - cbn [grun gstep group_enter].
    set (w1 := mkW (w_gt w ++ [Some (w_cur w)]) (length (w_gt w)) (w_cur w :: w_stack w) (w_started w)).
    assert (I1 : Iw w1).
    { unfold Iw, w1. cbn [w_gt w_cur w_started]. split; [|split].
      - apply (enter_keeps_wf (w_gt w) (w_cur w) Hwf Hc).
      - rewrite app_length. simpl. lia.
      - intros g Hg. rewrite app_length. specialize (Hst g Hg). lia. }
    destruct (IHb w1 I1) as (w2 & Hr2 & HI2 & Hc2 & Hs2 & ext2 & Hg2). unfold Iw in HI2. destruct HI2 as (Hwf2 & Hc2b & Hst2).
    rewrite grun_app, Hr2. cbn [grun gstep]. rewrite Hs2. cbn [w_stack w1]. unfold group_leave.
    assert (I3 : Iw (mkW (w_gt w2) (w_cur w) (w_stack w) (w_started w2))).
    { unfold Iw. cbn [w_gt w_cur w_started]. split; [exact Hwf2|]. split; [|exact Hst2].
      rewrite Hg2. cbn [w_gt w1]. rewrite !app_length. simpl. lia. }
    destruct (IHl _ I3) as (w3 & Hr3 & HI3 & Hc3 & Hs3 & ext3 & Hg3).
    exists w3. split; [exact Hr3|]. split; [exact HI3|]. repeat split; try assumption. exists ([Some (w_cur w)] ++ ext2 ++ ext3).
    rewrite Hg3. cbn [w_gt]. rewrite Hg2. cbn [w_gt w1]. rewrite <- !app_assoc. reflexivity.
Qed.

(* from the world as World.__init__ makes it: one group, the root, which is the current one *)
Corollary scripts_build_well_formed_tables ops : nested ops -> exists w',
  grun (mkW [None] 0 [] []) ops = Some w' /\ wfGb (w_gt w') = true /\ w_cur w' = 0 /\ forall g, In g (w_started w') -> g < length (w_gt w').
Proof.
  intros H. destruct (nested_keeps_tables_well_formed ops H (mkW [None] 0 [] [])) as (w' & Hr & HI & Hc & _ & _).
  - unfold Iw. cbn [w_gt w_cur w_started]. repeat split; [simpl; lia|intros g []].
  - unfold Iw in HI. destruct HI as (Hwf & _ & Hst).
    exists w'. repeat split; assumption.
Qed.
