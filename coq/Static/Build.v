(* Scenario construction: the tables that World.connect / connect_async_requests / set_initial_event /
   cache_triggering_ancestors leave in the SimRunners, computed from the list of connections (executable model).
   One entity per simulator; attributes are numbers.  Dicts are association lists in insertion order. *)
From Coq Require Import ZArith List Bool Arith.
Import ListNotations.
From MV Require Import Time.Spec Static.Groups Static.Connect.

Fixpoint aget {V} (k:nat) (l:list (nat*V)) : option V :=
  match l with [] => None | (k',v)::r => if Nat.eqb k k' then Some v else aget k r end.
Fixpoint aset {V} (k:nat) (v:V) (l:list (nat*V)) : list (nat*V) :=
  match l with [] => [(k,v)] | (k',v')::r => if Nat.eqb k k' then (k,v)::r else (k',v') :: aset k v r end.
Definition aget_l {V} (k:nat) (l:list (nat*list V)) : list V := match aget k l with Some x => x | None => [] end.

Record conn := mkConn { c_src : nat; c_dst : nat; c_sa : nat; c_da : nat; c_flags : cflags; c_async : bool; c_init : Z (* token *) }.

Definition ieqb (a b : interval) : bool := ieq a b.
Record tables := mkTables {
  t_indel : list (nat * list (nat * interval));                 (* dest -> src -> min delay *)
  t_succ  : list (nat * list (nat * interval));                 (* src -> dest -> plain interval *)
  t_succw : list (nat * list (nat * interval));
  t_trig  : list (nat * list (nat * list (nat * interval)));    (* src -> src attr -> [(dest, delay)] *)
  t_push  : list (nat * list (nat * list (nat * interval * nat)));   (* src -> src attr -> [(dest, delay, dest attr)] *)
  t_pull  : list (nat * list ((nat * interval) * list (nat * nat)));  (* dest -> (src, delay) -> {(src attr, dest attr)} *)
  t_outreq: list nat;                                             (* sims with an output request *)
  t_pers  : list (nat * list (nat * list (nat * option Z)));      (* dest -> dest attr -> src -> value (None = Python None) *)
  t_cinit : list (nat * list (Z * list (nat * Z))) }.             (* src -> time -> attr -> initial value *)
Definition empty_tables := mkTables [] [] [] [] [] [] [] [] [].

Inductive bres (A:Type) := BOk (a:A) | BScenarioError (which : nat) | BCrash (which : nat).
Arguments BOk {A}. Arguments BScenarioError {A}. Arguments BCrash {A}.

Definition set2 {V} (i j : nat) (v : V) (t : list (nat * list (nat * V))) : list (nat * list (nat * V)) :=
  aset i (aset j v (aget_l i t)) t.
Fixpoint zaget {V} (k:Z) (l:list (Z*V)) : option V :=
  match l with [] => None | (k',v)::r => if Z.eqb k k' then Some v else zaget k r end.
Fixpoint zaset {V} (k:Z) (v:V) (l:list (Z*V)) : list (Z*V) :=
  match l with [] => [(k,v)] | (k',v')::r => if Z.eqb k k' then (k,v)::r else (k',v') :: zaset k v r end.
Fixpoint pull_add (key : nat * interval) (f : nat * nat) (l : list ((nat * interval) * list (nat * nat))) :=
  match l with
  | [] => [(key, [f])]
  | (k, fs) :: r => if Nat.eqb (fst k) (fst key) && ieqb (snd k) (snd key)
                    then (k, if existsb (fun g => Nat.eqb (fst g) (fst f) && Nat.eqb (snd g) (snd f)) fs then fs else fs ++ [f]) :: r
                    else (k, fs) :: pull_add key f r
  end.

(* min(existing, new) as Python computes it: new only if new < existing; None = the comparison asserted *)
Definition py_min (existing new : interval) : option interval :=
  match ilt new existing with Some true => Some new | Some false => Some existing | None => None end.

Definition apply_effect (c : conn) (t : tables) (e : effect) : option tables :=
  let s := c_src c in let d := c_dst c in
  match e with
  | EInputDelay dl =>
      match aget s (aget_l d (t_indel t)) with
      | None => Some (mkTables (set2 d s dl (t_indel t)) (t_succ t) (t_succw t) (t_trig t) (t_push t) (t_pull t) (t_outreq t) (t_pers t) (t_cinit t))
      | Some ex => match py_min ex dl with
                   | None => None
                   | Some m => Some (mkTables (set2 d s m (t_indel t)) (t_succ t) (t_succw t) (t_trig t) (t_push t) (t_pull t) (t_outreq t) (t_pers t) (t_cinit t))
                   end
      end
  | EPersistSetdefault =>
      let cur := aget_l (c_da c) (aget_l d (t_pers t)) in
      let cur' := match aget s cur with Some _ => cur | None => aset s None cur end in
      Some (mkTables (t_indel t) (t_succ t) (t_succw t) (t_trig t) (t_push t) (t_pull t) (t_outreq t) (set2 d (c_da c) cur' (t_pers t)) (t_cinit t))
  | EOutputRequest =>
      Some (mkTables (t_indel t) (t_succ t) (t_succw t) (t_trig t) (t_push t) (t_pull t)
              (if existsb (Nat.eqb s) (t_outreq t) then t_outreq t else t_outreq t ++ [s]) (t_pers t) (t_cinit t))
  | EPulled dl =>
      Some (mkTables (t_indel t) (t_succ t) (t_succw t) (t_trig t) (t_push t)
              (aset d (pull_add (s, dl) (c_sa c, c_da c) (aget_l d (t_pull t))) (t_pull t)) (t_outreq t) (t_pers t) (t_cinit t))
  | EPushed dl =>
      Some (mkTables (t_indel t) (t_succ t) (t_succw t) (t_trig t)
              (set2 s (c_sa c) (aget_l (c_sa c) (aget_l s (t_push t)) ++ [(d, dl, c_da c)]) (t_push t)) (t_pull t) (t_outreq t) (t_pers t) (t_cinit t))
  | ESuccessor pl =>
      Some (mkTables (t_indel t) (set2 s d pl (t_succ t)) (t_succw t) (t_trig t) (t_push t) (t_pull t) (t_outreq t) (t_pers t) (t_cinit t))
  | ETrigger dl =>
      Some (mkTables (t_indel t) (t_succ t) (t_succw t)
              (set2 s (c_sa c) (aget_l (c_sa c) (aget_l s (t_trig t)) ++ [(d, dl)]) (t_trig t)) (t_push t) (t_pull t) (t_outreq t) (t_pers t) (t_cinit t))
  | EInitCache tm =>
      let outs := aget_l s (t_cinit t) in
      let row := match zaget tm outs with Some r => r | None => [] end in
      Some (mkTables (t_indel t) (t_succ t) (t_succw t) (t_trig t) (t_push t) (t_pull t) (t_outreq t) (t_pers t)
              (aset s (zaset tm (aset (c_sa c) (c_init c) row) outs) (t_cinit t)))
  | EInitPersist =>
      let cur := aget_l (c_da c) (aget_l d (t_pers t)) in
      Some (mkTables (t_indel t) (t_succ t) (t_succw t) (t_trig t) (t_push t) (t_pull t) (t_outreq t)
              (set2 d (c_da c) (aset s (Some (c_init c)) cur) (t_pers t)) (t_cinit t))
  end.

(* World.connect for one attribute pair (+ connect_async_requests when requested) *)
Definition connect (gt : gtab) (group_of : nat -> nat) (k : nat) (t : tables) (c : conn) : bres tables :=
  match connect_one gt (group_of (c_src c)) (group_of (c_dst c)) (c_flags c) with
  | Rejected _ | RejectedWeakRoot => BScenarioError k
  | Crashed _ => BCrash k
  | Accepted es =>
      match fold_left (fun (acc : option tables) e => match acc with Some t => apply_effect c t e | None => None end) es (Some t) with
      | None => BCrash k
      | Some t1 =>
          if c_async c then
            match connect_interval gt (group_of (c_src c)) (group_of (c_dst c)) 0 0 with
            | COk pl => BOk (mkTables (set2 (c_dst c) (c_src c) pl (t_indel t1)) (set2 (c_src c) (c_dst c) pl (t_succ t1))
                                     (set2 (c_src c) (c_dst c) pl (t_succw t1)) (t_trig t1) (t_push t1) (t_pull t1) (t_outreq t1) (t_pers t1) (t_cinit t1))
            | CErr _ => BCrash k
            end
          else BOk t1
      end
  end.
Fixpoint build_from (gt : gtab) (group_of : nat -> nat) (k : nat) (t : tables) (cs : list conn) : bres tables :=
  match cs with
  | [] => BOk t
  | c :: r => match connect gt group_of k t c with BOk t' => build_from gt group_of (S k) t' r | e => e end
  end.
Definition build (gt : gtab) (group_of : nat -> nat) (cs : list conn) : bres tables := build_from gt group_of 0 empty_tables cs.

(* ------------------------------------------------------------------------------------------------------ *)
(* cache_triggering_ancestors: min-plus closure over the triggering edges (deterministic worklist, explicit fuel) *)
Definition anc_tab := list (nat * list (nat * interval)).    (* dest -> ancestor -> distance *)
Definition trig_edges (t : tables) : list (nat * nat * interval) :=      (* (src, dest, delay) in dict order *)
  flat_map (fun (sp : nat * list (nat * list (nat * interval))) =>
     flat_map (fun (pl : nat * list (nat * interval)) => map (fun (dd : nat * interval) => (fst sp, fst dd, snd dd)) (snd pl)) (snd sp)) (t_trig t).
(* update_min: Some (Some x) = store x, Some None = keep, None = assertion *)
Definition relax (tab : anc_tab) (dest src : nat) (d : interval) : option (option anc_tab) :=
  match upd_min (aget src (aget_l dest tab)) d with
  | None => None
  | Some None => Some None
  | Some (Some x) => Some (Some (set2 dest src x tab))
  end.
Definition anc_init (edges : list (nat * nat * interval)) : option (anc_tab * list nat) :=
  fold_left (fun (acc : option (anc_tab * list nat)) (e : nat * nat * interval) =>
     let '(s, d, dl) := e in
     match acc with None => None | Some (tab, dirty) =>
       match relax tab d s dl with
       | None => None
       | Some None => Some (tab, if existsb (Nat.eqb d) dirty then dirty else dirty ++ [d])
       | Some (Some tab') => Some (tab', if existsb (Nat.eqb d) dirty then dirty else dirty ++ [d])
       end end) edges (Some ([], [])).
Definition anc_step (edges : list (nat * nat * interval)) (tab : anc_tab) (mid : nat) (dirty : list nat) : option (anc_tab * list nat) :=
  fold_left (fun (acc : option (anc_tab * list nat)) (e : nat * nat * interval) =>
     let '(s, d, mid_to_dest) := e in
     if negb (Nat.eqb s mid) then acc else
     match acc with None => None | Some (tab0, dirty0) =>
       (* the ancestors of mid are read once, before the inner loop (the dict is not modified for mid != dest;
          for mid = dest Python would raise "dictionary changed size" only if a key were added) *)
       fold_left (fun (acc2 : option (anc_tab * list nat)) (sd : nat * interval) =>
          match acc2 with None => None | Some (tab1, dirty1) =>
            let src_to_dest := comp (snd sd) mid_to_dest in
            match relax tab1 d (fst sd) src_to_dest with
            | None => None
            | Some None => Some (tab1, dirty1)
            | Some (Some tab2) => Some (tab2, if existsb (Nat.eqb d) dirty1 then dirty1 else dirty1 ++ [d])
            end end) (aget_l mid tab0) (Some (tab0, dirty0))
     end) edges (Some (tab, dirty)).
Fixpoint anc_loop (fuel : nat) (edges : list (nat * nat * interval)) (tab : anc_tab) (dirty : list nat) : option (option anc_tab) :=
  match dirty with
  | [] => Some (Some tab)
  | mid :: rest =>
      match fuel with
      | O => Some None                     (* out of fuel *)
      | S f => match anc_step edges tab mid rest with
               | None => None              (* incomparable delays: AssertionError *)
               | Some (tab', dirty') => anc_loop f edges tab' dirty'
               end
      end
  end.
Definition ancestors (fuel : nat) (t : tables) : option (option anc_tab) :=
  match anc_init (trig_edges t) with
  | None => None
  | Some (tab, dirty) => anc_loop fuel (trig_edges t) tab dirty
  end.
