(* Tie between the generated pieces of World.cache_triggering_ancestors (Gen/AncFns.v, regenerated from mosaik/scenario.py on
   every run) and the model Static/Build.v (anc_init, anc_step, anc_loop, ancestors) that the C07 theorems rest on.  The model
   works on the flat list of triggering edges, the source on the nested dicts sim.triggers: the two agree when the trigger
   table lists the simulators in their order, one row each. *)
From Coq Require Import ZArith List Bool Arith.
Import ListNotations.
From MV Require Import Time.Spec Static.Build Static.Cycle Gen.AncFns Static.GenAnc.

Definition trig_tab := list (nat * list (nat * list (nat * interval))).
Definition edges_of (trig : trig_tab) : list (nat * nat * interval) :=
  flat_map (fun (sp : nat * list (nat * list (nat * interval))) =>
     flat_map (fun (pl : nat * list (nat * interval)) => map (fun (dd : nat * interval) => (fst sp, fst dd, snd dd)) (snd pl)) (snd sp)) trig.

Lemma fold_flat_map {A B C} (f : A -> C -> A) (g : B -> list C) l : forall a,
  fold_left f (flat_map g l) a = fold_left (fun a x => fold_left f (g x) a) l a.
Proof. induction l as [|x l IH]; intros a; simpl; [reflexivity|]. rewrite fold_left_app. apply IH. Qed.
Lemma fold_map {A B C} (f : A -> C -> A) (h : B -> C) l : forall a, fold_left f (map h l) a = fold_left (fun a x => f a (h x)) l a.
Proof. induction l as [|x l IH]; intros a; simpl; [reflexivity|]. apply IH. Qed.
Lemma fold_ext2 {A B} (f g : A -> B -> A) l : (forall a b, f a b = g a b) -> forall a, fold_left f l a = fold_left g l a.
Proof. intros H. induction l as [|b l IH]; intros a; simpl; [reflexivity|]. rewrite H. apply IH. Qed.

(* a fold over the edges of a table that lists the simulators in order = the nested loops of the source *)
Lemma fold_edges {A} (f : A -> nat * nat * interval -> A) (triggers : nat -> list (nat * list (nat * interval))) sims a :
  fold_left f (edges_of (map (fun s => (s, triggers s)) sims)) a =
  fold_left (fun a s => fold_left (fun a (pt : nat * list (nat * interval)) =>
                          fold_left (fun a (dd : nat * interval) => f a (s, fst dd, snd dd)) (snd pt) a) (triggers s) a) sims a.
Proof.
  unfold edges_of. rewrite fold_flat_map, fold_map. apply fold_ext2. intros a0 s. cbn [fst snd].
  rewrite fold_flat_map. apply fold_ext2. intros a1 pt. rewrite fold_map. reflexivity.
Qed.

Theorem tie_anc_init sims triggers :
  anc_init_gen sims triggers = anc_init (edges_of (map (fun s => (s, triggers s)) sims)).
Proof.
  unfold anc_init_gen, anc_init. rewrite fold_edges. apply fold_ext2. intros a s. apply fold_ext2. intros a1 pt. apply fold_ext2.
  intros [[tab dirty]|] [d dl]; [|reflexivity]. cbn [fst snd]. unfold relax, add_dirty.
  destruct (upd_min (aget s (aget_l d tab)) dl) as [[x|]|]; reflexivity.
Qed.

Lemma fold_once {A} (f : A -> nat -> A) m : forall l a, NoDup l -> (forall x a, x <> m -> f a x = a) ->
  fold_left f l a = if existsb (Nat.eqb m) l then f a m else a.
Proof.
  induction l as [|x l IH]; intros a Hn Hid; [reflexivity|]. inversion Hn as [|? ? Hx Hl]; subst. cbn [fold_left existsb].
  destruct (Nat.eqb_spec m x) as [->|Hne]; cbn [orb].
  - rewrite IH by assumption. destruct (existsb (Nat.eqb x) l) eqn:E; [|reflexivity].
    apply existsb_exists in E as (y & Hy & Ey). apply Nat.eqb_eq in Ey. subst y. contradiction.
  - rewrite (Hid x a) by (intros ->; apply Hne; reflexivity). apply IH; assumption.
Qed.

Lemma aget_map_notin {V} (g : nat -> V) m : forall sims, existsb (Nat.eqb m) sims = false -> aget m (map (fun s => (s, g s)) sims) = None.
Proof.
  induction sims as [|x sims IH]; intros H; [reflexivity|]. cbn [existsb] in H. apply orb_false_iff in H as [H1 H2].
  cbn [map aget]. rewrite H1. apply IH, H2.
Qed.

Lemma fold_id {A B} (f : A -> B -> A) l : (forall a b, f a b = a) -> forall a, fold_left f l a = a.
Proof. intros H. induction l as [|b l IH]; intros a; simpl; [reflexivity|]. rewrite H. apply IH. Qed.

Lemma step_aux g sims tab mid dirty : NoDup sims ->
  anc_step (edges_of (map (fun s => (s, g s)) sims)) tab mid dirty =
  if existsb (Nat.eqb mid) sims then anc_step_gen g tab mid dirty else Some (tab, dirty).
Proof.
  intros Hn. unfold anc_step. rewrite fold_edges. rewrite (fold_once _ mid _ _ Hn).
  - destruct (existsb (Nat.eqb mid) sims); [|reflexivity].
    unfold anc_step_gen. apply fold_ext2. intros a pt. apply fold_ext2. intros [[tab0 dirty0]|] [d m2d]; cbn [fst snd]; rewrite Nat.eqb_refl; cbn [negb]; [|reflexivity].
    apply fold_ext2. intros [[tab1 dirty1]|] [src s2m]; [|reflexivity]. cbn [fst snd]. unfold relax, add_dirty.
    destruct (upd_min (aget src (aget_l d tab1)) (comp s2m m2d)) as [[x|]|]; reflexivity.
  - intros x a Hx. apply Nat.eqb_neq in Hx. apply fold_id. intros a1 pt. apply fold_id. intros a2 dd. rewrite Hx. reflexivity.
Qed.

Theorem tie_anc_step sims trig tab mid dirty : NoDup sims -> trig = map (fun s => (s, aget_l s trig)) sims ->
  anc_step_gen (fun s => aget_l s trig) tab mid dirty = anc_step (edges_of trig) tab mid dirty.
Proof.
  intros Hn Ht. pose proof (step_aux (fun s => aget_l s trig) sims tab mid dirty Hn) as H. cbv beta in H. rewrite <- Ht in H.
  rewrite H. destruct (existsb (Nat.eqb mid) sims) eqn:E; [reflexivity|].
  unfold anc_step_gen. assert (Hnil : aget_l mid trig = []).
  { unfold aget_l. rewrite Ht. rewrite aget_map_notin by exact E. reflexivity. }
  rewrite Hnil. reflexivity.
Qed.

Theorem tie_anc_loop sims trig : NoDup sims -> trig = map (fun s => (s, aget_l s trig)) sims -> forall fuel tab dirty,
  anc_loop_gen (fun s => aget_l s trig) fuel tab dirty = anc_loop fuel (edges_of trig) tab dirty.
Proof.
  intros Hn Ht. induction fuel as [|f IH]; intros tab dirty; destruct dirty as [|mid rest]; try reflexivity.
  cbn [anc_loop_gen anc_loop]. rewrite (tie_anc_step sims trig tab mid rest Hn Ht).
  destruct (anc_step (edges_of trig) tab mid rest) as [[t' d']|]; [apply IH|reflexivity].
Qed.

(* the whole closure, for the tables World.connect builds: trig_edges t is edges_of (t_trig t) *)
Theorem tie_ancestors fuel sims (t : tables) : NoDup sims -> t_trig t = map (fun s => (s, aget_l s (t_trig t))) sims ->
  ancestors_gen fuel sims (fun s => aget_l s (t_trig t)) = ancestors fuel t.
Proof.
  intros Hn Ht. unfold ancestors_gen, ancestors. change (trig_edges t) with (edges_of (t_trig t)).
  pose proof (tie_anc_init sims (fun s => aget_l s (t_trig t))) as Hi. cbv beta in Hi. rewrite <- Ht in Hi. rewrite Hi.
  destruct (anc_init (edges_of (t_trig t))) as [[tab dirty]|]; [|reflexivity]. apply (tie_anc_loop sims); assumption.
Qed.
