(* World.ensure_no_dataflow_cycles: min-plus closure over the input delays with the path that exhibits each
   distance (executable model; deterministic worklist, explicit fuel).  Proofs in CycleP.v. *)
From Coq Require Import ZArith List Bool Arith.
Import ListNotations.
From MV Require Import Time.Spec Static.Groups Static.Connect Static.Build.

Definition indel_tab := list (nat * list (nat * interval)).                 (* dest -> src -> delay  (SimRunner.input_delays) *)
Definition dtab := list (nat * list (nat * (interval * list nat))).         (* src -> dest -> (delay, path)  (sim_descs) *)

Definition d_get (t : dtab) (s d : nat) : option (interval * list nat) := aget d (aget_l s t).
Definition d_set (t : dtab) (s d : nat) (v : interval * list nat) : dtab := aset s (aset d v (aget_l s t)) t.

(* "At the start, enter each sim as a descendant of all its (direct) predecessors" *)
Definition cyc_init (ind : indel_tab) : dtab :=
  fold_left (fun t (e : nat * list (nat * interval)) => let (sim, preds) := e in
     fold_left (fun t (p : nat * interval) => d_set t (fst p) sim (snd p, [fst p; sim])) preds t) ind [].

Definition add_dirty (x : nat) (l : list nat) : list nat := if existsb (Nat.eqb x) l then l else l ++ [x].

(* one iteration of the while-loop for mid; None = update_min asserted (incomparable delays) *)
Definition cyc_step (ind : indel_tab) (t : dtab) (mid : nat) (dirty : list nat) : option (dtab * list nat) :=
  fold_left (fun (acc : option (dtab * list nat)) (sp : nat * interval) =>
     let (src, src_to_mid) := sp in
     match acc with None => None | Some (t0, dirty0) =>
       fold_left (fun (acc2 : option (dtab * list nat)) (de : nat * (interval * list nat)) =>
          let '(dest, (mid_to_dest, path)) := de in
          match acc2 with None => None | Some (t1, dirty1) =>
            let src_to_dest := comp src_to_mid mid_to_dest in
            match upd_min (option_map fst (d_get t1 src dest)) src_to_dest with
            | None => None
            | Some None => Some (t1, dirty1)
            | Some (Some x) => Some (d_set t1 src dest (x, src :: path), add_dirty src dirty1)
            end end) (aget_l mid t0) (Some (t0, dirty0))
     end) (aget_l mid ind) (Some (t, dirty)).

Fixpoint cyc_loop (fuel : nat) (ind : indel_tab) (t : dtab) (dirty : list nat) : option (option dtab) :=
  match dirty with
  | [] => Some (Some t)
  | mid :: rest =>
      match fuel with
      | O => Some None
      | S f => match cyc_step ind t mid rest with
               | None => None
               | Some (t', dirty') => cyc_loop f ind t' dirty'
               end
      end
  end.

Inductive cyc_verdict := CycAccepted | CycRejected (path : list nat) | CycIncomparable | CycFuel.
(* "raise an error if any sim has itself as a descendant with a delay of 0" *)
Definition zero_self (t : dtab) (sims : list nat) : option (list nat) :=
  fold_left (fun (acc : option (list nat)) s =>
     match acc with Some p => Some p | None =>
       match d_get t s s with
       | Some (d, path) => if izero d then Some path else None
       | None => None end end) sims None.
Definition cycle_check (fuel : nat) (ind : indel_tab) (sims : list nat) : cyc_verdict :=
  match cyc_loop fuel ind (cyc_init ind) sims with
  | None => CycIncomparable
  | Some None => CycFuel
  | Some (Some t) => match zero_self t sims with Some p => CycRejected p | None => CycAccepted end
  end.

(* ---- specification side: walks of the input-delay graph and their composed delay ---- *)
Definition edge (ind : indel_tab) (a b : nat) : option interval := aget a (aget_l b ind).     (* a feeds b *)
Fixpoint walk_delay (ind : indel_tab) (p : list nat) : option interval :=
  match p with
  | a :: ((b :: _) as r) =>
      match edge ind a b with
      | None => None
      | Some d => match r with
                  | [_] => Some d
                  | _ => match walk_delay ind r with Some d' => Some (comp d d') | None => None end
                  end
      end
  | _ => None
  end.
