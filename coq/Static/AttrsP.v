(* C12: every set operation computes the pointwise boolean operation on membership; == is extensional equality;
   parse_set_triple returns a partition of the union that agrees with what was given; parse_attrs returns partitions
   that agree with the explicit lists and respect the type. *)
From Coq Require Import List Bool Arith Lia.
Import ListNotations.
From MV Require Import Static.Attrs.

Lemma lmem_in x l : lmem x l = true <-> In x l.
Proof. unfold lmem. rewrite existsb_exists. split; [intros (y & H & E); apply Nat.eqb_eq in E; subst; auto|intros H; exists x; split; auto; apply Nat.eqb_refl]. Qed.
Lemma lmem_diff x a b : lmem x (ldiff a b) = lmem x a && negb (lmem x b).
Proof.
  apply eq_true_iff_eq. rewrite andb_true_iff, !lmem_in. unfold ldiff. rewrite filter_In. tauto.
Qed.
Lemma lmem_inter x a b : lmem x (linter a b) = lmem x a && lmem x b.
Proof. apply eq_true_iff_eq. rewrite andb_true_iff, !lmem_in. unfold linter. rewrite filter_In, lmem_in. tauto. Qed.
Lemma lmem_union x a b : lmem x (lunion a b) = lmem x a || lmem x b.
Proof. apply eq_true_iff_eq. rewrite orb_true_iff, !lmem_in. unfold lunion. rewrite in_app_iff. tauto. Qed.

(* (i) the operators *)
Theorem mem_isub x a b : mem x (isub a b) = mem x a && negb (mem x b).
Proof. destruct a, b; simpl; rewrite ?lmem_diff, ?lmem_inter, ?lmem_union; destruct (lmem x l), (lmem x l0); reflexivity. Qed.
Theorem mem_iand x a b : mem x (iand a b) = mem x a && mem x b.
Proof. destruct a, b; simpl; rewrite ?lmem_diff, ?lmem_inter, ?lmem_union; destruct (lmem x l), (lmem x l0); reflexivity. Qed.
Theorem mem_ior x a b : mem x (ior a b) = mem x a || mem x b.
Proof. destruct a, b; simpl; rewrite ?lmem_diff, ?lmem_inter, ?lmem_union; destruct (lmem x l), (lmem x l0); reflexivity. Qed.

Lemma lincl_spec a b : lincl a b = true <-> forall x, lmem x a = true -> lmem x b = true.
Proof.
  unfold lincl. rewrite forallb_forall. split.
  - intros H x Hx. apply H. apply lmem_in. exact Hx.
  - intros H x Hx. apply H. apply lmem_in. exact Hx.
Qed.
Lemma leq_spec a b : leq a b = true <-> forall x, lmem x a = lmem x b.
Proof.
  unfold leq. rewrite andb_true_iff, !lincl_spec. split.
  - intros [H1 H2] x. apply eq_true_iff_eq. split; auto.
  - intros H. split; intros x Hx; [rewrite <- H|rewrite H]; exact Hx.
Qed.
(* a finite list misses some number *)
Lemma fresh (l : list nat) : exists x, lmem x l = false.
Proof.
  exists (S (fold_right Nat.max 0 l)). destruct (lmem _ l) eqn:E; [|reflexivity]. exfalso.
  apply lmem_in in E. assert (forall y, In y l -> y <= fold_right Nat.max 0 l).
  { clear. induction l; simpl; intros y []; subst; [lia|]. specialize (IHl y H). lia. }
  specialize (H _ E). lia.
Qed.
(* == is extensional equality (also across the two representations: a finite set never equals a co-finite one) *)
Theorem seqb_spec a b : seqb a b = true <-> forall x, mem x a = mem x b.
Proof.
  destruct a as [x|x], b as [y|y]; simpl.
  - apply leq_spec.
  - split; [discriminate|]. intros H. destruct (fresh (x ++ y)) as (z & Hz).
    specialize (H z). unfold lmem in *. rewrite existsb_app in Hz. apply orb_false_iff in Hz as [A B]. rewrite A, B in H. discriminate.
  - split; [discriminate|]. intros H. destruct (fresh (x ++ y)) as (z & Hz).
    specialize (H z). unfold lmem in *. rewrite existsb_app in Hz. apply orb_false_iff in Hz as [A B]. rewrite A, B in H. discriminate.
  - rewrite leq_spec. split; intros H z; specialize (H z); destruct (lmem z x), (lmem z y); simpl in *; congruence.
Qed.

(* (ii) parse_set_triple: the result is a partition of the union and agrees with every given argument *)
Theorem parse_set_triple_sound u a b A B : parse_set_triple u a b = POk (A, B) ->
  (forall x, mem x A && mem x B = false) /\
  (exists U, (forall x, mem x U = mem x A || mem x B) /\ (forall u0, u = Some u0 -> U = u0)) /\
  (forall a0, a = Some a0 -> A = a0) /\ (forall b0, b = Some b0 -> B = b0).
Proof.
  unfold parse_set_triple.
  destruct (match u with Some u0 => Some u0 | None => match a, b with Some a0, Some b0 => Some (ior a0 b0) | _, _ => None end end) as [u0|] eqn:EU; [|discriminate].
  destruct (match a with Some a0 => Some a0 | None => match b with Some b0 => Some (isub u0 b0) | None => None end end) as [a0|] eqn:EA; [|discriminate].
  set (b0 := match b with Some b1 => b1 | None => isub u0 a0 end).
  destruct (seqb (iand a0 b0) (Fin [])) eqn:E1; simpl; [|discriminate].
  destruct (seqb u0 (ior a0 b0)) eqn:E2; simpl; [|discriminate].
  intros H. injection H as <- <-.
  pose proof (proj1 (seqb_spec _ _) E1) as E1'. pose proof (proj1 (seqb_spec _ _) E2) as E2'. clear E1 E2. rename E1' into E1. rename E2' into E2. split.
  - intros x. specialize (E1 x). rewrite mem_iand in E1. simpl in E1. exact E1.
  - split.
    + exists u0. split; [intros x; rewrite E2, mem_ior; reflexivity|]. intros u1 ->. injection EU as ->. reflexivity.
    + split; [intros a1 ->; injection EA as ->; reflexivity|]. intros b1 ->. reflexivity.
Qed.
(* it fails with "at least two must be given" exactly when fewer than two are given *)
Theorem parse_set_triple_missing u a b : parse_set_triple u a b = PMissing <->
  (u = None /\ (a = None \/ b = None)) \/ (a = None /\ b = None).
Proof.
  unfold parse_set_triple. destruct u as [u0|], a as [a0|], b as [b0|]; simpl;
    repeat match goal with |- context [if ?c then _ else _] => destruct c; simpl end;
    split; intros H; try discriminate; auto;
    repeat match goal with
           | H : _ \/ _ |- _ => destruct H
           | H : _ /\ _ |- _ => destruct H
           end; try discriminate; auto.
Qed.

(* (iii) parse_attrs: accepted descriptions yield partitions that agree with the explicit lists and the type *)
Theorem parse_attrs_sound d ty mi ei mo eo : parse_attrs d ty = POk (mi, ei, mo, eo) ->
  (forall x, mem x mi && mem x ei = false) /\ (forall x, mem x mo && mem x eo = false) /\
  (forall x, mem x mi || mem x ei = if d_any_inputs d then true else match d_attrs d with Some l => lmem x l | None => mem x mi || mem x ei end) /\
  (forall l, d_attrs d = Some l -> forall x, mem x mo || mem x eo = lmem x l) /\
  (forall l, d_nontrigger d = Some l -> mi = Fin l) /\ (forall l, d_trigger d = Some l -> ei = Fin l) /\
  (forall l, d_persistent d = Some l -> mo = Fin l) /\ (forall l, d_nonpersistent d = Some l -> eo = Fin l) /\
  (ty = ATimeBased -> (forall x, mem x ei = false) /\ (forall x, mem x eo = false)) /\
  (ty = AEventBased -> (forall x, mem x mi = false) /\ (forall x, mem x mo = false)).
Proof.
  unfold parse_attrs.
  set (inputs := if d_any_inputs d then Some (Cof []) else wrap (d_attrs d)).
  destruct (parse_set_triple inputs _ _) as [[mi' ei']| | | |] eqn:P1; try discriminate.
  match goal with |- (if ?c then _ else _) = _ -> _ => destruct c eqn:T1; [discriminate|] end.
  destruct (parse_set_triple (wrap (d_attrs d)) _ _) as [[mo' eo']| | | |] eqn:P2; try discriminate.
  match goal with |- (if ?c then _ else _) = _ -> _ => destruct c eqn:T2; [discriminate|] end.
  intros H. injection H as <- <- <- <-.
  destruct (parse_set_triple_sound _ _ _ _ _ P1) as (D1 & (U1 & HU1 & HU1') & A1 & B1).
  destruct (parse_set_triple_sound _ _ _ _ _ P2) as (D2 & (U2 & HU2 & HU2') & A2 & B2).
  split; [exact D1|]. split; [exact D2|]. split.
  { intros x. unfold inputs in HU1'. destruct (d_any_inputs d).
    - rewrite <- HU1. rewrite (HU1' (Cof []) eq_refl). reflexivity.
    - destruct (d_attrs d) as [l|]; [|reflexivity]. rewrite <- HU1. rewrite (HU1' (Fin l) eq_refl). reflexivity. }
  split.
  { intros l El x. rewrite El in HU2'. rewrite <- HU2. rewrite (HU2' (Fin l) eq_refl). reflexivity. }
  split; [intros l El; rewrite El in A1; apply (A1 (Fin l)); reflexivity|].
  split; [intros l El; rewrite El in B1; apply (B1 (Fin l)); reflexivity|].
  split; [intros l El; rewrite El in A2; apply (A2 (Fin l)); reflexivity|].
  split; [intros l El; rewrite El in B2; apply (B2 (Fin l)); reflexivity|].
  split.
  - intros ->. apply negb_false_iff in T1, T2. pose proof (proj1 (seqb_spec _ _) T1) as T1'. pose proof (proj1 (seqb_spec _ _) T2) as T2'. split; intros x; [rewrite T1'|rewrite T2']; reflexivity.
  - intros ->. apply negb_false_iff in T1, T2. pose proof (proj1 (seqb_spec _ _) T1) as T1'. pose proof (proj1 (seqb_spec _ _) T2) as T2'. split; intros x; [rewrite T1'|rewrite T2']; reflexivity.
Qed.
