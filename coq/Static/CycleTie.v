(* Tie between the generated pieces of World.ensure_no_dataflow_cycles (Gen/CycleFns.v, regenerated from mosaik/scenario.py
   on every run) and the model Static/Cycle.v that the C06 theorems are about.  The source starts from a table with an empty
   entry for every simulator, the model from the empty table: the two are related by "every simulator has the same row". *)
From Coq Require Import ZArith List Bool Arith.
Import ListNotations.
From MV Require Import Time.Spec Static.Build Static.Cycle Static.CycleP Static.CycleC Gen.CycleFns Static.GenCycle.

Definition teqv (t t' : dtab) : Prop := forall s, aget_l s t = aget_l s t'.

Lemma d_get_eqv t t' s d : teqv t t' -> d_get t s d = d_get t' s d.
Proof. intros H. unfold d_get. rewrite H. reflexivity. Qed.

Lemma d_set_eqv t t' s d v : teqv t t' -> teqv (d_set t s d v) (d_set t' s d v).
Proof. intros H x. unfold d_set. rewrite !aget_l_aset, H. destruct (Nat.eqb x s); [reflexivity|apply H]. Qed.

Definition oeqv (a b : option (dtab * list nat)) : Prop :=
  match a, b with
  | None, None => True
  | Some (t, d), Some (t', d') => teqv t t' /\ d = d'
  | _, _ => False
  end.

Lemma fold_oeqv {B} (f g : option (dtab * list nat) -> B -> option (dtab * list nat)) :
  (forall a a' b, oeqv a a' -> oeqv (f a b) (g a' b)) -> forall l a a', oeqv a a' -> oeqv (fold_left f l a) (fold_left g l a').
Proof. intros H l. induction l as [|b l IH]; intros a a' Ha; simpl; [exact Ha|]. apply IH, H, Ha. Qed.

(* one iteration of the while loop: the generated step is the model's cyc_step, on related tables *)
Lemma step_eqv ind t t' mid dirty : teqv t t' ->
  oeqv (cyc_step_gen (fun s => aget_l s ind) t mid dirty) (cyc_step ind t' mid dirty).
Proof.
  intros H. unfold cyc_step_gen, cyc_step. apply fold_oeqv; [|split; [exact H|reflexivity]].
  intros a a' [src s2m] Ha. destruct a as [[t0 d0]|], a' as [[t0' d0']|]; try (exact Ha || contradiction).
  destruct Ha as [Ht ->]. rewrite (Ht mid).
  apply fold_oeqv; [|split; [exact Ht|reflexivity]].
  intros b b' [dest [m2d path]] Hb. destruct b as [[t1 d1]|], b' as [[t1' d1']|]; try (exact Hb || contradiction).
  destruct Hb as [Ht1 ->]. cbv zeta. rewrite (d_get_eqv _ _ src dest Ht1).
  destruct (upd_min (option_map fst (d_get t1' src dest)) (comp s2m m2d)) as [[x|]|]; simpl.
  - split; [apply d_set_eqv; exact Ht1|reflexivity].
  - split; [exact Ht1|reflexivity].
  - exact I.
Qed.

Lemma loop_eqv ind : forall fuel t t' dirty, teqv t t' ->
  match cyc_loop_gen (fun s => aget_l s ind) fuel t dirty, cyc_loop fuel ind t' dirty with
  | None, None => True
  | Some None, Some None => True
  | Some (Some a), Some (Some b) => teqv a b
  | _, _ => False
  end.
Proof.
  induction fuel as [|f IH]; intros t t' dirty H; destruct dirty as [|mid rest]; simpl; try exact H; try exact I.
  pose proof (step_eqv ind t t' mid rest H) as Hs.
  destruct (cyc_step_gen (fun s => aget_l s ind) t mid rest) as [[a da]|], (cyc_step ind t' mid rest) as [[b db]|]; simpl in Hs; try contradiction; [|exact I].
  destruct Hs as [Ht ->]. apply IH. exact Ht.
Qed.

Lemma fold_ext {A B} (f g : A -> B -> A) l : (forall a b, f a b = g a b) -> forall a, fold_left f l a = fold_left g l a.
Proof. intros H. induction l as [|b l IH]; intros a; simpl; [reflexivity|]. rewrite H. apply IH. Qed.

Lemma zero_self_eqv sims t t' : teqv t t' -> zero_self_gen sims t = zero_self t' sims.
Proof.
  intros H. unfold zero_self_gen, zero_self. apply fold_ext. intros acc s. rewrite (d_get_eqv _ _ s s H). reflexivity.
Qed.

(* the initial table: an entry for every simulator (the source) against the empty table (the model), when the input-delay
   table lists the simulators in their order, one row each *)
Lemma init_inner_eqv sim preds : forall t t', teqv t t' ->
  teqv (fold_left (fun sd (pd : nat * interval) => let '(pred, delay) := pd in d_set sd pred sim (delay, [pred; sim])) preds t)
       (fold_left (fun t (p : nat * interval) => d_set t (fst p) sim (snd p, [fst p; sim])) preds t').
Proof.
  induction preds as [|[p d] preds IH]; intros t t' H; simpl; [exact H|]. apply IH, d_set_eqv, H.
Qed.

Lemma empty_rows_eqv sims : teqv (map (fun sim : nat => (sim, @nil (nat * (interval * list nat)))) sims) [].
Proof.
  intros s. unfold aget_l. induction sims as [|x sims IH]; simpl; [reflexivity|].
  destruct (Nat.eqb s x); [reflexivity|exact IH].
Qed.

Lemma init_outer_eqv (f : nat -> list (nat * interval)) : forall sims t t', teqv t t' ->
  teqv (fold_left (fun sd sim => fold_left (fun sd (pd : nat * interval) => let '(pred, delay) := pd in d_set sd pred sim (delay, [pred; sim])) (f sim) sd) sims t)
       (fold_left (fun t (e : nat * list (nat * interval)) => let (sim, preds) := e in
                     fold_left (fun t (p : nat * interval) => d_set t (fst p) sim (snd p, [fst p; sim])) preds t) (map (fun s => (s, f s)) sims) t').
Proof.
  induction sims as [|s sims IH]; intros t t' H; simpl; [exact H|]. apply IH, init_inner_eqv, H.
Qed.

Lemma init_eqv f sims : teqv (cyc_init_gen sims f) (cyc_init (map (fun s => (s, f s)) sims)).
Proof. unfold cyc_init_gen, cyc_init. cbv zeta. apply (init_outer_eqv f). apply empty_rows_eqv. Qed.

(* the whole check *)
Theorem tie_cycle_check fuel ind sims : ind = map (fun s => (s, aget_l s ind)) sims ->
  cycle_check_gen fuel sims (fun s => aget_l s ind) = cycle_check fuel ind sims.
Proof.
  intros Hind. unfold cycle_check_gen, cycle_check.
  pose proof (init_eqv (fun s => aget_l s ind) sims) as Hi. cbv beta in Hi. rewrite <- Hind in Hi.
  pose proof (loop_eqv ind fuel _ _ sims Hi) as H.
  destruct (cyc_loop_gen (fun s => aget_l s ind) fuel (cyc_init_gen sims (fun s => aget_l s ind)) sims) as [[a|]|],
           (cyc_loop fuel ind (cyc_init ind) sims) as [[b|]|]; try contradiction; try reflexivity.
  rewrite (zero_self_eqv sims a b H). reflexivity.
Qed.

Lemma generated_reported_cycle_is_real : forall ind fuel sims path, ind = map (fun s => (s, aget_l s ind)) sims -> wk_indel ind = true ->
  cycle_check_gen fuel sims (fun s => aget_l s ind) = CycRejected path ->
  exists s d, hd_error path = Some s /\ last path 0%nat = s /\ walk_delay ind path = Some d /\ izero d = true /\ In s sims.
Proof. intros ind fuel sims path Hn Hw H. rewrite (tie_cycle_check fuel ind sims Hn) in H. exact (rejected_path_is_zero_cycle_wk ind fuel sims path Hw H). Qed.

Lemma generated_accepted_cycles_are_resolved : forall ind D sims fuel, ind = map (fun s => (s, aget_l s ind)) sims ->
  wk_indel ind = true -> uni_indel D ind = true -> cov_indel ind sims = true ->
  cycle_check_gen fuel sims (fun s => aget_l s ind) = CycAccepted ->
  forall p s W, hd_error p = Some s -> last p 0%nat = s -> In s sims -> walk_delay ind p = Some W ->
  izero W = false /\ all_zero ind p = false.
Proof. intros ind D sims fuel Hn Hw Hu Hc H. rewrite (tie_cycle_check fuel ind sims Hn) in H. exact (accepted_cycles_are_resolved ind D sims fuel Hw Hu Hc H). Qed.
