(* Result type of the generated World.connect_one (Gen/ConnectOne.v, translator harness/py2coq_connone.py): like
   Static/Connect.conn_result, but every way of NOT accepting carries the table updates made before the exception. *)
From Coq Require Import ZArith List Bool.
Import ListNotations.
From MV Require Import Time.Spec Static.Groups Static.Connect.

Inductive gen_result :=
| GAccepted (es : list effect)
| GRejected (ps : list problem) (before : list effect)
| GWeakRoot (before : list effect)
| GCrashed (e : cerr) (before : list effect).

(* the model's result says nothing is left behind by a rejection *)
Definition embed (r : conn_result) : gen_result :=
  match r with
  | Accepted es => GAccepted es
  | Rejected ps => GRejected ps []
  | RejectedWeakRoot => GWeakRoot []
  | Crashed e => GCrashed e []
  end.
