(* World.connect_one: the validation decision, the delay, and the table updates (model; proofs in ConnectP.v).
   Attribute facts (is the source attribute an output, is the destination a trigger input, ...) are inputs of
   the model: they are what ModelMock computed from the meta data (C12 covers that classification). *)
From Coq Require Import ZArith List Bool Arith.
Import ListNotations.
From MV Require Import Time.Spec Static.Groups.

Record cflags := mkF {
  src_is_out : bool;        (* src_attr in src.model_mock.output_attrs *)
  dst_is_in : bool;         (* dest_attr in dest.model_mock.input_attrs *)
  dst_nontrigger : bool;    (* dest_attr in dest.model_mock.measurement_inputs *)
  dst_trigger : bool;       (* dest.triggered_by(dest_attr) *)
  src_persistent : bool;    (* src.is_persistent(src_attr) *)
  shifted : Z;              (* int(time_shifted) *)
  weak : bool;
  has_init : bool;          (* initial_data is not SENTINEL *)
  use_cache : bool }.

Inductive problem := PSrcAttr | PDstAttr | PInitialData.
Definition problems (f : cflags) : list problem :=
  (if src_is_out f then [] else [PSrcAttr]) ++
  (if dst_is_in f then [] else [PDstAttr]) ++
  (if (negb (shifted f =? 0)%Z || weak f) && dst_nontrigger f && negb (has_init f) then [PInitialData] else []).

(* what connect_one does to the tables, as a list of effects in program order *)
Inductive effect :=
| EInputDelay (d : interval)          (* dest.input_delays[src] = min(existing, d) *)
| EPersistSetdefault                   (* dest.persistent_inputs[eid][attr].setdefault(src_full_id, None) *)
| EOutputRequest                       (* src.output_request[eid].append(attr) *)
| EPulled (d : interval)               (* dest.pulled_inputs[(src, d)].add((src_port, dest_port)) *)
| EPushed (d : interval)               (* src.output_to_push[src_port].append((dest, d, dest_port)) *)
| ESuccessor (d : interval)            (* src.successors[dest] = d (plain interval) *)
| ETrigger (d : interval)              (* src.triggers[src_port].append((dest, d)) *)
| EInitCache (t : Z)                   (* src.outputs.setdefault(-shift)...[attr] = initial_data *)
| EInitPersist.                        (* dest.persistent_inputs[eid][attr][src_full_id] = initial_data *)

Inductive conn_result := Rejected (ps : list problem) | RejectedWeakRoot | Crashed (e : cerr) | Accepted (es : list effect).

Definition connect_one (gt : gtab) (sg dg : nat) (f : cflags) : conn_result :=
  match problems f with
  | (_ :: _) as ps => Rejected ps
  | [] =>
    match connect_interval gt sg dg (shifted f) (if weak f then 1 else 0)%Z with
    | CErr CScenarioError => RejectedWeakRoot
    | CErr e => Crashed e
    | COk delay =>
      match connect_interval gt sg dg 0 0 with
      | CErr e => Crashed e
      | COk plain =>
        let is_pulled := use_cache f && src_persistent f in
        Accepted (
          [EInputDelay delay] ++
          (if src_persistent f && negb (use_cache f) then [EPersistSetdefault] else []) ++
          [EOutputRequest] ++
          (if is_pulled then [EPulled delay] else [EPushed delay]) ++
          [ESuccessor plain] ++
          (if dst_trigger f then [ETrigger delay] else []) ++
          (if has_init f then (if is_pulled then [EInitCache (- shifted f)%Z] else [EInitPersist]) else []))
      end
    end
  end.

(* the statement of C11 as a decidable predicate *)
Definition lca (gt : gtab) (sg dg : nat) : option nat :=
  match group_path gt sg dg with Some (_, _, c) => Some c | None => None end.
Definition should_reject (gt : gtab) (sg dg : nat) (f : cflags) : bool :=
  negb (src_is_out f) || negb (dst_is_in f)
  || ((negb (shifted f =? 0)%Z || weak f) && dst_nontrigger f && negb (has_init f))
  || (weak f && match lca gt sg dg with Some c => Nat.eqb c 0 | None => false end).
Definition is_rejected (r : conn_result) : bool :=
  match r with Rejected _ | RejectedWeakRoot => true | _ => false end.
