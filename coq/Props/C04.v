(* C04 - Schedule and configuration independence.
   Full statement: monitor P_C04 (harness/props/c04.py): equal per-simulator (time, inputs) sequences across
   schedules, start orders, lazy on/off, cache on/off, debug on/off, local/remote, for deterministic behaviours.
   Proved here:
   - C04_same_steps_in_every_interleaving (Sched/Determ.v): for simulators whose replies are a function of the step they
     are asked to perform (behaviour B: next-step reply and output reply per simulator and step time), every step begun
     in any run that follows B is also begun in every complete run that follows B - so two complete runs perform, for
     every simulator, the same set of steps (the same sequence, by C02's strict increase), whatever the interleaving
     of the replies;
   - what a step is given depends only on the data stores of its own inputs (frame property),
   - pruning does not change pulled values (cache on behaves like an unpruned cache),
   - the guards are monotone in progress: a BEGIN that is enabled stays enabled when other simulators' progress grows.
   - C04_pulled_values_same_in_every_interleaving (Sched/PullRun.v): the pulled half of the inputs of a step is the same
     in two interleavings in which every provider produces the same outputs in its own order (each run's lookups are
     lookups in that run's final caches, C03);
   - C04_pushed_values_same_in_every_interleaving (Sched/PushRun.v): the pushed half - for a slot (destination attribute,
     source simulator) the entries of the timed input buffer are, in arrival order, a function of the source's own outputs
     (minus what earlier steps of the destination have consumed); every entry due at or before t is there when the step for
     t begins (C03); the step takes the one with the latest due time, the last-arrived among equals - so in two
     interleavings in which the source produces the same outputs in its own order and the destination has begun the same
     earlier steps, the step is given the same event value on that slot, or reads its registers in both;
   - C04_persistent_pushed_value_same_in_every_interleaving (Sched/PushMem.v): for a slot registered in the persistent
     memory (no pulled connection, no set_data call writes it) the value is the same outright - it is the newest entry of
     the source's stream due by the step time, else the initial value (C03);
   Missing (C04_partial): closing the induction "same inputs -> same replies -> same outputs" for simulators whose replies
   depend on their inputs (and with it the equality of the registers when no event is due); debug mode and remote transport
   are not modelled and are compared by differential execution only. *)
From Coq Require Import ZArith List Bool Arith.
Import ListNotations.
From MV Require Import Time.Spec Time.Ord Static.Build Sched.Timing Sched.Inv Sched.Main Sched.Quiet Sched.Plane Sched.DataP Sched.Mono Sched.Determ Sched.PruneRun Sched.PullRun Sched.EventRun Sched.SetData Sched.Persist Sched.PushRun Sched.PushMem.
Open Scope Z_scope.

Theorem C04_partial_guards_monotone : forall st s s' i t,
  (forall k, length (prog (s k)) = length (prog (s' k))) ->
  (forall k, tle (prog (s k)) (prog (s' k)) = true) -> deps_ok st s i t = true -> deps_ok st s' i t = true.
Proof. exact deps_ok_mono. Qed.
Print Assumptions C04_partial_guards_monotone.

Theorem C04_partial_inputs_depend_on_own_stores : forall dt ds i step inp ds' j,
  get_input_data dt ds i step = (inp, ds') -> j <> i -> ds' j = ds j.
Proof. exact get_input_data_frame. Qed.
Print Assumptions C04_partial_inputs_depend_on_own_stores.

Theorem C04_partial_pruned_cache_like_unpruned : forall (outs : list (Z * odata)) thr x, increasing outs -> thr <= x ->
  let older := filter (fun t => t <=? thr) (map fst outs) in
  let keep_from := match older with [] => thr | y :: r => fold_left Z.max r y end in
  get_output_for (filter (fun e : Z*odata => keep_from <=? fst e) outs) x = get_output_for outs x.
Proof. exact prune_preserves_pull. Qed.
Print Assumptions C04_partial_pruned_cache_like_unpruned.

(* the steps do not depend on the interleaving: B gives every simulator's replies as a function of the step; run A is any
   run following B, run B' a complete one *)
Theorem C04_same_steps_in_every_interleaving : forall st, static_ok st -> init_before_until st ->
  forall (B : behaviour) evsB lB,
  run st (init_state st) evsB = Ok lB -> run_follows st B (init_state st) evsB ->
  (forall i, (i < nsims st)%nat -> pc (List.last lB (init_state st) i) = Done) ->
  forall evsA lA,
  run st (init_state st) evsA = Ok lA -> run_follows st B (init_state st) evsA ->
  (forall e j, In e evsA -> event_sim e = Some j -> (j < nsims st)%nat) ->
  forall p i c m, nth_error evsA p = Some (EvBegin i c m) -> beginsB evsB i c.
Proof. exact same_steps. Qed.
Print Assumptions C04_same_steps_in_every_interleaving.

(* non-vacuity: A (time-based) -> B (event-based, trigger), until = 2, lazy stepping off; B0 = "A steps every time unit and
   produces its output on the connected port".  Two different interleavings built by the driver of Sched/Determ.v (A runs
   ahead of B in the second one) are both complete runs that follow B0 - the premises of the theorem hold for them -
   and they begin the same steps *)
From MV Require Import Static.Groups Static.Connect Sched.Link Sched.Certify Sched.Guards Sched.Final.
Example C04_nonvacuous :
  let f := mkF true true false true true 0 false false true in
  let sc := mkScen [None] (fun _ => 0%nat) (fun i => if Nat.eqb i 0 then TimeBased else EventBased) 2
                   [mkConn 0 1 2 1 f false 0] [] 2 100 false true in
  let B0 : behaviour := fun i t => if Nat.eqb i 0 then (Some (thd t + 1), Some (thd t, [2%nat])) else (None, None) in
  match prepare 100 sc with
  | Prepared st dt t anc =>
      let e1 := drive st B0 (init_state st) [0;1;0;0;0;1;1;0;0;0;1;1]%nat in
      let e2 := drive st B0 (init_state st) [0;1;0;0;0;0;0;0;1;1;1;1]%nat in
      check_static sc t anc = true /\ init_before_untilb st = true /\ e1 <> e2 /\
      (match run st (init_state st) e2 with Ok l => forallb (fun i => match pc (List.last l (init_state st) i) with Done => true | _ => false end) [0;1]%nat | Err _ => false end) = true /\
      map (fun e => match e with EvBegin i c _ => Some (i, c) | _ => None end) (filter (fun e => match e with EvBegin _ _ _ => true | _ => false end) e1)
        = [Some (0%nat, [0]); Some (1%nat, [0]); Some (0%nat, [1]); Some (1%nat, [1])] /\
      map (fun e => match e with EvBegin i c _ => Some (i, c) | _ => None end) (filter (fun e => match e with EvBegin _ _ _ => true | _ => false end) e2)
        = [Some (0%nat, [0]); Some (0%nat, [1]); Some (1%nat, [0]); Some (1%nat, [1])]
  | _ => False end.
Proof. vm_compute. repeat split; try reflexivity. discriminate. Qed.

(* the pulled half of the inputs: in two interleavings in which every provider produces the same outputs in its own
   order (which holds for deterministic providers that perform the same steps, see above), the step (j,t) pulls the
   same values from its providers' caches - each run's lookups are the lookups in that run's final caches, and the
   final caches coincide *)
Theorem C04_pulled_values_same_in_every_interleaving : forall st dt, static_ok st -> pull_strict st dt ->
  (forall i, increasing (init_outputs dt i)) ->
  forall j t,
  forall preA mA postA spA dspA s1A ds1A inpA sfA dsfA,
  mono_run st dt (init_state st) (init_dstate dt) (preA ++ DBegin j t mA :: postA) ->
  dfinal st dt (init_state st) (init_dstate dt) preA = Some (spA, dspA) ->
  dapply_gen false st dt (spA, dspA) (DBegin j t mA) = DOk s1A ds1A (Some inpA) ->
  dfinal st dt s1A ds1A postA = Some (sfA, dsfA) ->
  forall preB mB postB spB dspB s1B ds1B inpB sfB dsfB,
  mono_run st dt (init_state st) (init_dstate dt) (preB ++ DBegin j t mB :: postB) ->
  dfinal st dt (init_state st) (init_dstate dt) preB = Some (spB, dspB) ->
  dapply_gen false st dt (spB, dspB) (DBegin j t mB) = DOk s1B ds1B (Some inpB) ->
  dfinal st dt s1B ds1B postB = Some (sfB, dsfB) ->
  (forall src, produced src (preA ++ DBegin j t mA :: postA) = produced src (preB ++ DBegin j t mB :: postB)) ->
  forall src sh flows, In ((src, sh), flows) (pulled dt j) -> look dspA src (thd t - sh) = look dspB src (thd t - sh).
Proof. exact pulled_same_in_two_runs. Qed.
Print Assumptions C04_pulled_values_same_in_every_interleaving.

(* non-vacuity: A (time-based) feeds a non-trigger input of B from the cache, lazy stepping off; in the second
   interleaving A performs both its steps before B begins.  Both runs succeed, have non-decreasing output times, produce
   the same outputs per provider, and B is given 7 at time 0 and 8 at time 1 in both *)
Example C04_pulled_nonvacuous :
  let f := mkF true true true false true 0 false false true in
  let sc := mkScen [None] (fun _ => 0%nat) (fun _ => TimeBased) 2 [mkConn 0 1 2 0 f false 0] [] 2 100 false true in
  let eA := [DEv (EvStart 0); DEv (EvStart 1); DBegin 0 [0] 2; DEv (EvStep 0 (Some 1)); DData 0 0 [] [(2%nat,7)]; DBegin 1 [0] 2; DEv (EvStep 1 (Some 1));
             DBegin 0 [1] 2; DEv (EvStep 0 (Some 2)); DData 0 1 [] [(2%nat,8)]; DBegin 1 [1] 2; DEv (EvStep 1 (Some 2))] in
  let eB := [DEv (EvStart 0); DEv (EvStart 1); DBegin 0 [0] 2; DEv (EvStep 0 (Some 1)); DData 0 0 [] [(2%nat,7)];
             DBegin 0 [1] 2; DEv (EvStep 0 (Some 2)); DData 0 1 [] [(2%nat,8)];
             DBegin 1 [0] 2; DEv (EvStep 1 (Some 1)); DBegin 1 [1] 2; DEv (EvStep 1 (Some 2))] in
  match prepare 100 sc with
  | Prepared st dt t anc =>
      check_static sc t anc = true /\ pull_strictb st dt = true /\
      mono_run st dt (init_state st) (init_dstate dt) eA /\ mono_run st dt (init_state st) (init_dstate dt) eB /\
      (forall src, produced src eA = produced src eB) /\
      filter (fun o => match o with Some _ => true | None => false end) (dinputs false st dt (init_state st) (init_dstate dt) eA) =
        [Some []; Some [(0%nat, [(0%nat, Some 7)])]; Some []; Some [(0%nat, [(0%nat, Some 8)])]] /\
      filter (fun o => match o with Some _ => true | None => false end) (dinputs false st dt (init_state st) (init_dstate dt) eB) =
        [Some []; Some []; Some [(0%nat, [(0%nat, Some 7)])]; Some [(0%nat, [(0%nat, Some 8)])]]
  | _ => False end.
Proof.
  vm_compute prepare. cbv beta iota.
  split; [vm_compute; reflexivity|]. split; [vm_compute; reflexivity|].
  split; [vm_compute; repeat split; try (apply le_n || apply le_S, le_n); intros e He; repeat (destruct He as [<-|He]); try contradiction; intros Hc; discriminate Hc|].
  split; [vm_compute; repeat split; try (apply le_n || apply le_S, le_n); intros e He; repeat (destruct He as [<-|He]); try contradiction; intros Hc; discriminate Hc|].
  split; [intros src; destruct src as [|[|src]]; reflexivity|].
  split; vm_compute; reflexivity.
Qed.

(* the pushed half of the inputs.  For a slot (attribute a of simulator j, source simulator k) that no pulled connection
   writes: in two interleavings (complete runs from the initial state) in which k produces the same outputs in its own order
   and the same steps of j have begun before BEGIN(j,t), either both runs give the step the same event value - an event
   due in (previous step of j, t] - or none is due in either and both read their registers (a set_data value, else the
   remembered value) *)
Theorem C04_pushed_values_same_in_every_interleaving : forall st dt, static_ok st -> forall j a k t,
  push_strict st dt -> not_pulled dt j a k ->
  forall preA mA postA spA dspA s1A ds1A inpA sfA dsfA, in_range st (preA ++ DBegin j t mA :: postA) ->
  dfinal st dt (init_state st) (init_dstate dt) preA = Some (spA, dspA) ->
  dapply_gen false st dt (spA, dspA) (DBegin j t mA) = DOk s1A ds1A (Some inpA) ->
  dfinal st dt (init_state st) (init_dstate dt) (preA ++ DBegin j t mA :: postA) = Some (sfA, dsfA) ->
  forall preB mB postB spB dspB s1B ds1B inpB sfB dsfB, in_range st (preB ++ DBegin j t mB :: postB) ->
  dfinal st dt (init_state st) (init_dstate dt) preB = Some (spB, dspB) ->
  dapply_gen false st dt (spB, dspB) (DBegin j t mB) = DOk s1B ds1B (Some inpB) ->
  dfinal st dt (init_state st) (init_dstate dt) (preB ++ DBegin j t mB :: postB) = Some (sfB, dsfB) ->
  produced k (preA ++ DBegin j t mA :: postA) = produced k (preB ++ DBegin j t mB :: postB) ->
  (forall t', begins_of j preA t' <-> begins_of j preB t') ->
  (exists due v, iget a k inpA = Some (Some v) /\ iget a k inpB = Some (Some v) /\ due <= thd t /\
                 (forall T, lastb j preA = Some T -> T < due)) \/
  (iget a k inpA = iget a k (merge_all_i (setdata (dspA j)) (persist (dspA j))) /\
   iget a k inpB = iget a k (merge_all_i (setdata (dspB j)) (persist (dspB j)))).
Proof. exact pushed_same_in_two_runs. Qed.
Print Assumptions C04_pushed_values_same_in_every_interleaving.

(* the buffer of a slot after any run from the initial state is the source's stream minus what was due at a step of the
   destination that has begun: it does not depend on the interleaving otherwise *)
Theorem C04_slot_buffer_is_the_sources_stream : forall st dt, static_ok st -> forall j a k evs s ds,
  push_strict st dt -> in_range st evs -> dfinal st dt (init_state st) (init_dstate dt) evs = Some (s, ds) ->
  map pv (slotbuf j a k ds) = filter (above (lastb j evs)) (stream dt j a k evs) /\
  stream dt j a k evs = flat_map (fun od : Z * odata => slot_pushes dt j a k k (fst od) (snd od)) (produced k evs).
Proof. intros st dt OK j a k evs s ds PS HR H. split; [apply (slot_of_run st dt OK j a k evs s ds PS HR H)|apply stream_produced]. Qed.
Print Assumptions C04_slot_buffer_is_the_sources_stream.

(* non-vacuity: A (time-based) -> trigger input of B (event-based); in the second interleaving A performs both its steps
   before B begins.  The tables pass the checks, both runs succeed, A produces the same outputs in both, A's stream into the
   slot is [(0,7); (1,8)], and B is given 7 at time 0 and 8 at time 1 in both *)
Example C04_pushed_nonvacuous :
  let f := mkF true true false true false 0 false false true in
  let sc := mkScen [None] (fun _ => 0%nat) (fun i => if Nat.eqb i 0 then TimeBased else EventBased) 2
                   [mkConn 0 1 2 1 f false 0] [] 2 100 false true in
  let eA := [DEv (EvStart 0); DEv (EvStart 1); DBegin 0 [0] 2; DEv (EvStep 0 (Some 1)); DData 0 0 [2%nat] [(2%nat,7)];
             DBegin 1 [0] 0; DEv (EvStep 1 None);
             DBegin 0 [1] 2; DEv (EvStep 0 (Some 2)); DData 0 1 [2%nat] [(2%nat,8)]; DBegin 1 [1] 2; DEv (EvStep 1 None)] in
  let eB := [DEv (EvStart 0); DEv (EvStart 1); DBegin 0 [0] 2; DEv (EvStep 0 (Some 1)); DData 0 0 [2%nat] [(2%nat,7)];
             DBegin 0 [1] 2; DEv (EvStep 0 (Some 2)); DData 0 1 [2%nat] [(2%nat,8)];
             DBegin 1 [0] 0; DEv (EvStep 1 None); DBegin 1 [1] 2; DEv (EvStep 1 None)] in
  match prepare 100 sc with
  | Prepared st dt t anc =>
      check_static sc t anc = true /\ push_strictb st dt = true /\
      (exists r, dfinal st dt (init_state st) (init_dstate dt) eA = Some r) /\ (exists r, dfinal st dt (init_state st) (init_dstate dt) eB = Some r) /\
      produced 0 eA = produced 0 eB /\ stream dt 1%nat 1%nat 0%nat eA = [(0, 7); (1, 8)] /\
      filter (fun o => match o with Some _ => true | None => false end) (dinputs false st dt (init_state st) (init_dstate dt) eA) =
        [Some []; Some [(1%nat, [(0%nat, Some 7)])]; Some []; Some [(1%nat, [(0%nat, Some 8)])]] /\
      filter (fun o => match o with Some _ => true | None => false end) (dinputs false st dt (init_state st) (init_dstate dt) eB) =
        [Some []; Some []; Some [(1%nat, [(0%nat, Some 7)])]; Some [(1%nat, [(0%nat, Some 8)])]]
  | _ => False end.
Proof.
  vm_compute prepare. cbv beta iota.
  split; [vm_compute; reflexivity|]. split; [vm_compute; reflexivity|].
  split; [eexists; vm_compute; reflexivity|]. split; [eexists; vm_compute; reflexivity|].
  split; [reflexivity|]. split; vm_compute; auto.
Qed.

(* for a slot registered in the persistent memory the two runs give the step the same value outright: it is the newest
   entry of the source's stream due by the step time, else the initial value (C03_persistent_pushed_input_is_newest_due_output) *)
Theorem C04_persistent_pushed_value_same_in_every_interleaving : forall st dt, static_ok st -> forall j a k,
  push_strict st dt -> not_pulled dt j a k -> forall v0, iget a k (init_persist dt j) = Some v0 -> forall t,
  forall preA mA postA spA dspA s1A ds1A inpA sfA dsfA, in_range st (preA ++ DBegin j t mA :: postA) -> no_setdata st j a k preA ->
  dfinal st dt (init_state st) (init_dstate dt) preA = Some (spA, dspA) ->
  dapply_gen false st dt (spA, dspA) (DBegin j t mA) = DOk s1A ds1A (Some inpA) ->
  dfinal st dt (init_state st) (init_dstate dt) (preA ++ DBegin j t mA :: postA) = Some (sfA, dsfA) ->
  forall preB mB postB spB dspB s1B ds1B inpB sfB dsfB, in_range st (preB ++ DBegin j t mB :: postB) -> no_setdata st j a k preB ->
  dfinal st dt (init_state st) (init_dstate dt) preB = Some (spB, dspB) ->
  dapply_gen false st dt (spB, dspB) (DBegin j t mB) = DOk s1B ds1B (Some inpB) ->
  dfinal st dt (init_state st) (init_dstate dt) (preB ++ DBegin j t mB :: postB) = Some (sfB, dsfB) ->
  produced k (preA ++ DBegin j t mA :: postA) = produced k (preB ++ DBegin j t mB :: postB) ->
  (forall t', begins_of j preA t' <-> begins_of j preB t') ->
  iget a k inpA = iget a k inpB.
Proof. exact pushed_persistent_same_in_two_runs. Qed.
Print Assumptions C04_persistent_pushed_value_same_in_every_interleaving.

(* tie to the source: what a step receives is computed by scheduler.get_input_data, regenerated statement by statement on
   every run (Gen/InputData.v) and equal to the data plane's get_input_data the theorems above are about - in particular the
   cache-on path (pulled values) and the cache-off path (timed buffer and persistent memory) are the source's own *)
From MV Require Gen.InputData Sched.DataTie.
Theorem C04_generated_get_input_data_is_the_model : forall dt ds i step,
  NoDup (map fst (persist (ds i))) -> (forall a m, In (a, m) (persist (ds i)) -> NoDup (map fst m)) ->
  let d := ds i in
  let '(inp, p', q', sd') := Gen.InputData.get_input_data (setdata d) (persist d) (buffer d) (pulled dt i) (fun src => outputs (ds src)) step in
  Plane.get_input_data dt ds i step = (inp, dupd ds i (mkD (outputs d) q' (bcount d) p' sd')).
Proof. exact Sched.DataTie.tie_get_input_data. Qed.
Print Assumptions C04_generated_get_input_data_is_the_model.
