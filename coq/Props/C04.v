(* C04 - Schedule and configuration independence.
   Full statement: monitor P_C04 (harness/props/c04.py): equal per-simulator (time, inputs) sequences across
   schedules, start orders, lazy on/off, cache on/off, debug on/off, local/remote, for deterministic behaviours.
   Proved here (C04_partial), the ingredients of the argument that do not depend on a schedule:
   - what a step is given depends only on the data stores of its own inputs (frame property),
   - pruning does not change pulled values (cache on behaves like an unpruned cache),
   - the guards are monotone in progress: a BEGIN that is enabled stays enabled when other simulators' progress grows
     (so enabled steps of different simulators do not disable each other).
   Missing: the commutation (diamond) lemma for DATAREPLY/BEGIN and the induction over Mazurkiewicz traces; debug
   mode and remote transport are not modelled and are compared by differential execution only. *)
From Coq Require Import ZArith List Bool Arith.
Import ListNotations.
From MV Require Import Time.Spec Time.Ord Static.Build Sched.Timing Sched.Plane Sched.DataP Sched.Mono.
Open Scope Z_scope.

Theorem C04_partial_guards_monotone : forall st s s' i t,
  (forall k, length (prog (s k)) = length (prog (s' k))) ->
  (forall k, tle (prog (s k)) (prog (s' k)) = true) -> deps_ok st s i t = true -> deps_ok st s' i t = true.
Proof. exact deps_ok_mono. Qed.
Print Assumptions C04_partial_guards_monotone.

Theorem C04_partial_inputs_depend_on_own_stores : forall dt ds i step inp ds' j,
  get_input_data dt ds i step = (inp, ds') -> j <> i -> ds' j = ds j.
Proof. exact get_input_data_frame. Qed.
Print Assumptions C04_partial_inputs_depend_on_own_stores.

Theorem C04_partial_pruned_cache_like_unpruned : forall (outs : list (Z * odata)) thr x, increasing outs -> thr <= x ->
  let older := filter (fun t => t <=? thr) (map fst outs) in
  let keep_from := match older with [] => thr | y :: r => fold_left Z.max r y end in
  get_output_for (filter (fun e : Z*odata => keep_from <=? fst e) outs) x = get_output_for outs x.
Proof. exact prune_preserves_pull. Qed.
Print Assumptions C04_partial_pruned_cache_like_unpruned.
