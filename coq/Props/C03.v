(* C03 - Data-flow fidelity of step inputs.
   Full statement: the reference semantics P_C03 of harness/monitors.py (persistent: latest produced value among the
   due ones, else the declared initial data; event: the value due in (previous step, t], once), evaluated at every
   BEGIN of every recorded trace, under the hypotheses unique_slots / persistent_complete (outside the quantifier)
   and with the known findings F10, F11, F14, F17 for the remaining input classes.
   Proved here: no event is delivered twice, none is lost, none is delivered early (timed buffer); a pulled value never
   comes from an output that is not yet due; the (unpruned) cache returns the most recent value produced so far that is
   due (C03_cache_returns_most_recent_due_value); pruning the cache is unobservable over whole runs - for every event
   sequence in which no simulator's output times go back, the scheduler with pruning delivers exactly the same inputs
   to every step as one that never prunes (C03_pruning_unobservable_over_runs, Sched/PruneRun.v: lockstep relation,
   thresholds monotone because last-step times never decrease; the repaired pruning rule, F6); assembling one
   simulator's inputs touches no other simulator's stores.
   Over whole runs (Sched/PullRun.v, Sched/EventRun.v; premises pull_strict / push_strict = "due after t means an output
   time after t - shift", certified by a computable check for flat scenarios):
   - pulled inputs: the inputs of BEGIN(j,t) are those computed from the FINAL caches of the run, and a final cache is
     the fold of everything its simulator ever produced: the value pulled is the most recent due value of the whole run;
   - events: an entry stays buffered until a step of its simulator begins at or after its due time (no loss), that step
     is given it and it never comes back (no duplication; entries are numbered), and after BEGIN(j,t) no entry that is
     or becomes buffered for j is due at or before t - so an event is delivered by the FIRST step at or after its due time.
   - pushed values and the persistent memory, per step (Sched/Persist.v): a slot no pulled connection writes is given the
     last due entry in (due time, arrival number) order, else the registers' content; the memory then holds what the
     step was given.
   - pushed persistent data over whole runs (Sched/PushRun.v, Sched/PushMem.v): for a slot registered in the persistent
     memory that no pulled connection and no set_data call writes, the memory after any run prefix and the value every
     step is given is the value of the entry of the source's stream with the latest due time at or before the step (the
     last pushed among equals), else the initial value: "the most recent value ever due", a function of the source's
     outputs only (C03_persistent_pushed_input_is_newest_due_output, C03_memory_over_runs).
   Missing (C03_partial): scenarios with groups
   (sub-steps) for the strictness premises - there the data plane is keyed by the integer time only (known finding F11).
   "Produced so far" is "ever produced": C03_later_outputs_are_not_due - every output a provider
   delivers after the consumer's BEGIN(j,t) has a delayed output time after t (from C01's guard, monotone progress and
   the lower-bound invariant). *)
From Coq Require Import ZArith List Bool Arith.
Import ListNotations.
From MV Require Import Time.Spec Static.Build Sched.Timing Sched.Inv Sched.Main Sched.Certify Sched.Quiet Sched.Plane Sched.DataP Sched.PruneRun Sched.Final Sched.Later Sched.PullRun Sched.EventRun Sched.SetData Sched.Persist Sched.PushRun Sched.PushMem.
Open Scope Z_scope.

Theorem C03_partial_events_exactly_once_never_early : forall dt ds i step inp ds',
  get_input_data dt ds i step = (inp, ds') ->
  (forall e, In e (buffer (ds' i)) <-> (In e (buffer (ds i)) /\ step < btime e)) /\
  (forall e, In e (sort_b (filter (fun e => btime e <=? step) (buffer (ds i)))) <-> (In e (buffer (ds i)) /\ btime e <= step)).
Proof. exact buffer_split. Qed.
Print Assumptions C03_partial_events_exactly_once_never_early.

Theorem C03_partial_pulled_value_is_due : forall outs t d,
  get_output_for outs t = d -> d = [] \/ exists t', In (t', d) outs /\ t' <= t.
Proof. exact get_output_for_due. Qed.
Print Assumptions C03_partial_pulled_value_is_due.

Theorem C03_partial_pruning_loses_nothing : forall (outs : list (Z * odata)) thr x, increasing outs -> thr <= x ->
  let older := filter (fun t => t <=? thr) (map fst outs) in
  let keep_from := match older with [] => thr | y :: r => fold_left Z.max r y end in
  get_output_for (filter (fun e : Z*odata => keep_from <=? fst e) outs) x = get_output_for outs x.
Proof. exact prune_preserves_pull. Qed.
Print Assumptions C03_partial_pruning_loses_nothing.

Theorem C03_partial_no_interference : forall dt ds i step inp ds' j,
  get_input_data dt ds i step = (inp, ds') -> j <> i -> ds' j = ds j.
Proof. exact get_input_data_frame. Qed.
Print Assumptions C03_partial_no_interference.

Example C03_nonvacuous :
  increasing [(0, [(2%nat, 7)]); (3, [(2%nat, 8)])] /\
  get_output_for [(0, [(2%nat, 7)]); (3, [(2%nat, 8)])] 2 = [(2%nat, 7)].
Proof. simpl. repeat split; try (intros e [<-|[]]; reflexivity); intros e []. Qed.

(* the cache lookup returns the entry with the largest output time at or before the requested time: the most recent value
   produced so far that is due (or nothing, if no output is due yet) *)
Theorem C03_cache_returns_most_recent_due_value : forall outs x, increasing outs ->
  match find (fun e : Z*odata => fst e <=? x) (rev outs) with
  | Some e => get_output_for outs x = snd e /\ In e outs /\ fst e <= x /\ (forall e', In e' outs -> fst e' <= x -> fst e' <= fst e)
  | None => get_output_for outs x = [] /\ forall e', In e' outs -> x < fst e'
  end.
Proof. exact get_output_for_latest. Qed.
Print Assumptions C03_cache_returns_most_recent_due_value.

(* pruning is unobservable: dapply_gen true is the scheduler's data-plane step (C03_dapply_is_the_pruning_step), dapply_gen
   false the same step without pruning; the inputs delivered along any run with non-decreasing output times coincide *)
Theorem C03_dapply_is_the_pruning_step : forall st dt sd e, dapply st dt sd e = dapply_gen true st dt sd e.
Proof. exact dapply_is_gen. Qed.
Print Assumptions C03_dapply_is_the_pruning_step.

Theorem C03_pruning_unobservable_over_runs : forall st dt, static_ok st -> static_ok2 st -> init_before_until st ->
  (forall j, increasing (init_outputs dt j)) ->
  forall evs, mono_run st dt (init_state st) (init_dstate dt) evs ->
  dinputs true st dt (init_state st) (init_dstate dt) evs = dinputs false st dt (init_state st) (init_dstate dt) evs.
Proof. exact prune_unobservable. Qed.
Print Assumptions C03_pruning_unobservable_over_runs.

(* non-vacuity: A (time-based) feeds a non-trigger input of B from the cache; the premises of the theorem hold for this
   run (certified tables, increasing initial cache, output times 0 then 1), and B receives 7 at time 0 and 8 at time 1 *)
From MV Require Import Static.Groups Static.Connect Sched.Link.
Example C03_pruning_nonvacuous :
  let f := mkF true true true false true 0 false false true in
  let sc := mkScen [None] (fun _ => 0%nat) (fun _ => TimeBased) 2 [mkConn 0 1 2 0 f false 0] [] 3 100 true true in
  let evs := [DEv (EvStart 0); DEv (EvStart 1); DBegin 0 [0] 3; DEv (EvStep 0 (Some 1)); DData 0 0 [] [(2%nat,7)]; DBegin 1 [0] 3; DEv (EvStep 1 (Some 1));
              DBegin 0 [1] 3; DEv (EvStep 0 (Some 2)); DData 0 1 [] [(2%nat,8)]; DBegin 1 [1] 3; DEv (EvStep 1 (Some 2))] in
  match prepare 100 sc with
  | Prepared st dt t anc =>
      check_static sc t anc = true /\ check_static2 sc t = true /\ init_before_untilb st = true /\ (forall j, increasing (init_outputs dt j)) /\
      mono_run st dt (init_state st) (init_dstate dt) evs /\
      dinputs true st dt (init_state st) (init_dstate dt) evs =
        [None; None; Some []; None; None; Some [(0%nat, [(0%nat, Some 7)])]; None; Some []; None; None; Some [(0%nat, [(0%nat, Some 8)])]; None]
  | _ => False end.
Proof.
  vm_compute prepare. cbv beta iota.
  split; [vm_compute; reflexivity|]. split; [vm_compute; reflexivity|]. split; [vm_compute; reflexivity|].
  split; [intros j; vm_compute; exact I|]. split; [|vm_compute; reflexivity].
  vm_compute. repeat split; try (apply le_n || apply le_S, le_n);
    intros e He; repeat (destruct He as [<-|He]); try contradiction; intros Hc; discriminate Hc.
Qed.

(* what a provider delivers after the consumer has begun its step at t is not due at or before t: the value found at the
   BEGIN is the most recent one that will ever be due *)
Theorem C03_later_outputs_are_not_due : forall st, static_ok st -> forall s j t m s',
  reached st s -> apply st s (EvBegin j t m) = Ok s' ->
  forall evs l, run st s' evs = Ok l ->
  forall r sr k ot ports sr', nth_error evs r = Some (EvData k ot ports) -> nth_error (s' :: l) r = Some sr -> apply st sr (EvData k ot ports) = Ok sr' ->
  forall d, In (k, d) (indel st j) ->
  exists c, cur (sr k) = Some c /\ tlt t (act (out_time st k c ot) d) = true.
Proof. exact later_outputs_are_later. Qed.
Print Assumptions C03_later_outputs_are_not_due.

(* over a whole run pre ++ BEGIN(j,t) :: post (no pruning; pruning is unobservable by the theorem above): the inputs
   of the step are those computed from the FINAL caches of the run - every value a provider produces after the BEGIN
   has an output time after the requested one, so what the step pulls is the most recent due value of everything the
   provider EVER produces (C03_final_cache_is_everything_produced: the final cache is the fold of all its outputs) *)
Theorem C03_pulled_inputs_come_from_the_final_cache : forall st dt, static_ok st -> pull_strict st dt ->
  (forall i, increasing (init_outputs dt i)) ->
  forall pre j t m post sp dsp s1 ds1 inp sf dsf,
  mono_run st dt (init_state st) (init_dstate dt) (pre ++ DBegin j t m :: post) ->
  dfinal st dt (init_state st) (init_dstate dt) pre = Some (sp, dsp) ->
  dapply_gen false st dt (sp, dsp) (DBegin j t m) = DOk s1 ds1 (Some inp) ->
  dfinal st dt s1 ds1 post = Some (sf, dsf) ->
  (forall src sh flows, In ((src, sh), flows) (pulled dt j) -> look dsp src (thd t - sh) = look dsf src (thd t - sh)) /\
  inp = fst (gid_core dt (look dsf) (dsp j) j (thd t)).
Proof. exact pulled_from_final_cache. Qed.
Print Assumptions C03_pulled_inputs_come_from_the_final_cache.

Theorem C03_final_cache_is_everything_produced : forall st dt evs s ds sf dsf src, dfinal st dt s ds evs = Some (sf, dsf) ->
  outputs (dsf src) = if d_cache dt then fill (produced src evs) (outputs (ds src)) else outputs (ds src).
Proof. exact final_cache. Qed.
Print Assumptions C03_final_cache_is_everything_produced.

(* the premise pull_strict ("due after t" means an output time after t - shift) holds whenever the computable check
   passes: flat times on both sides of every pulled connection and an input delay that is a plain shift *)
Theorem C03_pull_strict_certified : forall st dt, pull_strictb st dt = true -> pull_strict st dt.
Proof. exact pull_strictb_sound. Qed.
Print Assumptions C03_pull_strict_certified.

Example C03_pull_nonvacuous :
  let f := mkF true true true false true 0 false false true in
  let sc := mkScen [None] (fun _ => 0%nat) (fun _ => TimeBased) 2 [mkConn 0 1 2 0 f false 0] [] 3 100 true true in
  match prepare 100 sc with
  | Prepared st dt t anc => check_static sc t anc = true /\ pull_strictb st dt = true /\ pulled dt 1 <> []
  | _ => False end.
Proof. vm_compute. repeat split; try reflexivity. discriminate. Qed.

(* ---- the event (pushed) half over whole runs ---- *)
(* no loss: an entry stays in the timed input buffer as long as no step of its simulator begins at or after its due time *)
Theorem C03_events_kept_until_their_step : forall st dt evs s ds sf dsf j x, Ctr ds -> dfinal st dt s ds evs = Some (sf, dsf) ->
  In x (buffer (ds j)) -> (forall t m, In (DBegin j t m) evs -> thd t < btime x) -> In x (buffer (dsf j)).
Proof. exact event_kept. Qed.
Print Assumptions C03_events_kept_until_their_step.

(* no duplication: the step that finds the entry due is given it, and the entry never reappears afterwards (entries are
   numbered; Ctr: every buffered entry's number is below the counter, true initially and preserved) *)
Theorem C03_events_delivered_by_their_step : forall st dt s ds j t m s' ds' inp x,
  dapply_gen false st dt (s, ds) (DBegin j t m) = DOk s' ds' inp -> In x (buffer (ds j)) -> btime x <= thd t ->
  In x (sort_b (filter (fun e => btime e <=? thd t) (buffer (ds j)))) /\ ~ In x (buffer (ds' j)).
Proof. exact event_delivered. Qed.
Print Assumptions C03_events_delivered_by_their_step.
Theorem C03_events_never_delivered_again : forall st dt evs s ds sf dsf j x, Ctr ds -> dfinal st dt s ds evs = Some (sf, dsf) ->
  ~ In x (buffer (ds j)) -> (bctr x < bcount (ds j))%nat -> ~ In x (buffer (dsf j)).
Proof. exact event_gone. Qed.
Print Assumptions C03_events_never_delivered_again.

(* at the first step at or after the due time: after BEGIN(j,t), nothing that is or becomes buffered for j is due at or
   before t (what a provider pushes later is due later) - so the entries the next step of j finds due were due after t *)
Theorem C03_no_event_is_overdue : forall st dt, static_ok st -> push_strict st dt ->
  forall pre j t m post sp dsp s1 ds1 inp sf dsf, in_range st post ->
  dfinal st dt (init_state st) (init_dstate dt) pre = Some (sp, dsp) ->
  dapply_gen false st dt (sp, dsp) (DBegin j t m) = DOk s1 ds1 inp ->
  dfinal st dt s1 ds1 post = Some (sf, dsf) ->
  forall x, In x (buffer (dsf j)) -> thd t < btime x.
Proof. exact no_event_overdue. Qed.
Print Assumptions C03_no_event_is_overdue.
Theorem C03_push_strict_certified : forall st dt, push_strictb st dt = true -> push_strict st dt.
Proof. exact push_strictb_sound. Qed.
Print Assumptions C03_push_strict_certified.

(* non-vacuity: A (time-based) -> trigger input of B (event-based): the tables pass the check, A pushes to B, and in the
   run below (A performs both steps first) B's step at 0 is given only the event due at 0, its step at 1 the one due at 1 *)
Example C03_events_nonvacuous :
  let f := mkF true true false true false 0 false false true in
  let sc := mkScen [None] (fun _ => 0%nat) (fun i => if Nat.eqb i 0 then TimeBased else EventBased) 2
                   [mkConn 0 1 2 1 f false 0] [] 2 100 false true in
  let evs := [DEv (EvStart 0); DEv (EvStart 1); DBegin 0 [0] 2; DEv (EvStep 0 (Some 1)); DData 0 0 [2%nat] [(2%nat,7)];
              DBegin 0 [1] 2; DEv (EvStep 0 (Some 2)); DData 0 1 [2%nat] [(2%nat,8)];
              DBegin 1 [0] 0; DEv (EvStep 1 None); DBegin 1 [1] 2; DEv (EvStep 1 None)] in
  match prepare 100 sc with
  | Prepared st dt t anc =>
      check_static sc t anc = true /\ push_strictb st dt = true /\ pushes dt 0 <> [] /\
      filter (fun o => match o with Some _ => true | None => false end) (dinputs false st dt (init_state st) (init_dstate dt) evs) =
        [Some []; Some []; Some [(1%nat, [(0%nat, Some 7)])]; Some [(1%nat, [(0%nat, Some 8)])]]
  | _ => False end.
Proof. vm_compute. repeat split; try reflexivity. discriminate. Qed.

(* ---- pushed values and the persistent memory, one step ---- *)
(* for a slot (attribute a, source k) that no pulled connection writes: the step is given the value of the LAST due
   buffer entry for the slot - the due entry with the largest (due time, arrival number), C03_last_due_entry_is_the_latest -
   and if none is due what the registers hold (a set_data value, else the remembered value or the initial data);
   afterwards the memory of an existing slot holds what the step was given *)
Theorem C03_pushed_value_is_latest_due_or_remembered : forall dt ds i step inp ds' a k,
  get_input_data dt ds i step = (inp, ds') -> not_pulled dt i a k ->
  let due := sort_b (filter (fun e => btime e <=? step) (buffer (ds i))) in
  iget a k inp = match last_for a k due with
                 | Some e => Some (Some (bval e))
                 | None => iget a k (merge_all_i (setdata (ds i)) (persist (ds i))) end /\
  iget a k (persist (ds' i)) = match iget a k (persist (ds i)) with
                               | Some old => Some (match iget a k inp with Some new => new | None => old end)
                               | None => None end.
Proof. exact pushed_value_and_memory. Qed.
Print Assumptions C03_pushed_value_is_latest_due_or_remembered.
Theorem C03_last_due_entry_is_the_latest : forall a k l e, last_for a k (sort_b l) = Some e ->
  In e l /\ slot a k e = true /\ forall x, In x l -> slot a k x = true -> ble x e \/ x = e.
Proof. exact last_due_is_latest. Qed.
Print Assumptions C03_last_due_entry_is_the_latest.

(* ---- tie: the dict-merging helpers of mosaik/internal_util.py, regenerated from the source on every run ---- *)
From MV Require Gen.InternalUtil Sched.MergeTie.
Theorem C03_generated_merge_all_is_the_model : forall t o,
  merge_all_i t o = Gen.InternalUtil.merge_all (fun tm m => Gen.InternalUtil.merge_all (fun v_new _ => v_new) tm m) t o.
Proof. exact Sched.MergeTie.tie_merge_all. Qed.
Print Assumptions C03_generated_merge_all_is_the_model.
Theorem C03_generated_merge_existing_is_the_model : forall p i, NoDup (map fst p) -> (forall a m, In (a, m) p -> NoDup (map fst m)) ->
  merge_existing_i p i =
  Gen.InternalUtil.merge_existing (fun m im => Gen.InternalUtil.merge_existing (fun _ v_new => v_new) m im) p i.
Proof. exact Sched.MergeTie.tie_merge_existing. Qed.
Print Assumptions C03_generated_merge_existing_is_the_model.
(* scheduler.get_input_data itself, regenerated statement by statement on every run (Gen/InputData.v: set_data inputs, the
   persistent memory merged under them, the due entries of the timed buffer, the pulled values - None for a missing one -,
   the merge back into the memory), is the data plane's get_input_data *)
From MV Require Gen.InputData Sched.DataTie.
Theorem C03_generated_get_input_data_is_the_model : forall dt ds i step,
  NoDup (map fst (persist (ds i))) -> (forall a m, In (a, m) (persist (ds i)) -> NoDup (map fst m)) ->
  let d := ds i in
  let '(inp, p', q', sd') := Gen.InputData.get_input_data (setdata d) (persist d) (buffer d) (pulled dt i) (fun src => outputs (ds src)) step in
  Plane.get_input_data dt ds i step = (inp, dupd ds i (mkD (outputs d) q' (bcount d) p' sd')).
Proof. exact Sched.DataTie.tie_get_input_data. Qed.
Print Assumptions C03_generated_get_input_data_is_the_model.
(* ... and so are the data part of scheduler.get_outputs (cache fill, then one buffer entry per pushed destination, a missing
   attribute skipped) and scheduler.prune_dataflow_cache (time shifts of pulled connections are not negative) *)
Theorem C03_generated_put_outputs_is_the_model : forall dt ds i ot data,
  Gen.InputData.put_outputs (d_cache dt) (pushes dt i) ds i ot data = Plane.put_outputs dt ds i ot data.
Proof. exact Sched.DataTie.tie_put_outputs. Qed.
Print Assumptions C03_generated_put_outputs_is_the_model.
Theorem C03_generated_prune_is_the_model : forall st dt s ds, (forall j g, In g (pulled dt j) -> 0 <= snd (fst g)) -> forall i,
  Gen.InputData.prune_dataflow_cache (d_cache dt) (seq 0 (nsims st)) (pulled dt) (fun j => thd (last (s j))) ds i = Plane.prune st dt s ds i.
Proof. exact Sched.DataTie.tie_prune. Qed.
Print Assumptions C03_generated_prune_is_the_model.

(* ---- pushed persistent data over whole runs ---- *)
(* the slot (attribute a of j, source k): registered in the persistent memory with initial value v0, written by no pulled
   connection and no set_data call.  mem v0 T S = the value of the entry of S with the latest due time <= T (the last one
   in S among equal due times), v0 if there is none; stream = what k's outputs push into the slot, in k's own order.
   After every prefix of a run from the initial state the memory holds mem v0 (latest begun step of j) (stream so far) *)
Theorem C03_memory_over_runs : forall st dt, static_ok st -> forall j a k, push_strict st dt -> not_pulled dt j a k ->
  forall v0, iget a k (init_persist dt j) = Some v0 ->
  forall evs s ds, in_range st evs -> no_setdata st j a k evs ->
  dfinal st dt (init_state st) (init_dstate dt) evs = Some (s, ds) ->
  iget a k (persist (ds j)) = Some (mem v0 (lastb j evs) (stream dt j a k evs)) /\ iget a k (setdata (ds j)) = None.
Proof. exact memory_of_run. Qed.
Print Assumptions C03_memory_over_runs.

(* ... and a step for t is given the newest value of the WHOLE run's stream due by t (by max(t, earlier steps of j), which
   is t because steps never go back, C02): what the source pushes later in the run is due after t *)
Theorem C03_persistent_pushed_input_is_newest_due_output : forall st dt, static_ok st -> forall j a k, push_strict st dt -> not_pulled dt j a k ->
  forall v0, iget a k (init_persist dt j) = Some v0 ->
  forall pre t m post sp dsp s1 ds1 inp sf dsf,
  in_range st (pre ++ DBegin j t m :: post) -> no_setdata st j a k pre ->
  dfinal st dt (init_state st) (init_dstate dt) pre = Some (sp, dsp) ->
  dapply_gen false st dt (sp, dsp) (DBegin j t m) = DOk s1 ds1 (Some inp) ->
  dfinal st dt (init_state st) (init_dstate dt) (pre ++ DBegin j t m :: post) = Some (sf, dsf) ->
  iget a k inp = Some (mem v0 (omax (lastb j pre) (thd t)) (stream dt j a k (pre ++ DBegin j t m :: post))).
Proof. exact pushed_value_of_run. Qed.
Print Assumptions C03_persistent_pushed_input_is_newest_due_output.

(* the choice among due entries, as a function of the pairs (due time, value) in arrival order *)
Theorem C03_due_entry_choice_is_pick : forall a k (L:list bufentry) step,
  Sorted.StronglySorted (fun e y : bufentry => (bctr y < bctr e)%nat) L ->
  option_map pv (last_for a k (sort_b (filter (fun e => btime e <=? step) L))) =
  pick (filter (fun p => fst p <=? step) (map pv (rev (filter (slot a k) L)))).
Proof. exact last_for_is_pick. Qed.
Print Assumptions C03_due_entry_choice_is_pick.

(* non-vacuity: cache off, A (time-based, persistent output) -> trigger input of B (event-based): the slot is pushed and
   registered in B's memory with initial value None; A produces 7 at time 0 and nothing at times 1 and 2; B steps at 0 (given
   the event 7) and, on its own schedule, at 2 - where nothing is due and it is given the remembered 7 = mem None (Some 2) stream *)
From MV Require Import Static.Groups Static.Connect Sched.Link Sched.Guards.
Example C03_memory_nonvacuous :
  let f := mkF true true false true true 0 false false false in
  let sc := mkScen [None] (fun _ => 0%nat) (fun i => if Nat.eqb i 0 then TimeBased else EventBased) 2
                   [mkConn 0 1 2 1 f false 0] [] 3 100 false false in
  let evs := [DEv (EvStart 0); DEv (EvStart 1); DBegin 0 [0] 3; DEv (EvStep 0 (Some 1)); DData 0 0 [2%nat] [(2%nat,7)];
              DBegin 1 [0] 0; DEv (EvStep 1 (Some 2));
              DBegin 0 [1] 3; DEv (EvStep 0 (Some 2)); DData 0 1 [] [];
              DBegin 0 [2] 3; DEv (EvStep 0 (Some 3)); DData 0 2 [] [];
              DBegin 1 [2] 3; DEv (EvStep 1 None)] in
  match prepare 100 sc with
  | Prepared st dt t anc =>
      check_static sc t anc = true /\ push_strictb st dt = true /\ pulled dt 1%nat = [] /\
      iget 1%nat 0%nat (init_persist dt 1%nat) = Some None /\
      (exists r, dfinal st dt (init_state st) (init_dstate dt) evs = Some r) /\
      stream dt 1%nat 1%nat 0%nat evs = [(0, 7)] /\ mem None (Some 2) (stream dt 1%nat 1%nat 0%nat evs) = Some 7 /\
      filter (fun o => match o with Some _ => true | None => false end) (dinputs false st dt (init_state st) (init_dstate dt) evs) =
        [Some []; Some [(1%nat, [(0%nat, Some 7)])]; Some []; Some []; Some [(1%nat, [(0%nat, Some 7)])]]
  | _ => False end.
Proof.
  vm_compute prepare. cbv beta iota.
  split; [vm_compute; reflexivity|]. split; [vm_compute; reflexivity|]. split; [reflexivity|]. split; [reflexivity|].
  split; [eexists; vm_compute; reflexivity|]. split; vm_compute; auto.
Qed.

(* known finding F17 as a theorem about the model of World.connect_one (which is the regenerated source, C11_generated_connect_one_is_the_model):
   initial data given for a connection whose source attribute is not persistent is ALWAYS written into the destination's
   persistent-input memory - the slot of an event becomes a remembered slot, and by C03_memory_over_runs its content is then
   repeated at every step of the destination, against "an event value is delivered once" *)
From MV Require Static.F17.
Theorem C03_initial_data_makes_an_event_slot_persistent : forall gt sg dg f es,
  src_persistent f = false -> has_init f = true -> connect_one gt sg dg f = Accepted es -> In EInitPersist es.
Proof. exact Static.F17.initial_data_makes_an_event_slot_persistent. Qed.
Print Assumptions C03_initial_data_makes_an_event_slot_persistent.

(* known finding F10 on the model of the tables World.connect builds: the initial data of a time-shifted (or weak) connection
   from a persistent attribute is kept in the SOURCE's output cache under (source attribute, -shift) - not per connection.
   Witness: two time-shifted connections from the same attribute of simulator 0, to simulators 1 and 2, declaring the initial
   values 7 and 9: one cache cell, holding 9; both destinations pull it, so simulator 1 is given 9 where it declared 7. *)
Theorem C03_initial_data_is_per_connection_refuted :
  let f := mkF true true true false true 1 false true true in
  exists t, build [None] (fun _ => 0%nat) [mkConn 0 1 2 0 f false 7; mkConn 0 2 2 0 f false 9] = BOk t /\
            t_cinit t = [(0%nat, [(-1, [(2%nat, 9)])])] /\
            map fst (t_pull t) = [1%nat; 2%nat].
Proof. exact Static.F17.initial_data_is_per_connection_refuted. Qed.
Print Assumptions C03_initial_data_is_per_connection_refuted.

(* known finding F14 on the model of SimRunner.get_output_for (compared literally with the source): the cache is scanned in
   INSERTION order, newest first, for an entry whose time is at or before the query - when output times go back (an output
   stamped 3, then one stamped 1) a query at 5 is answered with the entry of time 1 although the entry of time 3 is later and
   also at or before 5 *)
Theorem C03_pulled_value_is_newest_by_time_refuted :
  exists outs t, (forall e, In e outs -> fst e <= t) /\ In (3, [(2%nat, 30)]) outs /\ get_output_for outs t = [(2%nat, 10)].
Proof. exact Static.F17.pulled_value_is_newest_by_time_refuted. Qed.
Print Assumptions C03_pulled_value_is_newest_by_time_refuted.

(* known finding F11, its core on the model of the output cache (get_outputs' cache fill and get_output_for, both tied to the source):
   the cache is keyed by the integer time of a step, so the output of a later sub-step of the same time replaces that of the
   earlier one; whoever reads the cache afterwards - for whatever tiered time - is given the later sub-step's value *)
From MV Require Sched.F11.
Theorem C03_cache_keeps_sub_steps_apart_refuted : forall dt ds i ot d1 d2,
  d_cache dt = true -> pushes dt i = [] -> outputs (ds i) = [] ->
  let ds' := put_outputs dt (put_outputs dt ds i ot d1) i ot d2 in
  outputs (ds' i) = [(ot, d2)] /\ get_output_for (outputs (ds' i)) ot = d2.
Proof. exact Sched.F11.cache_does_not_keep_sub_steps_apart. Qed.
Print Assumptions C03_cache_keeps_sub_steps_apart_refuted.
