(* C03 - Data-flow fidelity of step inputs.
   Full statement: the reference semantics P_C03 of harness/monitors.py (persistent: latest produced value among the
   due ones, else the declared initial data; event: the value due in (previous step, t], once), evaluated at every
   BEGIN of every recorded trace, under the hypotheses unique_slots / persistent_complete (outside the quantifier)
   and with the known findings F10, F11, F14, F17 for the remaining input classes.
   Proved here (C03_partial): no event is delivered twice, none is lost, none is delivered early (timed buffer);
   a pulled value never comes from an output that is not yet due; pruning the cache never changes what a later step
   pulls (for non-decreasing output times - the repaired pruning rule, F6); assembling one simulator's inputs
   touches no other simulator's stores.  Missing: the equality with the reference semantics itself. *)
From Coq Require Import ZArith List Bool Arith.
Import ListNotations.
From MV Require Import Time.Spec Static.Build Sched.Timing Sched.Plane Sched.DataP.
Open Scope Z_scope.

Theorem C03_partial_events_exactly_once_never_early : forall dt ds i step inp ds',
  get_input_data dt ds i step = (inp, ds') ->
  (forall e, In e (buffer (ds' i)) <-> (In e (buffer (ds i)) /\ step < btime e)) /\
  (forall e, In e (sort_b (filter (fun e => btime e <=? step) (buffer (ds i)))) <-> (In e (buffer (ds i)) /\ btime e <= step)).
Proof. exact buffer_split. Qed.
Print Assumptions C03_partial_events_exactly_once_never_early.

Theorem C03_partial_pulled_value_is_due : forall outs t d,
  get_output_for outs t = d -> d = [] \/ exists t', In (t', d) outs /\ t' <= t.
Proof. exact get_output_for_due. Qed.
Print Assumptions C03_partial_pulled_value_is_due.

Theorem C03_partial_pruning_loses_nothing : forall (outs : list (Z * odata)) thr x, increasing outs -> thr <= x ->
  let older := filter (fun t => t <=? thr) (map fst outs) in
  let keep_from := match older with [] => thr | y :: r => fold_left Z.max r y end in
  get_output_for (filter (fun e : Z*odata => keep_from <=? fst e) outs) x = get_output_for outs x.
Proof. exact prune_preserves_pull. Qed.
Print Assumptions C03_partial_pruning_loses_nothing.

Theorem C03_partial_no_interference : forall dt ds i step inp ds' j,
  get_input_data dt ds i step = (inp, ds') -> j <> i -> ds' j = ds j.
Proof. exact get_input_data_frame. Qed.
Print Assumptions C03_partial_no_interference.

Example C03_nonvacuous :
  increasing [(0, [(2%nat, 7)]); (3, [(2%nat, 8)])] /\
  get_output_for [(0, [(2%nat, 7)]); (3, [(2%nat, 8)])] 2 = [(2%nat, 7)].
Proof. simpl. repeat split; try (intros e [<-|[]]; reflexivity); intros e []. Qed.
