(* C14 - Fault containment and clean shutdown (partial by nature).
   Model: Ext/Faults.v - the try/except/finally structure of World.run, gather-with-cancellation in scheduler.run and the
   sequential World.shutdown, over oracle outcomes of the sim_process tasks and of each stop().
   The theorems about what run() raises assume that stop() of every simulator returns (RemoteProxy.stop swallows
   TimeoutError/IncompleteReadError); the clean-up itself needs no such assumption (C14_cleanup_is_unconditional).
   NOT in the model, observed only by harness/props/c14.py: promptness (elapsed time), process reaping, sockets. *)
From Coq Require Import List Bool Arith.
Import ListNotations.
From MV Require Import Ext.Faults Ext.FaultsP.

Theorem C14_fault_containment : forall procs stops_ e, first_failure procs = Some e -> (forall s, In s stops_ -> s = SReturns) ->
  let r := world_run procs stops_ in
  stops r = seq 0 (length stops_) /\ loop_closed r = true /\ success_logged r = false /\
  (raised r = Some e \/ (e = ERemoteException /\ logged_remote_error r = true /\ raised r = None)
   \/ (e = EKeyboardInterrupt /\ raised r = None)).
Proof. exact fault_containment. Qed.
Print Assumptions C14_fault_containment.
Theorem C14_clean_run : forall procs stops_, first_failure procs = None -> (forall s, In s stops_ -> s = SReturns) ->
  let r := world_run procs stops_ in
  stops r = seq 0 (length stops_) /\ loop_closed r = true /\ success_logged r = true /\ raised r = None.
Proof. exact clean_run. Qed.
Print Assumptions C14_clean_run.
Theorem C14_no_pending_tasks : forall procs e, first_failure procs = Some e ->
  forall i, nth i procs PDone = PWaiting -> nth i (cancelled procs) false = true.
Proof. exact waiting_tasks_are_cancelled. Qed.
Print Assumptions C14_no_pending_tasks.
(* Since the repair of finding F25 (World.shutdown went on only while every stop() returned) the clean-up needs no assumption on
   stop(): whatever fails during the run and whatever the stop() calls do - return, or raise, e.g. from a simulator's
   finalize() - every simulator is stopped exactly once, in order, and the loop is closed; a stop() that raises makes run()
   raise and is never reported as success.  (Before the repair this was C14_oracle_assumption_needed_refuted.) *)
Theorem C14_cleanup_is_unconditional : forall procs stops_,
  let r := world_run procs stops_ in
  stops r = seq 0 (length stops_) /\ loop_closed r = true /\
  ((exists e, In (SRaises e) stops_) -> raised r <> None /\ success_logged r = false).
Proof. exact cleanup_is_unconditional. Qed.
Print Assumptions C14_cleanup_is_unconditional.
