(* C14 - Fault containment and clean shutdown (partial by nature).
   Model: Ext/Faults.v - the try/except/finally structure of World.run, gather-with-cancellation in scheduler.run and the
   sequential World.shutdown, over oracle outcomes of the sim_process tasks and of each stop().
   Oracle assumption (trusted base, checked by the fault-injection harness on the real proxies): stop() of every
   simulator returns (RemoteProxy.stop swallows TimeoutError/IncompleteReadError).
   NOT in the model, observed only by harness/props/c14.py: promptness (elapsed time), process reaping, sockets. *)
From Coq Require Import List Bool Arith.
Import ListNotations.
From MV Require Import Ext.Faults Ext.FaultsP.

Theorem C14_fault_containment : forall procs stops_ e, first_failure procs = Some e -> (forall s, In s stops_ -> s = SReturns) ->
  let r := world_run procs stops_ in
  stops r = seq 0 (length stops_) /\ loop_closed r = true /\ success_logged r = false /\
  (raised r = Some e \/ (e = ERemoteException /\ logged_remote_error r = true /\ raised r = None)
   \/ (e = EKeyboardInterrupt /\ raised r = None)).
Proof. exact fault_containment. Qed.
Print Assumptions C14_fault_containment.
Theorem C14_clean_run : forall procs stops_, first_failure procs = None -> (forall s, In s stops_ -> s = SReturns) ->
  let r := world_run procs stops_ in
  stops r = seq 0 (length stops_) /\ loop_closed r = true /\ success_logged r = true /\ raised r = None.
Proof. exact clean_run. Qed.
Print Assumptions C14_clean_run.
Theorem C14_no_pending_tasks : forall procs e, first_failure procs = Some e ->
  forall i, nth i procs PDone = PWaiting -> nth i (cancelled procs) false = true.
Proof. exact waiting_tasks_are_cancelled. Qed.
Print Assumptions C14_no_pending_tasks.
Theorem C14_oracle_assumption_needed_refuted :
  exists procs stops_, let r := world_run procs stops_ in loop_closed r = false /\ length (stops r) < length stops_.
Proof. exact stop_raising_breaks_containment_refuted. Qed.
