(* C17 - Real-time pacing and external events (partial by nature).
   Model: Ext/RT.v - the arithmetic on an integer clock.  Not in the model: IEEE rounding of passed / rt_factor, the
   event loop's timer accuracy, per-simulator start-time skew; the run-level clause (completes without internal error)
   is checked on the real scheduler driven by a virtual clock (harness/props/c17.py). *)
From Coq Require Import ZArith Bool List.
Import ListNotations.
From MV Require Import Ext.RT Ext.RTP Time.Spec Sched.Timing Sched.GenView Gen.SchedulerFns Sched.SchedTie Sched.SetupTie.
Open Scope Z_scope.

Theorem C17_step_never_begins_early : forall t passed r, 0 < r -> may_begin t passed r = true -> r * (t - 1) < passed.
Proof. exact begin_not_early. Qed.
Print Assumptions C17_step_never_begins_early.
Theorem C17_step_may_begin_then : forall t passed r, 0 < r -> r * (t - 1) < passed -> may_begin t passed r = true.
Proof. exact begin_allowed. Qed.
Print Assumptions C17_step_may_begin_then.
Theorem C17_too_slow_iff : forall r strict passed last, rt_check (Some r) strict passed last = InTime <-> passed <= r * last.
Proof. exact rt_check_in_time_iff. Qed.
Print Assumptions C17_too_slow_iff.
Theorem C17_rt_strict_changes_nothing_else : forall r passed last,
  (rt_check (Some r) true passed last = InTime <-> rt_check (Some r) false passed last = InTime) /\
  (rt_check (Some r) true passed last = TooSlowError <-> rt_check (Some r) false passed last = TooSlowWarning).
Proof. exact rt_strict_only_changes_the_report. Qed.
Print Assumptions C17_rt_strict_changes_nothing_else.
Theorem C17_instant_answer_in_time : forall r strict t passed, 0 < r -> passed <= r * t -> rt_check (Some r) strict passed t = InTime.
Proof. exact instant_answer_in_time. Qed.
Print Assumptions C17_instant_answer_in_time.
Theorem C17_set_event : forall rt t until,
  (rt = None -> set_event rt t until = EventRefused) /\
  (rt <> None -> t < until -> set_event rt t until = EventScheduled) /\
  (rt <> None -> until <= t -> set_event rt t until = EventIgnoredWithWarning).
Proof. exact set_event_table. Qed.
Print Assumptions C17_set_event.
(* known finding F18: on a real clock the step at time 0 is always late *)
Theorem C17_time_zero_refuted : exists r passed, 0 < r /\ 0 < passed /\ rt_check (Some r) true passed 0 = TooSlowError.
Proof. exact time_zero_always_too_slow_refuted. Qed.

(* tie to the source: in real-time mode (rt = Some k, k = ceil(seconds passed / rt_factor) ticks) the progress rule
   advance_progress as regenerated from mosaik/scheduler.py on every run is the smaller of the ordinary new progress and the
   clock's tick: no simulator's progress - hence no step - runs ahead of the wall clock *)
Theorem C17_generated_progress_is_capped_by_the_clock : forall st s i k, (1 <= depth st i)%nat ->
  advance_progress (view st s i) (nexts (s i)) (cur (s i)) (Some k) (until st) (mkI 1 1 (repeat 0 (depth st i))) =
  (let w := world_time st i k in if tlt w (new_progress st s i) then w else new_progress st s i).
Proof. exact tie_advance_progress_rt. Qed.
Print Assumptions C17_generated_progress_is_capped_by_the_clock.

(* tie to the source: MosaikRemote.set_event as regenerated from mosaik/simmanager.py on every run decides as the model's
   set_event, and what it queues (through schedule_step) is the event time as a world time of the simulator's depth *)
Theorem C17_generated_set_event_is_the_model : forall rt t until d, (1 <= d)%nat ->
  match remote_set_event (match rt with Some _ => true | None => false end) t until (runner_from_world_time d) with
  | None => set_event rt t until = EventRefused
  | Some None => set_event rt t until = EventIgnoredWithWarning
  | Some (Some q) => set_event rt t until = EventScheduled /\ q = t :: repeat 0 (d - 1)
  end.
Proof. exact tie_set_event. Qed.
Print Assumptions C17_generated_set_event_is_the_model.

(* known finding F20 as a theorem about the model: a consumer's step for t can begin only when its producer's progress has
   passed t; in real-time mode that progress is the clock's tick ceil(passed / r) - so more than r * t has elapsed when the
   consumer's step may begin, and the too-slow check made when the step ends reports it, however fast the simulators answer *)
From MV Require Ext.F20.
Theorem C17_paced_consumer_is_always_too_slow : forall r strict t passed_at_begin passed_at_end,
  0 < r -> t < rt_progress passed_at_begin r -> passed_at_begin <= passed_at_end ->
  rt_check (Some r) strict passed_at_end t <> InTime.
Proof. exact Ext.F20.paced_consumer_is_always_too_slow. Qed.
Print Assumptions C17_paced_consumer_is_always_too_slow.
