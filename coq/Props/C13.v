(* C13 - Runtime validation of simulator replies. Reply values: Some v (an int; Python bools are ints),
   None, or "not an int" (EvStepBad).  An error result carries no successor state: nothing is scheduled from a
   bad reply, and a run ends at its first error. *)
From Coq Require Import ZArith List Bool Arith.
Import ListNotations.
From MV Require Import Time.Spec Sched.Timing Sched.Inv Sched.Init Sched.Wle Sched.Main Sched.Guards Sched.Final.
Open Scope Z_scope.

Theorem C13_next_step_not_later : forall st s i t v, pc (s i) = InStep -> cur (s i) = Some t -> v <= thd t ->
  apply st s (EvStep i (Some v)) = Err (EReply i).
Proof. exact bad_next_step_rejected. Qed.
Print Assumptions C13_next_step_not_later.
Theorem C13_next_step_not_an_int : forall st s i t, pc (s i) = InStep -> cur (s i) = Some t ->
  apply st s (EvStepBad i) = Err (EReply i).
Proof. exact nonint_next_step_rejected. Qed.
Print Assumptions C13_next_step_not_an_int.
Theorem C13_time_based_without_next_step : forall st s i t, pc (s i) = InStep -> cur (s i) = Some t -> timebased st i = true ->
  apply st s (EvStep i None) = Err (EReply i).
Proof. exact missing_next_step_rejected. Qed.
Print Assumptions C13_time_based_without_next_step.
Theorem C13_output_time_before_step : forall st s i c ot ports, pc (s i) = InData -> cur (s i) = Some c -> ot < thd (last (s i)) ->
  apply st s (EvData i ot ports) = Err (EOutTime i).
Proof. exact early_output_time_rejected. Qed.
Print Assumptions C13_output_time_before_step.
Theorem C13_wellformed_next_step_accepted : forall st s i t v, pc (s i) = InStep -> cur (s i) = Some t -> thd t < v ->
  apply st s (EvStep i (Some v)) <> Err (EReply i).
Proof. exact good_next_step_not_rejected. Qed.
Print Assumptions C13_wellformed_next_step_accepted.
Theorem C13_error_is_final : forall st s e r evs, apply st s e = Err r -> run st s (e :: evs) = Err r.
Proof. exact error_is_final. Qed.
Print Assumptions C13_error_is_final.
