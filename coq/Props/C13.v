(* C13 - Runtime validation of simulator replies. Reply values: Some v (an int; Python bools are ints),
   None, or "not an int" (EvStepBad).  An error result carries no successor state: nothing is scheduled from a
   bad reply, and a run ends at its first error. *)
From Coq Require Import ZArith List Bool Arith.
Import ListNotations.
From MV Require Import Time.Spec Sched.Timing Sched.Inv Sched.Init Sched.Wle Sched.Main Sched.Guards Sched.Final Sched.GenView Gen.SchedulerFns Sched.SchedTie.
Open Scope Z_scope.

Theorem C13_next_step_not_later : forall st s i t v, pc (s i) = InStep -> cur (s i) = Some t -> v <= thd t ->
  apply st s (EvStep i (Some v)) = Err (EReply i).
Proof. exact bad_next_step_rejected. Qed.
Print Assumptions C13_next_step_not_later.
Theorem C13_next_step_not_an_int : forall st s i t, pc (s i) = InStep -> cur (s i) = Some t ->
  apply st s (EvStepBad i) = Err (EReply i).
Proof. exact nonint_next_step_rejected. Qed.
Print Assumptions C13_next_step_not_an_int.
Theorem C13_time_based_without_next_step : forall st s i t, pc (s i) = InStep -> cur (s i) = Some t -> timebased st i = true ->
  apply st s (EvStep i None) = Err (EReply i).
Proof. exact missing_next_step_rejected. Qed.
Print Assumptions C13_time_based_without_next_step.
Theorem C13_output_time_before_step : forall st s i c ot ports, pc (s i) = InData -> cur (s i) = Some c -> ot < thd (last (s i)) ->
  apply st s (EvData i ot ports) = Err (EOutTime i).
Proof. exact early_output_time_rejected. Qed.
Print Assumptions C13_output_time_before_step.
Theorem C13_wellformed_next_step_accepted : forall st s i t v, pc (s i) = InStep -> cur (s i) = Some t -> thd t < v ->
  apply st s (EvStep i (Some v)) <> Err (EReply i).
Proof. exact good_next_step_not_rejected. Qed.
Print Assumptions C13_wellformed_next_step_accepted.
Theorem C13_error_is_final : forall st s e r evs, apply st s e = Err r -> run st s (e :: evs) = Err r.
Proof. exact error_is_final. Qed.
Print Assumptions C13_error_is_final.

(* tie to the source: the validation of a step() reply in scheduler.step (the nesting of its tests and every comparison are
   translated from mosaik/scheduler.py on every run, Gen/SchedulerFns.v step_reply) is what the model does with the reply:
   a reply that is refused is an error naming the simulator, an accepted one schedules the self-step iff it lies before until *)
Theorem C13_generated_reply_validation_is_the_model : forall st s i nxt t, pc (s i) = InStep -> cur (s i) = Some t ->
  apply st s (EvStep i nxt) =
  (let x := s i in
   let s1 := upd s i (mkSim InStep (prog x) (nexts x) (cur x) t (newer x)) in
   match step_reply (reply_of nxt) (thd t) (until st) (timebased st i) with
   | StepOk sched =>
       let s2 := match sched with Some v => schedule s1 i (world_time st i v) | None => s1 end in
       if outreq st i then let y := s2 i in Ok (upd s2 i (mkSim InData (prog y) (nexts y) (cur y) (last y) (newer y)))
       else finish_step st s2 i t []
   | _ => Err (EReply i)
   end).
Proof. exact tie_step_reply. Qed.
Print Assumptions C13_generated_reply_validation_is_the_model.

(* ... and the output time: get_outputs' test "output time >= time of the step" and the tiered output time (the current tiered
   step when the output carries the step's own time, else the announced time with zero sub-steps) *)
Theorem C13_generated_output_time_rule_is_the_model : forall st s i ot ports c,
  pc (s i) = InData -> cur (s i) = Some c -> length c = depth st i ->
  apply st s (EvData i ot ports) =
  match output_time_rule ot c (thd (last (s i))) with
  | None => Err (EOutTime i)
  | Some ott => finish_step st s i ott ports
  end.
Proof. exact tie_output_time. Qed.
Print Assumptions C13_generated_output_time_rule_is_the_model.

(* the property, read off the regenerated validation itself: scheduler.step accepts a reply in exactly two cases - an int
   strictly later than the step (then the self-step is scheduled iff it lies before until), or no next step from a simulator
   that is not time-based; everything else (not an int, not later, a time-based simulator without a next step) is refused *)
Theorem C13_generated_reply_accepted_iff : forall r c u tb sched,
  step_reply r c u tb = StepOk sched <->
  (exists v, r = RInt v /\ c < v /\ sched = (if v <? u then Some v else None)) \/ (r = RNone /\ tb = false /\ sched = None).
Proof. exact generated_reply_accepted_iff. Qed.
Print Assumptions C13_generated_reply_accepted_iff.
(* ... and get_outputs accepts an output time iff it is not before the time of the step that produced it *)
Theorem C13_generated_output_time_accepted_iff : forall ot c lst ott,
  output_time_rule ot c lst = Some ott <->
  lst <= ot /\ ott = (if ot =? thd c then c else ot :: repeat 0 (length c - 1)).
Proof. exact generated_output_time_accepted_iff. Qed.
Print Assumptions C13_generated_output_time_accepted_iff.
