(* C11 - Connection validation and group scoping.  Model: Static/Groups.v (SimGroup, group_path,
   connect_interval) and Static/Connect.v (World.connect_one); tie: (a) scenario.connect_interval is translated from the
   source on every run (Gen/ConnectInterval.v) and proved equal to the specification on all arguments
   (C11_generated_connect_interval_is_the_model); (b) correspondence of the extracted model with World.connect on every
   placement of two simulators in a group tree x all flag combinations. *)
From Coq Require Import ZArith List Bool Arith.
Import ListNotations.
From MV Require Import Time.Spec Time.Tie Static.Groups Static.GroupsP Static.Connect Static.ConnectP Static.ConnTie Static.GenConn Static.ConnOneTie.
From MV Require Gen.ConnectOne.

(* connect_one raises ScenarioError exactly in the four documented cases; it never fails in any other way *)
Theorem C11_rejection_exact : forall gt, wfGb gt = true -> forall sg dg f, (sg < length gt)%nat -> (dg < length gt)%nat ->
  is_rejected (connect_one gt sg dg f) = should_reject gt sg dg f /\
  (forall e, connect_one gt sg dg f <> Crashed e).
Proof. exact connect_one_decision. Qed.
Print Assumptions C11_rejection_exact.

(* "share no simulator group" = the deepest common enclosing group is the root; that group is what group_path finds *)
Theorem C11_common_group_is_deepest : forall gt, wfGb gt = true -> forall s d a dd c, (s < length gt)%nat -> (d < length gt)%nat ->
  group_path gt s d = Some (a, dd, c) ->
  In c (gchain gt s) /\ In c (gchain gt d) /\
  (forall b, In b (gchain gt s) -> In b (gchain gt d) -> In b (gchain gt c)) /\
  (gdepth gt s - a = gdepth gt c)%nat /\ (gdepth gt d - dd = gdepth gt c)%nat /\ (c < length gt)%nat.
Proof. exact group_path_lca. Qed.
Print Assumptions C11_common_group_is_deepest.

(* an accepted pair performs exactly the listed table updates; a rejected pair has no effect list at all
   (Rejected / RejectedWeakRoot carry no effects: no data-flow is left behind) *)
Theorem C11_effects : forall gt sg dg f es, connect_one gt sg dg f = Accepted es ->
  exists delay plain,
    connect_interval gt sg dg (shifted f) (if weak f then 1 else 0)%Z = COk delay /\
    connect_interval gt sg dg 0 0 = COk plain /\ (es = effects_of f delay plain).
Proof. exact connect_one_effects. Qed.
Print Assumptions C11_effects.

(* the delay of an accepted connection: length = gdepth of the destination group, cutoff = gdepth of the common
   group (sub-time is shared only inside the common enclosing group), time shift in tier 0, weak in the
   common group's own tier *)
Theorem C11_delay_shape : forall gt, wfGb gt = true -> forall sg dg sh wk, (sg < length gt)%nat -> (dg < length gt)%nat ->
  exists c, lca gt sg dg = Some c /\ (c < length gt)%nat /\
    In c (gchain gt sg) /\ In c (gchain gt dg) /\
    (forall b, In b (gchain gt sg) -> In b (gchain gt dg) -> In b (gchain gt c)) /\
    if negb (wk =? 0)%Z && Nat.eqb c 0 then connect_interval gt sg dg sh wk = CErr CScenarioError
    else exists d, connect_interval gt sg dg sh wk = COk d /\ wfI d /\
         ipre d = gdepth gt sg /\ icut d = gdepth gt c /\ length (itiers d) = gdepth gt dg /\
         (forall i, (i < gdepth gt dg)%nat -> nth i (itiers d) 0%Z =
             if Nat.eqb i 0 then (if negb (wk =? 0)%Z && Nat.eqb (gdepth gt c) 1 then wk else sh)
             else if negb (wk =? 0)%Z && Nat.eqb i (gdepth gt c - 1) then wk else 0%Z).
Proof. exact connect_interval_spec. Qed.
Print Assumptions C11_delay_shape.

(* distinct sibling groups are distinct: their common group is the parent *)
Theorem C11_siblings : forall gt, wfGb gt = true -> forall g1 g2 p f, (g1 < length gt)%nat -> (g2 < length gt)%nat ->
  parent gt g1 = Some p -> parent gt g2 = Some p -> g1 <> g2 ->
  lca gt g1 g2 = Some p /\
  (weak f = true -> p = 0%nat -> is_rejected (connect_one gt g1 g2 f) = true) /\
  (forall d, connect_interval gt g1 g2 (shifted f) (if weak f then 1 else 0)%Z = COk d -> icut d = gdepth gt p).
Proof. exact siblings_interval. Qed.
Print Assumptions C11_siblings.

(* non-vacuity: root, two sibling groups 1 and 2, group 3 nested in 1 *)
Example C11_nonvacuous :
  let gt := [None; Some 0; Some 0; Some 1]%nat in
  wfGb gt = true /\ group_path gt 3 2 = Some (2, 1, 0)%nat /\ group_path gt 3 1 = Some (1, 0, 1)%nat /\
  is_rejected (connect_one gt 1 2 (mkF true true false true false 0 true false true)) = true /\
  is_rejected (connect_one gt 3 1 (mkF true true false true false 0 true false true)) = false.
Proof. vm_compute. repeat split; reflexivity. Qed.

(* the delay computation the theorems above speak about IS what scenario.connect_interval computes: the function
   generated from the source equals the specification on every group table, pair of groups, time shift and weak flag
   (errors included) *)
Theorem C11_generated_connect_interval_is_the_model : forall gt sg dg ts w,
  cmap to_spec (MV.Gen.ConnectInterval.connect_interval gt sg dg ts w) = MV.Static.Groups.connect_interval gt sg dg ts w.
Proof. exact tie_connect_interval. Qed.
Print Assumptions C11_generated_connect_interval_is_the_model.

(* tie to the source: World.connect_one as regenerated from mosaik/scenario.py on every run (Gen/ConnectOne.v: its statements in
   source order, every table update an effect, every exception with the updates made before it) is the model connect_one
   with NOTHING done before a rejection or a crash: the objections are collected and raised before any table is touched, the
   group rule for weak connections is checked (inside connect_interval) before the first update, and the second
   connect_interval call cannot fail when the first succeeded *)
Theorem C11_generated_connect_one_is_the_model : forall gt sg dg f,
  MV.Gen.ConnectOne.connect_one gt sg dg f = embed (MV.Static.Connect.connect_one gt sg dg f).
Proof. exact tie_connect_one. Qed.
Print Assumptions C11_generated_connect_one_is_the_model.

(* the decision theorem, stated of the regenerated connect_one itself: it raises ScenarioError exactly in the documented cases,
   never fails in another way, and whatever it raises it raises before touching any table *)
Theorem C11_generated_rejection_exact : forall gt, wfGb gt = true -> forall sg dg f, (sg < length gt)%nat -> (dg < length gt)%nat ->
  gen_rejected_clean (MV.Gen.ConnectOne.connect_one gt sg dg f) = should_reject gt sg dg f /\
  (forall e b, MV.Gen.ConnectOne.connect_one gt sg dg f <> GCrashed e b) /\
  (forall ps b, MV.Gen.ConnectOne.connect_one gt sg dg f = GRejected ps b -> b = []) /\
  (forall b, MV.Gen.ConnectOne.connect_one gt sg dg f = GWeakRoot b -> b = []).
Proof. exact generated_rejection_exact. Qed.
Print Assumptions C11_generated_rejection_exact.

(* where the group tree comes from: World.group, regenerated from mosaik/scenario.py on every run (Gen/GroupFns.v: the statements
   before and after the yield of the context manager), run over any well-nested script of `with world.group():` blocks and
   simulator starts.  Every well-nested script leaves the current group as it found it; a new group's parent is the group that
   was current when its block was entered; so two blocks opened one after the other are siblings under the same parent -
   whatever is nested inside the first - and the table stays one the group lemmas above apply to (wfGb). *)
From MV Require Import Gen.GroupFns Static.GroupTie.
Theorem C11_generated_group_blocks_restore_the_current_group : forall ops, nested ops -> forall w, exists w',
  grun w ops = Some w' /\ w_cur w' = w_cur w /\ w_stack w' = w_stack w /\ exists ext, w_gt w' = w_gt w ++ ext.
Proof. exact nested_restores. Qed.
Print Assumptions C11_generated_group_blocks_restore_the_current_group.
Theorem C11_generated_consecutive_blocks_are_siblings : forall b1 b2 w, nested b1 -> nested b2 -> exists w',
  grun w (Enter :: b1 ++ Leave :: Enter :: b2 ++ [Leave]) = Some w' /\ w_cur w' = w_cur w /\
  exists g1 g2, g1 <> g2 /\ parent (w_gt w') g1 = Some (w_cur w) /\ parent (w_gt w') g2 = Some (w_cur w).
Proof. exact consecutive_blocks_are_siblings. Qed.
Print Assumptions C11_generated_consecutive_blocks_are_siblings.
Theorem C11_generated_group_enter_keeps_the_table_well_formed : forall gt cur, wfGb gt = true -> (cur < length gt)%nat ->
  wfGb (fst (fst (group_enter gt cur))) = true.
Proof. exact enter_keeps_wf. Qed.
Print Assumptions C11_generated_group_enter_keeps_the_table_well_formed.
Example C11_generated_groups_nonvacuous :
  match grun (mkW [None] 0%nat [] []) [Enter; Enter; Start; Leave; Leave; Start; Enter; Start; Leave] with
  | Some w => w_gt w = [None; Some 0; Some 1; Some 0]%nat /\ w_started w = [3; 0; 2]%nat /\ w_cur w = 0%nat
  | None => False end.
Proof. vm_compute. repeat split; reflexivity. Qed.
(* ... so the group table of ANY scenario script is one the theorems above apply to: from the world as World.__init__ makes it,
   every well-nested script of group blocks and simulator starts ends in a well-formed table (the root is group 0, every
   parent is older), back in the root group, with every started simulator in a group that exists *)
Theorem C11_generated_scripts_build_well_formed_tables : forall ops, nested ops -> exists w',
  grun (mkW [None] 0%nat [] []) ops = Some w' /\ wfGb (w_gt w') = true /\ w_cur w' = 0%nat /\
  forall g, In g (w_started w') -> (g < length (w_gt w'))%nat.
Proof. exact scripts_build_well_formed_tables. Qed.
Print Assumptions C11_generated_scripts_build_well_formed_tables.
