(* C18 - Bulk connection helpers.  Model: Ext/Util.v with the random choices as an explicit argument (every shuffle
   result, every randint value).  Tie: correspondence with mosaik.util on recorded random choices.
   Proved for ALL choice sequences: every source is connected exactly once (both modes), no destination exceeds
   max_connects (uneven mode), within a round no destination is used twice (even mode: totals differ by at most one),
   the returned set is exactly the set of connected destinations, connect_many_to_one.
   and completion: whenever the helper's own precondition len(src) <= len(dest)*max_connects holds, the internal
   capacity assertion can never fire (capacity invariant; this is what failed before the repair of F3). *)
From Coq Require Import List Bool Arith.
Import ListNotations.
From MV Require Import Ext.Util Ext.UtilP Ext.GenBulk Gen.BulkFns Ext.BulkTie.

Theorem C18_evenly_each_source_once : forall fuel perms src dsize r, 0 < dsize ->
  (forall p, In p perms -> length p = dsize) ->
  connect_evenly fuel perms src dsize = Some r -> map fst r = src.
Proof. exact evenly_each_source_once. Qed.
Print Assumptions C18_evenly_each_source_once.
Theorem C18_evenly_round_uses_each_destination_at_most_once : forall src p, NoDup p -> NoDup (map snd (zip src p)).
Proof. exact evenly_round_distinct. Qed.
Print Assumptions C18_evenly_round_uses_each_destination_at_most_once.
(* the totals: with every round's list a duplicate-free arrangement of all destinations D (what random.shuffle returns),
   any two destinations receive numbers of connections that differ by at most one *)
Theorem C18_evenly_totals_differ_by_at_most_one : forall fuel perms src dsize r (D : list nat),
  (forall p, In p perms -> length p = dsize /\ NoDup p /\ forall d, In d D -> In d p) ->
  connect_evenly fuel perms src dsize = Some r ->
  forall d d', In d D -> In d' D -> count d r <= S (count d' r).
Proof. exact evenly_totals. Qed.
Print Assumptions C18_evenly_totals_differ_by_at_most_one.
Example C18_evenly_nonvacuous : connect_evenly 5 [[2; 0; 1]; [1; 2; 0]] [10; 11; 12; 13] 3 = Some [(10, 2); (11, 0); (12, 1); (13, 1)].
Proof. vm_compute. reflexivity. Qed.
Theorem C18_randomly_each_source_once : forall choices src dest maxc r,
  connect_randomly_uneven choices src dest maxc = ROk r -> map fst r = src.
Proof. exact randomly_each_source_once. Qed.
Print Assumptions C18_randomly_each_source_once.
Theorem C18_randomly_respects_max_connects : forall choices src dest m r, 0 < m -> NoDup dest ->
  connect_randomly_uneven choices src dest (Some m) = ROk r -> forall d, count d r <= m.
Proof. exact randomly_respects_max_connects. Qed.
Print Assumptions C18_randomly_respects_max_connects.
Theorem C18_returned_set : forall conns d, In d (connected_set conns) <-> 0 < count d conns.
Proof. exact connected_set_spec. Qed.
Print Assumptions C18_returned_set.
Theorem C18_many_to_one : forall src dest,
  map fst (connect_many_to_one src dest) = src /\ forall c, In c (connect_many_to_one src dest) -> snd c = dest.
Proof. exact many_to_one_spec. Qed.
Print Assumptions C18_many_to_one.
Theorem C18_completes_when_feasible : forall choices src dest m, 0 < m -> NoDup dest ->
  connect_randomly_uneven choices src dest (Some m) <> RAssert.
Proof. exact randomly_never_asserts. Qed.
Print Assumptions C18_completes_when_feasible.
Theorem C18_completes_unbounded : forall choices src dest, dest <> [] -> connect_randomly_uneven choices src dest None <> RAssert.
Proof. exact randomly_unbounded_never_asserts. Qed.
Print Assumptions C18_completes_unbounded.
Example C18_nonvacuous : connect_randomly_uneven [0; 0] [10; 11] [20; 21] (Some 1) = ROk [(10, 20); (11, 21)].
Proof. vm_compute. reflexivity. Qed.

(* tie to the source: the four helpers as regenerated from mosaik/util.py on every run (statement by statement, the random
   choices as an oracle argument, `connected` as the list of elements added to the returned set) are the model the theorems
   above are about *)
Theorem C18_generated_many_to_one_is_the_model : forall src d, connect_many_to_one_gen src d = connect_many_to_one src d.
Proof. exact tie_many_to_one. Qed.
Print Assumptions C18_generated_many_to_one_is_the_model.
Theorem C18_generated_connect_randomly_is_the_model : forall evenly fuel shuffles choices src dest maxc,
  (dest = [] -> connect_randomly_gen evenly fuel shuffles choices src dest maxc = GAssert) /\
  (dest <> [] -> evenly = true ->
     connect_randomly_gen evenly fuel shuffles choices src dest maxc =
     match connect_evenly fuel shuffles src (length dest) with Some r => GOk r (map snd r) | None => GOracle end) /\
  (dest <> [] -> evenly = false ->
     to_rres (connect_randomly_gen evenly fuel shuffles choices src dest maxc) = connect_randomly_uneven choices src dest maxc /\
     forall r c, connect_randomly_gen evenly fuel shuffles choices src dest maxc = GOk r c -> forall d, In d c <-> In d (connected_set r)).
Proof. exact tie_connect_randomly. Qed.
Print Assumptions C18_generated_connect_randomly_is_the_model.
Example C18_generated_nonvacuous :
  connect_randomly_gen false 0 [] [0; 0] [10; 11] [20; 21] (Some 1) = GOk [(10, 20); (11, 21)] [20; 21] /\
  connect_randomly_gen true 5 [[2; 0; 1]; [1; 2; 0]] [] [10; 11; 12; 13] [0; 1; 2] None = GOk [(10, 2); (11, 0); (12, 1); (13, 1)] [2; 0; 1; 1].
Proof. vm_compute. split; reflexivity. Qed.

(* the property theorems, stated of the regenerated source itself (uneven mode; any oracle of random choices): *)
Theorem C18_generated_randomly_each_source_once_and_capped : forall fuel shuffles choices src dest m r c, dest <> [] -> (0 < m)%nat -> NoDup dest ->
  connect_randomly_gen false fuel shuffles choices src dest (Some m) = GOk r c ->
  map fst r = src /\ (forall d, count d r <= m) /\ (forall d, In d c <-> 0 < count d r).
Proof. exact generated_randomly_each_source_once_and_capped. Qed.
Print Assumptions C18_generated_randomly_each_source_once_and_capped.
Theorem C18_generated_never_asserts_when_feasible : forall fuel shuffles choices src dest m, dest <> [] -> (0 < m)%nat -> NoDup dest ->
  connect_randomly_gen false fuel shuffles choices src dest (Some m) <> GAssert.
Proof. exact generated_never_asserts_when_feasible. Qed.
Print Assumptions C18_generated_never_asserts_when_feasible.
