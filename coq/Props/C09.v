(* C09 - Same-time loop guard.  "Sub-step index" = value of a sub-tier of the step's tiered time. *)
From Coq Require Import ZArith List Bool Arith.
Import ListNotations.
From MV Require Import Time.Spec Sched.Timing Sched.Inv Sched.Init Sched.Wle Sched.Main Sched.Guards Sched.Final.
Open Scope Z_scope.

(* no step with a sub-step index >= max_loop_iterations is ever begun (the simulator is not called) *)
Theorem C09_guard_blocks : forall st s i t m s', apply st s (EvBegin i t m) = Ok s' ->
  forall x, In x (tl t) -> x < maxloop st.
Proof. exact loop_guard_blocks. Qed.
Print Assumptions C09_guard_blocks.

(* the run is stopped with the error naming i exactly when i is ready to step and its next step exceeds the bound *)
Theorem C09_guard_fires_iff : forall st s i, (exists s', apply st s (EvLoopFail i) = Ok s') <->
  begin_enabled st s i = true /\ exists t, tmin (nexts (s i)) = Some t /\ loop_exceeded st t = true /\ t = prog (s i).
Proof. exact loop_guard_fires_iff. Qed.
Print Assumptions C09_guard_fires_iff.

(* a loop that stays within the bound is never interrupted: a step that can begin cannot trip the guard *)
Theorem C09_settled_loops_not_interrupted : forall st s i t m s1 s2,
  apply st s (EvBegin i t m) = Ok s1 -> apply st s (EvLoopFail i) = Ok s2 -> False.
Proof. exact loop_guard_exclusive. Qed.
Print Assumptions C09_settled_loops_not_interrupted.

(* "... and simulation time then advances normally": within one group (the scope of a same-time loop) a run never stalls -
   in every reachable state in which nothing is in flight and some simulator is not done, the scheduler can make a move:
   start a simulator, begin a step, or stop a loop that does not settle with the SimulationError (EvLoopFail).  So a loop
   either settles and the next step begins, or it is stopped; it cannot hang.  (The premise uniform_certified is the
   decidable certificate for "all simulators in one group"; it is checked for every such scenario the harness runs.) *)
From MV Require Import Sched.Live Sched.Progress Sched.Quiet.
Theorem C09_loop_never_stalls : forall st, static_ok st -> uniform_certified st = true ->
  forall s, reached st s -> Quiet s -> (exists i, (i < nsims st)%nat /\ pc (s i) <> Done) ->
  exists e s', scheduler_move st e /\ apply st s e = Ok s'.
Proof. exact certified_uniform_progress. Qed.
Print Assumptions C09_loop_never_stalls.
