(* C09 - Same-time loop guard.  "Sub-step index" = value of a sub-tier of the step's tiered time. *)
From Coq Require Import ZArith List Bool Arith.
Import ListNotations.
From MV Require Import Time.Spec Sched.Timing Sched.Inv Sched.Init Sched.Wle Sched.Main Sched.Guards Sched.Final Sched.GenView Gen.SchedulerFns Sched.SchedTie.
Open Scope Z_scope.

(* no step with a sub-step index >= max_loop_iterations is ever begun (the simulator is not called) *)
Theorem C09_guard_blocks : forall st s i t m s', apply st s (EvBegin i t m) = Ok s' ->
  forall x, In x (tl t) -> x < maxloop st.
Proof. exact loop_guard_blocks. Qed.
Print Assumptions C09_guard_blocks.

(* the run is stopped with the error naming i exactly when i is ready to step and its next step exceeds the bound *)
Theorem C09_guard_fires_iff : forall st s i, (exists s', apply st s (EvLoopFail i) = Ok s') <->
  begin_enabled st s i = true /\ exists t, tmin (nexts (s i)) = Some t /\ loop_exceeded st t = true /\ t = prog (s i).
Proof. exact loop_guard_fires_iff. Qed.
Print Assumptions C09_guard_fires_iff.

(* a loop that stays within the bound is never interrupted: a step that can begin cannot trip the guard *)
Theorem C09_settled_loops_not_interrupted : forall st s i t m s1 s2,
  apply st s (EvBegin i t m) = Ok s1 -> apply st s (EvLoopFail i) = Ok s2 -> False.
Proof. exact loop_guard_exclusive. Qed.
Print Assumptions C09_settled_loops_not_interrupted.

(* "... and simulation time then advances normally": within one group (the scope of a same-time loop) a run never stalls -
   in every reachable state in which nothing is in flight and some simulator is not done, the scheduler can make a move:
   start a simulator, begin a step, or stop a loop that does not settle with the SimulationError (EvLoopFail).  So a loop
   either settles and the next step begins, or it is stopped; it cannot hang.  (The premise uniform_certified is the
   decidable certificate for "all simulators in one group"; it is checked for every such scenario the harness runs.) *)
From MV Require Import Sched.Live Sched.Progress Sched.Quiet.
Theorem C09_loop_never_stalls : forall st, static_ok st -> uniform_certified st = true ->
  forall s, reached st s -> Quiet s -> (exists i, (i < nsims st)%nat /\ pc (s i) <> Done) ->
  exists e s', scheduler_move st e /\ apply st s e = Ok s'.
Proof. exact certified_uniform_progress. Qed.
Print Assumptions C09_loop_never_stalls.

(* tie to the source: the loop guard of sim_process - `any(t >= world.max_loop_iterations for t in sim.current_step.tiers[1:])`,
   translated from mosaik/scheduler.py on every run - is the model's loop_exceeded, and the two tests made when a step is popped
   (already progressed past it / a sub-step index at the bound) decide a BEGIN exactly as the model's apply does.  The order of
   the blocks of sim_process's loop is compared literally with the order of the model's events on every run. *)
Theorem C09_generated_loop_guard_is_the_model : forall st t, loop_guard (maxloop st) t = loop_exceeded st t.
Proof. exact tie_loop_guard. Qed.
Print Assumptions C09_generated_loop_guard_is_the_model.

Theorem C09_generated_begin_checks_are_the_model : forall st s i t m, begin_enabled st s i = true -> tmin (nexts (s i)) = Some t ->
  apply st s (EvBegin i t m) =
  (let x := s i in
   if past_check t (prog x) then Err (EPast i) else
   if loop_guard (maxloop st) t then Err (ELoopExpected i) else
   let s' := upd s i (mkSim InStep (prog x) (removeT t (nexts x)) (Some t) (last x) (newer x)) in
   if max_advance st s' i =? m then Ok s' else Err (EMaxAdv i)).
Proof. exact tie_begin_checks. Qed.
Print Assumptions C09_generated_begin_checks_are_the_model.

(* the guard read off the regenerated test itself: sim_process refuses a popped step iff one of its sub-step counters (every
   tier below the first) has reached max_loop_iterations - the first tier, the simulation time, never counts *)
Theorem C09_generated_loop_guard_iff : forall m t, loop_guard m t = true <-> exists x, In x (tl t) /\ m <= x.
Proof. exact generated_loop_guard_iff. Qed.
Print Assumptions C09_generated_loop_guard_iff.
