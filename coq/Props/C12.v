(* C12 - Attribute classification from model descriptions.  Model: Static/Attrs.v (OutSet/frozenset algebra with
   Python's reflected-operator dispatch, parse_set_triple, parse_attrs).  Tie: exhaustive correspondence of the extracted
   model with mosaik over a small attribute universe (all descriptions x any_inputs x the three types; all binary set
   expressions).  The exactness of the rejections (which descriptions are refused) is decided by that correspondence
   together with the independent specification in harness/props/c12.py. *)
From Coq Require Import List Bool Arith.
Import ListNotations.
From MV Require Import Static.Attrs Static.AttrsP.
From MV Require Gen.InOrOutSet Static.SetsTie Gen.ParseAttrs Static.AttrsTie.

Theorem C12_difference : forall x a b, mem x (isub a b) = mem x a && negb (mem x b).
Proof. exact mem_isub. Qed.
Print Assumptions C12_difference.
Theorem C12_intersection : forall x a b, mem x (iand a b) = mem x a && mem x b.
Proof. exact mem_iand. Qed.
Print Assumptions C12_intersection.
Theorem C12_union : forall x a b, mem x (ior a b) = mem x a || mem x b.
Proof. exact mem_ior. Qed.
Print Assumptions C12_union.
Theorem C12_equality_is_extensional : forall a b, seqb a b = true <-> forall x, mem x a = mem x b.
Proof. exact seqb_spec. Qed.
Print Assumptions C12_equality_is_extensional.

Theorem C12_triple_is_partition : forall u a b A B, parse_set_triple u a b = POk (A, B) ->
  (forall x, mem x A && mem x B = false) /\
  (exists U, (forall x, mem x U = mem x A || mem x B) /\ (forall u0, u = Some u0 -> U = u0)) /\
  (forall a0, a = Some a0 -> A = a0) /\ (forall b0, b = Some b0 -> B = b0).
Proof. exact parse_set_triple_sound. Qed.
Print Assumptions C12_triple_is_partition.
Theorem C12_triple_underspecified_iff : forall u a b, parse_set_triple u a b = PMissing <->
  (u = None /\ (a = None \/ b = None)) \/ (a = None /\ b = None).
Proof. exact parse_set_triple_missing. Qed.
Print Assumptions C12_triple_underspecified_iff.

Theorem C12_classification_sound : forall d ty mi ei mo eo, parse_attrs d ty = POk (mi, ei, mo, eo) ->
  (forall x, mem x mi && mem x ei = false) /\ (forall x, mem x mo && mem x eo = false) /\
  (forall x, mem x mi || mem x ei = if d_any_inputs d then true else match d_attrs d with Some l => lmem x l | None => mem x mi || mem x ei end) /\
  (forall l, d_attrs d = Some l -> forall x, mem x mo || mem x eo = lmem x l) /\
  (forall l, d_nontrigger d = Some l -> mi = Fin l) /\ (forall l, d_trigger d = Some l -> ei = Fin l) /\
  (forall l, d_persistent d = Some l -> mo = Fin l) /\ (forall l, d_nonpersistent d = Some l -> eo = Fin l) /\
  (ty = ATimeBased -> (forall x, mem x ei = false) /\ (forall x, mem x eo = false)) /\
  (ty = AEventBased -> (forall x, mem x mi = false) /\ (forall x, mem x mo = false)).
Proof. exact parse_attrs_sound. Qed.
Print Assumptions C12_classification_sound.

Example C12_nonvacuous :
  parse_attrs (mkDesc (Some [1; 2; 3]) (Some [2]) None None (Some [3]) false) AHybrid
  = POk (Fin [1; 3], Fin [2], Fin [1; 2], Fin [3]).
Proof. vm_compute. reflexivity. Qed.

(* the set algebra and parse_set_triple the theorems above speak about ARE what mosaik/in_or_out_set.py computes: the
   functions generated from the source (with Python's operator dispatch between frozenset and OutSet) equal the
   specification on all arguments *)
Theorem C12_generated_set_algebra_is_the_model :
  (forall a b, MV.Gen.InOrOutSet.py_sub a b = isub a b) /\ (forall a b, MV.Gen.InOrOutSet.py_and a b = iand a b) /\
  (forall a b, MV.Gen.InOrOutSet.py_or a b = ior a b) /\ (forall a b, MV.Gen.InOrOutSet.py_eq a b = seqb a b) /\
  (forall l x, MV.Gen.InOrOutSet.OutSet___contains__ l x = mem x (Cof l)) /\
  (forall u a b, MV.Gen.InOrOutSet.parse_set_triple u a b = MV.Static.Attrs.parse_set_triple u a b).
Proof.
  split; [exact MV.Static.SetsTie.tie_sub|]. split; [exact MV.Static.SetsTie.tie_and|]. split; [exact MV.Static.SetsTie.tie_or|].
  split; [exact MV.Static.SetsTie.tie_eq|]. split; [exact MV.Static.SetsTie.tie_contains|exact MV.Static.SetsTie.tie_parse_set_triple].
Qed.
Print Assumptions C12_generated_set_algebra_is_the_model.

(* tie to the source: parse_attrs as regenerated from mosaik/scenario.py on every run (Gen/ParseAttrs.v; it calls the
   generated parse_set_triple and set equality) is the specification the theorems above are about, for every model
   description and simulator type *)
Theorem C12_generated_parse_attrs_is_the_model : forall d ty,
  MV.Gen.ParseAttrs.parse_attrs d ty = MV.Static.Attrs.parse_attrs d ty.
Proof. exact MV.Static.AttrsTie.tie_parse_attrs. Qed.
Print Assumptions C12_generated_parse_attrs_is_the_model.

(* the classification theorem, stated of the regenerated parse_attrs itself *)
Theorem C12_generated_classification_sound : forall d ty mi ei mo eo, MV.Gen.ParseAttrs.parse_attrs d ty = POk (mi, ei, mo, eo) ->
  (forall x, mem x mi && mem x ei = false) /\ (forall x, mem x mo && mem x eo = false) /\
  (forall x, mem x mi || mem x ei = if d_any_inputs d then true else match d_attrs d with Some l => lmem x l | None => mem x mi || mem x ei end) /\
  (forall l, d_attrs d = Some l -> forall x, mem x mo || mem x eo = lmem x l) /\
  (forall l, d_nontrigger d = Some l -> mi = Fin l) /\ (forall l, d_trigger d = Some l -> ei = Fin l) /\
  (forall l, d_persistent d = Some l -> mo = Fin l) /\ (forall l, d_nonpersistent d = Some l -> eo = Fin l) /\
  (ty = ATimeBased -> (forall x, mem x ei = false) /\ (forall x, mem x eo = false)) /\
  (ty = AEventBased -> (forall x, mem x mi = false) /\ (forall x, mem x mo = false)).
Proof. exact MV.Static.AttrsTie.generated_classification_sound. Qed.
Print Assumptions C12_generated_classification_sound.
