(* C05 - Completion: no deadlock and no internal scheduling error.
   Proved: (a) safety - the internal errors "cannot progress backwards" and "has already progressed" are unreachable
   from the initial state of every scenario with static_ok tables, for every behaviour and interleaving.
   Not proved here (C05_partial): (b) progress (some step is enabled whenever nothing is in flight and not all
   simulators are done) and (c) termination; they are checked on the implementation by the quiescence test of the
   trace validation (deadlock detector) and on the model by "no enabled BEGIN at quiescence". *)
From Coq Require Import ZArith List Bool Arith.
Import ListNotations.
From MV Require Import Time.Spec Sched.Timing Sched.Inv Sched.Init Sched.Wle Sched.Main Sched.Guards Sched.Final.
Open Scope Z_scope.

Theorem C05_partial_never_progresses_backwards : forall st, static_ok st -> forall s e i,
  reached st s -> apply st s e <> Err (EBackwards i).
Proof. exact C05_no_backwards. Qed.
Print Assumptions C05_partial_never_progresses_backwards.

Theorem C05_partial_never_steps_in_the_past : forall st, static_ok st -> forall s i t m,
  reached st s -> apply st s (EvBegin i t m) <> Err (EPast i).
Proof. exact C05_no_past. Qed.
Print Assumptions C05_partial_never_steps_in_the_past.

Theorem C05_partial_invariants_hold_on_every_run : forall st, static_ok st -> forall s, reached st s -> Good st s.
Proof. exact reached_good. Qed.
Print Assumptions C05_partial_invariants_hold_on_every_run.
