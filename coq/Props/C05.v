(* C05 - Completion: no deadlock and no internal scheduling error.
   Proved: (a) safety - the internal errors "cannot progress backwards" and "has already progressed" are unreachable
   from the initial state of every scenario with static_ok tables, for every behaviour and interleaving.
   (b) progress (deadlock-freedom) for flat scenarios and for scenarios whose simulators all sit in one group: whenever
   nothing is in flight and some simulator is not done, a START or BEGIN event (or, with groups, the loop guard's abort)
   is accepted (C05_progress_flat, C05_progress_one_group; the premises flat_certified / uniform_certified are decided
   per scenario by the extracted checker).
   (c) finitely many steps: in every run every simulator begins at most until * max_loop_iterations^(depth-1) steps
   (C05_finitely_many_steps).
   Not proved (C05_partial): progress for scenarios whose simulators sit in different groups; they are checked on the
   implementation by the quiescence test of the trace validation (deadlock detector) and on the model by "no enabled
   BEGIN at quiescence".  For non-convex group scenarios progress is false under lazy stepping (known finding F21). *)
From Coq Require Import ZArith List Bool Arith.
Import ListNotations.
From MV Require Import Time.Spec Sched.Timing Sched.Inv Sched.Init Sched.Wle Sched.Main Sched.Guards Sched.Final Sched.Live Sched.Progress Sched.Quiet Sched.NoLost Sched.Bound Static.Groups Static.Connect Static.Build Sched.Plane Sched.Link Sched.Certify Sched.GenView Gen.SchedulerFns Sched.SchedTie Sched.SetupTie.
Open Scope Z_scope.

Theorem C05_partial_never_progresses_backwards : forall st, static_ok st -> forall s e i,
  reached st s -> apply st s e <> Err (EBackwards i).
Proof. exact C05_no_backwards. Qed.
Print Assumptions C05_partial_never_progresses_backwards.

Theorem C05_partial_never_steps_in_the_past : forall st, static_ok st -> forall s i t m,
  reached st s -> apply st s (EvBegin i t m) <> Err (EPast i).
Proof. exact C05_no_past. Qed.
Print Assumptions C05_partial_never_steps_in_the_past.

Theorem C05_partial_invariants_hold_on_every_run : forall st, static_ok st -> forall s, reached st s -> Good st s.
Proof. exact reached_good. Qed.
Print Assumptions C05_partial_invariants_hold_on_every_run.

(* the premise static_ok is decidable per scenario: it holds for the static record that Sched.Link.prepare builds from
   the scenario whenever the extracted checker accepts the tables (the checks run it on every generated scenario) *)
Theorem C05_premise_certified : forall fuel sc st dt t anc,
  prepare fuel sc = Prepared st dt t anc -> check_static sc t anc = true -> static_ok st.
Proof. exact prepared_static_ok. Qed.
Print Assumptions C05_premise_certified.

(* non-vacuity: A (time-based) -> B (event-based, trigger input), one group level; prepare succeeds and the tables are certified *)
Example C05_nonvacuous :
  let f := mkF true true false true true 0 false false true in
  let sc := mkScen [None] (fun _ => 0%nat) (fun i => if Nat.eqb i 0 then TimeBased else EventBased) 2
                   [mkConn 0 1 2 1 f false 0] [] 5 100 true true in
  match prepare 100 sc with Prepared st dt t anc => check_static sc t anc | _ => false end = true.
Proof. vm_compute. reflexivity. Qed.

(* (b) deadlock-freedom, for every behaviour and interleaving: a reachable state in which nothing is in flight and some
   simulator is not done accepts a scheduler move.  Flat scenarios (no groups): a START or a BEGIN. *)
Theorem C05_progress_flat : forall st, static_ok st -> flat_certified st = true ->
  forall s, reached st s -> Quiet s -> (exists i, (i < nsims st)%nat /\ pc (s i) <> Done) ->
  exists e s', match e with EvStart i => (i < nsims st)%nat | EvBegin i _ _ => (i < nsims st)%nat | _ => False end /\
               apply st s e = Ok s'.
Proof. exact certified_flat_progress. Qed.
Print Assumptions C05_progress_flat.

(* Scenarios whose simulators all sit in the same group (any nesting depth, weak same-time loops included): a START, a
   BEGIN, or the loop guard's SimulationError (EvLoopFail) - never a silent hang *)
Theorem C05_progress_one_group : forall st, static_ok st -> uniform_certified st = true ->
  forall s, reached st s -> Quiet s -> (exists i, (i < nsims st)%nat /\ pc (s i) <> Done) ->
  exists e s', scheduler_move st e /\ apply st s e = Ok s'.
Proof. exact certified_uniform_progress. Qed.
Print Assumptions C05_progress_one_group.

(* non-vacuity: the scenario above is flat-certified, and after both simulators have been started the state is
   reachable and quiet, and A waits for its step at time 0 *)
Example C05_progress_nonvacuous :
  let f := mkF true true false true true 0 false false true in
  let sc := mkScen [None] (fun _ => 0%nat) (fun i => if Nat.eqb i 0 then TimeBased else EventBased) 2
                   [mkConn 0 1 2 1 f false 0] [] 5 100 true true in
  match prepare 100 sc with
  | Prepared st dt t anc =>
      flat_certified st = true /\
      exists s, reached st s /\ Quiet s /\ pc (s 0%nat) = WaitDeps [0] /\ (0 < nsims st)%nat
  | _ => False end.
Proof.
  vm_compute prepare. split; [vm_compute; reflexivity|].
  match goal with |- exists s, reached ?st s /\ _ => set (st0 := st) end.
  destruct (run st0 (init_state st0) [EvStart 0; EvStart 1]) as [l|] eqn:E; [|vm_compute in E; discriminate].
  exists (List.last l (init_state st0)). split; [exists [EvStart 0; EvStart 1], l; split; [exact E|reflexivity]|].
  vm_compute in E. injection E as <-. split; [|split; [vm_compute; reflexivity|vm_compute; apply le_S, le_n]].
  intros j. destruct j as [|[|j]]; vm_compute; reflexivity.
Qed.

(* non-vacuity of the one-group theorem: two hybrid simulators in one group, A -> B and a weak connection B -> A
   (a same-time loop); the tables are certified *)
Example C05_one_group_nonvacuous :
  let f := mkF true true false true false 0 false false true in
  let fw := mkF true true false true false 0 true false true in
  let sc := mkScen [None; Some 0%nat] (fun _ => 1%nat) (fun _ => Hybrid) 2
                   [mkConn 0 1 3 1 f false 0; mkConn 1 0 3 1 fw false 0] [] 5 100 true true in
  match prepare 100 sc with
  | Prepared st dt t anc => check_static sc t anc = true /\ uniform_certified st = true /\ depth st 0 = 2%nat
  | _ => False end.
Proof. vm_compute. auto. Qed.

(* (c) run() performs finitely many steps: every simulator begins at most until * max_loop_iterations^(depth-1) steps,
   whatever the simulators reply and however their answers interleave *)
Theorem C05_finitely_many_steps : forall sc t atab,
  check_static sc t atab = true -> check_static2 sc t = true -> check_bound t = true ->
  init_before_untilb (static_of sc t atab) = true ->
  let st := static_of sc t atab in
  forall evs l i, (i < nsims st)%nat -> run st (init_state st) evs = Ok l ->
  (length (begun i evs) <= Z.to_nat (until st) * Z.to_nat (maxloop st) ^ (depth st i - 1))%nat.
Proof. exact certified_bounded_steps. Qed.
Print Assumptions C05_finitely_many_steps.

Example C05_bound_nonvacuous :
  let f := mkF true true false true false 0 false false true in
  let fw := mkF true true false true false 0 true false true in
  let sc := mkScen [None; Some 0%nat] (fun _ => 1%nat) (fun _ => Hybrid) 2
                   [mkConn 0 1 3 1 f false 0; mkConn 1 0 3 1 fw false 0] [] 5 100 true true in
  match prepare 100 sc with
  | Prepared st dt t anc => check_static sc t anc && check_static2 sc t && check_bound t && init_before_untilb (static_of sc t anc) = true
  | _ => False end.
Proof. vm_compute. reflexivity. Qed.

(* tie to the source: the progress rule advance_progress as regenerated from mosaik/scheduler.py on every run
   (Gen/SchedulerFns.v) is the model's new_progress (outside real-time mode; from_world_time = 0 in every tier) *)
Theorem C05_generated_advance_progress_is_the_model : forall st s i, (1 <= depth st i)%nat ->
  advance_progress (view st s i) (nexts (s i)) (cur (s i)) None (until st) (mkI 1 1 (repeat 0 (depth st i))) = new_progress st s i.
Proof. exact tie_advance_progress. Qed.
Print Assumptions C05_generated_advance_progress_is_the_model.

(* ... and one round of the loop of next_step_settled, regenerated likewise, is the model's loop_eval: done when the progress
   has reached until, settled when the head of the queue equals the progress, otherwise asleep until the progress reaches
   the head of the queue - never beyond the end of the run (what the repair of F22 added) - or a newer step arrives *)
Theorem C05_generated_next_step_settled_is_the_model : forall st s i, (1 <= depth st i)%nat ->
  loop_eval st s i =
  let x := s i in
  match next_step_settled_round (prog x) (nexts x) (until st) (mkI 1 1 (repeat 0 (depth st i))) with
  | SettleDone => upd s i (mkSim Done (prog x) (nexts x) (cur x) (last x) (newer x))
  | Settled m => upd s i (mkSim (WaitDeps m) (prog x) (nexts x) (cur x) (last x) (newer x))
  | SettleWait aw => upd s i (mkSim (Sleep aw) (prog x) (nexts x) (cur x) (last x) false)
  end.
Proof. exact tie_next_step_settled. Qed.
Print Assumptions C05_generated_next_step_settled_is_the_model.

(* known finding F21 as a theorem about the model: for simulators in DIFFERENT groups the progress statement above is false when
   lazy stepping is on.  The witness is the scenario of corpus/findings/F21.json (Sched/F21.v: a weak same-time loop inside a group
   whose second iteration triggers a simulator outside the group): a reachable state in which nothing is in flight, a simulator is
   not done, and no START, BEGIN or loop-guard abort is accepted.  Replayed on the implementation, the same schedule deadlocks. *)
From MV Require Sched.F21.
Theorem C05_progress_across_groups_refuted :
  exists st s, lazy st = true /\ reached st s /\ Quiet s /\ (exists i, (i < nsims st)%nat /\ pc (s i) <> Done) /\
               forall e, scheduler_move st e -> exists er, apply st s e = Err er.
Proof. exact Sched.F21.progress_across_groups_with_lazy_stepping_refuted. Qed.
Print Assumptions C05_progress_across_groups_refuted.
