(* C05 - Completion: no deadlock and no internal scheduling error.
   Proved: (a) safety - the internal errors "cannot progress backwards" and "has already progressed" are unreachable
   from the initial state of every scenario with static_ok tables, for every behaviour and interleaving.
   Not proved here (C05_partial): (b) progress (some step is enabled whenever nothing is in flight and not all
   simulators are done) and (c) termination; they are checked on the implementation by the quiescence test of the
   trace validation (deadlock detector) and on the model by "no enabled BEGIN at quiescence". *)
From Coq Require Import ZArith List Bool Arith.
Import ListNotations.
From MV Require Import Time.Spec Sched.Timing Sched.Inv Sched.Init Sched.Wle Sched.Main Sched.Guards Sched.Final Static.Groups Static.Connect Static.Build Sched.Plane Sched.Link Sched.Certify.
Open Scope Z_scope.

Theorem C05_partial_never_progresses_backwards : forall st, static_ok st -> forall s e i,
  reached st s -> apply st s e <> Err (EBackwards i).
Proof. exact C05_no_backwards. Qed.
Print Assumptions C05_partial_never_progresses_backwards.

Theorem C05_partial_never_steps_in_the_past : forall st, static_ok st -> forall s i t m,
  reached st s -> apply st s (EvBegin i t m) <> Err (EPast i).
Proof. exact C05_no_past. Qed.
Print Assumptions C05_partial_never_steps_in_the_past.

Theorem C05_partial_invariants_hold_on_every_run : forall st, static_ok st -> forall s, reached st s -> Good st s.
Proof. exact reached_good. Qed.
Print Assumptions C05_partial_invariants_hold_on_every_run.

(* the premise static_ok is decidable per scenario: it holds for the static record that Sched.Link.prepare builds from
   the scenario whenever the extracted checker accepts the tables (the checks run it on every generated scenario) *)
Theorem C05_premise_certified : forall fuel sc st dt t anc,
  prepare fuel sc = Prepared st dt t anc -> check_static sc t anc = true -> static_ok st.
Proof. exact prepared_static_ok. Qed.
Print Assumptions C05_premise_certified.

(* non-vacuity: A (time-based) -> B (event-based, trigger input), one group level; prepare succeeds and the tables are certified *)
Example C05_nonvacuous :
  let f := mkF true true false true true 0 false false true in
  let sc := mkScen [None] (fun _ => 0%nat) (fun i => if Nat.eqb i 0 then TimeBased else EventBased) 2
                   [mkConn 0 1 2 1 f false 0] [] 5 100 true true in
  match prepare 100 sc with Prepared st dt t anc => check_static sc t anc | _ => false end = true.
Proof. vm_compute. reflexivity. Qed.
