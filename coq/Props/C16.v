(* C16 - Asynchronous requests (set_data / get_data). *)
From Coq Require Import ZArith List Bool Arith.
Import ListNotations.
From MV Require Import Time.Spec Static.Build Sched.Timing Sched.Plane Sched.DataP Sched.Inv Sched.Main Sched.Guards Sched.Final Sched.SetData Sched.GenView Gen.SchedulerFns Sched.SchedTie.
Open Scope Z_scope.

(* values written with set_data are handed to the next step of the target and the register is empty afterwards:
   each written value is delivered at most once *)
Theorem C16_set_data_consumed_by_next_step : forall dt ds i step inp ds',
  get_input_data dt ds i step = (inp, ds') -> setdata (ds' i) = [].
Proof. exact setdata_cleared. Qed.
Print Assumptions C16_set_data_consumed_by_next_step.

(* A (= i) with an async_requests connection to B (= j) does not begin a step at t while B still has an in-flight or
   scheduled step before t: every such step c of B satisfies act t d <= c - hence not while B's earlier step is unfinished *)
Theorem C16_no_step_ahead_of_agent : forall st, static_ok st -> forall s i t m s',
  reached st s -> apply st s (EvBegin i t m) = Ok s' ->
  forall j d c, In (j,d) (succ_wait st i) -> In c (cands (s j)) -> tle (act t d) c = true.
Proof. exact C16_async_bound. Qed.
Print Assumptions C16_no_step_ahead_of_agent.

(* set_data towards a simulator without an async_requests connection is refused, and changes nothing *)
Theorem C16_refused_without_connection : forall st dt s ds i w j a v,
  existsb (fun jd : nat * interval => Nat.eqb (fst jd) i) (succ_wait st j) = false ->
  dapply st dt (s, ds) (DSetData i w j a v) = DAsyncRefused i j.
Proof. intros. simpl. rewrite H. reflexivity. Qed.
Print Assumptions C16_refused_without_connection.

(* exactly once, in the next step: a written value stays in the target's register across every event that is neither the
   target's own BEGIN nor another set_data call to the target ... *)
Theorem C16_set_data_stays_until_next_step : forall st dt s ds e s' ds' inp j,
  dapply st dt (s, ds) e = DOk s' ds' inp ->
  (forall t m, e <> DBegin j t m) -> (forall i w a v, e <> DSetData i w j a v) ->
  setdata (ds' j) = setdata (ds j).
Proof. exact set_data_kept. Qed.
Print Assumptions C16_set_data_stays_until_next_step.

(* ... and the target's next step receives it under the writer's key (unless a connection of the scenario delivers to the
   very same (attribute, source) slot in that step); afterwards the register is empty (first theorem above) *)
Theorem C16_set_data_delivered_to_next_step : forall dt ds j step inp ds' a k v,
  get_input_data dt ds j step = (inp, ds') -> iget a k (setdata (ds j)) = Some v ->
  (forall e, In e (buffer (ds j)) -> btime e <= step -> (battr e, bsrc e) <> (a, k)) ->
  (forall src sh flows sa da, In ((src, sh), flows) (pulled dt j) -> In (sa, da) flows -> (da, src) <> (a, k)) ->
  iget a k inp = Some v.
Proof. exact set_data_delivered. Qed.
Print Assumptions C16_set_data_delivered_to_next_step.

(* what a set_data call writes is what the register holds under (attribute, writer key) *)
Theorem C16_set_data_writes_register : forall a k v a' k' d,
  iget a' k' (iset a k v d) = if Nat.eqb a' a && Nat.eqb k' k then Some v else iget a' k' d.
Proof. exact iget_iset. Qed.
Print Assumptions C16_set_data_writes_register.

(* the ordering clause over the rest of the run: once A has begun its step at t, its agent B never again has an outstanding
   step before act t d - so A does not go beyond t while a step of B at or before t is pending, at any later point *)
From MV Require Import Sched.Later.
Theorem C16_agent_bound_persists : forall st, static_ok st -> forall s i t m s',
  reached st s -> apply st s (EvBegin i t m) = Ok s' ->
  forall evs l, run st s' evs = Ok l -> forall sr, In sr (s' :: l) ->
  forall j d c, In (j,d) (succ_wait st i) -> In c (cands (sr j)) -> tle (act t d) c = true.
Proof. exact async_bound_over_runs. Qed.
Print Assumptions C16_agent_bound_persists.

(* tie to the source: the awaited conditions of wait_for_dependencies as regenerated from mosaik/scheduler.py (the second group,
   over successors_to_wait_for, is the guard that keeps a plant behind the agents that may write to it) hold exactly when the
   model's guard deps_ok holds *)
Theorem C16_generated_guard_is_the_model : forall st s i t,
  wait_for_dependencies_ready (pview s (indel st i)) (pview s (succ_wait st i)) (pview s (succ_lazy st i)) (lazy st) t = deps_ok st s i t.
Proof. exact tie_wait_for_dependencies. Qed.
Print Assumptions C16_generated_guard_is_the_model.

(* tie to the source: MosaikRemote.set_data and _assert_async_requests, regenerated from mosaik/simmanager.py on every run
   (Gen/InputData.v), are the data plane's DSetData event: the value lands in the destination's set_data inputs under the
   writer's key, and the write is refused unless the caller is an async-requests successor of the destination *)
From MV Require Gen.InputData Sched.DataTie.
Theorem C16_generated_set_data_is_the_model : forall st dt s ds i w j a v successors,
  (forall x, In x (map fst (succ_wait st j)) -> In x successors) ->
  dapply st dt (s, ds) (DSetData i w j a v) =
  match Gen.InputData.set_data_write successors (map fst (succ_wait st j)) (setdata (ds j)) i (w * nsims st + i)%nat a v with
  | Some sd' => let x := ds j in DOk s (dupd ds j (mkD (outputs x) (buffer x) (bcount x) (persist x) sd')) None
  | None => DAsyncRefused i j
  end.
Proof. exact Sched.DataTie.tie_set_data. Qed.
Print Assumptions C16_generated_set_data_is_the_model.
