(* C16 - Asynchronous requests (set_data / get_data). *)
From Coq Require Import ZArith List Bool Arith.
Import ListNotations.
From MV Require Import Time.Spec Static.Build Sched.Timing Sched.Plane Sched.DataP Sched.Inv Sched.Main Sched.Guards Sched.Final.
Open Scope Z_scope.

(* values written with set_data are handed to the next step of the target and the register is empty afterwards:
   each written value is delivered at most once *)
Theorem C16_set_data_consumed_by_next_step : forall dt ds i step inp ds',
  get_input_data dt ds i step = (inp, ds') -> setdata (ds' i) = [].
Proof. exact setdata_cleared. Qed.
Print Assumptions C16_set_data_consumed_by_next_step.

(* A (= i) with an async_requests connection to B (= j) does not begin a step at t while B still has an in-flight or
   scheduled step before t: every such step c of B satisfies act t d <= c - hence not while B's earlier step is unfinished *)
Theorem C16_no_step_ahead_of_agent : forall st, static_ok st -> forall s i t m s',
  reached st s -> apply st s (EvBegin i t m) = Ok s' ->
  forall j d c, In (j,d) (succ_wait st i) -> In c (cands (s j)) -> tle (act t d) c = true.
Proof. exact C16_async_bound. Qed.
Print Assumptions C16_no_step_ahead_of_agent.

(* set_data towards a simulator without an async_requests connection is refused, and changes nothing *)
Theorem C16_refused_without_connection : forall st dt s ds i w j a v,
  existsb (fun jd : nat * interval => Nat.eqb (fst jd) i) (succ_wait st j) = false ->
  dapply st dt (s, ds) (DSetData i w j a v) = DAsyncRefused i j.
Proof. intros. simpl. rewrite H. reflexivity. Qed.
Print Assumptions C16_refused_without_connection.
