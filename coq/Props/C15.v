(* C15 - API version adaptation.  Model: Ext/Adapters.v.  Tie: correspondence with stub simulators over a version grid
   x explicit api_version x compliance x local/remote (harness/props/c15.py). *)
From Coq Require Import List Bool Arith.
Import ListNotations.
From MV Require Import Ext.Adapters Ext.AdaptersP Ext.GenAdapt Gen.AdaptFns Ext.AdaptTie.

Theorem C15_accepted_iff : forall s, version s <> [] -> (forall e, explicit s = Some e -> e <> []) ->
  (exists a b c, start s = Started a b c) <->
  (major (version s) < 4 /\ (forall e, explicit s = Some e -> e = version s) /\
   ~ (inproc s = true /\ compliant s = false /\ 3 <= major (version s))).
Proof. exact start_accepts_iff. Qed.
Print Assumptions C15_accepted_iff.

(* time_resolution is passed iff remote or compliant; setup_done is suppressed iff version < 2.2 (in major.minor terms,
   whatever the patch level); max_advance is cut off iff major < 3 *)
Theorem C15_adapters_by_version : forall s a b c, version s <> [] -> start s = Started a b c ->
  a = (negb (inproc s) || compliant s) /\
  b = (Nat.ltb (major (version s)) 2 || (Nat.eqb (major (version s)) 2 && Nat.ltb (minor (version s)) 2)) /\
  c = Nat.ltb (major (version s)) 3.
Proof. exact started_adapters. Qed.
Print Assumptions C15_adapters_by_version.

Theorem C15_step_arguments : forall b c n, deliver b c (RStep n) = Some (RStep (if c then Nat.min n 2 else n)).
Proof. exact deliver_step. Qed.
Print Assumptions C15_step_arguments.
Theorem C15_setup_done : forall b c, deliver b c RSetupDone = if b then None else Some RSetupDone.
Proof. exact deliver_setup_done. Qed.
Print Assumptions C15_setup_done.
Theorem C15_other_requests_unchanged : forall b c k, deliver b c (ROther k) = Some (ROther k).
Proof. exact deliver_other. Qed.
Print Assumptions C15_other_requests_unchanged.

(* tie to the source: LocalProxy.init, init_and_get_adapter, the two adapters' send and the V3ToV2 meta property as regenerated
   from mosaik/proxies.py and mosaik/adapters.py on every run are the model the theorems above are about *)
Theorem C15_generated_start_is_the_model : forall s, gen_start_of s = start s.
Proof. exact tie_start. Qed.
Print Assumptions C15_generated_start_is_the_model.
Theorem C15_generated_adapter_stack_delivers_like_the_model : forall v e st r, init_and_get_adapter (Some v) e = GProxy st ->
  send_through v3_send v2_send st r = deliver (vlt v [2; 2]) (vlt v [3]) r.
Proof. exact tie_deliver. Qed.
Print Assumptions C15_generated_adapter_stack_delivers_like_the_model.
Theorem C15_generated_meta_type_is_the_model : forall v e st g, init_and_get_adapter (Some v) e = GProxy st ->
  (if existsb is_v3 st then v3_meta_type g else g) = meta_type (vlt v [3]) g.
Proof. exact tie_meta_type. Qed.
Print Assumptions C15_generated_meta_type_is_the_model.

Example C15_nonvacuous : start (mkStart [2; 1; 3] None true true) = Started true true true /\
                         start (mkStart [3; 0] (Some [3; 0]) true false) = RejectedNotCompliant.
Proof. vm_compute. split; reflexivity. Qed.

(* the property theorems, stated of the regenerated source itself: *)
Theorem C15_generated_accepted_iff : forall s, version s <> [] -> (forall e, explicit s = Some e -> e <> []) ->
  (exists a b c, gen_start_of s = Started a b c) <->
  (major (version s) < 4 /\ (forall e, explicit s = Some e -> e = version s) /\
   ~ (inproc s = true /\ compliant s = false /\ 3 <= major (version s))).
Proof. exact generated_accepted_iff. Qed.
Print Assumptions C15_generated_accepted_iff.
Theorem C15_generated_requests_through_the_adapters : forall v e st, init_and_get_adapter (Some v) e = GProxy st ->
  (forall n, send_through v3_send v2_send st (RStep n) = Some (RStep (if vlt v [3] then Nat.min n 2 else n))) /\
  send_through v3_send v2_send st RSetupDone = (if vlt v [2; 2] then None else Some RSetupDone) /\
  (forall k, send_through v3_send v2_send st (ROther k) = Some (ROther k)).
Proof. exact generated_requests_through_the_adapters. Qed.
Print Assumptions C15_generated_requests_through_the_adapters.
