(* C10 - Lazy stepping bounds run-ahead. *)
From Coq Require Import ZArith List Bool Arith.
Import ListNotations.
From MV Require Import Time.Spec Sched.Timing Sched.Inv Sched.Init Sched.Wle Sched.Main Sched.Guards Sched.Final.
Open Scope Z_scope.

(* with lazy_stepping, when i begins a step at t, no simulator j it feeds has a scheduled or in-flight step earlier
   than t (adapted to j's group): every such step c satisfies act t d <= c *)
Theorem C10_lazy_run_ahead_bound : forall st, static_ok st -> forall s i t m s',
  reached st s -> lazy st = true -> apply st s (EvBegin i t m) = Ok s' ->
  forall j d c, In (j,d) (succ_lazy st i) -> In c (cands (s j)) -> tle (act t d) c = true.
Proof. exact C10_lazy_bound. Qed.
Print Assumptions C10_lazy_run_ahead_bound.
