(* C10 - Lazy stepping bounds run-ahead. *)
From Coq Require Import ZArith List Bool Arith.
Import ListNotations.
From MV Require Import Time.Spec Sched.Timing Sched.Inv Sched.Init Sched.Wle Sched.Main Sched.Guards Sched.Final Sched.Later Sched.GenView Gen.SchedulerFns Sched.SchedTie.
Open Scope Z_scope.

(* with lazy_stepping, when i begins a step at t, no simulator j it feeds has a scheduled or in-flight step earlier
   than t (adapted to j's group): every such step c satisfies act t d <= c *)
Theorem C10_lazy_run_ahead_bound : forall st, static_ok st -> forall s i t m s',
  reached st s -> lazy st = true -> apply st s (EvBegin i t m) = Ok s' ->
  forall j d c, In (j,d) (succ_lazy st i) -> In c (cands (s j)) -> tle (act t d) c = true.
Proof. exact C10_lazy_bound. Qed.
Print Assumptions C10_lazy_run_ahead_bound.

(* ... and it stays so for the rest of the run: once i has begun its step at t, a consumer j never again has an outstanding
   step before act t d (j's progress had reached act t d, progress never goes back, every outstanding step lies at or
   after its simulator's progress) - "producers never run more than one step ahead of their direct consumers" *)
Theorem C10_run_ahead_bound_persists : forall st, static_ok st -> forall s i t m s',
  lazy st = true -> reached st s -> apply st s (EvBegin i t m) = Ok s' ->
  forall evs l, run st s' evs = Ok l -> forall sr, In sr (s' :: l) ->
  forall j d c, In (j,d) (succ_lazy st i) -> In c (cands (sr j)) -> tle (act t d) c = true.
Proof. exact lazy_bound_over_runs. Qed.
Print Assumptions C10_run_ahead_bound_persists.

(* tie to the source: the awaited conditions of wait_for_dependencies as regenerated from mosaik/scheduler.py (the third group,
   under `if lazy_stepping`, is the lazy-stepping guard) hold exactly when the model's guard deps_ok holds *)
Theorem C10_generated_guard_is_the_model : forall st s i t,
  wait_for_dependencies_ready (pview s (indel st i)) (pview s (succ_wait st i)) (pview s (succ_lazy st i)) (lazy st) t = deps_ok st s i t.
Proof. exact tie_wait_for_dependencies. Qed.
Print Assumptions C10_generated_guard_is_the_model.
