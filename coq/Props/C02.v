(* C02 - Exact step set.  Full statement: the boolean predicate P_C02 of harness/monitors.py (demanded = executed,
   exactly once, strictly increasing, inside [0, until)), evaluated on every recorded trace.
   Proved here (C02_partial): the step begun is the simulator's progress and its earliest queued step, nothing queued
   or in flight lies in a simulator's past, progress never moves backwards, and the "already progressed" error is
   unreachable.  Missing for the full statement: (i) strict increase across the whole run (needs the strict variant of
   the lower-bound invariant relative to last_step), (ii) "every demanded time is executed" (needs C05 progress). *)
From Coq Require Import ZArith List Bool Arith.
Import ListNotations.
From MV Require Import Time.Spec Sched.Timing Sched.Inv Sched.Init Sched.Wle Sched.Main Sched.Guards Sched.Final.
Open Scope Z_scope.

Theorem C02_partial_begin_is_progress : forall st, static_ok st -> forall s i t m s',
  reached st s -> apply st s (EvBegin i t m) = Ok s' ->
  t = prog (s i) /\ tmin (nexts (s i)) = Some t /\ (forall c, In c (cands (s i)) -> tle t c = true).
Proof. exact C02_begin_is_progress. Qed.
Print Assumptions C02_partial_begin_is_progress.

Theorem C02_partial_no_step_in_the_past : forall st, static_ok st -> forall s j c,
  reached st s -> In c (cands (s j)) -> tle (prog (s j)) c = true.
Proof. exact C02_no_step_in_the_past. Qed.
Print Assumptions C02_partial_no_step_in_the_past.

Theorem C02_partial_progress_monotone : forall st, static_ok st -> forall evs s l,
  Inv' st s -> WaitIn s -> run st s evs = Ok l -> forall s', In s' l -> prog_le s s'.
Proof. exact progress_monotone. Qed.
Print Assumptions C02_partial_progress_monotone.

Theorem C02_partial_never_already_progressed : forall st, static_ok st -> forall s i t m,
  reached st s -> apply st s (EvBegin i t m) <> Err (EPast i).
Proof. exact C05_no_past. Qed.
Print Assumptions C02_partial_never_already_progressed.
