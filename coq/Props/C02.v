(* C02 - Exact step set.  Full statement: the boolean predicate P_C02 of harness/monitors.py (demanded = executed,
   exactly once, strictly increasing, inside [0, until)), evaluated on every recorded trace.
   Proved here: C02_strictly_increasing - the steps of every simulator are begun in strictly increasing (tuple) order over
   the whole run, hence no time is executed twice (invariants Nx/Kx/ND of Sched/Strict.v, established by the input guard);
   the step begun is the simulator's progress and its earliest queued step; nothing queued or in flight lies in a
   simulator's past; progress never moves backwards; the "already progressed" error is unreachable.
   Missing for the full statement (C02_partial): "every demanded time is executed" and "only demanded times are executed"
   (the provenance of queue entries is not in the model); both are part of P_C02 on the implementation traces. *)
From Coq Require Import ZArith List Bool Arith.
Import ListNotations.
From MV Require Import Time.Spec Sched.Timing Sched.Inv Sched.Init Sched.Wle Sched.Main Sched.Guards Sched.Strict Sched.Final Static.Groups Static.Connect Static.Build Sched.Plane Sched.Link Sched.Certify.
Open Scope Z_scope.

Theorem C02_partial_begin_is_progress : forall st, static_ok st -> forall s i t m s',
  reached st s -> apply st s (EvBegin i t m) = Ok s' ->
  t = prog (s i) /\ tmin (nexts (s i)) = Some t /\ (forall c, In c (cands (s i)) -> tle t c = true).
Proof. exact C02_begin_is_progress. Qed.
Print Assumptions C02_partial_begin_is_progress.

Theorem C02_partial_no_step_in_the_past : forall st, static_ok st -> forall s j c,
  reached st s -> In c (cands (s j)) -> tle (prog (s j)) c = true.
Proof. exact C02_no_step_in_the_past. Qed.
Print Assumptions C02_partial_no_step_in_the_past.

Theorem C02_partial_progress_monotone : forall st, static_ok st -> forall evs s l,
  Inv' st s -> WaitIn s -> run st s evs = Ok l -> forall s', In s' l -> prog_le s s'.
Proof. exact progress_monotone. Qed.
Print Assumptions C02_partial_progress_monotone.

Theorem C02_partial_never_already_progressed : forall st, static_ok st -> forall s i t m,
  reached st s -> apply st s (EvBegin i t m) <> Err (EPast i).
Proof. exact C05_no_past. Qed.
Print Assumptions C02_partial_never_already_progressed.

Theorem C02_strictly_increasing : forall st, static_ok st -> static_ok2 st ->
  forall evs l p q j t m u m', run st (init_state st) evs = Ok l ->
  (p < q)%nat -> nth_error evs p = Some (EvBegin j t m) -> nth_error evs q = Some (EvBegin j u m') -> tlt t u = true.
Proof. exact certified_strictly_increasing. Qed.
Print Assumptions C02_strictly_increasing.

(* both premises are decidable per scenario and checked on every generated scenario *)
Theorem C02_premises_certified : forall fuel sc st dt t anc,
  prepare fuel sc = Prepared st dt t anc -> check_static sc t anc = true -> check_static2 sc t = true ->
  static_ok st /\ static_ok2 st.
Proof.
  intros fuel sc st dt t anc H C1 C2. split; [eapply prepared_static_ok; eauto|].
  unfold prepare in H. destruct (build (sc_gt sc) (sc_group sc) (sc_conns sc)) as [t0| |]; try discriminate.
  destruct (ancestors fuel t0) as [[a0|]|]; try discriminate. injection H as <- _ <- <-. apply check_static2_sound. exact C2.
Qed.
Print Assumptions C02_premises_certified.
