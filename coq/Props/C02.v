(* C02 - Exact step set.  Full statement: the boolean predicate P_C02 of harness/monitors.py (demanded = executed,
   exactly once, strictly increasing, inside [0, until)), evaluated on every recorded trace.
   Proved here, for every scenario with certified tables, every behaviour and interleaving:
   - C02_strictly_increasing: the steps of every simulator are begun in strictly increasing (tuple) order over the whole
     run, hence no time is executed twice (invariants Nx/Kx/ND of Sched/Strict.v, established by the input guard);
   - C02_only_demanded_steps: every step that is begun was an initial step or was demanded by an earlier event of the run
     (a next-step time the simulator returned, or an output delivered to one of its trigger inputs), before until;
   - C02_demanded_is_queued: a demanded step is in the simulator's queue right after the demanding event;
   - C02_queued_steps_are_executed: in a run that completes (every simulator done), every step that is queued at any
     point is begun by a later event; C02_done_means_queue_empty;
   - the step begun is the simulator's progress and its earliest queued step; nothing queued or in flight lies in a
     simulator's past; progress never moves backwards; the "already progressed" error is unreachable.
   Missing for the full statement (C02_partial): that the run completes (termination - see C05); it is checked on
   every implementation trace together with P_C02. *)
From Coq Require Import ZArith List Bool Arith.
Import ListNotations.
From MV Require Import Time.Spec Sched.Timing Sched.Inv Sched.Init Sched.Wle Sched.Main Sched.Guards Sched.Strict Sched.Final Sched.Live Sched.Progress Sched.Quiet Sched.NoLost Static.Groups Static.Connect Static.Build Sched.Plane Sched.Link Sched.Certify Sched.GenView Gen.SchedulerFns Sched.SchedTie Sched.SetupTie.
Open Scope Z_scope.

Theorem C02_partial_begin_is_progress : forall st, static_ok st -> forall s i t m s',
  reached st s -> apply st s (EvBegin i t m) = Ok s' ->
  t = prog (s i) /\ tmin (nexts (s i)) = Some t /\ (forall c, In c (cands (s i)) -> tle t c = true).
Proof. exact C02_begin_is_progress. Qed.
Print Assumptions C02_partial_begin_is_progress.

Theorem C02_partial_no_step_in_the_past : forall st, static_ok st -> forall s j c,
  reached st s -> In c (cands (s j)) -> tle (prog (s j)) c = true.
Proof. exact C02_no_step_in_the_past. Qed.
Print Assumptions C02_partial_no_step_in_the_past.

Theorem C02_partial_progress_monotone : forall st, static_ok st -> forall evs s l,
  Inv' st s -> WaitIn s -> run st s evs = Ok l -> forall s', In s' l -> prog_le s s'.
Proof. exact progress_monotone. Qed.
Print Assumptions C02_partial_progress_monotone.

Theorem C02_partial_never_already_progressed : forall st, static_ok st -> forall s i t m,
  reached st s -> apply st s (EvBegin i t m) <> Err (EPast i).
Proof. exact C05_no_past. Qed.
Print Assumptions C02_partial_never_already_progressed.

Theorem C02_strictly_increasing : forall st, static_ok st -> static_ok2 st ->
  forall evs l p q j t m u m', run st (init_state st) evs = Ok l ->
  (p < q)%nat -> nth_error evs p = Some (EvBegin j t m) -> nth_error evs q = Some (EvBegin j u m') -> tlt t u = true.
Proof. exact certified_strictly_increasing. Qed.
Print Assumptions C02_strictly_increasing.

(* both premises are decidable per scenario and checked on every generated scenario *)
Theorem C02_premises_certified : forall fuel sc st dt t anc,
  prepare fuel sc = Prepared st dt t anc -> check_static sc t anc = true -> check_static2 sc t = true ->
  static_ok st /\ static_ok2 st.
Proof.
  intros fuel sc st dt t anc H C1 C2. split; [eapply prepared_static_ok; eauto|].
  unfold prepare in H. destruct (build (sc_gt sc) (sc_group sc) (sc_conns sc)) as [t0| |]; try discriminate.
  destruct (ancestors fuel t0) as [[a0|]|]; try discriminate. injection H as <- _ <- <-. apply check_static2_sound. exact C2.
Qed.
Print Assumptions C02_premises_certified.

(* ---- demanded = executed ---- *)
Theorem C02_only_demanded_steps : forall st evs l i c m s',
  run st (init_state st) evs = Ok l ->
  apply st (List.last l (init_state st)) (EvBegin i c m) = Ok s' ->
  In c (init_nexts st i) \/
  exists p e sp, nth_error evs p = Some e /\ nth_error (init_state st :: l) p = Some sp /\ demanded st sp e i c.
Proof. exact only_demanded_steps. Qed.
Print Assumptions C02_only_demanded_steps.

Theorem C02_demanded_is_queued : forall st s e s' i c, apply st s e = Ok s' -> demanded st s e i c -> In c (nexts (s' i)).
Proof. exact demanded_is_queued. Qed.
Print Assumptions C02_demanded_is_queued.

Theorem C02_queued_steps_are_executed : forall st, static_ok st -> init_before_until st ->
  forall evs1 evs2 l1 l2, run st (init_state st) evs1 = Ok l1 ->
  let s := List.last l1 (init_state st) in
  run st s evs2 = Ok l2 ->
  (forall i, (i < nsims st)%nat -> pc (List.last l2 s i) = Done) ->
  forall i c, (i < nsims st)%nat -> In c (nexts (s i)) -> exists p m, nth_error evs2 p = Some (EvBegin i c m).
Proof. exact no_lost_step. Qed.
Print Assumptions C02_queued_steps_are_executed.

Theorem C02_done_means_queue_empty : forall st, static_ok st -> init_before_until st ->
  forall s i, reached st s -> (i < nsims st)%nat -> pc (s i) = Done -> nexts (s i) = [].
Proof. exact done_queue_empty. Qed.
Print Assumptions C02_done_means_queue_empty.

(* tie to the source: SimRunner.schedule_step (mosaik/simmanager.py), checked statement by statement and re-emitted on every run
   (Gen/SchedulerFns.v), is the model's schedule: a time that is already queued is not queued again, otherwise it joins the
   queue and the newer_step flag is raised iff it is earlier than everything queued *)
Theorem C02_generated_schedule_step_is_the_model : forall s i t,
  schedule s i t =
  let x := s i in let r := schedule_step (nexts x) (newer x) t in
  if memT t (nexts x) then s else upd s i (mkSim (pc x) (prog x) (fst r) (cur x) (last x) (snd r)).
Proof. exact tie_schedule_step. Qed.
Print Assumptions C02_generated_schedule_step_is_the_model.

(* tie to the source: the queue a simulator starts the run with.  SimRunner.__init__ (one step at time zero unless the
   simulator is event-based) and World.set_initial_event (the queue is REPLACED by the one event, at the world time of the
   simulator's depth), regenerated on every run, give the model's initial_nexts: of several calls naming one simulator the
   last decides, and a repeated time is one step *)
Theorem C02_generated_initial_queue_is_the_model : forall sc i, (1 <= sim_depth sc i)%nat ->
  initial_nexts sc i =
  fold_left (fun q (e : nat * Z) => if Nat.eqb (fst e) i
                                     then set_initial_event (runner_from_world_time (sim_depth sc i)) q (snd e) else q)
            (sc_init sc)
            (runner_next_steps (match sc_type sc i with EventBased => true | _ => false end) (sim_depth sc i)).
Proof. exact tie_initial_nexts. Qed.
Print Assumptions C02_generated_initial_queue_is_the_model.
Theorem C02_generated_initial_state_is_the_model : forall st i,
  init_state st i = mkSim NotStarted (runner_progress (depth st i)) (init_nexts st i) None (runner_last_step (depth st i)) false.
Proof. exact tie_initial_state. Qed.
Print Assumptions C02_generated_initial_state_is_the_model.
(* scheduler.notify_dependencies, regenerated loop by loop, is the scheduling part of the model's finish_step: for every
   trigger port present in the reply and every simulator it triggers, the step output_time + delay is queued (through
   schedule_step) iff it lies before until.  The ports the model's event carries are the keys of sim.triggers, in the dict's
   order, that are present in the reply. *)
Theorem C02_generated_notify_dependencies_is_the_model : forall st i ot produced ports_all s,
  notify_dependencies (until st) (map (fun p => (p, trig st i p)) ports_all) produced ot s =
  fold_left (fun s p => fold_left (fun s (dd : nat * interval) => let (dest, d) := dd in
                 let tt := act ot d in
                 if until st <=? thd tt then s else schedule s dest tt) (trig st i p) s)
            (filter (fun p => existsb (Nat.eqb p) produced) ports_all) s.
Proof. exact tie_notify_dependencies. Qed.
Print Assumptions C02_generated_notify_dependencies_is_the_model.
