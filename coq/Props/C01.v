(* C01 - Causal input readiness (conservative synchronisation).
   Model: Sched/Timing.v (one event per atomic block of sim_process); tie: trace validation against the real
   scheduler (every observed BEGIN must be allowed by the model's input guard), static tables built by the model
   itself (Static/Build.v, Sched/Link.v) and compared with the implementation's.
   Quantification: every static table satisfying [static_ok], every event list (= every behaviour and every
   interleaving), any number of simulators, tiers, steps. *)
From Coq Require Import ZArith List Bool Arith.
Import ListNotations.
From MV Require Import Time.Spec Sched.Timing Sched.Inv Sched.Init Sched.Wle Sched.Main Sched.Guards Sched.Final Static.Groups Static.Connect Static.Build Sched.Plane Sched.Link Sched.Certify Sched.Later Sched.GenView Gen.SchedulerFns Sched.SchedTie.

(* once a consumer j has begun a step at t, no simulator k feeding it (over a connection with delay d, the
   minimum over all connections k -> j) is ever stepped at a time u whose delayed output time is at or before t *)
Theorem C01_no_later_provider_step : forall st, static_ok st ->
  forall evs l p q j t m k u m' d,
  run st (init_state st) evs = Ok l -> (p < q)%nat ->
  nth_error evs p = Some (EvBegin j t m) -> nth_error evs q = Some (EvBegin k u m') ->
  In (k,d) (indel st j) -> tlt t (act u d) = true.
Proof. exact C01_from_init. Qed.
Print Assumptions C01_no_later_provider_step.

(* when j begins at t, no step of a provider that is in flight (cur) or still queued is due at or before t:
   every step whose delayed output is due at or before t has finished, step and output retrieval *)
Theorem C01_due_steps_have_finished : forall st, static_ok st ->
  forall evs l s s' j t m,
  run st (init_state st) evs = Ok l -> s = List.last l (init_state st) ->
  apply st s (EvBegin j t m) = Ok s' ->
  forall k d c, In (k,d) (indel st j) -> In c (cands (s k)) -> tlt t (act c d) = true.
Proof. exact C01_nothing_due_in_flight. Qed.
Print Assumptions C01_due_steps_have_finished.

(* the wait condition, for the step that is begun: every provider's progress, shifted by the delay, has passed t *)
Theorem C01_input_guard_holds : forall st, static_ok st -> forall s i t m s',
  reached st s -> apply st s (EvBegin i t m) = Ok s' ->
  forall k d, In (k,d) (indel st i) -> tlt t (act (prog (s k)) d) = true.
Proof. exact C01_input_guard. Qed.
Print Assumptions C01_input_guard_holds.

(* the premise static_ok is decidable per scenario: it holds for the static record that Sched.Link.prepare builds from
   the scenario whenever the extracted checker accepts the tables (the checks run it on every generated scenario) *)
Theorem C01_premise_certified : forall fuel sc st dt t anc,
  prepare fuel sc = Prepared st dt t anc -> check_static sc t anc = true -> static_ok st.
Proof. exact prepared_static_ok. Qed.
Print Assumptions C01_premise_certified.

(* non-vacuity: A (time-based) -> B (event-based, trigger input), one group level; prepare succeeds and the tables are certified *)
Example C01_nonvacuous :
  let f := mkF true true false true true 0 false false true in
  let sc := mkScen [None] (fun _ => 0%nat) (fun i => if Nat.eqb i 0 then TimeBased else EventBased) 2
                   [mkConn 0 1 2 1 f false 0] [] 5 100 true true in
  match prepare 100 sc with Prepared st dt t anc => check_static sc t anc | _ => false end = true.
Proof. vm_compute. reflexivity. Qed.

(* state form of the first clause, for every continuation of the run after BEGIN(j,t): every queued or in-flight step of
   every provider, in every later state, is due after t *)
Theorem C01_later_provider_steps_are_later : forall st, static_ok st -> forall s j t m s',
  reached st s -> apply st s (EvBegin j t m) = Ok s' ->
  forall evs l, run st s' evs = Ok l -> forall sr, In sr (s' :: l) ->
  forall k d c, In (k, d) (indel st j) -> In c (cands (sr k)) -> tlt t (act c d) = true.
Proof. exact later_candidates_are_later. Qed.
Print Assumptions C01_later_provider_steps_are_later.

(* tie to the source: the progress against which the guard is evaluated is computed by advance_progress; the function as
   regenerated from mosaik/scheduler.py on every run (Gen/SchedulerFns.v) is the model's new_progress *)
Theorem C01_generated_advance_progress_is_the_model : forall st s i, (1 <= depth st i)%nat ->
  advance_progress (view st s i) (nexts (s i)) (cur (s i)) None (until st) (mkI 1 1 (repeat 0 (depth st i))) = new_progress st s i.
Proof. exact tie_advance_progress. Qed.
Print Assumptions C01_generated_advance_progress_is_the_model.

(* tie to the source: the conditions wait_for_dependencies awaits (regenerated from mosaik/scheduler.py together with
   Progress._triggered_time from mosaik/progress.py, Gen/SchedulerFns.v) are all fulfilled exactly when the model's guard
   deps_ok holds; its first group - has_passed(next_step, shift=delay) for every entry of input_delays - is the input guard *)
Theorem C01_generated_guard_is_the_model : forall st s i t,
  wait_for_dependencies_ready (pview s (indel st i)) (pview s (succ_wait st i)) (pview s (succ_lazy st i)) (lazy st) t = deps_ok st s i t.
Proof. exact tie_wait_for_dependencies. Qed.
Print Assumptions C01_generated_guard_is_the_model.

(* tie to the source: the tiered arithmetic the guard and the tables are stated in - the order on times (`<` of TieredTime),
   the action of a delay on a time (TieredTime + TieredInterval), the order on delays (`<` of TieredInterval, by which
   input_delays keeps the smaller of two delays of a pair) and update_min - are the functions regenerated from
   mosaik/tiered_time.py and mosaik/scenario.py on every run (Gen/TieredTime.v, Gen/UpdateMin.v) *)
From MV Require Prelude.Py Gen.TieredTime Gen.UpdateMin Time.Tie.
Theorem C01_generated_tiered_arithmetic_is_the_model :
  (forall a b, MV.Gen.TieredTime.TieredTime___lt__ (MV.Gen.TieredTime.mk_TieredTime a) (MV.Gen.TieredTime.mk_TieredTime b) =
               if (MV.Prelude.Py.py_len a =? MV.Prelude.Py.py_len b)%Z then MV.Prelude.Py.Ok (tlt a b) else MV.Prelude.Py.AssertFail) /\
  (forall t g, MV.Time.Tie.gwf g ->
               MV.Gen.TieredTime.TieredTime___add__ (MV.Gen.TieredTime.mk_TieredTime t) g =
               if (MV.Prelude.Py.py_len t =? MV.Gen.TieredTime.TieredInterval_pre_length g)%Z
               then MV.Prelude.Py.Ok (MV.Gen.TieredTime.mk_TieredTime (act t (MV.Time.Tie.to_spec g))) else MV.Prelude.Py.AssertFail) /\
  (forall a b, MV.Time.Tie.gwf a -> MV.Time.Tie.gwf b ->
               MV.Gen.TieredTime.TieredInterval___lt__ a b = MV.Time.Tie.optres (ilt (MV.Time.Tie.to_spec a) (MV.Time.Tie.to_spec b))).
Proof. split; [exact MV.Time.Tie.tie_tlt|]. split; [exact MV.Time.Tie.tie_act|exact MV.Time.Tie.tie_lt]. Qed.
Print Assumptions C01_generated_tiered_arithmetic_is_the_model.
