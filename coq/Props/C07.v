(* C07 - max_advance is a sound promise.
   Proved: m <= until always; m = until for a simulator without triggering ancestors and nothing else queued; and the
   main clause (Sched/Taint.v): after BEGIN(i, t, m), however the run continues, every step of i that has an external
   cause begins after m.  "External cause" is a ghost component X of the run: at the BEGIN it holds every queued or
   in-flight step of every simulator except the step t of i itself; what an external step schedules (its next
   self-step, the steps its outputs trigger) is external; what i's own step t - and every step demanded only by chains
   starting there - schedules is not.  The same provenance is reconstructed independently from the replies of the real
   simulators by the monitor P_C07 (harness/monitors.py) on every recorded trace. *)
From Coq Require Import ZArith List Bool Arith.
Import ListNotations.
From MV Require Import Time.Spec Sched.Timing Sched.Inv Sched.Init Sched.Wle Sched.Main Sched.Guards Sched.Final Sched.Taint Static.Groups Static.Connect Static.Build Sched.Plane Sched.Link Sched.Certify Sched.GenView Gen.SchedulerFns Sched.SchedTie.
Open Scope Z_scope.

Theorem C07_partial_bounds : forall st s i t m s', apply st s (EvBegin i t m) = Ok s' ->
  m <= until st /\ (anc st i = [] -> removeT t (nexts (s i)) = [] -> m = until st).
Proof. exact begin_max_advance. Qed.
Print Assumptions C07_partial_bounds.

Theorem C07_partial_le_until : forall st s i, max_advance st s i <= until st.
Proof. exact max_advance_le_until. Qed.
Print Assumptions C07_partial_le_until.

(* main clause, for every scenario with static_ok tables, every behaviour and interleaving *)
Theorem C07_no_external_step_in_window : forall st, static_ok st -> forall s i t m s',
  reached st s -> apply st s (EvBegin i t m) = Ok s' ->
  forall evs l, xrun st s' (ext0 s' i) evs = Ok l ->
  forall s2 X2 c m2 s3, In (s2, X2) ((s', ext0 s' i) :: l) -> apply st s2 (EvBegin i c m2) = Ok s3 ->
  In c (X2 i) -> m < thd c.
Proof. exact max_advance_sound. Qed.
Print Assumptions C07_no_external_step_in_window.

(* the ghost component does not influence the run, and every run has one *)
Theorem C07_ghost_erasure : forall st evs s X l0, run st s evs = Ok l0 -> exists l, xrun st s X evs = Ok l /\ map fst l = l0.
Proof. exact xrun_total. Qed.
Print Assumptions C07_ghost_erasure.

(* non-vacuity: A (time-based, step 1) -> B (event-based, trigger).  B begins its step at 0 and is promised m = 0; A's
   next step (external to B) triggers B at 1: that step is in X when B begins it, and 0 < 1 *)
Example C07_nonvacuous :
  let f := mkF true true false true true 0 false false true in
  let sc := mkScen [None] (fun _ => 0%nat) (fun i => if Nat.eqb i 0 then TimeBased else EventBased) 2
                   [mkConn 0 1 2 1 f false 0] [] 5 100 true true in
  match prepare 100 sc with
  | Prepared st dt t anc =>
      exists s s' l, reached st s /\ apply st s (EvBegin 1 [0] 0) = Ok s' /\
        xrun st s' (ext0 s' 1) [EvStep 1 None; EvBegin 0 [1] 5; EvStep 0 (Some 2); EvData 0 1 [2%nat]] = Ok l /\
        (let '(s2, X2) := List.last l (s', ext0 s' 1) in In [1] (X2 1%nat) /\ exists s3, apply st s2 (EvBegin 1 [1] 1) = Ok s3)
  | _ => False end.
Proof.
  vm_compute prepare. cbv beta iota.
  match goal with |- context [reached ?st _] => set (st0 := st) end.
  destruct (run st0 (init_state st0) [EvStart 0; EvStart 1; EvBegin 0 [0] 5; EvStep 0 (Some 1); EvData 0 0 [2%nat]]) as [l0|] eqn:E;
    [|vm_compute in E; discriminate].
  exists (List.last l0 (init_state st0)).
  vm_compute in E. injection E as <-.
  match goal with |- context [reached _ ?s0] => set (s := s0) end.
  destruct (apply st0 s (EvBegin 1 [0] 0)) as [s'|] eqn:Eb; [|vm_compute in Eb; discriminate].
  exists s'. vm_compute in Eb. injection Eb as <-.
  match goal with |- context [xrun _ ?s1 ?X ?evs] => destruct (xrun st0 s1 X evs) as [l|] eqn:Ex; [|vm_compute in Ex; discriminate] end.
  exists l. split; [|split; [reflexivity|split; [reflexivity|]]].
  - exists [EvStart 0; EvStart 1; EvBegin 0 [0] 5; EvStep 0 (Some 1); EvData 0 0 [2%nat]]. eexists. split; [vm_compute; reflexivity|reflexivity].
  - vm_compute in Ex. injection Ex as <-. split; [vm_compute; left; reflexivity|]. eexists. vm_compute. reflexivity.
Qed.

(* tie to the source: get_max_advance as regenerated from mosaik/scheduler.py on every run (Gen/SchedulerFns.v, translator
   harness/py2coq_sched.py) is the model's max_advance, on the view of the model state in which every triggering ancestor
   shows its queue and its current step *)
Theorem C07_generated_get_max_advance_is_the_model : forall st s i,
  get_max_advance (view st s i) (nexts (s i)) (cur (s i)) (until st) = max_advance st s i.
Proof. exact tie_get_max_advance. Qed.
Print Assumptions C07_generated_get_max_advance_is_the_model.

(* tie to the source: the table of triggering ancestors that max_advance reads.  World.cache_triggering_ancestors as regenerated
   from mosaik/scenario.py on every run (Gen/AncFns.v: the first loop nest and the body of the while loop; driver
   Static/GenAnc.v) computes the model's `ancestors` for the tables World.connect builds, when the trigger table lists the
   simulators in their order, one row each.  dirty.pop() takes the oldest element in both (Python leaves the order open). *)
From MV Require Import Static.Cycle Gen.AncFns Static.GenAnc Static.AncTie.
Theorem C07_generated_ancestors_are_the_model : forall fuel sims (t : tables), NoDup sims ->
  t_trig t = map (fun s => (s, aget_l s (t_trig t))) sims ->
  ancestors_gen fuel sims (fun s => aget_l s (t_trig t)) = ancestors fuel t.
Proof. exact tie_ancestors. Qed.
Print Assumptions C07_generated_ancestors_are_the_model.
Example C07_generated_ancestors_nonvacuous :
  let z := mkI 1 1 [0%Z] in let o := mkI 1 1 [1%Z] in
  let t := mkTables [] [] [] [(0%nat, [(0%nat, [(1%nat, z)])]); (1%nat, [(0%nat, [(2%nat, o)])]); (2%nat, [])] [] [] [] [] [] in
  NoDup [0%nat; 1%nat; 2%nat] /\ t_trig t = map (fun s => (s, aget_l s (t_trig t))) [0%nat; 1%nat; 2%nat] /\
  ancestors_gen 100 [0%nat; 1%nat; 2%nat] (fun s => aget_l s (t_trig t)) = Some (Some [(1%nat, [(0%nat, z)]); (2%nat, [(1%nat, o); (0%nat, o)])]).
Proof. vm_compute. repeat split; try reflexivity. repeat constructor; simpl; intuition discriminate. Qed.
(* the bound, stated of the regenerated get_max_advance itself *)
From MV Require Sched.SetupTie.
Theorem C07_generated_max_advance_never_exceeds_until : forall st s i,
  get_max_advance (view st s i) (nexts (s i)) (cur (s i)) (until st) <= until st.
Proof. exact MV.Sched.SetupTie.generated_max_advance_le_until. Qed.
Print Assumptions C07_generated_max_advance_never_exceeds_until.
