(* C07 - max_advance is a sound promise.
   Proved (C07_partial): m <= until always; m = until for a simulator without triggering ancestors and nothing else
   queued.  The main clause (no externally caused step inside (t, m]) is the boolean predicate P_C07 of
   harness/monitors.py evaluated on every recorded trace (causes reconstructed from the replies); its proof needs a
   second lower-bound invariant over external candidates and is not done. *)
From Coq Require Import ZArith List Bool Arith.
Import ListNotations.
From MV Require Import Time.Spec Sched.Timing Sched.Inv Sched.Init Sched.Wle Sched.Main Sched.Guards Sched.Final.
Open Scope Z_scope.

Theorem C07_partial_bounds : forall st s i t m s', apply st s (EvBegin i t m) = Ok s' ->
  m <= until st /\ (anc st i = [] -> removeT t (nexts (s i)) = [] -> m = until st).
Proof. exact begin_max_advance. Qed.
Print Assumptions C07_partial_bounds.

Theorem C07_partial_le_until : forall st s i, max_advance st s i <= until st.
Proof. exact max_advance_le_until. Qed.
Print Assumptions C07_partial_le_until.
