(* C08 - Order-consistent delay arithmetic for grouped (tiered) time.
   Statements are about Gen.TieredTime, the model regenerated from /repo/mosaik/tiered_time.py on every run.
   "Comparable" = equal shape (pre_length, cutoff, length): the situation in every flat, single-group or
   convex scenario.  For unequal cutoffs see the two _refuted lemmas at the end (known finding F13). *)
From Coq Require Import ZArith List Bool.
Import ListNotations.
From MV Require Import Prelude.Py Gen.TieredTime Gen.UpdateMin Time.Spec Time.Tie Time.GenLaws.
Open Scope Z_scope.

Theorem C08_trichotomy : forall a b, gwf a -> gwf b -> gsame a b ->
  (TieredInterval___lt__ a b = Ok true  /\ TieredInterval___eq__ a b = false /\ TieredInterval___gt__ a b = Ok false) \/
  (TieredInterval___lt__ a b = Ok false /\ TieredInterval___eq__ a b = true  /\ TieredInterval___gt__ a b = Ok false) \/
  (TieredInterval___lt__ a b = Ok false /\ TieredInterval___eq__ a b = false /\ TieredInterval___gt__ a b = Ok true).
Proof. exact gen_trichotomy. Qed.
Print Assumptions C08_trichotomy.

Theorem C08_gt_is_flipped_lt : forall a b, gwf a -> gwf b -> gsame a b ->
  TieredInterval___gt__ a b = TieredInterval___lt__ b a.
Proof. exact gen_gt_flip. Qed.
Print Assumptions C08_gt_is_flipped_lt.

Theorem C08_transitive : forall a b c, gwf a -> gwf b -> gwf c -> gsame a b -> gsame b c ->
  TieredInterval___lt__ a b = Ok true -> TieredInterval___lt__ b c = Ok true -> TieredInterval___lt__ a c = Ok true.
Proof. exact gen_lt_trans. Qed.
Print Assumptions C08_transitive.

Theorem C08_smaller_delay_never_later : forall t a b, gwf a -> gwf b -> gsame a b ->
  py_len t = TieredInterval_pre_length a -> TieredInterval___lt__ a b = Ok true ->
  exists ta tb, TieredTime___add__ (mk_TieredTime t) a = Ok (mk_TieredTime ta) /\
                TieredTime___add__ (mk_TieredTime t) b = Ok (mk_TieredTime tb) /\
                TieredTime___lt__ (mk_TieredTime ta) (mk_TieredTime tb) = Ok true.
Proof. exact gen_smaller_not_later. Qed.
Print Assumptions C08_smaller_delay_never_later.

Theorem C08_never_backwards : forall t a, gwf a -> py_len t = TieredInterval_pre_length a -> gnonneg a = true ->
  exists t', TieredTime___add__ (mk_TieredTime t) a = Ok (mk_TieredTime t') /\
    tle (firstn (Z.to_nat (TieredInterval_cutoff a)) t) (firstn (Z.to_nat (TieredInterval_cutoff a)) t') = true /\
    thd t <= thd t'.
Proof. exact gen_never_backwards. Qed.
Print Assumptions C08_never_backwards.

Theorem C08_associative : forall a b c, gwf a -> gwf b -> gwf c ->
  py_len (TieredInterval_tiers a) = TieredInterval_pre_length b ->
  py_len (TieredInterval_tiers b) = TieredInterval_pre_length c ->
  exists ab bc r, TieredInterval___add__ a b = Ok ab /\ TieredInterval___add__ b c = Ok bc /\
     TieredInterval___add__ ab c = Ok r /\ TieredInterval___add__ a bc = Ok r.
Proof. exact gen_assoc. Qed.
Print Assumptions C08_associative.

Theorem C08_action : forall t a b, gwf a -> gwf b ->
  py_len t = TieredInterval_pre_length a ->
  py_len (TieredInterval_tiers a) = TieredInterval_pre_length b ->
  exists ta ab r, TieredTime___add__ (mk_TieredTime t) a = Ok ta /\ TieredInterval___add__ a b = Ok ab /\
     TieredTime___add__ ta b = Ok r /\ TieredTime___add__ (mk_TieredTime t) ab = Ok r.
Proof. exact gen_action. Qed.
Print Assumptions C08_action.

(* every TieredInterval the code can construct satisfies gwf (so the hypotheses above are not vacuous) *)
Theorem C08_constructor_wf : forall tiers c p g, TieredInterval_new tiers c p = Ok g -> gwf g.
Proof. exact tie_new_gwf. Qed.
Print Assumptions C08_constructor_wf.

(* non-vacuity: concrete comparable delays meeting every hypothesis *)
Example C08_nonvacuous :
  let a := mk_TieredInterval 2 2 [1;0;3] in let b := mk_TieredInterval 2 2 [1;2;0] in
  gwf a /\ gwf b /\ gsame a b /\ TieredInterval___lt__ a b = Ok true /\ py_len [4;1] = TieredInterval_pre_length a
  /\ gnonneg a = true.
Proof. unfold gwf, gsame, py_len; simpl. repeat split; try reflexivity; try discriminate. Qed.

(* not order-consistent: delays of different cutoff (recorded as known finding F13; excluded by gsame) *)
Theorem C08_mixed_cutoff_unsound_refuted :
  exists a b t ta tb, gwf a /\ gwf b /\ TieredInterval___lt__ a b = Ok true /\
    TieredTime___add__ (mk_TieredTime t) a = Ok ta /\ TieredTime___add__ (mk_TieredTime t) b = Ok tb /\
    TieredTime___lt__ tb ta = Ok true.
Proof. exact mixed_cutoff_unsound_refuted. Qed.
Theorem C08_mixed_cutoff_incomparable_reachable :
  exists a b, gwf a /\ gwf b /\ TieredInterval___lt__ a b = AssertFail.
Proof. exact mixed_cutoff_incomparable_reachable. Qed.
