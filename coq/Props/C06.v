(* C06 - Cycle detection is exact.
   Full statement (rejected <=> some cycle is unresolved, where a cycle is resolved by a time-shifted connection or by
   a weak connection whose enclosing group contains the whole cycle): the independent predicate spec_unresolved of
   harness/props/c06.py, compared exhaustively with the implementation and the extracted model on all small
   multigraphs x group placements.
   Proved here (C06_partial): the cycle named in the error is real - a closed walk of the input-delay graph
   whose combined delay is zero in every tier - for every graph, any number of simulators and tiers; the check is
   performed by World.run before any simulator task exists (Sched/Link.prepare has no events).
   Missing: completeness (every unresolved cycle is found) needs the minimality of the closure fixpoint. *)
From Coq Require Import ZArith List Bool Arith.
Import ListNotations.
From MV Require Import Time.Spec Static.Groups Static.Connect Static.Build Static.Cycle Static.CycleP.

Theorem C06_partial_reported_cycle_is_real : forall ind fuel sims path, wk_indel ind = true ->
  cycle_check fuel ind sims = CycRejected path ->
  exists s d, hd_error path = Some s /\ last path 0%nat = s /\ walk_delay ind path = Some d /\ izero d = true /\ In s sims.
Proof. exact rejected_path_is_zero_cycle_wk. Qed.
Print Assumptions C06_partial_reported_cycle_is_real.

(* non-vacuity: A -> B plain, B -> A plain is rejected with the cycle [A; B; A] *)
Example C06_nonvacuous :
  let z := mkI 1 1 [0%Z] in
  let ind := [(1%nat, [(0%nat, z)]); (0%nat, [(1%nat, z)])] in
  wk_indel ind = true /\ cycle_check 100 ind [0%nat; 1%nat] = CycRejected [0%nat; 1%nat; 0%nat].
Proof. vm_compute. split; reflexivity. Qed.
