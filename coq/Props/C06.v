(* C06 - Cycle detection is exact.
   Full statement (rejected <=> some cycle is unresolved, where a cycle is resolved by a time-shifted connection or by
   a weak connection whose enclosing group contains the whole cycle): the independent predicate spec_unresolved of
   harness/props/c06.py, compared exhaustively with the implementation and the extracted model on all small
   multigraphs x group placements.
   Proved here: soundness of a rejection for every graph, any number of simulators and tiers - the cycle named in the
   error is real: a closed walk of the input-delay graph whose combined delay is zero in every tier
   (C06_reported_cycle_is_real); the check is performed by World.run before any simulator task exists
   (Sched/Link.prepare has no events).  Completeness for input-delay tables whose delays all have the same shape (flat
   scenarios and scenarios whose simulators all sit in one group): if the check accepts, every closed walk through a
   simulator has a non-zero combined delay and contains a resolving (time-shifted or weak) connection
   (C06_accepted_cycles_are_resolved; worklist invariant of Static/CycleC.v).
   Missing (C06_partial): completeness when delays of different shapes meet (nested / sibling groups), where the order
   on delays is partial (known finding F9 lives there). *)
From Coq Require Import ZArith List Bool Arith.
Import ListNotations.
From MV Require Import Time.Spec Static.Groups Static.Connect Static.Build Static.Cycle Static.CycleP Static.CycleC.

Theorem C06_reported_cycle_is_real : forall ind fuel sims path, wk_indel ind = true ->
  cycle_check fuel ind sims = CycRejected path ->
  exists s d, hd_error path = Some s /\ last path 0%nat = s /\ walk_delay ind path = Some d /\ izero d = true /\ In s sims.
Proof. exact rejected_path_is_zero_cycle_wk. Qed.
Print Assumptions C06_reported_cycle_is_real.

(* non-vacuity: A -> B plain, B -> A plain is rejected with the cycle [A; B; A] *)
Example C06_nonvacuous :
  let z := mkI 1 1 [0%Z] in
  let ind := [(1%nat, [(0%nat, z)]); (0%nat, [(1%nat, z)])] in
  wk_indel ind = true /\ cycle_check 100 ind [0%nat; 1%nat] = CycRejected [0%nat; 1%nat; 0%nat].
Proof. vm_compute. split; reflexivity. Qed.

Theorem C06_accepted_cycles_are_resolved : forall ind D sims fuel,
  wk_indel ind = true -> uni_indel D ind = true -> cov_indel ind sims = true ->
  cycle_check fuel ind sims = CycAccepted ->
  forall p s W, hd_error p = Some s -> last p 0%nat = s -> In s sims -> walk_delay ind p = Some W ->
  izero W = false /\ all_zero ind p = false.
Proof. exact accepted_cycles_are_resolved. Qed.
Print Assumptions C06_accepted_cycles_are_resolved.

(* non-vacuity: A -> B plain, B -> A time-shifted is accepted, the premises hold, and the cycle A B A has delay 1 *)
Example C06_complete_nonvacuous :
  let z := mkI 1 1 [0%Z] in let o := mkI 1 1 [1%Z] in
  let ind := [(1%nat, [(0%nat, z)]); (0%nat, [(1%nat, o)])] in
  wk_indel ind = true /\ uni_indel 1 ind = true /\ cov_indel ind [0%nat; 1%nat] = true /\
  cycle_check 100 ind [0%nat; 1%nat] = CycAccepted /\ walk_delay ind [0%nat; 1%nat; 0%nat] = Some o.
Proof. vm_compute. repeat split; reflexivity. Qed.

(* tie to the source: World.ensure_no_dataflow_cycles as regenerated from mosaik/scenario.py on every run (Gen/CycleFns.v: the
   initial table, the body of the while loop with its path bookkeeping, the final zero-delay test; driver Static/GenCycle.v)
   gives the verdict - and, on rejection, the path - of the model's cycle_check, when the input-delay table lists the
   simulators in their order, one row each.  dirty.pop() takes the oldest element in both (Python leaves the order open). *)
From MV Require Import Gen.CycleFns Static.GenCycle Static.CycleTie.
Theorem C06_generated_cycle_check_is_the_model : forall fuel ind sims, ind = map (fun s => (s, aget_l s ind)) sims ->
  cycle_check_gen fuel sims (fun s => aget_l s ind) = cycle_check fuel ind sims.
Proof. exact tie_cycle_check. Qed.
Print Assumptions C06_generated_cycle_check_is_the_model.
Example C06_generated_nonvacuous :
  let z := mkI 1 1 [0%Z] in
  let ind := [(0%nat, [(1%nat, z)]); (1%nat, [(0%nat, z)])] in
  ind = map (fun s => (s, aget_l s ind)) [0%nat; 1%nat] /\ cycle_check_gen 100 [0%nat; 1%nat] (fun s => aget_l s ind) = CycRejected [0%nat; 1%nat; 0%nat].
Proof. vm_compute. split; reflexivity. Qed.

(* known finding F9 as a theorem about the model: "the check either accepts or rejects with a cycle" is FALSE once delays of
   different shapes meet.  Witness (known_findings.json F9: four simulators in one group, a fifth outside; 0 -> 4 -> 1 plain,
   1 -> 3, 3 -> 2 and 0 -> 2 weak): the tables World.connect builds make the closure compare 0|0(2) with 0:0|(2), which are
   neither <, = nor > - update_min's assertion fires (CycIncomparable), whatever the order in which the simulators are taken. *)
From MV Require Static.F9h.
Theorem C06_only_accept_or_reject_refuted :
  exists t, build [None; Some 0%nat] (fun i => if Nat.eqb i 4 then 0%nat else 1%nat) Static.F9h.f9_conns = BOk t /\
            cycle_check 1000 (t_indel t) [0; 1; 2; 3; 4]%nat = CycIncomparable /\
            cycle_check 1000 (t_indel t) [4; 3; 2; 1; 0]%nat = CycIncomparable.
Proof. exact Static.F9h.only_accept_or_reject_refuted. Qed.
Print Assumptions C06_only_accept_or_reject_refuted.

(* known finding F9h as a theorem about the model (Static/F9h.v): on a non-convex scenario the closure loop of the cycle check need
   not terminate, and whether it does depends on the order in which the worklist hands out the simulators (Python: set.pop()).
   The six simulators of the witness (three in a group, two in a nested group, one outside) taken in the order 0..5 are rejected
   with a cycle; taken in the order 4,0,2,3,5,1 the loop never ends: its control flow does not look at the recorded paths, the
   path-free image of its state after 60 iterations comes back 8 iterations later (two delays of equal tiers and different cutoff
   keep replacing each other), so it is alive after any number of iterations - the check runs out of EVERY amount of fuel. *)
From MV Require Static.F9h.
Theorem C06_closure_terminates_refuted :
  (exists t, Static.F9h.f9h_build = BOk t /\ t_indel t = Static.F9h.f9h_ind) /\
  (forall fuel, cycle_check fuel Static.F9h.f9h_ind [4; 0; 2; 3; 5; 1]%nat = CycFuel) /\
  (exists p, cycle_check 100 Static.F9h.f9h_ind [0; 1; 2; 3; 4; 5]%nat = CycRejected p).
Proof. split; [exact Static.F9h.f9h_builds|]. split; [exact Static.F9h.f9h_closure_never_ends|exact Static.F9h.f9h_other_order_rejects]. Qed.
Print Assumptions C06_closure_terminates_refuted.

(* the property theorems, stated of the regenerated source itself (for tables in normal form): *)
Theorem C06_generated_reported_cycle_is_real : forall ind fuel sims path, ind = map (fun s => (s, aget_l s ind)) sims -> wk_indel ind = true ->
  cycle_check_gen fuel sims (fun s => aget_l s ind) = CycRejected path ->
  exists s d, hd_error path = Some s /\ last path 0%nat = s /\ walk_delay ind path = Some d /\ izero d = true /\ In s sims.
Proof. exact generated_reported_cycle_is_real. Qed.
Print Assumptions C06_generated_reported_cycle_is_real.
Theorem C06_generated_accepted_cycles_are_resolved : forall ind D sims fuel, ind = map (fun s => (s, aget_l s ind)) sims ->
  wk_indel ind = true -> uni_indel D ind = true -> cov_indel ind sims = true ->
  cycle_check_gen fuel sims (fun s => aget_l s ind) = CycAccepted ->
  forall p s W, hd_error p = Some s -> last p 0%nat = s -> In s sims -> walk_delay ind p = Some W ->
  izero W = false /\ all_zero ind p = false.
Proof. exact generated_accepted_cycles_are_resolved. Qed.
Print Assumptions C06_generated_accepted_cycles_are_resolved.
