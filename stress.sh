#!/bin/bash
export VERIF_EVIDENCE_DIR=/verif/build/evidence-scratch
# dev aid: all quick checks on the unchanged tree for several seeds, 9 at a time; prints every alarm
cd /verif; mkdir -p build/stress
for seed in "$@"; do
  echo C01 C02 C03 C04 C05 C06 C07 C08 C09 C10 C11 C12 C13 C14 C15 C16 C17 C18 | tr ' ' '\n' | xargs -P 9 -I{} sh -c "VERIF_SEED=$seed ./check {} > build/stress/{}.$seed.out 2>&1; echo \$? > build/stress/{}.$seed.rc"
  for p in C01 C02 C03 C04 C05 C06 C07 C08 C09 C10 C11 C12 C13 C14 C15 C16 C17 C18; do
    rc=$(cat build/stress/$p.$seed.rc); if [ "$rc" != "0" ]; then echo "ALARM seed=$seed $p rc=$rc"; grep VIOLATION build/stress/$p.$seed.out; fi
  done
  echo "seed $seed done"
done
