#!/bin/bash
export VERIF_EVIDENCE_DIR=/verif/build/evidence-scratch
# dev aid: apply a seeded change to /repo, run the given checks, undo.  usage: seedtest.sh <seed-dir> <Cxx> [<Cyy> ...]
d=$1; shift
git -C /repo apply /verif/seeded/$d/patch.diff || exit 2
for p in "$@"; do (cd /verif && ./check $p 2>&1 | grep -E '^VIOLATION|^KNOWN-FINDING|^\[C[0-9]+\]'); done
git -C /repo checkout -- .
git -C /repo status --short | head -3
