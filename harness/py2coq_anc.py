#!/usr/bin/env python3
"""Fail-closed translator for World.cache_triggering_ancestors (mosaik/scenario.py) -> Coq (Gen/AncFns.v).

The method is walked statement by statement, in source order, and two functions are emitted:
  anc_init_gen   the first loop nest: every triggering connection enters its source as an ancestor of its destination
                 (update_min keeps the smaller delay) and marks the destination dirty
  anc_step_gen   the body of `while dirty:` after `sim = dirty.pop()`: for every trigger of sim and every ancestor of sim the
                 composed delay is offered to the destination; a change marks the destination dirty
The ancestors of all simulators are one table (Static/Build.v anc_tab: destination -> ancestor -> delay; set2 assigns, keeping
the position of an existing key).  sim.triggers is a dict port -> list of (destination, delay), read through `triggers sim`.
`dirty` is a Python set: dirty.pop() order is not defined by Python; the driver loop takes the oldest (Static/GenAnc.v), as
the model does.  The ancestors of the popped simulator are read once per trigger, before the innermost loop (Python iterates
the live dict; it is only assigned to - for a simulator that triggers itself - at keys it already has, or Python would raise).
TieredInterval addition and update_min are the specifications Time.Spec.comp / upd_min (Time/Tie.v); update_min asserting
(incomparable delays) ends the function with None.

Vocabulary (anything else -> exit status 2):
  dirty: Set[SimRunner] = set()
  for sim in self.sims.values(): for port_triggers in sim.triggers.values(): for dest_sim, delay in port_triggers:
      new_delay = update_min(dest_sim.triggering_ancestors.get(sim), delay)
      if new_delay is not None: dest_sim.triggering_ancestors[sim] = new_delay
      dirty.add(dest_sim)
  while dirty: sim = dirty.pop()
      for port_triggers in sim.triggers.values(): for dest_sim, mid_to_dest in port_triggers:
          for src_sim, src_to_mid in sim.triggering_ancestors.items():
              src_to_dest = src_to_mid + mid_to_dest
              src_to_dest = update_min(dest_sim.triggering_ancestors.get(src_sim), src_to_dest)
              if src_to_dest is not None: dirty.add(dest_sim) ; dest_sim.triggering_ancestors[src_sim] = src_to_dest   (either order)
  return
Usage: py2coq_anc.py <repo> <outdir>
"""
import ast, os, sys


class Unsupported(Exception):
    pass


def bail(node, why=''):
    raise Unsupported(f"line {getattr(node, 'lineno', '?')}: {type(node).__name__} {why}")


def is_doc(st): return isinstance(st, ast.Expr) and isinstance(st.value, ast.Constant) and isinstance(st.value.value, str)


def for_loop(st, target, it, nbody):
    if not (isinstance(st, ast.For) and ast.unparse(st.target) == target and ast.unparse(st.iter) == it and not st.orelse and len(st.body) == nbody):
        bail(st, f'for {target} in {it}')
    return st.body


def gen_init(loop):
    b = for_loop(loop, 'sim', 'self.sims.values()', 1)
    b = for_loop(b[0], 'port_triggers', 'sim.triggers.values()', 1)
    b = for_loop(b[0], '(dest_sim, delay)', 'port_triggers', 3)
    u, c, d = b
    if ast.unparse(u) != 'new_delay = update_min(dest_sim.triggering_ancestors.get(sim), delay)': bail(u, 'update_min')
    if ast.unparse(c) != 'if new_delay is not None:\n    dest_sim.triggering_ancestors[sim] = new_delay': bail(c, 'store')
    if ast.unparse(d) != 'dirty.add(dest_sim)': bail(d, 'dirty.add')
    return ("Definition anc_init_gen (sims : list nat) (triggers : nat -> list (nat * list (nat * interval))) : option (anc_tab * list nat) :=\n"
            "  fold_left (fun acc sim =>\n"
            "    fold_left (fun acc (pt : nat * list (nat * interval)) => let port_triggers := snd pt in\n"
            "      fold_left (fun (acc : option (anc_tab * list nat)) (dd : nat * interval) => let '(dest_sim, delay) := dd in\n"
            "        match acc with None => None | Some (anc, dirty) =>\n"
            "          match upd_min (aget sim (aget_l dest_sim anc)) delay with\n"
            "          | None => None                                  (* update_min asserted *)\n"
            "          | Some new_delay =>\n"
            "              let anc := match new_delay with Some x => set2 dest_sim sim x anc | None => anc end in\n"
            "              Some (anc, add_dirty dest_sim dirty)\n"
            "          end end) port_triggers acc) (triggers sim) acc) sims (Some ([], [])).\n")


def gen_step(w):
    if not (isinstance(w, ast.While) and ast.unparse(w.test) == 'dirty' and not w.orelse and len(w.body) == 2): bail(w, 'while dirty')
    if ast.unparse(w.body[0]) != 'sim = dirty.pop()': bail(w.body[0], 'dirty.pop()')
    b = for_loop(w.body[1], 'port_triggers', 'sim.triggers.values()', 1)
    b = for_loop(b[0], '(dest_sim, mid_to_dest)', 'port_triggers', 1)
    b = for_loop(b[0], '(src_sim, src_to_mid)', 'sim.triggering_ancestors.items()', 3)
    s1, s2, s3 = b
    if ast.unparse(s1) == 'src_to_dest = src_to_mid + mid_to_dest': comp = 'comp src_to_mid mid_to_dest'
    elif ast.unparse(s1) == 'src_to_dest = mid_to_dest + src_to_mid': comp = 'comp mid_to_dest src_to_mid'
    else: bail(s1, 'composed delay')
    if ast.unparse(s2) != 'src_to_dest = update_min(dest_sim.triggering_ancestors.get(src_sim), src_to_dest)': bail(s2, 'update_min')
    if not (isinstance(s3, ast.If) and ast.unparse(s3.test) == 'src_to_dest is not None' and not s3.orelse and len(s3.body) == 2): bail(s3, 'update test')
    if sorted(ast.unparse(x) for x in s3.body) != sorted(['dirty.add(dest_sim)', 'dest_sim.triggering_ancestors[src_sim] = src_to_dest']): bail(s3, 'store and dirty.add')
    return ("Definition anc_step_gen (triggers : nat -> list (nat * list (nat * interval))) (anc : anc_tab) (sim : nat) (dirty : list nat) : option (anc_tab * list nat) :=\n"
            "  fold_left (fun acc (pt : nat * list (nat * interval)) => let port_triggers := snd pt in\n"
            "    fold_left (fun (acc : option (anc_tab * list nat)) (dd : nat * interval) => let '(dest_sim, mid_to_dest) := dd in\n"
            "      match acc with None => None | Some (anc0, dirty0) =>\n"
            "        fold_left (fun (acc2 : option (anc_tab * list nat)) (sd : nat * interval) => let '(src_sim, src_to_mid) := sd in\n"
            "          match acc2 with None => None | Some (anc, dirty) =>\n"
            f"            let src_to_dest := {comp} in\n"
            "            match upd_min (aget src_sim (aget_l dest_sim anc)) src_to_dest with\n"
            "            | None => None                              (* update_min asserted *)\n"
            "            | Some None => Some (anc, dirty)\n"
            "            | Some (Some src_to_dest) => Some (set2 dest_sim src_sim src_to_dest anc, add_dirty dest_sim dirty)\n"
            "            end end) (aget_l sim anc0) (Some (anc0, dirty0))\n"
            "      end) port_triggers acc) (triggers sim) (Some (anc, dirty)).\n")


def main():
    repo, outdir = sys.argv[1], sys.argv[2]
    tree = ast.parse(open(os.path.join(repo, 'mosaik', 'scenario.py')).read())
    cls = [n for n in tree.body if isinstance(n, ast.ClassDef) and n.name == 'World']
    if len(cls) != 1: raise Unsupported('class World not found')
    fns = [n for n in cls[0].body if isinstance(n, ast.FunctionDef) and n.name == 'cache_triggering_ancestors']
    if len(fns) != 1: raise Unsupported('World.cache_triggering_ancestors not found')
    fn = fns[0]
    if [a.arg for a in fn.args.args] != ['self']: bail(fn, 'signature')
    body = [s for s in fn.body if not is_doc(s)]
    if len(body) != 4: bail(fn, f'{len(body)} statements')
    if ast.unparse(body[0]) != 'dirty: Set[SimRunner] = set()': bail(body[0], 'dirty')
    if ast.unparse(body[3]) != 'return': bail(body[3], 'return')
    text = '\n'.join(["(* generated by harness/py2coq_anc.py from mosaik/scenario.py (World.cache_triggering_ancestors) -- do not edit; regenerated on every run *)",
                      "From Coq Require Import ZArith List Bool Arith.", "Import ListNotations.",
                      "From MV Require Import Time.Spec Static.Build Static.Cycle.", "", gen_init(body[1]), gen_step(body[2])])
    path = os.path.join(outdir, 'AncFns.v')
    if not os.path.exists(path) or open(path).read() != text:
        open(path, 'w').write(text)


if __name__ == '__main__':
    try:
        main()
    except Unsupported as e:
        sys.stderr.write(f'py2coq_anc: unsupported construct: {e}\n'); sys.exit(2)
    except SyntaxError as e:
        sys.stderr.write(f'py2coq_anc: {e}\n'); sys.exit(2)
