#!/usr/bin/env python3
"""Fail-closed translator for World.ensure_no_dataflow_cycles (mosaik/scenario.py) -> Coq (Gen/CycleFns.v).

The method is walked statement by statement, in source order, and three functions are emitted:
  cyc_init_gen   the dict comprehension {sim: {} for sim in self.sims.values()} and the loop that enters every simulator as a
                 descendant of its direct predecessors
  cyc_step_gen   the body of `while dirty:` after `mid_sim = dirty.pop()` - the two nested loops, the composed delay, update_min,
                 the table update with the new path, dirty.add
  zero_self_gen  the final loop: the first simulator (in the order of sim_descs, i.e. of self.sims) that has itself as a
                 descendant with an all-zero delay, and the path recorded for it
sim_descs is a dict of dicts (Static/Cycle.v dtab with d_get / d_set: assignment to an existing key keeps its position, a new
key is appended); its outer keys are exactly self.sims.values(), in that order, and are never added to (only inner dicts are
assigned to), which is why the final loop is emitted as a loop over the simulators.  `dirty` is a Python set; the order in
which dirty.pop() takes its elements is not defined by Python - the driver loop (Static/GenCycle.v) takes the oldest, as the
model does, and a new element is appended unless it is already there.  TieredInterval addition and update_min are the
specifications Time.Spec.comp / upd_min (equal to the translated functions by Time/Tie.v); update_min asserting (incomparable
delays) ends the step with None.

Vocabulary (anything else -> exit status 2):
  dirty: Set[SimRunner] = set(self.sims.values())
  sim_descs: Dict[...] = {sim: {} for sim in self.sims.values()}
  for sim in self.sims.values(): for pred, delay in sim.input_delays.items(): sim_descs[pred][sim] = (delay, [pred, sim])
  while dirty: mid_sim = dirty.pop()
      for src_sim, src_to_mid in mid_sim.input_delays.items():
          for dest_sim, (mid_to_dest, path) in sim_descs[mid_sim].items():
              src_to_dest = src_to_mid + mid_to_dest
              src_to_dest = update_min(sim_descs[src_sim].get(dest_sim, (None,))[0], src_to_dest)
              if src_to_dest is not None: sim_descs[src_sim][dest_sim] = (src_to_dest, <path expression>) ; dirty.add(src_sim)
      path expressions: [src_sim] + path ; path + [src_sim] ; path ; [src_sim, dest_sim]   (lists of names joined by +)
  for sim, descs in sim_descs.items(): if sim not in descs: continue ; (delay, path) = descs[sim] ;
      if all((t == 0 for t in delay.tiers)): raise ScenarioError(f"...{path}...")
  string constants used as comments are skipped
Usage: py2coq_cycle.py <repo> <outdir>
"""
import ast, os, sys


class Unsupported(Exception):
    pass


def bail(node, why=''):
    raise Unsupported(f"line {getattr(node, 'lineno', '?')}: {type(node).__name__} {why}")


def is_doc(st): return isinstance(st, ast.Expr) and isinstance(st.value, ast.Constant) and isinstance(st.value.value, str)


def list_expr(e, names):
    """a list built from names: [a, b] / path / X + Y"""
    if isinstance(e, ast.List) and all(isinstance(x, ast.Name) and x.id in names for x in e.elts):
        return '[' + '; '.join(x.id for x in e.elts) + ']'
    if isinstance(e, ast.Name) and e.id == 'path' and 'path' in names: return 'path'
    if isinstance(e, ast.BinOp) and isinstance(e.op, ast.Add): return f"({list_expr(e.left, names)} ++ {list_expr(e.right, names)})"
    bail(e, 'path expression ' + ast.unparse(e))


def gen_init(loop):
    if not (isinstance(loop, ast.For) and ast.unparse(loop.target) == 'sim' and ast.unparse(loop.iter) == 'self.sims.values()' and not loop.orelse and len(loop.body) == 1): bail(loop, 'loop over the simulators')
    inner = loop.body[0]
    if not (isinstance(inner, ast.For) and ast.unparse(inner.target) == '(pred, delay)' and ast.unparse(inner.iter) == 'sim.input_delays.items()' and not inner.orelse and len(inner.body) == 1): bail(inner, 'loop over the predecessors')
    a = inner.body[0]
    if not (isinstance(a, ast.Assign) and len(a.targets) == 1 and isinstance(a.value, ast.Tuple) and len(a.value.elts) == 2): bail(a, 'table entry')
    tgt = ast.unparse(a.targets[0])
    keys = {'sim_descs[pred][sim]': ('pred', 'sim'), 'sim_descs[sim][pred]': ('sim', 'pred')}
    if tgt not in keys: bail(a, 'table entry ' + tgt)
    d = a.value.elts[0]
    if not (isinstance(d, ast.Name) and d.id == 'delay'): bail(a, 'delay of the entry')
    k1, k2 = keys[tgt]
    return ("Definition cyc_init_gen (sims : list nat) (input_delays : nat -> list (nat * interval)) : dtab :=\n"
            "  let sim_descs : dtab := map (fun sim => (sim, [])) sims in\n"
            "  fold_left (fun sim_descs sim =>\n"
            "    fold_left (fun sim_descs (pd : nat * interval) => let '(pred, delay) := pd in\n"
            f"      d_set sim_descs {k1} {k2} (delay, {list_expr(a.value.elts[1], {'pred', 'sim'})})) (input_delays sim) sim_descs) sims sim_descs.\n")


def gen_step(w):
    if not (isinstance(w, ast.While) and ast.unparse(w.test) == 'dirty' and not w.orelse and len(w.body) == 2): bail(w, 'while dirty')
    if ast.unparse(w.body[0]) != 'mid_sim = dirty.pop()': bail(w.body[0], 'dirty.pop()')
    l1 = w.body[1]
    if not (isinstance(l1, ast.For) and ast.unparse(l1.target) == '(src_sim, src_to_mid)' and ast.unparse(l1.iter) == 'mid_sim.input_delays.items()' and not l1.orelse and len(l1.body) == 1): bail(l1, 'loop over the predecessors of mid_sim')
    l2 = l1.body[0]
    if not (isinstance(l2, ast.For) and ast.unparse(l2.target) == '(dest_sim, (mid_to_dest, path))' and ast.unparse(l2.iter) == 'sim_descs[mid_sim].items()' and not l2.orelse and len(l2.body) == 3): bail(l2, 'loop over the descendants of mid_sim')
    s1, s2, s3 = l2.body
    if ast.unparse(s1) == 'src_to_dest = src_to_mid + mid_to_dest': comp = 'comp src_to_mid mid_to_dest'
    elif ast.unparse(s1) == 'src_to_dest = mid_to_dest + src_to_mid': comp = 'comp mid_to_dest src_to_mid'
    else: bail(s1, 'composed delay')
    if ast.unparse(s2) != 'src_to_dest = update_min(sim_descs[src_sim].get(dest_sim, (None,))[0], src_to_dest)': bail(s2, 'update_min')
    if not (isinstance(s3, ast.If) and ast.unparse(s3.test) == 'src_to_dest is not None' and not s3.orelse and len(s3.body) == 2): bail(s3, 'update test')
    a, d = s3.body
    if not (isinstance(a, ast.Assign) and ast.unparse(a.targets[0]) == 'sim_descs[src_sim][dest_sim]' and isinstance(a.value, ast.Tuple) and len(a.value.elts) == 2
            and ast.unparse(a.value.elts[0]) == 'src_to_dest'): bail(a, 'table update')
    if ast.unparse(d) != 'dirty.add(src_sim)': bail(d, 'dirty.add')
    path = list_expr(a.value.elts[1], {'src_sim', 'dest_sim', 'mid_sim', 'path'})
    return ("Definition cyc_step_gen (input_delays : nat -> list (nat * interval)) (sim_descs : dtab) (mid_sim : nat) (dirty : list nat) : option (dtab * list nat) :=\n"
            "  fold_left (fun (acc : option (dtab * list nat)) (sp : nat * interval) => let '(src_sim, src_to_mid) := sp in\n"
            "    match acc with None => None | Some (sim_descs0, dirty0) =>\n"
            "      fold_left (fun (acc2 : option (dtab * list nat)) (de : nat * (interval * list nat)) => let '(dest_sim, (mid_to_dest, path)) := de in\n"
            "        match acc2 with None => None | Some (sim_descs, dirty) =>\n"
            f"          let src_to_dest := {comp} in\n"
            "          match upd_min (option_map fst (d_get sim_descs src_sim dest_sim)) src_to_dest with\n"
            "          | None => None                              (* update_min asserted: incomparable delays *)\n"
            "          | Some None => Some (sim_descs, dirty)       (* src_to_dest is None *)\n"
            f"          | Some (Some src_to_dest) => Some (d_set sim_descs src_sim dest_sim (src_to_dest, {path}), add_dirty src_sim dirty)\n"
            "          end end) (aget_l mid_sim sim_descs0) (Some (sim_descs0, dirty0))\n"
            "    end) (input_delays mid_sim) (Some (sim_descs, dirty)).\n")


def gen_final(loop):
    if not (isinstance(loop, ast.For) and ast.unparse(loop.target) == '(sim, descs)' and ast.unparse(loop.iter) == 'sim_descs.items()' and not loop.orelse and len(loop.body) == 3): bail(loop, 'final loop')
    c, u, t = loop.body
    if ast.unparse(c) != 'if sim not in descs:\n    continue': bail(c, 'self-descendant test')
    if ast.unparse(u) not in ('(delay, path) = descs[sim]', 'delay, path = descs[sim]'): bail(u, 'entry of the simulator itself')
    if not (isinstance(t, ast.If) and ast.unparse(t.test) == 'all((t == 0 for t in delay.tiers))' and not t.orelse and len(t.body) == 1 and isinstance(t.body[0], ast.Raise)
            and isinstance(t.body[0].exc, ast.Call) and ast.unparse(t.body[0].exc.func) == 'ScenarioError'): bail(t, 'zero-delay test')
    fmt = [v for v in ast.walk(t.body[0].exc) if isinstance(v, ast.FormattedValue)]
    if [ast.unparse(v.value) for v in fmt] != ['path']: bail(t, 'the error must name the recorded path')
    return ("Definition zero_self_gen (sims : list nat) (sim_descs : dtab) : option (list nat) :=\n"
            "  fold_left (fun (raised : option (list nat)) sim =>\n"
            "    match raised with Some p => Some p | None =>\n"
            "      match d_get sim_descs sim sim with\n"
            "      | None => None                                   (* if sim not in descs: continue *)\n"
            "      | Some (delay, path) => if izero delay then Some path else None\n"
            "      end end) sims None.\n")


def main():
    repo, outdir = sys.argv[1], sys.argv[2]
    tree = ast.parse(open(os.path.join(repo, 'mosaik', 'scenario.py')).read())
    cls = [n for n in tree.body if isinstance(n, ast.ClassDef) and n.name == 'World']
    if len(cls) != 1: raise Unsupported('class World not found')
    fns = [n for n in cls[0].body if isinstance(n, ast.FunctionDef) and n.name == 'ensure_no_dataflow_cycles']
    if len(fns) != 1: raise Unsupported('World.ensure_no_dataflow_cycles not found')
    fn = fns[0]
    if [a.arg for a in fn.args.args] != ['self']: bail(fn, 'signature')
    body = [s for s in fn.body if not is_doc(s)]
    if len(body) != 5: bail(fn, f'{len(body)} statements')
    if ast.unparse(body[0]) != 'dirty: Set[SimRunner] = set(self.sims.values())': bail(body[0], 'dirty')
    sd = body[1]
    if not (isinstance(sd, ast.AnnAssign) and ast.unparse(sd.target) == 'sim_descs' and ast.unparse(sd.value) == '{sim: {} for sim in self.sims.values()}'): bail(sd, 'sim_descs')
    parts = [gen_init(body[2]), gen_step(body[3]), gen_final(body[4])]
    text = '\n'.join(["(* generated by harness/py2coq_cycle.py from mosaik/scenario.py (World.ensure_no_dataflow_cycles) -- do not edit; regenerated on every run *)",
                      "From Coq Require Import ZArith List Bool Arith.", "Import ListNotations.",
                      "From MV Require Import Time.Spec Static.Build Static.Cycle.", ""] + parts)
    path = os.path.join(outdir, 'CycleFns.v')
    if not os.path.exists(path) or open(path).read() != text:
        open(path, 'w').write(text)


if __name__ == '__main__':
    try:
        main()
    except Unsupported as e:
        sys.stderr.write(f'py2coq_cycle: unsupported construct: {e}\n'); sys.exit(2)
    except SyntaxError as e:
        sys.stderr.write(f'py2coq_cycle: {e}\n'); sys.exit(2)
