#!/usr/bin/env python3
"""Fail-closed translator for the dict-merging helpers of mosaik/internal_util.py -> Coq (Gen/InternalUtil.v).

Translates merge_existing and merge_all: functions (merger, target, other) whose body is a docstring, one
`for k, v in <dict>.items():` loop that assigns `target[k] = ...` under an `if k in <dict>:` test, and `return target`.
Dicts are association lists with insertion order (Static/Build.v: aget, aset; assigning to an existing key keeps its
position, a new key is appended - as in a Python dict).  The loop runs over the items the iterated dict has when the
loop starts; the translator accepts an assignment to the iterated dict only for the key of the current item (which
leaves the item sequence unchanged) or, when another dict is iterated, any assignment to target.
`D[k]` is only accepted under the guard `k in D` of the enclosing if (it is then the value bound by the match).
Anything else in those two functions makes the translator exit with status 2 (a broken tie).  Other top-level
definitions of the file (imports, TypeVars, doc_link) are ignored.
Usage: py2coq_util.py <repo> <outdir>
"""
import ast, os, sys

WANTED = ('merge_existing', 'merge_all')


class Unsupported(Exception):
    pass


def bail(node, why=''):
    raise Unsupported(f"line {getattr(node, 'lineno', '?')}: {type(node).__name__} {why}")


def expr(e, kvar, vvar, bound):
    """bound: dict name -> Coq variable holding D[k] (inside `if k in D`)"""
    if isinstance(e, ast.Name):
        if e.id == vvar: return vvar
        bail(e, 'name ' + e.id)
    if isinstance(e, ast.Subscript):
        if isinstance(e.value, ast.Name) and isinstance(e.slice, ast.Name) and e.slice.id == kvar and e.value.id in bound:
            return bound[e.value.id]
        bail(e, 'subscript outside its guard')
    if isinstance(e, ast.Call):
        if isinstance(e.func, ast.Name) and e.func.id == 'merger' and len(e.args) == 2 and not e.keywords:
            return f"(merger {expr(e.args[0], kvar, vvar, bound)} {expr(e.args[1], kvar, vvar, bound)})"
        bail(e, 'call')
    bail(e)


def stmts(body, kvar, vvar, bound, iterated):
    """a block of the loop body as a Coq expression of the new target (state variable: target)"""
    if not body: return 'target'
    if len(body) != 1: bail(body[1], 'more than one statement in a block')
    st = body[0]
    if isinstance(st, ast.Assign):
        if len(st.targets) != 1: bail(st)
        t = st.targets[0]
        if not (isinstance(t, ast.Subscript) and isinstance(t.value, ast.Name) and t.value.id == 'target'
                and isinstance(t.slice, ast.Name) and t.slice.id == kvar):
            bail(st, 'assignment target')
        return f"(aset {kvar} {expr(st.value, kvar, vvar, bound)} target)"
    if isinstance(st, ast.If):
        c = st.test
        if not (isinstance(c, ast.Compare) and len(c.ops) == 1 and isinstance(c.ops[0], ast.In) and isinstance(c.left, ast.Name)
                and c.left.id == kvar and isinstance(c.comparators[0], ast.Name) and c.comparators[0].id in ('target', 'other')):
            bail(c, 'test')
        d = c.comparators[0].id
        if d in bound: bail(c, 'nested test on the same dict')
        var = f"{d}_k"
        b2 = dict(bound); b2[d] = var
        # (the state `target` may have been changed by earlier iterations, but only at keys of earlier items; membership
        #  and value of the CURRENT key are read from the current state when the dict is target)
        return (f"match aget {kvar} {d} with Some {var} => {stmts(st.body, kvar, vvar, b2, iterated)} "
                f"| None => {stmts(st.orelse, kvar, vvar, bound, iterated)} end")
    bail(st)


def function(fn):
    args = [a.arg for a in fn.args.args]
    if args != ['merger', 'target', 'other'] or fn.args.vararg or fn.args.kwarg or fn.args.kwonlyargs or fn.args.defaults:
        bail(fn, 'signature')
    body = list(fn.body)
    if body and isinstance(body[0], ast.Expr) and isinstance(body[0].value, ast.Constant) and isinstance(body[0].value.value, str):
        body = body[1:]
    if len(body) != 2: bail(fn, 'body shape')
    loop, ret = body
    if not (isinstance(ret, ast.Return) and isinstance(ret.value, ast.Name) and ret.value.id == 'target'): bail(ret, 'return')
    if not (isinstance(loop, ast.For) and not loop.orelse): bail(loop, 'loop')
    it = loop.iter
    if not (isinstance(it, ast.Call) and isinstance(it.func, ast.Attribute) and it.func.attr == 'items' and not it.args
            and isinstance(it.func.value, ast.Name) and it.func.value.id in ('target', 'other')):
        bail(it, 'iterator')
    iterated = it.func.value.id
    tg = loop.target
    if not (isinstance(tg, ast.Tuple) and len(tg.elts) == 2 and all(isinstance(x, ast.Name) for x in tg.elts)): bail(tg, 'loop variables')
    kvar, vvar = tg.elts[0].id, tg.elts[1].id
    if kvar in ('target', 'other', 'merger') or vvar in ('target', 'other', 'merger'): bail(tg, 'loop variable shadows a parameter')
    step = stmts(loop.body, kvar, vvar, {}, iterated)
    return (f"Definition {fn.name} {{V : Type}} (merger : V -> V -> V) (target other : list (nat * V)) : list (nat * V) :=\n"
            f"  fold_left (fun target (kv : nat * V) => let ({kvar}, {vvar}) := kv in\n    {step}) {iterated} target.\n")


def main():
    repo, outdir = sys.argv[1], sys.argv[2]
    src = open(os.path.join(repo, 'mosaik', 'internal_util.py')).read()
    tree = ast.parse(src)
    out = ["(* generated by harness/py2coq_util.py from mosaik/internal_util.py -- do not edit; regenerated on every run *)",
           "From Coq Require Import List Bool Arith.", "Import ListNotations.", "From MV Require Import Static.Build.", ""]
    found = {}
    for node in tree.body:
        if isinstance(node, ast.FunctionDef) and node.name in WANTED:
            found[node.name] = function(node)
    for name in WANTED:
        if name not in found: raise Unsupported(f'function {name} not found')
        out.append(found[name])
    text = '\n'.join(out)
    path = os.path.join(outdir, 'InternalUtil.v')
    if not os.path.exists(path) or open(path).read() != text:
        open(path, 'w').write(text)


if __name__ == '__main__':
    try:
        main()
    except Unsupported as e:
        sys.stderr.write(f'py2coq_util: unsupported construct: {e}\n'); sys.exit(2)
    except SyntaxError as e:
        sys.stderr.write(f'py2coq_util: {e}\n'); sys.exit(2)
